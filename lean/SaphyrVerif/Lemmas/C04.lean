import SaphyrVerif.Spec.Interp
/-!
Helper lemmas for C04, part 1 (specification level): fingerprint equality, `applyPolicy`, `dropSeen`.
-/
namespace SaphyrVerif.Lemmas.C04
open SaphyrVerif SaphyrVerif.Scalars SaphyrVerif.Pump SaphyrVerif.De SaphyrVerif.Spec

/-! ### `FP.beq` is equality -/

mutual
theorem beq_iff : ∀ (a b : FP), FP.beq a b = true ↔ a = b
  | .scalar v t, .scalar v' t' => by simp [FP.beq]
  | .seq a, .seq b => by simp [FP.beq, beqL_iff a b]
  | .map a, .map b => by simp [FP.beq, beqE_iff a b]
  | .scalar .., .seq .. => by simp [FP.beq]
  | .scalar .., .map .. => by simp [FP.beq]
  | .seq .., .scalar .. => by simp [FP.beq]
  | .seq .., .map .. => by simp [FP.beq]
  | .map .., .scalar .. => by simp [FP.beq]
  | .map .., .seq .. => by simp [FP.beq]
theorem beqL_iff : ∀ (a b : List FP), FP.beqL a b = true ↔ a = b
  | [], [] => by simp [FP.beqL]
  | x :: xs, y :: ys => by simp [FP.beqL, beq_iff x y, beqL_iff xs ys]
  | [], _ :: _ => by simp [FP.beqL]
  | _ :: _, [] => by simp [FP.beqL]
theorem beqE_iff : ∀ (a b : List (FP × FP)), FP.beqE a b = true ↔ a = b
  | [], [] => by simp [FP.beqE]
  | (k, v) :: xs, (k', v') :: ys => by simp [FP.beqE, beq_iff k k', beq_iff v v', beqE_iff xs ys, and_assoc]
  | [], _ :: _ => by simp [FP.beqE]
  | _ :: _, [] => by simp [FP.beqE]
end

theorem fp_beq_eq (a b : FP) : (a == b) = FP.beq a b := rfl

theorem fp_beq_iff' (a b : FP) : (a == b) = true ↔ a = b := by rw [fp_beq_eq]; exact beq_iff a b

theorem fp_beq_self (a : FP) : (a == a) = true := (fp_beq_iff' a a).2 rfl

/-- the duplicate test of the policies is list membership -/
theorem any_beq_iff (seen : List FP) (fp : FP) : seen.any (· == fp) = true ↔ fp ∈ seen := by
  simp only [List.any_eq_true, fp_beq_iff']
  constructor
  · rintro ⟨x, hx, rfl⟩; exact hx
  · intro h; exact ⟨fp, h, rfl⟩

theorem any_beq_false_iff (seen : List FP) (fp : FP) : seen.any (· == fp) = false ↔ fp ∉ seen := by
  rw [← any_beq_iff]; simp

/-! ### fingerprints forget exactly the presentation -/

mutual
/-- canonical node of a fingerprint -/
def unfp : FP → ENode
  | .scalar v tag => .scalar v tag none .plain 0 0
  | .seq items => .seq 0 0 none 0 0 (unfpL items)
  | .map entries => .map 0 0 0 (unfpE entries)
def unfpL : List FP → List ENode
  | [] => []
  | f :: fs => unfp f :: unfpL fs
def unfpE : List (FP × FP) → List (ENode × ENode)
  | [] => []
  | (k, v) :: es => (unfp k, unfp v) :: unfpE es
end

mutual
theorem fpOf_unfp : ∀ f : FP, fpOf (unfp f) = f
  | .scalar .. => by simp [unfp, fpOf]
  | .seq items => by simp [unfp, fpOf, fpOfL_unfpL items]
  | .map es => by simp [unfp, fpOf, fpOfE_unfpE es]
theorem fpOfL_unfpL : ∀ fs : List FP, fpOfL (unfpL fs) = fs
  | [] => by simp [unfpL, fpOfL]
  | f :: fs => by simp [unfpL, fpOfL, fpOf_unfp f, fpOfL_unfpL fs]
theorem fpOfE_unfpE : ∀ es : List (FP × FP), fpOfE (unfpE es) = es
  | [] => by simp [unfpE, fpOfE]
  | (k, v) :: es => by simp [unfpE, fpOfE, fpOf_unfp k, fpOf_unfp v, fpOfE_unfpE es]
end

/-! ### `applyPolicy` -/

/-- keys of an entry list (same as `Props.C04.keyFps`) -/
abbrev keys (es : List (ENode × ENode)) : List FP := es.map fun p => fpOf p.1

theorem applyPolicy_lastWins (own : List (ENode × ENode)) : ∀ seen, applyPolicy .lastWins own seen = some own := by
  induction own with
  | nil => intro seen; rfl
  | cons e rest ih =>
    intro seen
    obtain ⟨k, v⟩ := e
    simp [applyPolicy, ih]

/-- without repeated (or already seen) keys every policy keeps everything -/
theorem applyPolicy_nodup (p : DupPolicy) (own : List (ENode × ENode)) :
    ∀ seen, (keys own).Nodup → (∀ k ∈ keys own, k ∉ seen) → applyPolicy p own seen = some own := by
  induction own with
  | nil => intro seen _ _; rfl
  | cons e rest ih =>
    intro seen hnd hdis
    obtain ⟨k, v⟩ := e
    simp only [keys, List.map_cons, List.nodup_cons, List.mem_cons, forall_eq_or_imp] at hnd hdis
    have hk : seen.any (· == fpOf k) = false := (any_beq_false_iff _ _).2 hdis.1
    have hrest : applyPolicy p rest (fpOf k :: seen) = some rest := by
      apply ih _ hnd.2
      intro k' hk' hmem
      rcases List.mem_cons.1 hmem with h | h
      · exact hnd.1 (h ▸ hk')
      · exact hdis.2 k' hk' h
    cases p <;> simp [applyPolicy, hk, hrest]

theorem applyPolicy_error_none_iff (own : List (ENode × ENode)) :
    ∀ seen, applyPolicy .error own seen = none ↔ ¬ ((keys own).Nodup ∧ ∀ k ∈ keys own, k ∉ seen) := by
  induction own with
  | nil => intro seen; simp [applyPolicy]
  | cons e rest ih =>
    intro seen
    obtain ⟨k, v⟩ := e
    simp only [keys, List.map_cons, List.nodup_cons, List.mem_cons, forall_eq_or_imp]
    by_cases hk : fpOf k ∈ seen
    · have hk' : seen.any (· == fpOf k) = true := (any_beq_iff _ _).2 hk
      simp [applyPolicy, hk', hk]
    · have hk' : seen.any (· == fpOf k) = false := (any_beq_false_iff _ _).2 hk
      simp only [applyPolicy, hk', Bool.false_eq_true, if_false, Option.map_eq_none_iff, ih]
      simp only [keys, List.mem_cons, not_or]
      constructor
      · intro h ⟨⟨h1, h2⟩, _, h4⟩
        apply h
        refine ⟨h2, fun k' hk' => ⟨?_, h4 k' hk'⟩⟩
        rintro rfl; exact h1 hk'
      · intro h ⟨h1, h2⟩
        apply h
        refine ⟨⟨?_, h1⟩, hk, fun k' hk' => (h2 k' hk').2⟩
        intro hmem; exact (h2 _ hmem).1 rfl

/-- every policy returns a sublist of the entries -/
theorem applyPolicy_sublist (p : DupPolicy) (own : List (ENode × ENode)) :
    ∀ seen r, applyPolicy p own seen = some r → r.Sublist own := by
  induction own with
  | nil => intro seen r h; simp [applyPolicy] at h; subst h; exact List.Sublist.refl _
  | cons e rest ih =>
    intro seen r h
    obtain ⟨k, v⟩ := e
    cases p with
    | lastWins =>
      simp only [applyPolicy, Option.map_eq_some_iff] at h
      obtain ⟨r', h1, rfl⟩ := h
      exact (ih _ _ h1).cons_cons _
    | error =>
      simp only [applyPolicy] at h
      split at h
      · cases h
      · simp only [Option.map_eq_some_iff] at h
        obtain ⟨r', h1, rfl⟩ := h
        exact (ih _ _ h1).cons_cons _
    | firstWins =>
      simp only [applyPolicy] at h
      split at h
      · exact (ih _ _ h).cons _
      · simp only [Option.map_eq_some_iff] at h
        obtain ⟨r', h1, rfl⟩ := h
        exact (ih _ _ h1).cons_cons _

/-- `Error` and `FirstWins` results have no repeated keys and none of the keys seen before -/
theorem applyPolicy_nodup_of_ne_lastWins (p : DupPolicy) (hp : p ≠ .lastWins) (own : List (ENode × ENode)) :
    ∀ seen r, applyPolicy p own seen = some r → (keys r).Nodup ∧ ∀ k ∈ keys r, k ∉ seen := by
  induction own with
  | nil => intro seen r h; simp [applyPolicy] at h; subst h; simp [keys]
  | cons e rest ih =>
    intro seen r h
    obtain ⟨k, v⟩ := e
    have step : ∀ r', seen.any (· == fpOf k) = false → applyPolicy p rest (fpOf k :: seen) = some r' →
        (keys ((k, v) :: r')).Nodup ∧ ∀ k' ∈ keys ((k, v) :: r'), k' ∉ seen := by
      intro r' hk h1
      obtain ⟨hnd, hdis⟩ := ih _ _ h1
      have hk' := (any_beq_false_iff _ _).1 hk
      simp only [keys, List.map_cons, List.nodup_cons, List.mem_cons, forall_eq_or_imp]
      refine ⟨⟨fun hmem => (hdis _ hmem) (List.mem_cons_self ..), hnd⟩, hk', fun k' hk'' hmem => ?_⟩
      exact hdis k' hk'' (List.mem_cons_of_mem _ hmem)
    cases p with
    | lastWins => exact absurd rfl hp
    | error =>
      simp only [applyPolicy] at h
      split at h
      · cases h
      · rename_i hk
        simp only [Option.map_eq_some_iff] at h
        obtain ⟨r', h1, rfl⟩ := h
        exact step r' (by simpa using hk) h1
    | firstWins =>
      simp only [applyPolicy] at h
      split at h
      · exact ih _ _ h
      · rename_i hk
        simp only [Option.map_eq_some_iff] at h
        obtain ⟨r', h1, rfl⟩ := h
        exact step r' (by simpa using hk) h1

/-- `FirstWins` never fails and keeps an entry for every key not seen before -/
theorem applyPolicy_firstWins (own : List (ENode × ENode)) :
    ∀ seen, ∃ r, applyPolicy .firstWins own seen = some r ∧
      (∀ e ∈ own, fpOf e.1 ∈ seen ∨ ∃ e' ∈ r, fpOf e'.1 = fpOf e.1) := by
  induction own with
  | nil => intro seen; exact ⟨[], rfl, by simp⟩
  | cons e rest ih =>
    intro seen
    obtain ⟨k, v⟩ := e
    by_cases hk : fpOf k ∈ seen
    · have hk' : seen.any (· == fpOf k) = true := (any_beq_iff _ _).2 hk
      obtain ⟨r, h1, h2⟩ := ih seen
      refine ⟨r, by simp [applyPolicy, hk', h1], ?_⟩
      intro e he
      rcases List.mem_cons.1 he with rfl | he
      · exact Or.inl hk
      · exact h2 e he
    · have hk' : seen.any (· == fpOf k) = false := (any_beq_false_iff _ _).2 hk
      obtain ⟨r, h1, h2⟩ := ih (fpOf k :: seen)
      refine ⟨(k, v) :: r, by simp [applyPolicy, hk', h1], ?_⟩
      intro e he
      rcases List.mem_cons.1 he with rfl | he
      · exact Or.inr ⟨(k, v), List.mem_cons_self .., rfl⟩
      · rcases h2 e he with h | ⟨e', he', h⟩
        · rcases List.mem_cons.1 h with h | h
          · exact Or.inr ⟨(k, v), List.mem_cons_self .., h.symm⟩
          · exact Or.inl h
        · exact Or.inr ⟨e', List.mem_cons_of_mem _ he', h⟩

/-! ### `dropSeen` -/

theorem dropSeen_sublist (l : List (ENode × ENode)) : ∀ seen, (dropSeen l seen).Sublist l := by
  induction l with
  | nil => intro seen; exact List.Sublist.refl _
  | cons e rest ih =>
    intro seen
    obtain ⟨k, v⟩ := e
    simp only [dropSeen]
    split
    · exact (ih _).cons _
    · exact (ih _).cons_cons _

theorem dropSeen_nodup (l : List (ENode × ENode)) :
    ∀ seen, (keys (dropSeen l seen)).Nodup ∧ ∀ k ∈ keys (dropSeen l seen), k ∉ seen := by
  induction l with
  | nil => intro seen; simp [dropSeen, keys]
  | cons e rest ih =>
    intro seen
    obtain ⟨k, v⟩ := e
    simp only [dropSeen]
    split
    · exact ih seen
    · rename_i hk
      have hk' := (any_beq_false_iff _ _).1 (by simpa using hk)
      obtain ⟨hnd, hdis⟩ := ih (fpOf k :: seen)
      simp only [keys, List.map_cons, List.nodup_cons, List.mem_cons, forall_eq_or_imp]
      refine ⟨⟨fun hmem => (hdis _ hmem) (List.mem_cons_self ..), hnd⟩, hk', fun k' hk'' hmem => ?_⟩
      exact hdis k' hk'' (List.mem_cons_of_mem _ hmem)

end SaphyrVerif.Lemmas.C04
