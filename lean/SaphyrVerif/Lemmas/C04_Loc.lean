import SaphyrVerif.Lemmas.C16
import SaphyrVerif.Lemmas.C04_Capture
/-!
Helper lemmas for C04, location of the duplicate-key error (`MA::next_key_seed`, live path): the step of
`nextKey` that reports a repeated key, the start location of a captured node, and what `Events::at_alias`
(`Cur.atAlias`) answers after the look-ahead on the cursors of `Model/Pump.lean` / `Model/De.lean`:
`true` exactly when the pump has just injected an anchor buffer for an alias token, `false` for an event
straight from the parser, for every later event of a replayed buffer, and on recorded buffers.
-/
namespace SaphyrVerif.Lemmas.C04Loc
open SaphyrVerif SaphyrVerif.Scalars SaphyrVerif.Pump SaphyrVerif.De
open SaphyrVerif.Lemmas.C16 SaphyrVerif.Lemmas.Cursor SaphyrVerif.Spec
open SaphyrVerif.Lemmas.C04 (isOpen eflatten_eq_cons)

/-- the captured node starts at the event the look-ahead showed: `KeyNode.location()` is that event's mark -/
theorem capture_loc_of_peek {c c1 c2 : Cur} {ev : Ev} {key : KeyNode} {fuel : Nat}
    (hpk : c.peek = .ok (some ev) c1) (hcap : capture fuel c1 = .ok key c2) : key.loc = ev.loc := by
  obtain ⟨⟨n1, hn1⟩, -⟩ := cur_peek_then c ev c1 hpk
  cases fuel with
  | zero => simp [capture] at hcap
  | succ f =>
    rw [capture] at hcap
    simp only [hn1] at hcap
    cases ev with
    | scalar v tag rt st a l => cases hcap; rfl
    | seqStart a tag rt l =>
      simp only [] at hcap
      split at hcap
      · cases hcap
      · cases hcap; rfl
    | mapStart a l =>
      simp only [] at hcap
      split at hcap
      · cases hcap
      · cases hcap; rfl
    | seqEnd l => cases hcap
    | mapEnd l => cases hcap

/-- the reporting step of `next_key_seed`: nothing pending, not flushing, the look-ahead shows a node that is
captured as a key which is not `<<` and whose fingerprint has been seen — under the Error policy the call
fails with `DuplicateMappingKey` located at `if key_is_alias { reference_location() } else { key_node.location() }`
(the flag taken before the capture, the reference location after it), the
cursor left behind the captured key -/
theorem nextKey_dup_error (fuel : Nat) (cfg : Cfg) (hpol : cfg.dup = .error) (ks : Ty ⊕ Unit) (c c1 c2 : Cur) (m : MA)
    (hp : m.pending = []) (hf : m.flushingMerges = false)
    (ev : Ev) (hpk : c.peek = .ok (some ev) c1) (hne : ∀ l, ev ≠ .mapEnd l)
    (key : KeyNode) (hcap : capture fuel c1 = .ok key c2) (hmk : isMergeKey key = false)
    (hdup : m.seenContains key.fp = true) :
    nextKey (fuel + 1) cfg ks c m =
      .err ⟨"DuplicateMappingKey", if c1.atAlias then c2.refLoc else key.loc, 0⟩ c2 := by
  rw [nextKey]
  simp only [hp, hf, hpk, Bool.false_eq_true, if_false]
  cases ev with
  | mapEnd l => exact absurd rfl (hne l)
  | scalar v tag rt st a l => by_cases ha : c1.atAlias = true <;> simp [hcap, hmk, hpol, hdup, ha]
  | seqStart a tag rt l => by_cases ha : c1.atAlias = true <;> simp [hcap, hmk, hpol, hdup, ha]
  | mapStart a l => by_cases ha : c1.atAlias = true <;> simp [hcap, hmk, hpol, hdup, ha]
  | seqEnd l => by_cases ha : c1.atAlias = true <;> simp [hcap, hmk, hpol, hdup, ha]

/-! ### `at_alias` after the look-ahead -/

/-- recorded buffers are alias-expanded: `ReplayEvents` keeps the default answer -/
theorem atAlias_replay (buf : List Ev) (idx : Nat) (ref : Option Loc) : (Cur.replay buf idx ref).atAlias = false := rfl

theorem atAlias_live_nil (p : Pump) (inp : List RawItem) (h : p.inject = []) : (Cur.live p inp).atAlias = false := by
  simp [Cur.atAlias, h]

theorem atAlias_live_cons (p : Pump) (inp : List RawItem) (fr : InjectFrame) (frs : List InjectFrame)
    (h : p.inject = fr :: frs) : (Cur.live p inp).atAlias = (fr.idx == 1) := by
  simp [Cur.atAlias, h]

/-- a node event straight from the parser (scalar, sequence start, mapping start — with or without a budget):
the inject stack stays empty -/
theorem peek_node_inject_nil (p : Pump) (raw : Raw) (loc : Loc) (rest : List RawItem)
    (hl : p.look = none) (hi : p.inject = [])
    (hraw : (∃ v st a t, raw = .scalar v st a t) ∨ (∃ a t, raw = .seqStart a t) ∨ (∃ a t, raw = .mapStart a t)) :
    (Pump.peek p (.ev raw loc :: rest)).2.1.inject = [] := by
  have hpe : (Pump.peek p (.ev raw loc :: rest)).2.1.inject = (nextImpl p (.ev raw loc :: rest)).2.1.inject := by
    simp only [Pump.peek, hl]
    split
    · rename_i h; rw [h]
    · rfl
  rw [hpe]
  simp only [nextImpl, hi, serveInject]
  rcases hraw with ⟨v, st, a, t, rfl⟩ | ⟨a, t, rfl⟩ | ⟨a, t, rfl⟩
  · simp only [parserLoop]
    split
    · rfl
    · split
      · rfl
      · by_cases ha : (a != 0) = true <;> simp [ha]
  · simp only [parserLoop]
    split <;> rfl
  · simp only [parserLoop]
    split <;> rfl

/-! ### `capture` inside a window of recorded events

`W j c`: the cursor `c` stands at position `j` of `buf`; as long as the position is inside the window
(`j < n`) a successful `peek` / `next` shows / delivers `buf[j]` and keeps / advances the position.  A successful
`capture` started in front of the events of a tree that lies inside the window ends behind them — whatever the
cursor is (the control flow of `capture_node` depends on the kinds of the events only). -/

structure Win (buf : List Ev) (n : Nat) (W : Nat → Cur → Prop) : Prop where
  next : ∀ j c, W j c → j < n → ∀ o c', c.next = .ok o c' → o = buf[j]? ∧ W (j + 1) c'
  peek : ∀ j c, W j c → j < n → ∀ o c', c.peek = .ok o c' → o = buf[j]? ∧ W j c'

theorem capture_window {buf : List Ev} {n : Nat} {W : Nat → Cur → Prop} (hW : Win buf n W) (fuel : Nat) :
    (∀ (t : ENode) (j : Nat) (rest : List Ev) (c : Cur) (key : KeyNode) (c2 : Cur),
      buf.drop j = eflatten t ++ rest → j + (eflatten t).length ≤ n → W j c →
      capture fuel c = .ok key c2 → W (j + (eflatten t).length) c2) ∧
    (∀ (items : List ENode) (el : Loc) (j : Nat) (rest : List Ev) (c : Cur) (fps : List FP) (evs : List Ev)
      (r : List FP × List Ev) (c2 : Cur),
      buf.drop j = eflattenL items ++ .seqEnd el :: rest → j + (eflattenL items).length + 1 ≤ n → W j c →
      captureSeq fuel c fps evs = .ok r c2 → W (j + (eflattenL items).length + 1) c2) ∧
    (∀ (es : List (ENode × ENode)) (el : Loc) (j : Nat) (rest : List Ev) (c : Cur) (fps : List (FP × FP))
      (evs : List Ev) (r : List (FP × FP) × List Ev) (c2 : Cur),
      buf.drop j = eflattenE es ++ .mapEnd el :: rest → j + (eflattenE es).length + 1 ≤ n → W j c →
      captureMap fuel c fps evs = .ok r c2 → W (j + (eflattenE es).length + 1) c2) := by
  induction fuel with
  | zero =>
    refine ⟨fun _ _ _ _ _ _ _ _ _ h => ?_, fun _ _ _ _ _ _ _ _ _ _ _ _ h => ?_, fun _ _ _ _ _ _ _ _ _ _ _ _ h => ?_⟩
    · simp [capture] at h
    · simp [captureSeq] at h
    · simp [captureMap] at h
  | succ f ih =>
    obtain ⟨ihN, ihL, ihE⟩ := ih
    refine ⟨?_, ?_, ?_⟩
    · intro t j rest c key c2 hd hn hw hcap
      rw [capture] at hcap
      cases hnx : c.next with
      | err e c' => rw [hnx] at hcap; cases hcap
      | ok o c' =>
        rw [hnx] at hcap
        have hlen := C04.eflatten_length_pos t
        obtain ⟨ho, hw'⟩ := hW.next j c hw (by omega) o c' hnx
        cases t with
        | scalar v tag rt st a l =>
          simp only [eflatten, List.cons_append, List.nil_append] at hd
          rw [getElem?_of_drop_eq_cons hd] at ho
          subst ho
          simp only [R.ok.injEq] at hcap
          obtain ⟨-, rfl⟩ := hcap
          simpa [eflatten] using hw'
        | seq a tag rt l el items =>
          simp only [eflatten, List.cons_append, List.append_assoc, List.nil_append] at hd
          rw [getElem?_of_drop_eq_cons hd] at ho
          subst ho
          simp only [] at hcap
          simp only [C04.eflatten_seq_length] at hn ⊢
          cases hcs : captureSeq f c' [] [Ev.seqStart a tag rt l] with
          | err e c'' => rw [hcs] at hcap; cases hcap
          | ok r c'' =>
            rw [hcs] at hcap
            simp only [R.ok.injEq] at hcap
            obtain ⟨-, rfl⟩ := hcap
            have := ihL items el (j + 1) rest c' [] _ r c'' (drop_succ_of_drop_eq_cons hd) (by omega) hw' hcs
            have he : j + 1 + (eflattenL items).length + 1 = j + ((eflattenL items).length + 2) := by omega
            rw [← he]; exact this
        | map a l el es =>
          simp only [eflatten, List.cons_append, List.append_assoc, List.nil_append] at hd
          rw [getElem?_of_drop_eq_cons hd] at ho
          subst ho
          simp only [] at hcap
          simp only [C04.eflatten_map_length] at hn ⊢
          cases hcs : captureMap f c' [] [Ev.mapStart a l] with
          | err e c'' => rw [hcs] at hcap; cases hcap
          | ok r c'' =>
            rw [hcs] at hcap
            simp only [R.ok.injEq] at hcap
            obtain ⟨-, rfl⟩ := hcap
            have := ihE es el (j + 1) rest c' [] _ r c'' (drop_succ_of_drop_eq_cons hd) (by omega) hw' hcs
            have he : j + 1 + (eflattenE es).length + 1 = j + ((eflattenE es).length + 2) := by omega
            rw [← he]; exact this
    · intro items el j rest c fps evs r c2 hd hn hw hcap
      rw [captureSeq] at hcap
      cases hpk : c.peek with
      | err e c' => rw [hpk] at hcap; cases hcap
      | ok o c' =>
        rw [hpk] at hcap
        obtain ⟨ho, hw'⟩ := hW.peek j c hw (by omega) o c' hpk
        cases items with
        | nil =>
          simp only [eflattenL, List.nil_append] at hd
          rw [getElem?_of_drop_eq_cons hd] at ho
          subst ho
          simp only [] at hcap
          cases hnx : c'.next with
          | err e c'' => rw [hnx] at hcap; cases hcap
          | ok o2 c'' =>
            rw [hnx] at hcap
            simp only [R.ok.injEq] at hcap
            obtain ⟨-, rfl⟩ := hcap
            obtain ⟨-, hw''⟩ := hW.next j c' hw' (by omega) o2 c'' hnx
            simpa [eflattenL] using hw''
        | cons t ts =>
          obtain ⟨e, tl, hfl, hop⟩ := eflatten_eq_cons t
          have hd0 := hd
          simp only [eflattenL, List.append_assoc] at hd
          rw [hfl, List.cons_append] at hd
          rw [getElem?_of_drop_eq_cons hd] at ho
          subst ho
          simp only [C04.eflattenL_cons_length] at hn ⊢
          have hd1 : buf.drop j = eflatten t ++ (eflattenL ts ++ .seqEnd el :: rest) := by
            simpa [eflattenL, List.append_assoc] using hd0
          have hstep : (match capture f c' with
              | .err e c => R.err e c
              | .ok child c => captureSeq f c (fps ++ [child.fp]) (evs ++ child.events)) = .ok r c2 := by
            cases e <;> first | exact hcap | simp [isOpen] at hop
          cases hcp : capture f c' with
          | err e c'' => rw [hcp] at hstep; cases hstep
          | ok child c'' =>
            rw [hcp] at hstep
            have h1 := ihN t j _ c' child c'' hd1 (by omega) hw' hcp
            have h2 := ihL ts el (j + (eflatten t).length) rest c'' _ _ r c2
              (drop_add_of_drop_eq_append hd1) (by omega) h1 hstep
            have he : j + (eflatten t).length + (eflattenL ts).length + 1 =
                j + ((eflatten t).length + (eflattenL ts).length) + 1 := by omega
            rw [← he]; exact h2
    · intro es el j rest c fps evs r c2 hd hn hw hcap
      rw [captureMap] at hcap
      cases hpk : c.peek with
      | err e c' => rw [hpk] at hcap; cases hcap
      | ok o c' =>
        rw [hpk] at hcap
        obtain ⟨ho, hw'⟩ := hW.peek j c hw (by omega) o c' hpk
        cases es with
        | nil =>
          simp only [eflattenE, List.nil_append] at hd
          rw [getElem?_of_drop_eq_cons hd] at ho
          subst ho
          simp only [] at hcap
          cases hnx : c'.next with
          | err e c'' => rw [hnx] at hcap; cases hcap
          | ok o2 c'' =>
            rw [hnx] at hcap
            simp only [R.ok.injEq] at hcap
            obtain ⟨-, rfl⟩ := hcap
            obtain ⟨-, hw''⟩ := hW.next j c' hw' (by omega) o2 c'' hnx
            simpa [eflattenE] using hw''
        | cons kv ts =>
          obtain ⟨k, v⟩ := kv
          obtain ⟨e, tl, hfl, hop⟩ := eflatten_eq_cons k
          have hd0 := hd
          simp only [eflattenE, List.append_assoc] at hd
          rw [hfl, List.cons_append] at hd
          rw [getElem?_of_drop_eq_cons hd] at ho
          subst ho
          simp only [C04.eflattenE_cons_length] at hn ⊢
          have hd1 : buf.drop j = eflatten k ++ (eflatten v ++ (eflattenE ts ++ .mapEnd el :: rest)) := by
            simpa [eflattenE, List.append_assoc] using hd0
          have hstep : (match capture f c' with
              | .err e c => R.err e c
              | .ok k c =>
                match capture f c with
                | .err e c => R.err e c
                | .ok v c => captureMap f c (fps ++ [(k.fp, v.fp)]) (evs ++ k.events ++ v.events)) = .ok r c2 := by
            cases e <;> first | exact hcap | simp [isOpen] at hop
          cases hcp : capture f c' with
          | err e c'' => rw [hcp] at hstep; cases hstep
          | ok kn c'' =>
            rw [hcp] at hstep
            simp only [] at hstep
            have h1 := ihN k j _ c' kn c'' hd1 (by omega) hw' hcp
            cases hcv : capture f c'' with
            | err e c3 => rw [hcv] at hstep; cases hstep
            | ok vn c3 =>
              rw [hcv] at hstep
              simp only [] at hstep
              have h2 := ihN v (j + (eflatten k).length) _ c'' vn c3 (drop_add_of_drop_eq_append hd1) (by omega) h1 hcv
              have h3 := ihE ts el (j + (eflatten k).length + (eflatten v).length) rest c3 _ _ r c2
                (drop_add_of_drop_eq_append (drop_add_of_drop_eq_append hd1)) (by omega) h2 hstep
              have he : j + (eflatten k).length + (eflatten v).length + (eflattenE ts).length + 1 =
                  j + ((eflatten k).length + (eflatten v).length + (eflattenE ts).length) + 1 := by omega
              rw [← he]; exact h3

/-! ### a live cursor that replays an anchor buffer -/

/-- the pump replays the buffer `buf` of anchor `id` for an alias token at `aloc` and stands at position `j`
of it (the look-ahead slot, when filled, holds `buf[j]`, and the frame index is then one ahead) -/
def InFrame (aloc : Loc) (id : Nat) (buf : List Ev) (j : Nat) (c : Cur) : Prop :=
  ∃ p inp fr frs, c = .live p inp ∧ p.inject = fr :: frs ∧ fr.refLoc = aloc ∧ fr.anchorId = id ∧
    lookupAnchor p.anchors id = some buf ∧
    ((p.look = none ∧ fr.idx = j) ∨ (∃ e, p.look = some e ∧ buf[j]? = some e ∧ fr.idx = j + 1))

/-- while the frame is on the stack — also when it is exhausted — the use site is the alias token -/
theorem InFrame.refLoc {aloc : Loc} {id : Nat} {buf : List Ev} {j : Nat} {c : Cur} (h : InFrame aloc id buf j c) :
    c.refLoc = aloc := by
  obtain ⟨p, inp, fr, frs, rfl, hi, hr, -, -, -⟩ := h
  simp [Cur.refLoc, Pump.referenceLocation, hi, hr]

/-- the top frame serves its next event or fails (replay limit, budget); it never reports end of input -/
theorem serveInject_top_cases (p : Pump) (fr : InjectFrame) (frs : List InjectFrame) (buf : List Ev)
    (hb : lookupAnchor p.anchors fr.anchorId = some buf) (hidx : fr.idx < buf.length) :
    ∃ s q, serveInject p (fr :: frs) = (some s, q) ∧ q.inject = { fr with idx := fr.idx + 1 } :: frs ∧
      q.anchors = p.anchors ∧ q.look = p.look ∧
      ((∃ ev, s = .event ev ∧ buf[fr.idx]? = some ev) ∨ ∃ e, s = .error e) := by
  have hget : buf[fr.idx]? = some buf[fr.idx] := List.getElem?_eq_getElem hidx
  have hnot : ¬ (fr.idx ≥ buf.length) := by omega
  simp only [serveInject, hb, hnot, if_false, hget]
  split
  · exact ⟨_, _, rfl, rfl, rfl, rfl, Or.inr ⟨_, rfl⟩⟩
  · split
    · exact ⟨_, _, rfl, rfl, rfl, rfl, Or.inl ⟨_, rfl, rfl⟩⟩
    · split
      · exact ⟨_, _, rfl, rfl, rfl, rfl, Or.inr ⟨_, rfl⟩⟩
      · exact ⟨_, _, rfl, rfl, rfl, rfl, Or.inl ⟨_, rfl, rfl⟩⟩

theorem inFrame_win (aloc : Loc) (id : Nat) (buf : List Ev) : Win buf buf.length (InFrame aloc id buf) where
  next := by
    rintro j c ⟨p, inp, fr, frs, rfl, hi, hr, ha, hb, hl⟩ hj o c' hnx
    rcases hl with ⟨hl, hidx⟩ | ⟨e, hl, he, hidx⟩
    · obtain ⟨s, q, hs, hq1, hq2, hq3, hq4⟩ := serveInject_top_cases p fr frs buf (by rw [ha]; exact hb) (by omega)
      simp only [Cur.next, Pump.next, hl, nextImpl, hi, hs] at hnx
      rcases hq4 with ⟨ev, rfl, hev⟩ | ⟨er, rfl⟩
      · simp only [R.ok.injEq] at hnx
        obtain ⟨rfl, rfl⟩ := hnx
        refine ⟨by rw [← hidx]; exact hev.symm, q, inp, _, frs, rfl, hq1, hr, ha, by rw [hq2]; exact hb, Or.inl ⟨by rw [hq3]; exact hl, ?_⟩⟩
        simp [hidx]
      · simp at hnx
    · simp only [Cur.next, Pump.next, hl, R.ok.injEq] at hnx
      obtain ⟨rfl, rfl⟩ := hnx
      exact ⟨he.symm, _, inp, fr, frs, rfl, hi, hr, ha, hb, Or.inl ⟨rfl, hidx⟩⟩
  peek := by
    rintro j c ⟨p, inp, fr, frs, rfl, hi, hr, ha, hb, hl⟩ hj o c' hpk
    rcases hl with ⟨hl, hidx⟩ | ⟨e, hl, he, hidx⟩
    · obtain ⟨s, q, hs, hq1, hq2, hq3, hq4⟩ := serveInject_top_cases p fr frs buf (by rw [ha]; exact hb) (by omega)
      simp only [Cur.peek, Pump.peek, hl, nextImpl, hi, hs] at hpk
      rcases hq4 with ⟨ev, rfl, hev⟩ | ⟨er, rfl⟩
      · simp only [R.ok.injEq] at hpk
        obtain ⟨rfl, rfl⟩ := hpk
        refine ⟨by rw [← hidx]; exact hev.symm, _, inp, _, frs, rfl, hq1, hr, ha, by simpa [hq2] using hb,
          Or.inr ⟨ev, rfl, by rw [← hidx]; exact hev, ?_⟩⟩
        simp [hidx]
      · simp at hpk
    · simp only [Cur.peek, Pump.peek, hl, R.ok.injEq] at hpk
      obtain ⟨rfl, rfl⟩ := hpk
      exact ⟨he.symm, _, inp, fr, frs, rfl, hi, hr, ha, hb, Or.inr ⟨e, rfl, he, hidx⟩⟩

/-- a key (or any node) captured while the pump replays the complete node `t` of an alias from its first
event: the capture ends with the exhausted frame still on the stack, so `reference_location()` is still the
alias token -/
theorem capture_alias_refLoc {aloc : Loc} {id : Nat} (t : ENode) {c1 c2 : Cur} {key : KeyNode} {fuel : Nat}
    (h1 : InFrame aloc id (eflatten t) 0 c1) (hcap : capture fuel c1 = .ok key c2) : c2.refLoc = aloc := by
  have := (capture_window (inFrame_win aloc id (eflatten t)) fuel).1 t 0 [] c1 key c2 (by simp) (by simp) h1 hcap
  exact this.refLoc

/-! ### the look-ahead at an alias token, with or without a budget -/

/-- `Lemmas.C16.parserLoop_alias` without the "no budget" restriction: the budget only adds a way to fail -/
theorem parserLoop_alias_any (p : Pump) (id : Nat) (aloc : Loc) (rest : List RawItem) (buf : List Ev)
    (hi : p.inject = [])
    (hrec : p.recStack.any (fun f => f.id == id) = false)
    (hbuf : lookupAnchor p.anchors id = some buf) (hlen : 0 < buf.length) :
    ∃ s q, parserLoop p (.ev (.alias id) aloc :: rest) = (s, q, rest) ∧
      (∀ ev, s = .event ev → buf[0]? = some ev ∧
        q.inject = [{ anchorId := id, idx := 1, refLoc := aloc }] ∧ q.anchors = p.anchors) := by
  cases hbud : p.budget with
  | none => exact parserLoop_alias p id aloc rest buf hbud hi hrec hbuf hlen
  | some enf =>
    simp only [parserLoop, hbud, hi, hrec, hbuf]
    split
    · exact ⟨_, _, rfl, by intro ev h; cases h⟩
    · rename_i bud hob
      split
      · exact ⟨_, _, rfl, by intro ev h; cases h⟩
      · split
        · exact ⟨_, _, rfl, by intro ev h; cases h⟩
        · simp only [Bool.false_eq_true, if_false]
          obtain ⟨st, q, hs, hq1, hq2, _, hq4⟩ := serveInject_top
            { p with budget := bud,
                     perAnchor := (id, min (lookupCount p.perAnchor id + 1) Budget.USIZE_MAX) :: p.perAnchor,
                     inject := [{ anchorId := id, idx := 0, refLoc := aloc }] }
            { anchorId := id, idx := 0, refLoc := aloc } [] buf hbuf hlen
          rw [hs]
          exact ⟨_, _, rfl, by intro ev h; exact ⟨hq4 ev h, hq1, hq2⟩⟩

/-- the look-ahead at an alias token `*x` at `aloc` (nothing being replayed, not a recursive reference, the
anchor recorded with buffer `buf`): if it yields an event, that is `buf[0]`, the pump has pushed exactly the
frame of this alias, one event served — `at_alias` answers `true`, and the cursor is at position 0 of the
replayed buffer in the sense of `InFrame` -/
theorem peek_alias (p : Pump) (id : Nat) (aloc : Loc) (rest : List RawItem) (buf : List Ev)
    (ev : Ev) (p' : Pump) (r : List RawItem)
    (hl : p.look = none) (hi : p.inject = [])
    (hrec : p.recStack.any (fun f => f.id == id) = false)
    (hbuf : lookupAnchor p.anchors id = some buf) (hlen : 0 < buf.length)
    (h : Pump.peek p (.ev (.alias id) aloc :: rest) = (.event ev, p', r)) :
    buf[0]? = some ev ∧ (Cur.live p' r).atAlias = true ∧ InFrame aloc id buf 0 (.live p' r) := by
  obtain ⟨st, q, hs, hq⟩ := parserLoop_alias_any { p with look := none, inject := [] } id aloc rest buf rfl hrec hbuf hlen
  have hlk := pump_peek_look _ _ _ _ _ h
  have key : buf[0]? = some ev ∧ p'.inject = [{ anchorId := id, idx := 1, refLoc := aloc }] ∧ p'.anchors = p.anchors := by
    simp only [Pump.peek, hl, nextImpl, hi, serveInject, hs] at h
    cases st with
    | event e0 =>
      simp only [Prod.mk.injEq, Step.event.injEq] at h
      obtain ⟨rfl, rfl, rfl⟩ := h
      exact hq _ rfl
    | eof => simp at h
    | error err => simp at h
  obtain ⟨k1, k2, k3⟩ := key
  refine ⟨k1, by simp [Cur.atAlias, k2], p', r, _, [], rfl, k2, rfl, rfl, by rw [k3]; exact hbuf, Or.inr ⟨ev, hlk, k1, rfl⟩⟩

/-- the look-ahead while a buffer is being replayed (top frame `fr`, which has served `fr.idx ≥ 1` events —
`IdxPos` — and is not exhausted): the event is the next one of the buffer, `at_alias` answers `false`
(the frame index becomes `fr.idx + 1 ≥ 2`), and the use site stays the frame's alias token -/
theorem peek_in_frame (p : Pump) (inp : List RawItem) (fr : InjectFrame) (frs : List InjectFrame) (buf : List Ev)
    (ev : Ev) (p' : Pump) (r : List RawItem)
    (hl : p.look = none) (hi : p.inject = fr :: frs)
    (hb : lookupAnchor p.anchors fr.anchorId = some buf) (hidx : fr.idx < buf.length) (hpos : 1 ≤ fr.idx)
    (h : Pump.peek p inp = (.event ev, p', r)) :
    buf[fr.idx]? = some ev ∧ (Cur.live p' r).atAlias = false ∧ (Cur.live p' r).refLoc = fr.refLoc := by
  obtain ⟨s, q, hs, hq1, -, -, hq4⟩ := serveInject_top_cases p fr frs buf hb hidx
  simp only [Pump.peek, hl, nextImpl, hi, hs] at h
  rcases hq4 with ⟨e0, rfl, he0⟩ | ⟨er, rfl⟩
  · simp only [Prod.mk.injEq, Step.event.injEq] at h
    obtain ⟨rfl, rfl, rfl⟩ := h
    refine ⟨he0, ?_, ?_⟩
    · simp only [Cur.atAlias, hq1]
      simp; omega
    · simp [Cur.refLoc, Pump.referenceLocation, hq1]
  · simp at h

/-- a node item of the parser becomes an event that carries the item's location (or an error) -/
theorem parserLoop_node_loc (p : Pump) (raw : Raw) (loc : Loc) (rest : List RawItem)
    (hraw : (∃ v st a t, raw = .scalar v st a t) ∨ (∃ a t, raw = .seqStart a t) ∨ (∃ a t, raw = .mapStart a t))
    (s : Step) (q : Pump) (r : List RawItem) (hs : parserLoop p (.ev raw loc :: rest) = (s, q, r)) :
    ∀ ev, s = .event ev → ev.loc = loc := by
  rcases hraw with ⟨v, st, a, t, rfl⟩ | ⟨a, t, rfl⟩ | ⟨a, t, rfl⟩
  · simp only [parserLoop] at hs
    split at hs
    · simp only [Prod.mk.injEq] at hs; obtain ⟨rfl, -, -⟩ := hs; intro ev he; cases he
    · split at hs
      · simp only [Prod.mk.injEq] at hs; obtain ⟨rfl, -, -⟩ := hs; intro ev he; cases he
      · simp only [Prod.mk.injEq] at hs; obtain ⟨rfl, -, -⟩ := hs; intro ev he; cases he; rfl
  · simp only [parserLoop] at hs
    split at hs
    · simp only [Prod.mk.injEq] at hs; obtain ⟨rfl, -, -⟩ := hs; intro ev he; cases he
    · simp only [Prod.mk.injEq] at hs; obtain ⟨rfl, -, -⟩ := hs; intro ev he; cases he; rfl
  · simp only [parserLoop] at hs
    split at hs
    · simp only [Prod.mk.injEq] at hs; obtain ⟨rfl, -, -⟩ := hs; intro ev he; cases he
    · simp only [Prod.mk.injEq] at hs; obtain ⟨rfl, -, -⟩ := hs; intro ev he; cases he; rfl

/-- a node event straight from the parser carries the location of its parser item -/
theorem peek_node_loc (p : Pump) (raw : Raw) (loc : Loc) (rest : List RawItem) (ev : Ev) (p' : Pump) (r : List RawItem)
    (hl : p.look = none) (hi : p.inject = [])
    (hraw : (∃ v st a t, raw = .scalar v st a t) ∨ (∃ a t, raw = .seqStart a t) ∨ (∃ a t, raw = .mapStart a t))
    (h : Pump.peek p (.ev raw loc :: rest) = (.event ev, p', r)) : ev.loc = loc := by
  rcases hs : parserLoop { p with look := none, inject := [] } (.ev raw loc :: rest) with ⟨st, q, r'⟩
  have hloc := parserLoop_node_loc _ raw loc rest hraw st q r' hs
  simp only [Pump.peek, hl, nextImpl, hi, serveInject, hs] at h
  cases st with
  | event e0 =>
    simp only [Prod.mk.injEq, Step.event.injEq] at h
    obtain ⟨rfl, -, -⟩ := h
    exact hloc _ rfl
  | eof => simp at h
  | error err => simp at h

end SaphyrVerif.Lemmas.C04Loc
