import SaphyrVerif.Lemmas.C08_Step
import SaphyrVerif.Lemmas.C07
/-!
Helper lemmas for C08, part 2: what one skip step / one delivering step does to the replay counters, the
per-anchor counters, the budget counters and the number of buffered events.
-/
namespace SaphyrVerif.Lemmas.C08
open SaphyrVerif SaphyrVerif.Scalars SaphyrVerif.Pump SaphyrVerif.Budget SaphyrVerif.Spec

/-! ## replay counter -/

theorem Skip1.replayed {p q : Pump} (h : Skip1 p q) (hinv : p.totalReplayed ≤ p.limits.maxTotalReplayedEvents) :
    q.totalReplayed ≤ q.limits.maxTotalReplayedEvents ∧ q.limits = p.limits := by
  cases h <;> simp [Pump.resetDocumentState, hinv]

theorem Skips.replayed {p q : Pump} (h : Skips p q) (hinv : p.totalReplayed ≤ p.limits.maxTotalReplayedEvents) :
    q.totalReplayed ≤ q.limits.maxTotalReplayedEvents ∧ q.limits = p.limits := by
  induction h with
  | refl => exact ⟨hinv, rfl⟩
  | step h1 _ ih =>
    obtain ⟨a, b⟩ := h1.replayed hinv
    obtain ⟨c, d⟩ := ih a
    exact ⟨c, d.trans b⟩

theorem Deliver.replayed {q p' : Pump} {e : Ev} (h : Deliver q e p')
    (hinv : q.totalReplayed ≤ q.limits.maxTotalReplayedEvents) :
    p'.totalReplayed ≤ p'.limits.maxTotalReplayedEvents ∧ p'.limits = q.limits := by
  cases h <;> simp [hinv] <;> assumption

/-! ## per-anchor counters -/

theorem lookupCount_cons (cs : List (Nat × Nat)) (id c id' : Nat) :
    lookupCount ((id, c) :: cs) id' = if id = id' then c else lookupCount cs id' := by
  simp only [lookupCount, List.find?_cons]
  by_cases h : id = id'
  · simp [h]
  · have : (id == id') = false := by simpa using h
    simp [h, this]

theorem lookupCount_nil (id : Nat) : lookupCount [] id = 0 := rfl

theorem Skip1.perAnchor {p q : Pump} (h : Skip1 p q)
    (hinv : ∀ id, lookupCount p.perAnchor id ≤ p.limits.maxAliasExpansionsPerAnchor) :
    ∀ id, lookupCount q.perAnchor id ≤ q.limits.maxAliasExpansionsPerAnchor := by
  intro id'
  cases h <;> simp only [Pump.resetDocumentState, lookupCount_nil, lookupCount_cons, Nat.zero_le, hinv]
  split
  · assumption
  · exact hinv id'

theorem Skips.perAnchor {p q : Pump} (h : Skips p q)
    (hinv : ∀ id, lookupCount p.perAnchor id ≤ p.limits.maxAliasExpansionsPerAnchor) :
    ∀ id, lookupCount q.perAnchor id ≤ q.limits.maxAliasExpansionsPerAnchor := by
  induction h with
  | refl => exact hinv
  | step h1 _ ih => exact ih (h1.perAnchor hinv)

theorem Deliver.perAnchor {q p' : Pump} {e : Ev} (h : Deliver q e p')
    (hinv : ∀ id, lookupCount q.perAnchor id ≤ q.limits.maxAliasExpansionsPerAnchor) :
    ∀ id, lookupCount p'.perAnchor id ≤ p'.limits.maxAliasExpansionsPerAnchor := by
  intro id'
  cases h <;> simp only [lookupCount_cons, hinv]
  all_goals
    split
    · assumption
    · exact hinv id'

end SaphyrVerif.Lemmas.C08
