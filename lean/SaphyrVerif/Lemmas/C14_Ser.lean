import SaphyrVerif.Spec.Anchors
/-!
Helper lemmas for C14, serializer side: the pointer table only holds ids `1 … next-1`, every emitted id
is in that range, and — when every payload takes its anchor — the document is well scoped.
-/
namespace SaphyrVerif.Lemmas.C14
open SaphyrVerif.Anchors SaphyrVerif.Spec.Anchors

/-- every id of the pointer table lies in `1 … next-1` -/
def TableOK' (a : List (Ptr × Nat)) (n : Nat) : Prop := ∀ p id, a.lookup p = some id → 1 ≤ id ∧ id < n
def TableOK (s : SerSt) : Prop := TableOK' s.anchors s.next

/-- distinct pointers have distinct ids -/
def TableInj' (a : List (Ptr × Nat)) : Prop :=
  ∀ p q id, a.lookup p = some id → a.lookup q = some id → p = q
def TableInj (s : SerSt) : Prop := TableInj' s.anchors

theorem alloc_cases (s : SerSt) (p : Ptr) :
    (∃ id, s.anchors.lookup p = some id ∧ allocAnchorFor s p = (id, false, s)) ∨
    (s.anchors.lookup p = none ∧
      allocAnchorFor s p =
        (s.next, true, { s with anchors := (p, s.next) :: s.anchors, next := s.next + 1 })) := by
  unfold allocAnchorFor
  cases h : s.anchors.lookup p with
  | none => exact Or.inr ⟨rfl, rfl⟩
  | some id => exact Or.inl ⟨id, rfl, rfl⟩

theorem lookup_cons_self {β : Type} (p : Ptr) (b : β) (l : List (Ptr × β)) :
    List.lookup p ((p, b) :: l) = some b := by
  simp [List.lookup]

theorem lookup_cons_ne {β : Type} (p q : Ptr) (b : β) (l : List (Ptr × β)) (h : q ≠ p) :
    List.lookup q ((p, b) :: l) = List.lookup q l := by
  have : (q == p) = false := by simpa using h
  simp [List.lookup, this]

theorem tableOK_alloc (a : List (Ptr × Nat)) (n : Nat) (p : Ptr) (h : TableOK' a n) (h1 : 1 ≤ n) :
    TableOK' ((p, n) :: a) (n + 1) := by
  intro q id hq
  by_cases hqp : q = p
  · subst hqp
    rw [lookup_cons_self] at hq
    cases hq
    exact ⟨h1, Nat.lt_succ_self _⟩
  · rw [lookup_cons_ne _ _ _ _ hqp] at hq
    have := h q id hq
    exact ⟨this.1, Nat.lt_succ_of_lt this.2⟩

theorem tableInj_alloc (a : List (Ptr × Nat)) (n : Nat) (p : Ptr) (h : TableInj' a) (hok : TableOK' a n) :
    TableInj' ((p, n) :: a) := by
  intro a b id ha hb
  by_cases hap : a = p
  · by_cases hbp : b = p
    · rw [hap, hbp]
    · subst hap
      rw [lookup_cons_self] at ha
      rw [lookup_cons_ne _ _ _ _ hbp] at hb
      cases ha
      have := (hok b _ hb).2
      exact absurd this (Nat.lt_irrefl _)
  · by_cases hbp : b = p
    · subst hbp
      rw [lookup_cons_self] at hb
      rw [lookup_cons_ne _ _ _ _ hap] at ha
      cases hb
      have := (hok a _ ha).2
      exact absurd this (Nat.lt_irrefl _)
    · rw [lookup_cons_ne _ _ _ _ hap] at ha
      rw [lookup_cons_ne _ _ _ _ hbp] at hb
      exact h a b id ha hb

/-! ### monotonicity of `idsBelow` -/

mutual
theorem idsBelow_mono (n m : Nat) (h : n ≤ m) : ∀ o : Out, idsBelow n o = true → idsBelow m o = true
  | .leaf a k => by
    simp only [idsBelow, Bool.or_eq_true, Bool.and_eq_true, decide_eq_true_eq]
    intro h1
    rcases h1 with h1 | ⟨h1, h2⟩
    · exact Or.inl h1
    · exact Or.inr ⟨h1, Nat.lt_of_lt_of_le h2 h⟩
  | .alias id => by
    simp only [idsBelow, Bool.and_eq_true, decide_eq_true_eq]
    intro ⟨h1, h2⟩
    exact ⟨h1, Nat.lt_of_lt_of_le h2 h⟩
  | .node a isMap items => by
    simp only [idsBelow, Bool.or_eq_true, Bool.and_eq_true, decide_eq_true_eq]
    intro ⟨h1, h2⟩
    refine ⟨?_, idsBelowList_mono n m h items h2⟩
    rcases h1 with h1 | ⟨h1, h3⟩
    · exact Or.inl h1
    · exact Or.inr ⟨h1, Nat.lt_of_lt_of_le h3 h⟩
theorem idsBelowList_mono (n m : Nat) (h : n ≤ m) :
    ∀ os : List Out, idsBelowList n os = true → idsBelowList m os = true
  | [] => by simp [idsBelowList]
  | x :: xs => by
    simp only [idsBelowList, Bool.and_eq_true]
    intro ⟨h1, h2⟩
    exact ⟨idsBelow_mono n m h x h1, idsBelowList_mono n m h xs h2⟩
end

/-! ### every emitted id is in range (unconditional) -/

def PendRange (s : SerSt) : Prop := ∀ id, s.pending = some id → 1 ≤ id ∧ id < s.next

structure RangePost (s : SerSt) (o : Out) (s' : SerSt) : Prop where
  ids : idsBelow s'.next o = true
  tab : TableOK s'
  pend : PendRange s'
  mono : s.next ≤ s'.next
  inj : TableInj s'

theorem getD_range (s : SerSt) (h : PendRange s) :
    s.pending.getD 0 = 0 ∨ (1 ≤ s.pending.getD 0 ∧ s.pending.getD 0 < s.next) := by
  cases hp : s.pending with
  | none => exact Or.inl rfl
  | some id => exact Or.inr (h id hp)

abbrev RangeIH (fuel : Nat) (H : Heap) : Prop :=
  ∀ s v o s', serVal fuel H s v = .ok (o, s') → TableOK s → TableInj s → PendRange s → 1 ≤ s.next →
    RangePost s o s'

theorem ser_list_range (fuel : Nat) (H : Heap) (ih : RangeIH fuel H) :
    ∀ (items : List Val) (s : SerSt) (outs : List Out) (s' : SerSt),
      traverse (fun st x => serVal fuel H st x) s items = .ok (outs, s') →
      TableOK s → TableInj s → PendRange s → 1 ≤ s.next →
      idsBelowList s'.next outs = true ∧ TableOK s' ∧ PendRange s' ∧ s.next ≤ s'.next ∧ TableInj s' := by
  intro items
  induction items with
  | nil =>
    intro s outs s' h ht hi hp _
    simp only [traverse, Except.ok.injEq, Prod.mk.injEq] at h
    obtain ⟨rfl, rfl⟩ := h
    exact ⟨rfl, ht, hp, Nat.le_refl _, hi⟩
  | cons x xs ihl =>
    intro s outs s' h ht hi hp h1
    simp only [traverse] at h
    cases hx : serVal fuel H s x with
    | error e => rw [hx] at h; cases h
    | ok r =>
      obtain ⟨y, s1⟩ := r
      rw [hx] at h
      simp only at h
      cases hxs : traverse (fun st x => serVal fuel H st x) s1 xs with
      | error e => rw [hxs] at h; cases h
      | ok r2 =>
        obtain ⟨ys, s2⟩ := r2
        rw [hxs] at h
        simp only [Except.ok.injEq, Prod.mk.injEq] at h
        obtain ⟨rfl, rfl⟩ := h
        have p1 := ih s x y s1 hx ht hi hp h1
        have p2 := ihl s1 ys s2 hxs p1.tab p1.inj p1.pend (Nat.le_trans h1 p1.mono)
        refine ⟨?_, p2.2.1, p2.2.2.1, Nat.le_trans p1.mono p2.2.2.2.1, p2.2.2.2.2⟩
        simp only [idsBelowList, Bool.and_eq_true]
        exact ⟨idsBelow_mono _ _ p2.2.2.2.1 _ p1.ids, p2.1⟩

/-- the state in which the payload of a freshly allocated pointer is serialized -/
theorem fresh_state_ok (s : SerSt) (p : Ptr) (held : List Ptr) (ht : TableOK s) (hi : TableInj s) (h1 : 1 ≤ s.next) :
    let s0 : SerSt := { anchors := (p, s.next) :: s.anchors, next := s.next + 1, pending := some s.next, held := held }
    TableOK s0 ∧ TableInj s0 ∧ PendRange s0 ∧ 1 ≤ s0.next := by
  refine ⟨tableOK_alloc _ _ p ht h1, tableInj_alloc _ _ p hi ht, ?_, Nat.le_succ_of_le h1⟩
  intro id hid
  simp only [Option.some.injEq] at hid
  subst hid
  exact ⟨h1, Nat.lt_succ_self _⟩

theorem ser_range (H : Heap) : ∀ (fuel : Nat), RangeIH fuel H := by
  intro fuel
  induction fuel with
  | zero => intro s v o s' h; simp [serVal] at h
  | succ fuel ih =>
    intro s v o s' h ht hi hp h1
    cases v with
    | leaf k =>
      simp only [serVal] at h
      split at h
      · simp only [Except.ok.injEq, Prod.mk.injEq] at h
        obtain ⟨rfl, rfl⟩ := h
        refine ⟨?_, ht, ?_, Nat.le_refl _, hi⟩
        · simp only [idsBelow, Bool.or_eq_true, Bool.and_eq_true, decide_eq_true_eq]
          rcases getD_range s hp with h0 | h0
          · exact Or.inl h0
          · exact Or.inr h0
        · intro id hid; simp at hid
      · simp only [Except.ok.injEq, Prod.mk.injEq] at h
        obtain ⟨rfl, rfl⟩ := h
        exact ⟨by simp [idsBelow], ht, hp, Nat.le_refl _, hi⟩
    | node takes isMap items =>
      simp only [serVal] at h
      cases hl : traverse (fun st x => serVal fuel H st x)
          (if takes = true then { s with pending := none } else s) items with
      | error e => rw [hl] at h; cases h
      | ok r =>
        obtain ⟨outs, s2⟩ := r
        rw [hl] at h
        simp only [Except.ok.injEq, Prod.mk.injEq] at h
        obtain ⟨rfl, rfl⟩ := h
        have hs1t : TableOK (if takes = true then { s with pending := none } else s) := by
          split <;> exact ht
        have hs1i : TableInj (if takes = true then { s with pending := none } else s) := by
          split <;> exact hi
        have hs1p : PendRange (if takes = true then { s with pending := none } else s) := by
          split
          · intro id hid; simp at hid
          · exact hp
        have hs1n : (if takes = true then { s with pending := none } else s).next = s.next := by
          split <;> rfl
        have := ser_list_range fuel H ih items _ outs s2 hl hs1t hs1i hs1p (by rw [hs1n]; exact h1)
        obtain ⟨q1, q2, q3, q4, q5⟩ := this
        rw [hs1n] at q4
        refine ⟨?_, q2, q3, q4, q5⟩
        simp only [idsBelow, Bool.or_eq_true, Bool.and_eq_true, decide_eq_true_eq]
        refine ⟨?_, q1⟩
        by_cases htk : takes = true
        · simp only [htk, if_true]
          rcases getD_range s hp with h0 | h0
          · exact Or.inl h0
          · exact Or.inr ⟨h0.1, Nat.lt_of_lt_of_le h0.2 q4⟩
        · simp [htk]
    | strong k tid p =>
      simp only [serVal] at h
      split at h
      · cases h
      · rcases alloc_cases s p with ⟨id, hl, ha⟩ | ⟨hl, ha⟩
        · rw [ha] at h
          simp only [Except.ok.injEq, Prod.mk.injEq] at h
          obtain ⟨rfl, rfl⟩ := h
          have := ht p id hl
          exact ⟨by simp [idsBelow, this.1, this.2], ht, hp, Nat.le_refl _, hi⟩
        · rw [ha] at h
          simp only at h
          cases hc : List.lookup p H with
          | none => rw [hc] at h; cases h
          | some payload =>
            rw [hc] at h
            simp only at h
            split at h
            · cases h
            · rename_i x o2 s2 hrec
              simp only [Except.ok.injEq, Prod.mk.injEq] at h
              obtain ⟨rfl, rfl⟩ := h
              obtain ⟨a1, a2, a3, a4⟩ := fresh_state_ok s p (lockCell k p s.held) ht hi h1
              have post := ih _ payload o2 s2 hrec a1 a2 a3 a4
              exact ⟨post.ids, post.tab, post.pend, Nat.le_trans (Nat.le_succ _) post.mono, post.inj⟩
    | weak k tid p =>
      simp only [serVal] at h
      cases hc : List.lookup p H with
      | none =>
        rw [hc] at h
        simp only [Except.ok.injEq, Prod.mk.injEq] at h
        obtain ⟨rfl, rfl⟩ := h
        exact ⟨by simp [idsBelow], ht, hp, Nat.le_refl _, hi⟩
      | some payload =>
        rw [hc] at h
        simp only at h
        rcases alloc_cases s p with ⟨id, hl, ha⟩ | ⟨hl, ha⟩
        · rw [ha] at h
          simp only [Except.ok.injEq, Prod.mk.injEq] at h
          obtain ⟨rfl, rfl⟩ := h
          have := ht p id hl
          exact ⟨by simp [idsBelow, this.1, this.2], ht, hp, Nat.le_refl _, hi⟩
        · rw [ha] at h
          simp only at h
          split at h
          · cases h
          · split at h
            · cases h
            · rename_i x o2 s2 hrec
              simp only [Except.ok.injEq, Prod.mk.injEq] at h
              obtain ⟨rfl, rfl⟩ := h
              obtain ⟨a1, a2, a3, a4⟩ := fresh_state_ok s p (lockCell k p s.held) ht hi h1
              have post := ih _ payload o2 s2 hrec a1 a2 a3 a4
              exact ⟨post.ids, post.tab, post.pend, Nat.le_trans (Nat.le_succ _) post.mono, post.inj⟩

/-! ### well-scopedness when every payload takes its anchor -/

/-- number of anchor marks already written -/
def emitted (s : SerSt) : Nat := s.next - 1 - (if s.pending.isSome then 1 else 0)

/-- the register is empty, or holds the id allocated just now and the value about to be written takes it -/
def PendOK (s : SerSt) (v : Val) : Prop :=
  s.pending = none ∨ (s.pending = some (s.next - 1) ∧ 2 ≤ s.next ∧ takesRoot v = true)

structure ScopedPost (s : SerSt) (o : Out) (s' : SerSt) : Prop where
  wsc : wellScoped o (emitted s) = some (s'.next - 1)
  pend : s'.pending = none
  tab : TableOK s'
  mono : s.next ≤ s'.next

abbrev ScopedIH (fuel : Nat) (H : Heap) : Prop :=
  ∀ s v o s', serVal fuel H s v = .ok (o, s') → PendOK s v → TableOK s → 1 ≤ s.next → ScopedPost s o s'

theorem emitted_none (s : SerSt) (h : s.pending = none) : emitted s = s.next - 1 := by
  simp [emitted, h]

theorem ser_list_scoped (fuel : Nat) (H : Heap) (ih : ScopedIH fuel H) :
    ∀ (items : List Val) (s : SerSt) (outs : List Out) (s' : SerSt),
      traverse (fun st x => serVal fuel H st x) s items = .ok (outs, s') →
      s.pending = none → TableOK s → 1 ≤ s.next →
      wellScopedList outs (s.next - 1) = some (s'.next - 1) ∧ s'.pending = none ∧ TableOK s' ∧
        s.next ≤ s'.next := by
  intro items
  induction items with
  | nil =>
    intro s outs s' h hp ht _
    simp only [traverse, Except.ok.injEq, Prod.mk.injEq] at h
    obtain ⟨rfl, rfl⟩ := h
    exact ⟨rfl, hp, ht, Nat.le_refl _⟩
  | cons x xs ihl =>
    intro s outs s' h hp ht h1
    simp only [traverse] at h
    cases hx : serVal fuel H s x with
    | error e => rw [hx] at h; cases h
    | ok r =>
      obtain ⟨y, s1⟩ := r
      rw [hx] at h
      simp only at h
      cases hxs : traverse (fun st x => serVal fuel H st x) s1 xs with
      | error e => rw [hxs] at h; cases h
      | ok r2 =>
        obtain ⟨ys, s2⟩ := r2
        rw [hxs] at h
        simp only [Except.ok.injEq, Prod.mk.injEq] at h
        obtain ⟨rfl, rfl⟩ := h
        have p1 := ih s x y s1 hx (Or.inl hp) ht h1
        have p2 := ihl s1 ys s2 hxs p1.pend p1.tab (Nat.le_trans h1 p1.mono)
        refine ⟨?_, p2.2.1, p2.2.2.1, Nat.le_trans p1.mono p2.2.2.2⟩
        have e1 := p1.wsc
        rw [emitted_none s hp] at e1
        simp only [wellScopedList, e1]
        exact p2.1

theorem ser_scoped (H : Heap) (hH : AnchorTaking H) : ∀ (fuel : Nat), ScopedIH fuel H := by
  intro fuel
  induction fuel with
  | zero => intro s v o s' h; simp [serVal] at h
  | succ fuel ih =>
    intro s v o s' h hp ht h1
    cases v with
    | leaf k =>
      simp only [serVal] at h
      split at h
      · rename_i htk
        simp only [Except.ok.injEq, Prod.mk.injEq] at h
        obtain ⟨rfl, rfl⟩ := h
        refine ⟨?_, rfl, ht, Nat.le_refl _⟩
        rcases hp with hp | ⟨hp, h2, _⟩
        · simp [wellScoped, hp, emitted]
        · have e : emitted s = s.next - 2 := by simp [emitted, hp]; omega
          have a1 : s.next - 1 ≠ 0 := by omega
          have a2 : s.next - 1 = s.next - 2 + 1 := by omega
          simp only [wellScoped, hp, Option.getD_some, e, a1, if_false]
          rw [if_pos a2]
          simp only [Option.some.injEq]
          omega
      · rename_i htk
        simp only [Except.ok.injEq, Prod.mk.injEq] at h
        obtain ⟨rfl, rfl⟩ := h
        rcases hp with hp | ⟨_, _, hr⟩
        · exact ⟨by simp [wellScoped, emitted, hp], hp, ht, Nat.le_refl _⟩
        · simp only [takesRoot] at hr
          exact absurd hr htk
    | node takes isMap items =>
      simp only [serVal] at h
      cases hl : traverse (fun st x => serVal fuel H st x)
          (if takes = true then { s with pending := none } else s) items with
      | error e => rw [hl] at h; cases h
      | ok r =>
        obtain ⟨outs, s2⟩ := r
        rw [hl] at h
        simp only [Except.ok.injEq, Prod.mk.injEq] at h
        obtain ⟨rfl, rfl⟩ := h
        by_cases htk : takes = true
        · simp only [htk, if_true] at hl ⊢
          have := ser_list_scoped fuel H ih items _ outs s2 hl rfl ht h1
          obtain ⟨q1, q2, q3, q4⟩ := this
          refine ⟨?_, q2, q3, q4⟩
          rcases hp with hp | ⟨hp, h2, _⟩
          · simp only [wellScoped, hp, Option.getD_none, if_true, emitted_none s hp]
            exact q1
          · have e : emitted s = s.next - 2 := by simp [emitted, hp]; omega
            have a1 : s.next - 1 ≠ 0 := by omega
            have a2 : s.next - 1 = s.next - 2 + 1 := by omega
            simp only [wellScoped, hp, Option.getD_some, e, a1, if_false]
            rw [if_pos a2, ← a2]
            exact q1
        · have htk' : takes = false := by simpa using htk
          subst htk'
          simp only [Bool.false_eq_true, if_false] at hl ⊢
          rcases hp with hp | ⟨_, _, hr⟩
          · have := ser_list_scoped fuel H ih items _ outs s2 hl hp ht h1
            obtain ⟨q1, q2, q3, q4⟩ := this
            refine ⟨?_, q2, q3, q4⟩
            simp only [wellScoped, if_true, emitted_none s hp]
            exact q1
          · simp [takesRoot] at hr
    | strong k tid p =>
      have hp0 : s.pending = none := by
        rcases hp with hp | ⟨_, _, hr⟩
        · exact hp
        · simp [takesRoot] at hr
      simp only [serVal] at h
      split at h
      · cases h
      · rcases alloc_cases s p with ⟨id, hl, ha⟩ | ⟨hl, ha⟩
        · rw [ha] at h
          simp only [Except.ok.injEq, Prod.mk.injEq] at h
          obtain ⟨rfl, rfl⟩ := h
          have := ht p id hl
          refine ⟨?_, hp0, ht, Nat.le_refl _⟩
          have hle : id ≤ s.next - 1 := by omega
          simp [wellScoped, emitted_none s hp0, this.1, hle]
        · rw [ha] at h
          simp only at h
          cases hc : List.lookup p H with
          | none => rw [hc] at h; cases h
          | some payload =>
            rw [hc] at h
            simp only at h
            split at h
            · cases h
            · rename_i x o2 s2 hrec
              simp only [Except.ok.injEq, Prod.mk.injEq] at h
              obtain ⟨rfl, rfl⟩ := h
              have post := ih _ payload o2 s2 hrec
                (Or.inr ⟨by simp, (by simp; omega), hH p payload hc⟩)
                (tableOK_alloc _ _ p ht h1) (Nat.le_succ_of_le h1)
              refine ⟨?_, post.pend, post.tab, Nat.le_trans (Nat.le_succ _) post.mono⟩
              have e := post.wsc
              have e0 : emitted (SerSt.mk ((p, s.next) :: s.anchors) (s.next + 1) (some s.next)
                  (lockCell k p s.held)) = s.next - 1 := by
                simp [emitted]
              rw [e0] at e
              rw [emitted_none s hp0]
              exact e
    | weak k tid p =>
      have hp0 : s.pending = none := by
        rcases hp with hp | ⟨_, _, hr⟩
        · exact hp
        · simp [takesRoot] at hr
      simp only [serVal] at h
      cases hc : List.lookup p H with
      | none =>
        rw [hc] at h
        simp only [Except.ok.injEq, Prod.mk.injEq] at h
        obtain ⟨rfl, rfl⟩ := h
        exact ⟨by simp [wellScoped, emitted_none s hp0], hp0, ht, Nat.le_refl _⟩
      | some payload =>
        rw [hc] at h
        simp only at h
        rcases alloc_cases s p with ⟨id, hl, ha⟩ | ⟨hl, ha⟩
        · rw [ha] at h
          simp only [Except.ok.injEq, Prod.mk.injEq] at h
          obtain ⟨rfl, rfl⟩ := h
          have := ht p id hl
          refine ⟨?_, hp0, ht, Nat.le_refl _⟩
          have hle : id ≤ s.next - 1 := by omega
          simp [wellScoped, emitted_none s hp0, this.1, hle]
        · rw [ha] at h
          simp only at h
          split at h
          · cases h
          · split at h
            · cases h
            · rename_i x o2 s2 hrec
              simp only [Except.ok.injEq, Prod.mk.injEq] at h
              obtain ⟨rfl, rfl⟩ := h
              have post := ih _ payload o2 s2 hrec
                (Or.inr ⟨by simp, (by simp; omega), hH p payload hc⟩)
                (tableOK_alloc _ _ p ht h1) (Nat.le_succ_of_le h1)
              refine ⟨?_, post.pend, post.tab, Nat.le_trans (Nat.le_succ _) post.mono⟩
              have e := post.wsc
              have e0 : emitted (SerSt.mk ((p, s.next) :: s.anchors) (s.next + 1) (some s.next)
                  (lockCell k p s.held)) = s.next - 1 := by
                simp [emitted]
              rw [e0] at e
              rw [emitted_none s hp0]
              exact e

/-! ### more fuel never changes a finished run -/

theorem traverse_congr_ok {σ α β ε : Type} (f g : σ → α → Except ε (β × σ))
    (h : ∀ s x r, f s x = .ok r → g s x = .ok r) :
    ∀ (xs : List α) (s : σ) (r : List β × σ), traverse f s xs = .ok r → traverse g s xs = .ok r := by
  intro xs
  induction xs with
  | nil => intro s r hr; simpa [traverse] using hr
  | cons x xs ihl =>
    intro s r hr
    simp only [traverse] at hr ⊢
    cases hx : f s x with
    | error e => rw [hx] at hr; cases hr
    | ok r1 =>
      obtain ⟨y, s1⟩ := r1
      rw [hx] at hr
      rw [h s x _ hx]
      simp only at hr ⊢
      cases hxs : traverse f s1 xs with
      | error e => rw [hxs] at hr; cases hr
      | ok r2 =>
        rw [hxs] at hr
        rw [ihl s1 r2 hxs]
        exact hr

theorem ser_fuel_succ (H : Heap) : ∀ (fuel : Nat) (s : SerSt) (v : Val) (r : Out × SerSt),
    serVal fuel H s v = .ok r → serVal (fuel + 1) H s v = .ok r := by
  intro fuel
  induction fuel with
  | zero => intro s v r h; simp [serVal] at h
  | succ fuel ih =>
    intro s v r h
    cases v with
    | leaf k => simpa [serVal] using h
    | node takes isMap items =>
      simp only [serVal] at h ⊢
      cases hl : traverse (fun st x => serVal fuel H st x)
          (if takes = true then { s with pending := none } else s) items with
      | error e => rw [hl] at h; cases h
      | ok r1 =>
        rw [hl] at h
        rw [traverse_congr_ok _ (fun st x => serVal (fuel + 1) H st x) (fun s x r => ih s x r) items _ r1 hl]
        exact h
    | strong k tid p =>
      simp only [serVal] at h ⊢
      split at h
      · cases h
      · rename_i hk
        rw [if_neg hk]
        rcases alloc_cases s p with ⟨id, hl, ha⟩ | ⟨hl, ha⟩
        · rw [ha] at h ⊢
          exact h
        · rw [ha] at h ⊢
          simp only at h ⊢
          cases hc : List.lookup p H with
          | none => rw [hc] at h; cases h
          | some payload =>
            rw [hc] at h
            simp only at h ⊢
            split at h
            · cases h
            · rename_i x o2 s2 hrec
              rw [ih _ _ _ hrec]
              exact h
    | weak k tid p =>
      simp only [serVal] at h ⊢
      cases hc : List.lookup p H with
      | none => rw [hc] at h; simpa using h
      | some payload =>
        rw [hc] at h
        simp only at h ⊢
        rcases alloc_cases s p with ⟨id, hl, ha⟩ | ⟨hl, ha⟩
        · rw [ha] at h ⊢
          exact h
        · rw [ha] at h ⊢
          simp only at h ⊢
          split at h
          · cases h
          · rename_i hk
            rw [if_neg hk]
            split at h
            · cases h
            · rename_i x o2 s2 hrec
              rw [ih _ _ _ hrec]
              exact h

end SaphyrVerif.Lemmas.C14
