import SaphyrVerif.Spec.Anchors
/-!
Helper lemmas for C14, serializer side: the pointer table only holds ids `1 … next-1`, every emitted id
is in that range, and — when every payload takes its anchor — the document is well scoped.
-/
namespace SaphyrVerif.Lemmas.C14
open SaphyrVerif.Anchors SaphyrVerif.Spec.Anchors

/-- every id of the pointer table lies in `1 … next-1` -/
def TableOK' (a : List (Ptr × Nat)) (n : Nat) : Prop := ∀ p id, (p, id) ∈ a → 1 ≤ id ∧ id < n
def TableOK (s : SerSt) : Prop := TableOK' s.anchors s.next

/-- distinct pointers have distinct ids -/
def TableInj' (a : List (Ptr × Nat)) : Prop :=
  ∀ p q id, a.lookup p = some id → a.lookup q = some id → p = q
def TableInj (s : SerSt) : Prop := TableInj' s.anchors

/-- `alloc_anchor_for` with nothing pending: the pointer is known (alias) or gets the next id -/
theorem alloc_cases (s : SerSt) (p : Ptr) (hp : s.pending = none) :
    (∃ id, s.anchors.lookup p = some id ∧ allocAnchorFor s p = .ok (id, false, s)) ∨
    (s.anchors.lookup p = none ∧
      allocAnchorFor s p =
        .ok (s.next, true, { s with anchors := (p, s.next) :: s.anchors, next := s.next + 1 })) := by
  unfold allocAnchorFor
  rw [hp]
  cases h : s.anchors.lookup p with
  | none => exact Or.inr ⟨rfl, rfl⟩
  | some id => exact Or.inl ⟨id, rfl, rfl⟩

/-- `alloc_anchor_for` directly inside another wrapper (its anchor `outer` is still pending): the pointer
shares that id, or — if it is already anchored — the node cannot be written -/
theorem alloc_cases_pending (s : SerSt) (p : Ptr) (outer : Nat) (hp : s.pending = some outer) :
    (∃ id, s.anchors.lookup p = some id ∧ allocAnchorFor s p = .error .aliasNeedsAnchor) ∨
    (s.anchors.lookup p = none ∧
      allocAnchorFor s p = .ok (outer, true, { s with anchors := (p, outer) :: s.anchors })) := by
  unfold allocAnchorFor
  rw [hp]
  cases h : s.anchors.lookup p with
  | none => exact Or.inr ⟨rfl, rfl⟩
  | some id => exact Or.inl ⟨id, rfl, rfl⟩

theorem lookup_cons_self {β : Type} (p : Ptr) (b : β) (l : List (Ptr × β)) :
    List.lookup p ((p, b) :: l) = some b := by
  simp [List.lookup]

theorem lookup_cons_ne {β : Type} (p q : Ptr) (b : β) (l : List (Ptr × β)) (h : q ≠ p) :
    List.lookup q ((p, b) :: l) = List.lookup q l := by
  have : (q == p) = false := by simpa using h
  simp [List.lookup, this]

theorem lookup_mem {β : Type} : ∀ (l : List (Ptr × β)) (p : Ptr) (b : β), l.lookup p = some b → (p, b) ∈ l
  | [], _, _, h => by simp [List.lookup] at h
  | (q, c) :: l, p, b, h => by
    by_cases hpq : p = q
    · subst hpq
      rw [lookup_cons_self] at h
      cases h
      exact List.mem_cons_self ..
    · rw [lookup_cons_ne _ _ _ _ hpq] at h
      exact List.mem_cons_of_mem _ (lookup_mem l p b h)

theorem tableOK_lookup {a : List (Ptr × Nat)} {n : Nat} (h : TableOK' a n) {p : Ptr} {id : Nat}
    (hl : a.lookup p = some id) : 1 ≤ id ∧ id < n := h p id (lookup_mem a p id hl)

theorem tableOK_filter (a : List (Ptr × Nat)) (n : Nat) (f : Ptr × Nat → Bool) (h : TableOK' a n) :
    TableOK' (a.filter f) n := fun p id hm => h p id (List.mem_filter.mp hm).1

theorem tableOK_alloc (a : List (Ptr × Nat)) (n : Nat) (p : Ptr) (h : TableOK' a n) (h1 : 1 ≤ n) :
    TableOK' ((p, n) :: a) (n + 1) := by
  intro q id hq
  simp only [List.mem_cons, Prod.mk.injEq] at hq
  rcases hq with ⟨_, rfl⟩ | hq
  · exact ⟨h1, Nat.lt_succ_self _⟩
  · have := h q id hq
    exact ⟨this.1, Nat.lt_succ_of_lt this.2⟩

theorem tableOK_share (a : List (Ptr × Nat)) (n : Nat) (p : Ptr) (id : Nat) (h : TableOK' a n)
    (h1 : 1 ≤ id) (h2 : id < n) : TableOK' ((p, id) :: a) n := by
  intro q id' hq
  simp only [List.mem_cons, Prod.mk.injEq] at hq
  rcases hq with ⟨_, rfl⟩ | hq
  · exact ⟨h1, h2⟩
  · exact h q id' hq

theorem tableInj_alloc (a : List (Ptr × Nat)) (n : Nat) (p : Ptr) (h : TableInj' a) (hok : TableOK' a n) :
    TableInj' ((p, n) :: a) := by
  intro a b id ha hb
  by_cases hap : a = p
  · by_cases hbp : b = p
    · rw [hap, hbp]
    · subst hap
      rw [lookup_cons_self] at ha
      rw [lookup_cons_ne _ _ _ _ hbp] at hb
      cases ha
      have := (tableOK_lookup hok hb).2
      exact absurd this (Nat.lt_irrefl _)
  · by_cases hbp : b = p
    · subst hbp
      rw [lookup_cons_self] at hb
      rw [lookup_cons_ne _ _ _ _ hap] at ha
      cases hb
      have := (tableOK_lookup hok ha).2
      exact absurd this (Nat.lt_irrefl _)
    · rw [lookup_cons_ne _ _ _ _ hap] at ha
      rw [lookup_cons_ne _ _ _ _ hbp] at hb
      exact h a b id ha hb

/-! ### the block-scalar path: the pending pointer is forgotten -/

theorem forgetPending_none (s : SerSt) (h : s.pending = none) : forgetPending s = s := by
  simp [forgetPending, h]

theorem forgetPending_pending (s : SerSt) : (forgetPending s).pending = none := by
  unfold forgetPending; split <;> simp_all

theorem forgetPending_next (s : SerSt) : (forgetPending s).next = s.next := by
  unfold forgetPending; split <;> rfl

theorem forgetPending_held (s : SerSt) : (forgetPending s).held = s.held := by
  unfold forgetPending; split <;> rfl

theorem forgetPending_tableOK (s : SerSt) (h : TableOK s) : TableOK (forgetPending s) := by
  unfold forgetPending
  split
  · exact h
  · exact tableOK_filter _ _ _ h

/-! ### monotonicity of `idsBelow` -/

mutual
theorem idsBelow_mono (n m : Nat) (h : n ≤ m) : ∀ o : Out, idsBelow n o = true → idsBelow m o = true
  | .leaf a k => by
    simp only [idsBelow, Bool.or_eq_true, Bool.and_eq_true, decide_eq_true_eq]
    intro h1
    rcases h1 with h1 | ⟨h1, h2⟩
    · exact Or.inl h1
    · exact Or.inr ⟨h1, Nat.lt_of_lt_of_le h2 h⟩
  | .alias id => by
    simp only [idsBelow, Bool.and_eq_true, decide_eq_true_eq]
    intro ⟨h1, h2⟩
    exact ⟨h1, Nat.lt_of_lt_of_le h2 h⟩
  | .node a isMap items => by
    simp only [idsBelow, Bool.or_eq_true, Bool.and_eq_true, decide_eq_true_eq]
    intro ⟨h1, h2⟩
    refine ⟨?_, idsBelowList_mono n m h items h2⟩
    rcases h1 with h1 | ⟨h1, h3⟩
    · exact Or.inl h1
    · exact Or.inr ⟨h1, Nat.lt_of_lt_of_le h3 h⟩
theorem idsBelowList_mono (n m : Nat) (h : n ≤ m) :
    ∀ os : List Out, idsBelowList n os = true → idsBelowList m os = true
  | [] => by simp [idsBelowList]
  | x :: xs => by
    simp only [idsBelowList, Bool.and_eq_true]
    intro ⟨h1, h2⟩
    exact ⟨idsBelow_mono n m h x h1, idsBelowList_mono n m h xs h2⟩
end

/-! ### every emitted id is in range (unconditional) -/

def PendRange (s : SerSt) : Prop := ∀ id, s.pending = some id → 1 ≤ id ∧ id < s.next

structure RangePost (s : SerSt) (o : Out) (s' : SerSt) : Prop where
  ids : idsBelow s'.next o = true
  tab : TableOK s'
  pend : PendRange s'
  mono : s.next ≤ s'.next

theorem getD_range (s : SerSt) (h : PendRange s) :
    s.pending.getD 0 = 0 ∨ (1 ≤ s.pending.getD 0 ∧ s.pending.getD 0 < s.next) := by
  cases hp : s.pending with
  | none => exact Or.inl rfl
  | some id => exact Or.inr (h id hp)

abbrev RangeRec (rec : SerSt → Val → Except SerErr (Out × SerSt)) : Prop :=
  ∀ s v o s', rec s v = .ok (o, s') → TableOK s → PendRange s → 1 ≤ s.next → RangePost s o s'

theorem serPtr_range (rec : SerSt → Val → Except SerErr (Out × SerSt)) (ih : RangeRec rec)
    (s : SerSt) (k : Kind) (p : Ptr) (payload : Val) (o : Out) (s' : SerSt)
    (h : serPtr rec s k p payload = .ok (o, s')) (ht : TableOK s) (hp : PendRange s) (h1 : 1 ≤ s.next) :
    RangePost s o s' := by
  unfold serPtr at h
  cases hpend : s.pending with
  | none =>
    rcases alloc_cases s p hpend with ⟨id, hl, ha⟩ | ⟨hl, ha⟩
    · rw [ha] at h
      simp only [Except.ok.injEq, Prod.mk.injEq] at h
      obtain ⟨rfl, rfl⟩ := h
      have := tableOK_lookup ht hl
      exact ⟨by simp [idsBelow, this.1, this.2], ht, hp, Nat.le_refl _⟩
    · rw [ha] at h
      simp only at h
      split at h
      · cases h
      · split at h
        · cases h
        · rename_i x o2 s2 hrec
          simp only [Except.ok.injEq, Prod.mk.injEq] at h
          obtain ⟨rfl, rfl⟩ := h
          have post := ih _ payload o2 s2 hrec (tableOK_alloc _ _ p ht h1)
            (by intro id hid; simp only [Option.some.injEq] at hid; subst hid; exact ⟨h1, Nat.lt_succ_self _⟩)
            (Nat.le_succ_of_le h1)
          exact ⟨post.ids, post.tab, post.pend, Nat.le_trans (Nat.le_succ _) post.mono⟩
  | some outer =>
    have hr := hp outer hpend
    rcases alloc_cases_pending s p outer hpend with ⟨id, hl, ha⟩ | ⟨hl, ha⟩
    · rw [ha] at h; cases h
    · rw [ha] at h
      simp only at h
      split at h
      · cases h
      · split at h
        · cases h
        · rename_i x o2 s2 hrec
          simp only [Except.ok.injEq, Prod.mk.injEq] at h
          obtain ⟨rfl, rfl⟩ := h
          have post := ih _ payload o2 s2 hrec (tableOK_share _ _ p outer ht hr.1 hr.2)
            (by intro id hid; simp only [Option.some.injEq] at hid; subst hid; exact hr)
            h1
          exact ⟨post.ids, post.tab, post.pend, post.mono⟩

abbrev RangeIH (fuel : Nat) (H : Heap) : Prop := RangeRec (fun s v => serVal fuel H s v)

theorem ser_list_range (fuel : Nat) (H : Heap) (ih : RangeIH fuel H) :
    ∀ (items : List Val) (s : SerSt) (outs : List Out) (s' : SerSt),
      traverse (fun st x => serVal fuel H st x) s items = .ok (outs, s') →
      TableOK s → PendRange s → 1 ≤ s.next →
      idsBelowList s'.next outs = true ∧ TableOK s' ∧ PendRange s' ∧ s.next ≤ s'.next := by
  intro items
  induction items with
  | nil =>
    intro s outs s' h ht hp _
    simp only [traverse, Except.ok.injEq, Prod.mk.injEq] at h
    obtain ⟨rfl, rfl⟩ := h
    exact ⟨rfl, ht, hp, Nat.le_refl _⟩
  | cons x xs ihl =>
    intro s outs s' h ht hp h1
    simp only [traverse] at h
    cases hx : serVal fuel H s x with
    | error e => rw [hx] at h; cases h
    | ok r =>
      obtain ⟨y, s1⟩ := r
      rw [hx] at h
      simp only at h
      cases hxs : traverse (fun st x => serVal fuel H st x) s1 xs with
      | error e => rw [hxs] at h; cases h
      | ok r2 =>
        obtain ⟨ys, s2⟩ := r2
        rw [hxs] at h
        simp only [Except.ok.injEq, Prod.mk.injEq] at h
        obtain ⟨rfl, rfl⟩ := h
        have p1 := ih s x y s1 hx ht hp h1
        have p2 := ihl s1 ys s2 hxs p1.tab p1.pend (Nat.le_trans h1 p1.mono)
        refine ⟨?_, p2.2.1, p2.2.2.1, Nat.le_trans p1.mono p2.2.2.2⟩
        simp only [idsBelowList, Bool.and_eq_true]
        exact ⟨idsBelow_mono _ _ p2.2.2.2 _ p1.ids, p2.1⟩

theorem range_taking_leaf (s : SerSt) (k : LeafKind) (ht : TableOK s) (hp : PendRange s) :
    RangePost s (.leaf (s.pending.getD 0) k) { s with pending := none } := by
  refine ⟨?_, ht, ?_, Nat.le_refl _⟩
  · simp only [idsBelow, Bool.or_eq_true, Bool.and_eq_true, decide_eq_true_eq]
    rcases getD_range s hp with h0 | h0
    · exact Or.inl h0
    · exact Or.inr h0
  · intro id hid; simp at hid

theorem ser_range (H : Heap) : ∀ (fuel : Nat), RangeIH fuel H := by
  intro fuel
  induction fuel with
  | zero => intro s v o s' h; simp [serVal] at h
  | succ fuel ih =>
    intro s v o s' h ht hp h1
    cases v with
    | leaf k =>
      simp only [serVal] at h
      split at h
      · simp only [Except.ok.injEq, Prod.mk.injEq] at h
        obtain ⟨rfl, rfl⟩ := h
        exact range_taking_leaf s k ht hp
      · simp only [Except.ok.injEq, Prod.mk.injEq] at h
        obtain ⟨rfl, rfl⟩ := h
        refine ⟨by simp [idsBelow], forgetPending_tableOK s ht, ?_, by rw [forgetPending_next]; exact Nat.le_refl _⟩
        intro id hid
        rw [forgetPending_pending] at hid
        cases hid
    | node isMap items =>
      simp only [serVal] at h
      cases hl : traverse (fun st x => serVal fuel H st x) { s with pending := none } items with
      | error e => rw [hl] at h; cases h
      | ok r =>
        obtain ⟨outs, s2⟩ := r
        rw [hl] at h
        simp only [Except.ok.injEq, Prod.mk.injEq] at h
        obtain ⟨rfl, rfl⟩ := h
        have := ser_list_range fuel H ih items _ outs s2 hl ht (by intro id hid; simp at hid) h1
        obtain ⟨q1, q2, q3, q4⟩ := this
        refine ⟨?_, q2, q3, q4⟩
        simp only [idsBelow, Bool.or_eq_true, Bool.and_eq_true, decide_eq_true_eq]
        refine ⟨?_, q1⟩
        rcases getD_range s hp with h0 | h0
        · exact Or.inl h0
        · exact Or.inr ⟨h0.1, Nat.lt_of_lt_of_le h0.2 q4⟩
    | strong k tid p =>
      simp only [serVal] at h
      cases hc : List.lookup p H with
      | none => rw [hc] at h; cases h
      | some payload =>
        rw [hc] at h
        exact serPtr_range _ ih s k p payload o s' h ht hp h1
    | weak k tid p =>
      simp only [serVal] at h
      cases hc : List.lookup p H with
      | none =>
        rw [hc] at h
        simp only [Except.ok.injEq, Prod.mk.injEq] at h
        obtain ⟨rfl, rfl⟩ := h
        exact range_taking_leaf s .null ht hp
      | some payload =>
        rw [hc] at h
        exact serPtr_range _ ih s k p payload o s' h ht hp h1

/-! ### well-scopedness when every payload takes its anchor -/

/-- number of anchor marks already written -/
def emitted (s : SerSt) : Nat := s.next - 1 - (if s.pending.isSome then 1 else 0)

/-- the register is empty, or holds the id allocated just now and the value about to be written takes it -/
def PendOK (s : SerSt) (v : Val) : Prop :=
  s.pending = none ∨ (s.pending = some (s.next - 1) ∧ 2 ≤ s.next ∧ takesRoot v = true)

structure ScopedPost (s : SerSt) (o : Out) (s' : SerSt) : Prop where
  wsc : wellScoped o (emitted s) = some (s'.next - 1)
  pend : s'.pending = none
  tab : TableOK s'
  mono : s.next ≤ s'.next
  inj : TableInj s'

abbrev ScopedRec (rec : SerSt → Val → Except SerErr (Out × SerSt)) : Prop :=
  ∀ s v o s', rec s v = .ok (o, s') → PendOK s v → TableOK s → TableInj s → 1 ≤ s.next → ScopedPost s o s'

theorem emitted_none (s : SerSt) (h : s.pending = none) : emitted s = s.next - 1 := by
  simp [emitted, h]

theorem pendOK_wrapper_none (s : SerSt) (v : Val) (hv : takesRoot v = false) (hp : PendOK s v) :
    s.pending = none := by
  rcases hp with hp | ⟨_, _, hr⟩
  · exact hp
  · rw [hv] at hr; cases hr

/-- a node that takes the pending anchor: the mark it writes is the next one in order -/
theorem scoped_take (s : SerSt) (v : Val) (hp : PendOK s v) :
    (s.pending.getD 0 = 0 ∧ emitted s = s.next - 1) ∨
    (s.pending.getD 0 = emitted s + 1 ∧ s.pending.getD 0 ≠ 0 ∧ emitted s + 1 = s.next - 1) := by
  rcases hp with hp | ⟨hp, h2, _⟩
  · exact Or.inl ⟨by simp [hp], emitted_none s hp⟩
  · have e : emitted s = s.next - 2 := by simp [emitted, hp]; omega
    refine Or.inr ⟨?_, ?_, ?_⟩ <;> simp [hp, e] <;> omega

theorem serPtr_scoped (rec : SerSt → Val → Except SerErr (Out × SerSt)) (ih : ScopedRec rec)
    (s : SerSt) (k : Kind) (p : Ptr) (payload : Val) (o : Out) (s' : SerSt)
    (h : serPtr rec s k p payload = .ok (o, s')) (hpay : takesRoot payload = true)
    (hp0 : s.pending = none) (ht : TableOK s) (hi : TableInj s) (h1 : 1 ≤ s.next) :
    ScopedPost s o s' := by
  unfold serPtr at h
  rcases alloc_cases s p hp0 with ⟨id, hl, ha⟩ | ⟨hl, ha⟩
  · rw [ha] at h
    simp only [Except.ok.injEq, Prod.mk.injEq] at h
    obtain ⟨rfl, rfl⟩ := h
    have := tableOK_lookup ht hl
    refine ⟨?_, hp0, ht, Nat.le_refl _, hi⟩
    have hle : id ≤ s.next - 1 := by omega
    simp [wellScoped, emitted_none s hp0, this.1, hle]
  · rw [ha] at h
    simp only at h
    split at h
    · cases h
    · split at h
      · cases h
      · rename_i x o2 s2 hrec
        simp only [Except.ok.injEq, Prod.mk.injEq] at h
        obtain ⟨rfl, rfl⟩ := h
        have post := ih _ payload o2 s2 hrec
          (Or.inr ⟨by simp, (by simp; omega), hpay⟩)
          (tableOK_alloc _ _ p ht h1) (tableInj_alloc _ _ p hi ht) (Nat.le_succ_of_le h1)
        refine ⟨?_, post.pend, post.tab, Nat.le_trans (Nat.le_succ _) post.mono, post.inj⟩
        have e := post.wsc
        have e0 : emitted (SerSt.mk ((p, s.next) :: s.anchors) (s.next + 1) (some s.next)
            (lockCell k p s.held)) = s.next - 1 := by
          simp [emitted]
        rw [e0] at e
        rw [emitted_none s hp0]
        exact e

abbrev ScopedIH (fuel : Nat) (H : Heap) : Prop := ScopedRec (fun s v => serVal fuel H s v)

theorem ser_list_scoped (fuel : Nat) (H : Heap) (ih : ScopedIH fuel H) :
    ∀ (items : List Val) (s : SerSt) (outs : List Out) (s' : SerSt),
      traverse (fun st x => serVal fuel H st x) s items = .ok (outs, s') →
      s.pending = none → TableOK s → TableInj s → 1 ≤ s.next →
      wellScopedList outs (s.next - 1) = some (s'.next - 1) ∧ s'.pending = none ∧ TableOK s' ∧
        s.next ≤ s'.next ∧ TableInj s' := by
  intro items
  induction items with
  | nil =>
    intro s outs s' h hp ht hi _
    simp only [traverse, Except.ok.injEq, Prod.mk.injEq] at h
    obtain ⟨rfl, rfl⟩ := h
    exact ⟨rfl, hp, ht, Nat.le_refl _, hi⟩
  | cons x xs ihl =>
    intro s outs s' h hp ht hi h1
    simp only [traverse] at h
    cases hx : serVal fuel H s x with
    | error e => rw [hx] at h; cases h
    | ok r =>
      obtain ⟨y, s1⟩ := r
      rw [hx] at h
      simp only at h
      cases hxs : traverse (fun st x => serVal fuel H st x) s1 xs with
      | error e => rw [hxs] at h; cases h
      | ok r2 =>
        obtain ⟨ys, s2⟩ := r2
        rw [hxs] at h
        simp only [Except.ok.injEq, Prod.mk.injEq] at h
        obtain ⟨rfl, rfl⟩ := h
        have p1 := ih s x y s1 hx (Or.inl hp) ht hi h1
        have p2 := ihl s1 ys s2 hxs p1.pend p1.tab p1.inj (Nat.le_trans h1 p1.mono)
        refine ⟨?_, p2.2.1, p2.2.2.1, Nat.le_trans p1.mono p2.2.2.2.1, p2.2.2.2.2⟩
        have e1 := p1.wsc
        rw [emitted_none s hp] at e1
        simp only [wellScopedList, e1]
        exact p2.1

theorem ser_scoped (H : Heap) (hH : AnchorTaking H) : ∀ (fuel : Nat), ScopedIH fuel H := by
  intro fuel
  induction fuel with
  | zero => intro s v o s' h; simp [serVal] at h
  | succ fuel ih =>
    intro s v o s' h hp ht hi h1
    cases v with
    | leaf k =>
      simp only [serVal] at h
      split at h
      · simp only [Except.ok.injEq, Prod.mk.injEq] at h
        obtain ⟨rfl, rfl⟩ := h
        refine ⟨?_, rfl, ht, Nat.le_refl _, hi⟩
        rcases scoped_take s _ hp with ⟨a0, e⟩ | ⟨a1, a2, e⟩
        · simp [wellScoped, a0, e]
        · simp only [wellScoped, a2, if_false]
          rw [if_pos a1, e]
      · rename_i htk
        simp only [Except.ok.injEq, Prod.mk.injEq] at h
        obtain ⟨rfl, rfl⟩ := h
        have hp0 := pendOK_wrapper_none s _ (by simpa [takesRoot] using htk) hp
        rw [forgetPending_none s hp0]
        exact ⟨by simp [wellScoped, emitted, hp0], hp0, ht, Nat.le_refl _, hi⟩
    | node isMap items =>
      simp only [serVal] at h
      cases hl : traverse (fun st x => serVal fuel H st x) { s with pending := none } items with
      | error e => rw [hl] at h; cases h
      | ok r =>
        obtain ⟨outs, s2⟩ := r
        rw [hl] at h
        simp only [Except.ok.injEq, Prod.mk.injEq] at h
        obtain ⟨rfl, rfl⟩ := h
        obtain ⟨q1, q2, q3, q4, q5⟩ := ser_list_scoped fuel H ih items _ outs s2 hl rfl ht hi h1
        refine ⟨?_, q2, q3, q4, q5⟩
        rcases scoped_take s _ hp with ⟨a0, e⟩ | ⟨a1, a2, e⟩
        · simp only [wellScoped, a0, if_true, e]
          exact q1
        · simp only [wellScoped, a2, if_false]
          rw [if_pos a1, e]
          exact q1
    | strong k tid p =>
      have hp0 := pendOK_wrapper_none s _ (by simp [takesRoot]) hp
      simp only [serVal] at h
      cases hc : List.lookup p H with
      | none => rw [hc] at h; cases h
      | some payload =>
        rw [hc] at h
        exact serPtr_scoped _ ih s k p payload o s' h (hH p payload hc) hp0 ht hi h1
    | weak k tid p =>
      have hp0 := pendOK_wrapper_none s _ (by simp [takesRoot]) hp
      simp only [serVal] at h
      cases hc : List.lookup p H with
      | none =>
        rw [hc] at h
        simp only [Except.ok.injEq, Prod.mk.injEq] at h
        obtain ⟨rfl, rfl⟩ := h
        exact ⟨by simp [wellScoped, hp0, emitted], rfl, ht, Nat.le_refl _, hi⟩
      | some payload =>
        rw [hc] at h
        exact serPtr_scoped _ ih s k p payload o s' h (hH p payload hc) hp0 ht hi h1

/-! ### more fuel never changes a finished run -/

theorem traverse_congr_ok {σ α β ε : Type} (f g : σ → α → Except ε (β × σ))
    (h : ∀ s x r, f s x = .ok r → g s x = .ok r) :
    ∀ (xs : List α) (s : σ) (r : List β × σ), traverse f s xs = .ok r → traverse g s xs = .ok r := by
  intro xs
  induction xs with
  | nil => intro s r hr; simpa [traverse] using hr
  | cons x xs ihl =>
    intro s r hr
    simp only [traverse] at hr ⊢
    cases hx : f s x with
    | error e => rw [hx] at hr; cases hr
    | ok r1 =>
      obtain ⟨y, s1⟩ := r1
      rw [hx] at hr
      rw [h s x _ hx]
      simp only at hr ⊢
      cases hxs : traverse f s1 xs with
      | error e => rw [hxs] at hr; cases hr
      | ok r2 =>
        rw [hxs] at hr
        rw [ihl s1 r2 hxs]
        exact hr

theorem serPtr_congr_ok (rec rec' : SerSt → Val → Except SerErr (Out × SerSt))
    (h : ∀ s x r, rec s x = .ok r → rec' s x = .ok r) (s : SerSt) (k : Kind) (p : Ptr) (payload : Val)
    (r : Out × SerSt) (hr : serPtr rec s k p payload = .ok r) : serPtr rec' s k p payload = .ok r := by
  unfold serPtr at hr ⊢
  cases ha : allocAnchorFor s p with
  | error e => rw [ha] at hr; cases hr
  | ok t =>
    obtain ⟨id, fresh, s1⟩ := t
    rw [ha] at hr
    cases fresh with
    | false => exact hr
    | true =>
      simp only at hr ⊢
      split at hr
      · cases hr
      · rename_i hk
        rw [if_neg hk]
        split at hr
        · cases hr
        · rename_i x o2 s2 hrec
          rw [h _ _ _ hrec]
          exact hr

theorem ser_fuel_succ (H : Heap) : ∀ (fuel : Nat) (s : SerSt) (v : Val) (r : Out × SerSt),
    serVal fuel H s v = .ok r → serVal (fuel + 1) H s v = .ok r := by
  intro fuel
  induction fuel with
  | zero => intro s v r h; simp [serVal] at h
  | succ fuel ih =>
    intro s v r h
    cases v with
    | leaf k => simpa [serVal] using h
    | node isMap items =>
      simp only [serVal] at h ⊢
      cases hl : traverse (fun st x => serVal fuel H st x) { s with pending := none } items with
      | error e => rw [hl] at h; cases h
      | ok r1 =>
        rw [hl] at h
        rw [traverse_congr_ok _ (fun st x => serVal (fuel + 1) H st x) (fun s x r => ih s x r) items _ r1 hl]
        exact h
    | strong k tid p =>
      simp only [serVal] at h ⊢
      cases hc : List.lookup p H with
      | none => rw [hc] at h; cases h
      | some payload =>
        rw [hc] at h
        exact serPtr_congr_ok _ _ (fun s x r => ih s x r) s k p payload r h
    | weak k tid p =>
      simp only [serVal] at h ⊢
      cases hc : List.lookup p H with
      | none => rw [hc] at h; simpa using h
      | some payload =>
        rw [hc] at h
        exact serPtr_congr_ok _ _ (fun s x r => ih s x r) s k p payload r h

/-! ### no anchor is ever left pending after a value has been written -/

abbrev ClearRec (rec : SerSt → Val → Except SerErr (Out × SerSt)) : Prop :=
  ∀ s v o s', rec s v = .ok (o, s') → s'.pending = none

theorem serPtr_clear (rec : SerSt → Val → Except SerErr (Out × SerSt)) (ih : ClearRec rec)
    (s : SerSt) (k : Kind) (p : Ptr) (payload : Val) (o : Out) (s' : SerSt)
    (h : serPtr rec s k p payload = .ok (o, s')) : s'.pending = none := by
  unfold serPtr at h
  have fresh : ∀ (st : SerSt),
      (if (k == Kind.arcRec && s.held.contains p) = true then Except.error SerErr.deadlock
        else match rec st payload with
          | .error e => .error e
          | .ok (o, s2) => .ok (o, { s2 with held := s.held })) = .ok (o, s') → s'.pending = none := by
    intro st h
    split at h
    · cases h
    · split at h
      · cases h
      · rename_i x o2 s2 hrec
        simp only [Except.ok.injEq, Prod.mk.injEq] at h
        rw [← h.2]
        exact ih st payload o2 s2 hrec
  cases hpend : s.pending with
  | none =>
    rcases alloc_cases s p hpend with ⟨id, hl, ha⟩ | ⟨hl, ha⟩
    · rw [ha] at h
      simp only [Except.ok.injEq, Prod.mk.injEq] at h
      rw [← h.2]; exact hpend
    · rw [ha] at h
      exact fresh _ h
  | some outer =>
    rcases alloc_cases_pending s p outer hpend with ⟨id, hl, ha⟩ | ⟨hl, ha⟩
    · rw [ha] at h; cases h
    · rw [ha] at h
      exact fresh _ h

theorem traverse_clear {α β ε : Type} (f : SerSt → α → Except ε (β × SerSt))
    (hf : ∀ s x y s', f s x = .ok (y, s') → s'.pending = none) :
    ∀ (xs : List α) (s : SerSt) (ys : List β) (s' : SerSt), traverse f s xs = .ok (ys, s') →
      s.pending = none → s'.pending = none := by
  intro xs
  induction xs with
  | nil =>
    intro s ys s' h hp
    simp only [traverse, Except.ok.injEq, Prod.mk.injEq] at h
    rw [← h.2]; exact hp
  | cons x xs ihl =>
    intro s ys s' h _
    simp only [traverse] at h
    cases hx : f s x with
    | error e => rw [hx] at h; cases h
    | ok r =>
      obtain ⟨y, s1⟩ := r
      rw [hx] at h
      simp only at h
      cases hxs : traverse f s1 xs with
      | error e => rw [hxs] at h; cases h
      | ok r2 =>
        obtain ⟨ys2, s2⟩ := r2
        rw [hxs] at h
        simp only [Except.ok.injEq, Prod.mk.injEq] at h
        rw [← h.2]
        exact ihl s1 ys2 s2 hxs (hf s x y s1 hx)

theorem ser_clear (H : Heap) : ∀ (fuel : Nat), ClearRec (fun s v => serVal fuel H s v) := by
  intro fuel
  induction fuel with
  | zero => intro s v o s' h; simp [serVal] at h
  | succ fuel ih =>
    intro s v o s' h
    cases v with
    | leaf k =>
      simp only [serVal] at h
      split at h
      · simp only [Except.ok.injEq, Prod.mk.injEq] at h
        rw [← h.2]
      · simp only [Except.ok.injEq, Prod.mk.injEq] at h
        rw [← h.2]; exact forgetPending_pending s
    | node isMap items =>
      simp only [serVal] at h
      cases hl : traverse (fun st x => serVal fuel H st x) { s with pending := none } items with
      | error e => rw [hl] at h; cases h
      | ok r =>
        obtain ⟨outs, s2⟩ := r
        rw [hl] at h
        simp only [Except.ok.injEq, Prod.mk.injEq] at h
        rw [← h.2]
        exact traverse_clear _ (fun s x y s' hh => ih s x y s' hh) items _ outs s2 hl rfl
    | strong k tid p =>
      simp only [serVal] at h
      cases hc : List.lookup p H with
      | none => rw [hc] at h; cases h
      | some payload =>
        rw [hc] at h
        exact serPtr_clear _ ih s k p payload o s' h
    | weak k tid p =>
      simp only [serVal] at h
      cases hc : List.lookup p H with
      | none =>
        rw [hc] at h
        simp only [Except.ok.injEq, Prod.mk.injEq] at h
        rw [← h.2]
      | some payload =>
        rw [hc] at h
        exact serPtr_clear _ ih s k p payload o s' h

/-! ### the serializer never locks a mutex it already holds -/

/-- every cell whose mutex is held has an entry in the pointer table (it is being defined) -/
def HeldSeen (s : SerSt) : Prop := ∀ q, q ∈ s.held → s.anchors.lookup q ≠ none

/-- a pointer of the table is still there afterwards, unless it was registered under the anchor that
was pending on entry (a block scalar may forget exactly those) -/
def Grow (s s' : SerSt) : Prop :=
  ∀ q, s.anchors.lookup q ≠ none →
    s'.anchors.lookup q ≠ none ∨ ∃ id, s.pending = some id ∧ s.anchors.lookup q = some id

structure NoDlPost (s s' : SerSt) : Prop where
  held : s'.held = s.held
  grow : Grow s s'
  pend : s'.pending = none
  tab : TableOK s'
  mono : s.next ≤ s'.next

abbrev NoDlRec (rec : SerSt → Val → Except SerErr (Out × SerSt)) : Prop :=
  ∀ s v, HeldSeen s → TableOK s → PendRange s → 1 ≤ s.next →
    rec s v ≠ .error .deadlock ∧ ∀ o s', rec s v = .ok (o, s') → NoDlPost s s'

theorem lookup_cons_grow (a : List (Ptr × Nat)) (p : Ptr) (id : Nat) (q : Ptr) (h : a.lookup q ≠ none) :
    List.lookup q ((p, id) :: a) ≠ none := by
  by_cases hq : q = p
  · subst hq; rw [lookup_cons_self]; simp
  · rw [lookup_cons_ne _ _ _ _ hq]; exact h

theorem lookup_filter_or (id : Nat) : ∀ (a : List (Ptr × Nat)) (q : Ptr), a.lookup q ≠ none →
    (a.filter (fun e => e.2 != id)).lookup q ≠ none ∨ a.lookup q = some id
  | [], q, h => by simp [List.lookup] at h
  | (r, i) :: t, q, h => by
    by_cases hq : q = r
    · subst hq
      rw [lookup_cons_self]
      by_cases hi : i = id
      · exact Or.inr (by rw [hi])
      · left
        have : ((i != id) = true) := by simpa using hi
        simp only [List.filter, this]
        rw [lookup_cons_self]; simp
    · rw [lookup_cons_ne _ _ _ _ hq] at h ⊢
      rcases lookup_filter_or id t q h with h1 | h1
      · left
        simp only [List.filter]
        split
        · rw [lookup_cons_ne _ _ _ _ hq]; exact h1
        · exact h1
      · exact Or.inr h1

theorem grow_refl (s : SerSt) : Grow s s := fun _ h => Or.inl h

theorem grow_forget (s : SerSt) : Grow s (forgetPending s) := by
  intro q h
  unfold forgetPending
  cases hp : s.pending with
  | none => exact Or.inl h
  | some id =>
    rcases lookup_filter_or id s.anchors q h with h1 | h1
    · exact Or.inl h1
    · exact Or.inr ⟨id, rfl, h1⟩

theorem heldSeen_define (s : SerSt) (k : Kind) (p : Ptr) (id n : Nat) (pend : Option Nat) (hs : HeldSeen s) :
    HeldSeen (SerSt.mk ((p, id) :: s.anchors) n pend (lockCell k p s.held)) := by
  intro q hq
  by_cases hqp : q = p
  · subst hqp; show List.lookup q ((q, id) :: s.anchors) ≠ none; rw [lookup_cons_self]; simp
  · have : q ∈ s.held := by
      unfold lockCell at hq
      split at hq
      · simp only [List.mem_cons] at hq
        rcases hq with h | h
        · exact absurd h hqp
        · exact h
      · exact hq
    exact lookup_cons_grow _ _ _ _ (hs q this)

theorem serPtr_nodl (rec : SerSt → Val → Except SerErr (Out × SerSt)) (ih : NoDlRec rec)
    (s : SerSt) (k : Kind) (p : Ptr) (payload : Val) (hs : HeldSeen s) (ht : TableOK s)
    (hp : PendRange s) (h1 : 1 ≤ s.next) :
    serPtr rec s k p payload ≠ .error .deadlock ∧
      ∀ o s', serPtr rec s k p payload = .ok (o, s') → NoDlPost s s' := by
  -- the definition of a pointer that is not in the table, under anchor `id`
  have define : ∀ (id n : Nat), s.anchors.lookup p = none → TableOK' ((p, id) :: s.anchors) n →
      1 ≤ id → id < n → s.next ≤ n →
      (∀ q, s.anchors.lookup q = some id → s.pending = some id) →
      let st := SerSt.mk ((p, id) :: s.anchors) n (some id) (lockCell k p s.held)
      ((if (k == Kind.arcRec && s.held.contains p) = true then Except.error SerErr.deadlock
        else match rec st payload with
          | .error e => .error e
          | .ok (o, s2) => .ok (o, { s2 with held := s.held })) ≠ .error .deadlock) ∧
      ∀ o s', (if (k == Kind.arcRec && s.held.contains p) = true then Except.error SerErr.deadlock
        else match rec st payload with
          | .error e => .error e
          | .ok (o, s2) => .ok (o, { s2 with held := s.held })) = .ok (o, s') → NoDlPost s s' := by
    intro id n hl htab hid1 hid2 hn hshare st
    have hnh : s.held.contains p = false := by
      cases hc : s.held.contains p with
      | false => rfl
      | true =>
        have := hs p (by simpa using hc)
        exact absurd hl this
    have hst : HeldSeen st := heldSeen_define s k p id n (some id) hs
    obtain ⟨i1, i2⟩ := ih st payload hst htab
      (by intro j hj; simp only [st, Option.some.injEq] at hj; subst hj; exact ⟨hid1, hid2⟩)
      (Nat.le_trans h1 hn)
    simp only [hnh, Bool.and_false, Bool.false_eq_true, if_false]
    constructor
    · cases hr : rec st payload with
      | error e =>
        simp only
        intro he
        simp only [Except.error.injEq] at he
        rw [hr, he] at i1
        exact i1 rfl
      | ok r => obtain ⟨o2, s2⟩ := r; simp
    · intro o s' h
      cases hr : rec st payload with
      | error e => rw [hr] at h; cases h
      | ok r =>
        obtain ⟨o2, s2⟩ := r
        rw [hr] at h
        simp only [Except.ok.injEq, Prod.mk.injEq] at h
        obtain ⟨rfl, rfl⟩ := h
        have post := i2 o2 s2 hr
        refine ⟨rfl, ?_, post.pend, post.tab, Nat.le_trans hn post.mono⟩
        intro q hq
        have hq0 : st.anchors.lookup q ≠ none := lookup_cons_grow _ _ _ _ hq
        rcases post.grow q hq0 with g | ⟨j, hj, hqj⟩
        · exact Or.inl g
        · simp only [st, Option.some.injEq] at hj
          subst hj
          have hqp : q ≠ p := by
            intro e; rw [e] at hq; exact hq hl
          have hqs : s.anchors.lookup q = some id := by
            have : List.lookup q ((p, id) :: s.anchors) = some id := hqj
            rwa [lookup_cons_ne _ _ _ _ hqp] at this
          exact Or.inr ⟨id, hshare q hqs, hqs⟩
  unfold serPtr
  cases hpend : s.pending with
  | none =>
    rcases alloc_cases s p hpend with ⟨id, hl, ha⟩ | ⟨hl, ha⟩
    · rw [ha]
      refine ⟨by simp, ?_⟩
      intro o s' h
      simp only [Except.ok.injEq, Prod.mk.injEq] at h
      rw [← h.2]
      exact ⟨rfl, grow_refl s, hpend, ht, Nat.le_refl _⟩
    · rw [ha]
      refine define s.next (s.next + 1) hl (tableOK_alloc _ _ p ht h1) h1 (Nat.lt_succ_self _)
        (Nat.le_succ _) ?_
      intro q hq
      exact absurd (tableOK_lookup ht hq).2 (Nat.lt_irrefl _)
  | some outer =>
    have hr := hp outer hpend
    rcases alloc_cases_pending s p outer hpend with ⟨id, hl, ha⟩ | ⟨hl, ha⟩
    · rw [ha]
      exact ⟨by simp, by intro o s' h; cases h⟩
    · rw [ha]
      exact define outer s.next hl (tableOK_share _ _ p outer ht hr.1 hr.2) hr.1 hr.2 (Nat.le_refl _)
        (fun _ _ => hpend)

theorem ser_list_nodl (fuel : Nat) (H : Heap) (ih : NoDlRec (fun s v => serVal fuel H s v)) :
    ∀ (items : List Val) (s : SerSt), HeldSeen s → TableOK s → s.pending = none → 1 ≤ s.next →
      traverse (fun st x => serVal fuel H st x) s items ≠ .error .deadlock ∧
      ∀ outs s', traverse (fun st x => serVal fuel H st x) s items = .ok (outs, s') →
        s'.held = s.held ∧ (∀ q, s.anchors.lookup q ≠ none → s'.anchors.lookup q ≠ none) ∧
        s'.pending = none ∧ TableOK s' ∧ s.next ≤ s'.next := by
  intro items
  induction items with
  | nil =>
    intro s _ ht hp _
    refine ⟨by simp [traverse], ?_⟩
    intro outs s' h
    simp only [traverse, Except.ok.injEq, Prod.mk.injEq] at h
    rw [← h.2]
    exact ⟨rfl, fun _ h => h, hp, ht, Nat.le_refl _⟩
  | cons x xs ihl =>
    intro s hs ht hp h1
    have hpr : PendRange s := by intro id hid; rw [hp] at hid; cases hid
    have i1 : serVal fuel H s x ≠ .error .deadlock := (ih s x hs ht hpr h1).1
    have i2 : ∀ o s', serVal fuel H s x = .ok (o, s') → NoDlPost s s' := (ih s x hs ht hpr h1).2
    simp only [traverse]
    cases hx : serVal fuel H s x with
    | error e =>
      refine ⟨?_, by intro outs s' h; cases h⟩
      intro he
      simp only [Except.error.injEq] at he
      rw [hx, he] at i1
      exact i1 rfl
    | ok r =>
      obtain ⟨y, s1⟩ := r
      have p1 := i2 y s1 hx
      have g1 : ∀ q, s.anchors.lookup q ≠ none → s1.anchors.lookup q ≠ none := by
        intro q hq
        rcases p1.grow q hq with g | ⟨id, hid, _⟩
        · exact g
        · rw [hp] at hid; cases hid
      have hs1 : HeldSeen s1 := by
        intro q hq
        rw [p1.held] at hq
        exact g1 q (hs q hq)
      obtain ⟨j1, j2⟩ := ihl s1 hs1 p1.tab p1.pend (Nat.le_trans h1 p1.mono)
      simp only
      cases hxs : traverse (fun st x => serVal fuel H st x) s1 xs with
      | error e =>
        refine ⟨?_, by intro outs s' h; cases h⟩
        intro he
        simp only [Except.error.injEq] at he
        rw [hxs, he] at j1
        exact j1 rfl
      | ok r2 =>
        obtain ⟨ys, s2⟩ := r2
        refine ⟨by simp, ?_⟩
        intro outs s' h
        simp only [Except.ok.injEq, Prod.mk.injEq] at h
        rw [← h.2]
        obtain ⟨k1, k2, k3, k4, k5⟩ := j2 ys s2 hxs
        exact ⟨k1.trans p1.held, fun q hq => k2 q (g1 q hq), k3, k4, Nat.le_trans p1.mono k5⟩

theorem ser_nodl (H : Heap) : ∀ (fuel : Nat), NoDlRec (fun s v => serVal fuel H s v) := by
  intro fuel
  induction fuel with
  | zero => intro s v _ _ _ _; simp [serVal]
  | succ fuel ih =>
    intro s v hs ht hp h1
    cases v with
    | leaf k =>
      simp only [serVal]
      split
      · refine ⟨by simp, ?_⟩
        intro o s' h
        simp only [Except.ok.injEq, Prod.mk.injEq] at h
        rw [← h.2]
        exact ⟨rfl, grow_refl s, rfl, ht, Nat.le_refl _⟩
      · refine ⟨by simp, ?_⟩
        intro o s' h
        simp only [Except.ok.injEq, Prod.mk.injEq] at h
        rw [← h.2]
        exact ⟨forgetPending_held s, grow_forget s, forgetPending_pending s, forgetPending_tableOK s ht,
          by rw [forgetPending_next]; exact Nat.le_refl _⟩
    | node isMap items =>
      simp only [serVal]
      have hs1 : HeldSeen { s with pending := none } := hs
      obtain ⟨j1, j2⟩ := ser_list_nodl fuel H ih items _ hs1 ht rfl h1
      cases hl : traverse (fun st x => serVal fuel H st x) { s with pending := none } items with
      | error e =>
        refine ⟨?_, by intro o s' h; cases h⟩
        intro he
        simp only [Except.error.injEq] at he
        rw [hl, he] at j1
        exact j1 rfl
      | ok r =>
        obtain ⟨outs, s2⟩ := r
        refine ⟨by simp, ?_⟩
        intro o s' h
        simp only [Except.ok.injEq, Prod.mk.injEq] at h
        rw [← h.2]
        obtain ⟨k1, k2, k3, k4, k5⟩ := j2 outs s2 hl
        exact ⟨k1, fun q hq => Or.inl (k2 q hq), k3, k4, k5⟩
    | strong k tid p =>
      simp only [serVal]
      cases hc : List.lookup p H with
      | none => exact ⟨by simp, by intro o s' h; cases h⟩
      | some payload => exact serPtr_nodl _ ih s k p payload hs ht hp h1
    | weak k tid p =>
      simp only [serVal]
      cases hc : List.lookup p H with
      | none =>
        refine ⟨by simp, ?_⟩
        intro o s' h
        simp only [Except.ok.injEq, Prod.mk.injEq] at h
        rw [← h.2]
        exact ⟨rfl, grow_refl s, rfl, ht, Nat.le_refl _⟩
      | some payload => exact serPtr_nodl _ ih s k p payload hs ht hp h1

end SaphyrVerif.Lemmas.C14
