import SaphyrVerif.Model.RawGate
import SaphyrVerif.Spec.Utf16
import SaphyrVerif.Lemmas.C09
/-! Helper lemmas for the raw-byte gate (C10): field bookkeeping, the tracked flag against the predicate of
Spec/Utf16.lean, one-step behaviour of `Gate.read`. -/
namespace SaphyrVerif.Lemmas.C10Gate
open SaphyrVerif SaphyrVerif.Reader SaphyrVerif.Spec.Utf16 SaphyrVerif.Lemmas.C09

/-! ### bookkeeping of `note` -/

/-- the part of the state `note` reads and writes -/
def core (g : Gate) : Nat × RawEnc × Nat × Option Nat × Bool :=
  (g.pulled, g.encoding, g.first, g.half, g.highPending)

theorem note_fields (g : Gate) (b : Nat) :
    (g.note b).inner = g.inner ∧ (g.note b).limit = g.limit ∧ (g.note b).tripped = g.tripped ∧
    (g.note b).taken = g.taken ∧ (g.note b).pulled = g.pulled + 1 := by
  unfold Gate.note
  cases g.encoding <;> simp only [] <;> (try split) <;> simp

theorem noteAll_fields : ∀ (bs : List Nat) (g : Gate),
    (g.noteAll bs).inner = g.inner ∧ (g.noteAll bs).limit = g.limit ∧ (g.noteAll bs).tripped = g.tripped ∧
    (g.noteAll bs).taken = g.taken ∧ (g.noteAll bs).pulled = g.pulled + bs.length
  | [], g => by simp [Gate.noteAll]
  | b :: bs, g => by
    obtain ⟨h1, h2, h3, h4, h5⟩ := noteAll_fields bs (g.note b)
    obtain ⟨k1, k2, k3, k4, k5⟩ := note_fields g b
    simp only [Gate.noteAll, List.length_cons]
    refine ⟨h1.trans k1, h2.trans k2, h3.trans k3, h4.trans k4, ?_⟩
    rw [h5, k5]; omega

theorem note_core {g h : Gate} (b : Nat) (hc : core g = core h) : core (g.note b) = core (h.note b) := by
  simp only [core, Prod.mk.injEq] at hc
  obtain ⟨h1, h2, h3, h4, h5⟩ := hc
  unfold Gate.note core
  rw [h1, h2, h3, h4, h5]
  cases h.encoding <;> simp only [] <;> (try split) <;> simp [h1, h2, h3, h4, h5]

theorem noteAll_core : ∀ (bs : List Nat) {g h : Gate}, core g = core h → core (g.noteAll bs) = core (h.noteAll bs)
  | [], _, _, hc => by simpa [Gate.noteAll] using hc
  | b :: bs, _, _, hc => by
    simp only [Gate.noteAll]
    exact noteAll_core bs (note_core b hc)

theorem noteAll_append : ∀ (xs ys : List Nat) (g : Gate), g.noteAll (xs ++ ys) = (g.noteAll xs).noteAll ys
  | [], _, _ => rfl
  | x :: xs, ys, g => by simp only [List.cons_append, Gate.noteAll]; exact noteAll_append xs ys (g.note x)

theorem insideChar_core {g h : Gate} (hc : core g = core h) : g.insideChar = h.insideChar := by
  simp only [core, Prod.mk.injEq] at hc
  obtain ⟨_, h2, _, h4, h5⟩ := hc
  simp [Gate.insideChar, h2, h4, h5]

theorem atEnd_core {g h : Gate} (hc : core g = core h) : g.atEnd = h.atEnd := by
  simp [Gate.atEnd, insideChar_core hc]

/-! ### the tracked flag is the predicate of the specification -/

theorem cutAfterBom_cons_cons (be : Bool) (a b c : Nat) (rest : List Nat) :
    cutAfterBom be (a :: b :: c :: rest) = cutAfterBom be (c :: rest) := by
  cases rest with
  | nil => simp [cutAfterBom]
  | cons d r =>
    simp only [cutAfterBom, units, List.length_cons, List.getLast?_cons_cons]
    congr 1
    have : (r.length + 1 + 1 + 1 + 1) % 2 = (r.length + 1 + 1) % 2 := by omega
    rw [this]

/-- after the mark, in a state with no half code unit pending: the flag after any further bytes -/
theorem flag_after_bom (be : Bool) : ∀ (rest : List Nat) (g : Gate),
    g.encoding = (if be then .utf16be else .utf16le) → g.half = none →
    (g.noteAll rest).insideChar = (if rest = [] then g.highPending else cutAfterBom be rest)
  | [], g, he, hh => by
    cases be <;> simp [Gate.noteAll, Gate.insideChar, he, hh]
  | [a], g, he, hh => by
    cases be <;> simp [Gate.noteAll, Gate.note, Gate.insideChar, he, hh, cutAfterBom]
  | a :: b :: rest, g, he, hh => by
    have hstep : ((g.note a).note b).encoding = (if be then .utf16be else .utf16le) ∧ ((g.note a).note b).half = none ∧
        ((g.note a).note b).highPending = isHigh (unit be a b) := by
      cases be <;> simp [Gate.note, he, hh, isHigh, unit]
    have ih := flag_after_bom be rest ((g.note a).note b) hstep.1 hstep.2.1
    simp only [Gate.noteAll] at ih ⊢
    rw [ih, hstep.2.2]
    cases rest with
    | nil => simp [cutAfterBom, units]
    | cons c r => simp [cutAfterBom_cons_cons]

/-- (flag = predicate) whatever bytes a fresh gate has handed on, in whatever pieces: the flag `at_end` tests is
`endsInsideChar` of those bytes -/
theorem flag_eq_spec (bs : List Nat) (g : Gate) (hg : core g = core { inner := [] }) :
    (g.noteAll bs).insideChar = endsInsideChar bs := by
  rw [insideChar_core (noteAll_core bs hg)]
  match bs with
  | [] => simp [Gate.noteAll, Gate.insideChar, endsInsideChar, bomOf]
  | [a] => simp [Gate.noteAll, Gate.note, Gate.insideChar, endsInsideChar, bomOf]
  | a :: b :: rest =>
    simp only [Gate.noteAll]
    by_cases hle : a = 0xFF ∧ b = 0xFE
    · obtain ⟨rfl, rfl⟩ := hle
      have := flag_after_bom false rest ((({ inner := [] } : Gate).note 0xFF).note 0xFE) (by simp [Gate.note]) (by simp [Gate.note])
      rw [this]
      cases rest <;> simp [endsInsideChar, bomOf, Gate.note, cutAfterBom, units]
    · by_cases hbe : a = 0xFE ∧ b = 0xFF
      · obtain ⟨rfl, rfl⟩ := hbe
        have := flag_after_bom true rest ((({ inner := [] } : Gate).note 0xFE).note 0xFF) (by simp [Gate.note]) (by simp [Gate.note])
        rw [this]
        cases rest <;> simp [endsInsideChar, bomOf, Gate.note, cutAfterBom, units]
      · have hn : ((({ inner := [] } : Gate).note a).note b).encoding = .notUtf16 := by
          simp only [Gate.note]
          simp [hle, hbe]
        have hkeep : ∀ (l : List Nat) (h : Gate), h.encoding = .notUtf16 → (h.noteAll l).insideChar = false := by
          intro l
          induction l with
          | nil => intro h he; simp [Gate.noteAll, Gate.insideChar, he]
          | cons x xs ih =>
            intro h he
            simp only [Gate.noteAll]
            exact ih _ (by simp [Gate.note, he])
        rw [hkeep rest _ hn]
        have : bomOf (a :: b :: rest) = none := by
          unfold bomOf
          split
          · rename_i h; simp at h; exact absurd ⟨h.1, h.2.1⟩ hle
          · rename_i h; simp at h; exact absurd ⟨h.1, h.2.1⟩ hbe
          · rfl
        simp [endsInsideChar, this]

/-! ### the predicate on the raw bytes of a UTF-16 text cut at a byte position -/

theorem endsInsideChar_bom_append (be : Bool) (l : List Nat) :
    endsInsideChar ((if be then [0xFE, 0xFF] else [0xFF, 0xFE]) ++ l) = cutAfterBom be l := by
  cases be <;> simp [endsInsideChar, bomOf]

theorem unit_unitBytes (be : Bool) (u : Nat) : ∀ rest, units be (unitBytes be u ++ rest) = u :: units be rest := by
  intro rest
  cases be
  · simp only [unitBytes, units, unit, Bool.false_eq_true, ↓reduceIte, List.cons_append, List.nil_append]
    congr 1; omega
  · simp only [unitBytes, units, unit, ↓reduceIte, List.cons_append, List.nil_append]
    congr 1; omega

theorem units_flatMap (be : Bool) : ∀ (us : List Nat), units be (us.flatMap (unitBytes be)) = us
  | [] => by simp [units]
  | u :: us => by
    rw [List.flatMap_cons, unit_unitBytes, units_flatMap be us]

theorem flatMap_length (be : Bool) : ∀ (us : List Nat), (us.flatMap (unitBytes be)).length = 2 * us.length
  | [] => by simp
  | u :: us => by
    rw [List.flatMap_cons, List.length_append, flatMap_length be us]
    cases be <;> simp [unitBytes] <;> omega

theorem flatMap_take (be : Bool) : ∀ (us : List Nat) (i : Nat),
    (us.flatMap (unitBytes be)).take (2 * i) = (us.take i).flatMap (unitBytes be)
  | [], i => by simp
  | u :: us, 0 => by simp
  | u :: us, i + 1 => by
    have h2 : (unitBytes be u).length = 2 := by cases be <;> simp [unitBytes]
    rw [List.flatMap_cons, List.take_append, h2, List.take_of_length_le (by omega)]
    have : 2 * (i + 1) - 2 = 2 * i := by omega
    rw [this, flatMap_take be us i]
    simp [List.flatMap_cons]

/-- a cut at an odd byte position after the mark is inside a code unit -/
theorem cut_odd (be : Bool) (l : List Nat) (q : Nat) (hq : q ≤ l.length) (hodd : q % 2 = 1) :
    cutAfterBom be (l.take q) = true := by
  simp [cutAfterBom, List.length_take, Nat.min_eq_left hq, hodd]

/-- a cut right after the code unit `us[i]`: inside a character exactly when that unit is a high surrogate -/
theorem cut_after_unit (be : Bool) (us : List Nat) (i : Nat) (u : Nat) (hu : us[i]? = some u) :
    cutAfterBom be ((us.flatMap (unitBytes be)).take (2 * (i + 1))) = isHigh u := by
  have hi : i < us.length := by
    rcases Nat.lt_or_ge i us.length with h | h
    · exact h
    · rw [List.getElem?_eq_none h] at hu; cases hu
  rw [flatMap_take]
  simp only [cutAfterBom, units_flatMap, flatMap_length]
  have hl : (us.take (i + 1)).getLast? = some u := by
    rw [List.getLast?_take]
    simp [hu]
  rw [hl]
  simp

/-- the complete text: inside a character exactly when the last code unit is a high surrogate -/
theorem cut_complete (be : Bool) (us : List Nat) :
    cutAfterBom be (us.flatMap (unitBytes be)) = true ↔ ∃ u, us.getLast? = some u ∧ isHigh u = true := by
  simp only [cutAfterBom, units_flatMap, flatMap_length]
  have : (2 * us.length) % 2 = 0 := by omega
  cases us.getLast? <;> simp [this]

/-! ### one `read` -/

/-- which of the three paths a `read` with a non-empty buffer takes -/
theorem read_paths (g : Gate) (n : Nat) (hn : 0 < n) :
    (∃ l, g.limit = some l ∧ g.tripped = true ∧ g.read n = (.err kFileTooLarge, g)) ∨
    (g.limit = none ∧ g.read n = g.plain n) ∨
    (∃ l, g.limit = some l ∧ g.tripped = false ∧ 0 < min n (l - g.pulled) ∧ g.read n = g.plain (min n (l - g.pulled))) ∨
    (∃ l, g.limit = some l ∧ g.tripped = false ∧ l ≤ g.pulled ∧ g.read n = g.probe) := by
  have hn0 : (n == 0) = false := by simp; omega
  unfold Gate.read
  simp only [hn0, Bool.false_eq_true, ↓reduceIte]
  cases hl : g.limit with
  | none => exact Or.inr (Or.inl ⟨rfl, rfl⟩)
  | some l =>
    simp only []
    cases ht : g.tripped with
    | true => exact Or.inl ⟨l, rfl, rfl, by simp⟩
    | false =>
      simp only [Bool.false_eq_true, ↓reduceIte]
      by_cases hw : min n (l - g.pulled) = 0
      · have : (min n (l - g.pulled) == 0) = true := by simp [hw]
        rw [this]
        exact Or.inr (Or.inr (Or.inr ⟨l, by simp, by simp, by omega, by simp⟩))
      · have : (min n (l - g.pulled) == 0) = false := by simp [hw]
        rw [this]
        exact Or.inr (Or.inr (Or.inl ⟨l, by simp, by simp, by omega, by simp⟩))

/-- `plain`, by the result of the inner call -/
theorem plain_spec (g : Gate) (want : Nat) :
    (∃ k s, readCall want g.inner = (.err k, s) ∧ g.plain want = (.err k, { g with inner := s })) ∨
    (∃ s, readCall want g.inner = (.ok [], s) ∧ g.plain want = ({ g with inner := s }.atEnd, { g with inner := s })) ∨
    (∃ b bs s, readCall want g.inner = (.ok (b :: bs), s) ∧
      g.plain want = (.ok (b :: bs), { g with inner := s, taken := g.taken + (bs.length + 1) }.noteAll (b :: bs))) := by
  unfold Gate.plain
  cases hr : readCall want g.inner with
  | mk r s =>
    cases r with
    | err k => exact Or.inl ⟨k, s, rfl, rfl⟩
    | ok bs =>
      cases bs with
      | nil => exact Or.inr (Or.inl ⟨s, rfl, rfl⟩)
      | cons b bs => exact Or.inr (Or.inr ⟨b, bs, s, rfl, rfl⟩)

/-- `probe`, by the result of the inner call -/
theorem probe_spec (g : Gate) :
    (∃ k s, readCall 1 g.inner = (.err k, s) ∧ g.probe = (.err k, { g with inner := s })) ∨
    (∃ s, readCall 1 g.inner = (.ok [], s) ∧ g.probe = ({ g with inner := s }.atEnd, { g with inner := s })) ∨
    (∃ b s, readCall 1 g.inner = (.ok [b], s) ∧
      g.probe = (.err kFileTooLarge, { g with inner := s, tripped := true, taken := g.taken + 1 })) := by
  unfold Gate.probe
  cases hr : readCall 1 g.inner with
  | mk r s =>
    cases r with
    | err k => exact Or.inl ⟨k, s, rfl, rfl⟩
    | ok bs =>
      cases bs with
      | nil => exact Or.inr (Or.inl ⟨s, rfl, rfl⟩)
      | cons b bs =>
        have hlen := (readCall_flat hr).1 _ rfl |>.2
        have : bs = [] := by
          cases bs with
          | nil => rfl
          | cons c cs => simp at hlen
        subst this
        exact Or.inr (Or.inr ⟨b, s, rfl, rfl⟩)

/-! ### the counters (raw_pull_bound) -/

/-- under a cap: at most `cap` bytes handed on, and everything taken from the reader is those bytes plus the one
probe byte once the gate has tripped -/
def CapInv (cap : Nat) (g : Gate) : Prop :=
  g.limit = some cap ∧ g.pulled ≤ cap ∧ g.taken = g.pulled + (if g.tripped then 1 else 0)

theorem read_capInv (cap n : Nat) (g : Gate) (h : CapInv cap g) : CapInv cap (g.read n).2 := by
  obtain ⟨hl, hp, ht⟩ := h
  by_cases hn : n = 0
  · subst hn; simp [Gate.read]; exact ⟨hl, hp, ht⟩
  · rcases read_paths g n (by omega) with ⟨l, _, _, hr⟩ | ⟨hnone, _⟩ | ⟨l, hl', htr, hw, hr⟩ | ⟨l, hl', htr, hle, hr⟩
    · rw [hr]; exact ⟨hl, hp, ht⟩
    · rw [hl] at hnone; cases hnone
    · rw [hl] at hl'; cases hl'
      rw [hr]
      rcases plain_spec g (min n (cap - g.pulled)) with ⟨k, s, _, he⟩ | ⟨s, _, he⟩ | ⟨b, bs, s, hrc, he⟩
      · rw [he]; exact ⟨hl, hp, ht⟩
      · rw [he]; exact ⟨hl, hp, ht⟩
      · rw [he]
        have hlen := ((readCall_flat hrc).1 _ rfl).2
        obtain ⟨_, f2, f3, f4, f5⟩ := noteAll_fields (b :: bs) { g with inner := s, taken := g.taken + (bs.length + 1) }
        refine ⟨by rw [f2]; exact hl, ?_, ?_⟩
        · rw [f5]; simp only [List.length_cons] at hlen ⊢; omega
        · rw [f4, f5, f3]; simp only [List.length_cons]; rw [ht]; omega
    · rw [hl] at hl'; cases hl'
      rw [hr]
      rcases probe_spec g with ⟨k, s, _, he⟩ | ⟨s, _, he⟩ | ⟨b, s, _, he⟩
      · rw [he]; exact ⟨hl, hp, ht⟩
      · rw [he]; exact ⟨hl, hp, ht⟩
      · rw [he]
        refine ⟨hl, hp, ?_⟩
        simp only [ht, htr]; simp

theorem run_capInv (cap : Nat) : ∀ (reqs : List Nat) (g : Gate), CapInv cap g → CapInv cap (g.run reqs).2
  | [], g, h => by simpa [Gate.run] using h
  | n :: reqs, g, h => by
    simp only [Gate.run]
    exact run_capInv cap reqs (g.read n).2 (read_capInv cap n g h)

/-- the ghost counter is honest: what `taken` grows by is what the inner schedule loses -/
theorem read_taken (g : Gate) (n : Nat) :
    (flat (g.read n).2.inner).length + (g.read n).2.taken = (flat g.inner).length + g.taken := by
  by_cases hn : n = 0
  · subst hn; simp [Gate.read]
  · have hplain : ∀ want, (flat (g.plain want).2.inner).length + (g.plain want).2.taken = (flat g.inner).length + g.taken := by
      intro want
      rcases plain_spec g want with ⟨k, s, hrc, he⟩ | ⟨s, hrc, he⟩ | ⟨b, bs, s, hrc, he⟩
      · rw [he]; have := (readCall_flat hrc).2 _ rfl; simp [this]
      · rw [he]; have := ((readCall_flat hrc).1 _ rfl).1; simp at this; simp [this]
      · rw [he]
        have := ((readCall_flat hrc).1 _ rfl).1
        obtain ⟨f1, _, _, f4, _⟩ := noteAll_fields (b :: bs) { g with inner := s, taken := g.taken + (bs.length + 1) }
        rw [f1, f4, ← this]; simp; omega
    rcases read_paths g n (by omega) with ⟨l, _, _, hr⟩ | ⟨_, hr⟩ | ⟨l, _, _, _, hr⟩ | ⟨l, _, _, _, hr⟩
    · rw [hr]
    · rw [hr]; exact hplain n
    · rw [hr]; exact hplain _
    · rw [hr]
      rcases probe_spec g with ⟨k, s, hrc, he⟩ | ⟨s, hrc, he⟩ | ⟨b, s, hrc, he⟩
      · rw [he]; have := (readCall_flat hrc).2 _ rfl; simp [this]
      · rw [he]; have := ((readCall_flat hrc).1 _ rfl).1; simp at this; simp [this]
      · rw [he]; have := ((readCall_flat hrc).1 _ rfl).1; rw [← this]; simp; omega

theorem run_taken : ∀ (reqs : List Nat) (g : Gate),
    (flat (g.run reqs).2.inner).length + (g.run reqs).2.taken = (flat g.inner).length + g.taken
  | [], g => by simp [Gate.run]
  | n :: reqs, g => by
    simp only [Gate.run]
    rw [run_taken reqs (g.read n).2, read_taken]

/-! ### transparency (raw_gate_transparent_below_cap) -/

/-- no end-of-input result of the schedule falls inside a UTF-16 character: `pre` are the bytes delivered before;
an empty read result (`data []`) and the end of the schedule are the moments the reader says `Ok(0)` -/
def eofClean (pre : List Nat) : Sched → Bool
  | [] => !endsInsideChar pre
  | .data bs :: rest => if bs.isEmpty then !endsInsideChar pre && eofClean pre rest else eofClean (pre ++ bs) rest
  | .fail _ :: rest => eofClean pre rest

/-- data chunks are non-empty (failing calls allowed): the only `Ok(0)` is the end of the schedule -/
def noEmpty : Sched → Bool
  | [] => true
  | .data bs :: rest => !bs.isEmpty && noEmpty rest
  | .fail _ :: rest => noEmpty rest

theorem readCall_min {s : Sched} {n m : Nat} (h : (flat s).length ≤ m) : readCall (min n m) s = readCall n s := by
  cases s with
  | nil => rfl
  | cons it rest =>
    cases it with
    | fail k => rfl
    | data bs =>
      have hb : bs.length ≤ m := by simp [flat] at h; omega
      simp only [readCall]
      by_cases hn : bs.length ≤ n
      · have : bs.length ≤ min n m := by omega
        simp [hn, this]
      · have : min n m = n := by omega
        rw [this]

theorem readCall_nobytes {s : Sched} {n : Nat} (_hn : 0 < n) (h : flat s = []) : readCall 1 s = readCall n s := by
  cases s with
  | nil => rfl
  | cons it rest =>
    cases it with
    | fail k => rfl
    | data bs =>
      have hb : bs = [] := by simp [flat] at h; exact h.1
      subst hb
      simp [readCall]

theorem eofClean_step {n : Nat} (hn : 0 < n) {pre : List Nat} {s s' : Sched} {r : ReadRes}
    (h : readCall n s = (r, s')) (hc : eofClean pre s = true) :
    (r = .ok [] → endsInsideChar pre = false ∧ eofClean pre s' = true) ∧
    (∀ b bs, r = .ok (b :: bs) → eofClean (pre ++ b :: bs) s' = true) ∧
    (∀ k, r = .err k → eofClean pre s' = true) := by
  cases s with
  | nil =>
    simp [readCall] at h; obtain ⟨rfl, rfl⟩ := h
    simp [eofClean] at hc ⊢; exact hc
  | cons it rest =>
    cases it with
    | fail k =>
      simp [readCall] at h; obtain ⟨rfl, rfl⟩ := h
      simpa [eofClean] using hc
    | data d =>
      simp only [readCall] at h
      by_cases hle : d.length ≤ n
      · simp [hle] at h; obtain ⟨rfl, rfl⟩ := h
        cases d with
        | nil => simp [eofClean] at hc ⊢; exact hc
        | cons x xs => simp [eofClean] at hc ⊢; exact hc
      · simp [hle] at h; obtain ⟨rfl, rfl⟩ := h
        have hlt' : n < d.length := by omega
        have hdrop : (d.drop n).isEmpty = false := by
          cases hd : d.drop n with
          | nil => have := congrArg List.length hd; simp at this; omega
          | cons _ _ => rfl
        have hd0 : d.isEmpty = false := by cases d with
          | nil => simp at hlt'
          | cons _ _ => rfl
        have htake : d.take n ≠ [] := by
          intro h0
          have h1 : (d.take n).length = 0 := by rw [h0]; rfl
          rw [List.length_take] at h1; omega
        simp only [eofClean, hd0, Bool.false_eq_true, ↓reduceIte] at hc
        refine ⟨fun h0 => absurd (by simpa using h0) htake, ?_, by simp⟩
        intro b bs hb
        simp only [ReadRes.ok.injEq] at hb
        simp only [eofClean, hdrop, Bool.false_eq_true, ↓reduceIte]
        rw [← hb, List.append_assoc, List.take_append_drop]
        exact hc

/-- the state the gate is in when `pre` has been handed on, nothing refused, and what is left fits the cap -/
def TInv (pre : List Nat) (g : Gate) : Prop :=
  core g = core (({ inner := [] } : Gate).noteAll pre) ∧ g.tripped = false ∧
  (∀ cap, g.limit = some cap → g.pulled + (flat g.inner).length ≤ cap)

def okBytes : ReadRes → List Nat
  | .ok bs => bs
  | .err _ => []

theorem TInv_insideChar {pre : List Nat} {g : Gate} (h : TInv pre g) : g.insideChar = endsInsideChar pre := by
  rw [insideChar_core h.1]
  exact flag_eq_spec pre _ rfl

/-- `plain` with a request that the inner reader answers as it would answer the consumer's own request -/
theorem plain_transparent (g : Gate) (pre : List Nat) (want n : Nat) (hn : 0 < n)
    (hw : readCall want g.inner = readCall n g.inner) (h : TInv pre g) (hc : eofClean pre g.inner = true) :
    (g.plain want).1 = (readCall n g.inner).1 ∧ (g.plain want).2.inner = (readCall n g.inner).2 ∧
    TInv (pre ++ okBytes (g.plain want).1) (g.plain want).2 ∧
    eofClean (pre ++ okBytes (g.plain want).1) (g.plain want).2.inner = true := by
  obtain ⟨h1, h2, h3⟩ := h
  rcases plain_spec g want with ⟨k, s, hrc, he⟩ | ⟨s, hrc, he⟩ | ⟨b, bs, s, hrc, he⟩
  · have hst := (eofClean_step hn (hw ▸ hrc) hc).2.2 k rfl
    have hfl := (readCall_flat hrc).2 _ rfl
    have hcore : core ({ g with inner := s } : Gate) = core g := rfl
    rw [he, ← hw, hrc]
    refine ⟨rfl, rfl, ⟨?_, h2, ?_⟩, ?_⟩
    · simp only [okBytes, List.append_nil]; exact hcore.trans h1
    · intro cap hl; have := h3 cap hl; simp only [hfl]; exact this
    · simpa [okBytes] using hst
  · have hst := (eofClean_step hn (hw ▸ hrc) hc).1 rfl
    have hfl := ((readCall_flat hrc).1 _ rfl).1
    simp at hfl
    have hcore : core ({ g with inner := s } : Gate) = core g := rfl
    have hin : ({ g with inner := s } : Gate).insideChar = false := by
      rw [insideChar_core hcore, TInv_insideChar ⟨h1, h2, h3⟩]; exact hst.1
    rw [he, ← hw, hrc]
    simp only [Gate.atEnd, hin, Bool.false_eq_true, ↓reduceIte]
    refine ⟨trivial, trivial, ⟨?_, h2, ?_⟩, ?_⟩
    · simp only [okBytes, List.append_nil]; exact hcore.trans h1
    · intro cap hl; have := h3 cap hl; simp only [hfl]; exact this
    · simpa [okBytes] using hst.2
  · have hst := (eofClean_step hn (hw ▸ hrc) hc).2.1 b bs rfl
    have hfl := ((readCall_flat hrc).1 _ rfl).1
    obtain ⟨f1, f2, f3, f4, f5⟩ := noteAll_fields (b :: bs) { g with inner := s, taken := g.taken + (bs.length + 1) }
    have hcore : core ({ g with inner := s, taken := g.taken + (bs.length + 1) } : Gate) = core g := rfl
    rw [he, ← hw, hrc]
    refine ⟨rfl, f1, ⟨?_, by rw [f3]; exact h2, ?_⟩, by simp only [okBytes]; rw [f1]; exact hst⟩
    · simp only [okBytes]
      rw [noteAll_append]
      exact noteAll_core (b :: bs) (hcore.trans h1)
    · intro cap hl
      rw [f2] at hl
      have := h3 cap hl
      rw [f5, f1]
      rw [← hfl] at this
      simp only [List.length_append] at this
      simpa using (by omega : g.pulled + (b :: bs).length + (flat s).length ≤ cap)

theorem probe_eq_plain (g : Gate) (h : flat g.inner = []) : g.probe = g.plain 1 := by
  unfold Gate.probe Gate.plain
  cases hr : readCall 1 g.inner with
  | mk r s =>
    cases r with
    | err k => rfl
    | ok bs =>
      cases bs with
      | nil => rfl
      | cons b bs =>
        have := ((readCall_flat hr).1 _ rfl).1
        rw [h] at this
        simp at this

theorem read_transparent (g : Gate) (pre : List Nat) (n : Nat) (hn : 0 < n) (h : TInv pre g)
    (hc : eofClean pre g.inner = true) :
    (g.read n).1 = (readCall n g.inner).1 ∧ (g.read n).2.inner = (readCall n g.inner).2 ∧
    TInv (pre ++ okBytes (g.read n).1) (g.read n).2 ∧
    eofClean (pre ++ okBytes (g.read n).1) (g.read n).2.inner = true := by
  rcases read_paths g n hn with ⟨l, _, ht, _⟩ | ⟨_, hr⟩ | ⟨l, hl, _, _, hr⟩ | ⟨l, hl, _, hle, hr⟩
  · rw [h.2.1] at ht; cases ht
  · rw [hr]; exact plain_transparent g pre n n hn rfl h hc
  · rw [hr]
    have := h.2.2 l hl
    exact plain_transparent g pre _ n hn (readCall_min (by omega)) h hc
  · rw [hr]
    have := h.2.2 l hl
    have hfl : flat g.inner = [] := List.eq_nil_of_length_eq_zero (by omega)
    rw [probe_eq_plain g hfl]
    exact plain_transparent g pre 1 n hn (readCall_nobytes hn hfl) h hc

theorem run_transparent : ∀ (reqs : List Nat) (g : Gate) (pre : List Nat), (∀ n ∈ reqs, 0 < n) → TInv pre g →
    eofClean pre g.inner = true →
    (g.run reqs).1 = (readCalls g.inner reqs).1 ∧ (g.run reqs).2.inner = (readCalls g.inner reqs).2
  | [], g, pre, _, _, _ => by simp [Gate.run, readCalls]
  | n :: reqs, g, pre, hpos, h, hc => by
    obtain ⟨a, b, c, d⟩ := read_transparent g pre n (hpos n (by simp)) h hc
    have ih := run_transparent reqs (g.read n).2 _ (fun m hm => hpos m (by simp [hm])) c d
    simp only [Gate.run, readCalls]
    rw [b] at ih
    exact ⟨by rw [a, ih.1], ih.2⟩

/-! ### when is a schedule `eofClean` -/

theorem flat_append (a b : Sched) : flat (a ++ b) = flat a ++ flat b := by
  induction a with
  | nil => simp [flat]
  | cons it rest ih => cases it <;> simp [flat, ih]

/-- without empty read results the only end of input is the end of the schedule -/
theorem eofClean_noEmpty : ∀ (s : Sched) (pre : List Nat), noEmpty s = true →
    eofClean pre s = !endsInsideChar (pre ++ flat s)
  | [], pre, _ => by simp [eofClean, flat]
  | .fail k :: rest, pre, h => by
    simp only [noEmpty] at h
    simp only [eofClean, flat]
    exact eofClean_noEmpty rest pre h
  | .data bs :: rest, pre, h => by
    simp only [noEmpty, Bool.and_eq_true, Bool.not_eq_eq_eq_not, Bool.not_true] at h
    simp only [eofClean, h.1, Bool.false_eq_true, ↓reduceIte, flat]
    rw [eofClean_noEmpty rest (pre ++ bs) h.2, List.append_assoc]

theorem chunked_noEmpty : ∀ (s : Sched), chunked s = true → noEmpty s = true
  | [], _ => rfl
  | .fail k :: rest, h => by simp [chunked] at h
  | .data bs :: rest, h => by
    simp only [chunked, Bool.and_eq_true] at h
    simp only [noEmpty, Bool.and_eq_true]
    exact ⟨h.1, chunked_noEmpty rest h.2⟩

theorem bomOf_cons_cons (a b : Nat) (x y : List Nat) : bomOf (a :: b :: x) = bomOf (a :: b :: y) := by
  unfold bomOf
  split <;> split <;> simp_all

theorem bomOf_prefix_none : ∀ (p q : List Nat), bomOf (p ++ q) = none → bomOf p = none
  | [], _, _ => rfl
  | [a], _, _ => by simp [bomOf]
  | a :: b :: r, q, h => by
    rw [List.cons_append, List.cons_append, bomOf_cons_cons a b (r ++ q) r] at h
    exact h

/-- input that does not start with a UTF-16 mark is never "inside a character" for the gate: every schedule
(empty reads and failing calls included) is clean -/
theorem eofClean_not_utf16 : ∀ (s : Sched) (pre : List Nat), bomOf (pre ++ flat s) = none → eofClean pre s = true
  | [], pre, h => by
    simp only [flat, List.append_nil] at h
    simp [eofClean, endsInsideChar, h]
  | .fail k :: rest, pre, h => by
    simp only [flat] at h
    simp only [eofClean]
    exact eofClean_not_utf16 rest pre h
  | .data bs :: rest, pre, h => by
    simp only [flat] at h
    simp only [eofClean]
    split
    · rename_i he
      have : bs = [] := by cases bs <;> simp_all
      subst this
      simp only [List.nil_append] at h
      have hp := bomOf_prefix_none pre (flat rest) h
      simp [endsInsideChar, hp, eofClean_not_utf16 rest pre h]
    · rw [← List.append_assoc] at h
      exact eofClean_not_utf16 rest (pre ++ bs) h

/-! ### refusal above the cap (raw_gate_refuses_above_cap) -/

theorem run_tripped (l : Nat) : ∀ (reqs : List Nat) (g : Gate), (∀ n ∈ reqs, 0 < n) → g.limit = some l → g.tripped = true →
    (g.run reqs).1 = List.replicate reqs.length (.err kFileTooLarge)
  | [], g, _, _, _ => by simp [Gate.run]
  | n :: reqs, g, hpos, hl, ht => by
    rcases read_paths g n (hpos n (by simp)) with ⟨_, _, _, hr⟩ | ⟨h0, _⟩ | ⟨_, _, h0, _⟩ | ⟨_, _, h0, _⟩
    · simp only [Gate.run, hr, List.length_cons, List.replicate_succ]
      rw [run_tripped l reqs g (fun m hm => hpos m (by simp [hm])) hl ht]
    · rw [hl] at h0; cases h0
    · rw [ht] at h0; cases h0
    · rw [ht] at h0; cases h0

theorem chunked_flat_nil : ∀ (s : Sched), chunked s = true → flat s = [] → s = []
  | [], _, _ => rfl
  | .fail k :: rest, h, _ => by simp [chunked] at h
  | .data bs :: rest, h, hf => by
    simp only [chunked, Bool.and_eq_true] at h
    simp only [flat, List.append_eq_nil_iff] at hf
    rw [hf.1] at h; simp at h

theorem run_refuses (cap : Nat) : ∀ (reqs : List Nat) (g : Gate), (∀ n ∈ reqs, 0 < n) → g.limit = some cap →
    g.tripped = false → chunked g.inner = true → g.pulled ≤ cap → cap < g.pulled + (flat g.inner).length →
    ∃ (chunks : List (List Nat)) (m : Nat),
      (g.run reqs).1 = chunks.map .ok ++ List.replicate m (.err kFileTooLarge) ∧ (∀ c ∈ chunks, c ≠ []) ∧
      (∃ rest, chunks.flatten ++ rest = (flat g.inner).take (cap - g.pulled) ∧ (0 < m → rest = [])) ∧
      chunks.length + m = reqs.length
  | [], g, _, _, _, _, _, _ => ⟨[], 0, by simp [Gate.run], by simp, ⟨(flat g.inner).take (cap - g.pulled), by simp, by simp⟩, rfl⟩
  | n :: reqs, g, hpos, hl, ht, hc, hp, hlen => by
    have hn := hpos n (by simp)
    have hpos' : ∀ m ∈ reqs, 0 < m := fun m hm => hpos m (by simp [hm])
    obtain ⟨b, t, hbt⟩ : ∃ b t, flat g.inner = b :: t := by
      cases hf : flat g.inner with
      | nil => rw [hf] at hlen; simp at hlen; omega
      | cons b t => exact ⟨b, t, rfl⟩
    rcases read_paths g n hn with ⟨_, _, h0, _⟩ | ⟨h0, _⟩ | ⟨l, hl', _, hw, hr⟩ | ⟨l, hl', _, hle, hr⟩
    · rw [ht] at h0; cases h0
    · rw [hl] at h0; cases h0
    · rw [hl] at hl'; cases hl'
      obtain ⟨g0, gs, s', hrc, hgl, hc', hfl⟩ := readCall_chunked hc hw hbt
      obtain ⟨f1, f2, f3, f4, f5⟩ := noteAll_fields (g0 :: gs) { g with inner := s', taken := g.taken + (gs.length + 1) }
      have hread : g.read n = (.ok (g0 :: gs), ({ g with inner := s', taken := g.taken + (gs.length + 1) } : Gate).noteAll (g0 :: gs)) := by
        rw [hr]; simp only [Gate.plain, hrc]
      have f1' : (({ g with inner := s', taken := g.taken + (gs.length + 1) } : Gate).noteAll (g0 :: gs)).inner = s' := f1
      have f5' : (({ g with inner := s', taken := g.taken + (gs.length + 1) } : Gate).noteAll (g0 :: gs)).pulled = g.pulled + (gs.length + 1) := f5
      have hfl' : (flat g.inner).length = gs.length + 1 + (flat s').length := by rw [← hfl]; simp; omega
      obtain ⟨chunks, m, e1, e2, ⟨rest, e3, e4⟩, e5⟩ := run_refuses cap reqs _ hpos' (f2.trans hl) (f3.trans ht) (by rw [f1']; exact hc')
        (by rw [f5']; omega) (by rw [f5', f1']; omega)
      refine ⟨(g0 :: gs) :: chunks, m, ?_, ?_, ⟨rest, ?_, e4⟩, ?_⟩
      · simp only [Gate.run, hread, List.map_cons, List.cons_append]; rw [e1]
      · intro c hcm
        rcases List.mem_cons.1 hcm with rfl | h
        · simp
        · exact e2 c h
      · rw [f1', f5'] at e3
        have hk : List.take (cap - g.pulled) (g0 :: gs) = g0 :: gs :=
          List.take_of_length_le (by simp only [List.length_cons]; omega)
        have hsub : cap - (g.pulled + (gs.length + 1)) = cap - g.pulled - (g0 :: gs).length := by
          simp only [List.length_cons]; omega
        rw [List.flatten_cons, List.append_assoc, e3, ← hfl, List.take_append, hk, hsub]
      · simp only [List.length_cons]; omega
    · rw [hl] at hl'; cases hl'
      obtain ⟨g0, gs, s', hrc, hgl, hc', hfl⟩ := readCall_chunked hc (by omega : 0 < 1) hbt
      have hgs : gs = [] := by cases gs with
        | nil => rfl
        | cons _ _ => simp at hgl
      subst hgs
      have hread : g.read n = (.err kFileTooLarge, { g with inner := s', tripped := true, taken := g.taken + 1 }) := by
        rw [hr]; simp only [Gate.probe, hrc]; rfl
      have htr := run_tripped cap reqs { g with inner := s', tripped := true, taken := g.taken + 1 } hpos' hl rfl
      refine ⟨[], reqs.length + 1, ?_, by simp, ⟨[], ?_, fun _ => rfl⟩, by simp⟩
      · simp only [Gate.run, hread, htr, List.map_nil, List.nil_append, List.replicate_succ]
      · have : cap - g.pulled = 0 := by omega
        simp [this]

/-! ### truncated UTF-16 (utf16_truncation_is_error) -/

theorem run_at_end : ∀ (reqs : List Nat) (g : Gate), (∀ n ∈ reqs, 0 < n) → g.inner = [] → g.insideChar = true →
    g.tripped = false → (g.run reqs).1 = List.replicate reqs.length (.err kUnexpectedEof)
  | [], g, _, _, _, _ => by simp [Gate.run]
  | n :: reqs, g, hpos, hi, hin, ht => by
    have hself : ({ g with inner := [] } : Gate) = g := by cases g; simp_all
    have hplain : ∀ want, g.plain want = (.err kUnexpectedEof, g) := by
      intro want
      simp only [Gate.plain, hi, readCall, hself, Gate.atEnd, hin, ↓reduceIte]
    have hprobe : g.probe = (.err kUnexpectedEof, g) := by
      simp only [Gate.probe, hi, readCall, hself, Gate.atEnd, hin, ↓reduceIte]
    have hread : g.read n = (.err kUnexpectedEof, g) := by
      rcases read_paths g n (hpos n (by simp)) with ⟨_, _, h0, _⟩ | ⟨_, hr⟩ | ⟨_, _, _, _, hr⟩ | ⟨_, _, _, _, hr⟩
      · rw [ht] at h0; cases h0
      · rw [hr, hplain]
      · rw [hr, hplain]
      · rw [hr, hprobe]
    simp only [Gate.run, hread, List.length_cons, List.replicate_succ]
    rw [run_at_end reqs g (fun m hm => hpos m (by simp [hm])) hi hin ht]

theorem run_truncated : ∀ (reqs : List Nat) (g : Gate) (pre : List Nat), (∀ n ∈ reqs, 0 < n) → TInv pre g →
    chunked g.inner = true → endsInsideChar (pre ++ flat g.inner) = true →
    ∃ (chunks : List (List Nat)) (m : Nat),
      (g.run reqs).1 = chunks.map .ok ++ List.replicate m (.err kUnexpectedEof) ∧ (∀ c ∈ chunks, c ≠ []) ∧
      (∃ rest, chunks.flatten ++ rest = flat g.inner ∧ (0 < m → rest = [])) ∧
      chunks.length + m = reqs.length
  | [], g, _, _, _, _, _ => ⟨[], 0, by simp [Gate.run], by simp, ⟨flat g.inner, by simp, by simp⟩, rfl⟩
  | n :: reqs, g, pre, hpos, hT, hc, hcut => by
    have hn := hpos n (by simp)
    have hpos' : ∀ m ∈ reqs, 0 < m := fun m hm => hpos m (by simp [hm])
    cases hf : flat g.inner with
    | nil =>
      have hi := chunked_flat_nil g.inner hc hf
      rw [hf, List.append_nil] at hcut
      have hin : g.insideChar = true := by rw [TInv_insideChar hT]; exact hcut
      have := run_at_end (n :: reqs) g hpos hi hin hT.2.1
      exact ⟨[], (n :: reqs).length, by simpa using this, by simp, ⟨[], by simp, fun _ => rfl⟩, by simp⟩
    | cons b t =>
      have hstep : ∀ want, 0 < want → g.read n = g.plain want →
          ∃ (chunks : List (List Nat)) (m : Nat),
            (g.run (n :: reqs)).1 = chunks.map .ok ++ List.replicate m (.err kUnexpectedEof) ∧ (∀ c ∈ chunks, c ≠ []) ∧
            (∃ rest, chunks.flatten ++ rest = b :: t ∧ (0 < m → rest = [])) ∧
            chunks.length + m = (n :: reqs).length := by
        intro want hw hr
        obtain ⟨g0, gs, s', hrc, hgl, hc', hfl⟩ := readCall_chunked hc hw hf
        obtain ⟨f1, f2, f3, f4, f5⟩ := noteAll_fields (g0 :: gs) { g with inner := s', taken := g.taken + (gs.length + 1) }
        have hread : g.read n = (.ok (g0 :: gs), ({ g with inner := s', taken := g.taken + (gs.length + 1) } : Gate).noteAll (g0 :: gs)) := by
          rw [hr]; simp only [Gate.plain, hrc]
        have hcore : core ({ g with inner := s', taken := g.taken + (gs.length + 1) } : Gate) = core g := rfl
        have hT' : TInv (pre ++ (g0 :: gs)) (({ g with inner := s', taken := g.taken + (gs.length + 1) } : Gate).noteAll (g0 :: gs)) := by
          refine ⟨?_, f3.trans hT.2.1, ?_⟩
          · rw [noteAll_append]; exact noteAll_core (g0 :: gs) (hcore.trans hT.1)
          · intro cap hlim
            rw [f2] at hlim
            have := hT.2.2 cap hlim
            rw [f5, f1]
            rw [← hfl] at this
            simp only [List.length_append] at this
            simpa using (by omega : g.pulled + (g0 :: gs).length + (flat s').length ≤ cap)
        have hcut' : endsInsideChar (pre ++ (g0 :: gs) ++ flat (({ g with inner := s', taken := g.taken + (gs.length + 1) } : Gate).noteAll (g0 :: gs)).inner) = true := by
          rw [f1, List.append_assoc, hfl]; exact hcut
        obtain ⟨chunks, m, e1, e2, ⟨rest, e3, e4⟩, e5⟩ := run_truncated reqs _ _ hpos' hT' (by rw [f1]; exact hc') hcut'
        refine ⟨(g0 :: gs) :: chunks, m, ?_, ?_, ⟨rest, ?_, e4⟩, ?_⟩
        · simp only [Gate.run, hread, List.map_cons, List.cons_append]; rw [e1]
        · intro c hcm
          rcases List.mem_cons.1 hcm with rfl | h
          · simp
          · exact e2 c h
        · rw [f1] at e3
          rw [List.flatten_cons, List.append_assoc, e3, hfl, hf]
        · simp only [List.length_cons]; omega
      rcases read_paths g n hn with ⟨_, _, h0, _⟩ | ⟨_, hr⟩ | ⟨l, hl, _, hw, hr⟩ | ⟨l, hl, _, hle, _⟩
      · rw [hT.2.1] at h0; cases h0
      · exact hstep n hn hr
      · exact hstep _ hw hr
      · have := hT.2.2 l hl
        rw [hf] at this; simp at this; omega

/-! ### shapes of result lists -/

theorem length_le_flatten : ∀ (chunks : List (List Nat)), (∀ c ∈ chunks, c ≠ []) → chunks.length ≤ chunks.flatten.length
  | [], _ => by simp
  | c :: cs, h => by
    have hc : c ≠ [] := h c (by simp)
    have hc1 : 1 ≤ c.length := by cases c <;> simp_all
    have := length_le_flatten cs (fun d hd => h d (by simp [hd]))
    simp only [List.length_cons, List.flatten_cons, List.length_append]; omega

theorem asSched_oks_errs (k : IoKind) (m : Nat) : ∀ (chunks : List (List Nat)),
    asSched (chunks.map .ok ++ List.replicate (m + 1) (.err k)) =
      chunks.map .data ++ .fail k :: asSched (List.replicate m (.err k))
  | [] => by simp [asSched, List.replicate_succ]
  | c :: cs => by simp only [List.map_cons, List.cons_append, asSched]; rw [asSched_oks_errs k m cs]

theorem chunked_map_data : ∀ (chunks : List (List Nat)), (∀ c ∈ chunks, c ≠ []) → chunked (chunks.map .data) = true
  | [], _ => rfl
  | c :: cs, h => by
    have hc : c ≠ [] := h c (by simp)
    simp only [List.map_cons, chunked, Bool.and_eq_true]
    exact ⟨by cases c <;> simp_all, chunked_map_data cs (fun d hd => h d (by simp [hd]))⟩

/-! ### the draining consumer (`Gate.drain`, what the differential run compares) -/

theorem read_at_end (g : Gate) (n : Nat) (hn : 0 < n) (hi : g.inner = []) (ht : g.tripped = false) :
    g.read n = (g.atEnd, g) := by
  have hself : ({ g with inner := [] } : Gate) = g := by cases g; simp_all
  have hplain : ∀ want, g.plain want = (g.atEnd, g) := by
    intro want
    simp only [Gate.plain, hi, readCall, hself]
  have hprobe : g.probe = (g.atEnd, g) := by
    simp only [Gate.probe, hi, readCall, hself]
  rcases read_paths g n hn with ⟨_, _, h0, _⟩ | ⟨_, hr⟩ | ⟨_, _, _, _, hr⟩ | ⟨_, _, _, _, hr⟩
  · rw [ht] at h0; cases h0
  · rw [hr, hplain]
  · rw [hr, hplain]
  · rw [hr, hprobe]

theorem drain_refuses (cap n : Nat) (hn : 0 < n) : ∀ (fuel : Nat) (g : Gate), g.limit = some cap → g.tripped = false →
    chunked g.inner = true → g.pulled ≤ cap → cap < g.pulled + (flat g.inner).length → cap - g.pulled < fuel →
    (Gate.drain n fuel g).1 = (flat g.inner).take (cap - g.pulled) ∧ (Gate.drain n fuel g).2.1 = some kFileTooLarge ∧
    (Gate.drain n fuel g).2.2.taken = g.taken + (cap - g.pulled) + 1
  | 0, _, _, _, _, _, _, hf => by omega
  | fuel + 1, g, hl, ht, hc, hp, hlen, hf => by
    obtain ⟨b, t, hbt⟩ : ∃ b t, flat g.inner = b :: t := by
      cases h : flat g.inner with
      | nil => rw [h] at hlen; simp at hlen; omega
      | cons b t => exact ⟨b, t, rfl⟩
    rcases read_paths g n hn with ⟨_, _, h0, _⟩ | ⟨h0, _⟩ | ⟨l, hl', _, hw, hr⟩ | ⟨l, hl', _, hle, hr⟩
    · rw [ht] at h0; cases h0
    · rw [hl] at h0; cases h0
    · rw [hl] at hl'; cases hl'
      obtain ⟨g0, gs, s', hrc, hgl, hc', hfl⟩ := readCall_chunked hc hw hbt
      obtain ⟨f1, f2, f3, f4, f5⟩ := noteAll_fields (g0 :: gs) { g with inner := s', taken := g.taken + (gs.length + 1) }
      have hread : g.read n = (.ok (g0 :: gs), ({ g with inner := s', taken := g.taken + (gs.length + 1) } : Gate).noteAll (g0 :: gs)) := by
        rw [hr]; simp only [Gate.plain, hrc]
      have f1' : (({ g with inner := s', taken := g.taken + (gs.length + 1) } : Gate).noteAll (g0 :: gs)).inner = s' := f1
      have f4' : (({ g with inner := s', taken := g.taken + (gs.length + 1) } : Gate).noteAll (g0 :: gs)).taken = g.taken + (gs.length + 1) := f4
      have f5' : (({ g with inner := s', taken := g.taken + (gs.length + 1) } : Gate).noteAll (g0 :: gs)).pulled = g.pulled + (gs.length + 1) := f5
      have hfl' : (flat g.inner).length = gs.length + 1 + (flat s').length := by rw [← hfl]; simp; omega
      obtain ⟨i1, i2, i3⟩ := drain_refuses cap n hn fuel _ (f2.trans hl) (f3.trans ht) (by rw [f1']; exact hc')
        (by rw [f5']; omega) (by rw [f5', f1']; omega) (by rw [f5']; omega)
      simp only [Gate.drain, hread]
      refine ⟨?_, i2, ?_⟩
      · rw [i1, f1', f5']
        have hk : List.take (cap - g.pulled) (g0 :: gs) = g0 :: gs :=
          List.take_of_length_le (by simp only [List.length_cons]; omega)
        have hsub : cap - (g.pulled + (gs.length + 1)) = cap - g.pulled - (g0 :: gs).length := by
          simp only [List.length_cons]; omega
        rw [← hfl, List.take_append, hk, hsub]
      · rw [i3, f4', f5']; omega
    · rw [hl] at hl'; cases hl'
      obtain ⟨g0, gs, s', hrc, hgl, hc', hfl⟩ := readCall_chunked hc (by omega : 0 < 1) hbt
      have hgs : gs = [] := by cases gs with
        | nil => rfl
        | cons _ _ => simp at hgl
      subst hgs
      have hread : g.read n = (.err kFileTooLarge, { g with inner := s', tripped := true, taken := g.taken + 1 }) := by
        rw [hr]; simp only [Gate.probe, hrc]; rfl
      have h0 : cap - g.pulled = 0 := by omega
      have hk : (kFileTooLarge == kInterrupted) = false := by decide
      simp only [Gate.drain, hread, hk, h0]
      simp

theorem drain_to_end (n : Nat) (hn : 0 < n) : ∀ (fuel : Nat) (g : Gate) (pre : List Nat), TInv pre g →
    chunked g.inner = true → (flat g.inner).length < fuel →
    (Gate.drain n fuel g).1 = flat g.inner ∧
    (Gate.drain n fuel g).2.1 = (if endsInsideChar (pre ++ flat g.inner) then some kUnexpectedEof else none) ∧
    (Gate.drain n fuel g).2.2.taken = g.taken + (flat g.inner).length
  | 0, _, _, _, _, hf => by omega
  | fuel + 1, g, pre, hT, hc, hf => by
    cases hfl0 : flat g.inner with
    | nil =>
      have hi := chunked_flat_nil g.inner hc hfl0
      have hread := read_at_end g n hn hi hT.2.1
      have hin := TInv_insideChar hT
      simp only [Gate.drain, hread, Gate.atEnd, hin, List.append_nil]
      cases endsInsideChar pre with
      | true =>
        have hk : (kUnexpectedEof == kInterrupted) = false := by decide
        simp [hk]
      | false => simp
    | cons b t =>
      have hstep : ∀ want, 0 < want → g.read n = g.plain want →
          (Gate.drain n (fuel + 1) g).1 = b :: t ∧
          (Gate.drain n (fuel + 1) g).2.1 = (if endsInsideChar (pre ++ b :: t) then some kUnexpectedEof else none) ∧
          (Gate.drain n (fuel + 1) g).2.2.taken = g.taken + (b :: t).length := by
        intro want hw hr
        obtain ⟨g0, gs, s', hrc, hgl, hc', hfl⟩ := readCall_chunked hc hw hfl0
        obtain ⟨f1, f2, f3, f4, f5⟩ := noteAll_fields (g0 :: gs) { g with inner := s', taken := g.taken + (gs.length + 1) }
        have hread : g.read n = (.ok (g0 :: gs), ({ g with inner := s', taken := g.taken + (gs.length + 1) } : Gate).noteAll (g0 :: gs)) := by
          rw [hr]; simp only [Gate.plain, hrc]
        have f1' : (({ g with inner := s', taken := g.taken + (gs.length + 1) } : Gate).noteAll (g0 :: gs)).inner = s' := f1
        have f4' : (({ g with inner := s', taken := g.taken + (gs.length + 1) } : Gate).noteAll (g0 :: gs)).taken = g.taken + (gs.length + 1) := f4
        have hcore : core ({ g with inner := s', taken := g.taken + (gs.length + 1) } : Gate) = core g := rfl
        have hlen' : (b :: t).length = gs.length + 1 + (flat s').length := by rw [← hfl0, ← hfl]; simp; omega
        have hT' : TInv (pre ++ (g0 :: gs)) (({ g with inner := s', taken := g.taken + (gs.length + 1) } : Gate).noteAll (g0 :: gs)) := by
          refine ⟨?_, f3.trans hT.2.1, ?_⟩
          · rw [noteAll_append]; exact noteAll_core (g0 :: gs) (hcore.trans hT.1)
          · intro cap hlim
            rw [f2] at hlim
            have := hT.2.2 cap hlim
            have f5' : (({ g with inner := s', taken := g.taken + (gs.length + 1) } : Gate).noteAll (g0 :: gs)).pulled = g.pulled + (gs.length + 1) := f5
            rw [f5', f1']
            rw [hfl0, hlen'] at this
            omega
        obtain ⟨i1, i2, i3⟩ := drain_to_end n hn fuel _ _ hT' (by rw [f1']; exact hc') (by rw [f1']; rw [hfl0, hlen'] at hf; omega)
        simp only [Gate.drain, hread]
        refine ⟨?_, ?_, ?_⟩
        · rw [i1, f1', ← hfl0, ← hfl]
        · rw [i2, f1', List.append_assoc, hfl, hfl0]
        · rw [i3, f4', f1', hlen']; omega
      rcases read_paths g n hn with ⟨_, _, h0, _⟩ | ⟨_, hr⟩ | ⟨l, hl, _, hw, hr⟩ | ⟨l, hl, _, hle, _⟩
      · rw [hT.2.1] at h0; cases h0
      · exact hstep n hn hr
      · exact hstep _ hw hr
      · have := hT.2.2 l hl
        rw [hfl0] at this; simp at this; omega

end SaphyrVerif.Lemmas.C10Gate
