import SaphyrVerif.Spec.PathMap
/-! Helper lemmas for C18: the `find_unique_by` loop, `HashMap` lookups on the association list,
    permutation invariance. -/
namespace SaphyrVerif.PathMap

variable {α : Type}

/-! ### the loop -/

theorem loop_some (mt : Path → Path → Bool) (t : Path) (x : α × List Char) :
    ∀ l : List (Path × α), findUniqueLoop mt t l (some x) =
      if (l.filter (fun e => mt t e.1)).isEmpty then some x else none
  | [] => by simp [findUniqueLoop]
  | (c, loc) :: rest => by
    unfold findUniqueLoop
    by_cases h : mt t c = true
    · simp [h]
    · rw [if_neg h, loop_some mt t x rest, List.filter_cons_of_neg (by simpa using h)]

theorem loop_none (mt : Path → Path → Bool) (t : Path) :
    ∀ l : List (Path × α), findUniqueLoop mt t l none = uniqueOf (l.filter (fun e => mt t e.1))
  | [] => by simp [findUniqueLoop, uniqueOf]
  | (c, loc) :: rest => by
    unfold findUniqueLoop
    by_cases h : mt t c = true
    · simp only [h, if_true, Option.isSome_none, Bool.false_eq_true, if_false, List.filter_cons_of_pos]
      cases hl : leafString c with
      | none =>
        cases hf : rest.filter (fun e => mt t e.1) with
        | nil => simp [uniqueOf, hl]
        | cons a as => simp [uniqueOf]
      | some leaf =>
        simp only [loop_some]
        cases hf : rest.filter (fun e => mt t e.1) with
        | nil => simp [uniqueOf, hl]
        | cons a as => simp [uniqueOf]
    · simp [h, loop_none mt t rest]

theorem findUniqueBy_eq_spec (m : Map α) (t : Path) (f : Path → Path → Bool) :
    findUniqueBy m t f = findUniqueSpec m t f := by
  unfold findUniqueBy findUniqueSpec candidates
  cases t with
  | nil => simp
  | cons a as => simp [loop_none]

theorem uniqueOf_of_length_ne_one (l : List (Path × α)) (h : l.length ≠ 1) : uniqueOf l = none := by
  match l, h with
  | [], _ => rfl
  | [_], h => simp at h
  | _ :: _ :: _, _ => rfl

theorem uniqueOf_eq_some {l : List (Path × α)} {loc : α} {leaf : List Char} :
    uniqueOf l = some (loc, leaf) ↔ ∃ c, l = [(c, loc)] ∧ leafString c = some leaf := by
  match l with
  | [] => simp [uniqueOf]
  | [(c, loc')] =>
    simp only [uniqueOf, Option.map_eq_some_iff, Prod.mk.injEq, List.cons.injEq, and_true]
    constructor
    · rintro ⟨lf, h1, h2, h3⟩
      exact ⟨c, ⟨rfl, h2⟩, h3 ▸ h1⟩
    · rintro ⟨c', ⟨h1, h2⟩, h3⟩
      exact ⟨leaf, h1 ▸ h3, h2, rfl⟩
  | _ :: _ :: _ => simp [uniqueOf]

theorem uniqueOf_perm {l l' : List (Path × α)} (h : l.Perm l') : uniqueOf l = uniqueOf l' := by
  by_cases h1 : l.length = 1
  · match l, h1 with
    | [e], _ =>
      have := List.singleton_perm.mp h
      subst this
      rfl
  · rw [uniqueOf_of_length_ne_one l h1, uniqueOf_of_length_ne_one l' (h.length_eq ▸ h1)]

/-! ### lookups -/

theorem keysNodup_cons {e : Path × α} {m : Map α} :
    KeysNodup (e :: m) ↔ (∀ v, (e.1, v) ∉ m) ∧ KeysNodup m := by
  unfold KeysNodup
  simp only [List.map_cons, List.nodup_cons, List.mem_map, not_exists, not_and]
  constructor
  · rintro ⟨h1, h2⟩
    exact ⟨fun v hv => h1 (e.1, v) hv rfl, h2⟩
  · rintro ⟨h1, h2⟩
    exact ⟨fun x hx hxe => h1 x.2 (by rw [← hxe]; exact hx), h2⟩

theorem get_eq_some_iff {m : Map α} (hm : KeysNodup m) {p : Path} {v : α} :
    get m p = some v ↔ (p, v) ∈ m := by
  induction m with
  | nil => simp [get]
  | cons e rest ih =>
    obtain ⟨h1, h2⟩ := keysNodup_cons.mp hm
    unfold get at ih ⊢
    by_cases he : e.1 = p
    · have : (e.1 == p) = true := by simp [he]
      simp only [List.find?_cons, this, Option.map_some, Option.some.injEq, List.mem_cons]
      constructor
      · intro h; left; rw [← he, ← h]
      · rintro (h | h)
        · rw [← h]
        · exact absurd (he ▸ h) (h1 v)
    · have : (e.1 == p) = false := by simp [he]
      simp only [List.find?_cons, this, List.mem_cons]
      rw [ih h2]
      constructor
      · intro h; right; exact h
      · rintro (h | h)
        · exact absurd (by rw [← h]) he
        · exact h

theorem get_eq_none_iff {m : Map α} {p : Path} : get m p = none ↔ ∀ v, (p, v) ∉ m := by
  unfold get
  simp only [Option.map_eq_none_iff, List.find?_eq_none, beq_iff_eq]
  constructor
  · intro h v hv; exact h (p, v) hv rfl
  · intro h e he hep; exact h e.2 (by rw [← hep]; exact he)

theorem keysNodup_perm {m m' : Map α} (h : m.Perm m') (hm : KeysNodup m) : KeysNodup m' :=
  by
  unfold KeysNodup at *
  exact (List.Perm.nodup_iff (h.map _)).mp hm

theorem get_perm {m m' : Map α} (h : m.Perm m') (hm : KeysNodup m) (p : Path) : get m p = get m' p := by
  have hm' := keysNodup_perm h hm
  apply Option.ext
  intro v
  rw [get_eq_some_iff hm, get_eq_some_iff hm']
  exact h.mem_iff

theorem findUniqueBy_perm {m m' : Map α} (h : m.Perm m') (t : Path) (f : Path → Path → Bool) :
    findUniqueBy m t f = findUniqueBy m' t f := by
  rw [findUniqueBy_eq_spec, findUniqueBy_eq_spec]
  unfold findUniqueSpec candidates
  split
  · rfl
  · exact uniqueOf_perm (h.filter _)

theorem firstPass_perm {m m' : Map α} (h : m.Perm m') (t : Path) :
    ∀ fs : List (Path → Path → Bool), firstPass m t fs = firstPass m' t fs
  | [] => rfl
  | f :: fs => by
    unfold firstPass
    rw [findUniqueBy_perm h t f, firstPass_perm h t fs]

/-- decomposition of the `or_else` chain: the answer comes from the first pass that yields one -/
theorem firstPass_eq_some {m : Map α} {t : Path} {r : α × List Char} :
    ∀ {fs : List (Path → Path → Bool)}, firstPass m t fs = some r →
      ∃ pre f post, fs = pre ++ f :: post ∧ (∀ g ∈ pre, findUniqueBy m t g = none) ∧ findUniqueBy m t f = some r
  | [], h => by simp [firstPass] at h
  | f :: fs, h => by
    unfold firstPass at h
    cases hf : findUniqueBy m t f with
    | some r' =>
      rw [hf] at h
      simp only [Option.some.injEq] at h
      exact ⟨[], f, fs, rfl, by simp, h ▸ hf⟩
    | none =>
      rw [hf] at h
      obtain ⟨pre, g, post, h1, h2, h3⟩ := firstPass_eq_some h
      refine ⟨f :: pre, g, post, by simp [h1], ?_, h3⟩
      intro g' hg'
      rcases List.mem_cons.mp hg' with rfl | hg'
      · exact hf
      · exact h2 g' hg'

theorem firstPass_eq_none {m : Map α} {t : Path} :
    ∀ {fs : List (Path → Path → Bool)}, firstPass m t fs = none ↔ ∀ f ∈ fs, findUniqueBy m t f = none
  | [] => by simp [firstPass]
  | f :: fs => by
    unfold firstPass
    cases hf : findUniqueBy m t f with
    | some r' => simp [hf]
    | none => simp [hf, firstPass_eq_none (fs := fs)]

/-! ### `insert` keeps the `HashMap` invariant -/

theorem mem_insert {m : Map α} {p : Path} {v : α} {e : Path × α} (h : e ∈ insert m p v) :
    e ∈ m ∨ e = (p, v) := by
  unfold insert at h
  split at h
  · obtain ⟨e', he', heq⟩ := List.mem_map.mp h
    by_cases hp : e'.1 = p
    · right
      simp only [hp, beq_self_eq_true, if_true] at heq
      exact heq.symm
    · left
      have : (e'.1 == p) = false := by simp [hp]
      simp only [this, Bool.false_eq_true, if_false] at heq
      exact heq ▸ he'
  · rcases List.mem_append.mp h with h | h
    · exact Or.inl h
    · exact Or.inr (List.mem_singleton.mp h)

theorem keys_insert (m : Map α) (p : Path) (v : α) :
    (insert m p v).map (·.1) = if m.any (fun e => e.1 == p) then m.map (·.1) else m.map (·.1) ++ [p] := by
  unfold insert
  split
  · rw [List.map_map]
    apply List.map_congr_left
    intro e _
    simp only [Function.comp]
    split <;> rfl
  · simp

theorem insert_keysNodup {m : Map α} (hm : KeysNodup m) (p : Path) (v : α) : KeysNodup (insert m p v) := by
  unfold KeysNodup at *
  rw [keys_insert]
  split
  · exact hm
  · rename_i hany
    refine List.nodup_append.mpr ⟨hm, by simp, ?_⟩
    intro a ha b hb
    rw [List.mem_singleton.mp hb]
    intro hab
    apply hany
    obtain ⟨e, he, rfl⟩ := List.mem_map.mp ha
    exact List.any_eq_true.mpr ⟨e, he, by simp [hab]⟩

theorem mem_keys_insert {m : Map α} {p q : Path} {v : α} (h : q ∈ m.map (·.1)) :
    q ∈ (insert m p v).map (·.1) := by
  rw [keys_insert]
  split
  · exact h
  · exact List.mem_append_left _ h

theorem self_mem_keys_insert (m : Map α) (p : Path) (v : α) : p ∈ (insert m p v).map (·.1) := by
  rw [keys_insert]
  split
  · rename_i hany
    obtain ⟨e, he, hep⟩ := List.any_eq_true.mp hany
    exact List.mem_map.mpr ⟨e, he, by simpa using hep⟩
  · simp

end SaphyrVerif.PathMap
