import SaphyrVerif.Lemmas.C05_Cursor
/-!
Helper lemmas for C05, part 5: the scalar-level functions of the model on a replay cursor whose next event is a
scalar agree with the scalar-level functions of the specification and advance by one event; on any other
event (or at the end of the buffer) they fail.
-/
namespace SaphyrVerif.Lemmas.C05
open SaphyrVerif SaphyrVerif.Scalars SaphyrVerif.Pump SaphyrVerif.De SaphyrVerif.Spec

def Ev.isScalar : Ev → Bool
  | .scalar .. => true
  | _ => false

section
variable {buf : List Ev} {i : Nat} (ref : Option Loc) {tl : List Ev}

theorem takeStringScalar_scalar (cfg : Cfg) {v : List Char} {tag : Nat} {rt : Option (List Char)} {st : Style} {a : Nat} {l : Loc}
    (h : buf.drop i = .scalar v tag rt st a l :: tl) :
    Expect (takeStringScalar cfg (.replay buf i ref)) (stringOfScalar cfg v tag) (.replay buf (i + 1) ref) := by
  simp only [takeStringScalar, next_cons ref h, stringOfScalar]
  by_cases h1 : (tag == tagBinary && !cfg.ignoreBinaryTagForString) = true
  · simp only [h1, if_true]
    cases Base64.decode (utf8Bytes v) with
    | none => simp
    | some data => cases hd : utf8DecodeBytes data <;> simp [hd]
  · simp only [h1, if_false, Bool.false_eq_true]
    split <;> simp

theorem takeStringScalar_other (cfg : Cfg) {e : Ev} (h : buf.drop i = e :: tl) (he : Ev.isScalar e = false) :
    IsErr (takeStringScalar cfg (.replay buf i ref)) := by
  simp only [takeStringScalar, next_cons ref h]
  cases e <;> simp [Ev.isScalar] at he ⊢

theorem takeStringScalar_nil (cfg : Cfg) (h : buf.drop i = []) : IsErr (takeStringScalar cfg (.replay buf i ref)) := by
  simp only [takeStringScalar, next_nil ref h]; simp

theorem deserString_scalar (cfg : Cfg) {v : List Char} {tag : Nat} {rt : Option (List Char)} {st : Style} {a : Nat} {l : Loc}
    (h : buf.drop i = .scalar v tag rt st a l :: tl) :
    Expect (deserString cfg (.replay buf i ref)) ((stringTyped cfg v tag st).map .str) (.replay buf (i + 1) ref) := by
  have ht := takeStringScalar_scalar ref cfg h
  simp only [deserString, peek_cons ref h, next_cons ref h, stringTyped]
  by_cases h1 : ((tag == tagNull || scalarIsNullish v st) && tag != tagString) = true
  · simp [h1]
  · simp only [h1, if_false, Bool.false_eq_true]
    by_cases h2 : (cfg.noSchema && maybeNotString v st && tag != tagString) = true
    · simp [h2]
    · simp only [h2, if_false, Bool.false_eq_true]
      simp only [stringOfScalar] at ht ⊢
      by_cases h3 : (tag == tagBinary && !cfg.ignoreBinaryTagForString) = true
      · simp only [h3, if_true] at ht ⊢
        cases hd : (Base64.decode (utf8Bytes v)).bind utf8DecodeBytes with
        | none => simp only [hd, expect_none] at ht; obtain ⟨e, c, he⟩ := ht; simp [he]
        | some s => simp only [hd, expect_some] at ht; simp [ht]
      · simp only [h3, if_false, Bool.false_eq_true]
        split <;> simp

theorem deserString_other (cfg : Cfg) {e : Ev} (h : buf.drop i = e :: tl) (he : Ev.isScalar e = false) :
    IsErr (deserString cfg (.replay buf i ref)) := by
  obtain ⟨e', c, ht⟩ := takeStringScalar_other ref cfg h he
  simp only [deserString, peek_cons ref h]
  cases e <;> simp [Ev.isScalar] at he <;> simp [ht]

theorem deserString_nil (cfg : Cfg) (h : buf.drop i = []) : IsErr (deserString cfg (.replay buf i ref)) := by
  obtain ⟨e', c, ht⟩ := takeStringScalar_nil ref cfg h
  simp only [deserString, peek_nil ref h]; simp [ht]

theorem deserStr_scalar (cfg : Cfg) {v : List Char} {tag : Nat} {rt : Option (List Char)} {st : Style} {a : Nat} {l : Loc}
    (h : buf.drop i = .scalar v tag rt st a l :: tl) :
    Expect (deserStr cfg (.replay buf i ref)) (identOf cfg (.scalar v tag rt st a l)) (.replay buf (i + 1) ref) := by
  have hs := deserString_scalar ref cfg h
  simp only [deserStr, peek_cons ref h, identOf]
  cases hid : stringTyped cfg v tag st with
  | none =>
    simp only [hid, Option.map_none, expect_none] at hs
    obtain ⟨e, c, he⟩ := hs
    simp [he]
  | some s =>
    simp only [hid, Option.map_some, expect_some] at hs
    simp [hs]

theorem deserStr_other (cfg : Cfg) {e : Ev} (h : buf.drop i = e :: tl) (he : Ev.isScalar e = false) :
    IsErr (deserStr cfg (.replay buf i ref)) := by
  simp only [deserStr, peek_cons ref h]
  cases e <;> simp [Ev.isScalar] at he ⊢

theorem deserScalarTyped_scalar (cfg : Cfg) (ty : Ty) {v : List Char} {tag : Nat} {rt : Option (List Char)} {st : Style} {a : Nat} {l : Loc}
    (h : buf.drop i = .scalar v tag rt st a l :: tl) :
    Expect (deserScalarTyped cfg ty (.replay buf i ref)) (scalarTyped cfg ty v tag st) (.replay buf (i + 1) ref) := by
  cases ty with
  | bool =>
    simp only [deserScalarTyped, next_cons ref h, scalarTyped]
    split
    · cases parseStrictBool v <;> simp
    · cases parseYaml11Bool v <;> simp
  | int s w =>
    cases s
    · simp only [deserScalarTyped, next_cons ref h, scalarTyped]
      cases parseIntUnsigned w cfg.legacyOctal v <;> simp
    · simp only [deserScalarTyped, next_cons ref h, scalarTyped]
      cases parseIntSigned w cfg.legacyOctal v <;> simp
  | float w =>
    simp only [deserScalarTyped, next_cons ref h, scalarTyped]
    cases Float.parseYaml12Float w v <;> simp
  | char =>
    simp only [deserScalarTyped, peek_cons ref h, next_cons ref h, scalarTyped]
    by_cases h1 : (tag != tagString) = true
    · simp only [h1, if_true, Bool.true_and]
      by_cases h2 : (tag == tagNull || scalarIsNullish v st) = true
      · simp [h2]
      · simp only [h2, if_false, Bool.false_eq_true]
        by_cases h3 : (cfg.noSchema && maybeNotString v st) = true
        · simp [h3]
        · simp only [h3, if_false, Bool.false_eq_true]
          match v with
          | [] => simp
          | [c] => simp
          | _ :: _ :: _ => simp
    · simp only [h1, if_false, Bool.false_eq_true, Bool.false_and]
      match v with
      | [] => simp
      | [c] => simp
      | _ :: _ :: _ => simp
  | _ => simp [deserScalarTyped, next_cons ref h, scalarTyped]

theorem deserScalarTyped_other (cfg : Cfg) (ty : Ty) {e : Ev} (h : buf.drop i = e :: tl) (he : Ev.isScalar e = false) :
    IsErr (deserScalarTyped cfg ty (.replay buf i ref)) := by
  simp only [deserScalarTyped, peek_cons ref h, next_cons ref h]
  cases e <;> simp [Ev.isScalar] at he <;> cases ty <;> simp

theorem deserScalarTyped_nil (cfg : Cfg) (ty : Ty) (h : buf.drop i = []) :
    IsErr (deserScalarTyped cfg ty (.replay buf i ref)) := by
  simp only [deserScalarTyped, peek_nil ref h, next_nil ref h]
  cases ty <;> simp

theorem deserAnyScalar_scalar (cfg : Cfg) {v : List Char} {tag : Nat} {rt : Option (List Char)} {st : Style} {a : Nat} {l : Loc}
    (h : buf.drop i = .scalar v tag rt st a l :: tl) :
    Expect (deserAnyScalar cfg (.replay buf i ref) v tag st l) (anyScalar cfg v tag st) (.replay buf (i + 1) ref) := by
  have ht := takeStringScalar_scalar ref cfg h
  simp only [deserAnyScalar, next_cons ref h, anyScalar]
  by_cases h1 : (tag == tagNull) = true
  · simp [h1]
  · simp only [h1, if_false, Bool.false_eq_true, Bool.false_or]
    by_cases h2 : scalarIsNullish v st = true
    · simp [h2]
    · simp only [h2, if_false, Bool.false_eq_true]
      by_cases h3 : (!(st == .plain) || !canParseIntoString tag || tag == tagBinary || tag == tagString) = true
      · simp only [h3, if_true]
        simp only [stringOfScalar] at ht ⊢
        by_cases h4 : (tag == tagBinary && !cfg.ignoreBinaryTagForString) = true
        · simp only [h4, if_true] at ht ⊢
          cases hd : (Base64.decode (utf8Bytes v)).bind utf8DecodeBytes with
          | none => simp only [hd, expect_none] at ht; obtain ⟨e, c, he⟩ := ht; simp [he]
          | some s => simp only [hd, expect_some] at ht; simp [ht]
        · simp only [h4, if_false, Bool.false_eq_true]
          split <;> simp
      · simp only [h3, if_false, Bool.false_eq_true]
        cases (if cfg.strictBooleans = true then parseStrictBool v else parseYaml11Bool v) with
        | some b => simp
        | none =>
          simp only []
          generalize (if ((trim v).head? == some '-' && !leadingZeroDecimal (trim v)) = true then
            parseIntSigned 64 cfg.legacyOctal (trim v) else
            match parseIntUnsigned 64 cfg.legacyOctal (trim v) with
            | some u => some (Int.ofNat u)
            | none => parseIntSigned 64 cfg.legacyOctal (trim v)) = i?
          cases i? with
          | some i => simp
          | none =>
            cases Float.parseYaml12Float 64 v with
            | none => simp
            | some f =>
              simp only []
              split
              · simp
              · split
                · simp
                · split <;> simp

end

end SaphyrVerif.Lemmas.C05
