import SaphyrVerif.Lemmas.C11_Typed2Check
import SaphyrVerif.Lemmas.C11_Typed2LockMain
/-!
Typed multi-document theorems (C11), continued — part 7: a document in which the pump ALONE fails — whatever the
reason: an alias whose anchor is unknown in this document (defined in an earlier one only), a budget breach, an
alias limit, a scan error — before the end of the document.

`FailRun X p inp es`: from the state `p` the pump delivers the events `es`, then reports an error, all of it
before the rest `X` of the stream (the `DocumentEnd` marker of the document and what follows it) is reached.  Such
a run does not depend on `X` (`failRun_swap`) nor on the flags of the start state (`failRun_flags`), so the live
cursor inside the document in a stream (`… ++ X`) and the live cursor inside the same document in another stream
(`… ++ Y`, e.g. the one-document stream) are in LOCK-STEP (`failP`, `closed_failP`): by `Lemmas.Lock.lA` the typed
deserializer returns the same values and the same errors on both, and the cursor it returns on an error is still
inside the document — the recovery `skip_to_next_document` then ends at the next document.
-/
namespace SaphyrVerif.Lemmas.C11B
open SaphyrVerif SaphyrVerif.Scalars SaphyrVerif.Pump SaphyrVerif.De SaphyrVerif.Spec SaphyrVerif.Budget SaphyrVerif.Entry
open SaphyrVerif.Lemmas.C11 (Doc)
open SaphyrVerif.Lemmas.C11T (J skipNeutral nextImpl_look nextImpl_event_lastLoc nextImpl_suffix suffix_split
  nextImpl_fixed pump_eta_look Item)
open SaphyrVerif.Lemmas.Lock (LP LR Closed)

/-! ### runs of the pump that end in an error inside the document -/

/-- the pump delivers the events `es`, one per call, then reports an error; none of these calls reads an item of
`X` -/
inductive FailRun (X : List RawItem) : Pump → List RawItem → List Ev → Prop
  | err {p : Pump} {A : List RawItem} {er : PErr} {p' : Pump} {A' : List RawItem} :
      nextImpl p (A ++ X) = (.error er, p', A' ++ X) → FailRun X p (A ++ X) []
  | ev {p : Pump} {A : List RawItem} {e : Ev} {p' : Pump} {A' : List RawItem} {es : List Ev} :
      nextImpl p (A ++ X) = (.event e, p', A' ++ X) → FailRun X p' (A' ++ X) es → FailRun X p (A ++ X) (e :: es)

theorem FailRun.form {X : List RawItem} {p : Pump} {inp : List RawItem} {es : List Ev} (h : FailRun X p inp es) :
    ∃ A, inp = A ++ X := by
  cases h with
  | err _ => exact ⟨_, rfl⟩
  | ev _ _ => exact ⟨_, rfl⟩

/-- the rest of the stream behind the document does not matter -/
theorem failRun_swap {X Y : List RawItem} (hX : X ≠ []) : ∀ {q : Pump} {A : List RawItem} {es : List Ev},
    q.stopAtDocEnd = false → FailRun X q (A ++ X) es → FailRun Y q (A ++ Y) es := by
  intro q A es hs h
  generalize hinp : A ++ X = inp at h
  induction h generalizing A with
  | @err p A0 er p' A' hn =>
    have hA : A = A0 := List.append_cancel_right hinp
    subst hA
    exact FailRun.err (nextImpl_swap X Y hX A p _ p' A' hs hn)
  | @ev p A0 e p' A' es hn _ ih =>
    have hA : A = A0 := List.append_cancel_right hinp
    subst hA
    have hs' : p'.stopAtDocEnd = false := by
      have := (nextImpl_fixed p (A ++ X)).2.2
      rw [hn] at this
      rw [this, hs]
    exact FailRun.ev (nextImpl_swap X Y hX A p _ p' A' hs hn) (ih hs' rfl)

/-- the flags of the start state do not matter -/
theorem failRun_flags {X : List RawItem} (hX : X ≠ []) : ∀ {q : Pump} {inp : List RawItem} {es : List Ev},
    q.stopAtDocEnd = false → FailRun X q inp es → ∀ (a b : Bool), FailRun X (withFlags q a b) inp es := by
  intro q inp es hs h
  induction h with
  | @err p A er p' A' hn =>
    intro a b
    exact FailRun.err (nextImpl_flags a b X hX A p _ p' A' hs hn)
  | @ev p A e p' A' es hn _ ih =>
    intro a b
    have hs' : p'.stopAtDocEnd = false := by
      have := (nextImpl_fixed p (A ++ X)).2.2
      rw [hn] at this
      rw [this, hs]
    have hfl := nextImpl_flags a b X hX A p _ p' A' hs hn
    have hpa := nextImpl_event_produced hn
    simp only [adjFlags] at hfl
    rw [← withFlags_eq_syn hpa b] at hfl
    exact FailRun.ev hfl (ih hs' true b)

/-! ### the lock-step pair: the same document in front of two different rests -/

/-- replace the rest `X` of the input (its last `X.length` items) by `Y` -/
def swapSuf (X Y : List RawItem) (inp : List RawItem) : List RawItem := inp.take (inp.length - X.length) ++ Y

theorem swapSuf_append (X Y A : List RawItem) : swapSuf X Y (A ++ X) = A ++ Y := by
  simp [swapSuf]

/-- the twin of a live cursor: the rest `X` of the input replaced by `Y`, the flags normalised -/
def swapCur (X Y : List RawItem) (b' : Bool) : Cur → Cur
  | .live p inp => .live (withFlags p true b') (swapSuf X Y inp)
  | .replay b i r => .replay b i r

/-- a live cursor inside a document in which the pump will fail: after the first event (`produced_any_in_doc`),
either the look-ahead slot is empty and the pump is on a failing run, or it holds the event delivered last -/
def FailInv (L : AliasLimits) (ob : Option Limits) (X : List RawItem) (c : Cur) : Prop :=
  ∃ q inq l, c = .live q inq ∧ StatB L ob q ∧ J X inq ∧ q.producedAny = true ∧
    ((q.look = none ∧ FailRun X q inq l) ∨
     (∃ e q0, q0.look = none ∧ q0.lastLoc = e.loc ∧ q = { q0 with look := some e } ∧ FailRun X q0 inq l))

/-- the cursor after an error inside the document -/
def FailErr (L : AliasLimits) (ob : Option Limits) (X : List RawItem) (c : Cur) : Prop :=
  ∃ q inq, c = .live q inq ∧ StatB L ob q ∧ J X inq

theorem swapCur_lastLoc (X Y : List RawItem) (b' : Bool) (c : Cur) : (swapCur X Y b' c).lastLoc = c.lastLoc := by
  cases c <;> rfl

theorem swapCur_refLoc (X Y : List RawItem) (b' : Bool) (c : Cur) : (swapCur X Y b' c).refLoc = c.refLoc := by
  cases c <;> rfl

theorem swapCur_atAlias (X Y : List RawItem) (b' : Bool) (c : Cur) : (swapCur X Y b' c).atAlias = c.atAlias := by
  cases c <;> rfl

/-- the parameters of the lock-step comparison for a failing document -/
def failP (L : AliasLimits) (ob : Option Limits) (X Y : List RawItem) (b' : Bool) : LP where
  σ := swapCur X Y b'
  Inv := FailInv L ob X
  ErrI := FailErr L ob X
  σ_lastLoc := swapCur_lastLoc X Y b'
  σ_refLoc := swapCur_refLoc X Y b'
  σ_atAlias := swapCur_atAlias X Y b'
  σ_replay := fun _ _ _ => rfl
  inv_err := by
    rintro c ⟨q, inq, l, rfl, hst, hJ, -, -⟩
    exact ⟨q, inq, rfl, hst, hJ⟩

theorem withFlags_look (p : Pump) (a b : Bool) : (withFlags p a b).look = p.look := rfl
theorem withFlags_sade (p : Pump) (a b : Bool) : (withFlags p a b).stopAtDocEnd = p.stopAtDocEnd := rfl

/-- one call of the pump on both inputs -/
theorem nextImpl_pair {X Y : List RawItem} (hX : X ≠ []) (b' : Bool) {q : Pump} {A : List RawItem} {s : Step}
    {p' : Pump} {A' : List RawItem} (hs : q.stopAtDocEnd = false) (hn : nextImpl q (A ++ X) = (s, p', A' ++ X)) :
    nextImpl (withFlags q true b') (A ++ Y) = (s, adjFlags s p' true b', A' ++ Y) :=
  nextImpl_swap X Y hX A _ _ _ A' (by rw [withFlags_sade, hs]) (nextImpl_flags true b' X hX A q s p' A' hs hn)

theorem closed_failP (L : AliasLimits) (ob : Option Limits) (X Y : List RawItem) (b' : Bool) (hX : X ≠ []) :
    Closed (failP L ob X Y b') := by
  rintro c ⟨q, inq, l, rfl, hst, hJ, hpa, hmode⟩
  rcases hmode with ⟨hl, hr⟩ | ⟨e, q0, hl0, hloc, rfl, hr⟩
  · have hlR : (withFlags q true b').look = none := hl
    cases hr with
    | @err _ A er p' A' hn =>
      have hnR := nextImpl_pair hX b' (Y := Y) hst.sade hn
      simp only [adjFlags] at hnR
      have hst' : StatB L ob p' := by
        have := nextImpl_statB hst (A ++ X)
        rw [hn] at this; exact this
      have hJ' : J X (A' ++ X) := by
        have hsuf := nextImpl_suffix q (A ++ X)
        rw [hn] at hsuf
        exact hJ.step hsuf (List.suffix_append _ _)
      have herr : (failP L ob X Y b').ErrI (.live p' (A' ++ X)) := ⟨p', _, rfl, hst', hJ'⟩
      have hσ : (failP L ob X Y b').σ (.live q (A ++ X)) = .live (withFlags q true b') (A ++ Y) := by
        simp [failP, swapCur, swapSuf_append]
      have hσ' : (failP L ob X Y b').σ (.live p' (A' ++ X)) = .live (withFlags p' true b') (A' ++ Y) := by
        simp [failP, swapCur, swapSuf_append]
      constructor
      · have h1 : Cur.peek (.live q (A ++ X)) = .err (ofPErr er) (.live p' (A' ++ X)) := by
          simp [Cur.peek, Pump.peek, hl, hn]
        have h2 : Cur.peek (.live (withFlags q true b') (A ++ Y)) = .err (ofPErr er) (.live (withFlags p' true b') (A' ++ Y)) := by
          simp [Cur.peek, Pump.peek, hlR, hnR]
        rw [hσ, h1, h2, ← hσ']
        exact LR.err herr
      · have h1 : Cur.next (.live q (A ++ X)) = .err (ofPErr er) (.live p' (A' ++ X)) := by
          simp [Cur.next, Pump.next, hl, hn]
        have h2 : Cur.next (.live (withFlags q true b') (A ++ Y)) = .err (ofPErr er) (.live (withFlags p' true b') (A' ++ Y)) := by
          simp [Cur.next, Pump.next, hlR, hnR]
        rw [hσ, h1, h2, ← hσ']
        exact LR.err herr
    | @ev _ A e p' A' es hn hr' =>
      have hnR := nextImpl_pair hX b' (Y := Y) hst.sade hn
      have hpa' := nextImpl_event_produced hn
      simp only [adjFlags] at hnR
      rw [← withFlags_eq_syn hpa' b'] at hnR
      have hst' : StatB L ob p' := by
        have := nextImpl_statB hst (A ++ X)
        rw [hn] at this; exact this
      have hl' : p'.look = none := by
        have := nextImpl_look q (A ++ X)
        rw [hn] at this
        rw [← hl]; exact this
      have hloc := nextImpl_event_lastLoc hn
      have hJ' : J X (A' ++ X) := by
        have hsuf := nextImpl_suffix q (A ++ X)
        rw [hn] at hsuf
        exact hJ.step hsuf (List.suffix_append _ _)
      have hσ : (failP L ob X Y b').σ (.live q (A ++ X)) = .live (withFlags q true b') (A ++ Y) := by
        simp [failP, swapCur, swapSuf_append]
      constructor
      · have h1 : Cur.peek (.live q (A ++ X)) = .ok (some e) (.live { p' with look := some e, lastLoc := e.loc } (A' ++ X)) := by
          simp [Cur.peek, Pump.peek, hl, hn]
        have h2 : Cur.peek (.live (withFlags q true b') (A ++ Y)) =
            .ok (some e) (.live { (withFlags p' true b') with look := some e, lastLoc := e.loc } (A' ++ Y)) := by
          simp [Cur.peek, Pump.peek, hlR, hnR]
        have hσ' : (failP L ob X Y b').σ (.live { p' with look := some e, lastLoc := e.loc } (A' ++ X)) =
            .live { (withFlags p' true b') with look := some e, lastLoc := e.loc } (A' ++ Y) := by
          simp [failP, swapCur, swapSuf_append, withFlags]
        rw [hσ, h1, h2, ← hσ']
        refine LR.ok ⟨_, _, es, rfl, ⟨hst'.bud, hst'.rip, hst'.lim, hst'.sade⟩, hJ', hpa', .inr ⟨e, p', hl', hloc, ?_, hr'⟩⟩
        cases p'
        simp_all
      · have h1 : Cur.next (.live q (A ++ X)) = .ok (some e) (.live p' (A' ++ X)) := by
          simp [Cur.next, Pump.next, hl, hn]
        have h2 : Cur.next (.live (withFlags q true b') (A ++ Y)) = .ok (some e) (.live (withFlags p' true b') (A' ++ Y)) := by
          simp [Cur.next, Pump.next, hlR, hnR]
        have hσ' : (failP L ob X Y b').σ (.live p' (A' ++ X)) = .live (withFlags p' true b') (A' ++ Y) := by
          simp [failP, swapCur, swapSuf_append]
        rw [hσ, h1, h2, ← hσ']
        exact LR.ok ⟨p', _, es, rfl, hst', hJ', hpa', .inl ⟨hl', hr'⟩⟩
  · have hst0 : StatB L ob q0 := ⟨hst.bud, hst.rip, hst.lim, hst.sade⟩
    have hpa0 : q0.producedAny = true := hpa
    constructor
    · have h1 : Cur.peek (.live { q0 with look := some e } inq) =
          .ok (some e) (.live { ({ q0 with look := some e } : Pump) with lastLoc := e.loc } inq) := by
        simp [Cur.peek, Pump.peek]
      have h2 : Cur.peek ((failP L ob X Y b').σ (.live { q0 with look := some e } inq)) =
          .ok (some e) ((failP L ob X Y b').σ (.live { ({ q0 with look := some e } : Pump) with lastLoc := e.loc } inq)) := by
        simp [failP, swapCur, Cur.peek, Pump.peek, withFlags]
      rw [h1, h2]
      refine LR.ok ⟨_, _, l, rfl, ⟨hst.bud, hst.rip, hst.lim, hst.sade⟩, hJ, hpa, .inr ⟨e, q0, hl0, hloc, ?_, hr⟩⟩
      cases q0
      simp_all
    · have h1 : Cur.next (.live { q0 with look := some e } inq) = .ok (some e) (.live q0 inq) := by
        simp only [Cur.next, Pump.next]
        rw [pump_eta_look hl0 hloc]
      have h2 : Cur.next ((failP L ob X Y b').σ (.live { q0 with look := some e } inq)) =
          .ok (some e) ((failP L ob X Y b').σ (.live q0 inq)) := by
        simp only [failP, swapCur, Cur.next, Pump.next, withFlags]
        have : ({ ({ q0 with look := some e } : Pump) with look := none, lastLoc := e.loc } : Pump) = q0 :=
          pump_eta_look hl0 hloc
        cases q0
        simp_all
      rw [h1, h2]
      exact LR.ok ⟨q0, inq, l, rfl, hst0, hJ, hpa0, .inl ⟨hl0, hr⟩⟩

end SaphyrVerif.Lemmas.C11B
