import SaphyrVerif.Lemmas.C12Fold
import SaphyrVerif.Model.Emitter
/-!
C13 / C12 composition, block scalars, part 3: `write_folded_block` of the emitter model (`Emit.foldedLine`) is
the function C12 proved `fold_inverse` for (`SerScalar.foldLine`: the same Rust loop, transcribed with explicit
slice panics).  Simulation: as long as the C12 transcription does not panic the two loop states agree; C12's
`foldLine_spec` says it does not.  Result: `foldedLine_spec` — a line that is not empty and does not start with a
blank is written as indented segments whose join by single blanks is the line.
-/
set_option linter.unusedSimpArgs false
set_option linter.unusedVariables false
namespace SaphyrVerif.Emit
open SaphyrVerif

/-- the loop state of the C12 transcription as a loop state of the emitter model -/
def toScan (st : SerScalar.FoldSt) : FoldScan :=
  { acc := st.out, start := st.start, col := st.col, lastSpaceRun := st.last, inSpaceRun := st.inRun,
    runStart := st.runStart, runLen := st.runLen, stopped := st.broke }

theorem foldStep_sim (L ind : List Char) (w : Nat) (st : SerScalar.FoldSt) (i : Nat) (ch : Char)
    (hp : st.panicked = false) (hq : (SerScalar.foldStep L ind w st i ch).panicked = false) :
    toScan (SerScalar.foldStep L ind w st i ch) = foldStep ind L w (toScan st) i ch := by
  obtain ⟨out, start, col, last, inRun, runStart, runLen, broke, panicked⟩ := st
  simp only at hp
  subst hp
  cases broke
  · -- the loop is still running
    revert hq
    simp only [SerScalar.foldStep, foldStep, toScan, Bool.false_or, Bool.false_eq_true, if_false, SerScalar.trackRun]
    by_cases hsp : ch = ' '
    · subst hsp
      cases inRun <;> simp only [SerScalar.breakStep, bne_self_eq_false, Bool.and_false, Bool.false_eq_true, if_false,
        beq_self_eq_true, if_true, Bool.not_false, Bool.not_true]
      all_goals
        by_cases hc : col + 1 > w
        · simp only [hc, if_true]
          cases last with
          | none => intro _; rfl
          | some abn =>
            obtain ⟨a, b, n⟩ := abn
            simp only [SerScalar.slice?]
            by_cases hs : (decide (start ≤ a) && decide (a ≤ L.length)) = true
            · simp only [hs, if_true]; intro _; rfl
            · simp only [hs, if_false]; intro h; exact absurd h (by simp)
        · simp only [hc, if_false]; intro _; first | rfl | trivial
    · have h1 : (ch != ' ') = true := by simpa using hsp
      have h2 : (ch == ' ') = false := by simpa using hsp
      cases inRun <;> simp only [SerScalar.breakStep, h1, h2, Bool.and_true, Bool.false_eq_true, if_false, if_true,
        Bool.and_self, Bool.false_and]
      all_goals
        by_cases hc : col + 1 > w
        · simp only [hc, if_true]
          first
          | (cases last with
             | none => intro _; rfl
             | some abn =>
               obtain ⟨a, b, n⟩ := abn
               simp only [SerScalar.slice?]
               by_cases hs : (decide (start ≤ a) && decide (a ≤ L.length)) = true
               · simp only [hs, if_true]; intro _; rfl
               · simp only [hs, if_false]; intro h; exact absurd h (by simp))
          | (simp only [SerScalar.slice?]
             by_cases hs : (decide (start ≤ runStart) && decide (runStart ≤ L.length)) = true
             · simp only [hs, if_true]; intro _; rfl
             · simp only [hs, if_false]; intro h; exact absurd h (by simp))
        · simp only [hc, if_false]; intro _; first | rfl | trivial
  · simp [SerScalar.foldStep, foldStep, toScan]

theorem foldLoop_sticky (L ind : List Char) (w : Nat) : ∀ (rest : List Char) (i : Nat) (st : SerScalar.FoldSt),
    st.panicked = true → (SerScalar.foldLoop L ind w rest i st).panicked = true
  | [], _, _, h => h
  | ch :: rest, i, st, h => by
    rw [SerScalar.foldLoop]
    apply foldLoop_sticky L ind w rest (i + 1)
    simp [SerScalar.foldStep, h]

theorem foldLoop_sim (L ind : List Char) (w : Nat) : ∀ (rest : List Char) (i : Nat) (st : SerScalar.FoldSt),
    (SerScalar.foldLoop L ind w rest i st).panicked = false →
    toScan (SerScalar.foldLoop L ind w rest i st) = foldScanLoop ind L w (toScan st) i rest
  | [], _, _, _ => rfl
  | ch :: rest, i, st, h => by
    rw [SerScalar.foldLoop] at h ⊢
    rw [foldScanLoop]
    have hq : (SerScalar.foldStep L ind w st i ch).panicked = false := by
      cases hx : (SerScalar.foldStep L ind w st i ch).panicked
      · rfl
      · rw [foldLoop_sticky L ind w rest (i + 1) _ hx] at h; exact absurd h (by simp)
    have hp : st.panicked = false := by
      cases hx : st.panicked
      · rfl
      · have : (SerScalar.foldStep L ind w st i ch).panicked = true := by simp [SerScalar.foldStep, hx]
        rw [this] at hq; exact absurd hq (by simp)
    rw [← foldStep_sim L ind w st i ch hp hq]
    exact foldLoop_sim L ind w rest (i + 1) _ h

/-- where the C12 transcription succeeds, the emitter model writes the same text -/
theorem foldedLine_of_foldLine (L ind : List Char) (w : Nat) (t : List Char)
    (h : SerScalar.foldLine L ind w = .ok t) : foldedLine ind w L = t := by
  unfold SerScalar.foldLine at h
  unfold foldedLine
  by_cases he : L.isEmpty = true
  · simp only [he, if_true] at h ⊢
    injection h
  · simp only [he, Bool.false_eq_true, if_false] at h ⊢
    by_cases hh : (L.head? == some ' ') = true
    · simp only [hh, if_true] at h ⊢
      injection h
    · simp only [hh, Bool.false_eq_true, if_false] at h ⊢
      by_cases hp : (SerScalar.foldLoop L ind w L 0 {}).panicked = true
      · simp [hp] at h
      · have hp' : (SerScalar.foldLoop L ind w L 0 {}).panicked = false := by simpa using hp
        simp only [hp', Bool.false_eq_true, if_false] at h
        have hsim := foldLoop_sim L ind w L 0 {} hp'
        have h0 : toScan {} = {} := rfl
        rw [h0] at hsim
        rw [← hsim]
        simp only [SerScalar.slice?] at h
        by_cases hs : (decide ((SerScalar.foldLoop L ind w L 0 {}).start ≤ L.length) && decide (L.length ≤ L.length)) = true
        · simp only [hs, if_true] at h
          injection h with h
          rw [← h]
          simp only [toScan]
          have : List.take (L.length - (SerScalar.foldLoop L ind w L 0 {}).start) (List.drop (SerScalar.foldLoop L ind w L 0 {}).start L) =
              List.drop (SerScalar.foldLoop L ind w L 0 {}).start L := by
            apply List.take_of_length_le; simp
          rw [this]
        · simp only [hs, if_false] at h
          exact absurd h (by simp)

open SaphyrVerif.Lemmas.C12 in
/-- `fold_inverse` for the emitter model: a line that is not empty and does not start with a blank is written as
indented segments; joining the segments by single blanks gives the line back; no segment is empty or starts with
a blank -/
theorem foldedLine_spec (L ind : List Char) (w : Nat) (hne : L ≠ []) (hhead : L.head? ≠ some ' ') :
    ∃ segs, foldedLine ind w L = joinLines (segs.map (ind ++ ·)) ∧ joinSp segs = L ∧ segs ≠ [] ∧
      ∀ e ∈ segs, e ≠ [] ∧ e.head? ≠ some ' ' := by
  obtain ⟨segs, h1, h2, h3, h4⟩ := foldLine_spec L ind w hne hhead
  exact ⟨segs, foldedLine_of_foldLine L ind w _ h1, h2, h3, h4⟩

end SaphyrVerif.Emit
