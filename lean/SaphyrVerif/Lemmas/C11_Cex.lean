import SaphyrVerif.Model.Entry
/-!
Helper lemmas for C11, part 10: regression facts for the two former witnesses against termination of the
iterator.  Before the repair a container-end event at a document root was handed to `deser`, where
`deserialize_unit` / `deserialize_option` accept it without consuming it (the iterator yielded the same item
for ever).  Now the iterator (and the batch loop) report `UnexpectedSequenceEnd` / `UnexpectedMappingEnd`
and recover at the next document.
-/
namespace SaphyrVerif.Lemmas.C11
open SaphyrVerif SaphyrVerif.Scalars SaphyrVerif.Pump SaphyrVerif.De SaphyrVerif.Entry

def cexLimits : AliasLimits := ⟨5, 5, 5⟩
def cexPump : Pump := { limits := cexLimits }
/-- the state once the stray end event sits in the look-ahead -/
def cexStuck : Pump := { limits := cexLimits, look := some (.seqEnd 1), lastLoc := 1, producedAny := true }

theorem cex_peek0 : Cur.peek (.live cexPump [.ev .seqEnd 1]) = .ok (some (.seqEnd 1)) (.live cexStuck []) := by
  rfl

/-- first former witness (a stray `]` read as `()`): one error item, then the iterator stops -/
theorem cex_now (m : Nat) :
    iterLoop {} .unit (m + 1) cexPump [.ev .seqEnd 1] [] = [.error ⟨"UnexpectedSequenceEnd", 1, 0⟩] := by
  simp [iterLoop, cex_peek0, Pump.skipToNextDocument, skipLoop]

/-- the parser items of the one-document stream `[[]]` -/
def wfItems : List RawItem :=
  [.ev .streamStart 1, .ev (.docStart false) 2, .ev (.seqStart 0 none) 10, .ev (.seqStart 0 none) 11,
   .ev .seqEnd 12, .ev .seqEnd 19, .ev .docEnd 3, .ev .streamEnd 9]
def wfTy : Ty := .option (.tuple [])
def wfRest : List RawItem := [.ev .docEnd 3, .ev .streamEnd 9]
/-- after two items have been yielded -/
def wfMid : Pump := { limits := cexLimits, lastLoc := 12, producedAny := true }
/-- the outer `]` sits in the look-ahead -/
def wfStuck : Pump := { limits := cexLimits, look := some (.seqEnd 19), lastLoc := 19, producedAny := true }

theorem wf_peek_mid : Cur.peek (.live wfMid (.ev .seqEnd 19 :: wfRest)) = .ok (some (.seqEnd 19)) (.live wfStuck wfRest) := rfl

theorem wf_prefix (m : Nat) (acc : List (Except DErr Val)) :
    iterLoop {} wfTy (m + 2) cexPump wfItems acc =
      iterLoop {} wfTy m wfMid (.ev .seqEnd 19 :: wfRest) (acc ++ [.ok (.some (.seq [])), .ok (.some (.seq []))]) := by
  have hf : fuelFor 100000 = 6499998 + 1 + 1 := rfl
  simp [iterLoop, hf, wfMid, wfRest, cexLimits, wfTy, wfItems, cexPump, Cur.peek, Pump.peek, Cur.next,
    Pump.next, nextImpl, serveInject, parserLoop, Pump.resetDocumentState, deser, deserSeqLike, tupleElems, tagCode,
    recordAll, record, bumpDepthOnStart, bumpDepthOnEnd, finalizeFrames, Ev.loc]

/-- second former witness (the well-formed document `[[]]` read as `Option<()>`-like): two values, then the
outer `]` is reported as an error item, the rest of the document is skipped and the iterator stops -/
theorem wf_now (m : Nat) :
    iterLoop {} wfTy (m + 3) cexPump wfItems [] =
      [.ok (.some (.seq [])), .ok (.some (.seq [])), .error ⟨"UnexpectedSequenceEnd", 19, 0⟩] := by
  rw [wf_prefix (m + 1) []]
  simp only [iterLoop, wf_peek_mid]
  simp [wfRest, wfStuck, Pump.skipToNextDocument, skipLoop]

/-- the batch entry point on the same input: the error instead of a run that only ends with the fuel -/
theorem wf_batch_now :
    fromMultiple {} wfTy cexPump wfItems = .error ⟨"UnexpectedSequenceEnd", 19, 0⟩ := by
  have hf : fuelFor 100000 = 6499998 + 1 + 1 := rfl
  simp [fromMultiple, multiLoop, hf, cexLimits, wfTy, wfItems, cexPump, Cur.peek, Pump.peek, Cur.next,
    Pump.next, nextImpl, serveInject, parserLoop, Pump.resetDocumentState, deser, deserSeqLike, tupleElems, tagCode,
    recordAll, record, bumpDepthOnStart, bumpDepthOnEnd, finalizeFrames, Ev.loc]

end SaphyrVerif.Lemmas.C11
