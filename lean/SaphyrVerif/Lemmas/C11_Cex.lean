import SaphyrVerif.Model.Entry
/-!
Helper lemmas for C11, part 10: the witness against unconditional termination of the iterator.  A stray
container-end event at a document root is accepted by `deserialize_unit` (and `deserialize_option`)
without being consumed, so the iterator yields `Ok(())` for ever.
-/
namespace SaphyrVerif.Lemmas.C11
open SaphyrVerif SaphyrVerif.Scalars SaphyrVerif.Pump SaphyrVerif.De SaphyrVerif.Entry

def cexLimits : AliasLimits := ⟨5, 5, 5⟩
def cexPump : Pump := { limits := cexLimits }
/-- the state once the stray end event sits in the look-ahead -/
def cexStuck : Pump := { limits := cexLimits, look := some (.seqEnd 1), lastLoc := 1, producedAny := true }

theorem cex_peek0 : Cur.peek (.live cexPump [.ev .seqEnd 1]) = .ok (some (.seqEnd 1)) (.live cexStuck []) := by
  rfl
theorem cex_peek : Cur.peek (.live cexStuck []) = .ok (some (.seqEnd 1)) (.live cexStuck []) := by
  rfl
theorem cex_deser : deser (fuelFor 100000) {} .unit false false (.live cexStuck []) = .ok .unit (.live cexStuck []) := by
  rw [show fuelFor 100000 = 6499999 + 1 from rfl]
  simp only [deser, cex_peek]

theorem cex_loop : ∀ m acc, (iterLoop {} .unit m cexStuck [] acc).length = acc.length + m := by
  intro m
  induction m with
  | zero => intro acc; simp [iterLoop]
  | succ m ih =>
    intro acc
    simp only [iterLoop, cex_peek, cex_deser, Bool.false_eq_true, if_false]
    rw [ih]
    simp
    omega
theorem cex_loop0 : ∀ m, (iterLoop {} .unit (m + 1) cexPump [.ev .seqEnd 1] []).length = m + 1 := by
  intro m
  simp only [iterLoop, cex_peek0, cex_deser, Bool.false_eq_true, if_false]
  rw [cex_loop]
  simp
  omega

/-! A second witness on a WELL-FORMED stream: the single document `[[]]` read as `Option<()>`-like
(`option (tuple [])`).  The zero-length tuple visitor stops after each `[` without reading on; the third
`next` of the iterator then peeks the closing `]` of the outer sequence, which `deserialize_option`
turns into `None` without consuming it — for ever. -/

/-- the parser items of the one-document stream `[[]]` -/
def wfItems : List RawItem :=
  [.ev .streamStart 1, .ev (.docStart false) 2, .ev (.seqStart 0 none) 10, .ev (.seqStart 0 none) 11,
   .ev .seqEnd 12, .ev .seqEnd 19, .ev .docEnd 3, .ev .streamEnd 9]
def wfTy : Ty := .option (.tuple [])
def wfRest : List RawItem := [.ev .docEnd 3, .ev .streamEnd 9]
/-- after two items have been yielded -/
def wfMid : Pump := { limits := cexLimits, lastLoc := 12, producedAny := true }
/-- the outer `]` sits in the look-ahead -/
def wfStuck : Pump := { limits := cexLimits, look := some (.seqEnd 19), lastLoc := 19, producedAny := true }

theorem wf_peek : Cur.peek (.live wfStuck wfRest) = .ok (some (.seqEnd 19)) (.live wfStuck wfRest) := rfl
theorem wf_peek_mid : Cur.peek (.live wfMid (.ev .seqEnd 19 :: wfRest)) = .ok (some (.seqEnd 19)) (.live wfStuck wfRest) := rfl

theorem wf_deser :
    deser (fuelFor 100000) {} wfTy false false (.live wfStuck wfRest) = .ok .none (.live wfStuck wfRest) := by
  rw [show fuelFor 100000 = 6499999 + 1 from rfl]
  simp only [wfTy, deser, wf_peek]
  rfl

theorem wf_loop : ∀ m acc, (iterLoop {} wfTy m wfStuck wfRest acc).length = acc.length + m := by
  intro m
  induction m with
  | zero => intro acc; simp [iterLoop]
  | succ m ih =>
    intro acc
    simp only [iterLoop, wf_peek, wf_deser, Bool.false_eq_true, if_false]
    rw [ih]
    simp
    omega

theorem wf_prefix (m : Nat) (acc : List (Except DErr Val)) :
    iterLoop {} wfTy (m + 2) cexPump wfItems acc =
      iterLoop {} wfTy m wfMid (.ev .seqEnd 19 :: wfRest) (acc ++ [.ok (.some (.seq [])), .ok (.some (.seq []))]) := by
  have hf : fuelFor 100000 = 6499998 + 1 + 1 := rfl
  simp [iterLoop, hf, wfMid, wfRest, cexLimits, wfTy, wfItems, cexPump, Cur.peek, Pump.peek, Cur.next,
    Pump.next, nextImpl, serveInject, parserLoop, Pump.resetDocumentState, deser, deserSeqLike, tupleElems, tagCode,
    recordAll, record, bumpDepthOnStart, bumpDepthOnEnd, finalizeFrames, Ev.loc]

theorem wf_loop0 (m : Nat) : (iterLoop {} wfTy (m + 3) cexPump wfItems []).length = m + 3 := by
  rw [wf_prefix (m + 1) []]
  simp only [iterLoop, wf_peek_mid, wf_deser, Bool.false_eq_true, if_false]
  rw [wf_loop]
  simp
  omega

end SaphyrVerif.Lemmas.C11
