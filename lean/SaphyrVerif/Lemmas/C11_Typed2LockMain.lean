import SaphyrVerif.Lemmas.C11_Typed2LockA
import SaphyrVerif.Lemmas.C11_Typed2LockB
import SaphyrVerif.Lemmas.C11_Typed2LockC
import SaphyrVerif.Lemmas.C11_Typed2LockD
import SaphyrVerif.Lemmas.C11_Typed2LockE
/-!
Lock-step simulation (twin of `Lemmas/E2EBudget*.lean`, see `Lemmas/C11_Typed2LockRel.lean`), part 6: the induction on the fuel — every function of the
mutual block of `Model/De.lean` relates a cursor and its twin `σ c` by `LR`.
-/
namespace SaphyrVerif.Lemmas.Lock
open SaphyrVerif SaphyrVerif.Scalars SaphyrVerif.Pump SaphyrVerif.De

theorem lA {P : LP} (hcl : Closed P) : ∀ fuel, LA P fuel
  | 0 => by
    constructor
    · intro c _; rw [De.capture, De.capture]; lk_err
    · intro fps evs c _; rw [De.captureSeq, De.captureSeq]; lk_err
    · intro fps evs c _; rw [De.captureMap, De.captureMap]; lk_err
    · intro b c _; rw [De.mergeSeqBatches, De.mergeSeqBatches]; lk_err
    · intro r c _; rw [De.pendingFromLive, De.pendingFromLive]; lk_err
    · intro r c _; rw [De.collectEntriesFromMap, De.collectEntriesFromMap]; lk_err
    · intro r f m c _; rw [De.collectLoop, De.collectLoop]; lk_err
    · intro c _; rw [De.skipOneNode, De.skipOneNode]; lk_err
    · intro d c _; rw [De.skipDepth, De.skipDepth]; lk_err
    · intro cfg ty ik km c _; rw [De.deser, De.deser]; lk_err
    · intro cfg acc c _; rw [De.bytesLoop, De.bytesLoop]; lk_err
    · intro cfg shape c _; rw [De.deserSeqLike, De.deserSeqLike]; lk_err
    · intro cfg t acc c _; rw [De.seqElems, De.seqElems]; lk_err
    · intro cfg ts acc c _; rw [De.tupleElems, De.tupleElems]; lk_err
    · intro cfg shape c _; rw [De.deserMapLike, De.deserMapLike]; lk_err
    · intro cfg kt vt m acc c _; rw [De.mapEntries, De.mapEntries]; lk_err
    · intro cfg fields deny m acc c _; rw [De.structEntries, De.structEntries]; lk_err
    · intro cfg ks m c _; rw [De.nextKey, De.nextKey]; lk_err
    · intro cfg vt m c _; rw [De.nextValue, De.nextValue]; lk_err
    · intro cfg name variants c _; rw [De.deserEnum, De.deserEnum]; lk_err
    · intro depth acc c _; rw [De.collectTaggedSeq, De.collectTaggedSeq]; lk_err
    · intro cfg variants vname vloc mapMode tagged c _; rw [De.variantPayload, De.variantPayload]; lk_err
  | fuel + 1 =>
    have ih := lA hcl fuel
    { capture := capture_lkStep hcl ih
      captureSeq := captureSeq_lkStep hcl ih
      captureMap := captureMap_lkStep hcl ih
      mergeSeqBatches := mergeSeqBatches_lkStep hcl ih
      pendingFromLive := pendingFromLive_lkStep hcl ih
      collectEntriesFromMap := collectEntriesFromMap_lkStep hcl ih
      collectLoop := collectLoop_lkStep hcl ih
      skipOneNode := skipOneNode_lkStep hcl ih
      skipDepth := skipDepth_lkStep hcl ih
      deser := deser_lkStep hcl ih
      bytesLoop := bytesLoop_lkStep hcl ih
      deserSeqLike := deserSeqLike_lkStep hcl ih
      seqElems := seqElems_lkStep hcl ih
      tupleElems := tupleElems_lkStep hcl ih
      deserMapLike := deserMapLike_lkStep hcl ih
      mapEntries := mapEntries_lkStep hcl ih
      structEntries := structEntries_lkStep hcl ih
      nextKey := nextKey_lkStep hcl ih
      nextValue := nextValue_lkStep hcl ih
      deserEnum := deserEnum_lkStep hcl ih
      collectTaggedSeq := collectTaggedSeq_lkStep hcl ih
      variantPayload := variantPayload_lkStep hcl ih }

#print axioms lA

end SaphyrVerif.Lemmas.Lock
