import SaphyrVerif.Lemmas.C05_Struct
/-!
Helper lemmas for C05, part 13: enums — variant lookup, the payload of the selected variant in the three
notations (`Variant`, `{Variant: payload}`, `!Variant payload`), `deserEnum` at any node.
-/
namespace SaphyrVerif.Lemmas.C05
open SaphyrVerif SaphyrVerif.Scalars SaphyrVerif.Pump SaphyrVerif.De SaphyrVerif.Spec

/-! ### variant lookup -/

/-- the payload interpreters of one variant type -/
def varFnOf (cfg : Cfg) : VTy → VarFn
  | .unit => .unit
  | .newtype t => .newtype (interpAbsent t) (interp cfg t)
  | .tuple ts => .tuple (interpFns cfg ts) (ts.map acceptsByte)
  | .struct fs => .struct (fieldFns cfg fs)

theorem variantFns_nil (cfg : Cfg) : variantFns cfg [] = [] := by rw [variantFns]
theorem variantFns_cons (cfg : Cfg) (n : String) (vt : VTy) (rest : List (String × VTy)) :
    variantFns cfg ((n, vt) :: rest) = (n, varFnOf cfg vt) :: variantFns cfg rest := by
  cases vt <;> rw [variantFns] <;> rfl

theorem variantFrom_nil (cfg : Cfg) (vname : List Char) (p : Option ENode) (tg : Bool) :
    variantFrom cfg [] vname p tg = none := by simp [variantFrom]

theorem variantFrom_cons_ne (cfg : Cfg) (n : String) (vf : VarFn) (vs : List (String × VarFn)) (v : List Char)
    (p : Option ENode) (tg : Bool) (h : n.toList ≠ v) :
    variantFrom cfg ((n, vf) :: vs) v p tg = variantFrom cfg vs v p tg := by
  rw [variantFrom.eq_def]
  simp [h]

theorem variantFrom_cons_eq (cfg : Cfg) (n : String) (vf : VarFn) (vs : List (String × VarFn)) (v : List Char)
    (p : Option ENode) (tg : Bool) (h : n.toList = v) :
    variantFrom cfg ((n, vf) :: vs) v p tg =
      match vf, p with
      | .unit, none => some (.variant n .unit)
      | .unit, some p => if tg || isNullishNode p then some (.variant n .unit) else none
      | .newtype _ f, some p => (f p).map (.variant n)
      | .newtype absent _, none => absent.map (.variant n)
      | .tuple fs acc, some p => (tupleNode fs acc p).map (.variant n)
      | .tuple _ _, none => none
      | .struct fs, some p => (structNode cfg fs false p).map (.variant n)
      | .struct _, none => none := by
  rw [variantFrom.eq_def]
  simp only [h, bne_self_eq_false, Bool.false_eq_true, if_false]
  rfl

/-- the selected variant: `lookupField` and the specification's linear search agree -/
theorem lookup_variant (cfg : Cfg) (vname : List Char) (variants : List (String × VTy)) (i : Nat) :
    match lookupField.go vname variants i with
    | some (_, vt) => (String.ofList vname, vt) ∈ variants ∧
        ((variantFns cfg variants).find? (fun p => p.1.toList == vname)).isSome = true ∧
        ∀ p tg, variantFrom cfg (variantFns cfg variants) vname p tg =
          variantFrom cfg [(String.ofList vname, varFnOf cfg vt)] vname p tg
    | none => ((variantFns cfg variants).find? (fun p => p.1.toList == vname)).isSome = false ∧
        ∀ p tg, variantFrom cfg (variantFns cfg variants) vname p tg = none := by
  induction variants generalizing i with
  | nil => simp [lookupField.go, variantFns_nil, variantFrom_nil]
  | cons f rest ih =>
    obtain ⟨n, vt⟩ := f
    simp only [lookupField.go, variantFns_cons, List.find?_cons]
    by_cases h : (n.toList == vname) = true
    · have hn : n = String.ofList vname := eq_ofList_of_toList (by simpa using h)
      have h' : n.toList = vname := by simpa using h
      simp only [h, if_true]
      refine ⟨by simp [hn], by simp, fun p tg => ?_⟩
      rw [variantFrom_cons_eq cfg n _ _ vname p tg h', variantFrom_cons_eq cfg _ _ _ vname p tg (by simp), hn]
    · have h' : n.toList ≠ vname := by simpa using h
      simp only [h, Bool.false_eq_true, if_false]
      have := ih (i + 1)
      cases hg : lookupField.go vname rest (i + 1) with
      | none =>
        simp only [hg] at this ⊢
        exact ⟨this.1, fun p tg => by rw [variantFrom_cons_ne cfg n _ _ vname p tg h']; exact this.2 p tg⟩
      | some q =>
        simp only [hg] at this ⊢
        exact ⟨List.mem_cons_of_mem _ this.1, this.2.1,
          fun p tg => by rw [variantFrom_cons_ne cfg n _ _ vname p tg h']; exact this.2.2 p tg⟩

/-- the value of the selected variant -/
def variantSel (cfg : Cfg) (n : String) (vt : VTy) (p : Option ENode) (tg : Bool) : Option Val :=
  match vt, p with
  | .unit, none => some (.variant n .unit)
  | .unit, some p => if tg || isNullishNode p then some (.variant n .unit) else none
  | .newtype t, some p => (interp cfg t p).map (.variant n)
  | .newtype t, none => (interpAbsent t).map (.variant n)
  | .tuple ts, some p => (tupleNode (interpFns cfg ts) (ts.map acceptsByte) p).map (.variant n)
  | .tuple _, none => none
  | .struct fs, some p => (structNode cfg (fieldFns cfg fs) false p).map (.variant n)
  | .struct _, none => none

theorem variantFrom_single (cfg : Cfg) (vname : List Char) (vt : VTy) (p : Option ENode) (tg : Bool) :
    variantFrom cfg [(String.ofList vname, varFnOf cfg vt)] vname p tg = variantSel cfg (String.ofList vname) vt p tg := by
  rw [variantFrom_cons_eq cfg _ _ _ vname p tg (by simp)]
  cases vt <;> cases p <;> rfl

theorem lookup_variant' (cfg : Cfg) (vname : List Char) (variants : List (String × VTy)) :
    match lookupField variants vname with
    | some (_, vt) => (String.ofList vname, vt) ∈ variants ∧
        ((variantFns cfg variants).find? (fun p => p.1.toList == vname)).isSome = true ∧
        ∀ p tg, variantFrom cfg (variantFns cfg variants) vname p tg = variantSel cfg (String.ofList vname) vt p tg
    | none => ((variantFns cfg variants).find? (fun p => p.1.toList == vname)).isSome = false ∧
        ∀ p tg, variantFrom cfg (variantFns cfg variants) vname p tg = none := by
  have := lookup_variant cfg vname variants 0
  simp only [lookupField]
  cases hg : lookupField.go vname variants 0 with
  | none => simp only [hg] at this ⊢; exact this
  | some q =>
    simp only [hg] at this ⊢
    exact ⟨this.1, this.2.1, fun p tg => by rw [this.2.2, variantFrom_single]⟩

/-! ### tuple-free variants -/

@[simp] theorem tfreeF_nil : tfreeF [] = true := by rw [tfreeF]
@[simp] theorem tfreeF_cons (n : String) (t : Ty) (r : List (String × Ty)) : tfreeF ((n, t) :: r) = (tfree t && tfreeF r) := by
  rw [tfreeF]

theorem tfreeF_mem {fs : List (String × Ty)} (h : tfreeF fs = true) {nt : String × Ty} (hm : nt ∈ fs) : tfree nt.2 = true := by
  induction fs with
  | nil => cases hm
  | cons f r ih =>
    obtain ⟨n, t⟩ := f
    simp only [tfreeF_cons, Bool.and_eq_true] at h
    rcases List.mem_cons.mp hm with rfl | hm'
    · exact h.1
    · exact ih h.2 hm'

theorem tfree_any : tfree .any = true := by rfl

/-- what a tuple-free variant list says about one of its variants -/
def vtFree : VTy → Bool
  | .unit => true
  | .newtype t => tfree t
  | .tuple _ => false
  | .struct fs => tfreeF fs

theorem tfreeV_mem {vs : List (String × VTy)} (h : tfreeV vs = true) {nv : String × VTy} (hm : nv ∈ vs) : vtFree nv.2 = true := by
  induction vs with
  | nil => cases hm
  | cons f r ih =>
    obtain ⟨n, vt⟩ := f
    have hsplit : vtFree vt = true ∧ tfreeV r = true := by
      cases vt <;> rw [tfreeV] at h <;> simp_all [vtFree]
    rcases List.mem_cons.mp hm with rfl | hm'
    · exact hsplit.1
    · exact ih hsplit.2 hm'

/-- refinement for all nodes below depth `d`, at every type the deficit flag admits -/
def SubRef (df : Bool) (cfg : Cfg) (d : Nat) : Prop :=
  ∀ (t' : ENode) (ty : Ty), depthOf t' < d → kfree t' = true → (df = false → tfree ty = true) → Ref df cfg ty t'

theorem SubRef.mono {df : Bool} {cfg : Cfg} {d d' : Nat} (h : SubRef df cfg d) (hd : d' ≤ d) : SubRef df cfg d' :=
  fun t' ty h1 h2 h3 => h t' ty (by omega) h2 h3

/-! ### the payload of the selected variant -/

theorem peek_at_end (evs : List Ev) (r : Option Loc) : Cur.peek (.replay evs evs.length r) = .ok none (.replay evs evs.length r) := by
  simp [Cur.peek]

theorem peek_inside (evs : List Ev) (r : Option Loc) {j : Nat} (h : j < evs.length) :
    ∃ ev, Cur.peek (.replay evs j r) = .ok (some ev) (.replay evs j r) :=
  ⟨evs[j], by simp [Cur.peek, List.getElem?_eq_getElem h]⟩

/-- scalar form `Variant`: no payload node -/
theorem variantPayload_absent (cfg : Cfg) (variants : List (String × VTy)) (vname : List Char) (vloc : Loc) (c : Cur) :
    ∃ n, ∀ fuel, n ≤ fuel →
      Expect (variantPayload fuel cfg variants vname vloc false false c)
        (variantFrom cfg (variantFns cfg variants) vname none false) c := by
  have hlv := lookup_variant' cfg vname variants
  cases hl : lookupField variants vname with
  | none =>
    simp only [hl] at hlv
    refine ⟨0, fun fuel _ => ?_⟩
    rw [hlv.2]
    cases fuel with
    | zero => rw [variantPayload]; simp
    | succ fuel => rw [variantPayload]; simp [hl]
  | some q =>
    obtain ⟨idx, vt⟩ := q
    simp only [hl] at hlv
    rw [hlv.2.2]
    cases vt with
    | unit =>
      refine ⟨1, fun fuel hf => ?_⟩
      obtain ⟨fuel, rfl⟩ : ∃ f, fuel = f + 1 := ⟨fuel - 1, by omega⟩
      rw [variantPayload]; simp [hl, variantSel]
    | newtype t =>
      obtain ⟨n, hn⟩ := deser_absent cfg t
      refine ⟨n + 1, fun fuel hf => ?_⟩
      obtain ⟨fuel, rfl⟩ : ∃ f, fuel = f + 1 := ⟨fuel - 1, by omega⟩
      have := hn fuel (by omega)
      rw [variantPayload]
      simp only [hl, variantSel]
      cases ha : interpAbsent t with
      | none =>
        simp only [ha, expect_none] at this
        obtain ⟨e, c', he⟩ := this
        simp [he]
      | some val =>
        simp only [ha, expect_some] at this
        simp [this]
    | tuple ts =>
      refine ⟨0, fun fuel _ => ?_⟩
      cases fuel with
      | zero => rw [variantPayload]; simp [variantSel]
      | succ fuel =>
        obtain ⟨e, c', he⟩ := deserSeqLike_nil fuel cfg (.inr ts) (buf := []) (i := 0) none rfl
        rw [variantPayload]; simp [hl, variantSel, he]
    | struct fs =>
      refine ⟨0, fun fuel _ => ?_⟩
      cases fuel with
      | zero => rw [variantPayload]; simp [variantSel]
      | succ fuel =>
        obtain ⟨e, c', he⟩ := deserMapLike_nil fuel cfg (.inr (fs, false)) (buf := []) (i := 0) none rfl
        rw [variantPayload]; simp [hl, variantSel, he]

/-- hypotheses on the payload node `p` of the variant named `vname` -/
structure PayloadHyp (df : Bool) (cfg : Cfg) (variants : List (String × VTy)) (vname : List Char) (p : ENode) : Prop where
  kf : kfree p = true
  hdf : df = false → tfreeV variants = true
  hnew : ∀ t, (String.ofList vname, VTy.newtype t) ∈ variants → Ref df cfg t p
  hsub : SubRef df cfg (depthOf p)

theorem PayloadHyp.df_of_tuple {df : Bool} {cfg : Cfg} {variants : List (String × VTy)} {vname : List Char} {p : ENode}
    (H : PayloadHyp df cfg variants vname p) {ts : List Ty} (hm : (String.ofList vname, VTy.tuple ts) ∈ variants) : df = true := by
  cases df with
  | true => rfl
  | false => have := tfreeV_mem (H.hdf rfl) hm; simp [vtFree] at this

theorem PayloadHyp.seqItems {df : Bool} {cfg : Cfg} {variants : List (String × VTy)} {vname : List Char} {p : ENode}
    (H : PayloadHyp df cfg variants vname p) (hd : df = true) :
    ∀ a tag rt l el items, p = .seq a tag rt l el items → ∀ it ∈ items, ∀ ty, Ref true cfg ty it := by
  intro a tag rt l el items hp it hit ty
  subst hp
  have hk := H.kf
  simp only [kfree_seq] at hk
  have := H.hsub it ty (by have := depthOfL_mem hit; simp; omega) (kfreeL_mem hk hit) (by intro h; rw [hd] at h; cases h)
  rw [hd] at this; exact this

theorem PayloadHyp.structV {df : Bool} {cfg : Cfg} {variants : List (String × VTy)} {vname : List Char} {p : ENode}
    (H : PayloadHyp df cfg variants vname p) {fs : List (String × Ty)} (hm : (String.ofList vname, VTy.struct fs) ∈ variants) :
    (∀ e, EntOK (depthOf p) e → ∀ nt ∈ fs, Ref df cfg nt.2 e.2) ∧ (∀ e, EntOK (depthOf p) e → Ref df cfg .any e.2) := by
  refine ⟨fun e he nt hnt => H.hsub e.2 nt.2 he.2.1 he.2.2.2.1 (fun hd => ?_),
    fun e he => H.hsub e.2 .any he.2.1 he.2.2.2.1 (fun _ => tfree_any)⟩
  have := tfreeV_mem (H.hdf hd) hm
  simp only [vtFree] at this
  exact tfreeF_mem this hnt


/-- outcome of a payload read from its own buffer: the value, or an error -/
def TaggedOut (exp : Option Val) (x : R Val) : Prop :=
  match exp with
  | some val => ∃ c', x = .ok val c'
  | none => IsErr x

/-- "payload consumed" after the payload call -/
def consumedEnd (name : String) (x : R Val) : R Val :=
  match x with
  | .err e c => .err e c
  | .ok v c =>
    match c.peek with
    | .err e c => .err e c
    | .ok none c => .ok (Val.variant name v) c
    | .ok (some ev) c => .err ⟨"Unexpected", ev.loc, 0⟩ c

theorem consumedEnd_out {df : Bool} {p : ENode} {name : String} {exp : Option Val} {x : R Val} {ref : Option Loc}
    (hx : NodeOut (eflatten p) ref 0 (eflatten p).length df exp x) :
    TaggedOut (exp.map (Val.variant name)) (consumedEnd name x) := by
  rcases hx.cases with ⟨v, hv, hx⟩ | ⟨hv, e, c, hx⟩ | ⟨hv, hd, v, j, hx, hj1, hj2⟩ <;> simp only [hv, hx, consumedEnd]
  · simp only [Nat.zero_add, peek_at_end, Option.map_some, TaggedOut]
    exact ⟨_, rfl⟩
  · simp [TaggedOut]
  · obtain ⟨ev, hev⟩ := peek_inside (eflatten p) ref (j := j) (by omega)
    simp [hev, TaggedOut]

/-- `!Variant payload`: the payload node replayed from its own buffer must be consumed entirely -/
theorem variantPayload_tagged {df : Bool} {cfg : Cfg} {variants : List (String × VTy)} (tn : List Char) (vloc : Loc) (ref : Option Loc) {p : ENode}
    (H : PayloadHyp df cfg variants tn p) :
    ∃ n, ∀ fuel, n ≤ fuel →
      TaggedOut (variantFrom cfg (variantFns cfg variants) tn (some p) true)
        (variantPayload fuel cfg variants tn vloc false true (.replay (eflatten p) 0 ref)) := by
  have hlv := lookup_variant' cfg tn variants
  have hdrop : (eflatten p).drop 0 = eflatten p ++ [] := by simp
  cases hl : lookupField variants tn with
  | none =>
    simp only [hl] at hlv
    refine ⟨0, fun fuel _ => ?_⟩
    rw [hlv.2]
    cases fuel with
    | zero => rw [variantPayload]; simp [TaggedOut]
    | succ fuel => rw [variantPayload]; simp [hl, TaggedOut]
  | some q =>
    obtain ⟨idx, vt⟩ := q
    simp only [hl] at hlv
    obtain ⟨hmem, -, hvf⟩ := hlv
    rw [hvf]
    cases vt with
    | unit =>
      refine ⟨1, fun fuel hf => ?_⟩
      obtain ⟨fuel, rfl⟩ : ∃ f, fuel = f + 1 := ⟨fuel - 1, by omega⟩
      rw [variantPayload]
      simp only [hl, variantSel, Bool.true_or, if_true, TaggedOut]
      exact ⟨_, rfl⟩
    | newtype t =>
      obtain ⟨n, hn⟩ := H.hnew t hmem (eflatten p) 0 ref [] hdrop
      refine ⟨n + 1, fun fuel hf => ?_⟩
      obtain ⟨fuel, rfl⟩ : ∃ f, fuel = f + 1 := ⟨fuel - 1, by omega⟩
      have hstep : variantPayload (fuel + 1) cfg variants tn vloc false true (.replay (eflatten p) 0 ref) =
          consumedEnd (String.ofList tn) (deser fuel cfg t false false (.replay (eflatten p) 0 ref)) := by
        rw [variantPayload]
        simp only [hl, Cur.peek]
        simp only [Bool.not_false, Bool.not_true, Bool.and_false, Bool.false_eq_true, if_false, if_true]
        rfl
      rw [hstep]
      exact consumedEnd_out (hn fuel (by omega))
    | tuple ts =>
      have hd := H.df_of_tuple hmem
      obtain ⟨n, hn⟩ := seqLike_inr (cfg := cfg) (ts := ts) (H.seqItems hd) ref hdrop
      refine ⟨n + 1, fun fuel hf => ?_⟩
      obtain ⟨fuel, rfl⟩ : ∃ f, fuel = f + 1 := ⟨fuel - 1, by omega⟩
      have hstep : variantPayload (fuel + 1) cfg variants tn vloc false true (.replay (eflatten p) 0 ref) =
          consumedEnd (String.ofList tn) (deserSeqLike fuel cfg (.inr ts) (.replay (eflatten p) 0 ref)) := by
        rw [variantPayload]
        simp only [hl]
        simp only [Bool.not_false, Bool.not_true, Bool.and_false, Bool.false_eq_true, if_false, if_true]
        rfl
      rw [hstep]
      exact consumedEnd_out (hn fuel (by omega))
    | struct fs =>
      obtain ⟨hV, hAny⟩ := H.structV hmem
      obtain ⟨n, hn⟩ := mapLike_inr (deny := false) H.kf hV hAny ref hdrop
      refine ⟨n + 1, fun fuel hf => ?_⟩
      obtain ⟨fuel, rfl⟩ : ∃ f, fuel = f + 1 := ⟨fuel - 1, by omega⟩
      have hstep : variantPayload (fuel + 1) cfg variants tn vloc false true (.replay (eflatten p) 0 ref) =
          consumedEnd (String.ofList tn) (deserMapLike fuel cfg (.inr (fs, false)) (.replay (eflatten p) 0 ref)) := by
        rw [variantPayload]
        simp only [hl]
        simp only [Bool.not_false, Bool.not_true, Bool.and_false, Bool.false_eq_true, if_false, if_true]
        rfl
      rw [hstep]
      exact consumedEnd_out (hn fuel (by omega))

/-! ### `{Variant: payload}` -/

/-- `MapEnd` expected after the payload -/
def mapEndAfter (name : String) (g : DErr → DErr) (x : R Val) : R Val :=
  match x with
  | .err e c => .err (g e) c
  | .ok v c =>
    match c.next with
    | .err e c => .err e c
    | .ok none c => .err (eofErr c) c
    | .ok (some (.mapEnd _)) c => .ok (Val.variant name v) c
    | .ok (some other) c => .err ⟨"ExpectedMappingEndAfterEnumVariantValue", other.loc, 0⟩ c

/-- after a payload read at index `i`: the single entry must be the last one -/
theorem mapEndAfter_out {X : MCtx} {df : Bool} {p : ENode} {more : List (ENode × ENode)} {i : Nat} {el : Loc}
    {rest : List Ev} {name : String} {g : DErr → DErr} {exp : Option Val} {x : R Val}
    (hdrop : X.buf.drop i = eflatten p ++ (eflattenE more ++ .mapEnd el :: rest)) (hi0 : X.i0 < i)
    (hend : X.iEnd = i + (eflatten p).length + (eflattenE more).length + 1)
    (hx : NodeOut X.buf X.ref i (eflatten p).length df exp x) :
    LoopOut X df (if more.isEmpty then exp.map (Val.variant name) else none) (mapEndAfter name g x) := by
  have hafter := drop_add_of_drop hdrop
  rcases hx.cases with ⟨v, hv, hx⟩ | ⟨hv, e, c, hx⟩ | ⟨hv, hd, v, j, hx, hj1, hj2⟩ <;> simp only [hv, hx, mapEndAfter]
  · cases more with
    | nil =>
      simp only [eflattenE_nil, List.nil_append] at hafter
      simp only [eflattenE_nil, List.length_nil, Nat.add_zero] at hend
      simp only [next_cons X.ref hafter, List.isEmpty_nil, if_true, Option.map_some, LoopOut, hend]
    | cons e more' =>
      obtain ⟨k1, v1⟩ := e
      obtain ⟨e0, tl0, hk0, hopen, -⟩ := eflatten_cons k1
      have : X.buf.drop (i + (eflatten p).length) = e0 :: (tl0 ++ (eflatten v1 ++ (eflattenE more' ++ .mapEnd el :: rest))) := by
        rw [hafter]; simp [hk0]
      simp only [next_cons X.ref this, List.isEmpty_cons, Bool.false_eq_true, if_false]
      cases e0 <;> simp [Ev.isOpen] at hopen <;> exact Or.inl (by simp)
  · have : (if more.isEmpty = true then Option.map (Val.variant name) (none : Option Val) else none) = none := by
      split <;> rfl
    rw [this]; exact Or.inl (by simp)
  · have : (if more.isEmpty = true then Option.map (Val.variant name) (none : Option Val) else none) = none := by
      split <;> rfl
    rw [this]
    simp only [Cur.next]
    cases hb : X.buf[j]? with
    | none => exact Or.inl (by simp)
    | some ev =>
      cases ev with
      | mapEnd l => exact Or.inr ⟨hd, _, j + 1, rfl, by omega, by omega⟩
      | scalar => exact Or.inl (by simp)
      | seqStart => exact Or.inl (by simp)
      | seqEnd => exact Or.inl (by simp)
      | mapStart => exact Or.inl (by simp)

/-- `{Variant: payload}`: cursor at the payload `p`; `more` are the entries after it -/
theorem variantPayload_map {df : Bool} {cfg : Cfg} {variants : List (String × VTy)} (X : MCtx) (vname : List Char) (vloc : Loc)
    {p : ENode} {more : List (ENode × ENode)} {i : Nat} {el : Loc} {rest : List Ev}
    (hdrop : X.buf.drop i = eflatten p ++ (eflattenE more ++ .mapEnd el :: rest)) (hi0 : X.i0 < i)
    (hend : X.iEnd = i + (eflatten p).length + (eflattenE more).length + 1)
    (H : PayloadHyp df cfg variants vname p) :
    ∃ n, ∀ fuel, n ≤ fuel →
      LoopOut X df (if more.isEmpty then variantFrom cfg (variantFns cfg variants) vname (some p) false else none)
        (variantPayload fuel cfg variants vname vloc true false (.replay X.buf i X.ref)) := by
  have hlv := lookup_variant' cfg vname variants
  cases hl : lookupField variants vname with
  | none =>
    simp only [hl] at hlv
    refine ⟨0, fun fuel _ => ?_⟩
    rw [hlv.2]
    have : (if more.isEmpty = true then (none : Option Val) else none) = none := by split <;> rfl
    rw [this]
    cases fuel with
    | zero => rw [variantPayload]; exact Or.inl (by simp)
    | succ fuel => rw [variantPayload]; exact Or.inl (by simp [hl])
  | some q =>
    obtain ⟨idx, vt⟩ := q
    simp only [hl] at hlv
    obtain ⟨hmem, -, hvf⟩ := hlv
    rw [hvf]
    cases vt with
    | unit =>
      refine ⟨1, fun fuel hf => ?_⟩
      obtain ⟨fuel, rfl⟩ : ∃ f, fuel = f + 1 := ⟨fuel - 1, by omega⟩
      cases p with
      | scalar sv stag rt st a l =>
        have h' : X.buf.drop i = .scalar sv stag rt st a l :: (eflattenE more ++ .mapEnd el :: rest) := by
          simpa [eflatten] using hdrop
        have hstep : variantPayload (fuel + 1) cfg variants vname vloc true false (.replay X.buf i X.ref) =
            if scalarIsNullish sv st then
              mapEndAfter (String.ofList vname) id (.ok .unit (.replay X.buf (i + 1) X.ref))
            else .err ⟨"UnexpectedValueForUnitEnumVariant", l, 0⟩ (.replay X.buf i X.ref) := by
          rw [variantPayload]
          simp only [hl, peek_cons X.ref h', next_cons X.ref h']
          simp only [Bool.not_true, Bool.false_eq_true, if_false, if_true]
          split <;> rfl
        rw [hstep]
        simp only [variantSel, isNullishNode, Bool.false_or]
        by_cases hn : scalarIsNullish sv st = true
        · simp only [hn, if_true]
          have hx : NodeOut X.buf X.ref i (eflatten (.scalar sv stag rt st a l)).length df (some Val.unit)
              (.ok .unit (.replay X.buf (i + 1) X.ref)) := by simp [NodeOut]
          have := mapEndAfter_out (name := String.ofList vname) (g := id) hdrop hi0 hend hx
          simpa using this
        · simp only [hn, Bool.false_eq_true, if_false]
          have : (if more.isEmpty = true then (none : Option Val) else none) = none := by split <;> rfl
          rw [this]; exact Or.inl (by simp)
      | seq a tag rt l el' items =>
        have h' := drop_seq (rest := eflattenE more ++ .mapEnd el :: rest) hdrop
        rw [variantPayload]
        simp only [hl, peek_cons X.ref h', variantSel, isNullishNode, Bool.false_or]
        have : (if more.isEmpty = true then (none : Option Val) else none) = none := by split <;> rfl
        simp only [Bool.false_eq_true, if_false, this]
        exact Or.inl (by simp)
      | map a l el' es =>
        have h' := drop_map (rest := eflattenE more ++ .mapEnd el :: rest) hdrop
        rw [variantPayload]
        simp only [hl, peek_cons X.ref h', variantSel, isNullishNode, Bool.false_or]
        have : (if more.isEmpty = true then (none : Option Val) else none) = none := by split <;> rfl
        simp only [Bool.false_eq_true, if_false, this]
        exact Or.inl (by simp)
    | newtype t =>
      obtain ⟨n, hn⟩ := H.hnew t hmem X.buf i X.ref _ hdrop
      refine ⟨n + 1, fun fuel hf => ?_⟩
      obtain ⟨fuel, rfl⟩ : ∃ f, fuel = f + 1 := ⟨fuel - 1, by omega⟩
      have hstep : variantPayload (fuel + 1) cfg variants vname vloc true false (.replay X.buf i X.ref) =
          mapEndAfter (String.ofList vname) (fun e => attachAlias e (Cur.replay X.buf i X.ref).refLoc
            (match X.buf[i]? with | some e => e.loc | none => (Cur.replay X.buf i X.ref).lastLoc))
            (deser fuel cfg t false false (.replay X.buf i X.ref)) := by
        rw [variantPayload]
        simp only [hl, Cur.peek]
        simp only [Bool.not_false, Bool.not_true, Bool.false_and, Bool.false_eq_true, if_false]
        rfl
      rw [hstep]
      exact mapEndAfter_out hdrop hi0 hend (hn fuel (by omega))
    | tuple ts =>
      have hd := H.df_of_tuple hmem
      obtain ⟨n, hn⟩ := seqLike_inr (cfg := cfg) (ts := ts) (H.seqItems hd) X.ref hdrop
      refine ⟨n + 1, fun fuel hf => ?_⟩
      obtain ⟨fuel, rfl⟩ : ∃ f, fuel = f + 1 := ⟨fuel - 1, by omega⟩
      have hstep : variantPayload (fuel + 1) cfg variants vname vloc true false (.replay X.buf i X.ref) =
          mapEndAfter (String.ofList vname) id (deserSeqLike fuel cfg (.inr ts) (.replay X.buf i X.ref)) := by
        rw [variantPayload]
        simp only [hl]
        simp only [Bool.not_false, Bool.not_true, Bool.false_and, Bool.false_eq_true, if_false]
        rfl
      rw [hstep]
      exact mapEndAfter_out hdrop hi0 hend ((hn fuel (by omega)).mono (fun _ => hd))
    | struct fs =>
      obtain ⟨hV, hAny⟩ := H.structV hmem
      obtain ⟨n, hn⟩ := mapLike_inr (deny := false) H.kf hV hAny X.ref hdrop
      refine ⟨n + 1, fun fuel hf => ?_⟩
      obtain ⟨fuel, rfl⟩ : ∃ f, fuel = f + 1 := ⟨fuel - 1, by omega⟩
      have hstep : variantPayload (fuel + 1) cfg variants vname vloc true false (.replay X.buf i X.ref) =
          mapEndAfter (String.ofList vname) id (deserMapLike fuel cfg (.inr (fs, false)) (.replay X.buf i X.ref)) := by
        rw [variantPayload]
        simp only [hl]
        simp only [Bool.not_false, Bool.not_true, Bool.false_and, Bool.false_eq_true, if_false]
        rfl
      rw [hstep]
      exact mapEndAfter_out hdrop hi0 hend (hn fuel (by omega))

/-! ### collecting a tagged sequence -/

theorem cts_run (evs : List Ev) : ∀ {buf : List Ev} {i : Nat} (ref : Option Loc) {tl : List Ev} (fuel D : Nat) (acc : List Ev),
    buf.drop i = evs ++ tl → (∀ k, k ≤ evs.length → 1 ≤ (D : Int) + bal (evs.take k)) →
    collectTaggedSeq (fuel + evs.length) (.replay buf i ref) D acc =
      collectTaggedSeq fuel (.replay buf (i + evs.length) ref) (((D : Int) + bal evs).toNat) (acc ++ evs) := by
  induction evs with
  | nil => intro buf i ref tl fuel D acc _ _; simp
  | cons e evs ih =>
    intro buf i ref tl fuel D acc h hD
    have hD0 : 1 ≤ D := by have := hD 0 (by simp); simp at this; omega
    have hne : (D == 0) = false := by simp; omega
    have h' : buf.drop i = e :: (evs ++ tl) := by simpa using h
    have hstep : collectTaggedSeq (fuel + (e :: evs).length) (.replay buf i ref) D acc =
        collectTaggedSeq (fuel + evs.length) (.replay buf (i + 1) ref) (((D : Int) + Ev.delta e).toNat) (acc ++ [e]) := by
      have : fuel + (e :: evs).length = (fuel + evs.length) + 1 := by simp; omega
      rw [this, collectTaggedSeq]
      simp only [hne, Bool.false_eq_true, if_false, next_cons ref h']
      cases e <;> simp [Ev.delta] <;> congr 1 <;> omega
    rw [hstep]
    have hcond : ∀ k, k ≤ evs.length → 1 ≤ ((((D : Int) + Ev.delta e).toNat : Nat) : Int) + bal (evs.take k) := by
      intro k hk
      have := hD (k + 1) (by simp; omega)
      simp only [List.take_succ_cons, bal_cons] at this
      have h1 := hD 1 (by simp)
      simp only [List.take_succ_cons, List.take_zero, bal_cons, bal_nil] at h1
      omega
    rw [ih ref fuel _ (acc ++ [e]) (drop_succ_of_drop h') hcond]
    have h1 := hD 1 (by simp)
    simp only [List.take_succ_cons, List.take_zero, bal_cons, bal_nil] at h1
    have e1 : i + 1 + evs.length = i + (e :: evs).length := by simp; omega
    have e2 : ((((D : Int) + Ev.delta e).toNat : Nat) : Int) + bal evs = (D : Int) + bal (e :: evs) := by
      simp only [bal_cons]; omega
    rw [e1, e2]; simp

/-- the events of a tagged sequence, with the tag removed -/
theorem collectTaggedSeq_spec {buf : List Ev} {i : Nat} (ref : Option Loc) {el : Loc} {rest : List Ev} (items : List ENode)
    (a : Nat) (l : Loc) (h : buf.drop i = eflattenL items ++ .seqEnd el :: rest) (fuel : Nat)
    (hf : (eflattenL items).length + 2 ≤ fuel) :
    collectTaggedSeq fuel (.replay buf i ref) 1 [.seqStart a tagNone none l] =
      .ok (eflatten (.seq a tagNone none l el items)) (.replay buf (i + (eflattenL items).length + 1) ref) := by
  obtain ⟨f, rfl⟩ : ∃ f, fuel = (f + 2) + (eflattenL items).length := ⟨fuel - 2 - (eflattenL items).length, by omega⟩
  rw [cts_run (eflattenL items) ref (f + 2) 1 _ h (fun k _ => by have := (eflattenL_bal items).2 k; omega)]
  have hend := drop_add_of_drop h
  simp only [(eflattenL_bal items).1, Int.add_zero, Int.toNat_natCast]
  rw [collectTaggedSeq]
  simp only [next_cons ref hend]
  rw [collectTaggedSeq]
  simp [eflatten]

/-! ### `deserEnum` at any node -/

theorem loopOut_nodeOut {α : Type} {buf : List Ev} {ref : Option Loc} {i L : Nat} {df : Bool} {exp : Option α} {x : R α}
    (h : LoopOut ⟨buf, ref, i, i + L⟩ df exp x) : NodeOut buf ref i L df exp x := by
  cases exp with
  | some a => exact h
  | none => exact h

theorem enumFrom_map_nil (cfg : Cfg) (name : String) (vs : List (String × VarFn)) (a : Nat) (l el : Loc) :
    enumFrom cfg name vs (.map a l el []) = none := by simp [enumFrom]

theorem enumFrom_map_seqKey (cfg : Cfg) (name : String) (vs : List (String × VarFn)) (a : Nat) (l el : Loc)
    (ka ktag : Nat) (krt : Option (List Char)) (kl kel : Loc) (kitems : List ENode) (p : ENode) (more : List (ENode × ENode)) :
    enumFrom cfg name vs (.map a l el ((.seq ka ktag krt kl kel kitems, p) :: more)) = none := by simp [enumFrom]

theorem enumFrom_map_mapKey (cfg : Cfg) (name : String) (vs : List (String × VarFn)) (a : Nat) (l el : Loc)
    (ka : Nat) (kl kel : Loc) (kes : List (ENode × ENode)) (p : ENode) (more : List (ENode × ENode)) :
    enumFrom cfg name vs (.map a l el ((.map ka kl kel kes, p) :: more)) = none := by simp [enumFrom]

theorem enumFrom_map_scalarKey (cfg : Cfg) (name : String) (vs : List (String × VarFn)) (a : Nat) (l el : Loc)
    (kv : List Char) (ktag : Nat) (krt : Option (List Char)) (kst : Style) (ka : Nat) (kl : Loc) (p : ENode)
    (more : List (ENode × ENode)) :
    enumFrom cfg name vs (.map a l el ((.scalar kv ktag krt kst ka kl, p) :: more)) =
      if more.isEmpty then
        (if (cfg.noSchema && ktag != tagString && maybeNotString kv kst) = true then none
         else variantFrom cfg vs kv (some p) false)
      else none := by
  cases more <;> simp [enumFrom]

theorem enum_node {cfg : Cfg} {df : Bool} {name : String} {variants : List (String × VTy)} {t : ENode} (hk : kfree t = true)
    (hdf : df = false → tfreeV variants = true)
    (hSame : ∀ ty nm, (nm, VTy.newtype ty) ∈ variants → ∀ t', depthOf t' ≤ depthOf t → kfree t' = true → Ref df cfg ty t')
    (hSub : SubRef df cfg (depthOf t))
    {buf : List Ev} {i : Nat} (ref : Option Loc) {rest : List Ev} (h : buf.drop i = eflatten t ++ rest) :
    ∃ n, ∀ fuel, n ≤ fuel →
      NodeOut buf ref i (eflatten t).length df (enumFrom cfg name (variantFns cfg variants) t)
        (deserEnum fuel cfg name variants (.replay buf i ref)) := by
  cases t with
  | scalar v tag rawTag st a l =>
    have h' := drop_scalar h
    -- the tagged payload: the scalar itself as a `!!str` scalar
    have HP : ∀ tn, PayloadHyp df cfg variants tn (.scalar v tagString none st a l) := fun tn =>
      ⟨by rw [kfree], hdf, fun ty hm => hSame ty _ hm _ (by simp) (by rw [kfree]), hSub.mono (by simp)⟩
    obtain ⟨nA, hA⟩ := variantPayload_absent cfg variants v l (.replay buf (i + 1) ref)
    simp only [enumFrom]
    by_cases hq : (cfg.noSchema && tag != tagString && maybeNotString v st) = true
    · refine ⟨1, fun fuel hf => ?_⟩
      obtain ⟨fuel, rfl⟩ : ∃ f, fuel = f + 1 := ⟨fuel - 1, by omega⟩
      rw [deserEnum]
      simp only [peek_cons ref h', next_cons ref h', hq, if_true]
      exact NodeOut.of_err (by simp)
    · simp only [hq, Bool.false_eq_true, if_false]
      cases htg : simpleTaggedEnumName rawTag tag with
      | none =>
        refine ⟨nA + 1, fun fuel hf => ?_⟩
        obtain ⟨fuel, rfl⟩ : ∃ f, fuel = f + 1 := ⟨fuel - 1, by omega⟩
        rw [deserEnum]
        simp only [peek_cons ref h', next_cons ref h', hq, htg, Bool.false_eq_true, if_false]
        exact NodeOut.of_expect (by simpa using hA fuel (by omega))
      | some tn =>
        have hlv := lookup_variant' cfg tn variants
        cases hl : lookupField variants tn with
        | none =>
          simp only [hl] at hlv
          simp only [hlv.1, Bool.false_eq_true, if_false]
          refine ⟨nA + 1, fun fuel hf => ?_⟩
          obtain ⟨fuel, rfl⟩ : ∃ f, fuel = f + 1 := ⟨fuel - 1, by omega⟩
          rw [deserEnum]
          simp only [peek_cons ref h', next_cons ref h', hq, htg, hl, Option.isSome_none, Bool.false_eq_true, if_false]
          by_cases hnm : (String.ofList tn != name) = true
          · simp only [hnm, if_true]
            exact NodeOut.of_err (by simp)
          · simp only [hnm, Bool.false_eq_true, if_false]
            exact NodeOut.of_expect (by simpa using hA fuel (by omega))
        | some q =>
          simp only [hl] at hlv
          simp only [hlv.2.1, if_true]
          obtain ⟨nT, hT⟩ := variantPayload_tagged tn l (tagUseSite (.replay buf i ref) l) (HP tn)
          refine ⟨nT + 1, fun fuel hf => ?_⟩
          obtain ⟨fuel, rfl⟩ : ∃ f, fuel = f + 1 := ⟨fuel - 1, by omega⟩
          have hT' := hT fuel (by omega)
          have e1 : eflatten (.scalar v tagString none st a l) = [.scalar v tagString none st a l] := by simp [eflatten]
          rw [e1] at hT'
          rw [deserEnum]
          simp only [peek_cons ref h', next_cons ref h', hq, htg, hl, Option.isSome_some, Bool.false_eq_true, if_false, if_true]
          cases hexp : variantFrom cfg (variantFns cfg variants) tn (some (.scalar v tagString none st a l)) true with
          | none =>
            simp only [hexp, TaggedOut] at hT'
            obtain ⟨e, c, he⟩ := hT'
            simp only [he]
            exact NodeOut.of_err (by simp)
          | some val =>
            simp only [hexp, TaggedOut] at hT'
            obtain ⟨c', he⟩ := hT'
            simp only [he]
            simp [NodeOut]
  | seq a tag rawTag l el items =>
    have h' := drop_seq h
    have h1 := drop_succ_of_drop h'
    simp only [enumFrom]
    have HP : ∀ tn, PayloadHyp df cfg variants tn (.seq a tagNone none l el items) := fun tn =>
      ⟨by simpa using hk, hdf, fun ty hm => hSame ty _ hm _ (by simp) (by simpa using hk), hSub.mono (by simp)⟩
    cases htg : simpleTaggedEnumName rawTag tag with
    | none =>
      refine ⟨1, fun fuel hf => ?_⟩
      obtain ⟨fuel, rfl⟩ : ∃ f, fuel = f + 1 := ⟨fuel - 1, by omega⟩
      rw [deserEnum]
      simp only [peek_cons ref h', htg]
      exact NodeOut.of_err (by simp)
    | some tn =>
      have hlv := lookup_variant' cfg tn variants
      cases hl : lookupField variants tn with
      | none =>
        simp only [hl] at hlv
        simp only [hlv.1, Bool.false_eq_true, if_false]
        refine ⟨1, fun fuel hf => ?_⟩
        obtain ⟨fuel, rfl⟩ : ∃ f, fuel = f + 1 := ⟨fuel - 1, by omega⟩
        rw [deserEnum]
        simp only [peek_cons ref h', htg, hl, Option.isSome_none, Bool.false_eq_true, if_false]
        exact NodeOut.of_err (by simp)
      | some q =>
        simp only [hl] at hlv
        simp only [hlv.2.1, if_true]
        obtain ⟨nT, hT⟩ := variantPayload_tagged tn l (tagUseSite (.replay buf i ref) l) (HP tn)
        refine ⟨max nT ((eflattenL items).length + 2) + 1, fun fuel hf => ?_⟩
        obtain ⟨fuel, rfl⟩ : ∃ f, fuel = f + 1 := ⟨fuel - 1, by omega⟩
        have hT' := hT fuel (by omega)
        rw [deserEnum]
        simp only [peek_cons ref h', next_cons ref h', htg, hl, Option.isSome_some, if_true,
          collectTaggedSeq_spec ref items a l h1 fuel (by omega)]
        cases hexp : variantFrom cfg (variantFns cfg variants) tn (some (.seq a tagNone none l el items)) true with
        | none =>
          simp only [hexp, TaggedOut] at hT'
          obtain ⟨e, c, he⟩ := hT'
          simp only [he]
          exact NodeOut.of_err (by simp)
        | some val =>
          simp only [hexp, TaggedOut] at hT'
          obtain ⟨c', he⟩ := hT'
          simp only [he]
          simp only [NodeOut, eflatten_seq_length]
          congr 2; omega
  | map a l el entries =>
    have h' := drop_map h
    have h1 := drop_succ_of_drop h'
    cases entries with
    | nil =>
      refine ⟨1, fun fuel hf => ?_⟩
      obtain ⟨fuel, rfl⟩ : ∃ f, fuel = f + 1 := ⟨fuel - 1, by omega⟩
      simp only [eflattenE_nil, List.nil_append] at h1
      rw [deserEnum, enumFrom_map_nil]
      simp only [peek_cons ref h', next_cons ref h', next_cons ref h1]
      exact NodeOut.of_err (by simp)
    | cons e more =>
      obtain ⟨k, p⟩ := e
      simp only [eflattenE_cons, List.append_assoc] at h1
      cases k with
      | seq ka ktag krt kl kel kitems =>
        refine ⟨1, fun fuel hf => ?_⟩
        obtain ⟨fuel, rfl⟩ : ∃ f, fuel = f + 1 := ⟨fuel - 1, by omega⟩
        have h2 := drop_seq (rest := eflatten p ++ (eflattenE more ++ .mapEnd el :: rest)) h1
        rw [deserEnum, enumFrom_map_seqKey]
        simp only [peek_cons ref h', next_cons ref h', next_cons ref h2]
        exact NodeOut.of_err (by simp)
      | map ka kl kel kes =>
        refine ⟨1, fun fuel hf => ?_⟩
        obtain ⟨fuel, rfl⟩ : ∃ f, fuel = f + 1 := ⟨fuel - 1, by omega⟩
        have h2 := drop_map (rest := eflatten p ++ (eflattenE more ++ .mapEnd el :: rest)) h1
        rw [deserEnum, enumFrom_map_mapKey]
        simp only [peek_cons ref h', next_cons ref h', next_cons ref h2]
        exact NodeOut.of_err (by simp)
      | scalar kv ktag krt kst ka kl =>
        have h2 := drop_scalar (rest := eflatten p ++ (eflattenE more ++ .mapEnd el :: rest)) h1
        have h3 := drop_succ_of_drop h2
        have hkfE : kfreeE ((ENode.scalar kv ktag krt kst ka kl, p) :: more) = true := by simpa using hk
        simp only [kfreeE_cons, Bool.and_eq_true] at hkfE
        have hdp : depthOf p < depthOf (.map a l el ((ENode.scalar kv ktag krt kst ka kl, p) :: more)) := by
          simp; omega
        have HP : PayloadHyp df cfg variants kv p :=
          ⟨hkfE.1.2, hdf, fun ty hm => hSame ty _ hm p (by omega) hkfE.1.2, hSub.mono (by omega)⟩
        obtain ⟨nM, hM⟩ := variantPayload_map (cfg := cfg) (variants := variants)
          ⟨buf, ref, i, i + (eflatten (.map a l el ((ENode.scalar kv ktag krt kst ka kl, p) :: more))).length⟩ kv kl
          (i := i + 1 + 1) h3 (by simp; omega) (by simp [eflatten]; omega) HP
        rw [enumFrom_map_scalarKey]
        refine ⟨nM + 1, fun fuel hf => ?_⟩
        obtain ⟨fuel, rfl⟩ : ∃ f, fuel = f + 1 := ⟨fuel - 1, by omega⟩
        rw [deserEnum]
        simp only [peek_cons ref h', next_cons ref h', next_cons ref h2]
        by_cases hq : (cfg.noSchema && ktag != tagString && maybeNotString kv kst) = true
        · simp only [hq, if_true]
          have : (if more.isEmpty = true then (none : Option Val) else none) = none := by split <;> rfl
          rw [this]
          exact NodeOut.of_err (by simp)
        · simp only [hq, Bool.false_eq_true, if_false]
          exact loopOut_nodeOut (hM fuel (by omega))

theorem ref_enum {cfg : Cfg} {df : Bool} {name : String} {variants : List (String × VTy)} {t : ENode} (hk : kfree t = true)
    (hdf : df = false → tfreeV variants = true)
    (hSame : ∀ ty nm, (nm, VTy.newtype ty) ∈ variants → ∀ t', depthOf t' ≤ depthOf t → kfree t' = true → Ref df cfg ty t')
    (hSub : SubRef df cfg (depthOf t)) : Ref df cfg (.enum name variants) t := by
  intro buf i ref rest h
  obtain ⟨n, hn⟩ := enum_node (name := name) hk hdf hSame hSub ref h
  refine ⟨n + 1, fun fuel hf => ?_⟩
  obtain ⟨fuel, rfl⟩ : ∃ f, fuel = f + 1 := ⟨fuel - 1, by omega⟩
  rw [deser, interp]
  exact hn fuel (by omega)

end SaphyrVerif.Lemmas.C05
