import SaphyrVerif.Lemmas.C17Slice
/-!
Helper lemmas for C17, part 3: `crop_line_by_cols` — safety, explicit form, width, caret rebasing.
-/
namespace SaphyrVerif.Lemmas.C17
open SaphyrVerif SaphyrVerif.Snippet

theorem satAdd_le (a b : Nat) : satAdd a b ≤ a + b := by
  unfold satAdd; exact Nat.min_le_left _ _

theorem satAdd_eq (a b : Nat) (h : a + b ≤ usizeMax) : satAdd a b = a + b := by
  unfold satAdd; exact Nat.min_eq_left h

theorem satAdd_ge_left (a b : Nat) (h : a ≤ usizeMax) : a ≤ satAdd a b := by
  unfold satAdd; exact Nat.le_min.mpr ⟨Nat.le_add_right a b, h⟩

theorem satAdd_one_pos (a : Nat) : 1 ≤ satAdd a 1 := by
  unfold satAdd usizeMax; omega

theorem satAdd_le_max (a b : Nat) : satAdd a b ≤ usizeMax := by
  unfold satAdd; exact Nat.min_le_right _ _

theorem satAdd_one_gt (a : Nat) (h : a < usizeMax) : a < satAdd a 1 := by
  unfold satAdd; omega

theorem colToByte_getD_zero (line : List Char) (c : Nat) (h : c ≤ line.length + 1) :
    (colToByte line c).getD 0 = blen (line.take (c - 1)) := by
  rw [colToByte_eq]
  by_cases h1 : 1 ≤ c
  · rw [if_pos ⟨h1, by omega⟩]; rfl
  · have : c = 0 := by omega
    subst this; simp

theorem colToByte_getD_len (line : List Char) (c : Nat) (h1 : 1 ≤ c) (h : c ≤ line.length + 1) :
    (colToByte line c).getD (blen line) = blen (line.take (c - 1)) := by
  rw [colToByte_eq, if_pos ⟨h1, by omega⟩]; rfl

/-- explicit (slice-free) form of `crop_line_by_cols` -/
def cropLinePure (line : List Char) (left right : Nat) : List Char × LineCrop :=
  let n := line.length
  if n = 0 then ([], ⟨0, 0⟩)
  else if left ≥ n + 1 then (line, ⟨0, 0⟩)
  else if left ≤ 1 ∧ right ≥ n then (line, ⟨0, 0⟩)
  else
    let sc := min left (n + 1)
    let ee := min (satAdd right 1) (n + 1)
    let mid := (line.take (ee - 1)).drop (sc - 1)
    let lc := decide (sc > 1)
    let rc := decide (ee ≤ n)
    ((if lc then [ellipsis] else []) ++ mid ++ (if rc then [ellipsis] else []),
     ⟨blen (line.take (sc - 1)), if lc then utf8LenChar ellipsis else 0⟩)

theorem blen_take_pos (line : List Char) (k : Nat) (hk : 0 < k) (hl : line ≠ []) : 0 < blen (line.take k) := by
  apply blen_pos_of_ne_nil
  cases line with
  | nil => exact absurd rfl hl
  | cons c cs =>
    cases k with
    | zero => omega
    | succ k => simp

theorem blen_take_lt (line : List Char) (k : Nat) (hk : k < line.length) : blen (line.take k) < blen line := by
  conv => rhs; rw [← List.take_append_drop k line]
  rw [blen_append]
  have : 0 < blen (line.drop k) := by
    apply blen_pos_of_ne_nil
    intro h
    have := congrArg List.length h
    simp at this
    omega
  omega

/-- (safety) `crop_line_by_cols` never panics when `left ≤ right + 1` (saturating), and equals its
explicit form -/
theorem cropLine_eq (line : List Char) (left right : Nat) (hn : line.length + 1 ≤ usizeMax)
    (hlr : left ≤ satAdd right 1) :
    cropLineByCols line left right = .ok (cropLinePure line left right) := by
  unfold cropLineByCols cropLinePure
  simp only []
  by_cases h0 : line.length = 0
  · rw [if_pos h0, if_pos h0]
  · rw [if_neg h0, if_neg h0, satAdd_eq _ _ hn]
    by_cases h1 : left ≥ line.length + 1
    · rw [if_pos h1, if_pos h1]
    · rw [if_neg h1, if_neg h1]
      by_cases h2 : left ≤ 1 ∧ right ≥ line.length
      · rw [if_pos h2, if_pos h2]
      · rw [if_neg h2, if_neg h2]
        have hne : line ≠ [] := by intro h; apply h0; rw [h]; rfl
        have hsc : min left (line.length + 1) ≤ line.length + 1 := Nat.min_le_right _ _
        have hee : min (satAdd right 1) (line.length + 1) ≤ line.length + 1 := Nat.min_le_right _ _
        have hee1 : 1 ≤ min (satAdd right 1) (line.length + 1) := by
          have := satAdd_one_pos right
          omega
        have hle : min left (line.length + 1) ≤ min (satAdd right 1) (line.length + 1) := by omega
        rw [colToByte_getD_zero line _ hsc, colToByte_getD_len line _ hee1 hee]
        rw [slice_take line _ _ _ (by omega)]
        simp only [res_bind_ok, res_pure]
        -- the two clip flags
        have e1 : (decide (min left (line.length + 1) > 1) &&
            decide (blen (line.take (min left (line.length + 1) - 1)) > 0)) =
            decide (min left (line.length + 1) > 1) := by
          by_cases hh : min left (line.length + 1) > 1
          · have := blen_take_pos line (min left (line.length + 1) - 1) (by omega) hne
            simp [hh, this]
          · simp [hh]
        have e2 : (decide (min (satAdd right 1) (line.length + 1) ≤ line.length) &&
            decide (blen (line.take (min (satAdd right 1) (line.length + 1) - 1)) < blen line)) =
            decide (min (satAdd right 1) (line.length + 1) ≤ line.length) := by
          by_cases hh : min (satAdd right 1) (line.length + 1) ≤ line.length
          · have := blen_take_lt line (min (satAdd right 1) (line.length + 1) - 1) (by omega)
            simp [hh, this]
          · simp [hh]
        rw [e1, e2]

/-- (safety, as a bare statement) -/
theorem cropLine_safe (line : List Char) (left right : Nat) (hn : line.length + 1 ≤ usizeMax)
    (hlr : left ≤ satAdd right 1) : ∃ r, cropLineByCols line left right = .ok r :=
  ⟨_, cropLine_eq line left right hn hlr⟩

/-- the column window the callers use always satisfies the safety precondition -/
theorem caller_window_ok (col r : Nat) (hc : col ≤ usizeMax) :
    max (col - r) 1 ≤ satAdd (satAdd col r) 1 := by
  have h1 := satAdd_ge_left col r hc
  have h2 := satAdd_one_pos (satAdd col r)
  by_cases hm : satAdd col r < usizeMax
  · have := satAdd_one_gt _ hm
    omega
  · have hmx := satAdd_le_max col r
    have : satAdd (satAdd col r) 1 = usizeMax := by
      unfold satAdd at *
      omega
    omega

/-! ### width -/

theorem take_drop_infix (l : List Char) (i j : Nat) : (l.take j).drop i <:+: l :=
  List.IsInfix.trans (List.drop_suffix i _).isInfix (List.take_prefix j l).isInfix

theorem length_take_drop_le (l : List Char) (i j : Nat) : ((l.take j).drop i).length ≤ j - i := by
  rw [List.length_drop, List.length_take]; omega

/-- structure of a cropped line: optional ellipsis, a contiguous piece of the line of at most
`2·radius+1` characters, optional ellipsis — or the whole line when it ends left of the window -/
theorem cropLinePure_width (line : List Char) (col r : Nat) :
    ∃ le mid re, (cropLinePure line (max (col - r) 1) (satAdd col r)).1 = le ++ mid ++ re ∧
      mid <:+: line ∧ (le = [] ∨ le = [ellipsis]) ∧ (re = [] ∨ re = [ellipsis]) ∧
      (mid.length ≤ 2 * r + 1 ∨
        ((cropLinePure line (max (col - r) 1) (satAdd col r)).1 = line ∧ line.length < max (col - r) 1)) := by
  have hsat := satAdd_le col r
  unfold cropLinePure
  simp only []
  by_cases h0 : line.length = 0
  · rw [if_pos h0]
    exact ⟨[], [], [], rfl, List.nil_infix, .inl rfl, .inl rfl, .inl (by simp)⟩
  · rw [if_neg h0]
    by_cases h1 : max (col - r) 1 ≥ line.length + 1
    · rw [if_pos h1]
      exact ⟨[], line, [], by simp, List.infix_refl _, .inl rfl, .inl rfl, .inr ⟨rfl, by omega⟩⟩
    · rw [if_neg h1]
      by_cases h2 : max (col - r) 1 ≤ 1 ∧ satAdd col r ≥ line.length
      · rw [if_pos h2]
        exact ⟨[], line, [], by simp, List.infix_refl _, .inl rfl, .inl rfl, .inl (by omega)⟩
      · rw [if_neg h2]
        refine ⟨_, _, _, rfl, take_drop_infix _ _ _, ?_, ?_, .inl ?_⟩
        · split <;> simp
        · split <;> simp
        · have h3 := length_take_drop_le line (min (max (col - r) 1) (line.length + 1) - 1)
            (min (satAdd (satAdd col r) 1) (line.length + 1) - 1)
          have h4 := satAdd_le (satAdd col r) 1
          omega

/-! ### caret rebasing on one line -/

theorem take_drop_split (l : List Char) (i k j : Nat) (hik : i ≤ k) (hkj : k ≤ j) (hi : i ≤ l.length) :
    (l.take j).drop i = (l.take k).drop i ++ (l.take j).drop k := by
  have e1 : l.take j = l.take k ++ (l.take j).drop k := by
    have : (l.take j).take k = l.take k := by rw [List.take_take]; congr 1; omega
    rw [← this, List.take_append_drop]
  conv => lhs; rw [e1]
  rw [List.drop_append_of_le_length]
  rw [List.length_take]; omega

theorem blen_take_drop (l : List Char) (i k : Nat) (hik : i ≤ k) :
    blen ((l.take k).drop i) = blen (l.take k) - blen (l.take i) := by
  have e1 : l.take k = l.take i ++ (l.take k).drop i := by
    have : (l.take k).take i = l.take i := by rw [List.take_take]; congr 1; omega
    rw [← this, List.take_append_drop]
  have : blen (l.take k) = blen (l.take i) + blen ((l.take k).drop i) := by
    conv => lhs; rw [e1]
    rw [blen_append]
  omega

/-- (caret, one line) After cropping a line around column `col` with radius `r`, the rebased byte
offset `prefix_bytes + (off − start_byte)` (clamped to the rendered length, as `crop_window_text`
does) is a character boundary of the rendered line; what precedes it is an optional ellipsis followed
by a tail of the characters before column `col`, and the character there is the character in column
`col` of the line (nothing, i.e. end of line, when `col = len + 1`). -/
theorem caret_line (line : List Char) (col r : Nat) (hn : line.length + 1 ≤ usizeMax) (hc : col ≤ usizeMax)
    (h1 : 1 ≤ col) (h2 : col ≤ line.length + 1) :
    let res := cropLinePure line (max (col - r) 1) (satAdd col r)
    let off := blen (line.take (col - 1))
    let new := min (res.2.prefixBytes + (off - res.2.startByte)) (blen res.1)
    ∃ le k rest, (le = [] ∨ le = [ellipsis]) ∧
      res.1 = (le ++ (line.take (col - 1)).drop k) ++ rest ∧
      blen (le ++ (line.take (col - 1)).drop k) = new ∧ rest.head? = line[col - 1]? := by
  intro res off new
  have _hn := hn
  have hsat := satAdd_le col r
  have hge := satAdd_ge_left col r hc
  have key_whole : res = (line, ⟨0, 0⟩) →
      ∃ le k rest, (le = [] ∨ le = [ellipsis]) ∧
        res.1 = (le ++ (line.take (col - 1)).drop k) ++ rest ∧
        blen (le ++ (line.take (col - 1)).drop k) = new ∧ rest.head? = line[col - 1]? := by
    intro hres
    refine ⟨[], 0, line.drop (col - 1), .inl rfl, ?_, ?_, ?_⟩
    · rw [hres]; simp
    · show blen ([] ++ (line.take (col - 1)).drop 0) = min (res.2.prefixBytes + (off - res.2.startByte)) (blen res.1)
      rw [hres]
      simp only [Nat.zero_add, Nat.sub_zero, List.nil_append, List.drop_zero]
      have := blen_take_le line (col - 1)
      show blen (line.take (col - 1)) = min off (blen line)
      omega
    · rw [List.head?_drop]
  by_cases h0 : line.length = 0
  · apply key_whole
    show cropLinePure line _ _ = _
    unfold cropLinePure
    simp only []
    rw [if_pos h0]
    have : line = [] := List.eq_nil_of_length_eq_zero h0
    rw [this]
  · by_cases hb1 : max (col - r) 1 ≥ line.length + 1
    · apply key_whole
      show cropLinePure line _ _ = _
      unfold cropLinePure
      simp only []
      rw [if_neg h0, if_pos hb1]
    · by_cases hb2 : max (col - r) 1 ≤ 1 ∧ satAdd col r ≥ line.length
      · apply key_whole
        show cropLinePure line _ _ = _
        unfold cropLinePure
        simp only []
        rw [if_neg h0, if_neg hb1, if_pos hb2]
      · have hres : res = ((if decide (min (max (col - r) 1) (line.length + 1) > 1) then [ellipsis] else []) ++
              (line.take (min (satAdd (satAdd col r) 1) (line.length + 1) - 1)).drop (min (max (col - r) 1) (line.length + 1) - 1) ++
              (if decide (min (satAdd (satAdd col r) 1) (line.length + 1) ≤ line.length) then [ellipsis] else []),
            ⟨blen (line.take (min (max (col - r) 1) (line.length + 1) - 1)),
             if decide (min (max (col - r) 1) (line.length + 1) > 1) then utf8LenChar ellipsis else 0⟩) := by
          show cropLinePure line _ _ = _
          unfold cropLinePure
          simp only []
          rw [if_neg h0, if_neg hb1, if_neg hb2]
        -- abbreviations
        have hge1 := satAdd_ge_left (satAdd col r) 1 (satAdd_le_max col r)
        have hsc_le : min (max (col - r) 1) (line.length + 1) ≤ col := by omega
        have hcol_ee : col ≤ min (satAdd (satAdd col r) 1) (line.length + 1) := by omega
        have hsc_n : min (max (col - r) 1) (line.length + 1) ≤ line.length := by omega
        have hee_n : min (satAdd (satAdd col r) 1) (line.length + 1) ≤ line.length + 1 := by omega
        generalize min (max (col - r) 1) (line.length + 1) = sc at hres hsc_le hsc_n
        have hnot_of : min (satAdd (satAdd col r) 1) (line.length + 1) = col →
            ¬ (min (satAdd (satAdd col r) 1) (line.length + 1) ≤ line.length) := by
          intro hce hle
          have : satAdd (satAdd col r) 1 = col := by omega
          have hmx : satAdd col r = usizeMax ∨ satAdd col r < usizeMax := by
            have := satAdd_le_max col r; omega
          rcases hmx with hmx | hmx
          · omega
          · have := satAdd_one_gt _ hmx; omega
        generalize min (satAdd (satAdd col r) 1) (line.length + 1) = ee at hres hcol_ee hee_n hnot_of
        have hsplit := take_drop_split line (sc - 1) (col - 1) (ee - 1) (by omega) (by omega) (by omega)
        have hlen1 := blen_take_drop line (sc - 1) (col - 1) (by omega)
        have hmono : blen (line.take (sc - 1)) ≤ blen (line.take (col - 1)) := by
          have e1 : line.take (col - 1) = line.take (sc - 1) ++ (line.take (col - 1)).drop (sc - 1) := by
            have : (line.take (col - 1)).take (sc - 1) = line.take (sc - 1) := by
              rw [List.take_take]; congr 1; omega
            rw [← this, List.take_append_drop]
          rw [e1, blen_append]; omega
        refine ⟨(if decide (sc > 1) then [ellipsis] else []), sc - 1,
                (line.take (ee - 1)).drop (col - 1) ++ (if decide (ee ≤ line.length) then [ellipsis] else []), ?_, ?_, ?_, ?_⟩
        · split <;> simp
        · rw [hres]; simp only []; rw [hsplit]; simp only [List.append_assoc]
        · show _ = min (res.2.prefixBytes + (off - res.2.startByte)) (blen res.1)
          rw [hres]; simp only []
          rw [blen_append, hlen1]
          have hpre : blen (if decide (sc > 1) then [ellipsis] else []) =
              (if decide (sc > 1) then utf8LenChar ellipsis else 0) := by
            split <;> simp [blen_cons]
          rw [hpre, hsplit]
          simp only [blen_append]
          show _ = min (_ + (blen (line.take (col - 1)) - _)) _
          omega
        · by_cases hlt : col < ee
          · have : ((line.take (ee - 1)).drop (col - 1)).head? = line[col - 1]? := by
              rw [List.head?_drop, List.getElem?_take]
              rw [if_pos (by omega)]
            rw [List.head?_append, this]
            have hsome : (line[col - 1]?).isSome := by
              rw [List.getElem?_eq_getElem (by omega)]; rfl
            cases hq : line[col - 1]? with
            | none => rw [hq] at hsome; cases hsome
            | some x => rfl
          · have hce : ee = col := by omega
            have hnot := hnot_of hce
            have e1 : (line.take (ee - 1)).drop (col - 1) = [] := by
              rw [hce]; apply List.drop_eq_nil_of_le; rw [List.length_take]; omega
            rw [e1]
            simp only [hnot, decide_false, Bool.false_eq_true, if_false, List.append_nil, List.head?_nil]
            rw [List.getElem?_eq_none (by omega)]

end SaphyrVerif.Lemmas.C17
