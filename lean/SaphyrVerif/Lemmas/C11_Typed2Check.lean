import SaphyrVerif.Lemmas.C11_Typed2Swap
/-!
Typed multi-document theorems (C11), continued — part 6: a document is served (`DocServe`: from EVERY start state,
in front of EVERY rest of the stream) as soon as ONE run — from the canonical start state, in front of a single
end marker — delivers it; and an executable check of that run (`serveCheck`), so that "the pump with the
per-document enforcer accepts this document" can be established by evaluation.
-/
namespace SaphyrVerif.Lemmas.C11B
open SaphyrVerif SaphyrVerif.Scalars SaphyrVerif.Pump SaphyrVerif.De SaphyrVerif.Spec SaphyrVerif.Budget
open SaphyrVerif.Lemmas.C02 (Exhausted)
open SaphyrVerif.Lemmas.C11 (Doc)
open SaphyrVerif.Lemmas.C11T (RunP DocOk nextImpl_fixed nextImpl_suffix suffix_split)

/-- along a run that ends in `AtEndB` the pump is in multi-document mode -/
theorem runP_sade {L : AliasLimits} {ob : Option Limits} {R : List RawItem} {q : Pump} {inp : List RawItem}
    {es : List Ev} (h : RunP (AtEndB L ob R) q inp es) : q.stopAtDocEnd = false := by
  induction h with
  | done hk => exact hk.2.2.2.1.sade
  | @ev p inp e p' inp' es hn _ ih =>
    have := (nextImpl_fixed p inp).2.2
    rw [hn] at this
    rw [← this]
    exact ih

/-- the rest of the stream behind the document does not matter -/
theorem runP_swap {L : AliasLimits} {ob : Option Limits} {R R' : List RawItem} (hR : R ≠ []) :
    ∀ {q : Pump} {A : List RawItem} {es : List Ev}, RunP (AtEndB L ob R) q (A ++ R) es →
      RunP (AtEndB L ob R') q (A ++ R') es := by
  intro q A es h
  generalize hinp : A ++ R = inp at h
  induction h generalizing A with
  | @done p inp hk =>
    obtain ⟨hin, h2, h3, h4, h5⟩ := hk
    rw [hin] at hinp
    have hA : A = [] := by
      have := congrArg List.length hinp
      simp only [List.length_append] at this
      exact List.eq_nil_of_length_eq_zero (by omega)
    subst hA
    exact RunP.done ⟨rfl, h2, h3, h4, h5⟩
  | @ev p inp e p' inp' es hn hr ih =>
    subst hinp
    have hs := runP_sade (RunP.ev hn hr)
    have hsuf1 := nextImpl_suffix p (A ++ R)
    rw [hn] at hsuf1
    have hsuf2 : R <:+ inp' := hr.suffix (fun p inp hk => hk.1)
    obtain ⟨A', rfl, -⟩ := suffix_split hsuf1 hsuf2
    exact RunP.ev (nextImpl_swap R R' hR A p _ p' A' hs hn) (ih rfl)

theorem atEndB_syn {L : AliasLimits} {ob : Option Limits} {R : List RawItem} {p : Pump} {inp : List RawItem}
    (h : AtEndB L ob R p inp) (b : Bool) : AtEndB L ob R { p with synthesizedNull := b } inp := by
  obtain ⟨h1, h2, h3, h4, h5⟩ := h
  exact ⟨h1, h2, h3, ⟨h4.bud, h4.rip, h4.lim, h4.sade⟩, h5⟩

theorem withFlags_eq_syn {p : Pump} (hp : p.producedAny = true) (b : Bool) :
    withFlags p true b = { p with synthesizedNull := b } := by
  cases p
  simp_all [withFlags]

/-- the flags of the start state do not matter -/
theorem runP_flags {L : AliasLimits} {ob : Option Limits} {R : List RawItem} (hR : R ≠ []) :
    ∀ {q : Pump} {inp : List RawItem} {es : List Ev}, RunP (AtEndB L ob R) q inp es →
      ∀ (a b : Bool), (es = [] → a = true) → RunP (AtEndB L ob R) (withFlags q a b) inp es := by
  intro q inp es h
  induction h with
  | @done p inp hk =>
    intro a b ha
    have := ha rfl
    subst this
    rw [withFlags_eq_syn hk.2.2.1]
    exact RunP.done (atEndB_syn hk b)
  | @ev p inp e p' inp' es hn hr ih =>
    intro a b _
    have hs := runP_sade (RunP.ev hn hr)
    have hsuf1 := nextImpl_suffix p inp
    rw [hn] at hsuf1
    have hsuf2 : R <:+ inp' := hr.suffix (fun p inp hk => hk.1)
    obtain ⟨A, rfl⟩ : ∃ A, inp = A ++ R := by
      obtain ⟨P, hP⟩ := hsuf2.trans hsuf1
      exact ⟨P, hP.symm⟩
    obtain ⟨A', rfl, -⟩ := suffix_split hsuf1 hsuf2
    have hfl := nextImpl_flags a b R hR A p _ p' A' hs hn
    have hpa := nextImpl_event_produced hn
    simp only [adjFlags] at hfl
    rw [← withFlags_eq_syn hpa b] at hfl
    exact RunP.ev hfl (ih true b (fun _ => rfl))

/-- the canonical start state of a document -/
def canonStart (L : AliasLimits) (ob : Option Limits) (ls : Loc) : Pump :=
  { limits := L, lastLoc := ls, budget := freshBud ob }

theorem start_eq_canon {L : AliasLimits} {ob : Option Limits} {ls : Loc} {q : Pump} (h : StartB L ob ls q) :
    q = withFlags (canonStart L ob ls) q.producedAny q.synthesizedNull := by
  obtain ⟨h1, h2, h3, h4, h5, h6, h7, h8, h9, h10, h11, h12⟩ := h
  cases q
  simp_all [withFlags, canonStart]

/-- ONE run, from the canonical start state in front of a single marker, serves the document -/
theorem docServe_of_canon {L : AliasLimits} {ob : Option Limits} {d : Doc} {evs : List Ev} (hok : DocOk L d.1 evs)
    (l : Loc)
    (h : RunP (AtEndB L ob [.ev .docEnd l]) (canonStart L ob d.2.2.1) (itemsOf d.1 ++ [.ev .docEnd l]) evs) :
    DocServe L ob d evs := by
  refine ⟨hok, fun q1 R hq1 => ?_⟩
  have hne : evs ≠ [] := by
    have := hok.ne
    intro h0
    rw [h0] at this
    simp at this
  rw [start_eq_canon hq1]
  have h1 := runP_flags (by simp) h q1.producedAny q1.synthesizedNull (fun h0 => absurd h0 hne)
  exact runP_swap (by simp) h1

/-! ### an executable check -/

/-- run the pump until the input is `R` (at most `fuel` events, each delivered without error) -/
def runTo (R : List RawItem) : Nat → Pump → List RawItem → Option (List Ev × Pump)
  | 0, p, inp => if inp = R then some ([], p) else none
  | fuel + 1, p, inp =>
    if inp = R then some ([], p) else
    match nextImpl p inp with
    | (.event e, p', inp') => (runTo R fuel p' inp').map fun r => (e :: r.1, r.2)
    | _ => none

theorem runTo_sound (R : List RawItem) : ∀ (fuel : Nat) (p : Pump) (inp : List RawItem) (es : List Ev) (pf : Pump),
    runTo R fuel p inp = some (es, pf) → RunP (fun p' inp' => p' = pf ∧ inp' = R) p inp es := by
  intro fuel
  induction fuel with
  | zero =>
    intro p inp es pf h
    simp only [runTo] at h
    split at h
    · rename_i hin
      cases h
      exact RunP.done ⟨rfl, hin⟩
    · cases h
  | succ n ih =>
    intro p inp es pf h
    simp only [runTo] at h
    split at h
    · rename_i hin
      cases h
      exact RunP.done ⟨rfl, hin⟩
    · split at h
      · rename_i e p' inp' hn
        cases hr : runTo R n p' inp' with
        | none => rw [hr] at h; cases h
        | some r =>
          obtain ⟨es', pf'⟩ := r
          rw [hr] at h
          simp only [Option.map_some, Option.some.injEq, Prod.mk.injEq] at h
          obtain ⟨rfl, rfl⟩ := h
          exact RunP.ev hn (ih p' inp' es' pf' hr)
      · cases h

theorem RunP.mono {K K' : Pump → List RawItem → Prop} (hK : ∀ p inp, K p inp → K' p inp) {p : Pump}
    {inp : List RawItem} {es : List Ev} (h : RunP K p inp es) : RunP K' p inp es := by
  induction h with
  | done hk => exact RunP.done (hK _ _ hk)
  | ev hn _ ih => exact RunP.ev hn ih

/-- no replay is pending -/
def exhaustedB (p : Pump) : Bool :=
  p.inject.all fun fr =>
    match lookupAnchor p.anchors fr.anchorId with
    | some buf => decide (buf.length ≤ fr.idx)
    | none => false

theorem exhaustedB_sound {p : Pump} (h : exhaustedB p = true) : ∀ fr ∈ p.inject, Exhausted p.anchors fr := by
  intro fr hfr
  simp only [exhaustedB, List.all_eq_true] at h
  have := h fr hfr
  split at this
  · rename_i buf hl
    exact ⟨buf, hl, by simpa using this⟩
  · cases this

def budStatB : Option Limits → Option Enf → Bool
  | none, none => true
  | some lim, some E =>
    decide (E.lim = lim) && E.perDocument && decide (E.report.documents = 0) && decide (1 ≤ lim.maxEvents)
  | _, _ => false

theorem budStatB_sound {ob : Option Limits} {b : Option Enf} (h : budStatB ob b = true) : BudStat ob b := by
  cases ob <;> cases b <;> simp only [budStatB, Bool.and_eq_true, decide_eq_true_eq] at h
  · trivial
  · cases h
  · cases h
  · exact ⟨h.1.1.1, h.1.1.2, h.1.2, h.2⟩

def trailOkB : Option Enf → Bool
  | none => true
  | some E => decide (E.report.events + 1 ≤ E.lim.maxEvents) && E.ratioBreach.isNone

theorem trailOkB_sound {b : Option Enf} (h : trailOkB b = true) : TrailOk b := by
  intro E hE
  subst hE
  simp only [trailOkB, Bool.and_eq_true, decide_eq_true_eq, Option.isNone_iff_eq_none] at h
  exact h

/-- the end state of a served document -/
def atEndCheck (L : AliasLimits) (ob : Option Limits) (p : Pump) : Bool :=
  exhaustedB p && p.producedAny && budStatB ob p.budget && p.recursiveInProgress.isEmpty && decide (p.limits = L) &&
    !p.stopAtDocEnd && trailOkB p.budget

/-- the pump with the optional per-document enforcer `ob`, from the canonical start state, delivers exactly the
events `evs` of the document, can pass its `DocumentEnd` marker, and its ratio check is silent -/
def serveCheck (L : AliasLimits) (ob : Option Limits) (d : Doc) (evs : List Ev) : Bool :=
  match runTo [.ev .docEnd 0] evs.length (canonStart L ob d.2.2.1) (itemsOf d.1 ++ [.ev .docEnd 0]) with
  | some (es, p) => decide (es = evs) && atEndCheck L ob p
  | none => false

/-- (bridge) a good document that passes the executable check is served -/
theorem docServe_of_check {L : AliasLimits} {ob : Option Limits} {d : Doc} {evs : List Ev} (hok : DocOk L d.1 evs)
    (h : serveCheck L ob d evs = true) : DocServe L ob d evs := by
  apply docServe_of_canon hok 0
  unfold serveCheck at h
  split at h
  · rename_i es p hr
    simp only [Bool.and_eq_true, decide_eq_true_eq, atEndCheck, Bool.not_eq_true', List.isEmpty_iff] at h
    obtain ⟨rfl, ⟨⟨⟨⟨⟨h1, h2⟩, h3⟩, h4⟩, h5⟩, h6⟩, h7⟩ := h
    refine RunP.mono ?_ (runTo_sound _ _ _ _ _ _ hr)
    rintro p' inp' ⟨rfl, rfl⟩
    exact ⟨rfl, exhaustedB_sound h1, h2, ⟨budStatB_sound h3, h4, h5, h6⟩, trailOkB_sound h7⟩
  · cases h

end SaphyrVerif.Lemmas.C11B
