import SaphyrVerif.Lemmas.C11_TypedLoop
/-!
Typed multi-document theorems (C11), part 10: the batch loop over a whole stream of good documents.
-/
namespace SaphyrVerif.Lemmas.C11T
open SaphyrVerif SaphyrVerif.Scalars SaphyrVerif.Pump SaphyrVerif.De SaphyrVerif.Spec SaphyrVerif.Entry
open SaphyrVerif.Lemmas.C02 (Steps Good Post noFoldedIndent)
open SaphyrVerif.Lemmas.C11 (Boundary atDocStart atDocEnd Doc docsItems)
open SaphyrVerif.Lemmas.Frame (Ctx FSim RF pos dep)

/-- every document of `ds` is good, with delivered events `evss` (in order) -/
def DocsOk (L : AliasLimits) : List Doc → List (List Ev) → Prop
  | [], [] => True
  | d :: ds, evs :: evss => DocOk L d.1 evs ∧ DocsOk L ds evss
  | _, _ => False

/-- the values of the documents that are neither skipped nor rejected, in order -/
def docVals (cfg : Cfg) (ty : Ty) : List (List Ev) → List Val
  | [] => []
  | evs :: rest =>
    match perDoc cfg ty evs with
    | .clean v => v :: docVals cfg ty rest
    | _ => docVals cfg ty rest

/-- the document is skipped or read completely -/
def DocRes.fine : DocRes → Bool
  | .skipped | .clean _ => true
  | _ => false

theorem docsItems_cons (t : LNode) (ex : Bool) (ls le : Loc) (ds : List Doc) (Y : List RawItem) :
    docsItems ((t, ex, ls, le) :: ds) ++ Y =
      .ev (.docStart ex) ls :: (itemsOf t ++ .ev .docEnd le :: (docsItems ds ++ Y)) := by
  simp [docsItems]

/-- the end of the stream, at a document boundary after at least one event: the loop returns its accumulator -/
theorem multi_end {L : AliasLimits} {q : Pump} (hq : Boundary L q) (hl : q.look = none) (hp : q.producedAny = true)
    (l1 : Loc) (cfg : Cfg) (ty : Ty) (m : Nat) (acc : List Val) :
    multiLoop cfg ty (m + 1) (.live q [.ev .streamEnd l1]) acc = .ok acc := by
  obtain ⟨p', inp2, hn⟩ := Lemmas.C11.step_streamEnd hq hp l1
  have hb : p'.budget = none := by
    have := nextImpl_budget q [.ev .streamEnd l1] hq.bud
    rw [hn] at this
    exact this
  simp [multiLoop, Cur.peek, Pump.peek, hl, hn, finishCur, Pump.finish, hb]

theorem multi_docs_ok {L : AliasLimits} (l1 : Loc) (cfg : Cfg) (ty : Ty) :
    ∀ (ds : List Doc) (evss : List (List Ev)) (q : Pump) (fuel : Nat) (acc : List Val),
      DocsOk L ds evss → Boundary L q → q.look = none → (ds = [] → q.producedAny = true) →
      (∀ evs ∈ evss, (perDoc cfg ty evs).fine = true) → ds.length + 1 ≤ fuel →
      multiLoop cfg ty fuel (.live q (docsItems ds ++ [.ev .streamEnd l1])) acc = .ok (acc ++ docVals cfg ty evss) := by
  intro ds
  induction ds with
  | nil =>
    intro evss q fuel acc hds hq hl hp _ hf
    cases evss with
    | cons _ _ => exact hds.elim
    | nil =>
      obtain ⟨m, rfl⟩ : ∃ m, fuel = m + 1 := ⟨fuel - 1, by simp at hf; omega⟩
      simpa [docsItems, docVals] using multi_end hq hl (hp rfl) l1 cfg ty m acc
  | cons d ds ih =>
    intro evss q fuel acc hds hq hl _ hfine hf
    obtain ⟨t, ex, ls, le⟩ := d
    cases evss with
    | nil => exact hds.elim
    | cons evs evss' =>
      obtain ⟨hd, hrest⟩ := hds
      obtain ⟨m, rfl⟩ : ∃ m, fuel = m + 1 := ⟨fuel - 1, by simp at hf; omega⟩
      have hfd := hfine evs (List.mem_cons_self ..)
      have hdoc := multi_doc hd hq hl ex ls le (docsItems ds ++ [.ev .streamEnd l1]) cfg ty
      rw [docsItems_cons]
      have hm : ds.length + 1 ≤ m := by simp at hf; omega
      cases hres : perDoc cfg ty evs with
      | skipped =>
        rw [hres] at hdoc
        obtain ⟨q2, hb2, hl2, hp2, heq⟩ := hdoc
        rw [heq, ih evss' q2 m acc hrest hb2 hl2 (fun _ => hp2)
          (fun e he => hfine e (List.mem_cons_of_mem _ he)) hm]
        simp [docVals, hres]
      | clean v =>
        rw [hres] at hdoc
        obtain ⟨q2, hb2, hl2, hp2, heq⟩ := hdoc
        rw [heq, ih evss' q2 m (acc ++ [v]) hrest hb2 hl2 (fun _ => hp2)
          (fun e he => hfine e (List.mem_cons_of_mem _ he)) hm]
        simp [docVals, hres]
      | failed => rw [hres] at hfd; cases hfd
      | leftover v => rw [hres] at hfd; cases hfd

theorem multi_docs_err {L : AliasLimits} (l1 : Loc) (cfg : Cfg) (ty : Ty) :
    ∀ (ds : List Doc) (evss : List (List Ev)) (q : Pump) (fuel : Nat) (acc : List Val),
      DocsOk L ds evss → Boundary L q → q.look = none →
      (∃ evs ∈ evss, (perDoc cfg ty evs).fine = false) →
      ∃ e, multiLoop cfg ty fuel (.live q (docsItems ds ++ [.ev .streamEnd l1])) acc = .error e := by
  intro ds
  induction ds with
  | nil =>
    intro evss q fuel acc hds _ _ hbad
    cases evss with
    | cons _ _ => exact hds.elim
    | nil =>
      obtain ⟨evs, he, -⟩ := hbad
      cases he
  | cons d ds ih =>
    intro evss q fuel acc hds hq hl hbad
    obtain ⟨t, ex, ls, le⟩ := d
    cases evss with
    | nil => exact hds.elim
    | cons evs evss' =>
      obtain ⟨hd, hrest⟩ := hds
      have hdoc := multi_doc hd hq hl ex ls le (docsItems ds ++ [.ev .streamEnd l1]) cfg ty
      rw [docsItems_cons]
      cases fuel with
      | zero => exact ⟨_, rfl⟩
      | succ m =>
        have hlater : (perDoc cfg ty evs).fine = true → ∃ evs' ∈ evss', (perDoc cfg ty evs').fine = false := by
          intro hf
          obtain ⟨e, he, hb⟩ := hbad
          rcases List.mem_cons.mp he with rfl | he
          · rw [hf] at hb; cases hb
          · exact ⟨e, he, hb⟩
        cases hres : perDoc cfg ty evs with
        | skipped =>
          rw [hres] at hdoc
          obtain ⟨q2, hb2, hl2, hp2, heq⟩ := hdoc
          rw [heq]
          exact ih evss' q2 m acc hrest hb2 hl2 (hlater (by rw [hres]; rfl))
        | clean v =>
          rw [hres] at hdoc
          obtain ⟨q2, hb2, hl2, hp2, heq⟩ := hdoc
          rw [heq]
          exact ih evss' q2 m _ hrest hb2 hl2 (hlater (by rw [hres]; rfl))
        | failed => rw [hres] at hdoc; exact hdoc _ _
        | leftover v => rw [hres] at hdoc; exact hdoc _ _


/-- the batch loop over a PREFIX of good documents followed by anything that makes it fail: it fails -/
theorem multi_docs_prefix_err {L : AliasLimits} (cfg : Cfg) (ty : Ty) (Y : List RawItem)
    (hY : ∀ (q2 : Pump) (fuel : Nat) (acc : List Val), Boundary L q2 → q2.look = none →
      ∃ e, multiLoop cfg ty fuel (.live q2 Y) acc = .error e) :
    ∀ (ds : List Doc) (evss : List (List Ev)) (q : Pump) (fuel : Nat) (acc : List Val),
      DocsOk L ds evss → Boundary L q → q.look = none →
      ∃ e, multiLoop cfg ty fuel (.live q (docsItems ds ++ Y)) acc = .error e := by
  intro ds
  induction ds with
  | nil =>
    intro evss q fuel acc _ hq hl
    simpa [docsItems] using hY q fuel acc hq hl
  | cons d ds ih =>
    intro evss q fuel acc hds hq hl
    obtain ⟨t, ex, ls, le⟩ := d
    cases evss with
    | nil => exact hds.elim
    | cons evs evss' =>
      obtain ⟨hd, hrest⟩ := hds
      have hdoc := multi_doc hd hq hl ex ls le (docsItems ds ++ Y) cfg ty
      rw [docsItems_cons]
      cases fuel with
      | zero => exact ⟨_, rfl⟩
      | succ m =>
        cases hres : perDoc cfg ty evs with
        | skipped =>
          rw [hres] at hdoc
          obtain ⟨q2, hb2, hl2, hp2, heq⟩ := hdoc
          rw [heq]
          exact ih evss' q2 m acc hrest hb2 hl2
        | clean v =>
          rw [hres] at hdoc
          obtain ⟨q2, hb2, hl2, hp2, heq⟩ := hdoc
          rw [heq]
          exact ih evss' q2 m _ hrest hb2 hl2
        | failed => rw [hres] at hdoc; exact hdoc _ _
        | leftover v => rw [hres] at hdoc; exact hdoc _ _

end SaphyrVerif.Lemmas.C11T
