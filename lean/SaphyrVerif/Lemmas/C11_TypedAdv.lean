import SaphyrVerif.Model.Entry
import SaphyrVerif.Lemmas.C11_DeserFam
/-!
Typed multi-document theorems (C11), part 12: every function of the typed deserializer, when it succeeds,
returns a cursor that is reached from the cursor it was given by successful `peek` / `next` calls only
(`Adv`): a successful run never steps over an error of the event source.  Same automation as
`Lemmas/C11_DeserLe.lean` / `C11_DeserFam.lean`.
-/
namespace SaphyrVerif.Lemmas.C11T
open SaphyrVerif SaphyrVerif.Scalars SaphyrVerif.Pump SaphyrVerif.De

/-- `c'` is reached from `c` by successful cursor operations -/
inductive Adv : Cur → Cur → Prop
  | refl (c : Cur) : Adv c c
  | peek {c c1 c' : Cur} {o : Option Ev} : c.peek = .ok o c1 → Adv c1 c' → Adv c c'
  | next {c c1 c' : Cur} {o : Option Ev} : c.next = .ok o c1 → Adv c1 c' → Adv c c'

theorem Adv.trans {a b c : Cur} (h1 : Adv a b) (h2 : Adv b c) : Adv a c := by
  induction h1 with
  | refl => exact h2
  | peek h _ ih => exact Adv.peek h (ih h2)
  | next h _ ih => exact Adv.next h (ih h2)

/-- on success the returned cursor is reached from `c` by successful cursor operations -/
def RAdv {α : Type} (c : Cur) (r : R α) : Prop :=
  match r with
  | .ok _ c' => Adv c c'
  | .err _ _ => True

@[grind =] theorem RAdv_ok {α : Type} (c c' : Cur) (a : α) : RAdv c (R.ok a c') = Adv c c' := rfl
@[grind =] theorem RAdv_err {α : Type} (c c' : Cur) (e : DErr) : RAdv c (R.err e c' : R α) = True := rfl
theorem radv_peek (c : Cur) : RAdv c c.peek := by
  cases h : c.peek with
  | ok o c1 => exact Adv.peek h (Adv.refl _)
  | err e c1 => trivial
theorem radv_next (c : Cur) : RAdv c c.next := by
  cases h : c.next with
  | ok o c1 => exact Adv.next h (Adv.refl _)
  | err e c1 => trivial
/-- marks the cursor all facts are to be related to (keeps the transitivity instances linear) -/
def Root (_c : Cur) : Prop := True
theorem RAdv.of_adv {α : Type} {a b : Cur} {r : R α} (_h0 : Root a) (h1 : Adv a b) (h2 : RAdv b r) : RAdv a r := by
  cases r with
  | ok v c => exact h1.trans h2
  | err e c => trivial
theorem Adv.trans_root {a b c : Cur} (_h0 : Root a) (h1 : Adv a b) (h2 : Adv b c) : Adv a c := h1.trans h2
grind_pattern radv_peek => c.peek
grind_pattern radv_next => c.next
grind_pattern Adv.trans_root => Root a, Adv a b, Adv b c
grind_pattern RAdv.of_adv => Root a, Adv a b, RAdv b r
attribute [grind .] Adv.refl

theorem radv_deserScalarTyped (cfg : Cfg) (ty : Ty) (c : Cur) : RAdv c (deserScalarTyped cfg ty c) := by
  simp only [deserScalarTyped]
  have hroot : Root c := trivial
  grind
grind_pattern radv_deserScalarTyped => deserScalarTyped cfg ty c

theorem radv_takeStringScalar (cfg : Cfg) (c : Cur) : RAdv c (takeStringScalar cfg c) := by
  simp only [takeStringScalar]
  have hroot : Root c := trivial
  grind
grind_pattern radv_takeStringScalar => takeStringScalar cfg c

theorem radv_deserString (cfg : Cfg) (c : Cur) : RAdv c (deserString cfg c) := by
  simp only [deserString]
  have hroot : Root c := trivial
  grind
grind_pattern radv_deserString => deserString cfg c

theorem radv_deserStr (cfg : Cfg) (c : Cur) : RAdv c (deserStr cfg c) := by
  simp only [deserStr]
  have hroot : Root c := trivial
  grind
grind_pattern radv_deserStr => deserStr cfg c

theorem radv_deserAnyScalar (cfg : Cfg) (c : Cur) (v : List Char) (tag : Nat) (st : Style) (l : Loc) :
    RAdv c (deserAnyScalar cfg c v tag st l) := by
  simp only [deserAnyScalar]
  have hroot : Root c := trivial
  grind (splits := 40) (gen := 40) (ematch := 40)
grind_pattern radv_deserAnyScalar => deserAnyScalar cfg c v tag st l

theorem radv_byteSeqVisit (shape : Ty ⊕ List Ty) (data : List Nat) (c : Cur) : RAdv c (byteSeqVisit shape data c) := by
  simp only [byteSeqVisit]
  have hroot : Root c := trivial
  grind
grind_pattern radv_byteSeqVisit => byteSeqVisit shape data c

theorem radv_structFinish (fields : List (String × Ty)) (got : List (String × Val)) (c : Cur) :
    RAdv c (structFinish fields got c) := by
  simp only [structFinish]
  have hroot : Root c := trivial
  grind
grind_pattern radv_structFinish => structFinish fields got c

/-- all functions of the mutual block, at fuel `n` -/
structure AllAdv (n : Nat) : Prop where
  capture : ∀ c, RAdv c (capture n c)
  captureSeq : ∀ c fps evs, RAdv c (captureSeq n c fps evs)
  captureMap : ∀ c fps evs, RAdv c (captureMap n c fps evs)
  mergeSeqBatches : ∀ c bs, RAdv c (mergeSeqBatches n c bs)
  pendingFromLive : ∀ c l, RAdv c (pendingFromLive n c l)
  collectEntriesFromMap : ∀ c l, RAdv c (collectEntriesFromMap n c l)
  collectLoop : ∀ c l fs ms, RAdv c (collectLoop n c l fs ms)
  skipOneNode : ∀ c, RAdv c (skipOneNode n c)
  skipDepth : ∀ c d, RAdv c (skipDepth n c d)
  deser : ∀ cfg ty ik k c, RAdv c (deser n cfg ty ik k c)
  bytesLoop : ∀ cfg c acc, RAdv c (bytesLoop n cfg c acc)
  deserSeqLike : ∀ cfg sh c, RAdv c (deserSeqLike n cfg sh c)
  seqElems : ∀ cfg t c acc, RAdv c (seqElems n cfg t c acc)
  tupleElems : ∀ cfg ts c acc, RAdv c (tupleElems n cfg ts c acc)
  deserMapLike : ∀ cfg sh c, RAdv c (deserMapLike n cfg sh c)
  mapEntries : ∀ cfg kt vt c m acc, RAdv c (mapEntries n cfg kt vt c m acc)
  structEntries : ∀ cfg fields deny c m acc, RAdv c (structEntries n cfg fields deny c m acc)
  nextKey : ∀ cfg ks c m, RAdv c (nextKey n cfg ks c m)
  nextValue : ∀ cfg vt c m, RAdv c (nextValue n cfg vt c m)
  deserEnum : ∀ cfg name vs c, RAdv c (deserEnum n cfg name vs c)
  collectTaggedSeq : ∀ c d acc, RAdv c (collectTaggedSeq n c d acc)
  variantPayload : ∀ cfg vs vn vl mm tg c, RAdv c (variantPayload n cfg vs vn vl mm tg c)

theorem allAdv_zero : AllAdv 0 := by
  constructor <;> intros <;> first
    | (simp only [capture, captureSeq, captureMap, mergeSeqBatches, pendingFromLive, collectEntriesFromMap, collectLoop, skipOneNode, skipDepth, deser, bytesLoop, deserSeqLike, seqElems, tupleElems, deserMapLike, mapEntries, structEntries, nextKey, nextValue, deserEnum, collectTaggedSeq, variantPayload]; trivial)
    | (rename_i ts _ _; cases ts <;> simp only [tupleElems] <;> trivial)

theorem allAdv_succ (n : Nat) (ih : AllAdv n) : AllAdv (n + 1) := by
  obtain ⟨i0, i1, i2, i3, i4, i5, i6, i7, i8, i9, i10, i11, i12, i13, i14, i15, i16, i17, i18, i19, i20, i21⟩ := ih
  constructor
  · intro c
    simp only [capture]
    have hroot : Root c := trivial
    repeat' split
    all_goals grind (splits := 40) (gen := 40) (ematch := 40)
  · intro c fps evs
    simp only [captureSeq]
    have hroot : Root c := trivial
    repeat' split
    all_goals grind (splits := 40) (gen := 40) (ematch := 40)
  · intro c fps evs
    simp only [captureMap]
    have hroot : Root c := trivial
    repeat' split
    all_goals grind (splits := 40) (gen := 40) (ematch := 40)
  · intro c bs
    simp only [mergeSeqBatches]
    have hroot : Root c := trivial
    repeat' split
    all_goals grind (splits := 40) (gen := 40) (ematch := 40)
  · intro c l
    simp only [pendingFromLive]
    have hroot : Root c := trivial
    repeat' split
    all_goals grind (splits := 40) (gen := 40) (ematch := 40)
  · intro c l
    simp only [collectEntriesFromMap]
    have hroot : Root c := trivial
    repeat' split
    all_goals grind (splits := 40) (gen := 40) (ematch := 40)
  · intro c l fs ms
    simp only [collectLoop]
    have hroot : Root c := trivial
    repeat' split
    all_goals grind (splits := 40) (gen := 40) (ematch := 40)
  · intro c
    simp only [skipOneNode]
    have hroot : Root c := trivial
    repeat' split
    all_goals grind (splits := 40) (gen := 40) (ematch := 40)
  · intro c d
    simp only [skipDepth]
    have hroot : Root c := trivial
    repeat' split
    all_goals grind (splits := 40) (gen := 40) (ematch := 40)
  · intro cfg ty ik k c
    simp only [deser]
    have hroot : Root c := trivial
    repeat' split
    all_goals grind (splits := 40) (gen := 40) (ematch := 40)
  · intro cfg c acc
    simp only [bytesLoop]
    have hroot : Root c := trivial
    repeat' split
    all_goals grind (splits := 40) (gen := 40) (ematch := 40)
  · intro cfg sh c
    simp only [deserSeqLike]
    have hroot : Root c := trivial
    repeat' split
    all_goals grind (splits := 40) (gen := 40) (ematch := 40)
  · intro cfg t c acc
    simp only [seqElems]
    have hroot : Root c := trivial
    repeat' split
    all_goals grind (splits := 40) (gen := 40) (ematch := 40)
  · intro cfg ts c acc
    have hroot : Root c := trivial
    cases ts <;> simp only [tupleElems] <;> (repeat' split) <;> grind (splits := 40) (gen := 40) (ematch := 40)
  · intro cfg sh c
    simp only [deserMapLike]
    have hroot : Root c := trivial
    repeat' split
    all_goals grind (splits := 40) (gen := 40) (ematch := 40)
  · intro cfg kt vt c m acc
    simp only [mapEntries]
    have hroot : Root c := trivial
    repeat' split
    all_goals grind (splits := 40) (gen := 40) (ematch := 40)
  · intro cfg fields deny c m acc
    simp only [structEntries]
    have hroot : Root c := trivial
    repeat' split
    all_goals grind (splits := 40) (gen := 40) (ematch := 40)
  · intro cfg ks c m
    simp only [nextKey]
    have hroot : Root c := trivial
    repeat' split
    all_goals grind (splits := 40) (gen := 40) (ematch := 40)
  · intro cfg vt c m
    simp only [nextValue]
    have hroot : Root c := trivial
    repeat' split
    all_goals grind (splits := 40) (gen := 40) (ematch := 40)
  · intro cfg name vs c
    simp only [deserEnum]
    have hroot : Root c := trivial
    repeat' split
    all_goals grind (splits := 40) (gen := 40) (ematch := 40)
  · intro c d acc
    simp only [collectTaggedSeq]
    have hroot : Root c := trivial
    repeat' split
    all_goals grind (splits := 40) (gen := 40) (ematch := 40)
  · intro cfg vs vn vl mm tg c
    simp only [variantPayload]
    have hroot : Root c := trivial
    grind (splits := 40) (gen := 40) (ematch := 40)

theorem allAdv : ∀ n, AllAdv n
  | 0 => allAdv_zero
  | n + 1 => allAdv_succ n (allAdv n)


end SaphyrVerif.Lemmas.C11T
