import SaphyrVerif.Lemmas.C04_Capture
import SaphyrVerif.Lemmas.C03
/-!
Helper lemmas for C03, part 2 (model level): the merge expansion functions `pendingFromEvents`,
`mergeSeqBatches`, `pendingFromLive`, `collectEntriesFromMap`, `collectLoop` on replay cursors compute
`sourceEntries` (entry by entry: fingerprints and recorded events), and fail exactly when it does.
-/
namespace SaphyrVerif.Lemmas.C03
open SaphyrVerif SaphyrVerif.Scalars SaphyrVerif.Pump SaphyrVerif.De SaphyrVerif.Spec
open SaphyrVerif.Lemmas.Cursor SaphyrVerif.Lemmas.C04

/-- what is compared of a pending entry of the model … -/
def projP (p : PendingEntry) : FP × List Ev × FP × List Ev := (p.key.fp, p.key.events, p.value.fp, p.value.events)
/-- … and of an entry of the specification -/
def projE (e : ENode × ENode) : FP × List Ev × FP × List Ev := (fpOf e.1, eflatten e.1, fpOf e.2, eflatten e.2)

/-! ### specification side: own fields and merged batches of a source mapping -/

/-- the non-merge entries of a source mapping -/
def ownOf : List (ENode × ENode) → List (ENode × ENode)
  | [] => []
  | (k, v) :: rest => if isMergeKeyNode k then ownOf rest else (k, v) :: ownOf rest

/-- the nested merge batches of a source mapping, last `<<` first -/
def mergedOf : List (ENode × ENode) → Option (List (ENode × ENode))
  | [] => some []
  | (k, v) :: rest =>
    if isMergeKeyNode k then
      match sourceEntries v, mergedOf rest with
      | some b, some r => some (r ++ b)
      | _, _ => none
    else mergedOf rest

theorem mapSourceEntries_eq (es : List (ENode × ENode)) :
    mapSourceEntries es = (mergedOf es).map (ownOf es ++ ·) := by
  induction es with
  | nil => simp [mapSourceEntries, mergedOf, ownOf]
  | cons kv rest ih =>
    obtain ⟨k, v⟩ := kv
    by_cases hk : isMergeKeyNode k = true
    · simp only [mapSourceEntries, mergedOf, ownOf, hk, if_true, ih]
      cases sourceEntries v <;> cases mergedOf rest <;> simp
    · simp only [mapSourceEntries, mergedOf, ownOf, hk, Bool.false_eq_true, if_false, ih]
      cases mergedOf rest <;> simp

/-! ### list folds of the model -/

theorem foldl_app_acc {α} (l : List (List α)) : ∀ init : List α,
    l.foldl (fun acc b => acc ++ b) init = init ++ l.foldl (fun acc b => acc ++ b) [] := by
  induction l with
  | nil => intro init; simp
  | cons b l ih => intro init; simp only [List.foldl_cons, List.nil_append]; rw [ih (init ++ b), ih b]; simp

theorem foldl_app_cons {α} (b : List α) (l : List (List α)) :
    (b :: l).foldl (fun acc b => acc ++ b) [] = b ++ l.foldl (fun acc b => acc ++ b) [] := by
  simp only [List.foldl_cons, List.nil_append]; exact foldl_app_acc l b

theorem foldl_rev_snoc {α} (l : List (List α)) (b : List α) :
    (l ++ [b]).foldl (fun acc b => b ++ acc) [] = b ++ l.foldl (fun acc b => b ++ acc) [] := by
  simp [List.foldl_append]

/-! ### the merge key test on a captured key -/

theorem isMergeKey_capture (k : ENode) : isMergeKey ⟨fpOf k, eflatten k, k.loc⟩ = isMergeKeyNode k := by
  cases k with
  | scalar v tag rt st a l => simp [isMergeKey, isMergeKeyNode, eflatten]
  | seq a tag rt l el items => simp [isMergeKey, isMergeKeyNode, eflatten]
  | map a l el es => simp [isMergeKey, isMergeKeyNode, eflatten]

/-! ### one step of each model function on a replay cursor -/

theorem mergeSeqBatches_succ_end {buf : List Ev} {idx : Nat} {l : Loc} {tl : List Ev} (cref : Option Loc)
    (h : buf.drop idx = .seqEnd l :: tl) (f : Nat) (batches : List (List PendingEntry)) :
    mergeSeqBatches (f + 1) (.replay buf idx cref) batches = .ok batches (.replay buf (idx + 1) cref) := by
  rw [mergeSeqBatches, peek_replay_of_drop cref h]
  simp only [next_replay_of_drop cref h]

theorem mergeSeqBatches_succ_open {buf : List Ev} {idx : Nat} {e : Ev} {tl : List Ev} (cref : Option Loc)
    (h : buf.drop idx = e :: tl) (he : isOpen e = true) (f : Nat) (batches : List (List PendingEntry)) :
    mergeSeqBatches (f + 1) (.replay buf idx cref) batches =
      match capture f (.replay buf idx cref) with
      | .err e c => .err e c
      | .ok element c =>
        match pendingFromEvents f element.events element.loc (Cur.refLoc (.replay buf idx cref)) with
        | .error e => .err e c
        | .ok b => mergeSeqBatches f c (batches ++ [b]) := by
  rw [mergeSeqBatches, peek_replay_of_drop cref h]
  cases e <;> first | rfl | simp [isOpen] at he

theorem collectLoop_succ_end {buf : List Ev} {idx : Nat} {l : Loc} {tl : List Ev} (cref : Option Loc)
    (h : buf.drop idx = .mapEnd l :: tl) (f : Nat) (ref : Loc) (fields : List PendingEntry)
    (merges : List (List PendingEntry)) :
    collectLoop (f + 1) (.replay buf idx cref) ref fields merges =
      .ok (fields ++ merges.foldl (fun acc b => acc ++ b) []) (.replay buf (idx + 1) cref) := by
  rw [collectLoop, peek_replay_of_drop cref h]
  simp only [next_replay_of_drop cref h]

theorem collectLoop_succ_open {buf : List Ev} {idx : Nat} {e : Ev} {tl : List Ev} (cref : Option Loc)
    (h : buf.drop idx = e :: tl) (he : isOpen e = true) (f : Nat) (ref : Loc) (fields : List PendingEntry)
    (merges : List (List PendingEntry)) :
    collectLoop (f + 1) (.replay buf idx cref) ref fields merges =
      match capture f (.replay buf idx cref) with
      | .err e c => .err e c
      | .ok key c =>
        if isMergeKey key then
          match c.peek with
          | .err e c => .err e c
          | .ok _ c =>
            match pendingFromLive f c c.refLoc with
            | .err e c => .err e c
            | .ok es c => collectLoop f c ref fields (es :: merges)
        else
          match capture f c with
          | .err e c => .err e c
          | .ok value c => collectLoop f c ref (fields ++ [⟨key, value, ref⟩]) merges := by
  rw [collectLoop, peek_replay_of_drop cref h]
  cases e <;> first | rfl | simp [isOpen] at he

/-! ### the joint refinement statement, by induction on the fuel -/

/-- result of `pendingFromEvents` on the events of `src` -/
def EventsOk (f : Nat) : Prop :=
  ∀ (src : ENode) (loc ref : Loc), 2 * (eflatten src).length ≤ f →
    (∀ es, sourceEntries src = some es →
      ∃ ps, pendingFromEvents f (eflatten src) loc ref = .ok ps ∧ ps.map projP = es.map projE) ∧
    (sourceEntries src = none → ∃ e, pendingFromEvents f (eflatten src) loc ref = .error e)

/-- result of `pendingFromLive` with the cursor in front of the events of `v` -/
def LiveOk (f : Nat) : Prop :=
  ∀ (v : ENode) (buf : List Ev) (idx : Nat) (rest : List Ev) (cref : Option Loc) (mref : Loc),
    buf.drop idx = eflatten v ++ rest → 2 * (eflatten v).length + 1 ≤ f →
    (∀ es, sourceEntries v = some es →
      ∃ ps, pendingFromLive f (.replay buf idx cref) mref = .ok ps (.replay buf (idx + (eflatten v).length) cref) ∧
        ps.map projP = es.map projE) ∧
    (sourceEntries v = none → ∃ e c, pendingFromLive f (.replay buf idx cref) mref = .err e c)

/-- result of `mergeSeqBatches` with the cursor in front of the remaining elements and the `seqEnd` -/
def SeqOk (f : Nat) : Prop :=
  ∀ (items : List ENode) (el : Loc) (buf : List Ev) (idx : Nat) (rest : List Ev) (cref : Option Loc)
    (batches : List (List PendingEntry)),
    buf.drop idx = eflattenL items ++ .seqEnd el :: rest → 2 * (eflattenL items).length + 1 ≤ f →
    (∀ es, seqSourceEntries items = some es →
      ∃ bs, mergeSeqBatches f (.replay buf idx cref) batches =
          .ok bs (.replay buf (idx + ((eflattenL items).length + 1)) cref) ∧
        (bs.foldl (fun acc b => b ++ acc) []).map projP =
          es.map projE ++ (batches.foldl (fun acc b => b ++ acc) []).map projP) ∧
    (seqSourceEntries items = none → ∃ e c, mergeSeqBatches f (.replay buf idx cref) batches = .err e c)

/-- result of `collectLoop` with the cursor in front of the remaining entries and the `mapEnd` -/
def LoopOk (f : Nat) : Prop :=
  ∀ (es : List (ENode × ENode)) (el : Loc) (buf : List Ev) (idx : Nat) (rest : List Ev) (cref : Option Loc)
    (ref : Loc) (fields : List PendingEntry) (merges : List (List PendingEntry)),
    buf.drop idx = eflattenE es ++ .mapEnd el :: rest → 2 * (eflattenE es).length + 1 ≤ f →
    (∀ m, mergedOf es = some m →
      ∃ ps, collectLoop f (.replay buf idx cref) ref fields merges =
          .ok ps (.replay buf (idx + ((eflattenE es).length + 1)) cref) ∧
        ps.map projP = fields.map projP ++ ((ownOf es).map projE ++ (m.map projE ++
          (merges.foldl (fun acc b => acc ++ b) []).map projP))) ∧
    (mergedOf es = none → ∃ e c, collectLoop f (.replay buf idx cref) ref fields merges = .err e c)

/-- result of `collectEntriesFromMap` on the recorded events of a mapping -/
def MapOk (f : Nat) : Prop :=
  ∀ (a : Nat) (l el : Loc) (es : List (ENode × ENode)) (ref : Loc), 2 * (eflattenE es).length + 2 ≤ f →
    (∀ r, mapSourceEntries es = some r →
      ∃ ps c, collectEntriesFromMap f (.replay (eflatten (.map a l el es)) 0 (some ref)) ref = .ok ps c ∧
        ps.map projP = r.map projE) ∧
    (mapSourceEntries es = none →
      ∃ e c, collectEntriesFromMap f (.replay (eflatten (.map a l el es)) 0 (some ref)) ref = .err e c)

theorem eventsOk_succ {f : Nat} (hS : SeqOk f) (hM : MapOk f) : EventsOk (f + 1) := by
  intro src loc ref hf
  cases src with
  | scalar v tag rt st a l =>
    rw [pendingFromEvents]
    by_cases hn : mergeScalarIsNull v st tag = true
    · simp [eflatten, sourceEntries, hn]
    · simp [eflatten, sourceEntries, hn]
  | map a l el es =>
    simp only [eflatten_map_length] at hf
    obtain ⟨h1, h2⟩ := hM a l el es ref (by omega)
    rw [pendingFromEvents]
    simp only [eflatten, List.head?_cons, sourceEntries]
    simp only [eflatten] at h1 h2
    refine ⟨fun r hr => ?_, fun hr => ?_⟩
    · obtain ⟨ps, c, hc, hps⟩ := h1 r hr
      exact ⟨ps, by rw [hc], hps⟩
    · obtain ⟨e, c, hc⟩ := h2 hr
      exact ⟨e, by rw [hc]⟩
  | seq a tag rt l el items =>
    simp only [eflatten_seq_length] at hf
    have hd : (eflatten (.seq a tag rt l el items)).drop 1 = eflattenL items ++ .seqEnd el :: [] := by
      simp [eflatten]
    obtain ⟨h1, h2⟩ := hS items el _ 1 [] (some ref) [] hd (by omega)
    rw [pendingFromEvents]
    simp only [eflatten, List.head?_cons, sourceEntries, next_replay_cons_zero]
    simp only [eflatten] at h1 h2
    refine ⟨fun r hr => ?_, fun hr => ?_⟩
    · obtain ⟨bs, hc, hps⟩ := h1 r hr
      exact ⟨_, by rw [hc], by simpa using hps⟩
    · obtain ⟨e, c, hc⟩ := h2 hr
      exact ⟨e, by rw [hc]⟩

theorem mapOk_succ {f : Nat} (hL : LoopOk f) : MapOk (f + 1) := by
  intro a l el es ref hf
  have hd : (eflatten (.map a l el es)).drop 1 = eflattenE es ++ .mapEnd el :: [] := by
    simp [eflatten]
  obtain ⟨h1, h2⟩ := hL es el _ 1 [] (some ref) ref [] [] hd (by omega)
  rw [collectEntriesFromMap]
  simp only [eflatten, next_replay_cons_zero]
  simp only [eflatten] at h1 h2
  rw [mapSourceEntries_eq]
  refine ⟨fun r hr => ?_, fun hr => ?_⟩
  · simp only [Option.map_eq_some_iff] at hr
    obtain ⟨m, hm, rfl⟩ := hr
    obtain ⟨ps, hc, hps⟩ := h1 m hm
    exact ⟨ps, _, hc, by simpa using hps⟩
  · simp only [Option.map_eq_none_iff] at hr
    exact h2 hr

theorem liveOk_succ {f : Nat} (hA : EventsOk f) (hS : SeqOk f) : LiveOk (f + 1) := by
  intro v buf idx rest cref mref h hf
  cases v with
  | scalar v tag rt st a l =>
    simp only [eflatten, List.cons_append, List.nil_append] at h
    rw [pendingFromLive, peek_replay_of_drop cref h]
    by_cases hn : mergeScalarIsNull v st tag = true
    · simp [eflatten, sourceEntries, hn, next_replay_of_drop cref h]
    · simp [sourceEntries, hn]
  | map a l el es =>
    have hpos : (eflatten (.map a l el es)).length ≤ f := by omega
    have hcap := capture_exact_drop (.map a l el es) cref h hpos
    obtain ⟨h1, h2⟩ := hA (.map a l el es) (ENode.loc (.map a l el es)) mref (by omega)
    have h' : buf.drop idx = .mapStart a l :: (eflattenE es ++ [.mapEnd el] ++ rest) := by
      rw [h]; simp [eflatten]
    rw [pendingFromLive, peek_replay_of_drop cref h']
    simp only [hcap]
    refine ⟨fun r hr => ?_, fun hr => ?_⟩
    · obtain ⟨ps, hc, hps⟩ := h1 r hr
      exact ⟨ps, by rw [hc], hps⟩
    · obtain ⟨e, hc⟩ := h2 hr
      exact ⟨e, _, by rw [hc]⟩
  | seq a tag rt l el items =>
    have h' : buf.drop idx = .seqStart a tag rt l :: (eflattenL items ++ .seqEnd el :: rest) := by
      rw [h]; simp [eflatten]
    simp only [eflatten_seq_length] at hf ⊢
    obtain ⟨h1, h2⟩ := hS items el buf (idx + 1) rest cref [] (drop_succ_of_drop_eq_cons h') (by omega)
    rw [pendingFromLive, peek_replay_of_drop cref h']
    simp only [next_replay_of_drop cref h', sourceEntries]
    refine ⟨fun r hr => ?_, fun hr => ?_⟩
    · obtain ⟨bs, hc, hps⟩ := h1 r hr
      refine ⟨bs.foldl (fun acc b => b ++ acc) [], ?_, by simpa using hps⟩
      rw [hc]; simp only [R.ok.injEq, true_and]; congr 1; omega
    · obtain ⟨e, c, hc⟩ := h2 hr
      exact ⟨e, c, by rw [hc]⟩

theorem seqOk_succ {f : Nat} (hA : EventsOk f) (hS : SeqOk f) : SeqOk (f + 1) := by
  intro items el buf idx rest cref batches h hf
  cases items with
  | nil =>
    simp only [eflattenL, List.nil_append] at h
    rw [mergeSeqBatches_succ_end cref h]
    simp [seqSourceEntries, eflattenL]
  | cons n ns =>
    obtain ⟨e, tl, hn, he⟩ := eflatten_eq_cons n
    have h' : buf.drop idx = eflatten n ++ (eflattenL ns ++ .seqEnd el :: rest) := by
      rw [h]; simp [eflattenL]
    have h1 : buf.drop idx = e :: (tl ++ (eflattenL ns ++ .seqEnd el :: rest)) := by
      rw [h', hn]; rfl
    simp only [eflattenL_cons_length] at hf ⊢
    have hpos := eflatten_length_pos n
    have hcap := capture_exact_drop n cref h' (show (eflatten n).length ≤ f by omega)
    obtain ⟨hA1, hA2⟩ := hA n n.loc (Cur.refLoc (.replay buf idx cref)) (by omega)
    rw [mergeSeqBatches_succ_open cref h1 he]
    simp only [hcap, seqSourceEntries]
    cases hb : sourceEntries n with
    | none =>
      obtain ⟨e', hc⟩ := hA2 hb
      refine ⟨fun r hr => by simp at hr, fun _ => ⟨e', _, by rw [hc]⟩⟩
    | some b =>
      obtain ⟨pb, hc, hpb⟩ := hA1 b hb
      rw [hc]
      simp only
      obtain ⟨hS1, hS2⟩ := hS ns el buf _ rest cref (batches ++ [pb]) (drop_add_of_drop_eq_append h') (by omega)
      cases hr : seqSourceEntries ns with
      | none =>
        refine ⟨fun r hr' => by simp at hr', fun _ => hS2 hr⟩
      | some r =>
        refine ⟨fun r' hr' => ?_, fun hr' => by simp at hr'⟩
        simp only [Option.some.injEq] at hr'
        subst hr'
        obtain ⟨bs, hc2, hbs⟩ := hS1 r hr
        refine ⟨bs, by rw [hc2]; simp only [R.ok.injEq, true_and]; congr 1; omega, ?_⟩
        rw [hbs, foldl_rev_snoc]
        simp [hpb]

theorem loopOk_succ {f : Nat} (hB : LiveOk f) (hL : LoopOk f) : LoopOk (f + 1) := by
  intro es el buf idx rest cref ref fields merges h hf
  cases es with
  | nil =>
    simp only [eflattenE, List.nil_append] at h
    rw [collectLoop_succ_end cref h]
    simp [mergedOf, ownOf, eflattenE]
  | cons kv es =>
    obtain ⟨k, v⟩ := kv
    obtain ⟨e, tl, hn, he⟩ := eflatten_eq_cons k
    have h' : buf.drop idx = eflatten k ++ (eflatten v ++ (eflattenE es ++ .mapEnd el :: rest)) := by
      rw [h]; simp [eflattenE]
    have h1 : buf.drop idx = e :: (tl ++ (eflatten v ++ (eflattenE es ++ .mapEnd el :: rest))) := by
      rw [h', hn]; rfl
    simp only [eflattenE_cons_length] at hf ⊢
    have hposk := eflatten_length_pos k
    have hposv := eflatten_length_pos v
    have h2 := drop_add_of_drop_eq_append h'
    have h3 := drop_add_of_drop_eq_append h2
    have hcapk := capture_exact_drop k cref h' (show (eflatten k).length ≤ f by omega)
    rw [collectLoop_succ_open cref h1 he]
    simp only [hcapk, isMergeKey_capture, peek_replay]
    by_cases hk : isMergeKeyNode k = true
    · simp only [hk, if_true, mergedOf, ownOf]
      obtain ⟨hB1, hB2⟩ := hB v buf _ _ cref (Cur.refLoc (.replay buf (idx + (eflatten k).length) cref)) h2 (by omega)
      cases hb : sourceEntries v with
      | none =>
        obtain ⟨e', c', hc⟩ := hB2 hb
        refine ⟨fun r hr => by simp at hr, fun _ => ⟨e', c', by rw [hc]⟩⟩
      | some b =>
        obtain ⟨pb, hc, hpb⟩ := hB1 b hb
        rw [hc]
        simp only
        obtain ⟨hL1, hL2⟩ := hL es el buf _ rest cref ref fields (pb :: merges) h3 (by omega)
        cases hr : mergedOf es with
        | none =>
          refine ⟨fun r hr' => by simp at hr', fun _ => hL2 hr⟩
        | some r =>
          refine ⟨fun r' hr' => ?_, fun hr' => by simp at hr'⟩
          simp only [Option.some.injEq] at hr'
          subst hr'
          obtain ⟨ps, hc2, hps⟩ := hL1 r hr
          refine ⟨ps, by rw [hc2]; simp only [R.ok.injEq, true_and]; congr 1; omega, ?_⟩
          rw [hps, foldl_app_cons]
          simp [hpb]
    · simp only [hk, Bool.false_eq_true, if_false, mergedOf, ownOf]
      have hcapv := capture_exact_drop v cref h2 (show (eflatten v).length ≤ f by omega)
      simp only [hcapv]
      obtain ⟨hL1, hL2⟩ := hL es el buf _ rest cref ref
        (fields ++ [⟨⟨fpOf k, eflatten k, k.loc⟩, ⟨fpOf v, eflatten v, v.loc⟩, ref⟩]) merges h3 (by omega)
      refine ⟨fun r hr => ?_, fun hr => hL2 hr⟩
      obtain ⟨ps, hc2, hps⟩ := hL1 r hr
      refine ⟨ps, by rw [hc2]; simp only [R.ok.injEq, true_and]; congr 1; omega, ?_⟩
      rw [hps]
      simp [projP, projE]

theorem all_ok (f : Nat) : EventsOk f ∧ LiveOk f ∧ SeqOk f ∧ LoopOk f ∧ MapOk f := by
  induction f with
  | zero =>
    refine ⟨?_, ?_, ?_, ?_, ?_⟩
    · intro src _ _ hf; have := eflatten_length_pos src; omega
    · intro _ _ _ _ _ _ _ hf; omega
    · intro _ _ _ _ _ _ _ _ hf; omega
    · intro _ _ _ _ _ _ _ _ _ _ hf; omega
    · intro _ _ _ _ _ hf; omega
  | succ f ih =>
    obtain ⟨hA, hB, hS, hL, hM⟩ := ih
    exact ⟨eventsOk_succ hS hM, liveOk_succ hA hS, seqOk_succ hA hS, loopOk_succ hB hL, mapOk_succ hL⟩

/-- `pendingFromEvents` on the recorded events of a merge value computes `sourceEntries` -/
theorem pendingFromEvents_spec (src : ENode) (loc ref : Loc) {fuel : Nat} (hf : 2 * (eflatten src).length ≤ fuel) :
    (∀ es, sourceEntries src = some es →
      ∃ ps, pendingFromEvents fuel (eflatten src) loc ref = .ok ps ∧ ps.map projP = es.map projE) ∧
    (sourceEntries src = none → ∃ e, pendingFromEvents fuel (eflatten src) loc ref = .error e) :=
  (all_ok fuel).1 src loc ref hf

end SaphyrVerif.Lemmas.C03
