import SaphyrVerif.Lemmas.C11_TypedIter
import SaphyrVerif.Lemmas.C07
/-!
Typed multi-document theorems (C11), continued — part 1: live cursors WITH a per-document budget enforcer.

`StatB L ob p` generalises `C11T.Static`: `ob = none` = no enforcer; `ob = some lim` = an enforcer with the limits
`lim` under the per-document policy (the fields of the enforcer that no call ever changes: its limits, its
policy, and the document counter, which the per-document policy never touches).  `next_impl` and
`skip_to_next_document` keep it — whatever they answer, also on errors —, and a `DocumentStart` observed under the
per-document policy (also through `begin_document_at` on the recovery path) puts the enforcer into the state
`startEnf lim`: everything forgotten, the marker counted as the first event of the new document.
`LiveInvB` is `C11T.LiveInvP` with `StatB` in place of `Static`.
-/
namespace SaphyrVerif.Lemmas.C11B
open SaphyrVerif SaphyrVerif.Scalars SaphyrVerif.Pump SaphyrVerif.De SaphyrVerif.Spec SaphyrVerif.Budget
open SaphyrVerif.Lemmas.C11T (RunP J skipNeutral skipLoop_neutral nextImpl_look nextImpl_event_lastLoc nextImpl_suffix
  nextImpl_fixed serveInject_fixed parserLoop_fixed pump_eta_look)

/-! ### the enforcer: what never changes -/

/-- an enforcer with limits `lim` under the per-document policy -/
def EnfStat (lim : Limits) (E : Enf) : Prop :=
  E.lim = lim ∧ E.perDocument = true ∧ E.report.documents = 0 ∧ 1 ≤ lim.maxEvents

theorem enfStat_new (lim : Limits) (h1 : 1 ≤ lim.maxEvents) : EnfStat lim (Enf.new lim true) := ⟨rfl, rfl, rfl, h1⟩

/-- the enforcer right after the `DocumentStart` marker of a document (the marker is its first event) -/
def startEnf (lim : Limits) : Enf := Lemmas.C07.docStartState lim 0

theorem enfStat_start (lim : Limits) (h1 : 1 ≤ lim.maxEvents) : EnfStat lim (startEnf lim) := ⟨rfl, rfl, rfl, h1⟩

theorem observe_stat {lim : Limits} {E E' : Enf} {r : Raw} (h : EnfStat lim E) (ho : E.observe r = .ok E') :
    EnfStat lim E' := by
  obtain ⟨rfl, -⟩ := Lemmas.C07.observe_ok ho
  obtain ⟨h1, h2, h3, h4⟩ := h
  exact ⟨by simp [h1], by simp [h2], by rw [Lemmas.C07.next_documents_pd h2, h3], h4⟩

theorem aliasReplayed_stat {lim : Limits} {E E' : Enf} (h : EnfStat lim E) (ho : E.observeAliasReplayed = .ok E') :
    EnfStat lim E' := by
  obtain ⟨h1, h2, h3, h4⟩ := h
  simp only [Enf.observeAliasReplayed] at ho
  split at ho
  · cases ho
  · split at ho
    · cases ho
    · cases ho; exact ⟨h1, h2, h3, h4⟩

theorem occupies_stat {lim : Limits} {E : Enf} (h : EnfStat lim E) : EnfStat lim E.aliasOccupiesPosition := h

/-- a `DocumentStart` marker observed under the per-document policy: whatever was counted before, the enforcer is
in the state `startEnf` (`Props.C07.perdoc_position_independent`) -/
theorem observe_docStart_stat {lim : Limits} {E : Enf} (h : EnfStat lim E) (x : Bool) :
    E.observe (.docStart x) = .ok (startEnf lim) := by
  obtain ⟨h1, h2, h3, h4⟩ := h
  rw [Lemmas.C07.observe_docStart_pd x h2, h1, h3]
  rw [if_neg (by omega)]
  rfl

/-- the static part of the optional enforcer of a pump -/
def BudStat : Option Limits → Option Enf → Prop
  | none, none => True
  | some lim, some E => EnfStat lim E
  | _, _ => False

theorem budStat_max1 {ob : Option Limits} {b : Option Enf} (h : BudStat ob b) :
    ∀ lim, ob = some lim → 1 ≤ lim.maxEvents := by
  intro lim hl
  subst hl
  cases b with
  | none => exact h.elim
  | some E => exact h.2.2.2

/-- the fresh per-document enforcer, if any -/
def freshBud (ob : Option Limits) : Option Enf := ob.map startEnf

/-- the budget part of the `DocumentStart` arm of `skip_to_next_document` (`begin_document_at`) -/
theorem skipBudget_stat {ob : Option Limits} {b : Option Enf} (h : BudStat ob b) (x : Bool) :
    skipBudget b (.docStart x) = some (freshBud ob) := by
  cases ob <;> cases b <;> simp only [BudStat] at h <;> try exact h.elim
  · rfl
  · rename_i lim E
    simp [skipBudget, Enf.beginDocumentAt, h.2.1, observe_docStart_stat h x, freshBud]

theorem budStat_fresh (ob : Option Limits) (hmax : ∀ lim, ob = some lim → 1 ≤ lim.maxEvents) :
    BudStat ob (freshBud ob) := by
  cases ob
  · trivial
  · exact enfStat_start _ (hmax _ rfl)

theorem budStat_map_occ {ob : Option Limits} {b : Option Enf} (h : BudStat ob b) :
    BudStat ob (b.map Enf.aliasOccupiesPosition) := by
  cases ob <;> cases b <;> simp only [BudStat] at h <;> try exact h.elim
  · trivial
  · exact occupies_stat h

/-- what the budget part of the parser loop does with a raw item -/
theorem budStat_observe {ob : Option Limits} {b bud : Option Enf} {raw : Raw} (h : BudStat ob b)
    (hx : (match b with
      | none => (Except.ok none : Except Breach (Option Enf))
      | some enf =>
        match raw with
        | .alias _ => enf.observeAliasReplayed.map some
        | _ => (enf.observe raw).map some) = .ok bud) : BudStat ob bud := by
  cases ob <;> cases b <;> simp only [BudStat] at h <;> try exact h.elim
  · simp only [Except.ok.injEq] at hx; subst hx; trivial
  · rename_i lim E
    simp only at hx
    split at hx
    · cases ho : E.observeAliasReplayed with
      | error e => rw [ho] at hx; cases hx
      | ok E' =>
        rw [ho] at hx
        simp only [Except.map, Except.ok.injEq] at hx
        subst hx
        exact aliasReplayed_stat h ho
    · cases ho : E.observe raw with
      | error e => rw [ho] at hx; cases hx
      | ok E' =>
        rw [ho] at hx
        simp only [Except.map, Except.ok.injEq] at hx
        subst hx
        exact observe_stat h ho

theorem budStat_step {ob : Option Limits} {b bud : Option Enf} (f : Enf → Except Breach Enf)
    (hf : ∀ lim E E', EnfStat lim E → f E = .ok E' → EnfStat lim E') (h : BudStat ob b)
    (hx : (match b with
      | none => (Except.ok none : Except Breach (Option Enf))
      | some enf => (f enf).map some) = .ok bud) : BudStat ob bud := by
  cases ob <;> cases b <;> simp only [BudStat] at h <;> try exact h.elim
  · simp only [Except.ok.injEq] at hx; subst hx; trivial
  · rename_i lim E
    simp only at hx
    cases ho : f E with
    | error e => rw [ho] at hx; cases hx
    | ok E' =>
      rw [ho] at hx
      simp only [Except.map, Except.ok.injEq] at hx
      subst hx
      exact hf lim E E' h ho

/-! ### what `next_impl` never changes -/

/-- the enforcer (if any) is a per-document one with the limits `ob`; no recursion wrappers in progress; fixed
alias limits; multi-document mode -/
structure StatB (L : AliasLimits) (ob : Option Limits) (p : Pump) : Prop where
  bud : BudStat ob p.budget
  rip : p.recursiveInProgress = []
  lim : p.limits = L
  sade : p.stopAtDocEnd = false

theorem serveInject_budStat {ob : Option Limits} (p : Pump) (fs : List InjectFrame) (h : BudStat ob p.budget) :
    BudStat ob (serveInject p fs).2.budget := by
  induction fs with
  | nil => exact h
  | cons fr rest ih =>
    simp only [serveInject]
    split
    · exact h
    · split
      · exact ih
      · split
        · exact ih
        · split
          · exact h
          · split
            · exact h
            · rename_i enf hb
              split
              · simpa [hb] using h
              · rename_i enf' ho
                cases ob with
                | none => simp only [hb, BudStat] at h
                | some lim =>
                  simp only [hb, BudStat] at h
                  exact observe_stat h ho

theorem parserLoop_budStat {ob : Option Limits} (p : Pump) (inp : List RawItem) (h : BudStat ob p.budget) :
    BudStat ob (parserLoop p inp).2.1.budget := by
  fun_induction parserLoop p inp
  all_goals try (simp_all +zetaDelta [Pump.resetDocumentState]; done)
  all_goals try (
    first
      | (rename_i hx
         simp +zetaDelta only [] at hx
         first
           | (have hb := budStat_step _ (fun _ _ _ => observe_stat) h hx)
           | (have hb := budStat_step _ (fun _ _ _ => aliasReplayed_stat) h hx))
      | (rename_i hx ih
         simp +zetaDelta only [] at hx
         first
           | (have hb := budStat_step _ (fun _ _ _ => observe_stat) h hx)
           | (have hb := budStat_step _ (fun _ _ _ => aliasReplayed_stat) h hx))
    first
      | (simp_all +zetaDelta [Pump.resetDocumentState]; done)
      | (simp +zetaDelta only; split <;> simp_all +zetaDelta; done))
  case case15 =>
    rename_i hx
    simp +zetaDelta only [] at hx
    have hb := budStat_step _ (fun _ _ _ => aliasReplayed_stat) h hx
    simp +zetaDelta only
    exact budStat_map_occ hb
  case case18 =>
    rename_i p3 step p' hs ob' hx
    simp +zetaDelta only [] at hx
    have hb := budStat_step _ (fun _ _ _ => aliasReplayed_stat) h hx
    have := serveInject_budStat (ob := ob) p3 p3.inject (by simpa +zetaDelta using hb)
    rw [hs] at this
    exact this
  case case19 =>
    rename_i p3 p' hs ob' hx ih
    simp +zetaDelta only [] at hx
    have hb := budStat_step _ (fun _ _ _ => aliasReplayed_stat) h hx
    have := serveInject_budStat (ob := ob) p3 p3.inject (by simpa +zetaDelta using hb)
    rw [hs] at this
    exact ih this

theorem nextImpl_budStat {ob : Option Limits} (p : Pump) (inp : List RawItem) (h : BudStat ob p.budget) :
    BudStat ob (nextImpl p inp).2.1.budget := by
  unfold nextImpl
  have h1 := serveInject_budStat p p.inject h
  rcases hs : serveInject p p.inject with ⟨_ | step, p'⟩
  · rw [hs] at h1
    exact parserLoop_budStat p' inp h1
  · rw [hs] at h1
    exact h1

theorem nextImpl_statB {L : AliasLimits} {ob : Option Limits} {p : Pump} (h : StatB L ob p) (inp : List RawItem) :
    StatB L ob (nextImpl p inp).2.1 := by
  obtain ⟨h1, h2, h3⟩ := nextImpl_fixed p inp
  exact ⟨nextImpl_budStat p inp h.bud, h1.trans h.rip, h2.trans h.lim, h3.trans h.sade⟩

/-! ### the live cursor inside one document, with the optional enforcer -/

/-- `C11T.LiveInvP` for a pump with the optional per-document enforcer `ob` -/
def LiveInvB (L : AliasLimits) (ob : Option Limits) (R : List RawItem) (Kp : Pump → List RawItem → Prop)
    (d : Cur) (l : List Ev) : Prop :=
  ∃ q inq, d = .live q inq ∧ StatB L ob q ∧ J R inq ∧
    ((q.look = none ∧ RunP Kp q inq l) ∨
     (∃ e l' q0, l = e :: l' ∧ q0.look = none ∧ q0.lastLoc = e.loc ∧ q = { q0 with look := some e } ∧
        RunP Kp q0 inq l'))

theorem liveInvB_step {L : AliasLimits} {ob : Option Limits} {R : List RawItem} {Kp : Pump → List RawItem → Prop}
    (hK : ∀ p inp, Kp p inp → inp = R) :
    ∀ d e l, LiveInvB L ob R Kp d (e :: l) →
      (∃ d1, d.peek = .ok (some e) d1 ∧ LiveInvB L ob R Kp d1 (e :: l)) ∧
      (∃ d2, d.next = .ok (some e) d2 ∧ LiveInvB L ob R Kp d2 l) := by
  rintro d e l ⟨q, inq, rfl, hst, hJ, h⟩
  rcases h with ⟨hl, hr⟩ | ⟨e', l', q0, hel, hl0, hloc, rfl, hr⟩
  · cases hr with
    | @ev _ _ _ q' inq' _ hn hr' =>
      have hst' : StatB L ob q' := by
        have := nextImpl_statB hst inq
        rw [hn] at this; exact this
      have hl' : q'.look = none := by
        have := nextImpl_look q inq
        rw [hn] at this
        rw [← hl]; exact this
      have hloc := nextImpl_event_lastLoc hn
      have hJ' : J R inq' := by
        have hsuf := nextImpl_suffix q inq
        rw [hn] at hsuf
        exact hJ.step hsuf (hr'.suffix hK)
      constructor
      · refine ⟨.live { q' with look := some e, lastLoc := e.loc } inq',
          by simp [Cur.peek, Pump.peek, hl, hn], _, _, rfl, ⟨hst'.bud, hst'.rip, hst'.lim, hst'.sade⟩, hJ',
          .inr ⟨e, l, q', rfl, hl', hloc, ?_, hr'⟩⟩
        cases q'
        simp_all
      · exact ⟨.live q' inq', by simp [Cur.next, Pump.next, hl, hn], q', inq', rfl, hst', hJ', .inl ⟨hl', hr'⟩⟩
  · cases hel
    have hst0 : StatB L ob q0 := ⟨hst.bud, hst.rip, hst.lim, hst.sade⟩
    constructor
    · refine ⟨.live { ({ q0 with look := some e } : Pump) with lastLoc := e.loc } inq,
        by simp [Cur.peek, Pump.peek], _, _, rfl, ⟨hst.bud, hst.rip, hst.lim, hst.sade⟩, hJ,
        .inr ⟨e, l, q0, rfl, hl0, hloc, ?_, hr⟩⟩
      cases q0
      simp_all
    · refine ⟨.live q0 inq, ?_, q0, inq, rfl, hst0, hJ, .inl ⟨hl0, hr⟩⟩
      simp only [Cur.next, Pump.next]
      rw [pump_eta_look hl0 hloc]

theorem liveInvB_nil {L : AliasLimits} {ob : Option Limits} {R : List RawItem} {Kp : Pump → List RawItem → Prop}
    {d : Cur} (h : LiveInvB L ob R Kp d []) : ∃ q inq, d = .live q inq ∧ StatB L ob q ∧ q.look = none ∧ Kp q inq := by
  obtain ⟨q, inq, rfl, hst, -, h⟩ := h
  rcases h with ⟨hl, hr⟩ | ⟨e', l', q0, hel, -⟩
  · cases hr with
    | done hk => exact ⟨q, inq, rfl, hst, hl, hk⟩
  · cases hel

end SaphyrVerif.Lemmas.C11B

