import SaphyrVerif.Lemmas.C20_Flow
/-!
C20 proof machinery: the reference reader on the one-line flow text of the flow fragment.
-/
set_option linter.unusedSimpArgs false
set_option linter.unusedVariables false
set_option linter.unusedSectionVars false
namespace SaphyrVerif.Emit
open SaphyrVerif

/-- what follows a node inside a flow collection: nothing, or `,` / `]` / `}` -/
def FlowRest (rest : List Char) : Prop :=
  rest = [] ∨ ∃ c r, rest = c :: r ∧ (c = ',' ∨ c = ']' ∨ c = '}')

theorem tok_not_flowIndicator {c : Char} (h : isTokChar c = true) : isFlowIndicator c = false := by
  cases hc : isFlowIndicator c with
  | false => rfl
  | true =>
    simp only [isFlowIndicator, Bool.or_eq_true, beq_iff_eq] at hc
    rcases hc with (((rfl | rfl) | rfl) | rfl) | rfl <;> exact absurd h (by decide)

theorem flowPlain_tok (t acc rest : List Char) (h : ∀ c ∈ t, isTokChar c = true) (hr : FlowRest rest) :
    flowPlain acc (t ++ rest) = (trimEndSpaces (acc.reverse ++ t), rest) := by
  induction t generalizing acc with
  | nil =>
    simp only [List.nil_append, List.append_nil]
    rcases hr with rfl | ⟨c, r, rfl, hc⟩
    · simp [flowPlain]
    · have hfi : isFlowIndicator c = true := by rcases hc with rfl | rfl | rfl <;> decide
      have h1 : c ≠ ':' := by rcases hc with rfl | rfl | rfl <;> decide
      have h2 : c ≠ ' ' := by rcases hc with rfl | rfl | rfl <;> decide
      unfold flowPlain
      split
      · rename_i he; exact absurd he (by simp)
      · rename_i he; simp only [List.cons.injEq] at he; exact absurd he.1 h1
      · rename_i he; simp only [List.cons.injEq] at he; exact absurd he.1 h2
      · rename_i c' r' he
        simp only [List.cons.injEq] at he
        obtain ⟨rfl, rfl⟩ := he
        simp [hfi]
  | cons c cs ih =>
    have hc := h c (by simp)
    have hcs : ∀ x ∈ cs, isTokChar x = true := fun x hx => h x (by simp [hx])
    simp only [List.cons_append]
    unfold flowPlain
    split
    · rename_i he; exact absurd he (by simp)
    · rename_i he; simp only [List.cons.injEq] at he; rw [he.1] at hc; exact absurd hc (by decide)
    · rename_i he; simp only [List.cons.injEq] at he; rw [he.1] at hc; exact absurd hc (by decide)
    · rename_i c' r' he
      simp only [List.cons.injEq] at he
      obtain ⟨rfl, rfl⟩ := he
      simp only [tok_not_flowIndicator hc, Bool.false_eq_true, if_false]
      rw [ih _ hcs]; simp

/-- a plain token inside a flow collection -/
theorem flowNode_tok (fuel k : Nat) {t : List Char} (rest : List Char) (ht : PlainTok t) (hr : FlowRest rest) :
    flowNode (fuel + 1) (spaces k ++ t ++ rest) = some (resolvePlain t, rest) := by
  obtain ⟨c, cs, rfl, hc⟩ := ht.head
  have hsp : c ≠ ' ' := fun e => by rw [e] at hc; exact absurd hc (by decide)
  have hds : dropSpaces (spaces k ++ (c :: cs) ++ rest) = (c :: cs) ++ rest := by
    induction k with
    | zero => simp [spaces, dropSpaces, hsp]
    | succ n ih =>
      simp only [spaces, List.replicate_succ, List.cons_append, dropSpaces] at ih ⊢
      simpa using ih
  have hsk : skipTag ((c :: cs) ++ rest) = (c :: cs) ++ rest := skipTag_tok (c := c) (cs := cs ++ rest) rfl hc
  have hne : ∀ x : Char, isTokChar x = false → (c == x) = false := fun x hx => by
    simp only [beq_eq_false_iff_ne]; exact isTokChar_ne hc x hx
  have hq1 : c ≠ '[' := fun e => by rw [e] at hc; exact absurd hc (by decide)
  have hq2 : c ≠ '{' := fun e => by rw [e] at hc; exact absurd hc (by decide)
  have hq3 : c ≠ '"' := fun e => by rw [e] at hc; exact absurd hc (by decide)
  have hq4 : c ≠ '\'' := fun e => by rw [e] at hc; exact absurd hc (by decide)
  rw [flowNode, hds, hsk]
  simp only [List.cons_append]
  split
  · rename_i he; simp only [List.cons.injEq] at he; exact absurd he.1 hq1
  · rename_i he; simp only [List.cons.injEq] at he; exact absurd he.1 hq2
  · rename_i he; simp only [List.cons.injEq] at he; exact absurd he.1 hq3
  · rename_i he; simp only [List.cons.injEq] at he; exact absurd he.1 hq4
  · rename_i cs' _ _ _ _
    split
    · rename_i he; exact absurd he (by simp)
    · rename_i c' r' he
      simp only [List.cons.injEq] at he
      obtain ⟨rfl, rfl⟩ := he
      simp only [hne '&' (by decide), hne '*' (by decide), hne '%' (by decide), hne '@' (by decide), hne '`' (by decide),
        hne '#' (by decide), tok_not_flowIndicator hc, Bool.or_self, Bool.false_eq_true, if_false]
      have := flowPlain_tok (c :: cs) [] rest ht.chars hr
      simp only [List.cons_append, List.reverse_nil, List.nil_append] at this
      rw [this]
      simp [trimEndSpaces_tok ht.chars]

/-- a safe key inside a flow mapping: the scan stops at `: ` -/
theorem flowPlain_key (k acc after : List Char) (hk : ∀ c ∈ k, isLowerAlnum c = true) :
    flowPlain acc (k ++ ':' :: ' ' :: after) = (trimEndSpaces (acc.reverse ++ k), ':' :: ' ' :: after) := by
  induction k generalizing acc with
  | nil => simp [flowPlain]
  | cons c cs ih =>
    have hc := alnum_tok (hk c (by simp))
    have hcs : ∀ x ∈ cs, isLowerAlnum x = true := fun x hx => hk x (by simp [hx])
    simp only [List.cons_append]
    unfold flowPlain
    split
    · rename_i he; exact absurd he (by simp)
    · rename_i he; simp only [List.cons.injEq] at he; rw [he.1] at hc; exact absurd hc (by decide)
    · rename_i he; simp only [List.cons.injEq] at he; rw [he.1] at hc; exact absurd hc (by decide)
    · rename_i c' r' he
      simp only [List.cons.injEq] at he
      obtain ⟨rfl, rfl⟩ := he
      simp only [tok_not_flowIndicator hc, Bool.false_eq_true, if_false]
      rw [ih _ hcs]; simp

theorem dropSpaces_spaces (k : Nat) {c : Char} (cs : List Char) (hc : c ≠ ' ') :
    dropSpaces (spaces k ++ c :: cs) = c :: cs := by
  induction k with
  | zero => simp [spaces, dropSpaces, hc]
  | succ n ih =>
    simp only [spaces, List.replicate_succ, List.cons_append, dropSpaces] at ih ⊢
    simpa using ih

theorem flowNode_key (fuel k : Nat) {key : List Char} (after : List Char) (hk : isSafeStr key = true) :
    flowNode (fuel + 1) (spaces k ++ key ++ ':' :: ' ' :: after) = some (.str key, ':' :: ' ' :: after) := by
  obtain ⟨c, cs, rfl, hca, hcs, hres⟩ := safe_cons hk
  have hc : isTokChar c = true := alnum_tok (alpha_alnum hca)
  have hsp : c ≠ ' ' := fun e => by rw [e] at hc; exact absurd hc (by decide)
  have hds : dropSpaces (spaces k ++ (c :: cs) ++ ':' :: ' ' :: after) = (c :: cs) ++ ':' :: ' ' :: after := by
    simpa using dropSpaces_spaces k (cs ++ ':' :: ' ' :: after) hsp
  have hsk : skipTag ((c :: cs) ++ ':' :: ' ' :: after) = (c :: cs) ++ ':' :: ' ' :: after :=
    skipTag_tok (c := c) (cs := cs ++ ':' :: ' ' :: after) rfl hc
  have hne : ∀ x : Char, isTokChar x = false → (c == x) = false := fun x hx => by
    simp only [beq_eq_false_iff_ne]; exact isTokChar_ne hc x hx
  have hq1 : c ≠ '[' := fun e => by rw [e] at hc; exact absurd hc (by decide)
  have hq2 : c ≠ '{' := fun e => by rw [e] at hc; exact absurd hc (by decide)
  have hq3 : c ≠ '"' := fun e => by rw [e] at hc; exact absurd hc (by decide)
  have hq4 : c ≠ '\'' := fun e => by rw [e] at hc; exact absurd hc (by decide)
  rw [flowNode, hds, hsk]
  simp only [List.cons_append]
  split
  · rename_i he; simp only [List.cons.injEq] at he; exact absurd he.1 hq1
  · rename_i he; simp only [List.cons.injEq] at he; exact absurd he.1 hq2
  · rename_i he; simp only [List.cons.injEq] at he; exact absurd he.1 hq3
  · rename_i he; simp only [List.cons.injEq] at he; exact absurd he.1 hq4
  · split
    · rename_i he; exact absurd he (by simp)
    · rename_i c' r' he
      simp only [List.cons.injEq] at he
      obtain ⟨rfl, rfl⟩ := he
      simp only [hne '&' (by decide), hne '*' (by decide), hne '%' (by decide), hne '@' (by decide), hne '`' (by decide),
        hne '#' (by decide), tok_not_flowIndicator hc, Bool.or_self, Bool.false_eq_true, if_false]
      have := flowPlain_key (c :: cs) [] after (safe_chars hk)
      simp only [List.cons_append, List.reverse_nil, List.nil_append] at this
      rw [this]
      simp [trimEndSpaces_tok (safe_plainTok hk).chars, resolvePlain_safe hk]

/-- first character of the flow text of a fragment value: a token character or an opening bracket -/
theorem flowTxt_head : ∀ (v : SVal), inFlowFrag v = true →
    ∃ c cs, flowTxt v = c :: cs ∧ (isTokChar c = true ∨ c = '[' ∨ c = '{')
  | .unit, _ => ⟨'n', _, rfl, Or.inl (by decide)⟩
  | .none, _ => ⟨'n', _, rfl, Or.inl (by decide)⟩
  | .bool b, _ => by cases b <;> exact ⟨_, _, rfl, Or.inl (by decide)⟩
  | .int i, _ => by obtain ⟨c, cs, e, hc⟩ := (intText_plainTok i).head; exact ⟨c, cs, by simp [flowTxt, e], Or.inl hc⟩
  | .str t, hv => by
    simp only [inFlowFrag] at hv
    obtain ⟨c, cs, e, hc⟩ := (safe_plainTok hv).head; exact ⟨c, cs, by simp [flowTxt, e], Or.inl hc⟩
  | .unitVariant _ n, hv => by
    simp only [inFlowFrag] at hv
    obtain ⟨c, cs, e, hc⟩ := (safe_plainTok hv).head; exact ⟨c, cs, by simp [flowTxt, e], Or.inl hc⟩
  | .some v, hv => by simp only [inFlowFrag] at hv; simpa [flowTxt] using flowTxt_head v hv
  | .newtypeStruct v, hv => by simp only [inFlowFrag] at hv; simpa [flowTxt] using flowTxt_head v hv
  | .seq xs, _ => ⟨'[', _, rfl, Or.inr (Or.inl rfl)⟩
  | .tuple xs, _ => ⟨'[', _, rfl, Or.inr (Or.inl rfl)⟩
  | .tupleStruct xs, _ => ⟨'[', _, rfl, Or.inr (Or.inl rfl)⟩
  | .map _ es, _ => ⟨'{', _, rfl, Or.inr (Or.inr rfl)⟩
  | .newtypeVariant _ _, _ => ⟨'{', _, rfl, Or.inr (Or.inr rfl)⟩
  | .tupleVariant _ _, _ => ⟨'{', _, rfl, Or.inr (Or.inr rfl)⟩
  | .structVariant _ _, _ => ⟨'{', _, rfl, Or.inr (Or.inr rfl)⟩
  | .flowSeq _, hv => by simp [inFlowFrag] at hv
  | .flowMap _, hv => by simp [inFlowFrag] at hv
  | .commented _ _, hv => by simp [inFlowFrag] at hv
  | .spaceAfter _, hv => by simp [inFlowFrag] at hv
  | .litStr _, hv => by simp [inFlowFrag] at hv
  | .foldStr _, hv => by simp [inFlowFrag] at hv

/-! ### the reader on flow texts -/

theorem flowNode_open_seq (fuel k : Nat) (body : List Char) :
    flowNode (fuel + 1) (spaces k ++ '[' :: body) =
      (match dropSpaces body with
       | ']' :: r => some (.seq [], r)
       | _ => (flowSeqItems fuel body).map fun (xs, r) => (.seq xs, r)) := by
  rw [flowNode, dropSpaces_spaces k body (by decide)]
  simp [skipTag]
  rfl

theorem flowNode_open_map (fuel k : Nat) (body : List Char) :
    flowNode (fuel + 1) (spaces k ++ '{' :: body) =
      (match dropSpaces body with
       | '}' :: r => some (.map [], r)
       | _ => match flowMapEntries fuel body with
         | some (es, r) => if hasDupKey es then none else some (.map es, r)
         | none => none) := by
  rw [flowNode, dropSpaces_spaces k body (by decide)]
  simp [skipTag]
  rfl

theorem flowRest_tail (t rest : List Char) (c : Char) (hc : c = ',' ∨ c = ']' ∨ c = '}') : FlowRest (c :: t ++ rest) :=
  Or.inr ⟨c, t ++ rest, rfl, hc⟩

/-- distinct string keys: the reader's duplicate-key check passes (flow fragment) -/
theorem hasDupKey_erase_flow : ∀ (es : List (SVal × SVal)), inFlowFragEntries es = true → (keysOf es).Nodup →
    hasDupKey (eraseEntries es) = false
  | [], _, _ => rfl
  | (k, v) :: es, hv, hn => by
    cases k <;> simp only [inFlowFragEntries, Bool.and_eq_true, Bool.false_and, Bool.false_eq_true, false_and] at hv
    rename_i kt
    simp only [keysOf, List.nodup_cons] at hn
    simp only [eraseEntries, erase, hasDupKey, Bool.or_eq_false_iff]
    refine ⟨?_, hasDupKey_erase_flow es hv.2 hn.2⟩
    rw [List.any_eq_false]
    intro e he
    have : ∀ (es : List (SVal × SVal)), inFlowFragEntries es = true → kt ∉ keysOf es →
        ∀ e ∈ eraseEntries es, ¬ (e.1 == PVal.str kt) = true := by
      intro es
      induction es with
      | nil => intro _ _ e he; simp [eraseEntries] at he
      | cons p ps ih =>
        obtain ⟨k', v'⟩ := p
        intro hv' hn' e he
        cases k' <;> simp only [inFlowFragEntries, Bool.and_eq_true, Bool.false_and, Bool.false_eq_true, false_and] at hv'
        rename_i kt'
        simp only [keysOf, List.mem_cons, not_or] at hn'
        simp only [eraseEntries, erase, List.mem_cons] at he
        rcases he with rfl | he
        · show ¬ (PVal.beq (PVal.str kt') (PVal.str kt)) = true
          simp only [PVal.beq, beq_iff_eq]
          exact fun e => hn'.1 e.symm
        · exact ih hv'.2 hn'.2 e he
    exact this es hv.2 hn.1 e he

/-- the reader on a flow text: `txt` (after blanks) reads as `p`, whatever follows -/
def ReadsFlow (txt : List Char) (p : PVal) : Prop :=
  ∀ (fuel k : Nat) (rest : List Char), fuel ≥ txt.length + 1 → FlowRest rest →
    flowNode fuel (spaces k ++ txt ++ rest) = some (p, rest)

/-- first character of a flow text: a token character or an opening bracket -/
def FlowHead (txt : List Char) : Prop := ∃ c cs, txt = c :: cs ∧ (isTokChar c = true ∨ c = '[' ∨ c = '{')

/-- a flow sequence, given the reader on its items -/
theorem reads_flow_seq {xs : List SVal} (hv : inFlowFragList xs = true)
    (hitems : xs ≠ [] → ∀ (fuel k : Nat) (rest : List Char), fuel ≥ (flowItems xs).length + 2 →
      flowSeqItems fuel (spaces k ++ flowItems xs ++ ']' :: rest) = some (eraseList xs, rest)) :
    ReadsFlow ('[' :: flowItems xs ++ [']']) (.seq (eraseList xs)) := by
  intro fuel k rest hf hr
  obtain ⟨f', rfl⟩ : ∃ f', fuel = f' + 1 := ⟨fuel - 1, by omega⟩
  simp only [List.cons_append, List.append_assoc, List.singleton_append] at hf ⊢
  rw [flowNode_open_seq]
  cases xs with
  | nil => simp [flowItems, dropSpaces, eraseList]
  | cons x xs' =>
    simp only [inFlowFragList, Bool.and_eq_true] at hv
    obtain ⟨c, cs, hc, hcc⟩ := flowTxt_head x hv.1
    have hi := hitems (by simp) f' 0 rest
      (by simp only [flowItems, List.length_append, List.length_cons] at hf ⊢; omega)
    simp only [flowItems, spaces, List.replicate_zero, List.nil_append, List.append_assoc] at hi ⊢
    have hne : c ≠ ' ' ∧ c ≠ ']' := by
      rcases hcc with h | rfl | rfl
      · exact ⟨fun e => by rw [e] at h; exact absurd h (by decide), fun e => by rw [e] at h; exact absurd h (by decide)⟩
      · exact ⟨by decide, by decide⟩
      · exact ⟨by decide, by decide⟩
    rw [hc] at hi ⊢
    simp only [List.cons_append, dropSpaces, List.dropWhile_cons, beq_iff_eq, hne.1, if_false] at hi ⊢
    split
    · rename_i he; simp only [List.cons.injEq] at he; exact absurd he.1 hne.2
    · rw [hi]; rfl

/-- a flow mapping, given the reader on its entries -/
theorem reads_flow_map {es : List (SVal × SVal)} (hv : inFlowFragEntries es = true) (hn : (keysOf es).Nodup)
    (hentries : es ≠ [] → ∀ (fuel k : Nat) (rest : List Char), fuel ≥ (flowEntries es).length + 2 →
      flowMapEntries fuel (spaces k ++ flowEntries es ++ '}' :: rest) = some (eraseEntries es, rest)) :
    ReadsFlow ('{' :: flowEntries es ++ ['}']) (.map (eraseEntries es)) := by
  intro fuel k rest hf hr
  obtain ⟨f', rfl⟩ : ∃ f', fuel = f' + 1 := ⟨fuel - 1, by omega⟩
  simp only [List.cons_append, List.append_assoc, List.singleton_append] at hf ⊢
  rw [flowNode_open_map]
  cases es with
  | nil => simp [flowEntries, dropSpaces, eraseEntries]
  | cons e es' =>
    obtain ⟨kk, v⟩ := e
    have hdup := hasDupKey_erase_flow ((kk, v) :: es') hv hn
    have hent := hv
    cases kk <;> simp only [inFlowFragEntries, Bool.and_eq_true, Bool.false_and, Bool.false_eq_true, false_and] at hent
    rename_i kt
    obtain ⟨c, cs, rfl, hca, _, _⟩ := safe_cons hent.1.1
    have hi := hentries (by simp) f' 0 rest
      (by simp only [flowEntries, keyOf, Option.getD_some, List.length_append, List.length_cons] at hf ⊢; omega)
    simp only [flowEntries, keyOf, Option.getD_some, spaces, List.replicate_zero, List.nil_append, List.append_assoc,
      List.cons_append] at hi ⊢
    have hne : c ≠ ' ' ∧ c ≠ '}' :=
      ⟨fun e => by rw [e] at hca; exact absurd hca (by decide), fun e => by rw [e] at hca; exact absurd hca (by decide)⟩
    simp only [dropSpaces, List.dropWhile_cons, beq_iff_eq, hne.1, if_false]
    split
    · rename_i he; simp only [List.cons.injEq] at he; exact absurd he.1 hne.2
    · rw [hi]; simp [hdup]

/-- `{Variant: payload}` inside a flow collection reads as the one-entry mapping -/
theorem reads_flow_variant {n : List Char} (hn : isSafeStr n = true) {txt : List Char} {p : PVal}
    (hh : FlowHead txt) (hr : ReadsFlow txt p) : ReadsFlow (flowVariant n txt) (.map [(.str n, p)]) := by
  intro fuel k rest hf hrest
  obtain ⟨c, cs, hc, hcc⟩ := hh
  have hne : c ≠ ' ' ∧ c ≠ ',' ∧ c ≠ ']' ∧ c ≠ '}' := by
    rcases hcc with h | rfl | rfl
    · exact ⟨fun e => by rw [e] at h; exact absurd h (by decide), fun e => by rw [e] at h; exact absurd h (by decide),
        fun e => by rw [e] at h; exact absurd h (by decide), fun e => by rw [e] at h; exact absurd h (by decide)⟩
    · exact ⟨by decide, by decide, by decide, by decide⟩
    · exact ⟨by decide, by decide, by decide, by decide⟩
  obtain ⟨c0, cs0, rfl, hca, _, _⟩ := safe_cons hn
  have hne0 : c0 ≠ ' ' ∧ c0 ≠ '}' :=
    ⟨fun e => by rw [e] at hca; exact absurd hca (by decide), fun e => by rw [e] at hca; exact absurd hca (by decide)⟩
  simp only [flowVariant, List.length_cons, List.length_append, List.length_nil] at hf
  obtain ⟨f', rfl⟩ : ∃ f', fuel = f' + 3 := ⟨fuel - 3, by omega⟩
  have h1 := flowNode_key f' 0 (txt ++ '}' :: rest) hn
  have h2 := hr f' 0 ('}' :: rest) (by omega) (Or.inr ⟨'}', rest, rfl, Or.inr (Or.inr rfl)⟩)
  simp only [List.append_assoc, List.cons_append, List.singleton_append, List.nil_append,
    spaces, List.replicate_zero] at h1 h2
  simp only [flowVariant, List.append_assoc, List.cons_append, List.singleton_append, List.nil_append]
  rw [show f' + 3 = (f' + 2) + 1 from rfl, flowNode_open_map]
  simp only [dropSpaces, List.dropWhile_cons, beq_iff_eq, hne0.1, if_false]
  split
  · rename_i he; simp only [List.cons.injEq] at he; exact absurd he.1 hne0.2
  · rw [show f' + 2 = f' + 1 + 1 from rfl, flowMapEntries]
    have h1' : flowNode (f' + 1) (c0 :: (cs0 ++ ':' :: ' ' :: (txt ++ '}' :: rest))) =
        some (PVal.str (c0 :: cs0), ':' :: ' ' :: (txt ++ '}' :: rest)) := by simpa using h1
    rw [h1']
    rw [hc] at h2 ⊢
    simp only [List.cons_append] at h2 ⊢
    simp [dropSpaces, flowValue, hne.1, hne.2.1, hne.2.2.1, hne.2.2.2, h2, hasDupKey]

mutual
theorem read_flow : ∀ (v : SVal), inFlowFrag v = true → ∀ (fuel k : Nat) (rest : List Char),
    fuel ≥ (flowTxt v).length + 1 → FlowRest rest →
    flowNode fuel (spaces k ++ flowTxt v ++ rest) = some (erase v, rest)
  | .unit, _, fuel, k, rest, hf, hr => by
    obtain ⟨f', rfl⟩ : ∃ f', fuel = f' + 1 := ⟨fuel - 1, by omega⟩
    simpa [flowTxt, erase, resolvePlain_null] using flowNode_tok f' k rest (plainTok_null) hr
  | .none, _, fuel, k, rest, hf, hr => by
    obtain ⟨f', rfl⟩ : ∃ f', fuel = f' + 1 := ⟨fuel - 1, by omega⟩
    simpa [flowTxt, erase, resolvePlain_null] using flowNode_tok f' k rest (plainTok_null) hr
  | .bool b, _, fuel, k, rest, hf, hr => by
    obtain ⟨f', rfl⟩ : ∃ f', fuel = f' + 1 := ⟨fuel - 1, by omega⟩
    cases b
    · simpa [flowTxt, erase, resolvePlain_false] using flowNode_tok f' k rest plainTok_false hr
    · simpa [flowTxt, erase, resolvePlain_true] using flowNode_tok f' k rest plainTok_true hr
  | .int i, _, fuel, k, rest, hf, hr => by
    obtain ⟨f', rfl⟩ : ∃ f', fuel = f' + 1 := ⟨fuel - 1, by omega⟩
    simpa [flowTxt, erase, resolvePlain_int] using flowNode_tok f' k rest (intText_plainTok i) hr
  | .str t, hv, fuel, k, rest, hf, hr => by
    simp only [inFlowFrag] at hv
    obtain ⟨f', rfl⟩ : ∃ f', fuel = f' + 1 := ⟨fuel - 1, by omega⟩
    simpa [flowTxt, erase, resolvePlain_safe hv] using flowNode_tok f' k rest (safe_plainTok hv) hr
  | .unitVariant e n, hv, fuel, k, rest, hf, hr => by
    simp only [inFlowFrag] at hv
    obtain ⟨f', rfl⟩ : ∃ f', fuel = f' + 1 := ⟨fuel - 1, by omega⟩
    simpa [flowTxt, erase, resolvePlain_safe hv] using flowNode_tok f' k rest (safe_plainTok hv) hr
  | .some v, hv, fuel, k, rest, hf, hr => by
    simp only [inFlowFrag] at hv
    simpa [flowTxt, erase] using read_flow v hv fuel k rest (by simpa [flowTxt] using hf) hr
  | .newtypeStruct v, hv, fuel, k, rest, hf, hr => by
    simp only [inFlowFrag] at hv
    simpa [flowTxt, erase] using read_flow v hv fuel k rest (by simpa [flowTxt] using hf) hr
  | .seq xs, hv, fuel, k, rest, hf, hr => by
    simp only [inFlowFrag] at hv
    simpa [flowTxt, erase] using reads_flow_seq hv (fun hne => read_flow_items xs hne hv) fuel k rest
      (by simpa [flowTxt] using hf) hr
  | .tuple xs, hv, fuel, k, rest, hf, hr => by
    simp only [inFlowFrag] at hv
    simpa [flowTxt, erase] using reads_flow_seq hv (fun hne => read_flow_items xs hne hv) fuel k rest
      (by simpa [flowTxt] using hf) hr
  | .tupleStruct xs, hv, fuel, k, rest, hf, hr => by
    simp only [inFlowFrag] at hv
    simpa [flowTxt, erase] using reads_flow_seq hv (fun hne => read_flow_items xs hne hv) fuel k rest
      (by simpa [flowTxt] using hf) hr
  | .map known es, hv, fuel, k, rest, hf, hr => by
    simp only [inFlowFrag, Bool.and_eq_true, decide_eq_true_eq] at hv
    simpa [flowTxt, erase] using reads_flow_map hv.1 hv.2 (fun hne => read_flow_entries es hne hv.1) fuel k rest
      (by simpa [flowTxt] using hf) hr
  | .newtypeVariant n v, hv, fuel, k, rest, hf, hr => by
    simp only [inFlowFrag, Bool.and_eq_true] at hv
    simpa [flowTxt, erase] using reads_flow_variant hv.1 (flowTxt_head v hv.2)
      (fun fuel k rest hf hr => read_flow v hv.2 fuel k rest hf hr) fuel k rest (by simpa [flowTxt] using hf) hr
  | .tupleVariant n xs, hv, fuel, k, rest, hf, hr => by
    simp only [inFlowFrag, Bool.and_eq_true] at hv
    simpa [flowTxt, erase] using reads_flow_variant hv.1 ⟨'[', _, rfl, Or.inr (Or.inl rfl)⟩
      (reads_flow_seq hv.2 (fun hne => read_flow_items xs hne hv.2)) fuel k rest (by simpa [flowTxt] using hf) hr
  | .structVariant n fs, hv, fuel, k, rest, hf, hr => by
    simp only [inFlowFrag, Bool.and_eq_true, decide_eq_true_eq] at hv
    simpa [flowTxt, erase] using reads_flow_variant hv.1 ⟨'{', _, rfl, Or.inr (Or.inr rfl)⟩
      (reads_flow_map hv.2.1 hv.2.2 (fun hne => read_flow_entries fs hne hv.2.1)) fuel k rest
      (by simpa [flowTxt] using hf) hr
  | .flowSeq _, hv, _, _, _, _, _ => by simp [inFlowFrag] at hv
  | .flowMap _, hv, _, _, _, _, _ => by simp [inFlowFrag] at hv
  | .commented _ _, hv, _, _, _, _, _ => by simp [inFlowFrag] at hv
  | .spaceAfter _, hv, _, _, _, _, _ => by simp [inFlowFrag] at hv
  | .litStr _, hv, _, _, _, _, _ => by simp [inFlowFrag] at hv
  | .foldStr _, hv, _, _, _, _, _ => by simp [inFlowFrag] at hv
/-- the items of a non-empty flow sequence up to and including `]` -/
theorem read_flow_items : ∀ (xs : List SVal), xs ≠ [] → inFlowFragList xs = true → ∀ (fuel k : Nat) (rest : List Char),
    fuel ≥ (flowItems xs).length + 2 →
    flowSeqItems fuel (spaces k ++ flowItems xs ++ ']' :: rest) = some (eraseList xs, rest)
  | [], hne, _, _, _, _, _ => absurd rfl hne
  | [x], _, hv, fuel, k, rest, hf => by
    simp only [inFlowFragList, Bool.and_eq_true, and_true] at hv
    simp only [flowItems, flowItemsTail, List.append_nil] at hf ⊢
    obtain ⟨f', rfl⟩ : ∃ f', fuel = f' + 1 := ⟨fuel - 1, by omega⟩
    have h1 := read_flow x hv f' k (']' :: rest) (by omega) (Or.inr ⟨']', rest, rfl, Or.inr (Or.inl rfl)⟩)
    rw [flowSeqItems, h1]
    simp [dropSpaces, eraseList]
  | x :: y :: ys, _, hv, fuel, k, rest, hf => by
    simp only [inFlowFragList, Bool.and_eq_true] at hv
    obtain ⟨c, cs, hc, hcc⟩ := flowTxt_head y hv.2.1
    have hne : c ≠ ' ' ∧ c ≠ ']' := by
      rcases hcc with h | rfl | rfl
      · exact ⟨fun e => by rw [e] at h; exact absurd h (by decide), fun e => by rw [e] at h; exact absurd h (by decide)⟩
      · exact ⟨by decide, by decide⟩
      · exact ⟨by decide, by decide⟩
    simp only [flowItems, flowItemsTail, List.length_append, List.length_cons] at hf
    obtain ⟨f', rfl⟩ : ∃ f', fuel = f' + 1 := ⟨fuel - 1, by omega⟩
    have h1 := read_flow x hv.1 f' k (',' :: ' ' :: flowTxt y ++ flowItemsTail ys ++ ']' :: rest) (by omega)
      (Or.inr ⟨',', _, rfl, Or.inl rfl⟩)
    have h2 := read_flow_items (y :: ys) (by simp) (by simp [inFlowFragList, hv.2.1, hv.2.2]) f' 1 rest
      (by simp only [flowItems, List.length_append]; omega)
    simp only [flowItems, flowItemsTail, List.append_assoc, List.cons_append, spaces, List.replicate_succ,
      List.replicate_zero, List.nil_append] at h1 h2 ⊢
    rw [flowSeqItems, h1]
    rw [hc] at h2 ⊢
    simp only [List.cons_append, dropSpaces, List.dropWhile_cons, beq_iff_eq, hne.1, if_false, if_true, List.dropWhile_nil] at h2 ⊢
    simp [dropSpaces, hne.1, hne.2, h2, eraseList]
/-- the entries of a non-empty flow mapping up to and including `}` -/
theorem read_flow_entries : ∀ (es : List (SVal × SVal)), es ≠ [] → inFlowFragEntries es = true → ∀ (fuel k : Nat) (rest : List Char),
    fuel ≥ (flowEntries es).length + 2 →
    flowMapEntries fuel (spaces k ++ flowEntries es ++ '}' :: rest) = some (eraseEntries es, rest)
  | [], hne, _, _, _, _, _ => absurd rfl hne
  | [(kk, v)], _, hv, fuel, k, rest, hf => by
    cases kk <;> simp only [inFlowFragEntries, Bool.and_eq_true, Bool.false_and, Bool.false_eq_true, false_and, and_true] at hv
    rename_i kt
    obtain ⟨c, cs, hc, hcc⟩ := flowTxt_head v hv.2
    have hne : c ≠ ' ' ∧ c ≠ ',' ∧ c ≠ ']' ∧ c ≠ '}' := by
      rcases hcc with h | rfl | rfl
      · exact ⟨fun e => by rw [e] at h; exact absurd h (by decide), fun e => by rw [e] at h; exact absurd h (by decide),
          fun e => by rw [e] at h; exact absurd h (by decide), fun e => by rw [e] at h; exact absurd h (by decide)⟩
      · exact ⟨by decide, by decide, by decide, by decide⟩
      · exact ⟨by decide, by decide, by decide, by decide⟩
    simp only [flowEntries, flowEntriesTail, keyOf, Option.getD_some, List.append_nil, List.length_append, List.length_cons] at hf
    obtain ⟨f', rfl⟩ : ∃ f', fuel = f' + 2 := ⟨fuel - 2, by omega⟩
    have h1 := flowNode_key f' k (flowTxt v ++ '}' :: rest) hv.1
    have h2 := read_flow v hv.2 f' 0 ('}' :: rest) (by omega) (Or.inr ⟨'}', rest, rfl, Or.inr (Or.inr rfl)⟩)
    simp only [flowEntries, flowEntriesTail, keyOf, Option.getD_some, List.append_nil, List.append_assoc, List.cons_append,
      spaces, List.replicate_zero, List.nil_append] at h1 h2 ⊢
    rw [show f' + 2 = f' + 1 + 1 from rfl, flowMapEntries, h1]
    rw [hc] at h2 ⊢
    simp only [List.cons_append] at h2 ⊢
    simp [dropSpaces, flowValue, hne.1, hne.2.1, hne.2.2.1, hne.2.2.2, h2, eraseEntries, erase]
  | (kk, v) :: (kk2, v2) :: es, _, hv, fuel, k, rest, hf => by
    cases kk <;> simp only [inFlowFragEntries, Bool.and_eq_true, Bool.false_and, Bool.false_eq_true, false_and] at hv
    rename_i kt
    cases kk2 <;> simp only [inFlowFragEntries, Bool.and_eq_true, Bool.false_and, Bool.false_eq_true, false_and, and_false] at hv
    rename_i kt2
    obtain ⟨c, cs, hc, hcc⟩ := flowTxt_head v hv.1.2
    have hne : c ≠ ' ' ∧ c ≠ ',' ∧ c ≠ ']' ∧ c ≠ '}' := by
      rcases hcc with h | rfl | rfl
      · exact ⟨fun e => by rw [e] at h; exact absurd h (by decide), fun e => by rw [e] at h; exact absurd h (by decide),
          fun e => by rw [e] at h; exact absurd h (by decide), fun e => by rw [e] at h; exact absurd h (by decide)⟩
      · exact ⟨by decide, by decide, by decide, by decide⟩
      · exact ⟨by decide, by decide, by decide, by decide⟩
    obtain ⟨c2, cs2, rfl, hca2, _, _⟩ := safe_cons hv.2.1.1
    have hne2 : c2 ≠ ' ' ∧ c2 ≠ '}' :=
      ⟨fun e => by rw [e] at hca2; exact absurd hca2 (by decide), fun e => by rw [e] at hca2; exact absurd hca2 (by decide)⟩
    simp only [flowEntries, flowEntriesTail, keyOf, Option.getD_some, List.length_append, List.length_cons] at hf
    obtain ⟨f', rfl⟩ : ∃ f', fuel = f' + 2 := ⟨fuel - 2, by omega⟩
    have h1 := flowNode_key f' k (flowTxt v ++ ',' :: ' ' :: (c2 :: cs2) ++ ':' :: ' ' :: flowTxt v2 ++ flowEntriesTail es ++ '}' :: rest) hv.1.1
    have h2 := read_flow v hv.1.2 f' 0 (',' :: ' ' :: (c2 :: cs2) ++ ':' :: ' ' :: flowTxt v2 ++ flowEntriesTail es ++ '}' :: rest)
      (by omega) (Or.inr ⟨',', _, rfl, Or.inl rfl⟩)
    have h3 := read_flow_entries ((SVal.str (c2 :: cs2), v2) :: es) (by simp)
      (by simp [inFlowFragEntries, hv.2.1.1, hv.2.1.2, hv.2.2]) (f' + 1) 1 rest
      (by simp only [flowEntries, keyOf, Option.getD_some, List.length_append, List.length_cons]; omega)
    simp only [flowEntries, flowEntriesTail, keyOf, Option.getD_some, List.append_assoc, List.cons_append,
      spaces, List.replicate_succ, List.replicate_zero, List.nil_append] at h1 h2 h3 ⊢
    rw [show f' + 2 = f' + 1 + 1 from rfl, flowMapEntries, h1]
    rw [hc] at h2 ⊢
    simp only [List.cons_append] at h2 ⊢
    simp [dropSpaces, flowValue, hne.1, hne.2.1, hne.2.2.1, hne.2.2.2, hne2.1, hne2.2, h2, h3, eraseEntries, erase]
end

/-! ### characters of the flow text, the root -/

theorem flowVariant_lay {n txt : List Char} (hn : isSafeStr n = true) (ht : AllLay txt) : AllLay (flowVariant n txt) := by
  have h : AllLay (['{'] ++ (n ++ ([':', ' '] ++ (txt ++ ['}'])))) :=
    AllLay.append (allLay_lit _ (by decide)) ((allLay_safe hn).append
      (AllLay.append (allLay_lit _ (by decide)) (ht.append (allLay_lit ['}'] (by decide)))))
  simpa [flowVariant] using h

mutual
theorem flowTxt_lay : ∀ (v : SVal), inFlowFrag v = true → AllLay (flowTxt v)
  | .unit, _ => allLay_lit _ (by decide)
  | .none, _ => allLay_lit _ (by decide)
  | .bool b, _ => by cases b <;> exact allLay_lit _ (by decide)
  | .int i, _ => allLay_tok (intText_plainTok i)
  | .str t, hv => by simp only [inFlowFrag] at hv; exact allLay_safe hv
  | .unitVariant _ n, hv => by simp only [inFlowFrag] at hv; exact allLay_safe hv
  | .some v, hv => by simp only [inFlowFrag] at hv; simpa [flowTxt] using flowTxt_lay v hv
  | .newtypeStruct v, hv => by simp only [inFlowFrag] at hv; simpa [flowTxt] using flowTxt_lay v hv
  | .seq xs, hv => by
    simp only [inFlowFrag] at hv
    simp only [flowTxt]
    exact AllLay.append (a := '[' :: flowItems xs) (AllLay.append (a := ['[']) (allLay_lit _ (by decide)) (flowItems_lay xs hv).1)
      (allLay_lit [']'] (by decide))
  | .tuple xs, hv => by
    simp only [inFlowFrag] at hv
    simp only [flowTxt]
    exact AllLay.append (a := '[' :: flowItems xs) (AllLay.append (a := ['[']) (allLay_lit _ (by decide)) (flowItems_lay xs hv).1)
      (allLay_lit [']'] (by decide))
  | .map _ es, hv => by
    simp only [inFlowFrag, Bool.and_eq_true] at hv
    simp only [flowTxt]
    exact AllLay.append (a := '{' :: flowEntries es) (AllLay.append (a := ['{']) (allLay_lit _ (by decide)) (flowEntries_lay es hv.1).1)
      (allLay_lit ['}'] (by decide))
  | .tupleStruct xs, hv => by
    simp only [inFlowFrag] at hv
    simp only [flowTxt]
    exact AllLay.append (a := '[' :: flowItems xs) (AllLay.append (a := ['[']) (allLay_lit _ (by decide)) (flowItems_lay xs hv).1)
      (allLay_lit [']'] (by decide))
  | .newtypeVariant n v, hv => by
    simp only [inFlowFrag, Bool.and_eq_true] at hv
    simp only [flowTxt]
    exact flowVariant_lay hv.1 (flowTxt_lay v hv.2)
  | .tupleVariant n xs, hv => by
    simp only [inFlowFrag, Bool.and_eq_true] at hv
    simp only [flowTxt]
    exact flowVariant_lay hv.1 (AllLay.append (a := '[' :: flowItems xs)
      (AllLay.append (a := ['[']) (allLay_lit _ (by decide)) (flowItems_lay xs hv.2).1) (allLay_lit [']'] (by decide)))
  | .structVariant n fs, hv => by
    simp only [inFlowFrag, Bool.and_eq_true] at hv
    simp only [flowTxt]
    exact flowVariant_lay hv.1 (AllLay.append (a := '{' :: flowEntries fs)
      (AllLay.append (a := ['{']) (allLay_lit _ (by decide)) (flowEntries_lay fs hv.2.1).1) (allLay_lit ['}'] (by decide)))
  | .flowSeq _, hv => by simp [inFlowFrag] at hv
  | .flowMap _, hv => by simp [inFlowFrag] at hv
  | .commented _ _, hv => by simp [inFlowFrag] at hv
  | .spaceAfter _, hv => by simp [inFlowFrag] at hv
  | .litStr _, hv => by simp [inFlowFrag] at hv
  | .foldStr _, hv => by simp [inFlowFrag] at hv
theorem flowItems_lay : ∀ (xs : List SVal), inFlowFragList xs = true → AllLay (flowItems xs) ∧ AllLay (flowItemsTail xs)
  | [], _ => ⟨allLay_nil, allLay_nil⟩
  | x :: xs, hv => by
    simp only [inFlowFragList, Bool.and_eq_true] at hv
    have h1 := flowTxt_lay x hv.1
    have h2 := (flowItems_lay xs hv.2).2
    exact ⟨h1.append h2, AllLay.append (a := [',', ' ']) (allLay_lit _ (by decide)) (h1.append h2)⟩
theorem flowEntries_lay : ∀ (es : List (SVal × SVal)), inFlowFragEntries es = true →
    AllLay (flowEntries es) ∧ AllLay (flowEntriesTail es)
  | [], _ => ⟨allLay_nil, allLay_nil⟩
  | (k, v) :: es, hv => by
    cases k <;> simp only [inFlowFragEntries, Bool.and_eq_true, Bool.false_and, Bool.false_eq_true, false_and] at hv
    rename_i kt
    have h1 := flowTxt_lay v hv.1.2
    have h2 := (flowEntries_lay es hv.2).2
    have h3 : AllLay (kt ++ ':' :: ' ' :: flowTxt v ++ flowEntriesTail es) := by
      simpa using (allLay_safe hv.1.1).append (AllLay.append (a := [':', ' ']) (allLay_lit _ (by decide)) (h1.append h2))
    refine ⟨by simpa [flowEntries, keyOf] using h3, ?_⟩
    simpa [flowEntriesTail, keyOf] using AllLay.append (a := [',', ' ']) (allLay_lit _ (by decide)) h3
end

/-- a one-line flow collection as the only line of a document: a good line that reads as the collection -/
theorem flow_line_root (t : List Char) (pv : PVal) (hl : AllLay t)
    (hs : ∃ cs, t = '[' :: cs ∨ t = '{' :: cs)
    (hread : flowNode (t.length + 2) t = some (pv, [])) :
    AllGood [⟨0, t⟩] ∧ ∀ fuel, fuel ≥ 2 * mu [⟨0, t⟩] + 2 → blockNode fuel 0 none false [⟨0, t⟩] = some (pv, []) := by
  have hgl : GoodLine ⟨0, t⟩ := bracketLine_good hs hl
  refine ⟨AllGood.cons hgl allGood_nil, ?_⟩
  intro fuel hf
  obtain ⟨f', rfl⟩ : ∃ f', fuel = f' + 1 := ⟨fuel - 1, by omega⟩
  rw [blockNode, skipBlank_cons [] (goodLine_notSkippable hgl)]
  obtain ⟨cs, h | h⟩ := hs
  · subst h
    simp [classify, skipTag, flowAcross, hread] at hread ⊢
  · subst h
    simp [classify, skipTag, flowAcross, hread] at hread ⊢

/-- a one-line flow collection, read as a document -/
theorem readDoc_flow_line (t : List Char) (pv : PVal) (hl : AllLay t)
    (hs : ∃ cs, t = '[' :: cs ∨ t = '{' :: cs)
    (hread : flowNode (t.length + 2) t = some (pv, [])) : readDoc (t ++ ['\n']) = some pv := by
  obtain ⟨hg, hr⟩ := flow_line_root t pv hl hs hread
  have := readDoc_of_lines [⟨0, t⟩] pv hg (FirstLine.ofGood (bracketLine_good hs hl) _) hr
  simpa [renderLines, spaces] using this

/-- … after the prologue of `yaml_12` -/
theorem readDoc_flow_line_pro (o : Opts) (t : List Char) (pv : PVal) (hl : AllLay t)
    (hs : ∃ cs, t = '[' :: cs ∨ t = '{' :: cs)
    (hread : flowNode (t.length + 2) t = some (pv, [])) : readDoc (prologue o ++ t ++ ['\n']) = some pv := by
  obtain ⟨hg, hr⟩ := flow_line_root t pv hl hs hread
  unfold prologue
  cases o.yaml12
  · have := readDoc_of_lines [⟨0, t⟩] pv hg (FirstLine.ofGood (bracketLine_good hs hl) _) hr
    simpa [renderLines, spaces] using this
  · have := readDoc_of_lines_pro [⟨0, t⟩] pv hg hr
    simpa [renderLines, spaces] using this

/-! ### the flow wrappers at the root -/

section
variable {o : Opts} {f : ScalarFns}

theorem serializeSeq_flow_root (ho : PlainOpts o) :
    (serializeSeq o ({ pendingFlow := some .anySeq } : St)).1.flow = true ∧
    (serializeSeq o ({ pendingFlow := some .anySeq } : St)).1.first = true ∧
    (serializeSeq o ({ pendingFlow := some .anySeq } : St)).1.restoreShift = none ∧
    (serializeSeq o ({ pendingFlow := some .anySeq } : St)).2.out = prologue o ++ ['['] ∧
    Mid (serializeSeq o ({ pendingFlow := some .anySeq } : St)).2 ∧
    (serializeSeq o ({ pendingFlow := some .anySeq } : St)).2.pendingSpaceAfterColon = false ∧
    (serializeSeq o ({ pendingFlow := some .anySeq } : St)).2.inFlow = 0 := by
  refine ⟨?_, ?_, ?_, ?_, ⟨?_, ?_⟩, ?_, ?_⟩ <;> cases hy : o.yaml12 <;>
    simp [serializeSeq, takeFlow, writeSpaceIfPending, indentIfLineStart, writeIndent, indentCols, St.write, spaces, prologue,
      prologueText, hy]

theorem serializeMap_flow_root (ho : PlainOpts o) (len : Option Nat) :
    (serializeMap o len ({ pendingFlow := some .anyMap } : St)).1.flow = true ∧
    (serializeMap o len ({ pendingFlow := some .anyMap } : St)).1.first = true ∧
    (serializeMap o len ({ pendingFlow := some .anyMap } : St)).1.restoreShift = none ∧
    (serializeMap o len ({ pendingFlow := some .anyMap } : St)).2.out = prologue o ++ ['{'] ∧
    Mid (serializeMap o len ({ pendingFlow := some .anyMap } : St)).2 ∧
    (serializeMap o len ({ pendingFlow := some .anyMap } : St)).2.pendingSpaceAfterColon = false ∧
    (serializeMap o len ({ pendingFlow := some .anyMap } : St)).2.inFlow = 0 := by
  refine ⟨?_, ?_, ?_, ?_, ⟨?_, ?_⟩, ?_, ?_⟩ <;> cases hy : o.yaml12 <;>
    simp [serializeMap, takeFlow, writeSpaceIfPending, indentIfLineStart, writeIndent, indentCols, St.write, spaces, prologue,
      prologueText, hy]

/-- `FlowSeq(seq)` at the root: one line, the flow text -/
theorem emit_flowSeq (ho : PlainOpts o) (hf : SafeContract f) (xs : List SVal) (hv : inFlowFragList xs = true) :
    emit o f (.flowSeq (.seq xs)) = .ok (prologue o ++ flowTxt (.seq xs) ++ ['\n']) := by
  obtain ⟨hq1, hq2, hq3, hout1, hm1, hp1, hi1⟩ := serializeSeq_flow_root (o := o) ho
  obtain ⟨q', s', he, hqf, hqr, hout, hm, hp, hi⟩ := ser_flow_items ho hf xs hv _ (serializeSeq o _).1 hq1 hm1 hp1
  have h0 : (s'.inFlow == 0) = true := by rw [hi, hi1]; rfl
  have hr : q'.restoreShift = none := by rw [hqr, hq3]
  have hne : (o.indentStep == 0) = false := by have := ho.indent; simp; omega
  simp only [emit, hne, Bool.false_eq_true, if_false]
  rw [ser]
  show (match ser o f (.seq xs) { pendingFlow := some .anySeq } with
        | Except.error e => Except.error e
        | Except.ok s => Except.ok s.out) = _
  rw [ser_seq, he]
  simp [seqEnd, hr, hqf, St.write, newline, h0, hout, hout1, hq2, flowTxt, List.append_assoc]

/-- `FlowMap(map)` at the root -/
theorem emit_flowMap (ho : PlainOpts o) (hf : SafeContract f) (known : Bool) (es : List (SVal × SVal))
    (hv : inFlowFragEntries es = true) :
    emit o f (.flowMap (.map known es)) = .ok (prologue o ++ flowTxt (.map known es) ++ ['\n']) := by
  obtain ⟨hq1, hq2, hq3, hout1, hm1, hp1, hi1⟩ := serializeMap_flow_root (o := o) ho (if known then some es.length else none)
  obtain ⟨m', s', he, hmf, hmr, hout, hm, hp, hi⟩ := ser_flow_entries ho hf es hv _ (serializeMap o _ _).1 hq1 hm1 hp1
  have h0 : (s'.inFlow == 0) = true := by rw [hi, hi1]; rfl
  have hr : m'.restoreShift = none := by rw [hmr, hq3]
  have hne : (o.indentStep == 0) = false := by have := ho.indent; simp; omega
  simp only [emit, hne, Bool.false_eq_true, if_false]
  rw [ser]
  show (match ser o f (.map known es) { pendingFlow := some .anyMap } with
        | Except.error e => Except.error e
        | Except.ok s => Except.ok s.out) = _
  rw [ser_map, he]
  simp [mapEnd, hr, hmf, St.write, newline, h0, hout, hout1, hq2, flowTxt, List.append_assoc]

end

/-- the reader on the one-line flow text of a sequence / mapping of the flow fragment -/
theorem read_flow_doc (v : SVal) (hv : inFlowFrag v = true) (hs : ∃ cs, flowTxt v = '[' :: cs ∨ flowTxt v = '{' :: cs) :
    readDoc (flowTxt v ++ ['\n']) = some (erase v) := by
  refine readDoc_flow_line _ _ (flowTxt_lay v hv) hs ?_
  have := read_flow v hv ((flowTxt v).length + 2) 0 [] (by omega) (Or.inl rfl)
  simpa [spaces] using this

/-- … after the prologue of `yaml_12` -/
theorem read_flow_doc_pro (o : Opts) (v : SVal) (hv : inFlowFrag v = true) (hs : ∃ cs, flowTxt v = '[' :: cs ∨ flowTxt v = '{' :: cs) :
    readDoc (prologue o ++ flowTxt v ++ ['\n']) = some (erase v) := by
  refine readDoc_flow_line_pro o _ _ (flowTxt_lay v hv) hs ?_
  have := read_flow v hv ((flowTxt v).length + 2) 0 [] (by omega) (Or.inl rfl)
  simpa [spaces] using this

end SaphyrVerif.Emit
