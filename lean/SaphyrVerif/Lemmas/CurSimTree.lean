import SaphyrVerif.Spec.Expand
import SaphyrVerif.Spec.Interp
/-!
Cursor simulation, part 5: the bridge between the two specifications.  The events of an expansion
(`Spec/Expand.lean`: the document with every alias replaced by the recorded buffer of its anchor) are the
flattening of a tree of logical events (`Spec/Interp.lean`: `ENode`, `eflatten`), and `treeOf` recovers
that tree.
-/
namespace SaphyrVerif.Lemmas.CurSim
open SaphyrVerif SaphyrVerif.Scalars SaphyrVerif.Pump SaphyrVerif.De SaphyrVerif.Spec

/-! ### `parseNode` inverts `eflatten` -/

theorem eflatten_head (n : ENode) :
    ∃ e tl, eflatten n = e :: tl ∧ (∀ l, e ≠ .seqEnd l) ∧ (∀ l, e ≠ .mapEnd l) := by
  cases n with
  | scalar v tag rt st a l =>
    refine ⟨_, _, by rw [eflatten], ?_, ?_⟩ <;> (intro l h; cases h)
  | seq a tag rt l el items =>
    refine ⟨_, _, by rw [eflatten], ?_, ?_⟩ <;> (intro l h; cases h)
  | map a l el entries =>
    refine ⟨_, _, by rw [eflatten], ?_, ?_⟩ <;> (intro l h; cases h)

theorem eflatten_length_pos (n : ENode) : 1 ≤ (eflatten n).length := by
  obtain ⟨e, tl, h, -, -⟩ := eflatten_head n
  rw [h]; simp

mutual
theorem parseNode_eflatten : ∀ (n : ENode) (rest : List Ev) (fuel : Nat), (eflatten n).length ≤ fuel →
    parseNode fuel (eflatten n ++ rest) = some (n, rest)
  | .scalar v tag rt st a l, rest, fuel, h => by
    rw [eflatten] at h ⊢
    obtain ⟨f, rfl⟩ : ∃ f, fuel = f + 1 := ⟨fuel - 1, by simp at h; omega⟩
    simp [parseNode]
  | .seq a tag rt l el items, rest, fuel, h => by
    rw [eflatten] at h ⊢
    obtain ⟨f, rfl⟩ : ∃ f, fuel = f + 1 := ⟨fuel - 1, by simp at h; omega⟩
    have := parseItems_eflatten items el rest f (by simp at h; omega)
    simp only [List.cons_append, List.append_assoc, List.nil_append, parseNode]
    rw [this]
  | .map a l el entries, rest, fuel, h => by
    rw [eflatten] at h ⊢
    obtain ⟨f, rfl⟩ : ∃ f, fuel = f + 1 := ⟨fuel - 1, by simp at h; omega⟩
    have := parseEntries_eflatten entries el rest f (by simp at h; omega)
    simp only [List.cons_append, List.append_assoc, List.nil_append, parseNode]
    rw [this]
theorem parseItems_eflatten : ∀ (ns : List ENode) (el : Loc) (rest : List Ev) (fuel : Nat),
    (eflattenL ns).length + 1 ≤ fuel →
    parseItems fuel (eflattenL ns ++ .seqEnd el :: rest) = some (ns, el, rest)
  | [], el, rest, fuel, h => by
    obtain ⟨f, rfl⟩ : ∃ f, fuel = f + 1 := ⟨fuel - 1, by omega⟩
    simp [eflattenL, parseItems]
  | n :: ns, el, rest, fuel, h => by
    obtain ⟨f, rfl⟩ : ∃ f, fuel = f + 1 := ⟨fuel - 1, by omega⟩
    rw [eflattenL] at h ⊢
    have hpos := eflatten_length_pos n
    simp only [List.length_append] at h
    have h1 := parseNode_eflatten n (eflattenL ns ++ .seqEnd el :: rest) f (by omega)
    have h2 := parseItems_eflatten ns el rest f (by omega)
    obtain ⟨e, tl, he, hne, -⟩ := eflatten_head n
    rw [List.append_assoc]
    rw [parseItems]
    · rw [h1]
      simp only []
      rw [h2]
    · intro el' rest' heq
      rw [he] at heq
      simp only [List.cons_append, List.cons.injEq] at heq
      exact hne _ heq.1
theorem parseEntries_eflatten : ∀ (es : List (ENode × ENode)) (el : Loc) (rest : List Ev) (fuel : Nat),
    (eflattenE es).length + 1 ≤ fuel →
    parseEntries fuel (eflattenE es ++ .mapEnd el :: rest) = some (es, el, rest)
  | [], el, rest, fuel, h => by
    obtain ⟨f, rfl⟩ : ∃ f, fuel = f + 1 := ⟨fuel - 1, by omega⟩
    simp [eflattenE, parseEntries]
  | (k, v) :: es, el, rest, fuel, h => by
    obtain ⟨f, rfl⟩ : ∃ f, fuel = f + 1 := ⟨fuel - 1, by omega⟩
    rw [eflattenE] at h ⊢
    have hk := eflatten_length_pos k
    have hv := eflatten_length_pos v
    simp only [List.length_append] at h
    have h1 := parseNode_eflatten k (eflatten v ++ (eflattenE es ++ .mapEnd el :: rest)) f (by omega)
    have h2 := parseNode_eflatten v (eflattenE es ++ .mapEnd el :: rest) f (by omega)
    have h3 := parseEntries_eflatten es el rest f (by omega)
    obtain ⟨e, tl, he, -, hne⟩ := eflatten_head k
    rw [List.append_assoc, List.append_assoc]
    rw [parseEntries]
    · rw [h1]
      simp only []
      rw [h2]
      simp only []
      rw [h3]
    · intro el' rest' heq
      rw [he] at heq
      simp only [List.cons_append, List.cons.injEq] at heq
      exact hne _ heq.1
end

/-- `treeOf` recovers the tree from its flattening -/
theorem treeOf_eflatten (n : ENode) : treeOf (eflatten n) = some n := by
  have := parseNode_eflatten n [] ((eflatten n).length + 1) (by omega)
  rw [List.append_nil] at this
  simp [treeOf, this]

/-! ### the events of an expansion are the flattening of a tree -/

/-- every recorded buffer of the table is the flattening of a tree -/
def TabTree (σ : Tab) : Prop := ∀ x ∈ σ, ∃ n : ENode, x.2 = eflatten n

theorem TabTree_nil : TabTree [] := by intro x hx; cases hx

theorem TabTree_set {σ : Tab} (h : TabTree σ) (a : Nat) (n : ENode) : TabTree (setAnchor σ a (eflatten n)) := by
  intro x hx
  simp only [setAnchor, List.mem_cons] at hx
  rcases hx with rfl | hx
  · exact ⟨n, rfl⟩
  · exact h x hx

theorem TabTree_lookup {σ : Tab} (h : TabTree σ) {id : Nat} {buf : List Ev} (hl : lookupAnchor σ id = some buf) :
    ∃ n : ENode, buf = eflatten n := by
  unfold lookupAnchor at hl
  cases hf : σ.find? (fun p => p.1 == id) with
  | none => simp [hf] at hl
  | some x =>
    simp [hf] at hl
    subst hl
    exact h x (List.mem_of_find?_eq_some hf)

mutual
theorem expand_tree : ∀ (t : LNode) (σ : Tab) (opn : List Nat) (r : Exp), TabTree σ → expand σ opn t = .ok r →
    (∃ n : ENode, r.evs = eflatten n) ∧ TabTree r.tab
  | .scalar v st a tag loc, σ, opn, r, hσ, h => by
    simp only [expand] at h
    cases h
    refine ⟨⟨.scalar v (tagCode tag) tag (normStyle v st a) a loc, by simp [eflatten, scalarEv]⟩, ?_⟩
    simp only
    split
    · exact TabTree_set hσ a (.scalar v (tagCode tag) tag (normStyle v st a) a loc)
    · exact hσ
  | .alias id loc, σ, opn, r, hσ, h => by
    simp only [expand] at h
    split at h
    · cases h
    · split at h
      · cases h
      · rename_i buf hb
        cases h
        exact ⟨TabTree_lookup hσ hb, hσ⟩
  | .seq a tag loc eloc items, σ, opn, r, hσ, h => by
    simp only [expand] at h
    split at h
    · cases h
    · rename_i r1 h1
      cases h
      obtain ⟨⟨ns, hns⟩, ht⟩ := expandL_tree items σ _ r1 hσ h1
      have hw : Ev.seqStart a (tagCode tag) tag loc :: (r1.evs ++ [Ev.seqEnd eloc]) =
          eflatten (.seq a (tagCode tag) tag loc eloc ns) := by rw [eflatten, hns]
      refine ⟨⟨_, hw⟩, ?_⟩
      simp only
      split
      · rw [hw]; exact TabTree_set ht a _
      · exact ht
  | .map a tag loc eloc entries, σ, opn, r, hσ, h => by
    simp only [expand] at h
    split at h
    · cases h
    · rename_i r1 h1
      cases h
      obtain ⟨⟨es, hes⟩, ht⟩ := expandE_tree entries σ _ r1 hσ h1
      have hw : Ev.mapStart a loc :: (r1.evs ++ [Ev.mapEnd eloc]) = eflatten (.map a loc eloc es) := by
        rw [eflatten, hes]
      refine ⟨⟨_, hw⟩, ?_⟩
      simp only
      split
      · rw [hw]; exact TabTree_set ht a _
      · exact ht
theorem expandL_tree : ∀ (ts : List LNode) (σ : Tab) (opn : List Nat) (r : Exp), TabTree σ →
    expandL σ opn ts = .ok r → (∃ ns : List ENode, r.evs = eflattenL ns) ∧ TabTree r.tab
  | [], σ, opn, r, hσ, h => by
    simp only [expandL] at h
    cases h
    exact ⟨⟨[], by simp [eflattenL]⟩, hσ⟩
  | t :: ts, σ, opn, r, hσ, h => by
    simp only [expandL] at h
    split at h
    · cases h
    · rename_i r1 h1
      split at h
      · cases h
      · rename_i r2 h2
        cases h
        obtain ⟨⟨n, hn⟩, ht1⟩ := expand_tree t σ opn r1 hσ h1
        obtain ⟨⟨ns, hns⟩, ht2⟩ := expandL_tree ts r1.tab opn r2 ht1 h2
        exact ⟨⟨n :: ns, by simp only [eflattenL]; rw [hn, hns]⟩, ht2⟩
theorem expandE_tree : ∀ (es : List (LNode × LNode)) (σ : Tab) (opn : List Nat) (r : Exp), TabTree σ →
    expandE σ opn es = .ok r → (∃ es' : List (ENode × ENode), r.evs = eflattenE es') ∧ TabTree r.tab
  | [], σ, opn, r, hσ, h => by
    simp only [expandE] at h
    cases h
    exact ⟨⟨[], by simp [eflattenE]⟩, hσ⟩
  | (k, v) :: es, σ, opn, r, hσ, h => by
    simp only [expandE] at h
    split at h
    · cases h
    · rename_i r1 h1
      split at h
      · cases h
      · rename_i r2 h2
        split at h
        · cases h
        · rename_i r3 h3
          cases h
          obtain ⟨⟨nk, hnk⟩, ht1⟩ := expand_tree k σ opn r1 hσ h1
          obtain ⟨⟨nv, hnv⟩, ht2⟩ := expand_tree v r1.tab opn r2 ht1 h2
          obtain ⟨⟨es', hes⟩, ht3⟩ := expandE_tree es r2.tab opn r3 ht2 h3
          exact ⟨⟨(nk, nv) :: es', by simp only [eflattenE]; rw [hnk, hnv, hes]⟩, ht3⟩
end

/-- (bridge) the expansion of a document is the flattening of exactly one tree, and `treeOf` finds it -/
theorem expand_treeOf (t : LNode) (r : Exp) (h : expand [] [] t = .ok r) :
    ∃ n : ENode, treeOf r.evs = some n ∧ r.evs = eflatten n := by
  obtain ⟨⟨n, hn⟩, -⟩ := expand_tree t [] [] r TabTree_nil h
  exact ⟨n, by rw [hn]; exact treeOf_eflatten n, hn⟩

end SaphyrVerif.Lemmas.CurSim
