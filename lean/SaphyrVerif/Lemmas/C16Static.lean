import SaphyrVerif.Model.Locs
/-!
Helper lemmas for C16 `static_error_at_value_node` (`Props/C16.lean`): errors that Serde raises WITHOUT a
location (the static constructors of `impl serde::de::Error for Error`) while a sequence element or a
mapping value is read, and the fallback location they get (`Model/Locs.lean`, Part C).
-/
namespace SaphyrVerif.Lemmas.C16
open SaphyrVerif SaphyrVerif.Scalars SaphyrVerif.Pump SaphyrVerif.De SaphyrVerif.Locs

/-- Reading `t` at cursor `c` fails with a location-less Serde error raised AT THIS NODE: whatever the
fallback cell holds (`fb`), the outcome is the static constructor's error on that cell (and the cursor
`c2`).  This is what "an error without location of its own, raised while the node is read" means in the
model: the error does not depend on the cell except through `maybe_attach_fallback_location`. -/
def RaisesStatic (fuel : Nat) (cfg : Cfg) (t : STy) (c : Cur) (kind : String) (c2 : Cur) : Prop :=
  ∀ fb : Option Loc, deserS fuel cfg fb t c = .err (staticErr kind fb) c2

/-- `NonZero*` on a node whose integer reading is 0: `invalid_value`, raised at the node -/
theorem raisesStatic_nonzero (fuel : Nat) (cfg : Cfg) (signed : Bool) (bits : Nat) (c c2 : Cur)
    (h : deser (fuel + 1) cfg (.int signed bits) false false c = .ok (.int 0) c2) :
    RaisesStatic (fuel + 1) cfg (.nonzero signed bits) c "invalid_value" c2 := by
  intro fb
  simp only [deserS, h]
  rfl

/-- a `NonZero*` reading that is not 0 succeeds (the cell is not consulted) -/
theorem nonzero_ok (fuel : Nat) (cfg : Cfg) (fb : Option Loc) (signed : Bool) (bits : Nat) (c c2 : Cur) (i : Int)
    (h : deser (fuel + 1) cfg (.int signed bits) false false c = .ok (.int i) c2) (hi : i ≠ 0) :
    deserS (fuel + 1) cfg fb (.nonzero signed bits) c = .ok (.leaf (.int i)) c2 := by
  simp only [deserS, h]
  have : (i == 0) = false := by simpa using hi
  simp [this]

/-- an error of the integer reading itself (a type error: it has its own location) passes unchanged -/
theorem nonzero_err (fuel : Nat) (cfg : Cfg) (fb : Option Loc) (signed : Bool) (bits : Nat) (c c2 : Cur) (e : DErr)
    (h : deser (fuel + 1) cfg (.int signed bits) false false c = .err e c2) :
    deserS (fuel + 1) cfg fb (.nonzero signed bits) c = .err e c2 := by
  simp only [deserS, h]

/-- the span-carrying wrapper installs no guard: an error raised at the wrapped node is raised at the wrapper -/
theorem raisesStatic_spanned (fuel : Nat) (cfg : Cfg) (t : STy) (c c1 c2 : Cur) (kind : String) (rd : Loc × Loc)
    (hl : spannedLocs c = .ok rd c1) (h : RaisesStatic fuel cfg t c1 kind c2) :
    RaisesStatic (fuel + 1) cfg (.spanned t) c kind c2 := by
  intro fb
  obtain ⟨r, d⟩ := rd
  simp only [deserS, hl, h fb]

/-- `Option<T>` on a node that is not null-like (a container start): no guard either -/
theorem raisesStatic_option_scalar (fuel : Nat) (cfg : Cfg) (t : STy) (c c1 c2 : Cur) (kind : String)
    (v : List Char) (tag : Nat) (rt : Option (List Char)) (st : Style) (a : Nat) (l : Loc)
    (hpk : c.peek = .ok (some (.scalar v tag rt st a l)) c1)
    (hnn : (tag == tagNull || scalarIsNullishForOption v st) = false)
    (h : RaisesStatic fuel cfg t c1 kind c2) :
    RaisesStatic (fuel + 1) cfg (.option t) c kind c2 := by
  intro fb
  simp only [deserS, hpk, hnn, h fb]
  simp

/-- what `attach_alias_locations_if_missing` makes of a static error that took the access's own use site
from the cell: through an alias / merge (use site ≠ definition site, both known) an `AliasError` with both,
otherwise the error as it is, located at the use site -/
theorem attachAlias_static (kind : String) (hk : kind ≠ "AliasError") (ref defined : Loc) :
    attachAlias (staticErr kind (some ref)) ref defined =
      if ref ≠ 0 ∧ defined ≠ 0 ∧ ref ≠ defined then ⟨"AliasError", ref, defined⟩
      else if ref ≠ 0 then ⟨kind, ref, 0⟩ else ⟨kind, defined, 0⟩ := by
  have hk' : (kind == "AliasError") = false := by simpa using hk
  unfold attachAlias staticErr Tls.effLoc
  simp only [hk', Bool.false_eq_true, if_false, Bool.or_false]
  by_cases h1 : ref = 0
  · subst h1; simp
  · by_cases h2 : defined = 0
    · subst h2; simp [h1]
    · by_cases h3 : ref = defined
      · subst h3; simp [h1]
      · simp [h1, h2, h3]

/-- … hence `Error::locations()` of it is the pair (use site, definition site) of the node -/
theorem static_locations (kind : String) (hk : kind ≠ "AliasError") (ref defined : Loc)
    (href : ref ≠ 0) (hdef : defined ≠ 0) :
    errLocations (attachAlias (staticErr kind (some ref)) ref defined) = some (ref, defined) ∧
    (attachAlias (staticErr kind (some ref)) ref defined).loc = ref := by
  rw [attachAlias_static kind hk]
  have hk' : (kind == "AliasError") = false := by simpa using hk
  by_cases h3 : ref = defined
  · subst h3; simp [errLocations, href, hk']
  · simp [errLocations, href, hdef, h3]

/-- the cell of the ENCLOSING deserialization (key guard, container guard, an outer element guard, …) has no
influence on an access that installs its own guard: stated for the three accesses below by the fact that
they take no `fb` argument at all; this lemma records it for `deserS` on the container types -/
theorem deserS_container_cell_irrelevant (fuel : Nat) (cfg : Cfg) (fb fb' : Option Loc) (c : Cur) :
    (∀ t, deserS (fuel + 1) cfg fb (.seq t) c = deserS (fuel + 1) cfg fb' (.seq t) c) ∧
    (∀ t, deserS (fuel + 1) cfg fb (.map t) c = deserS (fuel + 1) cfg fb' (.map t) c) ∧
    (∀ fs, deserS (fuel + 1) cfg fb (.struct fs) c = deserS (fuel + 1) cfg fb' (.struct fs) c) ∧
    deserS (fuel + 1) cfg fb .treeInner c = deserS (fuel + 1) cfg fb' .treeInner c := by
  refine ⟨fun t => ?_, fun t => ?_, fun fs => ?_, ?_⟩ <;> simp only [deserS]

end SaphyrVerif.Lemmas.C16
