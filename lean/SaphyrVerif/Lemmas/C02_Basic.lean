import SaphyrVerif.Spec.Expand
/-!
Helper lemmas for C02, part 1: runs of `nextImpl` (`Steps`, `Stops`, `Ends`) and their connection to
`pumpAll` (append / fuel monotonicity / determinism).
-/
namespace SaphyrVerif.Lemmas.C02
open SaphyrVerif SaphyrVerif.Scalars SaphyrVerif.Pump SaphyrVerif.Spec

/-- more fuel never changes a finished run -/
theorem pumpAll_fuel_mono (fuel k : Nat) (p : Pump) (inp : List RawItem) (acc : List Ev) (x)
    (h : pumpAll fuel p inp acc = some x) : pumpAll (fuel + k) p inp acc = some x := by
  induction fuel generalizing p inp acc with
  | zero => simp [pumpAll] at h
  | succ n ih =>
    rw [show n + 1 + k = (n + k) + 1 by omega]
    simp only [pumpAll] at h ⊢
    rcases hn : nextImpl p inp with ⟨s, p', rest⟩
    rw [hn] at h
    cases s with
    | event e => exact ih _ _ _ h
    | eof => exact h
    | error e => exact h

/-- two finished runs with different fuel agree -/
theorem pumpAll_det {f1 f2 : Nat} {p : Pump} {inp : List RawItem} {acc : List Ev} {x y}
    (h1 : pumpAll f1 p inp acc = some x) (h2 : pumpAll f2 p inp acc = some y) : x = y := by
  have a := pumpAll_fuel_mono f1 f2 p inp acc x h1
  have b := pumpAll_fuel_mono f2 f1 p inp acc y h2
  rw [Nat.add_comm] at b
  rw [a] at b
  exact Option.some.inj b

/-- `Steps p inp es p' inp'`: pulling `nextImpl` `es.length` times from `(p, inp)` delivers the events
`es` (one per call) and reaches `(p', inp')`. -/
inductive Steps : Pump → List RawItem → List Ev → Pump → List RawItem → Prop
  | refl (p : Pump) (inp : List RawItem) : Steps p inp [] p inp
  | cons {p : Pump} {inp : List RawItem} {e : Ev} {p1 : Pump} {inp1 : List RawItem} {es : List Ev}
      {p2 : Pump} {inp2 : List RawItem} :
      nextImpl p inp = (.event e, p1, inp1) → Steps p1 inp1 es p2 inp2 → Steps p inp (e :: es) p2 inp2

theorem Steps.trans {p inp es1 p1 inp1 es2 p2 inp2} (h1 : Steps p inp es1 p1 inp1)
    (h2 : Steps p1 inp1 es2 p2 inp2) : Steps p inp (es1 ++ es2) p2 inp2 := by
  induction h1 with
  | refl => simpa using h2
  | cons hn _ ih => exact Steps.cons hn (ih h2)

theorem Steps.one {p inp e p1 inp1} (h : nextImpl p inp = (.event e, p1, inp1)) :
    Steps p inp [e] p1 inp1 := Steps.cons h (Steps.refl _ _)

theorem Steps.snoc {p inp es p1 inp1 e p2 inp2} (h1 : Steps p inp es p1 inp1)
    (h : nextImpl p1 inp1 = (.event e, p2, inp2)) : Steps p inp (es ++ [e]) p2 inp2 :=
  h1.trans (Steps.one h)

/-- a non-empty run only depends on the result of the first `nextImpl` call -/
theorem Steps.of_eq {p inp q inq es p' inp'} (h : nextImpl p inp = nextImpl q inq)
    (hs : Steps q inq es p' inp') (hne : es ≠ []) : Steps p inp es p' inp' := by
  cases hs with
  | refl => exact absurd rfl hne
  | cons hn hr => exact Steps.cons (h.trans hn) hr

/-- the run delivers `es`, then the next call fails with `err` -/
def Stops (p : Pump) (inp : List RawItem) (es : List Ev) (err : PErr) (p' : Pump) : Prop :=
  ∃ p1 inp1 inp2, Steps p inp es p1 inp1 ∧ nextImpl p1 inp1 = (.error err, p', inp2)

/-- the run delivers `es`, then the next call reports end of input -/
def Ends (p : Pump) (inp : List RawItem) (es : List Ev) (p' : Pump) : Prop :=
  ∃ p1 inp1 inp2, Steps p inp es p1 inp1 ∧ nextImpl p1 inp1 = (.eof, p', inp2)

theorem Stops.now {p inp err p' inp2} (h : nextImpl p inp = (.error err, p', inp2)) :
    Stops p inp [] err p' := ⟨p, inp, inp2, Steps.refl _ _, h⟩

theorem Stops.after {p inp es1 p1 inp1 es2 err p'} (h1 : Steps p inp es1 p1 inp1)
    (h2 : Stops p1 inp1 es2 err p') : Stops p inp (es1 ++ es2) err p' := by
  obtain ⟨q, inq, inq2, hs, hn⟩ := h2
  exact ⟨q, inq, inq2, h1.trans hs, hn⟩

theorem Stops.of_eq {p inp q inq es err p'} (h : nextImpl p inp = nextImpl q inq)
    (hs : Stops q inq es err p') : Stops p inp es err p' := by
  obtain ⟨q1, inq1, inq2, hs, hn⟩ := hs
  cases hs with
  | refl => exact ⟨p, inp, inq2, Steps.refl _ _, h.trans hn⟩
  | cons hn1 hr => exact ⟨q1, inq1, inq2, Steps.cons (h.trans hn1) hr, hn⟩

theorem Ends.of_eq {p inp q inq es p'} (h : nextImpl p inp = nextImpl q inq)
    (hs : Ends q inq es p') : Ends p inp es p' := by
  obtain ⟨q1, inq1, inq2, hs, hn⟩ := hs
  cases hs with
  | refl => exact ⟨p, inp, inq2, Steps.refl _ _, h.trans hn⟩
  | cons hn1 hr => exact ⟨q1, inq1, inq2, Steps.cons (h.trans hn1) hr, hn⟩

/-- continuation lemma: a run of `k` event steps is absorbed by `pumpAll` -/
theorem pumpAll_steps {p inp es p' inp'} (h : Steps p inp es p' inp') (f : Nat) (acc : List Ev) :
    pumpAll (es.length + f) p inp acc = pumpAll f p' inp' (es.reverse ++ acc) := by
  induction h generalizing acc with
  | refl => simp
  | @cons p inp e p1 inp1 es p2 inp2 hn _ ih =>
    rw [show (e :: es).length + f = (es.length + f) + 1 by simp; omega]
    simp only [pumpAll, hn]
    rw [ih]
    simp

theorem pumpAll_stops {p inp es err p'} (h : Stops p inp es err p') :
    pumpAll (es.length + 1) p inp [] = some (es, some err, p') := by
  obtain ⟨q, inq, inq2, hs, hn⟩ := h
  rw [pumpAll_steps hs]
  simp [pumpAll, hn]

theorem pumpAll_ends {p inp es p'} (h : Ends p inp es p') :
    pumpAll (es.length + 1) p inp [] = some (es, none, p') := by
  obtain ⟨q, inq, inq2, hs, hn⟩ := h
  rw [pumpAll_steps hs]
  simp [pumpAll, hn]

/-- a finished run is the one described by `Ends` -/
theorem run_of_ends {p : Pump} {inp : List RawItem} {es : List Ev} {q : Pump} (he : Ends p inp es q)
    {fuel : Nat} {x} (h : pumpAll fuel p inp [] = some x) : x = (es, none, q) :=
  pumpAll_det h (pumpAll_ends he)

/-- a finished run is the one described by `Stops` -/
theorem run_of_stops {p : Pump} {inp : List RawItem} {es : List Ev} {err : PErr} {q : Pump}
    (hs : Stops p inp es err q) {fuel : Nat} {x} (h : pumpAll fuel p inp [] = some x) :
    x = (es, some err, q) :=
  pumpAll_det h (pumpAll_stops hs)

end SaphyrVerif.Lemmas.C02
