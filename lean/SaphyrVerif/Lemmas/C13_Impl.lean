import SaphyrVerif.Lemmas.C13_Plain
import SaphyrVerif.Lemmas.C13_Dq
/-!
C13 / C12 composition, part 2b: the crate's own plain-safety predicates (`Model/EmitQuote.lean`:
`is_plain_value_safe`, `is_plain_safe`, `is_unsafe_plain_shape`) imply the conditions under which the
reference reader takes a plain text for the string it spells (`PlainVal` / `PlainKey`).
-/
set_option linter.unusedSimpArgs false
set_option linter.unusedVariables false
namespace SaphyrVerif.Emit
open SaphyrVerif

/-! ### unfolding the predicates -/

theorem pvs_unfold {s : List Char} {y fl : Bool} (h : isPlainValueSafeImpl s y fl = true) :
    isAmbiguousValue s y = false ∧ firstCharOk s = true ∧ containsColonSpace s = false ∧
    (trim s).getLast? ≠ some ':' ∧ containsAnyOrIsControl s ['#'] = false := by
  unfold isPlainValueSafeImpl at h
  by_cases h1 : isAmbiguousValue s y = true
  · simp [h1] at h
  by_cases h2 : (fl && endsWithSpaceDash s) = true
  · simp [h1, h2] at h
  by_cases h3 : firstCharOk s = true
  · by_cases h4 : (containsColonSpace s || (trim s).getLast? == some ':') = true
    · simp [h1, h2, h3, h4] at h
    · simp only [Bool.or_eq_true, not_or, Bool.not_eq_true, beq_eq_false_iff_ne] at h4
      refine ⟨by simpa using h1, h3, h4.1, h4.2, ?_⟩
      have h1' : isAmbiguousValue s y = false := by simpa using h1
      have h2' : (fl && endsWithSpaceDash s) = false := by simpa using h2
      have h4' : (containsColonSpace s || (trim s).getLast? == some ':') = false := by simp [h4.1, h4.2]
      simp only [h1', h2', h3, h4', Bool.false_eq_true, if_false, Bool.not_true] at h
      cases fl
      · simpa using h
      · simp only [if_true, Bool.not_eq_true', containsAnyOrIsControl, List.any_eq_false] at h ⊢
        intro x hx
        have := h x hx
        simp only [Bool.or_eq_true, not_or, Bool.not_eq_true] at this ⊢
        refine ⟨?_, this.2⟩
        have h' := this.1
        simp only [List.contains_eq_mem, List.mem_cons, List.not_mem_nil, or_false, decide_eq_false_iff_not, not_or] at h' ⊢
        exact h'.2.2.2.2.2
  · simp [h1, h2, h3] at h

theorem ps_unfold {s : List Char} (h : isPlainSafeImpl s = true) :
    isAmbiguous s = false ∧ firstCharOk s = true ∧ containsAnyOrIsControl s [':', '#'] = false := by
  unfold isPlainSafeImpl at h
  by_cases h1 : isAmbiguous s = true
  · simp [h1] at h
  by_cases h3 : firstCharOk s = true
  · refine ⟨by simpa using h1, h3, ?_⟩
    have h1' : isAmbiguous s = false := by simpa using h1
    simpa [h1', h3] using h
  · simp [h1, h3] at h

theorem noControl_mem {s vals : List Char} (h : containsAnyOrIsControl s vals = false) :
    ∀ x ∈ s, x ∉ vals ∧ isControl x = false := by
  intro x hx
  have := List.any_eq_false.mp h x hx
  simp only [Bool.or_eq_true, not_or, Bool.not_eq_true] at this
  exact ⟨by simpa using this.1, this.2⟩

theorem not_control_tab {c : Char} (h : isControl c = false) : c ≠ '\t' := by
  rintro rfl; exact absurd h (by decide)

/-! ### the first character -/

theorem firstCharOk_start {s : List Char} (h : firstCharOk s = true) :
    ∃ c cs, s = c :: cs ∧ plainStart c = true ∧ c ≠ ',' ∧
      ((c = '-' ∨ c = '?') → ∃ c1 cs1, cs = c1 :: cs1 ∧ c1 ≠ ' ') := by
  cases s with
  | nil => simp [firstCharOk] at h
  | cons c cs =>
    refine ⟨c, cs, rfl, ?_⟩
    simp only [firstCharOk] at h
    by_cases hw : (decide (c.toNat < 128) && isAsciiWhitespace c) = true
    · simp [hw] at h
    have hw' : (decide (c.toNat < 128) && isAsciiWhitespace c) = false := by simpa using hw
    simp only [hw', Bool.false_eq_true, if_false] at h
    have hsp : c ≠ ' ' := by rintro rfl; exact absurd hw' (by decide)
    by_cases hd : (c == '-' || c == '?') = true
    · simp only [hd, if_true] at h
      have hps : plainStart c = true := by
        simp only [Bool.or_eq_true, beq_iff_eq] at hd
        rcases hd with rfl | rfl <;> decide
      have hcm : c ≠ ',' := by
        simp only [Bool.or_eq_true, beq_iff_eq] at hd
        rcases hd with rfl | rfl <;> decide
      refine ⟨hps, hcm, fun _ => ?_⟩
      cases cs with
      | nil => simp at h
      | cons c1 cs1 =>
        refine ⟨c1, cs1, rfl, ?_⟩
        rintro rfl
        simp at h
        exact absurd h (by decide)
    · have hd' : (c == '-' || c == '?') = false := by simpa using hd
      simp only [hd', Bool.false_eq_true, if_false] at h
      by_cases hc : (c == ',') = true
      · simp [hc] at h
      have hc' : (c == ',') = false := by simpa using hc
      simp only [hc', Bool.false_eq_true, if_false, Bool.not_eq_true'] at h
      have hm : c ∉ ":[]{}#&*!|>'\"%@`".toList := by simpa using h
      have hx : ∀ x ∈ ":[]{}#&*!|>'\"%@`".toList, c ≠ x := fun x hx e => hm (e ▸ hx)
      refine ⟨?_, by simpa using hc', fun hdq => ?_⟩
      · simp [plainStart, keyStart, hsp, hx '#' (by decide), hx '%' (by decide), hx '!' (by decide), hx '[' (by decide),
          hx '{' (by decide), hx '|' (by decide), hx '>' (by decide), hx '&' (by decide), hx '*' (by decide),
          hx '@' (by decide), hx '`' (by decide), hx '"' (by decide), hx '\'' (by decide)]
      · simp only [Bool.or_eq_false_iff, beq_eq_false_iff_ne] at hd'
        rcases hdq with e | e
        · exact absurd e hd'.1
        · exact absurd e hd'.2

/-- a text that starts like a plain scalar is neither a sequence entry nor an explicit key -/
theorem classify_plainStart {c : Char} {cs : List Char} (hq : (c = '-' ∨ c = '?') → ∃ c1 cs1, cs = c1 :: cs1 ∧ c1 ≠ ' ') :
    classify (c :: cs) = .other := by
  unfold classify
  split
  · rename_i he
    simp only [List.cons.injEq] at he
    obtain ⟨c1, cs1, e, _⟩ := hq (Or.inl he.1)
    rw [e] at he; exact absurd he.2 (by simp)
  · rename_i r he
    simp only [List.cons.injEq] at he
    obtain ⟨c1, cs1, e, hc1⟩ := hq (Or.inl he.1)
    rw [e] at he; simp only [List.cons.injEq] at he; exact absurd he.2.1 hc1
  · rename_i he
    simp only [List.cons.injEq] at he
    obtain ⟨c1, cs1, e, _⟩ := hq (Or.inr he.1)
    rw [e] at he; exact absurd he.2 (by simp)
  · rename_i r he
    simp only [List.cons.injEq] at he
    obtain ⟨c1, cs1, e, hc1⟩ := hq (Or.inr he.1)
    rw [e] at he; simp only [List.cons.injEq] at he; exact absurd he.2.1 hc1
  · rfl

/-! ### key separators -/

theorem noKeySep_of : ∀ (s : List Char), containsColonSpace s = false → (∀ x ∈ s, x ≠ '\t') → s.getLast? ≠ some ':' →
    noKeySep s = true
  | [], _, _, _ => rfl
  | c :: cs, hcs, ht, hl => by
    have ht' : ∀ x ∈ cs, x ≠ '\t' := fun x hx => ht x (by simp [hx])
    have hcs' : containsColonSpace cs = false := by
      cases cs with
      | nil => rfl
      | cons d ds =>
        by_cases h : c = ':' ∧ d = ' '
        · obtain ⟨rfl, rfl⟩ := h; simp [containsColonSpace] at hcs
        · rw [containsColonSpace] at hcs
          · exact hcs
          · intro r h1 h2; simp only [List.cons.injEq] at h2; exact h ⟨h1, h2.1⟩
    cases cs with
    | nil =>
      have hc : c ≠ ':' := fun e => hl (by simp [e])
      rw [noKeySep]
      · rfl
      · intro e; exact hc e
    | cons d ds =>
      have hl' : (d :: ds).getLast? ≠ some ':' := by simpa [List.getLast?_cons_cons] using hl
      have ih := noKeySep_of (d :: ds) hcs' ht' hl'
      by_cases hc : c = ':'
      · subst hc
        have hd1 : d ≠ ' ' := by rintro rfl; simp [containsColonSpace] at hcs
        have hd2 : d ≠ '\t' := ht d (by simp)
        simp [noKeySep, colonEndsKey, hd1, hd2, ih]
      · rw [noKeySep]
        · exact ih
        · intro e; exact hc e

/-- a non-whitespace last character survives `trim` -/
theorem trim_getLast {s : List Char} {c : Char} (h : s.getLast? = some c) (hc : isWhitespace c = false) :
    (trim s).getLast? = some c := by
  have h1 : ∀ (l : List Char), l.getLast? = some c → (l.dropWhile isWhitespace).getLast? = some c := by
    intro l
    induction l with
    | nil => intro h; simp at h
    | cons a as ih =>
      intro hl
      by_cases ha : isWhitespace a = true
      · rw [List.dropWhile_cons_of_pos ha]
        cases as with
        | nil => simp at hl; rw [hl] at ha; rw [ha] at hc; exact absurd hc (by simp)
        | cons b bs => exact ih (by simpa [List.getLast?_cons_cons] using hl)
      · rw [List.dropWhile_cons_of_neg ha]; exact hl
  have h2 := h1 s h
  unfold trim trimEnd trimStart
  generalize s.dropWhile isWhitespace = t at h2
  cases hr : t.reverse with
  | nil => rw [List.reverse_eq_nil_iff.mp hr] at h2; simp at h2
  | cons a as =>
    have ha : t.getLast? = some a := by rw [← List.reverse_reverse t, hr]; simp
    rw [h2] at ha
    simp only [Option.some.injEq] at ha
    subst ha
    rw [List.dropWhile_cons_of_neg (by simp [hc]), ← hr, List.reverse_reverse]
    exact h2

theorem getLast_ne_colon {s : List Char} (h : (trim s).getLast? ≠ some ':') : s.getLast? ≠ some ':' :=
  fun e => h (trim_getLast e (by decide))

/-! ### what a plain text resolves to -/

/-- the YAML 1.1 boolean words other than `true` / `false`, as the reader resolves them (ASCII case ignored) -/
def isBoolWord (s : List Char) : Bool :=
  lowerAscii s == ['y', 'e', 's'] || lowerAscii s == ['y'] || lowerAscii s == ['o', 'n'] ||
  lowerAscii s == ['n', 'o'] || lowerAscii s == ['n'] || lowerAscii s == ['o', 'f', 'f']

theorem resolvePlain_str {s : List Char} (hne : s ≠ []) (ht : s ≠ ['~']) (hnull : lowerAscii s ≠ ['n', 'u', 'l', 'l'])
    (htrue : lowerAscii s ≠ ['t', 'r', 'u', 'e']) (hfalse : lowerAscii s ≠ ['f', 'a', 'l', 's', 'e']) (hb : isBoolWord s = false)
    (hint : parseDecInt s = none) : resolvePlain s = .str s := by
  simp only [isBoolWord, Bool.or_eq_false_iff, beq_eq_false_iff_ne] at hb
  obtain ⟨⟨⟨⟨⟨h1, h2⟩, h3⟩, h4⟩, h5⟩, h6⟩ := hb
  have he : s.isEmpty = false := by cases s <;> simp_all
  unfold resolvePlain
  simp only [hint, he]
  simp [ht, hnull, htrue, hfalse, h1, h2, h3, h4, h5, h6]

theorem splitAtFirst_none {p : Char → Bool} : ∀ (t : List Char), (∀ x ∈ t, p x = false) → splitAtFirst p t = none
  | [], _ => rfl
  | c :: cs, h => by
    simp only [splitAtFirst, h c (by simp), Bool.false_eq_true, if_false,
      splitAtFirst_none cs (fun x hx => h x (by simp [hx])), Option.map_none]

theorem isDecDigit_facts {c : Char} (h : isDecDigit c = true) : isDigit c = true ∧ (c == '.') = false ∧ isE c = false := by
  refine ⟨h, ?_, ?_⟩
  · simp only [beq_eq_false_iff_ne]; rintro rfl; exact absurd h (by decide)
  · simp only [isE, Bool.or_eq_false_iff, beq_eq_false_iff_ne]
    exact ⟨by rintro rfl; exact absurd h (by decide), by rintro rfl; exact absurd h (by decide)⟩

/-- the text after the optional sign, as `is_numeric_looking` takes it -/
def stripSign (s : List Char) : List Char :=
  match s with
  | '+' :: r => r
  | '-' :: r => r
  | _ => s

theorem stripSign_eq (s : List Char) : stripSign s = (splitSign s).2 := by
  unfold stripSign splitSign
  split
  · rfl
  · rfl
  · rename_i h1 h2
    split
    · rename_i r; exact absurd rfl (h2 r)
    · rename_i r; exact absurd rfl (h1 r)
    · rfl

/-- `is_numeric_looking` on the text after the sign (same text as in the model) -/
def numericBody (t : List Char) : Bool :=
  let radix := match t with
    | '0' :: 'x' :: r => !r.isEmpty && r.all isHexU
    | '0' :: 'o' :: r => !r.isEmpty && r.all isOctU
    | '0' :: 'b' :: r => !r.isEmpty && r.all isBinU
    | _ => false
  let decimal :=
    match splitAtFirst (· == '.') t with
    | some (l, r) =>
      let (m, e) := match splitAtFirst isE r with
        | some (m, e) => (m, some e)
        | none => (r, none)
      let expOk := match e with | some e => isExpBody e | none => true
      if l.isEmpty then isDigs m && expOk
      else isDigs l && m.all isDigitU && expOk
    | none =>
      match splitAtFirst isE t with
      | some (l, e) => isDigs l && isExpBody e
      | none => isDigs t
  radix || decimal

theorem isNumericLooking_eq (s : List Char) : isNumericLooking s = numericBody (stripSign s) := rfl

/-- what the reader takes for a decimal integer is numeric-looking to the writer -/
theorem numericLooking_of_decInt {s : List Char} (i : Int) (h : parseDecInt s = some i) : isNumericLooking s = true := by
  unfold parseDecInt at h
  by_cases hd : ((splitSign s).2.isEmpty || !(splitSign s).2.all isDecDigit) = true
  · simp [hd] at h
  simp only [Bool.or_eq_true, not_or, Bool.not_eq_true, Bool.not_eq_false'] at hd
  obtain ⟨hne, hall⟩ := hd
  have hmem : ∀ x ∈ (splitSign s).2, isDecDigit x = true := fun x hx => List.all_eq_true.mp hall x hx
  have h1 := splitAtFirst_none (p := fun x => x == '.') (splitSign s).2 (fun x hx => (isDecDigit_facts (hmem x hx)).2.1)
  have h2 := splitAtFirst_none (p := isE) (splitSign s).2 (fun x hx => (isDecDigit_facts (hmem x hx)).2.2)
  have h3 : isDigs (splitSign s).2 = true := by
    generalize (splitSign s).2 = t at hne hmem
    cases t with
    | nil => simp at hne
    | cons c cs =>
      simp only [isDigs, Bool.and_eq_true, List.all_eq_true]
      refine ⟨(isDecDigit_facts (hmem c (by simp))).1, fun x hx => ?_⟩
      simp [isDigitU, (isDecDigit_facts (hmem x (by simp [hx]))).1]
  rw [isNumericLooking_eq, stripSign_eq]
  simp only [numericBody, h1, h2, h3, Bool.or_true]

theorem lowerAscii_lit : lowerAscii ['n', 'u', 'l', 'l'] = ['n', 'u', 'l', 'l'] ∧ lowerAscii ['t', 'r', 'u', 'e'] = ['t', 'r', 'u', 'e'] ∧
    lowerAscii ['f', 'a', 'l', 's', 'e'] = ['f', 'a', 'l', 's', 'e'] ∧ lowerAscii ['y', 'e', 's'] = ['y', 'e', 's'] ∧
    lowerAscii ['y'] = ['y'] ∧ lowerAscii ['o', 'n'] = ['o', 'n'] ∧ lowerAscii ['n', 'o'] = ['n', 'o'] ∧ lowerAscii ['n'] = ['n'] ∧
    lowerAscii ['o', 'f', 'f'] = ['o', 'f', 'f'] := by decide

/-- a character whose ASCII lowering is a lower-case letter is no white space -/
theorem not_ws_of_lower {c : Char} (h : isLowerAlpha (asciiLower c) = true) : isWhitespace c = false := by
  unfold asciiLower at h
  by_cases hu : ('A'.toNat ≤ c.toNat && c.toNat ≤ 'Z'.toNat) = true
  · simp only [Bool.and_eq_true, decide_eq_true_eq] at hu
    have h1 : (65 : Nat) ≤ c.toNat := hu.1
    have h2 : c.toNat ≤ 90 := hu.2
    simp only [isWhitespace, Bool.or_eq_false_iff, Bool.and_eq_false_iff, decide_eq_false_iff_not, beq_eq_false_iff_ne]
    omega
  · rw [if_neg hu] at h
    simp only [isLowerAlpha, Bool.and_eq_true, decide_eq_true_eq] at h
    have h1 : (97 : Nat) ≤ c.toNat := Char.le_def.mp h.1
    have h2 : c.toNat ≤ 122 := Char.le_def.mp h.2
    simp only [isWhitespace, Bool.or_eq_false_iff, Bool.and_eq_false_iff, decide_eq_false_iff_not, beq_eq_false_iff_ne]
    omega

theorem trim_noWs {s : List Char} (h : ∀ c ∈ s, isWhitespace c = false) : trim s = s := by
  have h1 : s.dropWhile isWhitespace = s := by
    cases s with
    | nil => rfl
    | cons c cs => rw [List.dropWhile_cons_of_neg (by simp [h c (by simp)])]
  unfold trim trimStart trimEnd
  rw [h1]
  cases hr : s.reverse with
  | nil => simp [List.reverse_eq_nil_iff.mp hr]
  | cons c cs =>
    have hc : isWhitespace c = false := h c (by rw [← List.mem_reverse, hr]; simp)
    rw [List.dropWhile_cons_of_neg (by simp [hc]), ← hr, List.reverse_reverse]

/-- a text that spells a word of lower-case letters (ASCII case ignored) has nothing to trim -/
theorem trim_of_word {s w : List Char} (h : lowerAscii s = w) (hw : ∀ c ∈ w, isLowerAlpha c = true) : trim s = s := by
  apply trim_noWs
  intro c hc
  apply not_ws_of_lower
  apply hw
  rw [← h]
  exact List.mem_map.mpr ⟨c, hc, rfl⟩

/-- not a YAML 1.1 boolean for the crate's reader → not a boolean word for the reference reader -/
theorem not_boolWord {s : List Char} (h : (Scalars.parseYaml11Bool s).isSome = false) : isBoolWord s = false := by
  have key : ∀ w : List Char, (∀ c ∈ w, isLowerAlpha c = true) → lowerAscii w = w → lowerAscii s = w →
      eqIgnoreAsciiCase (trim s) w = true := by
    intro w hw hl e
    rw [trim_of_word e hw]
    simp [eqIgnoreAsciiCase, e, hl]
  have L := lowerAscii_lit
  have hAB : (eqIgnoreAsciiCase (trim s) "true".toList || eqIgnoreAsciiCase (trim s) "yes".toList ||
        eqIgnoreAsciiCase (trim s) "y".toList || eqIgnoreAsciiCase (trim s) "on".toList) = false ∧
      (eqIgnoreAsciiCase (trim s) "false".toList || eqIgnoreAsciiCase (trim s) "no".toList ||
        eqIgnoreAsciiCase (trim s) "n".toList || eqIgnoreAsciiCase (trim s) "off".toList) = false := by
    unfold Scalars.parseYaml11Bool at h
    cases hA : (eqIgnoreAsciiCase (trim s) "true".toList || eqIgnoreAsciiCase (trim s) "yes".toList ||
        eqIgnoreAsciiCase (trim s) "y".toList || eqIgnoreAsciiCase (trim s) "on".toList)
    · cases hB : (eqIgnoreAsciiCase (trim s) "false".toList || eqIgnoreAsciiCase (trim s) "no".toList ||
          eqIgnoreAsciiCase (trim s) "n".toList || eqIgnoreAsciiCase (trim s) "off".toList)
      · exact ⟨rfl, rfl⟩
      · simp only [hA, hB, Bool.false_eq_true, if_false, if_true, Option.isSome_some] at h
        exact Bool.noConfusion h
    · simp only [hA, if_true, Option.isSome_some] at h
      exact Bool.noConfusion h
  have hall : ∀ w ∈ [['y', 'e', 's'], ['y'], ['o', 'n'], ['n', 'o'], ['n'], ['o', 'f', 'f']],
      eqIgnoreAsciiCase (trim s) w = false := by
    simp only [Bool.or_eq_false_iff] at hAB
    obtain ⟨⟨⟨⟨_, a1⟩, a2⟩, a3⟩, ⟨⟨⟨_, b1⟩, b2⟩, b3⟩⟩ := hAB
    intro w hw
    simp only [List.mem_cons, List.not_mem_nil, or_false] at hw
    rcases hw with rfl | rfl | rfl | rfl | rfl | rfl
    · simpa using a1
    · simpa using a2
    · simpa using a3
    · simpa using b1
    · simpa using b2
    · simpa using b3
  simp only [isBoolWord, Bool.or_eq_false_iff, beq_eq_false_iff_ne]
  refine ⟨⟨⟨⟨⟨?_, ?_⟩, ?_⟩, ?_⟩, ?_⟩, ?_⟩ <;> intro e
  · have := key _ (by decide) L.2.2.2.1 e; rw [hall _ (by simp)] at this; exact Bool.noConfusion this
  · have := key _ (by decide) L.2.2.2.2.1 e; rw [hall _ (by simp)] at this; exact Bool.noConfusion this
  · have := key _ (by decide) L.2.2.2.2.2.1 e; rw [hall _ (by simp)] at this; exact Bool.noConfusion this
  · have := key _ (by decide) L.2.2.2.2.2.2.1 e; rw [hall _ (by simp)] at this; exact Bool.noConfusion this
  · have := key _ (by decide) L.2.2.2.2.2.2.2.1 e; rw [hall _ (by simp)] at this; exact Bool.noConfusion this
  · have := key _ (by decide) L.2.2.2.2.2.2.2.2 e; rw [hall _ (by simp)] at this; exact Bool.noConfusion this

/-- a text that is not ambiguous for the writer — and not a boolean word where `yaml_12` leaves those
plain — resolves to a string for the reader -/
theorem resolvePlain_of_notAmbiguous {s : List Char} {y : Bool} (h : isAmbiguousValue s y = false)
    (hb : y = true → isBoolWord s = false) : resolvePlain s = .str s := by
  simp only [isAmbiguousValue, Bool.or_eq_false_iff] at h
  obtain ⟨⟨⟨⟨⟨ha, hy⟩, _⟩, _⟩, _⟩, _⟩ := h
  simp only [isAmbiguous, Bool.or_eq_false_iff] at ha
  obtain ⟨⟨⟨⟨⟨⟨⟨⟨⟨⟨he, _⟩, ht⟩, hnull⟩, htrue⟩, hfalse⟩, _⟩, hnum⟩, _⟩, _⟩, _⟩ := ha
  have L := lowerAscii_lit
  have hbw : isBoolWord s = false := by
    cases y
    · exact not_boolWord (by simpa using hy)
    · exact hb rfl
  refine resolvePlain_str (by intro e; subst e; simp at he) (by simpa using ht) ?_ ?_ ?_ hbw ?_
  · intro e; simp [eqIgnoreAsciiCase, e, L.1] at hnull
  · intro e; simp [eqIgnoreAsciiCase, e, L.2.1] at htrue
  · intro e; simp [eqIgnoreAsciiCase, e, L.2.2.1] at hfalse
  · cases hp : parseDecInt s with
    | none => rfl
    | some i => rw [numericLooking_of_decInt i hp] at hnum; exact absurd hnum (by simp)

/-! ### document markers, trailing blanks -/

theorem unsafe_facts {s : List Char} (hu : isUnsafePlainShapeImpl s = false) :
    s.getLast? ≠ some ' ' ∧
    (isDocMarker ⟨0, s⟩ "---".toList = false ∧ isDocMarker ⟨0, s⟩ "...".toList = false) := by
  simp only [isUnsafePlainShapeImpl, Bool.or_eq_false_iff, beq_eq_false_iff_ne, Bool.and_eq_false_iff] at hu
  obtain ⟨⟨h1, _⟩, h3⟩ := hu
  refine ⟨h1, ?_⟩
  simp only [isDocMarker, beq_self_eq_true, Bool.true_and, Bool.and_eq_false_iff, beq_eq_false_iff_ne]
  rcases h3 with h3 | h3
  · exact ⟨Or.inl h3.1, Or.inl h3.2⟩
  · exact ⟨Or.inr h3, Or.inr h3⟩

theorem last_ne_tab {s : List Char} (h : ∀ x ∈ s, isControl x = false) : s.getLast? ≠ some '\t' := by
  intro e
  have : '\t' ∈ s := List.mem_of_getLast? e
  exact absurd (h _ this) (by decide)

/-- a key that is no marker look-alike, followed by `:`, is no document marker -/
theorem key_notMarker {s : List Char} (hu : isUnsafePlainShapeImpl s = false) (after : List Char) :
    isDocMarker ⟨0, s ++ ':' :: after⟩ "---".toList = false ∧ isDocMarker ⟨0, s ++ ':' :: after⟩ "...".toList = false := by
  have hm := (unsafe_facts hu).2
  match s, hm with
  | [], _ => exact ⟨by simp [isDocMarker], by simp [isDocMarker]⟩
  | [a], _ => exact ⟨by simp [isDocMarker], by simp [isDocMarker]⟩
  | [a, b], _ => exact ⟨by simp [isDocMarker], by simp [isDocMarker]⟩
  | a :: b :: c :: rest, hm =>
    cases rest with
    | nil =>
      simp only [isDocMarker, beq_self_eq_true, Bool.true_and, List.take, List.drop, Bool.and_true] at hm
      simp [isDocMarker, hm.1, hm.2]
    | cons d ds =>
      simp only [isDocMarker, beq_self_eq_true, Bool.true_and, List.take, List.drop] at hm
      simpa [isDocMarker] using hm

/-! ### the crate's predicates imply the reader conditions -/

/-- a string `is_plain_value_safe` accepts in block context and `is_unsafe_plain_shape` does not reject is
a plain scalar token for itself — under `yaml_12` provided it is not a YAML 1.1 boolean word -/
theorem impl_plainVal {s : List Char} {y : Bool} (h : isPlainValueSafeImpl s y false = true)
    (hu : isUnsafePlainShapeImpl s = false) (hb : y = true → isBoolWord s = false) : PlainVal s := by
  obtain ⟨hamb, hfirst, hcs, htrim, hctl⟩ := pvs_unfold h
  obtain ⟨c, cs, e, hps, _, hq⟩ := firstCharOk_start hfirst
  have hmem := noControl_mem hctl
  have hnc : ∀ x ∈ s, isControl x = false := fun x hx => (hmem x hx).2
  refine ⟨⟨c, cs, e, hps⟩, by rw [e]; exact classify_plainStart hq,
    noKeySep_of s hcs (fun x hx => not_control_tab (hnc x hx)) (getLast_ne_colon htrim), ?_,
    ⟨(unsafe_facts hu).1, last_ne_tab hnc⟩, resolvePlain_of_notAmbiguous hamb hb, (unsafe_facts hu).2⟩
  intro x hx
  exact ⟨not_control_lineChar (hnc x hx), fun e' => (hmem x hx).1 (by simp [e'])⟩

/-- a string the key sink writes plain is a plain key token for itself — under `yaml_12` provided it is not
a YAML 1.1 boolean word -/
theorem impl_plainKey {s : List Char} {y : Bool} (h1 : isPlainSafeImpl s = true) (h2 : isPlainValueSafeImpl s y true = true)
    (hu : isUnsafePlainShapeImpl s = false) (hb : y = true → isBoolWord s = false) : PlainKey s := by
  obtain ⟨_, hfirst, hctl⟩ := ps_unfold h1
  obtain ⟨hamb, _, _, _, _⟩ := pvs_unfold h2
  obtain ⟨c, cs, e, hps, _, hq⟩ := firstCharOk_start hfirst
  have hmem := noControl_mem hctl
  have hnc : ∀ x ∈ s, isControl x = false := fun x hx => (hmem x hx).2
  refine ⟨⟨c, cs, e, hps⟩, fun after => ?_, ?_, ⟨(unsafe_facts hu).1, last_ne_tab hnc⟩,
    resolvePlain_of_notAmbiguous hamb hb, key_notMarker hu, by rw [e]; exact classify_plainStart hq, (unsafe_facts hu).2⟩
  · rw [e]
    refine classify_plainStart (c := c) (cs := cs ++ ':' :: after) (fun hc => ?_)
    obtain ⟨c1, cs1, e1, hc1⟩ := hq hc
    exact ⟨c1, cs1 ++ ':' :: after, by rw [e1]; rfl, hc1⟩
  · intro x hx
    exact ⟨not_control_lineChar (hnc x hx), fun e' => (hmem x hx).1 (by simp [e']), fun e' => (hmem x hx).1 (by simp [e'])⟩

end SaphyrVerif.Emit
