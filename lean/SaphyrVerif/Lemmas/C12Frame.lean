import SaphyrVerif.Lemmas.C12Doc
/-!
Helper lemmas for C12: the document frame, generically. Writer side: what `emitDoc` is when the scalar
writer produced a one-line scalar text / a block scalar. Reader side: `readDoc` on such a document is
`readNode` on the scalar text.
-/
namespace SaphyrVerif.Lemmas.C12
open SaphyrVerif SaphyrVerif.SerScalar SaphyrVerif.Spec.Read SaphyrVerif.Scalars

/-- opening of a position as written under `quote_all` = `qa` (the variant name is a scalar too) -/
def openingQ (qa : Bool) (p : Spec.Read.Pos) : List Char :=
  match p, qa with
  | .variant, true => ['\'', 'V', '\'', ':', ' ']
  | _, _ => opening p

theorem openingQ_cases (qa : Bool) (p : Spec.Read.Pos) :
    openingQ qa p = opening p ∨ (p = .variant ∧ openingQ qa p = ['\'', 'V', '\'', ':', ' ']) := by
  cases qa <;> cases p <;> first | (left; rfl) | (right; exact ⟨rfl, rfl⟩)

theorem stripOpening_openingQ (qa : Bool) (p : Spec.Read.Pos) (hp : simplePos p = true) (c : Char) (r : List Char)
    (hc : isBlank c = false) :
    stripOpening p (openingQ qa p ++ c :: r) = some (c :: r, posCol0 p, posParent p) := by
  rcases openingQ_cases qa p with h | ⟨hv, h⟩
  · rw [h]; exact stripOpening_opening p hp c r hc
  · subst hv; rw [h]
    have hd := dropWhile_blank_of_head (r := r) hc
    simp [stripOpening, posCol0, posParent, afterIndicator, stripPrefix?, sepBlank, hd]

theorem openingQ_head (qa : Bool) (p : Spec.Read.Pos) (c : Char) (r : List Char)
    (hc : c ≠ '%') (hb : c ≠ Char.ofNat 0xFEFF) :
    (openingQ qa p ++ c :: r).head? ≠ some (Char.ofNat 0xFEFF) ∧ (openingQ qa p ++ c :: r).head? ≠ some '%' := by
  rcases openingQ_cases qa p with h | ⟨_, h⟩
  · rw [h]; exact opening_head p c r hc hb
  · rw [h]; constructor <;> simp <;> decide

theorem openingQ_noNul (qa : Bool) (p : Spec.Read.Pos) : (openingQ qa p).any isNul = false := by
  cases qa <;> cases p <;> decide

/-- depth of the dash of a sequence that is the value of a top-level mapping key -/
def seqInMapDepth (o : Opts) : Nat := if o.compactList then 0 else 1

/-- opening of a position as the writer produces it under the options `o` (two positions depend on the
indentation step, the variant name on `quote_all`) -/
def openingO (o : Opts) (p : Spec.Read.Pos) : List Char :=
  match p with
  | .nestedMapValue => ['a', ':', '\n'] ++ (spaces o.indentStep ++ ['k', ':', ' '])
  | .seqInMap => ['a', ':', '\n'] ++ (spaces (o.indentStep * seqInMapDepth o) ++ ['-', ' '])
  | _ => openingQ o.quoteAll p

/-- column of the parent block node -/
def posParentO (o : Opts) (p : Spec.Read.Pos) : Int :=
  match p with
  | .nestedMapValue => (o.indentStep : Int)
  | .seqInMap => ((o.indentStep * seqInMapDepth o : Nat) : Int)
  | _ => posParent p

theorem leadingSpaces_spaces_ne (n : Nat) (c : Char) (r : List Char) (hc : c ≠ ' ') :
    leadingSpaces (spaces n ++ c :: r) = n ∧ (spaces n ++ c :: r).drop n = c :: r := by
  induction n with
  | zero =>
    have : (c == ' ') = false := by simpa using hc
    simp [spaces, leadingSpaces, List.takeWhile, this]
  | succ n ih =>
    have h : spaces (n + 1) ++ c :: r = ' ' :: (spaces n ++ c :: r) := by simp [spaces, List.replicate_succ]
    rw [h]
    constructor
    · have := ih.1
      simp only [leadingSpaces, List.takeWhile, beq_self_eq_true, List.length_cons] at this ⊢
      omega
    · simpa using ih.2

theorem stripOpening_openingO (o : Opts) (p : Spec.Read.Pos) (hstep : 1 ≤ o.indentStep) (c : Char) (r : List Char)
    (hc : isBlank c = false) :
    stripOpening p (openingO o p ++ c :: r) = some (c :: r, posCol0 p, posParentO o p) := by
  have hd := dropWhile_blank_of_head (r := r) hc
  cases p with
  | nestedMapValue =>
    obtain ⟨h1, h2⟩ := leadingSpaces_spaces_ne o.indentStep 'k' (':' :: ' ' :: c :: r) (by decide)
    have hne : (o.indentStep == 0) = false := by
      apply Bool.eq_false_iff.mpr; intro e; have := eq_of_beq e; omega
    simp only [openingO, List.append_assoc, List.cons_append, List.nil_append, stripOpening, stripPrefix?,
      beq_self_eq_true, if_true, Option.bind_some, h1, h2, hne, Bool.false_eq_true, if_false, afterIndicator,
      sepBlank, hd, Option.map_some, posCol0, posParentO]
  | seqInMap =>
    obtain ⟨h1, h2⟩ := leadingSpaces_spaces_ne (o.indentStep * seqInMapDepth o) '-' (' ' :: c :: r) (by decide)
    simp only [openingO, List.append_assoc, List.cons_append, List.nil_append, stripOpening, stripPrefix?,
      beq_self_eq_true, if_true, Option.bind_some, h1, h2, afterIndicator,
      sepBlank, hd, Option.map_some, posCol0, posParentO]
  | root => exact stripOpening_openingQ o.quoteAll _ rfl c r hc
  | mapValue => exact stripOpening_openingQ o.quoteAll _ rfl c r hc
  | mapKey => exact stripOpening_openingQ o.quoteAll _ rfl c r hc
  | seqItem => exact stripOpening_openingQ o.quoteAll _ rfl c r hc
  | flowSeq => exact stripOpening_openingQ o.quoteAll _ rfl c r hc
  | flowMapValue => exact stripOpening_openingQ o.quoteAll _ rfl c r hc
  | flowMapKey => exact stripOpening_openingQ o.quoteAll _ rfl c r hc
  | variant => exact stripOpening_openingQ o.quoteAll _ rfl c r hc
  | seqInSeq => exact stripOpening_openingQ o.quoteAll _ rfl c r hc

theorem openingO_simple (o : Opts) (p : Spec.Read.Pos) (h : simplePos p = true) :
    openingO o p = openingQ o.quoteAll p := by
  cases p <;> first | rfl | (cases h; done)

theorem openingO_head (o : Opts) (p : Spec.Read.Pos) (c : Char) (r : List Char)
    (hc : c ≠ '%') (hb : c ≠ Char.ofNat 0xFEFF) :
    (openingO o p ++ c :: r).head? ≠ some (Char.ofNat 0xFEFF) ∧ (openingO o p ++ c :: r).head? ≠ some '%' := by
  by_cases hs : simplePos p = true
  · rw [openingO_simple o p hs]; exact openingQ_head o.quoteAll p c r hc hb
  · cases p <;> first
      | (exfalso; exact hs rfl)
      | (simp only [openingO, List.cons_append, List.head?_cons]; constructor <;> decide)

theorem spaces_noNul (n : Nat) : (spaces n).any isNul = false := by
  induction n with
  | zero => rfl
  | succ n ih => simp only [spaces, List.replicate_succ, List.any_cons] at ih ⊢; rw [ih]; decide

theorem openingO_noNul (o : Opts) (p : Spec.Read.Pos) : (openingO o p).any isNul = false := by
  by_cases hs : simplePos p = true
  · rw [openingO_simple o p hs]; exact openingQ_noNul o.quoteAll p
  · cases p <;> first
      | (exfalso; exact hs rfl)
      | (simp only [openingO, List.any_append, List.any_cons, List.any_nil, spaces_noNul]; decide)

/-- Reader side of the frame: in a position with a fixed opening, a document made of the optional
preamble, the opening and a text `X` (not starting with a blank, `%`, or — at the start of the stream — a
byte-order mark; without U+0000) is read by `readNode` on `X`. -/
theorem readDoc_open (o : Opts) (p : Spec.Read.Pos) (hstep : 1 ≤ o.indentStep) (c : Char) (r : List Char)
    (hblank : isBlank c = false) (hpct : c ≠ '%') (hbom : c ≠ Char.ofNat 0xFEFF)
    (hnul : (c :: r).any isNul = false) :
    readDoc p (preamble o ++ (openingO o p ++ c :: r)) = readNode p (c :: r) (posCol0 p) (posParentO o p) := by
  obtain ⟨hh1, hh2⟩ := openingO_head o p c r hpct hbom
  rw [readDoc_frame o p _ hh1 hh2]
  unfold readDocBody
  have hpc : ((openingO o p ++ c :: r).head? == some '%') = false := by
    apply Bool.eq_false_iff.mpr
    intro e
    exact hh2 (eq_of_beq e)
  have hn : (openingO o p ++ c :: r).any isNul = false := by
    rw [List.any_append, openingO_noNul, hnul]; rfl
  rw [hpc, hn]
  simp only [Bool.or_self, Bool.false_eq_true, if_false]
  rw [stripOpening_openingO o p hstep c r hblank]

theorem isDocMarker_head (a : Char) (t : List Char) (h1 : a ≠ '-') (h2 : a ≠ '.') : isDocMarker (a :: t) = false := by
  cases t with
  | nil => rfl
  | cons b t =>
    cases t with
    | nil => rfl
    | cons c r => simp [isDocMarker, h1, h2]

/-! ### writer side -/

def isValuePos (p : SerScalar.Pos) : Bool := !isKeyPos p

/-- the `write_space_if_pending` text and the end of a scalar (`write_end_of_scalar`) -/
def spOf (cx : Ctx) : List Char := if cx.pendingSpace then [' '] else []
def nlOf (cx : Ctx) : List Char := if cx.inFlow then [] else ['\n']

theorem variant_name (qa : Bool) :
    writePlainOrQuoted ['V'] qa = (if qa then ['\'', 'V', '\''] else ['V']) := by
  cases qa <;> decide

/-- a one-line scalar text `T` in a value position: the whole document -/
theorem emit_of_line (o : Opts) (p : SerScalar.Pos) (hk : isKeyPos p = false)
    (v T : List Char) (d : Nat) (hd : p = .root → d = 0)
    (h : serializeStr o (posCtx o p) v = .ok (spOf (posCtx o p) ++ writeIndent o (posCtx o p) d ++ T ++ nlOf (posCtx o p))) :
    emitDoc o p v = .ok (preamble o ++ (openingO o (toRead p) ++ (T ++ lineEnd (toRead p)))) := by
  cases p <;> first
    | (cases hk; done)
    | (have := hd rfl; subst this
       simp only [emitDoc, h]
       cases hy : o.yaml12 <;>
         simp [posCtx, spOf, nlOf, writeIndent, indentCols, spaces, preamble, hy, openingO, openingQ, opening, toRead, lineEnd,
           Spec.Read.Pos.closing])
    | (simp only [emitDoc, h]
       cases hq : o.quoteAll <;>
       simp [posCtx, posPre, posPost, spOf, nlOf, writeIndent, openingO, openingQ, opening, toRead, lineEnd,
         Spec.Read.Pos.closing, variant_name, hq, seqInMapDepth])

/-- a block scalar text `T` (header line and body, ending with a line break) in a block value position -/
theorem emit_of_block (o : Opts) (p : SerScalar.Pos) (hk : isKeyPos p = false)
    (hfl : (toRead p).isFlow = false) (v T : List Char) (d : Nat) (hd : p = .root → d = 0)
    (h : serializeStr o (posCtx o p) v = .ok (spOf (posCtx o p) ++ writeIndent o (posCtx o p) d ++ T)) :
    emitDoc o p v = .ok (preamble o ++ (openingO o (toRead p) ++ T)) := by
  cases p <;> first
    | (cases hk; done)
    | (cases hfl; done)
    | (have := hd rfl; subst this
       simp only [emitDoc, h]
       cases hy : o.yaml12 <;>
         simp [posCtx, spOf, writeIndent, indentCols, spaces, preamble, hy, openingO, openingQ, opening, toRead])
    | (simp only [emitDoc, h]
       cases hq : o.quoteAll <;>
       simp [posCtx, posPre, posPost, spOf, writeIndent, openingO, openingQ, opening, toRead, variant_name, hq, seqInMapDepth])

/-- key positions: the key sink's text -/
theorem emit_key (o : Opts) (p : SerScalar.Pos) (hk : isKeyPos p = true) (v : List Char) :
    emitDoc o p v = .ok (preamble o ++ (openingO o (toRead p) ++ (keySinkStr v o.yaml12 ++ lineEnd (toRead p)))) := by
  cases p <;> first
    | (cases hk; done)
    | (cases hq : o.quoteAll <;>
       simp [emitDoc, posPre, posPost, openingO, openingQ, opening, toRead, lineEnd, Spec.Read.Pos.closing])

end SaphyrVerif.Lemmas.C12
