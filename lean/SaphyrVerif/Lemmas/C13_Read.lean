import SaphyrVerif.Lemmas.C13_Lex
/-!
C13 proof machinery, part 3b: the reference reader maps the layout of a fragment value back to
`erase v`, for all texts that satisfy `ReadContract` (`LeafOK`: what is written for a string leaf — a token alone
on a line, `ScalarTok`, or the header and the body lines of a block scalar — reads as its string;
`KeyTok`: a token followed by `:` is an implicit key that reads as its string).  Fuel: every lemma asks for `2 * (characters of the node's own lines) + 1`; the root
supplies `2 * text.length + …`.
-/
set_option linter.unusedSimpArgs false
set_option linter.unusedVariables false
namespace SaphyrVerif.Emit
open SaphyrVerif

/-- size of a block of lines: characters + one per line -/
def mu : List Line → Nat
  | [] => 0
  | l :: ls => l.text.length + 1 + mu ls

theorem mu_append (a b : List Line) : mu (a ++ b) = mu a + mu b := by
  induction a with
  | nil => simp [mu]
  | cons l ls ih => simp [mu, ih]; omega

/-- the lines after a node: nothing, or a non-blank line indented less than `c` -/
def DedLt (c : Nat) (rest : List Line) : Prop :=
  rest = [] ∨ ∃ l ls, rest = l :: ls ∧ l.indent < c ∧ l.isSkippable = false

theorem DedLt.mono {c c' : Nat} {rest : List Line} (h : DedLt c rest) (hc : c ≤ c') : DedLt c' rest := by
  rcases h with rfl | ⟨l, ls, rfl, hi, hs⟩
  · exact Or.inl rfl
  · exact Or.inr ⟨l, ls, rfl, by omega, hs⟩

theorem DedLt.cons {c : Nat} (l : Line) (ls : List Line) (hi : l.indent < c) (hs : l.isSkippable = false) :
    DedLt c (l :: ls) := Or.inr ⟨l, ls, rfl, hi, hs⟩

theorem skipBlank_cons {l : Line} (ls : List Line) (h : l.isSkippable = false) : skipBlank (l :: ls) = l :: ls := by
  simp [skipBlank, h]

theorem skipBlank_ded {c : Nat} {rest : List Line} (h : DedLt c rest) : skipBlank rest = rest := by
  rcases h with rfl | ⟨l, ls, rfl, _, hs⟩
  · rfl
  · exact skipBlank_cons ls hs

theorem plainContinuation_ded {n : Nat} {rest : List Line} (h : DedLt n rest) :
    plainContinuation n rest 0 = some ([], rest) := by
  rcases h with rfl | ⟨l, ls, rfl, hi, hs⟩
  · rfl
  · have hb : l.isBlank = false := by
      simp only [Line.isSkippable, Bool.or_eq_false_iff] at hs
      simpa [Line.isBlank] using hs.1
    simp [plainContinuation, hb, hi]

/-- a line whose text starts with a token character / bracket is not skippable -/
theorem notSkippable_of_head {i : Nat} {c : Char} {cs : List Char} (hc : c ≠ '#') :
    (⟨i, c :: cs⟩ : Line).isSkippable = false := by
  simp [Line.isSkippable, hc]

/-! ### tokens: what the reader must make of the text written for a string -/

/-- A scalar token that reads as `p`: as the only thing on a line (after the indentation, or after
`- `, `? `, `: `, `key: ` on that line), followed by lines that do not continue it, the reader takes it
for the scalar `p`; it can start a line (no leading blank, `#`, `%`; not a document marker) and lies on
one line. -/
structure ScalarTok (t : List Char) (p : PVal) : Prop where
  read : ∀ (fuel n : Nat) (seqAt : Option Nat) (inl : Bool) (i : Nat) (rest : List Line), n ≤ i → DedLt n rest →
    blockNode (fuel + 1) n seqAt inl (⟨i, t⟩ :: rest) = some (p, rest)
  ne : t ≠ []
  head : t.head? ≠ some ' ' ∧ t.head? ≠ some '#' ∧ t.head? ≠ some '%'
  chars : ∀ x ∈ t, lineChar x = true
  noMarker : isDocMarker ⟨0, t⟩ "---".toList = false ∧ isDocMarker ⟨0, t⟩ "...".toList = false

/-- first characters of a key token: not a blank, `#`, `%`, `!`, nor an indicator that sends the reader
elsewhere before it looks for an implicit key -/
def keyStart (c : Char) : Bool :=
  !(c == ' ' || c == '#' || c == '%' || c == '!' || c == '[' || c == '{' || c == '|' || c == '>' || c == '&' || c == '*' ||
    c == '@' || c == '`')

/-- A key token for the string `s`: followed by `:` and the end of the line or a blank it is an
implicit key that reads as the string `s`; the line is not taken for a sequence entry / explicit key, can
start a line and lies on one line. -/
structure KeyTok (K : List Char) (s : List Char) : Prop where
  ik : ∀ after, colonEndsKey after = true → implicitKey (K ++ ':' :: after) = some (.str s, after)
  cls : ∀ after, classify (K ++ ':' :: after) = .other
  start : ∃ c cs, K = c :: cs ∧ keyStart c = true
  chars : ∀ x ∈ K, lineChar x = true
  noMarker : ∀ after, isDocMarker ⟨0, K ++ ':' :: after⟩ "---".toList = false ∧
    isDocMarker ⟨0, K ++ ':' :: after⟩ "...".toList = false
  /-- alone on a line (after `? `: the explicit form of a key too long for an implicit key) it reads as the string -/
  scalar : ScalarTok K (.str s)

/-- a line of the body of a block scalar: indented (never at column 0, hence no document marker / directive),
the leading blanks of the content line counted as indentation, on one line; it may be blank or look like a
comment -/
structure BodyLine (l : Line) : Prop where
  ind : l.indent ≥ 1
  head : l.text.head? ≠ some ' '
  chars : ∀ x ∈ l.text, lineChar x = true

/-- What is written for a leaf — the text `r.1` on the line of the leaf (after the indentation, or after `- `,
`? `, `: `, `key: ` on that line) and the lines `r.2` that follow it (none for a plain / quoted token, the body
lines for a block scalar) — reads as `p` where a node of least indentation `n` is expected, whatever lines that do
not continue it follow; `r.1` can start a line and lies on one line, `r.2` are body lines. -/
structure LeafOK (n : Nat) (r : List Char × List Line) (p : PVal) : Prop where
  read : ∀ (fuel : Nat) (seqAt : Option Nat) (inl : Bool) (i : Nat) (rest : List Line), n ≤ i → DedLt n rest →
    blockNode (fuel + 1) n seqAt inl (⟨i, r.1⟩ :: r.2 ++ rest) = some (p, rest)
  ne : r.1 ≠ []
  head : r.1.head? ≠ some ' ' ∧ r.1.head? ≠ some '#' ∧ r.1.head? ≠ some '%'
  chars : ∀ x ∈ r.1, lineChar x = true
  noMarker : isDocMarker ⟨0, r.1⟩ "---".toList = false ∧ isDocMarker ⟨0, r.1⟩ "...".toList = false
  body : ∀ l ∈ r.2, BodyLine l

/-- a scalar token is a leaf without following lines, in every position -/
theorem ScalarTok.leafOK {t : List Char} {p : PVal} (h : ScalarTok t p) (n : Nat) : LeafOK n (t, []) p :=
  ⟨fun fuel seqAt inl i rest hi hd => by simpa using h.read fuel n seqAt inl i rest hi hd, h.ne, h.head, h.chars, h.noMarker,
    fun _ hl => absurd hl (by simp)⟩

/-- what the reader theorems assume about the texts `T` written for the strings of a class `P` (`k` =
`indent_step`, on which the layout of a block scalar depends) -/
structure ReadContract (P : LeafPred) (T : Toks) (k : Nat) : Prop where
  str : ∀ pos s, P.str s = true → LeafOK pos.minIndent (T.strAt k pos s) (.str s)
  unit : ∀ pos e n, P.unit e n = true → LeafOK pos.minIndent (T.unitAt k pos e n) (.str n)
  key : ∀ s, P.key s = true → KeyTok (T.key s) s
  name : ∀ n, P.name n = true → KeyTok (T.name n) n

/-- the read contract of texts that are tokens (no block scalars), for every `indent_step` -/
theorem ReadContract.ofTok {P : LeafPred} {T : Toks} (ht : T.IsTok) (hs : ∀ s, P.str s = true → ScalarTok (T.str s) (.str s))
    (hu : ∀ e n, P.unit e n = true → ScalarTok (T.unit e n) (.str n)) (hk : ∀ s, P.key s = true → KeyTok (T.key s) s)
    (hn : ∀ n, P.name n = true → KeyTok (T.name n) n) (k : Nat) : ReadContract P T k :=
  ⟨fun pos s h => by rw [ht.1 k pos s]; exact (hs s h).leafOK _,
   fun pos e n h => by rw [ht.2 k pos e n]; exact (hu e n h).leafOK _, hk, hn⟩

theorem keyStart_ne {c : Char} (h : keyStart c = true) (x : Char) (hx : keyStart x = false) : c ≠ x := by
  rintro rfl; rw [h] at hx; exact Bool.noConfusion hx

/-! ### scalars and empty collections -/

theorem blockNode_plain (fuel n : Nat) (seqAt : Option Nat) (inl : Bool) (i : Nat) {t : List Char}
    (rest : List Line) (ht : PlainTok t) (hi : n ≤ i) (hd : DedLt n rest) :
    blockNode (fuel + 1) n seqAt inl (⟨i, t⟩ :: rest) = some (resolvePlain t, rest) := by
  obtain ⟨c, cs, e, hc⟩ := ht.head
  have hns : (⟨i, t⟩ : Line).isSkippable = false := by
    rw [e]; exact notSkippable_of_head (fun h => by rw [h] at hc; exact absurd hc (by decide))
  have hcl := classify_plainTok ht
  have hlt : ¬ (i < n) := by omega
  have hsk := skipTag_tok e hc
  have hne : ∀ x : Char, isTokChar x = false → (c == x) = false := fun x hx => by
    simp only [beq_eq_false_iff_ne]; exact isTokChar_ne hc x hx
  rw [blockNode, skipBlank_cons rest hns]
  simp only [hcl, hlt, decide_false, Bool.false_and, Bool.false_eq_true, if_false, hsk]
  rw [e]
  simp only [hne '[' (by decide), hne '{' (by decide), hne '|' (by decide), hne '>' (by decide), hne '&' (by decide),
    hne '*' (by decide), hne '%' (by decide), hne '@' (by decide), hne '`' (by decide), hne '"' (by decide),
    hne '\'' (by decide), hne '#' (by decide), Bool.or_self, Bool.false_eq_true, if_false]
  rw [← e, implicitKey_plainTok ht, plainFirstLine_plainTok ht]
  simp only [Bool.false_eq_true, if_false, plainContinuation_ded hd]

/-- a text whose first character is not `-` / `.`, or that starts with `-` and another character, is no document marker -/
theorem notMarker_head {t : List Char} {c : Char} {cs : List Char} (e : t = c :: cs)
    (h1 : c ≠ '-' ∨ ∃ c2 cs2, cs = c2 :: cs2 ∧ c2 ≠ '-') (h2 : c ≠ '.') (i : Nat) :
    isDocMarker ⟨i, t⟩ "---".toList = false ∧ isDocMarker ⟨i, t⟩ "...".toList = false := by
  subst e
  refine ⟨?_, ?_⟩
  · simp only [isDocMarker, Bool.and_eq_false_iff]
    left; right
    rcases h1 with h1 | ⟨c2, cs2, rfl, hc2⟩
    · cases cs with
      | nil => simp
      | cons a as => cases as <;> simp [h1]
    · cases cs2 <;> simp [hc2]
  · simp only [isDocMarker, Bool.and_eq_false_iff]
    left; right
    cases cs with
    | nil => simp
    | cons a as => cases as <;> simp [h2]

theorem tok_lineChar {c : Char} (h : isTokChar c = true) : lineChar c = true := by
  have h1 := isTokChar_ne h '\n' (by decide)
  have h2 := isTokChar_ne h '\r' (by decide)
  have h3 := isTokChar_ne h (Char.ofNat 0) (by decide)
  simp [lineChar, h1, h2, h3]

/-- a plain token of the fragment alphabet is a scalar token (for what it resolves to) -/
theorem PlainTok.scalarTok {t : List Char} (h : PlainTok t)
    (hd : ∀ cs, t = '-' :: cs → ∃ c2 cs2, cs = c2 :: cs2 ∧ c2 ≠ '-') : ScalarTok t (resolvePlain t) := by
  obtain ⟨c, cs, e, hc⟩ := h.head
  refine ⟨fun fuel n seqAt inl i rest hi hdd => blockNode_plain fuel n seqAt inl i rest h hi hdd, h.ne, ?_,
    fun x hx => tok_lineChar (h.chars x hx), ?_⟩
  · subst e
    simp only [List.head?_cons, ne_eq, Option.some.injEq]
    exact ⟨isTokChar_ne hc ' ' (by decide), isTokChar_ne hc '#' (by decide), isTokChar_ne hc '%' (by decide)⟩
  · refine notMarker_head e ?_ (isTokChar_ne hc '.' (by decide)) 0
    by_cases hm : c = '-'
    · subst hm; exact Or.inr (hd cs e)
    · exact Or.inl hm

theorem blockNode_emptySeq (fuel n : Nat) (seqAt : Option Nat) (inl : Bool) (i : Nat) (rest : List Line)
    (hi : n ≤ i) : blockNode (fuel + 1) n seqAt inl (⟨i, "[]".toList⟩ :: rest) = some (.seq [], rest) := by
  have hlt : ¬ (i < n) := by omega
  rw [blockNode]
  simp [skipBlank, Line.isSkippable, classify, hlt, skipTag, flowAcross, flowNode, dropSpaces, restIsEmptyOrComment]

theorem blockNode_emptyMap (fuel n : Nat) (seqAt : Option Nat) (inl : Bool) (i : Nat) (rest : List Line)
    (hi : n ≤ i) : blockNode (fuel + 1) n seqAt inl (⟨i, "{}".toList⟩ :: rest) = some (.map [], rest) := by
  have hlt : ¬ (i < n) := by omega
  rw [blockNode]
  simp [skipBlank, Line.isSkippable, classify, hlt, skipTag, flowAcross, flowNode, dropSpaces, restIsEmptyOrComment]

/-! ### unfolding lemmas for sequences -/

/-- an item head: non-empty, does not start with a blank or `#` -/
structure ItemHead (h : List Char) : Prop where
  ne : h ≠ []
  noSpace : h.head? ≠ some ' '

theorem classify_dash {h : List Char} (hh : ItemHead h) : classify ('-' :: ' ' :: h) = .dash h 1 := by
  obtain ⟨c, cs, rfl⟩ : ∃ c cs, h = c :: cs := by
    cases h with
    | nil => exact absurd rfl hh.ne
    | cons c cs => exact ⟨c, cs, rfl⟩
  have hc : c ≠ ' ' := by
    intro e; exact hh.noSpace (by simp [e])
  simp [classify, dropSpaces, hc]

theorem blockSeq_end (fuel c : Nat) {rest : List Line} (h : DedLt c rest) :
    blockSeq (fuel + 1) c rest = some ([], rest) := by
  rw [blockSeq, skipBlank_ded h]
  rcases h with rfl | ⟨l, ls, rfl, hi, hs⟩
  · rfl
  · have h1 : (l.indent != c) = true := by simp; omega
    have h2 : ¬ (l.indent > c) := by omega
    simp [h1, h2]

theorem blockSeq_cons (fuel c : Nat) {h : List Char} (ls : List Line) (hh : ItemHead h) :
    blockSeq (fuel + 1) c (⟨c, '-' :: ' ' :: h⟩ :: ls) =
      (match blockNode fuel (c + 1) none false (⟨c + 2, h⟩ :: ls) with
       | none => none
       | some (v, r) => (blockSeq fuel c r).map fun (vs, r) => (v :: vs, r)) := by
  have hns : (⟨c, '-' :: ' ' :: h⟩ : Line).isSkippable = false := notSkippable_of_head (by decide)
  have hne : h.isEmpty = false := by
    cases h with
    | nil => exact absurd rfl hh.ne
    | cons _ _ => rfl
  rw [blockSeq, skipBlank_cons ls hns]
  simp [classify_dash hh, hne]
  rfl

/-- a block node whose first line starts with `- ` is the block sequence at that indentation -/
theorem blockNode_dash (fuel n : Nat) (seqAt : Option Nat) (i : Nat) {h : List Char} (ls : List Line)
    (hh : ItemHead h) (hi : n ≤ i) :
    blockNode (fuel + 1) n seqAt false (⟨i, '-' :: ' ' :: h⟩ :: ls) =
      (blockSeq fuel i (⟨i, '-' :: ' ' :: h⟩ :: ls)).map fun (xs, r) => (.seq xs, r) := by
  have hns : (⟨i, '-' :: ' ' :: h⟩ : Line).isSkippable = false := notSkippable_of_head (by decide)
  have hlt : ¬ (i < n) := by omega
  rw [blockNode, skipBlank_cons ls hns]
  simp [classify_dash hh, hlt]

/-! ### unfolding lemmas for mappings -/

/-- how `blockMap` reads the value of an implicit key at indentation `c` -/
def valueParse (fuel c keyLen : Nat) (after : List Char) (rest : List Line) : Option (PVal × List Line) :=
  if (dropSpaces after).isEmpty || (dropSpaces after).head? == some '#' then blockNode fuel (c + 1) (some c) false rest
  else blockNode fuel (c + 1) none true ({ indent := restColumn (c + keyLen) after, text := dropSpaces after } :: rest)

/-- the text after `key:`: nothing, or a blank followed by an item head -/
def ValHead (h : List Char) : Prop := h = [] ∨ ∃ t, h = ' ' :: t ∧ ItemHead t

theorem ValHead.colonEnds {h : List Char} (hh : ValHead h) : colonEndsKey h = true := by
  rcases hh with rfl | ⟨t, rfl, _⟩ <;> simp [colonEndsKey]

theorem KeyTok.head {K s : List Char} (hk : KeyTok K s) : ∃ c cs, K = c :: cs ∧ keyStart c = true := hk.start

theorem blockMap_end (fuel c : Nat) {rest : List Line} (h : DedLt c rest) :
    blockMap (fuel + 1) c rest = some ([], rest) := by
  rw [blockMap, skipBlank_ded h]
  rcases h with rfl | ⟨l, ls, rfl, hi, hs⟩
  · rfl
  · have h1 : (l.indent != c) = true := by simp; omega
    have h2 : ¬ (l.indent > c) := by omega
    simp [h1, h2]

theorem key_line_notSkippable {K k : List Char} (hk : KeyTok K k) (i : Nat) (after : List Char) :
    (⟨i, K ++ ':' :: after⟩ : Line).isSkippable = false := by
  obtain ⟨c, cs, rfl, hc⟩ := hk.start
  exact notSkippable_of_head (keyStart_ne hc '#' (by decide))

theorem blockMap_cons (fuel c : Nat) {K k h : List Char} (ls : List Line) (hk : KeyTok K k) (hh : ValHead h)
    (hfit : fitsImplicit K = true) :
    blockMap (fuel + 1) c (⟨c, K ++ ':' :: h⟩ :: ls) =
      (match valueParse fuel c (K.length + 1) h ls with
       | none => none
       | some (v, r) => (blockMap fuel c r).map fun (es, r) => ((.str k, v) :: es, r)) := by
  rw [blockMap, skipBlank_cons ls (key_line_notSkippable hk c h)]
  simp only [bne_self_eq_false, Bool.false_eq_true, if_false, hk.cls h, hk.ik h hh.colonEnds]
  have hlen : (K ++ ':' :: h).length - h.length = K.length + 1 := by simp; omega
  have hshort : ¬ (K.length + 1 > maxImplicitKey + 1) := by
    simp only [fitsImplicit, decide_eq_true_eq] at hfit
    simp only [maxImplicitKey]; omega
  simp only [hlen, valueParse, hshort, if_false]
  rfl

/-- (the rule at work) a key token longer than 1024 characters followed by `:` is NOT read as an implicit key: the
reader rejects the mapping, as the real parser does -/
theorem blockMap_long_rejected (fuel c : Nat) {K k h : List Char} (ls : List Line) (hk : KeyTok K k) (hh : ValHead h)
    (hfit : fitsImplicit K = false) : blockMap (fuel + 1) c (⟨c, K ++ ':' :: h⟩ :: ls) = none := by
  rw [blockMap, skipBlank_cons ls (key_line_notSkippable hk c h)]
  simp only [bne_self_eq_false, Bool.false_eq_true, if_false, hk.cls h, hk.ik h hh.colonEnds]
  have hlen : (K ++ ':' :: h).length - h.length = K.length + 1 := by simp; omega
  have hlong : K.length + 1 > maxImplicitKey + 1 := by
    simp only [fitsImplicit, decide_eq_false_iff_not] at hfit
    simp only [maxImplicitKey]; omega
  simp only [hlen, hlong, if_true]

theorem skipTag_keyStart {c : Char} (cs : List Char) (hc : keyStart c = true) : skipTag (c :: cs) = c :: cs := by
  unfold skipTag
  split
  · rename_i he
    simp only [List.cons.injEq] at he
    exact absurd he.1 (keyStart_ne hc '!' (by decide))
  · rfl

/-- a block node whose first line is `key:…` with a key token is the block mapping at that indentation -/
theorem blockNode_key (fuel n : Nat) (seqAt : Option Nat) (i : Nat) {K k h : List Char} (ls : List Line)
    (hk : KeyTok K k) (hh : ValHead h) (hi : n ≤ i) :
    blockNode (fuel + 1) n seqAt false (⟨i, K ++ ':' :: h⟩ :: ls) =
      (match blockMap fuel i (⟨i, K ++ ':' :: h⟩ :: ls) with
       | some (es, r) => if hasDupKey es then none else some (.map es, r)
       | none => none) := by
  have hcls := hk.cls h
  have hik := hk.ik h hh.colonEnds
  have hns := key_line_notSkippable hk i h
  obtain ⟨c, cs, rfl, hc⟩ := hk.start
  have hlt : ¬ (i < n) := by omega
  have hne : ∀ x : Char, keyStart x = false → (c == x) = false := fun x hx => by
    simp only [beq_eq_false_iff_ne]; exact keyStart_ne hc x hx
  have hsk : skipTag ((c :: cs) ++ ':' :: h) = (c :: cs) ++ ':' :: h := skipTag_keyStart _ hc
  rw [blockNode, skipBlank_cons ls hns]
  simp only [hcls, hlt, decide_false, Bool.false_and, Bool.false_eq_true, if_false, hsk]
  simp only [List.cons_append, hne '[' (by decide), hne '{' (by decide), hne '|' (by decide), hne '>' (by decide),
    hne '&' (by decide), hne '*' (by decide), hne '%' (by decide), hne '@' (by decide), hne '`' (by decide),
    Bool.or_self, Bool.false_eq_true, if_false]
  simp only [List.cons_append] at hik
  simp [hik]
  rfl

/-! ### explicit keys `? key` / `: value` -/

theorem classify_question {h : List Char} (hh : ItemHead h) : classify ('?' :: ' ' :: h) = .question h 1 := by
  obtain ⟨c, cs, rfl⟩ : ∃ c cs, h = c :: cs := by
    cases h with
    | nil => exact absurd rfl hh.ne
    | cons c cs => exact ⟨c, cs, rfl⟩
  have hc : c ≠ ' ' := by
    intro e; exact hh.noSpace (by simp [e])
  simp [classify, dropSpaces, hc]

/-- a block node whose first line starts with `? ` is the block mapping at that indentation -/
theorem blockNode_question (fuel n : Nat) (seqAt : Option Nat) (i : Nat) {h : List Char} (ls : List Line)
    (hh : ItemHead h) (hi : n ≤ i) :
    blockNode (fuel + 1) n seqAt false (⟨i, '?' :: ' ' :: h⟩ :: ls) =
      (match blockMap fuel i (⟨i, '?' :: ' ' :: h⟩ :: ls) with
       | some (es, r) => if hasDupKey es then none else some (.map es, r)
       | none => none) := by
  have hns : (⟨i, '?' :: ' ' :: h⟩ : Line).isSkippable = false := notSkippable_of_head (by decide)
  have hlt : ¬ (i < n) := by omega
  rw [blockNode, skipBlank_cons ls hns]
  simp [classify_question hh, hlt]
  rfl

/-- an entry `? key` / `: value` of a block mapping: the key is the block node after `? `, the value
the block node after `: ` -/
theorem blockMap_cons_complex (fuel c : Nat) {hk hv : List Char} (ls r2 : List Line) (hhk : ItemHead hk) (hhv : ItemHead hv)
    {kv : PVal} (hkey : blockNode fuel (c + 1) none false (⟨c + 2, hk⟩ :: ls) = some (kv, ⟨c, ':' :: ' ' :: hv⟩ :: r2)) :
    blockMap (fuel + 1) c (⟨c, '?' :: ' ' :: hk⟩ :: ls) =
      (match blockNode fuel (c + 1) (some c) false (⟨c + 2, hv⟩ :: r2) with
       | none => none
       | some (v, r3) => (blockMap fuel c r3).map fun (es, r) => ((kv, v) :: es, r)) := by
  have hns : (⟨c, '?' :: ' ' :: hk⟩ : Line).isSkippable = false := notSkippable_of_head (by decide)
  have hns2 : (⟨c, ':' :: ' ' :: hv⟩ : Line).isSkippable = false := notSkippable_of_head (by decide)
  have hne : hk.isEmpty = false := by
    cases hk with
    | nil => exact absurd rfl hhk.ne
    | cons _ _ => rfl
  obtain ⟨cv, csv, rfl⟩ : ∃ c cs, hv = c :: cs := by
    cases hv with
    | nil => exact absurd rfl hhv.ne
    | cons c cs => exact ⟨c, cs, rfl⟩
  have hcv : cv ≠ ' ' := by
    intro e; exact hhv.noSpace (by simp [e])
  rw [blockMap, skipBlank_cons ls hns]
  simp only [bne_self_eq_false, Bool.false_eq_true, if_false, classify_question hhk, hne, hkey, skipBlank_cons r2 hns2]
  simp [dropSpaces, restColumn, hcv]
  rfl

/-! ### what may follow a block sequence / the value of a key at column `c` -/

/-- nothing, or a non-blank line indented less than `c`, or a line at column `c` that is not a sequence entry -/
def SeqEnd (c : Nat) (rest : List Line) : Prop :=
  rest = [] ∨ ∃ l ls, rest = l :: ls ∧ l.isSkippable = false ∧
    (l.indent < c ∨ (l.indent = c ∧ ∀ it g, classify l.text ≠ .dash it g))

theorem DedLt.seqEnd {c : Nat} {rest : List Line} (h : DedLt c rest) : SeqEnd c rest := by
  rcases h with rfl | ⟨l, ls, rfl, hi, hs⟩
  · exact Or.inl rfl
  · exact Or.inr ⟨l, ls, rfl, hs, Or.inl hi⟩

theorem SeqEnd.ded {c : Nat} {rest : List Line} (h : SeqEnd c rest) : DedLt (c + 1) rest := by
  rcases h with rfl | ⟨l, ls, rfl, hs, hi⟩
  · exact Or.inl rfl
  · exact Or.inr ⟨l, ls, rfl, by rcases hi with h | ⟨h, _⟩ <;> omega, hs⟩

theorem SeqEnd.mono {c c' : Nat} {rest : List Line} (h : SeqEnd c rest) (hc : c < c') : SeqEnd c' rest :=
  (h.ded.mono (by omega)).seqEnd

theorem skipBlank_seqEnd {c : Nat} {rest : List Line} (h : SeqEnd c rest) : skipBlank rest = rest := skipBlank_ded h.ded

theorem blockSeq_end' (fuel c : Nat) {rest : List Line} (h : SeqEnd c rest) :
    blockSeq (fuel + 1) c rest = some ([], rest) := by
  rw [blockSeq, skipBlank_seqEnd h]
  rcases h with rfl | ⟨l, ls, rfl, hs, hi | ⟨hi, hnd⟩⟩
  · rfl
  · have h1 : (l.indent != c) = true := by simp; omega
    have h2 : ¬ (l.indent > c) := by omega
    simp [h1, h2]
  · have h1 : (l.indent != c) = false := by simp [hi]
    cases hcl : classify l.text with
    | dash it g => exact absurd hcl (hnd it g)
    | question _ _ => simp [h1, hcl]
    | other => simp [h1, hcl]

/-- a block sequence at the column `c` of its key (`compact_list_indent`): accepted as the value of the key -/
theorem blockNode_dash_at (fuel c : Nat) {h : List Char} (ls : List Line) (hh : ItemHead h) :
    blockNode (fuel + 1) (c + 1) (some c) false (⟨c, '-' :: ' ' :: h⟩ :: ls) =
      (blockSeq fuel c (⟨c, '-' :: ' ' :: h⟩ :: ls)).map fun (xs, r) => (.seq xs, r) := by
  have hns : (⟨c, '-' :: ' ' :: h⟩ : Line).isSkippable = false := notSkippable_of_head (by decide)
  rw [blockNode, skipBlank_cons ls hns]
  simp [classify_dash hh]

/-! ### heads of the layout -/

theorem PlainTok.itemHead {t : List Char} (h : PlainTok t) : ItemHead t := by
  obtain ⟨c, cs, rfl, hc⟩ := h.head
  exact ⟨by simp, by simp only [List.head?_cons, ne_eq, Option.some.injEq]; rintro rfl; exact absurd hc (by decide)⟩

theorem ScalarTok.itemHead {t : List Char} {p : PVal} (h : ScalarTok t p) : ItemHead t := ⟨h.ne, h.head.1⟩
theorem LeafOK.itemHead {n : Nat} {r : List Char × List Line} {p : PVal} (h : LeafOK n r p) : ItemHead r.1 := ⟨h.ne, h.head.1⟩

theorem key_itemHead {K k : List Char} (hk : KeyTok K k) (after : List Char) : ItemHead (K ++ ':' :: after) := by
  obtain ⟨c, cs, rfl, hc⟩ := hk.start
  exact ⟨by simp, by simp only [List.cons_append, List.head?_cons, ne_eq, Option.some.injEq]; exact keyStart_ne hc ' ' (by decide)⟩

theorem variantItem_head {N n : List Char} (hn : KeyTok N n) (c : Nat) (r ri : List Char × List Line × Bool) :
    ItemHead (variantItem c N r ri).1 := by
  cases hfit : fitsImplicit N
  · simp only [variantItem, hfit, Bool.false_eq_true, if_false]; exact ⟨by simp, by simp⟩
  · simpa [variantItem, hfit] using key_itemHead hn r.1

theorem variantVal_fst (c : Nat) (N : List Char) (r ri : List Char × List Line × Bool) : (variantVal c N r ri).1 = [] := by
  cases hfit : fitsImplicit N <;> simp [variantVal, hfit]

/-- the fixed tokens -/
theorem scalarTok_null : ScalarTok "null".toList .null := by
  simpa [resolvePlain_null] using plainTok_null.scalarTok (fun cs e => by simp at e)
theorem scalarTok_true : ScalarTok "true".toList (.bool true) := by
  simpa [resolvePlain_true] using plainTok_true.scalarTok (fun cs e => by simp at e)
theorem scalarTok_false : ScalarTok "false".toList (.bool false) := by
  simpa [resolvePlain_false] using plainTok_false.scalarTok (fun cs e => by simp at e)
theorem scalarTok_bool (b : Bool) : ScalarTok (if b then "true".toList else "false".toList) (.bool b) := by
  cases b
  · exact scalarTok_false
  · exact scalarTok_true

theorem intText_dash (i : Int) : ∀ cs, intText i = '-' :: cs → ∃ c2 cs2, cs = c2 :: cs2 ∧ c2 ≠ '-' := by
  intro cs e
  cases i with
  | ofNat n =>
    rw [intText_nonneg] at e
    have := List.all_eq_true.mp (digits_all n) '-' (by rw [e]; simp)
    exact absurd this (by decide)
  | negSucc n =>
    rw [intText_neg] at e
    simp only [List.cons.injEq, true_and] at e
    have hne := Nat.toDigits_ne_nil (n := n + 1) (b := 10)
    rw [e] at hne
    cases cs with
    | nil => exact absurd rfl hne
    | cons c2 cs2 =>
      refine ⟨c2, cs2, rfl, ?_⟩
      rintro rfl
      have := List.all_eq_true.mp (digits_all (n + 1)) '-' (by rw [e]; simp)
      exact absurd this (by decide)

theorem scalarTok_int (i : Int) : ScalarTok (intText i) (.int i) := by
  simpa [resolvePlain_int] using (intText_plainTok i).scalarTok (intText_dash i)

/-- the token of a leaf of the fragment reads as the leaf -/
theorem leafTok_scalarTok {P : LeafPred} {T : Toks} {k : Nat} (hr : ReadContract P T k) {v : SVal} {tok : List Char}
    (hv : inFragP P v = true) (ht : leafTok T v = some tok) : ScalarTok tok (erase v) := by
  cases v <;> simp only [leafTok, Option.some.injEq, reduceCtorEq] at ht
  · subst ht; exact scalarTok_null
  · subst ht; exact scalarTok_bool _
  · subst ht; exact scalarTok_int _
  · subst ht; exact scalarTok_null

theorem keyOf_complex' : ∀ (k : SVal), isComplexKey k = true → keyOf k = none := by
  intro k h
  cases k <;> first | rfl | (simp [isComplexKey] at h)

theorem laySeqItem_head (T : Toks) (k : Nat) (cp : Bool) (d : Nat) (lvb : Bool) (xs : List SVal) : ItemHead (laySeqItem T k cp d lvb xs).1 := by
  cases xs <;> simp only [laySeqItem]
  · exact ⟨by decide, by decide⟩
  · exact ⟨by simp, by simp⟩

theorem itemHead_layItem {P : LeafPred} {T : Toks} {k : Nat} (hr : ReadContract P T k) (cp : Bool) : ∀ (v : SVal), inFragP P v = true → ∀ (d : Nat) (lvb : Bool), ItemHead (layItem T k cp d lvb v).1
  | .unit, _, d, lvb => by simpa [layItem] using plainTok_null.itemHead
  | .none, _, d, lvb => by simpa [layItem] using plainTok_null.itemHead
  | .bool b, _, d, lvb => by cases b <;> simpa [layItem] using (by first | exact plainTok_true.itemHead | exact plainTok_false.itemHead)
  | .int i, _, d, lvb => by simpa [layItem] using (intText_plainTok i).itemHead
  | .str t, hv, d, lvb => by
    simp only [inFragP] at hv
    simpa [layItem] using (hr.str (.item d) t hv).itemHead
  | .unitVariant e n, hv, d, lvb => by
    simp only [inFragP] at hv
    simpa [layItem] using (hr.unit (.item d) e n hv).itemHead
  | .some v, hv, d, lvb => by simp only [inFragP] at hv; simpa [layItem] using itemHead_layItem hr cp v hv d lvb
  | .newtypeStruct v, hv, d, lvb => by simp only [inFragP] at hv; simpa [layItem] using itemHead_layItem hr cp v hv d lvb
  | .newtypeVariant n v, hv, d, lvb => by
    simp only [inFragP, Bool.and_eq_true] at hv
    simp only [layItem]; exact variantItem_head (hr.name n hv.1) _ _ _
  | .tupleVariant n xs, hv, d, lvb => by
    simp only [inFragP, Bool.and_eq_true] at hv
    simp only [layItem]; exact variantItem_head (hr.name n hv.1) _ _ _
  | .structVariant n fs, hv, d, lvb => by
    simp only [inFragP, Bool.and_eq_true] at hv
    simp only [layItem]; exact variantItem_head (hr.name n hv.1) _ _ _
  | .seq xs, _, d, lvb => by simp only [layItem]; exact laySeqItem_head T k cp d lvb xs
  | .tuple xs, _, d, lvb => by simp only [layItem]; exact laySeqItem_head T k cp d lvb xs
  | .tupleStruct xs, _, d, lvb => by simp only [layItem]; exact laySeqItem_head T k cp d lvb xs
  | .map known es, hv, d, lvb => by
    simp only [inFragP, Bool.and_eq_true] at hv
    cases es with
    | nil => simp only [layItem, layMapItem]; exact ⟨by decide, by decide⟩
    | cons e es' =>
      obtain ⟨kk, v⟩ := e
      simp only [inFragEntriesP, Bool.and_eq_true, Bool.or_eq_true] at hv
      rcases hv.1.1.1 with hsk | hck
      · obtain ⟨kt, rfl, hkt⟩ := keyOk_iff hsk
        cases hfit : fitsImplicit (T.key kt)
        · simp only [layItem, layMapItem, keyOf, hfit, Bool.false_eq_true, if_false]
          exact ⟨by simp, by simp⟩
        · simp only [layItem, layMapItem, keyOf, hfit, if_true, List.append_assoc, List.singleton_append]
          exact key_itemHead (hr.key kt hkt) _
      · simp only [layItem, layMapItem, keyOf_complex' kk hck.1]
        exact ⟨by simp, by simp⟩
  | .flowSeq _, hv, _, _ => by simp [inFragP] at hv
  | .flowMap _, hv, _, _ => by simp [inFragP] at hv
  | .commented _ _, hv, _, _ => by simp [inFragP] at hv
  | .spaceAfter _, hv, _, _ => by simp [inFragP] at hv
  | .litStr _, hv, _, _ => by simp [inFragP] at hv
  | .foldStr _, hv, _, _ => by simp [inFragP] at hv

theorem valHead_tok {t : List Char} (h : PlainTok t) : ValHead (' ' :: t) := Or.inr ⟨t, rfl, h.itemHead⟩
theorem valHead_scalar {t : List Char} {p : PVal} (h : ScalarTok t p) : ValHead (' ' :: t) := Or.inr ⟨t, rfl, h.itemHead⟩
theorem valHead_leaf {n : Nat} {r : List Char × List Line} {p : PVal} (h : LeafOK n r p) : ValHead (' ' :: r.1) :=
  Or.inr ⟨r.1, rfl, h.itemHead⟩

theorem seqValOf_head (e : Bool) (items : List Line) : ValHead (seqValOf e items).1 := by
  cases e <;> simp only [seqValOf, if_true, if_false, Bool.false_eq_true]
  · exact Or.inl rfl
  · exact Or.inr ⟨_, rfl, ⟨by decide, by decide⟩⟩

theorem mapValOf_head (m : Nat) (lvb e : Bool) (entries : List Line) : ValHead (mapValOf m lvb e entries).1 := by
  cases e <;> cases lvb <;> simp only [mapValOf, if_true, if_false, Bool.false_eq_true]
  · exact Or.inl rfl
  · exact Or.inl rfl
  · exact Or.inr ⟨_, rfl, ⟨by decide, by decide⟩⟩
  · exact Or.inl rfl

theorem valHead_layVal {P : LeafPred} {T : Toks} {k : Nat} (hr : ReadContract P T k) (cp im : Bool) : ∀ (v : SVal), inFragP P v = true → ∀ (m : Nat) (lvb : Bool), ValHead (layVal T k cp im m lvb v).1
  | .unit, _, m, lvb => by simpa [layVal] using valHead_tok plainTok_null
  | .none, _, m, lvb => by simpa [layVal] using valHead_tok plainTok_null
  | .bool b, _, m, lvb => by cases b <;> simpa [layVal] using (by first | exact valHead_tok plainTok_true | exact valHead_tok plainTok_false)
  | .int i, _, m, lvb => by simpa [layVal] using valHead_tok (intText_plainTok i)
  | .str t, hv, m, lvb => by
    simp only [inFragP] at hv
    simpa [layVal] using valHead_leaf (hr.str (.val m) t hv)
  | .unitVariant e n, hv, m, lvb => by
    simp only [inFragP] at hv
    simpa [layVal] using valHead_leaf (hr.unit (.val m) e n hv)
  | .some v, hv, m, lvb => by simp only [inFragP] at hv; simpa [layVal] using valHead_layVal hr cp im v hv m lvb
  | .newtypeStruct v, hv, m, lvb => by simp only [inFragP] at hv; simpa [layVal] using valHead_layVal hr cp im v hv m lvb
  | .newtypeVariant n v, _, m, lvb => by simp only [layVal, variantVal_fst]; exact Or.inl rfl
  | .tupleVariant n xs, _, m, lvb => by simp only [layVal, variantVal_fst]; exact Or.inl rfl
  | .structVariant n fs, _, m, lvb => by simp only [layVal, variantVal_fst]; exact Or.inl rfl
  | .seq xs, _, m, lvb => by simp only [layVal]; exact seqValOf_head _ _
  | .tuple xs, _, m, lvb => by simp only [layVal]; exact seqValOf_head _ _
  | .tupleStruct xs, _, m, lvb => by simp only [layVal]; exact seqValOf_head _ _
  | .map known es, _, m, lvb => by simp only [layVal]; exact mapValOf_head _ _ _ _
  | .flowSeq _, hv, _, _ => by simp [inFragP] at hv
  | .flowMap _, hv, _, _ => by simp [inFragP] at hv
  | .commented _ _, hv, _, _ => by simp [inFragP] at hv
  | .spaceAfter _, hv, _, _ => by simp [inFragP] at hv
  | .litStr _, hv, _, _ => by simp [inFragP] at hv
  | .foldStr _, hv, _, _ => by simp [inFragP] at hv

/-! ### the reader on the layout -/

theorem valueParse_block (fuel c klen : Nat) (ls : List Line) :
    valueParse fuel c klen [] ls = blockNode fuel (c + 1) (some c) false ls := by
  simp [valueParse, dropSpaces]

theorem valueParse_leaf (fuel c klen : Nat) {t : List Char} {p : PVal} (rest : List Line) (ht : ScalarTok t p)
    (hd : DedLt (c + 1) rest) : valueParse (fuel + 1) c klen (' ' :: t) rest = some (p, rest) := by
  have hne := ht.ne
  have hhd := ht.head
  obtain ⟨a, as, rfl⟩ : ∃ a as, t = a :: as := by
    cases t with
    | nil => exact absurd rfl hne
    | cons a as => exact ⟨a, as, rfl⟩
  have h1 : a ≠ ' ' := fun e => hhd.1 (by simp [e])
  have h2 : a ≠ '#' := fun e => hhd.2.1 (by simp [e])
  have hds : dropSpaces (' ' :: a :: as) = a :: as := by simp [dropSpaces, h1]
  have hrc : restColumn (c + klen) (' ' :: a :: as) = c + klen + 1 := by simp [restColumn, h1]
  simp only [valueParse, hds, hrc, List.isEmpty_cons, List.head?_cons, Option.some.injEq, beq_iff_eq, h2, Bool.false_or,
    decide_false, Bool.false_eq_true, if_false]
  exact ht.read fuel (c + 1) none true _ rest (by omega) hd

/-- a leaf with following lines (a block scalar) right after `key:` -/
theorem valueParse_leafOK (fuel c klen : Nat) {r : List Char × List Line} {p : PVal} (rest : List Line) (ht : LeafOK (c + 1) r p)
    (hd : DedLt (c + 1) rest) : valueParse (fuel + 1) c klen (' ' :: r.1) (r.2 ++ rest) = some (p, rest) := by
  have hne := ht.ne
  have hhd := ht.head
  obtain ⟨t, body⟩ := r
  simp only at hne hhd ⊢
  obtain ⟨a, as, rfl⟩ : ∃ a as, t = a :: as := by
    cases t with
    | nil => exact absurd rfl hne
    | cons a as => exact ⟨a, as, rfl⟩
  have h1 : a ≠ ' ' := fun e => hhd.1 (by simp [e])
  have h2 : a ≠ '#' := fun e => hhd.2.1 (by simp [e])
  have hds : dropSpaces (' ' :: a :: as) = a :: as := by simp [dropSpaces, h1]
  have hrc : restColumn (c + klen) (' ' :: a :: as) = c + klen + 1 := by simp [restColumn, h1]
  simp only [valueParse, hds, hrc, List.isEmpty_cons, List.head?_cons, Option.some.injEq, beq_iff_eq, h2, Bool.false_or,
    decide_false, Bool.false_eq_true, if_false]
  exact ht.read fuel none true _ rest (by omega) hd

theorem valueParse_emptySeq (fuel c klen : Nat) (rest : List Line) :
    valueParse (fuel + 1) c klen " []".toList rest = some (.seq [], rest) := by
  have hds : dropSpaces " []".toList = "[]".toList := by decide
  simp only [valueParse, hds]
  exact blockNode_emptySeq fuel (c + 1) none true _ rest (by simp [restColumn])

theorem valueParse_emptyMap (fuel c klen : Nat) (rest : List Line) :
    valueParse (fuel + 1) c klen " {}".toList rest = some (.map [], rest) := by
  have hds : dropSpaces " {}".toList = "{}".toList := by decide
  simp only [valueParse, hds]
  exact blockNode_emptyMap fuel (c + 1) none true _ rest (by simp [restColumn])

/-! ### statements

Positions are columns (`c`); `k` = `indent_step ≥ 1`. -/

/-- the reader on a value right after `key:` (keys at column `c`): layout `r c lvb` reads as `p` -/
def ReadsVal (r : Nat → Bool → Bool → List Char × List Line × Bool) (p : PVal) : Prop :=
  ∀ (fuel c : Nat) (im lvb : Bool) (klen : Nat) (rest : List Line),
    fuel ≥ 2 * ((r c im lvb).1.length + 1 + mu (r c im lvb).2.1) + 2 → SeqEnd c rest →
    valueParse fuel c klen (r c im lvb).1 ((r c im lvb).2.1 ++ rest) = some (p, rest)

/-- the reader on an item right after `- ` (dashes at column `c`) -/
def ReadsItem (r : Nat → Bool → List Char × List Line × Bool) (p : PVal) : Prop :=
  ∀ (fuel c : Nat) (seqAt : Option Nat) (lvb : Bool) (rest : List Line),
    fuel ≥ 2 * ((r c lvb).1.length + 1 + mu (r c lvb).2.1) + 2 → DedLt (c + 1) rest →
    blockNode fuel (c + 1) seqAt false (⟨c + 2, (r c lvb).1⟩ :: (r c lvb).2.1 ++ rest) = some (p, rest)

/-- the items of a block sequence whose dashes are at column `c` -/
def ReadsItems (T : Toks) (k : Nat) (cp : Bool) (xs : List SVal) : Prop :=
  ∀ (fuel c : Nat) (lvb : Bool) (rest : List Line),
    fuel ≥ 2 * mu (layItems T k cp c lvb xs).1 + 1 → SeqEnd c rest →
    blockSeq fuel c ((layItems T k cp c lvb xs).1 ++ rest) = some (eraseList xs, rest)

/-- the entries of a block mapping whose keys are at column `c` -/
def ReadsEntries (T : Toks) (k : Nat) (cp : Bool) (es : List (SVal × SVal)) : Prop :=
  ∀ (fuel c : Nat) (lvb : Bool) (rest : List Line),
    fuel ≥ 2 * mu (layEntries T k cp c lvb es).1 + 1 → DedLt c rest →
    blockMap fuel c ((layEntries T k cp c lvb es).1 ++ rest) = some (eraseEntries es, rest)

/-! ### leaves -/

theorem reads_leaf_val {tok : List Char} {p : PVal} (ht : ScalarTok tok p) : ReadsVal (fun _ _ _ => (' ' :: tok, [], false)) p := by
  intro fuel c im lvb klen rest hfuel hd
  obtain ⟨f', rfl⟩ : ∃ f', fuel = f' + 1 := ⟨fuel - 1, by omega⟩
  simpa using valueParse_leaf f' c klen rest ht hd.ded

theorem reads_leaf_item {tok : List Char} {p : PVal} (ht : ScalarTok tok p) : ReadsItem (fun _ _ => (tok, [], false)) p := by
  intro fuel c seqAt lvb rest hfuel hd
  obtain ⟨f', rfl⟩ : ∃ f', fuel = f' + 1 := ⟨fuel - 1, by omega⟩
  simpa using ht.read f' (c + 1) seqAt false (c + 2) rest (by omega) hd

/-- a leaf with following lines (a block scalar) right after `key:` / right after `- ` -/
theorem reads_leafOK_val {r : Nat → List Char × List Line} {p : PVal} (ht : ∀ c, LeafOK (c + 1) (r c) p) :
    ReadsVal (fun c _ _ => (' ' :: (r c).1, (r c).2, false)) p := by
  intro fuel c im lvb klen rest hfuel hd
  obtain ⟨f', rfl⟩ : ∃ f', fuel = f' + 1 := ⟨fuel - 1, by omega⟩
  exact valueParse_leafOK f' c klen rest (ht c) hd.ded

theorem reads_leafOK_item {r : Nat → List Char × List Line} {p : PVal} (ht : ∀ c, LeafOK (c + 1) (r c) p) :
    ReadsItem (fun c _ => ((r c).1, (r c).2, false)) p := by
  intro fuel c seqAt lvb rest hfuel hd
  obtain ⟨f', rfl⟩ : ∃ f', fuel = f' + 1 := ⟨fuel - 1, by omega⟩
  exact (ht c).read f' seqAt false (c + 2) rest (by omega) hd

/-! ### sequences -/

/-- a sequence right after `key:` -/
theorem reads_seqVal {P : LeafPred} {T : Toks} {k : Nat} {cp : Bool} (hr : ReadContract P T k) (hk : k ≥ 1) {xs : List SVal} (hv : inFragListP P xs = true) (hitems : ReadsItems T k cp xs) :
    ReadsVal (fun c im _ => seqValOf xs.isEmpty (layItems T k cp (seqCol k cp im c) false xs).1) (.seq (eraseList xs)) := by
  intro fuel c im lvb klen rest hfuel hd
  cases xs with
  | nil =>
    obtain ⟨f', rfl⟩ : ∃ f', fuel = f' + 1 := ⟨fuel - 1, by omega⟩
    simpa [seqValOf, eraseList] using valueParse_emptySeq f' c klen rest
  | cons x xs' =>
    have hx : inFragP P x = true := by simp only [inFragListP, Bool.and_eq_true] at hv; exact hv.1
    simp only [seqValOf, List.isEmpty_cons, Bool.false_eq_true, if_false, valueParse_block] at hfuel ⊢
    obtain ⟨f', rfl⟩ : ∃ f', fuel = f' + 1 := ⟨fuel - 1, by omega⟩
    by_cases hcp : (cp && im) = true
    · -- `compact_list_indent`: the dashes at the column of the key
      have hsc : seqCol k cp im c = c := by simp [seqCol, hcp]
      rw [hsc] at hfuel ⊢
      have hh := itemHead_layItem hr cp x hx c false
      have hi := hitems f' c false rest (by simp only [List.length_nil] at hfuel; omega) hd
      simp only [layItems, List.cons_append, List.nil_append, List.append_assoc] at hi ⊢
      rw [blockNode_dash_at f' c _ hh, hi]
      rfl
    · have hsc : seqCol k cp im c = c + k := by simp [seqCol, hcp]
      rw [hsc] at hfuel ⊢
      have hh := itemHead_layItem hr cp x hx (c + k) false
      have hi := hitems f' (c + k) false rest (by simp only [List.length_nil] at hfuel; omega)
        (hd.mono (by omega))
      simp only [layItems, List.cons_append, List.nil_append, List.append_assoc] at hi ⊢
      rw [blockNode_dash f' (c + 1) _ (c + k) _ hh (by omega), hi]
      rfl

/-- a sequence right after `- ` -/
theorem reads_seqItem {P : LeafPred} {T : Toks} {k : Nat} {cp : Bool} (hr : ReadContract P T k) {xs : List SVal} (hv : inFragListP P xs = true) (hitems : ReadsItems T k cp xs) :
    ReadsItem (fun c lvb => laySeqItem T k cp c lvb xs) (.seq (eraseList xs)) := by
  intro fuel c seqAt lvb rest hfuel hd
  cases xs with
  | nil =>
    obtain ⟨f', rfl⟩ : ∃ f', fuel = f' + 1 := ⟨fuel - 1, by omega⟩
    simpa [laySeqItem, eraseList] using blockNode_emptySeq f' (c + 1) seqAt false (c + 2) rest (by omega)
  | cons x xs' =>
    have hx : inFragP P x = true := by simp only [inFragListP, Bool.and_eq_true] at hv; exact hv.1
    have hh := itemHead_layItem hr cp x hx (c + 2) lvb
    simp only [laySeqItem] at hfuel ⊢
    obtain ⟨f', rfl⟩ : ∃ f', fuel = f' + 1 := ⟨fuel - 1, by omega⟩
    have hi := hitems f' (c + 2) lvb rest
      (by simp only [layItems, mu, mu_append, List.length_append, List.length_cons, List.length_nil] at hfuel ⊢; omega)
      (hd.mono (by omega)).seqEnd
    simp only [layItems, List.cons_append, List.nil_append] at hi
    simp only [List.cons_append, List.nil_append, List.append_assoc]
    rw [blockNode_dash f' (c + 1) seqAt (c + 2) _ hh (by omega)]
    try simp only [List.append_assoc] at hi
    rw [hi]
    rfl

theorem reads_items_nil {T : Toks} {k : Nat} {cp : Bool} : ReadsItems T k cp [] := by
  intro fuel c lvb rest hfuel hd
  obtain ⟨f', rfl⟩ : ∃ f', fuel = f' + 1 := ⟨fuel - 1, by omega⟩
  simpa [layItems, eraseList] using blockSeq_end' f' c hd

theorem reads_items_cons {P : LeafPred} {T : Toks} {k : Nat} {cp : Bool} (hr : ReadContract P T k) {x : SVal} {xs : List SVal} (hx : inFragP P x = true)
    (h1 : ReadsItem (fun c lvb => layItem T k cp c lvb x) (erase x)) (h2 : ReadsItems T k cp xs) : ReadsItems T k cp (x :: xs) := by
  intro fuel c lvb rest hfuel hd
  have hh := itemHead_layItem hr cp x hx c lvb
  simp only [layItems, mu, mu_append, List.length_append, List.length_cons, List.length_nil] at hfuel
  obtain ⟨f', rfl⟩ : ∃ f', fuel = f' + 1 := ⟨fuel - 1, by omega⟩
  have hrest : DedLt (c + 1) ((layItems T k cp c (layItem T k cp c lvb x).2.2 xs).1 ++ rest) := by
    cases xs with
    | nil => simpa [layItems] using hd.ded
    | cons y ys =>
      simp only [layItems, List.cons_append]
      exact DedLt.cons _ _ (by simp) (notSkippable_of_head (by decide))
  have h1 := h1 f' c none lvb ((layItems T k cp c (layItem T k cp c lvb x).2.2 xs).1 ++ rest) (by dsimp only; omega) hrest
  have h2 := h2 f' c (layItem T k cp c lvb x).2.2 rest (by omega) hd
  simp only [layItems, List.cons_append, List.append_assoc, List.singleton_append, List.nil_append, eraseList]
  simp only [List.cons_append, List.append_assoc] at h1
  rw [blockSeq_cons f' c _ hh]
  simp only [h1, h2]
  rfl

/-! ### mappings -/

/-- the first line of a block mapping: `key:…` with a safe key, or `? …` -/
inductive MapStart : List Char → Prop
  | key {K kt h : List Char} (hk : KeyTok K kt) (hh : ValHead h) : MapStart (K ++ ':' :: h)
  | question {h : List Char} (hh : ItemHead h) : MapStart ('?' :: ' ' :: h)

theorem MapStart.notSkippable {t : List Char} (h : MapStart t) (i : Nat) : (⟨i, t⟩ : Line).isSkippable = false := by
  cases h with
  | key hk hh => exact key_line_notSkippable hk i _
  | question hh => exact notSkippable_of_head (by decide)

theorem MapStart.notPct {t : List Char} (h : MapStart t) : t.head? ≠ some '%' := by
  cases h with
  | key hk hh =>
    obtain ⟨c, cs, rfl, hc⟩ := hk.start
    simp only [List.cons_append, List.head?_cons, ne_eq, Option.some.injEq]
    exact keyStart_ne hc '%' (by decide)
  | question hh => simp

theorem MapStart.notDash {t : List Char} (h : MapStart t) : ∀ it g, classify t ≠ .dash it g := by
  intro it g
  cases h with
  | key hk hh => rw [hk.cls]; exact fun e => Head.noConfusion e
  | question hh => rw [classify_question hh]; exact fun e => Head.noConfusion e

theorem blockNode_mapStart (fuel n : Nat) (seqAt : Option Nat) (i : Nat) {t : List Char} (ls : List Line)
    (ht : MapStart t) (hi : n ≤ i) :
    blockNode (fuel + 1) n seqAt false (⟨i, t⟩ :: ls) =
      (match blockMap fuel i (⟨i, t⟩ :: ls) with
       | some (es, r) => if hasDupKey es then none else some (.map es, r)
       | none => none) := by
  cases ht with
  | key hk hh => exact blockNode_key fuel n seqAt i ls hk hh hi
  | question hh => exact blockNode_question fuel n seqAt i ls hh hi

/-- the lines of a non-empty block mapping of the fragment start with a mapping line at its column -/
theorem layEntries_start {P : LeafPred} {T : Toks} {k : Nat} (hr : ReadContract P T k) (cp : Bool) (c : Nat) (lvb : Bool) {e : SVal × SVal} {es : List (SVal × SVal)}
    (hv : inFragEntriesP P (e :: es) = true) :
    ∃ t ls, (layEntries T k cp c lvb (e :: es)).1 = ⟨c, t⟩ :: ls ∧ MapStart t := by
  obtain ⟨kk, v⟩ := e
  simp only [inFragEntriesP, Bool.and_eq_true, Bool.or_eq_true] at hv
  rcases hv.1.1 with hsk | hck
  · obtain ⟨kt, rfl, hkt⟩ := keyOk_iff hsk
    cases hfit : fitsImplicit (T.key kt)
    · refine ⟨'?' :: ' ' :: T.key kt,
        ⟨c, [':', ' '] ++ (layItem T k cp c false v).1⟩ :: (layItem T k cp c false v).2.1 ++
          (layEntries T k cp c (layItem T k cp c false v).2.2 es).1, ?_, MapStart.question (hr.key kt hkt).scalar.itemHead⟩
      simp [layEntries, keyOf, hfit]
    · refine ⟨T.key kt ++ ':' :: (layVal T k cp true c lvb v).1,
        (layVal T k cp true c lvb v).2.1 ++ (layEntries T k cp c (layVal T k cp true c lvb v).2.2 es).1, ?_,
        MapStart.key (hr.key kt hkt) (valHead_layVal hr cp true v hv.1.2 c lvb)⟩
      simp [layEntries, keyOf, hfit]
  · refine ⟨'?' :: ' ' :: (layItem T k cp c lvb kk).1,
      (layItem T k cp c lvb kk).2.1 ++ ⟨c, [':', ' '] ++ (layItem T k cp c false v).1⟩ :: (layItem T k cp c false v).2.1 ++
        (layEntries T k cp c (layItem T k cp c false v).2.2 es).1, ?_, MapStart.question (itemHead_layItem hr cp kk hck.2 c lvb)⟩
    simp [layEntries, keyOf_complex' kk hck.1]

/-- what follows a value inside a mapping at column `c`: the next entries, then `rest` -/
theorem entries_rest_end {P : LeafPred} {T : Toks} {k : Nat} (hr : ReadContract P T k) (cp : Bool) (c : Nat) (lvb : Bool) {es : List (SVal × SVal)} (hes : inFragEntriesP P es = true)
    {rest : List Line} (hd : DedLt c rest) : SeqEnd c ((layEntries T k cp c lvb es).1 ++ rest) := by
  cases es with
  | nil => simpa [layEntries] using hd.seqEnd
  | cons p ps =>
    obtain ⟨t, ls, he, ht⟩ := layEntries_start hr cp c lvb hes
    rw [he]
    exact Or.inr ⟨_, _, rfl, ht.notSkippable c, Or.inr ⟨rfl, ht.notDash⟩⟩

/-- a mapping right after `key:` -/
theorem reads_mapVal {P : LeafPred} {T : Toks} {k : Nat} {cp : Bool} (hr : ReadContract P T k) (hk : k ≥ 1) {es : List (SVal × SVal)} (hv : inFragEntriesP P es = true)
    (hdup : hasDupKey (eraseEntries es) = false) (hentries : ReadsEntries T k cp es) :
    ReadsVal (fun c _ lvb => mapValOf (c + k) lvb es.isEmpty (layEntries T k cp (c + k) false es).1) (.map (eraseEntries es)) := by
  intro fuel c im lvb klen rest hfuel hd
  cases es with
  | nil =>
    obtain ⟨f', rfl⟩ : ∃ f', fuel = f' + 1 := ⟨fuel - 1, by omega⟩
    cases lvb
    · simpa [mapValOf, eraseEntries] using valueParse_emptyMap f' c klen rest
    · simp only [mapValOf, List.isEmpty_nil, if_true, eraseEntries, valueParse_block, List.cons_append, List.nil_append]
      exact blockNode_emptyMap f' (c + 1) _ false (c + k) rest (by omega)
  | cons e es' =>
    obtain ⟨t, ls, he, ht⟩ := layEntries_start hr cp (c + k) false (e := e) (es := es') hv
    simp only [mapValOf, List.isEmpty_cons, Bool.false_eq_true, if_false, valueParse_block] at hfuel ⊢
    obtain ⟨f', rfl⟩ : ∃ f', fuel = f' + 1 := ⟨fuel - 1, by omega⟩
    have hi := hentries f' (c + k) false rest
      (by simp only [List.length_nil] at hfuel; omega) (hd.ded.mono (by omega))
    rw [he] at hi ⊢
    simp only [List.cons_append] at hi ⊢
    rw [blockNode_mapStart f' (c + 1) _ (c + k) _ ht (by omega), hi]
    simp [hdup]

/-- a mapping right after `- ` -/
theorem reads_mapItem {P : LeafPred} {T : Toks} {k : Nat} {cp : Bool} (hr : ReadContract P T k) {es : List (SVal × SVal)} (hv : inFragEntriesP P es = true)
    (hdup : hasDupKey (eraseEntries es) = false) (hentries : ReadsEntries T k cp es) :
    ReadsItem (fun c lvb => layMapItem T k cp c lvb es) (.map (eraseEntries es)) := by
  intro fuel c seqAt lvb rest hfuel hd
  cases es with
  | nil =>
    obtain ⟨f', rfl⟩ : ∃ f', fuel = f' + 1 := ⟨fuel - 1, by omega⟩
    simpa [layMapItem, eraseEntries] using blockNode_emptyMap f' (c + 1) seqAt false (c + 2) rest (by omega)
  | cons e es' =>
    -- the item text + lines are the entries at column `c + 2`, whose first line is the item text
    have hlay : ∀ (lvb : Bool), (layEntries T k cp (c + 2) false (e :: es')).1 =
        ⟨c + 2, (layMapItem T k cp c lvb (e :: es')).1⟩ :: (layMapItem T k cp c lvb (e :: es')).2.1 := by
      intro lvb
      obtain ⟨kk, v⟩ := e
      cases hko : keyOf kk with
      | none => simp [layEntries, layMapItem, hko]
      | some kt => cases hfit : fitsImplicit (T.key kt) <;> simp [layEntries, layMapItem, hko, hfit]
    obtain ⟨t, ls, he, ht⟩ := layEntries_start hr cp (c + 2) false (e := e) (es := es') hv
    have ht' : MapStart (layMapItem T k cp c lvb (e :: es')).1 := by
      have := hlay lvb; rw [he] at this
      simp only [List.cons.injEq, Line.mk.injEq, true_and] at this
      rw [← this.1]; exact ht
    obtain ⟨f', rfl⟩ : ∃ f', fuel = f' + 1 := ⟨fuel - 1, by omega⟩
    have hi := hentries f' (c + 2) false rest
      (by rw [hlay lvb]; simp only [mu] at hfuel ⊢; omega) (hd.mono (by omega))
    rw [hlay lvb] at hi
    simp only [List.cons_append] at hi ⊢
    rw [blockNode_mapStart f' (c + 1) seqAt (c + 2) _ ht' (by omega), hi]
    simp [hdup]

theorem reads_entries_nil {T : Toks} {k : Nat} {cp : Bool} : ReadsEntries T k cp [] := by
  intro fuel c lvb rest hfuel hd
  obtain ⟨f', rfl⟩ : ∃ f', fuel = f' + 1 := ⟨fuel - 1, by omega⟩
  simpa [layEntries, eraseEntries] using blockMap_end f' c hd

theorem reads_entries_cons {P : LeafPred} {T : Toks} {k : Nat} {cp : Bool} (hr : ReadContract P T k) {kt : List Char} {v : SVal} {es : List (SVal × SVal)}
    (hk : P.key kt = true) (hfit : fitsImplicit (T.key kt) = true) (hvv : inFragP P v = true) (hes : inFragEntriesP P es = true)
    (h1 : ReadsVal (fun c im lvb => layVal T k cp im c lvb v) (erase v)) (h2 : ReadsEntries T k cp es) :
    ReadsEntries T k cp ((.str kt, v) :: es) := by
  intro fuel c lvb rest hfuel hd
  have hh := valHead_layVal hr cp true v hvv c lvb
  simp only [layEntries, keyOf, hfit, if_true, mu, mu_append, List.length_append, List.length_cons, List.length_nil] at hfuel
  obtain ⟨f', rfl⟩ : ∃ f', fuel = f' + 1 := ⟨fuel - 1, by omega⟩
  have hrest := entries_rest_end hr cp c (layVal T k cp true c lvb v).2.2 hes hd
  have h1 := h1 f' c true lvb ((T.key kt).length + 1) ((layEntries T k cp c (layVal T k cp true c lvb v).2.2 es).1 ++ rest) (by dsimp only; omega) hrest
  have h2 := h2 f' c (layVal T k cp true c lvb v).2.2 rest (by omega) hd
  simp only [layEntries, keyOf, hfit, if_true, List.cons_append, List.append_assoc, List.singleton_append, List.nil_append, eraseEntries, erase]
  try simp only [List.append_assoc] at h1
  rw [blockMap_cons f' c _ (hr.key kt hk) hh hfit]
  simp only [h1, h2]
  rfl

/-- an entry with a composite key: `? key` / `: value` -/
theorem reads_entries_cons_complex {P : LeafPred} {T : Toks} {k : Nat} {cp : Bool} (hr : ReadContract P T k) {key v : SVal} {es : List (SVal × SVal)}
    (hkc : isComplexKey key = true) (hkk : inFragP P key = true) (hvv : inFragP P v = true) (hes : inFragEntriesP P es = true)
    (h0 : ReadsItem (fun c lvb => layItem T k cp c lvb key) (erase key))
    (h1 : ReadsItem (fun c lvb => layItem T k cp c lvb v) (erase v)) (h2 : ReadsEntries T k cp es) :
    ReadsEntries T k cp ((key, v) :: es) := by
  intro fuel c lvb rest hfuel hd
  have hhk := itemHead_layItem hr cp key hkk c lvb
  have hhv := itemHead_layItem hr cp v hvv c false
  simp only [layEntries, keyOf_complex' key hkc, mu, mu_append, List.length_append, List.length_cons, List.length_nil] at hfuel
  obtain ⟨f', rfl⟩ : ∃ f', fuel = f' + 1 := ⟨fuel - 1, by omega⟩
  have hrest := (entries_rest_end hr cp c (layItem T k cp c false v).2.2 hes hd).ded
  -- the key: everything up to the `: ` line
  have hk0 := h0 f' c none lvb
    (⟨c, ':' :: ' ' :: (layItem T k cp c false v).1⟩ :: (layItem T k cp c false v).2.1 ++ (layEntries T k cp c (layItem T k cp c false v).2.2 es).1 ++ rest)
    (by dsimp only; omega) (DedLt.cons _ _ (by simp) (notSkippable_of_head (by decide)))
  have hv0 := h1 f' c (some c) false ((layEntries T k cp c (layItem T k cp c false v).2.2 es).1 ++ rest) (by dsimp only; omega) hrest
  have h2 := h2 f' c (layItem T k cp c false v).2.2 rest (by omega) hd
  simp only [layEntries, keyOf_complex' key hkc, List.cons_append, List.append_assoc, List.singleton_append, List.nil_append,
    eraseEntries]
  simp only [List.cons_append, List.append_assoc] at hk0 hv0
  rw [blockMap_cons_complex f' c _ _ hhk hhv hk0]
  simp only [hv0, h2]
  rfl

/-- an entry whose string key is too long for an implicit key: `? key` / `: value` -/
theorem reads_entries_cons_long {P : LeafPred} {T : Toks} {k : Nat} {cp : Bool} (hr : ReadContract P T k) {kt : List Char} {v : SVal} {es : List (SVal × SVal)}
    (hk : P.key kt = true) (hfit : fitsImplicit (T.key kt) = false) (hvv : inFragP P v = true) (hes : inFragEntriesP P es = true)
    (h1 : ReadsItem (fun c lvb => layItem T k cp c lvb v) (erase v)) (h2 : ReadsEntries T k cp es) :
    ReadsEntries T k cp ((.str kt, v) :: es) := by
  intro fuel c lvb rest hfuel hd
  have hkt := hr.key kt hk
  have hhk := hkt.scalar.itemHead
  have hhv := itemHead_layItem hr cp v hvv c false
  simp only [layEntries, keyOf, hfit, Bool.false_eq_true, if_false, mu, mu_append, List.length_append, List.length_cons, List.length_nil] at hfuel
  obtain ⟨f', rfl⟩ : ∃ f', fuel = f' + 2 := ⟨fuel - 2, by omega⟩
  have hrest := (entries_rest_end hr cp c (layItem T k cp c false v).2.2 hes hd).ded
  have hk0 := hkt.scalar.read f' (c + 1) none false (c + 2)
    (⟨c, ':' :: ' ' :: (layItem T k cp c false v).1⟩ :: (layItem T k cp c false v).2.1 ++ (layEntries T k cp c (layItem T k cp c false v).2.2 es).1 ++ rest)
    (by omega) (DedLt.cons _ _ (by simp) (notSkippable_of_head (by decide)))
  have hv0 := h1 (f' + 1) c (some c) false ((layEntries T k cp c (layItem T k cp c false v).2.2 es).1 ++ rest) (by dsimp only; omega) hrest
  have h2 := h2 (f' + 1) c (layItem T k cp c false v).2.2 rest (by omega) hd
  simp only [layEntries, keyOf, hfit, Bool.false_eq_true, if_false, List.cons_append, List.append_assoc, List.singleton_append, List.nil_append,
    eraseEntries, erase]
  simp only [List.cons_append, List.append_assoc] at hk0 hv0
  rw [show f' + 2 = (f' + 1) + 1 from rfl, blockMap_cons_complex (f' + 1) c _ _ hhk hhv hk0]
  simp only [hv0, h2]
  rfl

/-! ### variants -/

/-- the one-entry mapping `? Variant` / `: payload` whose lines start at column `m` (name too long for an implicit key) -/
theorem blockNode_explicitVariant (fuel n : Nat) (seqAt : Option Nat) (m : Nat) {N nm : List Char} (hn : KeyTok N nm)
    {ri : List Char × List Line × Bool} {p : PVal} (hhi : ItemHead ri.1) (rest : List Line) (hi : n ≤ m)
    (hfuel : fuel ≥ 2 * (ri.1.length + 1 + mu ri.2.1) + 2)
    (hri : blockNode (fuel + 1) (m + 1) (some m) false (⟨m + 2, ri.1⟩ :: (ri.2.1 ++ rest)) = some (p, rest))
    (hd : DedLt m rest) :
    blockNode (fuel + 3) n seqAt false (⟨m, '?' :: ' ' :: N⟩ :: ⟨m, ':' :: ' ' :: ri.1⟩ :: (ri.2.1 ++ rest)) = some (.map [(.str nm, p)], rest) := by
  have hhk := hn.scalar.itemHead
  have hk0 := hn.scalar.read fuel (m + 1) none false (m + 2) (⟨m, ':' :: ' ' :: ri.1⟩ :: (ri.2.1 ++ rest))
    (by omega) (DedLt.cons _ _ (by simp) (notSkippable_of_head (by decide)))
  rw [show fuel + 3 = (fuel + 2) + 1 from rfl, blockNode_question (fuel + 2) n seqAt m _ hhk hi,
    show fuel + 2 = (fuel + 1) + 1 from rfl, blockMap_cons_complex (fuel + 1) m _ _ hhk hhi hk0, hri]
  simp [blockMap_end fuel m hd, hasDupKey]

/-- `Variant: payload` right after `key:` (the variant key `k` columns under the parent keys) -/
theorem reads_variantVal {k : Nat} (hk : k ≥ 1) {N n : List Char} (hn : KeyTok N n) {r : Nat → Bool → Bool → List Char × List Line × Bool}
    {ri : Nat → Bool → List Char × List Line × Bool}
    {p : PVal} (hh : ∀ c im lvb, ValHead (r c im lvb).1) (hr : ReadsVal r p)
    (hhi : ∀ c lvb, ItemHead (ri c lvb).1) (hri : ReadsItem ri p) :
    ReadsVal (fun c _ lvb => variantVal (c + k) N (r (c + k) true lvb) (ri (c + k) lvb)) (.map [(.str n, p)]) := by
  intro fuel c im lvb klen rest hfuel hd
  cases hfit : fitsImplicit N
  · simp only [variantVal, hfit, Bool.false_eq_true, if_false, valueParse_block, List.cons_append, mu, List.length_nil, List.length_append,
      List.length_cons] at hfuel ⊢
    obtain ⟨f', rfl⟩ : ∃ f', fuel = f' + 3 := ⟨fuel - 3, by omega⟩
    have ih := hri (f' + 1) (c + k) (some (c + k)) lvb rest (by omega) (hd.ded.mono (by omega))
    exact blockNode_explicitVariant f' (c + 1) (some c) (c + k) hn (hhi (c + k) lvb) rest (by omega) (by omega) ih (hd.ded.mono (by omega))
  · have hh' := hh (c + k) true lvb
    simp only [variantVal, hfit, if_true, valueParse_block, List.cons_append, mu, List.length_nil, List.length_append,
      List.length_cons] at hfuel ⊢
    obtain ⟨f', rfl⟩ : ∃ f', fuel = f' + 2 := ⟨fuel - 2, by omega⟩
    have ih := hr f' (c + k) true lvb (N.length + 1) rest (by omega) (hd.mono (by omega))
    rw [show N ++ [':'] ++ (r (c + k) true lvb).1 = N ++ ':' :: (r (c + k) true lvb).1 by simp]
    rw [blockNode_key (f' + 1) (c + 1) _ (c + k) _ hn hh' (by omega),
      blockMap_cons f' (c + k) _ hn hh' hfit, ih]
    obtain ⟨f'', rfl⟩ : ∃ f'', f' = f'' + 1 := ⟨f' - 1, by omega⟩
    simp [blockMap_end f'' (c + k) (hd.ded.mono (by omega)), hasDupKey]

/-- `Variant: payload` right after `- ` (the variant key two columns after the dash) -/
theorem reads_variantItem {N n : List Char} (hn : KeyTok N n) {r : Nat → Bool → Bool → List Char × List Line × Bool}
    {ri : Nat → Bool → List Char × List Line × Bool}
    {p : PVal} (hh : ∀ c im lvb, ValHead (r c im lvb).1) (hr : ReadsVal r p)
    (hhi : ∀ c lvb, ItemHead (ri c lvb).1) (hri : ReadsItem ri p) :
    ReadsItem (fun c lvb => variantItem c N (r (c + 2) true lvb) (ri (c + 2) lvb)) (.map [(.str n, p)]) := by
  intro fuel c seqAt lvb rest hfuel hd
  cases hfit : fitsImplicit N
  · simp only [variantItem, hfit, Bool.false_eq_true, if_false, List.length_append, List.length_cons, List.length_nil, List.cons_append,
      mu] at hfuel ⊢
    obtain ⟨f', rfl⟩ : ∃ f', fuel = f' + 3 := ⟨fuel - 3, by omega⟩
    have ih := hri (f' + 1) (c + 2) (some (c + 2)) lvb rest (by omega) (hd.mono (by omega))
    exact blockNode_explicitVariant f' (c + 1) seqAt (c + 2) hn (hhi (c + 2) lvb) rest (by omega) (by omega) ih (hd.mono (by omega))
  · have hh' := hh (c + 2) true lvb
    simp only [variantItem, hfit, if_true, List.length_append, List.length_cons, List.length_nil, List.cons_append] at hfuel ⊢
    obtain ⟨f', rfl⟩ : ∃ f', fuel = f' + 2 := ⟨fuel - 2, by omega⟩
    have ih := hr f' (c + 2) true lvb (N.length + 1) rest (by omega) (hd.mono (by omega)).seqEnd
    rw [show N ++ [':'] ++ (r (c + 2) true lvb).1 = N ++ ':' :: (r (c + 2) true lvb).1 by simp]
    rw [show f' + 2 = f' + 1 + 1 from rfl, blockNode_key (f' + 1) (c + 1) seqAt (c + 2) _ hn hh' (by omega),
      blockMap_cons f' (c + 2) _ hn hh' hfit, ih]
    obtain ⟨f'', rfl⟩ : ∃ f'', f' = f'' + 1 := ⟨f' - 1, by omega⟩
    simp [blockMap_end f'' (c + 2) (hd.mono (by omega)), hasDupKey]

theorem layMapItem_head {P : LeafPred} {T : Toks} {k : Nat} (hr : ReadContract P T k) (cp : Bool) {fs : List (SVal × SVal)}
    (hv : inFragEntriesP P fs = true) (hdup : hasDupKey (eraseEntries fs) = false) (d : Nat) (lvb : Bool) :
    ItemHead (layMapItem T k cp d lvb fs).1 := by
  have := itemHead_layItem hr cp (.map true fs) (by simp [inFragP, hv, hdup]) d lvb
  simpa [layItem] using this

/-! ### the reader theorem -/

mutual
/-- the value of a key: text after `key:` plus the following lines -/
theorem read_val {P : LeafPred} {T : Toks} {k : Nat} {cp : Bool} (hr : ReadContract P T k) (hk : k ≥ 1) : ∀ (v : SVal), inFragP P v = true → ReadsVal (fun c im lvb => layVal T k cp im c lvb v) (erase v)
  | .unit, _ => by simpa [layVal, erase] using reads_leaf_val scalarTok_null
  | .none, _ => by simpa [layVal, erase] using reads_leaf_val scalarTok_null
  | .bool b, _ => by simpa [layVal, erase] using reads_leaf_val (scalarTok_bool b)
  | .int i, _ => by simpa [layVal, erase] using reads_leaf_val (scalarTok_int i)
  | .str t, hv => by
    simp only [inFragP] at hv
    simpa [layVal, erase] using reads_leafOK_val (r := fun c => T.strAt k (.val c) t) (fun c => hr.str (.val c) t hv)
  | .unitVariant e n, hv => by
    simp only [inFragP] at hv
    simpa [layVal, erase] using reads_leafOK_val (r := fun c => T.unitAt k (.val c) e n) (fun c => hr.unit (.val c) e n hv)
  | .some v, hv => by
    simp only [inFragP] at hv
    simpa [layVal, erase] using read_val hr hk v hv
  | .newtypeStruct v, hv => by
    simp only [inFragP] at hv
    simpa [layVal, erase] using read_val hr hk v hv
  | .seq xs, hv => by
    simp only [inFragP] at hv
    simpa [layVal, erase] using reads_seqVal hr hk hv (read_items hr hk xs hv)
  | .tuple xs, hv => by
    simp only [inFragP] at hv
    simpa [layVal, erase] using reads_seqVal hr hk hv (read_items hr hk xs hv)
  | .tupleStruct xs, hv => by
    simp only [inFragP] at hv
    simpa [layVal, erase] using reads_seqVal hr hk hv (read_items hr hk xs hv)
  | .map known es, hv => by
    simp only [inFragP, Bool.and_eq_true, decide_eq_true_eq] at hv
    simpa [layVal, erase] using reads_mapVal hr hk hv.1 (by simpa using hv.2) (read_entries hr hk es hv.1)
  | .newtypeVariant n v, hv => by
    simp only [inFragP, Bool.and_eq_true] at hv
    simpa [layVal, erase] using reads_variantVal hk (hr.name n hv.1) (r := fun c im lvb => layVal T k cp im c lvb v)
      (ri := fun c lvb => layItem T k cp c lvb v)
      (fun c im lvb => valHead_layVal hr cp im v hv.2 c lvb) (read_val hr hk v hv.2)
      (fun c lvb => itemHead_layItem hr cp v hv.2 c lvb) (read_item hr hk v hv.2)
  | .tupleVariant n xs, hv => by
    simp only [inFragP, Bool.and_eq_true] at hv
    simpa [layVal, erase] using reads_variantVal hk (hr.name n hv.1) (r := fun c im _ => seqValOf xs.isEmpty (layItems T k cp (seqCol k cp im c) false xs).1)
      (ri := fun c lvb => laySeqItem T k cp c lvb xs)
      (fun _ _ _ => seqValOf_head _ _) (reads_seqVal hr hk hv.2 (read_items hr hk xs hv.2))
      (fun c lvb => laySeqItem_head T k cp c lvb xs) (reads_seqItem hr hv.2 (read_items hr hk xs hv.2))
  | .structVariant n fs, hv => by
    simp only [inFragP, Bool.and_eq_true, decide_eq_true_eq] at hv
    simpa [layVal, erase] using reads_variantVal hk (hr.name n hv.1)
      (r := fun c _ lvb => mapValOf (c + k) lvb fs.isEmpty (layEntries T k cp (c + k) false fs).1)
      (ri := fun c lvb => layMapItem T k cp c lvb fs)
      (fun _ _ _ => mapValOf_head _ _ _ _) (reads_mapVal hr hk hv.2.1 (by simpa using hv.2.2) (read_entries hr hk fs hv.2.1))
      (fun c lvb => layMapItem_head hr cp hv.2.1 (by simpa using hv.2.2) c lvb)
      (reads_mapItem hr hv.2.1 (by simpa using hv.2.2) (read_entries hr hk fs hv.2.1))
  | .flowSeq _, hv => by simp [inFragP] at hv
  | .flowMap _, hv => by simp [inFragP] at hv
  | .commented _ _, hv => by simp [inFragP] at hv
  | .spaceAfter _, hv => by simp [inFragP] at hv
  | .litStr _, hv => by simp [inFragP] at hv
  | .foldStr _, hv => by simp [inFragP] at hv
/-- an item of a sequence: text after `- ` plus the following lines -/
theorem read_item {P : LeafPred} {T : Toks} {k : Nat} {cp : Bool} (hr : ReadContract P T k) (hk : k ≥ 1) : ∀ (v : SVal), inFragP P v = true → ReadsItem (fun c lvb => layItem T k cp c lvb v) (erase v)
  | .unit, _ => by simpa [layItem, erase] using reads_leaf_item scalarTok_null
  | .none, _ => by simpa [layItem, erase] using reads_leaf_item scalarTok_null
  | .bool b, _ => by simpa [layItem, erase] using reads_leaf_item (scalarTok_bool b)
  | .int i, _ => by simpa [layItem, erase] using reads_leaf_item (scalarTok_int i)
  | .str t, hv => by
    simp only [inFragP] at hv
    simpa [layItem, erase] using reads_leafOK_item (r := fun c => T.strAt k (.item c) t) (fun c => hr.str (.item c) t hv)
  | .unitVariant e n, hv => by
    simp only [inFragP] at hv
    simpa [layItem, erase] using reads_leafOK_item (r := fun c => T.unitAt k (.item c) e n) (fun c => hr.unit (.item c) e n hv)
  | .some v, hv => by
    simp only [inFragP] at hv
    simpa [layItem, erase] using read_item hr hk v hv
  | .newtypeStruct v, hv => by
    simp only [inFragP] at hv
    simpa [layItem, erase] using read_item hr hk v hv
  | .seq xs, hv => by
    simp only [inFragP] at hv
    simpa [layItem, erase] using reads_seqItem hr hv (read_items hr hk xs hv)
  | .tuple xs, hv => by
    simp only [inFragP] at hv
    simpa [layItem, erase] using reads_seqItem hr hv (read_items hr hk xs hv)
  | .tupleStruct xs, hv => by
    simp only [inFragP] at hv
    simpa [layItem, erase] using reads_seqItem hr hv (read_items hr hk xs hv)
  | .map known es, hv => by
    simp only [inFragP, Bool.and_eq_true, decide_eq_true_eq] at hv
    simpa [layItem, erase] using reads_mapItem hr hv.1 (by simpa using hv.2) (read_entries hr hk es hv.1)
  | .newtypeVariant n v, hv => by
    simp only [inFragP, Bool.and_eq_true] at hv
    simpa [layItem, erase] using reads_variantItem (hr.name n hv.1) (r := fun c im lvb => layVal T k cp im c lvb v)
      (ri := fun c lvb => layItem T k cp c lvb v)
      (fun c im lvb => valHead_layVal hr cp im v hv.2 c lvb) (read_val hr hk v hv.2)
      (fun c lvb => itemHead_layItem hr cp v hv.2 c lvb) (read_item hr hk v hv.2)
  | .tupleVariant n xs, hv => by
    simp only [inFragP, Bool.and_eq_true] at hv
    simpa [layItem, erase] using reads_variantItem (hr.name n hv.1) (r := fun c im _ => seqValOf xs.isEmpty (layItems T k cp (seqCol k cp im c) false xs).1)
      (ri := fun c lvb => laySeqItem T k cp c lvb xs)
      (fun _ _ _ => seqValOf_head _ _) (reads_seqVal hr hk hv.2 (read_items hr hk xs hv.2))
      (fun c lvb => laySeqItem_head T k cp c lvb xs) (reads_seqItem hr hv.2 (read_items hr hk xs hv.2))
  | .structVariant n fs, hv => by
    simp only [inFragP, Bool.and_eq_true, decide_eq_true_eq] at hv
    simpa [layItem, erase] using reads_variantItem (hr.name n hv.1)
      (r := fun c _ lvb => mapValOf (c + k) lvb fs.isEmpty (layEntries T k cp (c + k) false fs).1)
      (ri := fun c lvb => layMapItem T k cp c lvb fs)
      (fun _ _ _ => mapValOf_head _ _ _ _) (reads_mapVal hr hk hv.2.1 (by simpa using hv.2.2) (read_entries hr hk fs hv.2.1))
      (fun c lvb => layMapItem_head hr cp hv.2.1 (by simpa using hv.2.2) c lvb)
      (reads_mapItem hr hv.2.1 (by simpa using hv.2.2) (read_entries hr hk fs hv.2.1))
  | .flowSeq _, hv => by simp [inFragP] at hv
  | .flowMap _, hv => by simp [inFragP] at hv
  | .commented _ _, hv => by simp [inFragP] at hv
  | .spaceAfter _, hv => by simp [inFragP] at hv
  | .litStr _, hv => by simp [inFragP] at hv
  | .foldStr _, hv => by simp [inFragP] at hv
/-- the items of a block sequence at depth `d` -/
theorem read_items {P : LeafPred} {T : Toks} {k : Nat} {cp : Bool} (hr : ReadContract P T k) (hk : k ≥ 1) : ∀ (xs : List SVal), inFragListP P xs = true → ReadsItems T k cp xs
  | [], _ => reads_items_nil
  | x :: xs, hv => by
    simp only [inFragListP, Bool.and_eq_true] at hv
    exact reads_items_cons hr hv.1 (read_item hr hk x hv.1) (read_items hr hk xs hv.2)
/-- the entries of a block mapping at depth `m` -/
theorem read_entries {P : LeafPred} {T : Toks} {k : Nat} {cp : Bool} (hr : ReadContract P T k) (hk : k ≥ 1) : ∀ (es : List (SVal × SVal)), inFragEntriesP P es = true → ReadsEntries T k cp es
  | [], _ => reads_entries_nil
  | (kk, v) :: es, hv => by
    simp only [inFragEntriesP, Bool.and_eq_true, Bool.or_eq_true] at hv
    rcases hv.1.1 with hsk | hck
    · obtain ⟨kt, rfl, hkt⟩ := keyOk_iff hsk
      cases hfit : fitsImplicit (T.key kt)
      · exact reads_entries_cons_long hr hkt hfit hv.1.2 hv.2 (read_item hr hk v hv.1.2) (read_entries hr hk es hv.2)
      · exact reads_entries_cons hr hkt hfit hv.1.2 hv.2 (read_val hr hk v hv.1.2) (read_entries hr hk es hv.2)
    · exact reads_entries_cons_complex hr hck.1 hck.2 hv.1.2 hv.2 (read_item hr hk kk hck.2) (read_item hr hk v hv.1.2)
        (read_entries hr hk es hv.2)
end

end SaphyrVerif.Emit
