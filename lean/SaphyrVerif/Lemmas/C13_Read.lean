import SaphyrVerif.Lemmas.C13_Lex
/-!
C13 proof machinery, part 3b: the reference reader maps the layout of a fragment value back to
`erase v`.  Fuel: every lemma asks for `2 * (characters of the node's own lines) + 1`; the root
supplies `2 * text.length + …`.
-/
set_option linter.unusedSimpArgs false
set_option linter.unusedVariables false
namespace SaphyrVerif.Emit
open SaphyrVerif

/-- size of a block of lines: characters + one per line -/
def mu : List Line → Nat
  | [] => 0
  | l :: ls => l.text.length + 1 + mu ls

theorem mu_append (a b : List Line) : mu (a ++ b) = mu a + mu b := by
  induction a with
  | nil => simp [mu]
  | cons l ls ih => simp [mu, ih]; omega

/-- the lines after a node: nothing, or a non-blank line indented less than `c` -/
def DedLt (c : Nat) (rest : List Line) : Prop :=
  rest = [] ∨ ∃ l ls, rest = l :: ls ∧ l.indent < c ∧ l.isSkippable = false

theorem DedLt.mono {c c' : Nat} {rest : List Line} (h : DedLt c rest) (hc : c ≤ c') : DedLt c' rest := by
  rcases h with rfl | ⟨l, ls, rfl, hi, hs⟩
  · exact Or.inl rfl
  · exact Or.inr ⟨l, ls, rfl, by omega, hs⟩

theorem DedLt.cons {c : Nat} (l : Line) (ls : List Line) (hi : l.indent < c) (hs : l.isSkippable = false) :
    DedLt c (l :: ls) := Or.inr ⟨l, ls, rfl, hi, hs⟩

theorem skipBlank_cons {l : Line} (ls : List Line) (h : l.isSkippable = false) : skipBlank (l :: ls) = l :: ls := by
  simp [skipBlank, h]

theorem skipBlank_ded {c : Nat} {rest : List Line} (h : DedLt c rest) : skipBlank rest = rest := by
  rcases h with rfl | ⟨l, ls, rfl, _, hs⟩
  · rfl
  · exact skipBlank_cons ls hs

theorem plainContinuation_ded {n : Nat} {rest : List Line} (h : DedLt n rest) :
    plainContinuation n rest 0 = some ([], rest) := by
  rcases h with rfl | ⟨l, ls, rfl, hi, hs⟩
  · rfl
  · have hb : l.isBlank = false := by
      simp only [Line.isSkippable, Bool.or_eq_false_iff] at hs
      simpa [Line.isBlank] using hs.1
    simp [plainContinuation, hb, hi]

/-- a line whose text starts with a token character / bracket is not skippable -/
theorem notSkippable_of_head {i : Nat} {c : Char} {cs : List Char} (hc : c ≠ '#') :
    (⟨i, c :: cs⟩ : Line).isSkippable = false := by
  simp [Line.isSkippable, hc]

/-! ### scalars and empty collections -/

theorem blockNode_plain (fuel n : Nat) (seqAt : Option Nat) (inl : Bool) (i : Nat) {t : List Char}
    (rest : List Line) (ht : PlainTok t) (hi : n ≤ i) (hd : DedLt n rest) :
    blockNode (fuel + 1) n seqAt inl (⟨i, t⟩ :: rest) = some (resolvePlain t, rest) := by
  obtain ⟨c, cs, e, hc⟩ := ht.head
  have hns : (⟨i, t⟩ : Line).isSkippable = false := by
    rw [e]; exact notSkippable_of_head (fun h => by rw [h] at hc; exact absurd hc (by decide))
  have hcl := classify_plainTok ht
  have hlt : ¬ (i < n) := by omega
  have hsk := skipTag_tok e hc
  have hne : ∀ x : Char, isTokChar x = false → (c == x) = false := fun x hx => by
    simp only [beq_eq_false_iff_ne]; exact isTokChar_ne hc x hx
  rw [blockNode, skipBlank_cons rest hns]
  simp only [hcl, hlt, decide_false, Bool.false_and, Bool.false_eq_true, if_false, hsk]
  rw [e]
  simp only [hne '[' (by decide), hne '{' (by decide), hne '|' (by decide), hne '>' (by decide), hne '&' (by decide),
    hne '*' (by decide), hne '%' (by decide), hne '@' (by decide), hne '`' (by decide), hne '"' (by decide),
    hne '\'' (by decide), hne '#' (by decide), Bool.or_self, Bool.false_eq_true, if_false]
  rw [← e, implicitKey_plainTok ht, plainFirstLine_plainTok ht]
  simp only [Bool.false_eq_true, if_false, plainContinuation_ded hd]

theorem blockNode_emptySeq (fuel n : Nat) (seqAt : Option Nat) (inl : Bool) (i : Nat) (rest : List Line)
    (hi : n ≤ i) : blockNode (fuel + 1) n seqAt inl (⟨i, "[]".toList⟩ :: rest) = some (.seq [], rest) := by
  have hlt : ¬ (i < n) := by omega
  rw [blockNode]
  simp [skipBlank, Line.isSkippable, classify, hlt, skipTag, flowAcross, flowNode, dropSpaces, restIsEmptyOrComment]

theorem blockNode_emptyMap (fuel n : Nat) (seqAt : Option Nat) (inl : Bool) (i : Nat) (rest : List Line)
    (hi : n ≤ i) : blockNode (fuel + 1) n seqAt inl (⟨i, "{}".toList⟩ :: rest) = some (.map [], rest) := by
  have hlt : ¬ (i < n) := by omega
  rw [blockNode]
  simp [skipBlank, Line.isSkippable, classify, hlt, skipTag, flowAcross, flowNode, dropSpaces, restIsEmptyOrComment]

/-! ### unfolding lemmas for sequences -/

/-- an item head: non-empty, does not start with a blank or `#` -/
structure ItemHead (h : List Char) : Prop where
  ne : h ≠ []
  noSpace : h.head? ≠ some ' '

theorem classify_dash {h : List Char} (hh : ItemHead h) : classify ('-' :: ' ' :: h) = .dash h 1 := by
  obtain ⟨c, cs, rfl⟩ : ∃ c cs, h = c :: cs := by
    cases h with
    | nil => exact absurd rfl hh.ne
    | cons c cs => exact ⟨c, cs, rfl⟩
  have hc : c ≠ ' ' := by
    intro e; exact hh.noSpace (by simp [e])
  simp [classify, dropSpaces, hc]

theorem blockSeq_end (fuel c : Nat) {rest : List Line} (h : DedLt c rest) :
    blockSeq (fuel + 1) c rest = some ([], rest) := by
  rw [blockSeq, skipBlank_ded h]
  rcases h with rfl | ⟨l, ls, rfl, hi, hs⟩
  · rfl
  · have h1 : (l.indent != c) = true := by simp; omega
    have h2 : ¬ (l.indent > c) := by omega
    simp [h1, h2]

theorem blockSeq_cons (fuel c : Nat) {h : List Char} (ls : List Line) (hh : ItemHead h) :
    blockSeq (fuel + 1) c (⟨c, '-' :: ' ' :: h⟩ :: ls) =
      (match blockNode fuel (c + 1) none false (⟨c + 2, h⟩ :: ls) with
       | none => none
       | some (v, r) => (blockSeq fuel c r).map fun (vs, r) => (v :: vs, r)) := by
  have hns : (⟨c, '-' :: ' ' :: h⟩ : Line).isSkippable = false := notSkippable_of_head (by decide)
  have hne : h.isEmpty = false := by
    cases h with
    | nil => exact absurd rfl hh.ne
    | cons _ _ => rfl
  rw [blockSeq, skipBlank_cons ls hns]
  simp [classify_dash hh, hne]
  rfl

/-- a block node whose first line starts with `- ` is the block sequence at that indentation -/
theorem blockNode_dash (fuel n : Nat) (seqAt : Option Nat) (i : Nat) {h : List Char} (ls : List Line)
    (hh : ItemHead h) (hi : n ≤ i) :
    blockNode (fuel + 1) n seqAt false (⟨i, '-' :: ' ' :: h⟩ :: ls) =
      (blockSeq fuel i (⟨i, '-' :: ' ' :: h⟩ :: ls)).map fun (xs, r) => (.seq xs, r) := by
  have hns : (⟨i, '-' :: ' ' :: h⟩ : Line).isSkippable = false := notSkippable_of_head (by decide)
  have hlt : ¬ (i < n) := by omega
  rw [blockNode, skipBlank_cons ls hns]
  simp [classify_dash hh, hlt]

/-! ### unfolding lemmas for mappings -/

/-- how `blockMap` reads the value of an implicit key at indentation `c` -/
def valueParse (fuel c keyLen : Nat) (after : List Char) (rest : List Line) : Option (PVal × List Line) :=
  if (dropSpaces after).isEmpty || (dropSpaces after).head? == some '#' then blockNode fuel (c + 1) (some c) false rest
  else blockNode fuel (c + 1) none true ({ indent := restColumn (c + keyLen) after, text := dropSpaces after } :: rest)

/-- the text after `key:`: nothing, or a blank followed by an item head -/
def ValHead (h : List Char) : Prop := h = [] ∨ ∃ t, h = ' ' :: t ∧ ItemHead t

theorem ValHead.colonEnds {h : List Char} (hh : ValHead h) : colonEndsKey h = true := by
  rcases hh with rfl | ⟨t, rfl, _⟩ <;> simp [colonEndsKey]

theorem blockMap_end (fuel c : Nat) {rest : List Line} (h : DedLt c rest) :
    blockMap (fuel + 1) c rest = some ([], rest) := by
  rw [blockMap, skipBlank_ded h]
  rcases h with rfl | ⟨l, ls, rfl, hi, hs⟩
  · rfl
  · have h1 : (l.indent != c) = true := by simp; omega
    have h2 : ¬ (l.indent > c) := by omega
    simp [h1, h2]

theorem key_line_notSkippable {k : List Char} (hk : isSafeStr k = true) (i : Nat) (after : List Char) :
    (⟨i, k ++ ':' :: after⟩ : Line).isSkippable = false := by
  obtain ⟨c, cs, rfl, hc, _, _⟩ := safe_cons hk
  exact notSkippable_of_head (by rintro rfl; exact absurd hc (by decide))

theorem blockMap_cons (fuel c : Nat) {k h : List Char} (ls : List Line) (hk : isSafeStr k = true) (hh : ValHead h) :
    blockMap (fuel + 1) c (⟨c, k ++ ':' :: h⟩ :: ls) =
      (match valueParse fuel c (k.length + 1) h ls with
       | none => none
       | some (v, r) => (blockMap fuel c r).map fun (es, r) => ((.str k, v) :: es, r)) := by
  rw [blockMap, skipBlank_cons ls (key_line_notSkippable hk c h)]
  simp only [bne_self_eq_false, Bool.false_eq_true, if_false, classify_key hk h, implicitKey_key hk h hh.colonEnds]
  have hlen : (k ++ ':' :: h).length - h.length = k.length + 1 := by simp; omega
  simp only [hlen, valueParse]
  rfl

/-- a block node whose first line is `key:…` with a safe key is the block mapping at that indentation -/
theorem blockNode_key (fuel n : Nat) (seqAt : Option Nat) (i : Nat) {k h : List Char} (ls : List Line)
    (hk : isSafeStr k = true) (hh : ValHead h) (hi : n ≤ i) :
    blockNode (fuel + 1) n seqAt false (⟨i, k ++ ':' :: h⟩ :: ls) =
      (match blockMap fuel i (⟨i, k ++ ':' :: h⟩ :: ls) with
       | some (es, r) => if hasDupKey es then none else some (.map es, r)
       | none => none) := by
  obtain ⟨c, cs, rfl, hc, hcs, hres⟩ := safe_cons hk
  have htc : isTokChar c = true := alnum_tok (alpha_alnum hc)
  have hlt : ¬ (i < n) := by omega
  have hne : ∀ x : Char, isTokChar x = false → (c == x) = false := fun x hx => by
    simp only [beq_eq_false_iff_ne]; exact isTokChar_ne htc x hx
  have hsk : skipTag ((c :: cs) ++ ':' :: h) = (c :: cs) ++ ':' :: h := skipTag_tok (c := c) (cs := cs ++ ':' :: h) rfl htc
  rw [blockNode, skipBlank_cons ls (key_line_notSkippable hk i h)]
  simp only [classify_key hk h, hlt, decide_false, Bool.false_and, Bool.false_eq_true, if_false, hsk]
  simp only [List.cons_append, hne '[' (by decide), hne '{' (by decide), hne '|' (by decide), hne '>' (by decide),
    hne '&' (by decide), hne '*' (by decide), hne '%' (by decide), hne '@' (by decide), hne '`' (by decide),
    Bool.or_self, Bool.false_eq_true, if_false]
  have := implicitKey_key hk h hh.colonEnds
  simp only [List.cons_append] at this
  simp [this]
  rfl

/-! ### heads of the layout -/

theorem PlainTok.itemHead {t : List Char} (h : PlainTok t) : ItemHead t := by
  obtain ⟨c, cs, rfl, hc⟩ := h.head
  exact ⟨by simp, by simp only [List.head?_cons, ne_eq, Option.some.injEq]; rintro rfl; exact absurd hc (by decide)⟩

theorem safe_key_itemHead {k : List Char} (hk : isSafeStr k = true) (after : List Char) : ItemHead (k ++ ':' :: after) := by
  obtain ⟨c, cs, rfl, hc, _, _⟩ := safe_cons hk
  exact ⟨by simp, by simp only [List.cons_append, List.head?_cons, ne_eq, Option.some.injEq]; rintro rfl; exact absurd hc (by decide)⟩

theorem leafTok_plainTok {w : Nat} {v : SVal} {tok : List Char} (hv : inFrag w v = true) (ht : leafTok v = some tok) :
    PlainTok tok := by
  cases v <;> simp only [leafTok, Option.some.injEq, reduceCtorEq] at ht
  · subst ht; exact plainTok_null
  · rename_i b; subst ht; cases b
    · exact plainTok_false
    · exact plainTok_true
  · subst ht; exact intText_plainTok _
  · subst ht; simp only [inFrag, Bool.and_eq_true] at hv; exact safe_plainTok hv.1
  · subst ht; exact plainTok_null
  · subst ht; simp only [inFrag, Bool.and_eq_true] at hv; exact safe_plainTok hv.1

theorem itemHead_layItem {w : Nat} : ∀ (v : SVal), inFrag w v = true → ∀ (d : Nat) (lvb : Bool), ItemHead (layItem d lvb v).1
  | .unit, _, d, lvb => by simpa [layItem] using plainTok_null.itemHead
  | .none, _, d, lvb => by simpa [layItem] using plainTok_null.itemHead
  | .bool b, _, d, lvb => by cases b <;> simpa [layItem] using (by first | exact plainTok_true.itemHead | exact plainTok_false.itemHead)
  | .int i, _, d, lvb => by simpa [layItem] using (intText_plainTok i).itemHead
  | .str t, hv, d, lvb => by
    simp only [inFrag, Bool.and_eq_true] at hv
    simpa [layItem] using (safe_plainTok hv.1).itemHead
  | .unitVariant e n, hv, d, lvb => by
    simp only [inFrag, Bool.and_eq_true] at hv
    simpa [layItem] using (safe_plainTok hv.1).itemHead
  | .some v, hv, d, lvb => by simp only [inFrag] at hv; simpa [layItem] using itemHead_layItem v hv d lvb
  | .newtypeStruct v, hv, d, lvb => by simp only [inFrag] at hv; simpa [layItem] using itemHead_layItem v hv d lvb
  | .newtypeVariant n v, hv, d, lvb => by
    simp only [inFrag, Bool.and_eq_true] at hv
    simpa [layItem] using safe_key_itemHead hv.1 _
  | .seq xs, _, d, lvb => by
    cases xs <;> simp only [layItem, laySeqItem]
    · exact ⟨by decide, by decide⟩
    · exact ⟨by simp, by simp⟩
  | .tuple xs, _, d, lvb => by
    cases xs <;> simp only [layItem, laySeqItem]
    · exact ⟨by decide, by decide⟩
    · exact ⟨by simp, by simp⟩
  | .map known es, hv, d, lvb => by
    simp only [inFrag, Bool.and_eq_true] at hv
    cases es with
    | nil => simp only [layItem, layMapItem]; exact ⟨by decide, by decide⟩
    | cons e es' =>
      obtain ⟨k, v⟩ := e
      cases k <;> simp only [inFragEntries, Bool.and_eq_true, Bool.false_and, Bool.false_eq_true, false_and] at hv
      rename_i kt
      simp only [layItem, layMapItem, keyOf, Option.getD_some, List.append_assoc, List.singleton_append]
      exact safe_key_itemHead hv.1.1.1 _
  | .tupleStruct _, hv, _, _ => by simp [inFrag] at hv
  | .tupleVariant _ _, hv, _, _ => by simp [inFrag] at hv
  | .structVariant _ _, hv, _, _ => by simp [inFrag] at hv
  | .flowSeq _, hv, _, _ => by simp [inFrag] at hv
  | .flowMap _, hv, _, _ => by simp [inFrag] at hv
  | .commented _ _, hv, _, _ => by simp [inFrag] at hv
  | .spaceAfter _, hv, _, _ => by simp [inFrag] at hv
  | .litStr _, hv, _, _ => by simp [inFrag] at hv
  | .foldStr _, hv, _, _ => by simp [inFrag] at hv

theorem valHead_tok {t : List Char} (h : PlainTok t) : ValHead (' ' :: t) := Or.inr ⟨t, rfl, h.itemHead⟩

theorem valHead_layVal {w : Nat} : ∀ (v : SVal), inFrag w v = true → ∀ (m : Nat) (lvb : Bool), ValHead (layVal m lvb v).1
  | .unit, _, m, lvb => by simpa [layVal] using valHead_tok plainTok_null
  | .none, _, m, lvb => by simpa [layVal] using valHead_tok plainTok_null
  | .bool b, _, m, lvb => by cases b <;> simpa [layVal] using (by first | exact valHead_tok plainTok_true | exact valHead_tok plainTok_false)
  | .int i, _, m, lvb => by simpa [layVal] using valHead_tok (intText_plainTok i)
  | .str t, hv, m, lvb => by
    simp only [inFrag, Bool.and_eq_true] at hv
    simpa [layVal] using valHead_tok (safe_plainTok hv.1)
  | .unitVariant e n, hv, m, lvb => by
    simp only [inFrag, Bool.and_eq_true] at hv
    simpa [layVal] using valHead_tok (safe_plainTok hv.1)
  | .some v, hv, m, lvb => by simp only [inFrag] at hv; simpa [layVal] using valHead_layVal v hv m lvb
  | .newtypeStruct v, hv, m, lvb => by simp only [inFrag] at hv; simpa [layVal] using valHead_layVal v hv m lvb
  | .newtypeVariant n v, _, m, lvb => by simp only [layVal]; exact Or.inl rfl
  | .seq xs, _, m, lvb => by
    cases xs <;> cases lvb <;> simp only [layVal, seqValOf, List.isEmpty_nil, List.isEmpty_cons, if_true, if_false, Bool.false_eq_true]
    · exact Or.inr ⟨_, rfl, ⟨by decide, by decide⟩⟩
    · exact Or.inl rfl
    · exact Or.inl rfl
    · exact Or.inl rfl
  | .tuple xs, _, m, lvb => by
    cases xs <;> cases lvb <;> simp only [layVal, seqValOf, List.isEmpty_nil, List.isEmpty_cons, if_true, if_false, Bool.false_eq_true]
    · exact Or.inr ⟨_, rfl, ⟨by decide, by decide⟩⟩
    · exact Or.inl rfl
    · exact Or.inl rfl
    · exact Or.inl rfl
  | .map known es, _, m, lvb => by
    cases es <;> cases lvb <;> simp only [layVal, List.isEmpty_nil, List.isEmpty_cons, if_true, if_false, Bool.false_eq_true]
    · exact Or.inr ⟨_, rfl, ⟨by decide, by decide⟩⟩
    · exact Or.inl rfl
    · exact Or.inl rfl
    · exact Or.inl rfl
  | .tupleStruct _, hv, _, _ => by simp [inFrag] at hv
  | .tupleVariant _ _, hv, _, _ => by simp [inFrag] at hv
  | .structVariant _ _, hv, _, _ => by simp [inFrag] at hv
  | .flowSeq _, hv, _, _ => by simp [inFrag] at hv
  | .flowMap _, hv, _, _ => by simp [inFrag] at hv
  | .commented _ _, hv, _, _ => by simp [inFrag] at hv
  | .spaceAfter _, hv, _, _ => by simp [inFrag] at hv
  | .litStr _, hv, _, _ => by simp [inFrag] at hv
  | .foldStr _, hv, _, _ => by simp [inFrag] at hv

/-! ### the reader on the layout -/

theorem valueParse_block (fuel c klen : Nat) (ls : List Line) :
    valueParse fuel c klen [] ls = blockNode fuel (c + 1) (some c) false ls := by
  simp [valueParse, dropSpaces]

theorem valueParse_leaf (fuel c klen : Nat) {t : List Char} (rest : List Line) (ht : PlainTok t)
    (hd : DedLt (c + 1) rest) : valueParse (fuel + 1) c klen (' ' :: t) rest = some (resolvePlain t, rest) := by
  obtain ⟨a, as, rfl, ha⟩ := ht.head
  have h1 : a ≠ ' ' := fun e => by rw [e] at ha; exact absurd ha (by decide)
  have h2 : a ≠ '#' := fun e => by rw [e] at ha; exact absurd ha (by decide)
  have hds : dropSpaces (' ' :: a :: as) = a :: as := by simp [dropSpaces, h1]
  have hrc : restColumn (c + klen) (' ' :: a :: as) = c + klen + 1 := by simp [restColumn, h1]
  simp only [valueParse, hds, hrc, List.isEmpty_cons, List.head?_cons, Option.some.injEq, beq_iff_eq, h2, Bool.false_or,
    decide_false, Bool.false_eq_true, if_false]
  exact blockNode_plain fuel (c + 1) none true _ rest ht (by omega) hd

theorem valueParse_emptySeq (fuel c klen : Nat) (rest : List Line) :
    valueParse (fuel + 1) c klen " []".toList rest = some (.seq [], rest) := by
  have hds : dropSpaces " []".toList = "[]".toList := by decide
  simp only [valueParse, hds]
  exact blockNode_emptySeq fuel (c + 1) none true _ rest (by simp [restColumn])

theorem valueParse_emptyMap (fuel c klen : Nat) (rest : List Line) :
    valueParse (fuel + 1) c klen " {}".toList rest = some (.map [], rest) := by
  have hds : dropSpaces " {}".toList = "{}".toList := by decide
  simp only [valueParse, hds]
  exact blockNode_emptyMap fuel (c + 1) none true _ rest (by simp [restColumn])

/-- distinct string keys: the reader's duplicate-key check passes -/
theorem hasDupKey_erase {w : Nat} : ∀ (es : List (SVal × SVal)), inFragEntries w es = true → (keysOf es).Nodup →
    hasDupKey (eraseEntries es) = false
  | [], _, _ => rfl
  | (k, v) :: es, hv, hn => by
    cases k <;> simp only [inFragEntries, Bool.and_eq_true, Bool.false_and, Bool.false_eq_true, false_and] at hv
    rename_i kt
    simp only [keysOf, List.nodup_cons] at hn
    simp only [eraseEntries, erase, hasDupKey, Bool.or_eq_false_iff]
    refine ⟨?_, hasDupKey_erase es hv.2 hn.2⟩
    rw [List.any_eq_false]
    intro e he
    -- every key of `es` is a string different from `kt`
    have : ∀ (es : List (SVal × SVal)), inFragEntries w es = true → kt ∉ keysOf es →
        ∀ e ∈ eraseEntries es, ¬ (e.1 == PVal.str kt) = true := by
      intro es
      induction es with
      | nil => intro _ _ e he; simp [eraseEntries] at he
      | cons p ps ih =>
        obtain ⟨k', v'⟩ := p
        intro hv' hn' e he
        cases k' <;> simp only [inFragEntries, Bool.and_eq_true, Bool.false_and, Bool.false_eq_true, false_and] at hv'
        rename_i kt'
        simp only [keysOf, List.mem_cons, not_or] at hn'
        simp only [eraseEntries, erase, List.mem_cons] at he
        rcases he with rfl | he
        · show ¬ (PVal.beq (PVal.str kt') (PVal.str kt)) = true
          simp only [PVal.beq, beq_iff_eq]
          exact fun e => hn'.1 e.symm
        · exact ih hv'.2 hn'.2 e he
    exact this es hv.2 hn.1 e he

mutual
/-- the value of a key: text after `key:` plus the following lines -/
theorem read_val {w : Nat} : ∀ (v : SVal), inFrag w v = true → ∀ (fuel m : Nat) (lvb : Bool) (klen : Nat) (rest : List Line),
    fuel ≥ 2 * ((layVal m lvb v).1.length + 1 + mu (layVal m lvb v).2.1) + 2 → DedLt (col m + 1) rest →
    valueParse fuel (col m) klen (layVal m lvb v).1 ((layVal m lvb v).2.1 ++ rest) = some (erase v, rest)
  | .unit, hv, fuel, m, lvb, klen, rest, hfuel, hd => by
    have ht : PlainTok ("null".toList) := plainTok_null
    obtain ⟨f', rfl⟩ : ∃ f', fuel = f' + 1 := ⟨fuel - 1, by omega⟩
    simpa [layVal, erase, resolvePlain_null] using valueParse_leaf f' (col m) klen rest ht hd
  | .none, hv, fuel, m, lvb, klen, rest, hfuel, hd => by
    have ht : PlainTok ("null".toList) := plainTok_null
    obtain ⟨f', rfl⟩ : ∃ f', fuel = f' + 1 := ⟨fuel - 1, by omega⟩
    simpa [layVal, erase, resolvePlain_null] using valueParse_leaf f' (col m) klen rest ht hd
  | .bool b, hv, fuel, m, lvb, klen, rest, hfuel, hd => by
    obtain ⟨f', rfl⟩ : ∃ f', fuel = f' + 1 := ⟨fuel - 1, by omega⟩
    cases b
    · simpa [layVal, erase, resolvePlain_false] using valueParse_leaf f' (col m) klen rest plainTok_false hd
    · simpa [layVal, erase, resolvePlain_true] using valueParse_leaf f' (col m) klen rest plainTok_true hd
  | .int i, hv, fuel, m, lvb, klen, rest, hfuel, hd => by
    have ht : PlainTok (intText i) := intText_plainTok i
    obtain ⟨f', rfl⟩ : ∃ f', fuel = f' + 1 := ⟨fuel - 1, by omega⟩
    simpa [layVal, erase, resolvePlain_int] using valueParse_leaf f' (col m) klen rest ht hd
  | .str t, hv, fuel, m, lvb, klen, rest, hfuel, hd => by
    simp only [inFrag, Bool.and_eq_true] at hv
    have ht : PlainTok (t) := safe_plainTok hv.1
    obtain ⟨f', rfl⟩ : ∃ f', fuel = f' + 1 := ⟨fuel - 1, by omega⟩
    simpa [layVal, erase, resolvePlain_safe hv.1] using valueParse_leaf f' (col m) klen rest ht hd
  | .unitVariant e n, hv, fuel, m, lvb, klen, rest, hfuel, hd => by
    simp only [inFrag, Bool.and_eq_true] at hv
    have ht : PlainTok (n) := safe_plainTok hv.1
    obtain ⟨f', rfl⟩ : ∃ f', fuel = f' + 1 := ⟨fuel - 1, by omega⟩
    simpa [layVal, erase, resolvePlain_safe hv.1] using valueParse_leaf f' (col m) klen rest ht hd
  | .some v, hv, fuel, m, lvb, klen, rest, hfuel, hd => by
    simp only [inFrag] at hv
    simpa [layVal, erase] using read_val v hv fuel m lvb klen rest (by simpa [layVal] using hfuel) hd
  | .newtypeStruct v, hv, fuel, m, lvb, klen, rest, hfuel, hd => by
    simp only [inFrag] at hv
    simpa [layVal, erase] using read_val v hv fuel m lvb klen rest (by simpa [layVal] using hfuel) hd
  | .newtypeVariant n v, hv, fuel, m, lvb, klen, rest, hfuel, hd => by
    simp only [inFrag, Bool.and_eq_true] at hv
    have hh := valHead_layVal v hv.2 (m + 1) lvb
    have hcol : col (m + 1) = col m + 2 := by simp [col]; omega
    simp only [layVal, valueParse_block, erase, List.cons_append, mu, List.length_nil, List.length_append,
      List.length_cons] at hfuel ⊢
    obtain ⟨f', rfl⟩ : ∃ f', fuel = f' + 2 := ⟨fuel - 2, by omega⟩
    have ih := read_val v hv.2 f' (m + 1) lvb (n.length + 1) rest (by omega) (hd.mono (by omega))
    rw [show n ++ [':'] ++ (layVal (m + 1) lvb v).1 = n ++ ':' :: (layVal (m + 1) lvb v).1 by simp]
    rw [blockNode_key (f' + 1) (col m + 1) _ (col (m + 1)) _ hv.1 hh (by omega),
      blockMap_cons f' (col (m + 1)) _ hv.1 hh, ih]
    obtain ⟨f'', rfl⟩ : ∃ f'', f' = f'' + 1 := ⟨f' - 1, by omega⟩
    simp [blockMap_end f'' (col (m + 1)) (hd.mono (by omega)), hasDupKey]
  | .seq xs, hv, fuel, m, lvb, klen, rest, hfuel, hd => by
    simp only [inFrag] at hv
    cases xs with
    | nil =>
      obtain ⟨f', rfl⟩ : ∃ f', fuel = f' + 1 := ⟨fuel - 1, by omega⟩
      cases lvb
      · simpa [layVal, seqValOf, erase, eraseList] using valueParse_emptySeq f' (col m) klen rest
      · simp only [layVal, seqValOf, List.isEmpty_nil, if_true, erase, eraseList, valueParse_block, List.cons_append, List.nil_append]
        exact blockNode_emptySeq f' (col m + 1) _ false (col (m + 1)) rest (by simp [col]; omega)
    | cons x xs' =>
      have hx : inFrag w x = true := by simp only [inFragList, Bool.and_eq_true] at hv; exact hv.1
      have hh := itemHead_layItem x hx (m + 1) false
      have hcol : col (m + 1) = col m + 2 := by simp [col]; omega
      simp only [layVal, seqValOf, List.isEmpty_cons, Bool.false_eq_true, if_false, valueParse_block, erase] at hfuel ⊢
      obtain ⟨f', rfl⟩ : ∃ f', fuel = f' + 1 := ⟨fuel - 1, by omega⟩
      have hi := read_items (x :: xs') hv f' (m + 1) false rest (by simp only [List.length_nil] at hfuel; omega)
        (hd.mono (by omega))
      simp only [layItems, List.cons_append, List.nil_append, List.append_assoc] at hi ⊢
      rw [blockNode_dash f' (col m + 1) _ (col (m + 1)) _ hh (by omega), hi]
      rfl
  | .tuple xs, hv, fuel, m, lvb, klen, rest, hfuel, hd => by
    simp only [inFrag] at hv
    cases xs with
    | nil =>
      obtain ⟨f', rfl⟩ : ∃ f', fuel = f' + 1 := ⟨fuel - 1, by omega⟩
      cases lvb
      · simpa [layVal, seqValOf, erase, eraseList] using valueParse_emptySeq f' (col m) klen rest
      · simp only [layVal, seqValOf, List.isEmpty_nil, if_true, erase, eraseList, valueParse_block, List.cons_append, List.nil_append]
        exact blockNode_emptySeq f' (col m + 1) _ false (col (m + 1)) rest (by simp [col]; omega)
    | cons x xs' =>
      have hx : inFrag w x = true := by simp only [inFragList, Bool.and_eq_true] at hv; exact hv.1
      have hh := itemHead_layItem x hx (m + 1) false
      have hcol : col (m + 1) = col m + 2 := by simp [col]; omega
      simp only [layVal, seqValOf, List.isEmpty_cons, Bool.false_eq_true, if_false, valueParse_block, erase] at hfuel ⊢
      obtain ⟨f', rfl⟩ : ∃ f', fuel = f' + 1 := ⟨fuel - 1, by omega⟩
      have hi := read_items (x :: xs') hv f' (m + 1) false rest (by simp only [List.length_nil] at hfuel; omega)
        (hd.mono (by omega))
      simp only [layItems, List.cons_append, List.nil_append, List.append_assoc] at hi ⊢
      rw [blockNode_dash f' (col m + 1) _ (col (m + 1)) _ hh (by omega), hi]
      rfl
  | .map known es, hv, fuel, m, lvb, klen, rest, hfuel, hd => by
    simp only [inFrag, Bool.and_eq_true, decide_eq_true_eq] at hv
    cases es with
    | nil =>
      obtain ⟨f', rfl⟩ : ∃ f', fuel = f' + 1 := ⟨fuel - 1, by omega⟩
      cases lvb
      · simpa [layVal, erase, eraseEntries] using valueParse_emptyMap f' (col m) klen rest
      · simp only [layVal, List.isEmpty_nil, if_true, erase, eraseEntries, valueParse_block, List.cons_append, List.nil_append]
        exact blockNode_emptyMap f' (col m + 1) _ false (col (m + 1)) rest (by simp [col]; omega)
    | cons e es' =>
      obtain ⟨k, v⟩ := e
      have hdup := hasDupKey_erase ((k, v) :: es') hv.1 hv.2
      have hent := hv.1
      cases k <;> simp only [inFragEntries, Bool.and_eq_true, Bool.false_and, Bool.false_eq_true, false_and] at hent
      rename_i kt
      have hh := valHead_layVal v hent.1.2 (m + 1) false
      have hcol : col (m + 1) = col m + 2 := by simp [col]; omega
      simp only [layVal, List.isEmpty_cons, Bool.false_eq_true, if_false, valueParse_block, erase] at hfuel ⊢
      obtain ⟨f', rfl⟩ : ∃ f', fuel = f' + 1 := ⟨fuel - 1, by omega⟩
      have hi := read_entries ((SVal.str kt, v) :: es') hv.1 f' (m + 1) false rest
        (by simp only [List.length_nil] at hfuel; omega) (hd.mono (by omega))
      simp only [layEntries, keyOf, Option.getD_some, List.cons_append, List.append_assoc, List.singleton_append, List.nil_append] at hi ⊢
      rw [blockNode_key f' (col m + 1) _ (col (m + 1)) _ hent.1.1 hh (by omega), hi]
      simp [hdup]
  | .tupleStruct _, hv, _, _, _, _, _, _, _ => by simp [inFrag] at hv
  | .tupleVariant _ _, hv, _, _, _, _, _, _, _ => by simp [inFrag] at hv
  | .structVariant _ _, hv, _, _, _, _, _, _, _ => by simp [inFrag] at hv
  | .flowSeq _, hv, _, _, _, _, _, _, _ => by simp [inFrag] at hv
  | .flowMap _, hv, _, _, _, _, _, _, _ => by simp [inFrag] at hv
  | .commented _ _, hv, _, _, _, _, _, _, _ => by simp [inFrag] at hv
  | .spaceAfter _, hv, _, _, _, _, _, _, _ => by simp [inFrag] at hv
  | .litStr _, hv, _, _, _, _, _, _, _ => by simp [inFrag] at hv
  | .foldStr _, hv, _, _, _, _, _, _, _ => by simp [inFrag] at hv
/-- an item of a sequence: text after `- ` plus the following lines -/
theorem read_item {w : Nat} : ∀ (v : SVal), inFrag w v = true → ∀ (fuel d : Nat) (lvb : Bool) (rest : List Line),
    fuel ≥ 2 * ((layItem d lvb v).1.length + 1 + mu (layItem d lvb v).2.1) + 2 → DedLt (col d + 1) rest →
    blockNode fuel (col d + 1) none false (⟨col d + 2, (layItem d lvb v).1⟩ :: (layItem d lvb v).2.1 ++ rest) = some (erase v, rest)
  | .unit, hv, fuel, d, lvb, rest, hfuel, hd => by
    have ht : PlainTok ("null".toList) := plainTok_null
    obtain ⟨f', rfl⟩ : ∃ f', fuel = f' + 1 := ⟨fuel - 1, by omega⟩
    simpa [layItem, erase, resolvePlain_null] using blockNode_plain f' (col d + 1) none false (col d + 2) rest ht (by omega) hd
  | .none, hv, fuel, d, lvb, rest, hfuel, hd => by
    have ht : PlainTok ("null".toList) := plainTok_null
    obtain ⟨f', rfl⟩ : ∃ f', fuel = f' + 1 := ⟨fuel - 1, by omega⟩
    simpa [layItem, erase, resolvePlain_null] using blockNode_plain f' (col d + 1) none false (col d + 2) rest ht (by omega) hd
  | .bool b, hv, fuel, d, lvb, rest, hfuel, hd => by
    obtain ⟨f', rfl⟩ : ∃ f', fuel = f' + 1 := ⟨fuel - 1, by omega⟩
    cases b
    · simpa [layItem, erase, resolvePlain_false] using blockNode_plain f' (col d + 1) none false (col d + 2) rest plainTok_false (by omega) hd
    · simpa [layItem, erase, resolvePlain_true] using blockNode_plain f' (col d + 1) none false (col d + 2) rest plainTok_true (by omega) hd
  | .int i, hv, fuel, d, lvb, rest, hfuel, hd => by
    have ht : PlainTok (intText i) := intText_plainTok i
    obtain ⟨f', rfl⟩ : ∃ f', fuel = f' + 1 := ⟨fuel - 1, by omega⟩
    simpa [layItem, erase, resolvePlain_int] using blockNode_plain f' (col d + 1) none false (col d + 2) rest ht (by omega) hd
  | .str t, hv, fuel, d, lvb, rest, hfuel, hd => by
    simp only [inFrag, Bool.and_eq_true] at hv
    have ht : PlainTok (t) := safe_plainTok hv.1
    obtain ⟨f', rfl⟩ : ∃ f', fuel = f' + 1 := ⟨fuel - 1, by omega⟩
    simpa [layItem, erase, resolvePlain_safe hv.1] using blockNode_plain f' (col d + 1) none false (col d + 2) rest ht (by omega) hd
  | .unitVariant e n, hv, fuel, d, lvb, rest, hfuel, hd => by
    simp only [inFrag, Bool.and_eq_true] at hv
    have ht : PlainTok (n) := safe_plainTok hv.1
    obtain ⟨f', rfl⟩ : ∃ f', fuel = f' + 1 := ⟨fuel - 1, by omega⟩
    simpa [layItem, erase, resolvePlain_safe hv.1] using blockNode_plain f' (col d + 1) none false (col d + 2) rest ht (by omega) hd
  | .some v, hv, fuel, d, lvb, rest, hfuel, hd => by
    simp only [inFrag] at hv
    simpa [layItem, erase] using read_item v hv fuel d lvb rest (by simpa [layItem] using hfuel) hd
  | .newtypeStruct v, hv, fuel, d, lvb, rest, hfuel, hd => by
    simp only [inFrag] at hv
    simpa [layItem, erase] using read_item v hv fuel d lvb rest (by simpa [layItem] using hfuel) hd
  | .newtypeVariant n v, hv, fuel, d, lvb, rest, hfuel, hd => by
    simp only [inFrag, Bool.and_eq_true] at hv
    have hh := valHead_layVal v hv.2 (d + 1) lvb
    have hcol : col (d + 1) = col d + 2 := by simp [col]; omega
    simp only [layItem, erase, List.length_append, List.length_cons, List.length_nil, List.cons_append] at hfuel ⊢
    obtain ⟨f', rfl⟩ : ∃ f', fuel = f' + 2 := ⟨fuel - 2, by omega⟩
    have ih := read_val v hv.2 f' (d + 1) lvb (n.length + 1) rest (by omega) (hd.mono (by omega))
    rw [show n ++ [':'] ++ (layVal (d + 1) lvb v).1 = n ++ ':' :: (layVal (d + 1) lvb v).1 by simp]
    rw [show f' + 2 = f' + 1 + 1 from rfl, blockNode_key (f' + 1) (col d + 1) none (col d + 2) _ hv.1 hh (by omega), ← hcol,
      blockMap_cons f' (col (d + 1)) _ hv.1 hh, ih]
    obtain ⟨f'', rfl⟩ : ∃ f'', f' = f'' + 1 := ⟨f' - 1, by omega⟩
    simp [blockMap_end f'' (col (d + 1)) (hd.mono (by omega)), hasDupKey]
  | .seq xs, hv, fuel, d, lvb, rest, hfuel, hd => by
    simp only [inFrag] at hv
    cases xs with
    | nil =>
      obtain ⟨f', rfl⟩ : ∃ f', fuel = f' + 1 := ⟨fuel - 1, by omega⟩
      simpa [layItem, laySeqItem, erase, eraseList] using blockNode_emptySeq f' (col d + 1) none false (col d + 2) rest (by omega)
    | cons x xs' =>
      have hx : inFrag w x = true := by simp only [inFragList, Bool.and_eq_true] at hv; exact hv.1
      have hh := itemHead_layItem x hx (d + 1) lvb
      have hcol : col (d + 1) = col d + 2 := by simp [col]; omega
      simp only [layItem, laySeqItem, erase] at hfuel ⊢
      obtain ⟨f', rfl⟩ : ∃ f', fuel = f' + 1 := ⟨fuel - 1, by omega⟩
      have hi := read_items (x :: xs') hv f' (d + 1) lvb rest
        (by simp only [layItems, mu, mu_append, List.length_append, List.length_cons, List.length_nil] at hfuel ⊢; omega)
        (hd.mono (by omega))
      simp only [layItems, List.cons_append, List.nil_append, hcol] at hi
      simp only [List.cons_append, List.nil_append, List.append_assoc]
      rw [blockNode_dash f' (col d + 1) none (col d + 2) _ hh (by omega)]
      try simp only [List.append_assoc] at hi
      rw [hi]
      rfl
  | .tuple xs, hv, fuel, d, lvb, rest, hfuel, hd => by
    simp only [inFrag] at hv
    cases xs with
    | nil =>
      obtain ⟨f', rfl⟩ : ∃ f', fuel = f' + 1 := ⟨fuel - 1, by omega⟩
      simpa [layItem, laySeqItem, erase, eraseList] using blockNode_emptySeq f' (col d + 1) none false (col d + 2) rest (by omega)
    | cons x xs' =>
      have hx : inFrag w x = true := by simp only [inFragList, Bool.and_eq_true] at hv; exact hv.1
      have hh := itemHead_layItem x hx (d + 1) lvb
      have hcol : col (d + 1) = col d + 2 := by simp [col]; omega
      simp only [layItem, laySeqItem, erase] at hfuel ⊢
      obtain ⟨f', rfl⟩ : ∃ f', fuel = f' + 1 := ⟨fuel - 1, by omega⟩
      have hi := read_items (x :: xs') hv f' (d + 1) lvb rest
        (by simp only [layItems, mu, mu_append, List.length_append, List.length_cons, List.length_nil] at hfuel ⊢; omega)
        (hd.mono (by omega))
      simp only [layItems, List.cons_append, List.nil_append, hcol] at hi
      simp only [List.cons_append, List.nil_append, List.append_assoc]
      rw [blockNode_dash f' (col d + 1) none (col d + 2) _ hh (by omega)]
      try simp only [List.append_assoc] at hi
      rw [hi]
      rfl
  | .map known es, hv, fuel, d, lvb, rest, hfuel, hd => by
    simp only [inFrag, Bool.and_eq_true, decide_eq_true_eq] at hv
    cases es with
    | nil =>
      obtain ⟨f', rfl⟩ : ∃ f', fuel = f' + 1 := ⟨fuel - 1, by omega⟩
      simpa [layItem, layMapItem, erase, eraseEntries] using blockNode_emptyMap f' (col d + 1) none false (col d + 2) rest (by omega)
    | cons e es' =>
      obtain ⟨k, v⟩ := e
      have hdup := hasDupKey_erase ((k, v) :: es') hv.1 hv.2
      have hent := hv.1
      cases k <;> simp only [inFragEntries, Bool.and_eq_true, Bool.false_and, Bool.false_eq_true, false_and] at hent
      rename_i kt
      have hh := valHead_layVal v hent.1.2 (d + 1) false
      have hcol : col (d + 1) = col d + 2 := by simp [col]; omega
      simp only [layItem, layMapItem, keyOf, Option.getD_some, erase] at hfuel ⊢
      obtain ⟨f', rfl⟩ : ∃ f', fuel = f' + 1 := ⟨fuel - 1, by omega⟩
      have hi := read_entries ((SVal.str kt, v) :: es') hv.1 f' (d + 1) false rest
        (by simp only [layEntries, keyOf, Option.getD_some, mu, mu_append, List.length_append, List.length_cons, List.length_nil] at hfuel ⊢; omega)
        (hd.mono (by omega))
      simp only [layEntries, keyOf, Option.getD_some, List.cons_append, List.append_assoc, List.singleton_append, List.nil_append, hcol] at hi
      simp only [List.cons_append, List.nil_append, List.append_assoc, List.singleton_append]
      rw [blockNode_key f' (col d + 1) none (col d + 2) _ hent.1.1 hh (by omega), hi]
      simp [hdup]
  | .tupleStruct _, hv, _, _, _, _, _, _ => by simp [inFrag] at hv
  | .tupleVariant _ _, hv, _, _, _, _, _, _ => by simp [inFrag] at hv
  | .structVariant _ _, hv, _, _, _, _, _, _ => by simp [inFrag] at hv
  | .flowSeq _, hv, _, _, _, _, _, _ => by simp [inFrag] at hv
  | .flowMap _, hv, _, _, _, _, _, _ => by simp [inFrag] at hv
  | .commented _ _, hv, _, _, _, _, _, _ => by simp [inFrag] at hv
  | .spaceAfter _, hv, _, _, _, _, _, _ => by simp [inFrag] at hv
  | .litStr _, hv, _, _, _, _, _, _ => by simp [inFrag] at hv
  | .foldStr _, hv, _, _, _, _, _, _ => by simp [inFrag] at hv
/-- the items of a block sequence at depth `d` -/
theorem read_items {w : Nat} : ∀ (xs : List SVal), inFragList w xs = true → ∀ (fuel d : Nat) (lvb : Bool) (rest : List Line),
    fuel ≥ 2 * mu (layItems d lvb xs).1 + 1 → DedLt (col d) rest →
    blockSeq fuel (col d) ((layItems d lvb xs).1 ++ rest) = some (eraseList xs, rest)
  | [], _, fuel, d, lvb, rest, hfuel, hd => by
    obtain ⟨f', rfl⟩ : ∃ f', fuel = f' + 1 := ⟨fuel - 1, by omega⟩
    simpa [layItems, eraseList] using blockSeq_end f' (col d) hd
  | x :: xs, hv, fuel, d, lvb, rest, hfuel, hd => by
    simp only [inFragList, Bool.and_eq_true] at hv
    have hh := itemHead_layItem x hv.1 d lvb
    simp only [layItems, mu, mu_append, List.length_append, List.length_cons, List.length_nil] at hfuel
    obtain ⟨f', rfl⟩ : ∃ f', fuel = f' + 1 := ⟨fuel - 1, by omega⟩
    have hrest : DedLt (col d + 1) ((layItems d (layItem d lvb x).2.2 xs).1 ++ rest) := by
      cases xs with
      | nil => simpa [layItems] using hd.mono (by omega)
      | cons y ys =>
        simp only [layItems, List.cons_append]
        exact DedLt.cons _ _ (by simp) (notSkippable_of_head (by decide))
    have h1 := read_item x hv.1 f' d lvb ((layItems d (layItem d lvb x).2.2 xs).1 ++ rest) (by omega) hrest
    have h2 := read_items xs hv.2 f' d (layItem d lvb x).2.2 rest (by omega) hd
    simp only [layItems, List.cons_append, List.append_assoc, List.singleton_append, List.nil_append, eraseList]
    simp only [List.cons_append, List.append_assoc] at h1
    rw [blockSeq_cons f' (col d) _ hh]
    simp only [h1, h2]
    rfl
/-- the entries of a block mapping at depth `m` -/
theorem read_entries {w : Nat} : ∀ (es : List (SVal × SVal)), inFragEntries w es = true → ∀ (fuel m : Nat) (lvb : Bool) (rest : List Line),
    fuel ≥ 2 * mu (layEntries m lvb es).1 + 1 → DedLt (col m) rest →
    blockMap fuel (col m) ((layEntries m lvb es).1 ++ rest) = some (eraseEntries es, rest)
  | [], _, fuel, m, lvb, rest, hfuel, hd => by
    obtain ⟨f', rfl⟩ : ∃ f', fuel = f' + 1 := ⟨fuel - 1, by omega⟩
    simpa [layEntries, eraseEntries] using blockMap_end f' (col m) hd
  | (k, v) :: es, hv, fuel, m, lvb, rest, hfuel, hd => by
    cases k <;> simp only [inFragEntries, Bool.and_eq_true, Bool.false_and, Bool.false_eq_true, false_and] at hv
    rename_i kt
    have hh := valHead_layVal v hv.1.2 m lvb
    simp only [layEntries, keyOf, Option.getD_some, mu, mu_append, List.length_append, List.length_cons, List.length_nil] at hfuel
    obtain ⟨f', rfl⟩ : ∃ f', fuel = f' + 1 := ⟨fuel - 1, by omega⟩
    have hrest : DedLt (col m + 1) ((layEntries m (layVal m lvb v).2.2 es).1 ++ rest) := by
      cases es with
      | nil => simpa [layEntries] using hd.mono (by omega)
      | cons p ps =>
        obtain ⟨k', v'⟩ := p
        have hp := hv.2
        cases k' <;> simp only [inFragEntries, Bool.and_eq_true, Bool.false_and, Bool.false_eq_true, false_and] at hp
        rename_i kt'
        simp only [layEntries, keyOf, Option.getD_some, List.cons_append, List.append_assoc, List.singleton_append]
        exact DedLt.cons _ _ (by simp) (key_line_notSkippable hp.1.1 _ _)
    have h1 := read_val v hv.1.2 f' m lvb (kt.length + 1) ((layEntries m (layVal m lvb v).2.2 es).1 ++ rest) (by omega) hrest
    have h2 := read_entries es hv.2 f' m (layVal m lvb v).2.2 rest (by omega) hd
    simp only [layEntries, keyOf, Option.getD_some, List.cons_append, List.append_assoc, List.singleton_append, List.nil_append, eraseEntries, erase]
    try simp only [List.append_assoc] at h1
    rw [blockMap_cons f' (col m) _ hv.1.1 hh]
    simp only [h1, h2]
    rfl
end

end SaphyrVerif.Emit
