import SaphyrVerif.Lemmas.C11_Typed2Pump
/-!
Typed multi-document theorems (C11), continued — part 2: document boundaries of a pump with the optional
per-document enforcer, and ONE document that such a pump delivers completely (`DocServe`).

* `BoundaryB L ob q`: the per-document state of the pump is the initial one.  The `DocumentStart` marker then resets
  the enforcer and is counted as the first event of the new document (`startEnf`,
  `Props.C07.perdoc_position_independent`): the pump is in the state `startB` (`StartB`), which does
  not depend on anything the earlier documents did.
* `DocServe L ob d evs`: from EVERY such start state the pump delivers exactly the events `evs` of the document
  and then stands in front of its `DocumentEnd` marker, which it can still pass, with a silent ratio check
  (`AtEndB`, `TrailOk`).  For `ob = none` this is `C11T.DocOk` (`docServe_none`).
* the recovery `skip_to_next_document` from anywhere inside the document ends at the next document with the
  enforcer reset by `begin_document_at` (`skip_from_docB`).
-/
namespace SaphyrVerif.Lemmas.C11B
open SaphyrVerif SaphyrVerif.Scalars SaphyrVerif.Pump SaphyrVerif.De SaphyrVerif.Spec SaphyrVerif.Budget SaphyrVerif.Entry
open SaphyrVerif.Lemmas.C02 (Exhausted Good clr noFoldedIndent)
open SaphyrVerif.Lemmas.C11 (Boundary atDocStart atDocEnd Doc docsItems)
open SaphyrVerif.Lemmas.C11T (RunP J skipNeutral skipLoop_neutral itemsOf_neutral DocOk peek_congr)
open SaphyrVerif.Lemmas.Frame (Ctx FSim RF pos dep)

/-- the enforcer (if any) accepts the `DocumentEnd` marker of the document — the last event charged to it: the event
count is still within `max_events`, and the alias/anchor ratio check that the per-document policy makes at the
`DocumentEnd` (`BudgetEnforcer::ratio_breach`) is silent -/
def TrailOk (b : Option Enf) : Prop :=
  ∀ E, b = some E → E.report.events + 1 ≤ E.lim.maxEvents ∧ E.ratioBreach = none

/-- `finish()` has nothing to report -/
def FinOk (p : Pump) : Prop := (Pump.finish p).1 = none

/-- a document boundary of a pump with the optional per-document enforcer `ob` -/
structure BoundaryB (L : AliasLimits) (ob : Option Limits) (q : Pump) : Prop where
  bud : BudStat ob q.budget
  rip : q.recursiveInProgress = []
  inj : q.inject = []
  rs : q.recStack = []
  anc : q.anchors = []
  per : q.perAnchor = []
  tot : q.totalReplayed = 0
  lim : q.limits = L
  sade : q.stopAtDocEnd = false

theorem boundaryB_none {L : AliasLimits} {q : Pump} : BoundaryB L none q ↔ Boundary L q := by
  constructor
  · intro h
    have hb : q.budget = none := by
      have := h.bud
      cases hq : q.budget with
      | none => rfl
      | some E => rw [hq] at this; exact this.elim
    exact ⟨hb, h.rip, h.inj, h.rs, h.anc, h.per, h.tot, h.lim, h.sade⟩
  · intro h
    exact ⟨(by rw [h.bud]; trivial), h.rip, h.inj, h.rs, h.anc, h.per, h.tot, h.lim, h.sade⟩

/-- the state right after a `DocumentStart` marker -/
structure StartB (L : AliasLimits) (ob : Option Limits) (ls : Loc) (q : Pump) : Prop where
  max1 : ∀ lim, ob = some lim → 1 ≤ lim.maxEvents
  bud : q.budget = freshBud ob
  look : q.look = none
  loc : q.lastLoc = ls
  sde : q.seenDocEnd = false
  rip : q.recursiveInProgress = []
  inj : q.inject = []
  rs : q.recStack = []
  anc : q.anchors = []
  per : q.perAnchor = []
  tot : q.totalReplayed = 0
  lim : q.limits = L
  sade : q.stopAtDocEnd = false

/-- the pump after a `DocumentStart` marker met at a document boundary -/
def startB (ob : Option Limits) (q : Pump) (ls : Loc) : Pump :=
  { q.resetDocumentState with lastLoc := ls, budget := freshBud ob }

theorem startB_start {L : AliasLimits} {ob : Option Limits} {q : Pump} (h : BoundaryB L ob q) (hl : q.look = none)
    (ls : Loc) : StartB L ob ls (startB ob q ls) ∧ (startB ob q ls).producedAny = q.producedAny := by
  refine ⟨⟨budStat_max1 h.bud, rfl, hl, rfl, rfl, h.rip, rfl, rfl, rfl, rfl, rfl, h.lim, h.sade⟩, rfl⟩

theorem StartB.statB {L : AliasLimits} {ob : Option Limits} {ls : Loc} {q : Pump} (h : StartB L ob ls q) :
    StatB L ob q :=
  ⟨by rw [h.bud]; exact budStat_fresh ob h.max1, h.rip, h.lim, h.sade⟩

theorem nextImpl_inject_nil {p : Pump} (h : p.inject = []) (inp : List RawItem) : nextImpl p inp = parserLoop p inp := by
  cases p
  simp only at h
  subst h
  simp [nextImpl, serveInject]

/-- at a document boundary the `DocumentStart` marker leads to the start state -/
theorem step_docStartB {L : AliasLimits} {ob : Option Limits} {q : Pump} (h : BoundaryB L ob q) (ex : Bool) (ls : Loc)
    (X : List RawItem) : nextImpl q (.ev (.docStart ex) ls :: X) = nextImpl (startB ob q ls) X := by
  rw [nextImpl_inject_nil h.inj, nextImpl_inject_nil (by rfl : (startB ob q ls).inject = [])]
  have hb := h.bud
  cases ob with
  | none =>
    cases hq : q.budget with
    | some E => rw [hq] at hb; exact hb.elim
    | none =>
      simp only [parserLoop, hq]
      congr 1
  | some lim =>
    cases hq : q.budget with
    | none => rw [hq] at hb; exact hb.elim
    | some E =>
      rw [hq] at hb
      have ho := observe_docStart_stat hb ex
      simp only [parserLoop, hq, ho, Except.map]
      congr 1

/-! ### the end of a document -/

/-- the pump stands in front of the document-end marker of the current document (`R` = that marker and the rest
of the stream), no replay is pending, and the enforcer (if any) can pass that marker and has a silent ratio check -/
def AtEndB (L : AliasLimits) (ob : Option Limits) (R : List RawItem) (p : Pump) (inp : List RawItem) : Prop :=
  inp = R ∧ (∀ fr ∈ p.inject, Exhausted p.anchors fr) ∧ p.producedAny = true ∧ StatB L ob p ∧ TrailOk p.budget

/-- one more marker event counted -/
def bumpEvents (E : Enf) : Enf := { E with report := { E.report with events := E.report.events + 1 } }

theorem observe_docEnd (E : Enf) (he : E.report.events + 1 ≤ E.lim.maxEvents) (hr : E.ratioBreach = none) :
    E.observe .docEnd = .ok (bumpEvents E) := by
  have : ¬ (E.report.events + 1 > E.lim.maxEvents) := by omega
  rw [Lemmas.C07.observe_plain E rfl rfl]
  simp only [Enf.observeCounted, Lemmas.C07.ratioBreach_events, hr, if_neg this]
  cases hp : E.perDocument <;> simp [bumpEvents, hp]

/-- stream framing is not charged under the per-document policy -/
theorem observe_frame_stat {lim : Limits} {E : Enf} (h : EnfStat lim E) {ev : Raw}
    (hf : Lemmas.C07.isStreamFrame ev = true) : E.observe ev = .ok E :=
  Lemmas.C07.observe_frame_pd h.2.1 hf

theorem bumpEvents_stat {lim : Limits} {E : Enf} (h : EnfStat lim E) : EnfStat lim (bumpEvents E) := h

/-- per-document policy: `finalize` is silent (the ratio was judged at the `DocumentEnd`) -/
theorem bumpEvents_finalize {lim : Limits} {E : Enf} (h : EnfStat lim E) : (bumpEvents E).finalize.2 = none :=
  Lemmas.C07.finalize_snd_pd _ h.2.1

/-- the pump after the `DocumentEnd` marker -/
def endB (p : Pump) (le : Loc) : Pump :=
  { (clr p).resetDocumentState with seenDocEnd := true, lastLoc := le, budget := p.budget.map bumpEvents }

theorem step_docEndB {L : AliasLimits} {ob : Option Limits} {R : List RawItem} {p : Pump} {inp : List RawItem}
    (h : AtEndB L ob R p inp) (le : Loc) (X : List RawItem) :
    nextImpl p (.ev .docEnd le :: X) = nextImpl (endB p le) X ∧ BoundaryB L ob (endB p le) ∧
      (endB p le).producedAny = true ∧ FinOk (endB p le) ∧ (endB p le).look = p.look := by
  obtain ⟨-, hinj, hpa, hst, htr⟩ := h
  have hn : nextImpl p (.ev .docEnd le :: X) = parserLoop (clr p) (.ev .docEnd le :: X) := by
    simp only [nextImpl, Lemmas.C02.serveInject_exhausted p p.inject hinj]
  rw [hn, nextImpl_inject_nil (by rfl : (endB p le).inject = [])]
  have hsade : p.stopAtDocEnd = false := hst.sade
  have hb := hst.bud
  refine ⟨?_, ?_, hpa, ?_, rfl⟩
  · cases hq : p.budget with
    | none =>
      simp only [parserLoop, clr, hq]
      simp [Pump.resetDocumentState, hsade, endB, clr, hq]
    | some E =>
      have ho := observe_docEnd E (by have := (htr E hq).1; omega) (htr E hq).2
      simp only [parserLoop, clr, hq, ho, Except.map]
      simp [Pump.resetDocumentState, hsade, endB, clr, hq]
  · refine ⟨?_, hst.rip, rfl, rfl, rfl, rfl, rfl, hst.lim, hsade⟩
    show BudStat ob (p.budget.map bumpEvents)
    cases ob <;> cases hq : p.budget <;> rw [hq] at hb <;> simp only [BudStat] at hb <;> try exact hb.elim
    · trivial
    · exact bumpEvents_stat hb
  · show (Pump.finish (endB p le)).1 = none
    simp only [Pump.finish]
    have hbud : (endB p le).budget = p.budget.map bumpEvents := rfl
    cases hq : p.budget with
    | none => simp [hbud, hq]
    | some E0 =>
      have h2 : (bumpEvents E0).finalize.2 = none := by
        cases ob with
        | none => rw [hq] at hb; exact hb.elim
        | some lim0 => rw [hq] at hb; exact bumpEvents_finalize hb
      simp only [hbud, hq, Option.map_some, h2, Option.map_none]

/-! ### recovery from inside a document -/

/-- `skip_to_next_document` from anywhere inside a document of a stream -/
theorem skip_from_docB {L : AliasLimits} {ob : Option Limits} {le : Loc} {X : List RawItem} {q3 : Pump}
    {inq3 : List RawItem} (hst : StatB L ob q3) (hJ : J (.ev .docEnd le :: X) inq3) :
    (∀ l1, X = [.ev .streamEnd l1] → (skipToNextDocument q3 inq3).1 = false) ∧
    (∀ ex ls Y, X = .ev (.docStart ex) ls :: Y → ∃ q4, skipToNextDocument q3 inq3 = (true, q4, Y) ∧
      StartB L ob ls q4 ∧ q4.producedAny = false) := by
  obtain ⟨B, rfl, hB⟩ := hJ
  refine ⟨?_, ?_⟩
  · intro l1 hX
    subst hX
    unfold skipToNextDocument
    obtain ⟨l, hl⟩ := skipLoop_neutral B hB (.ev .docEnd le :: [.ev .streamEnd l1])
      { q3 with look := none, inject := [], recStack := [] }
    rw [hl]
    simp [skipLoop]
  · intro ex ls Y hX
    subst hX
    unfold skipToNextDocument
    obtain ⟨l, hl⟩ := skipLoop_neutral B hB (.ev .docEnd le :: .ev (.docStart ex) ls :: Y)
      { q3 with look := none, inject := [], recStack := [] }
    rw [hl]
    have hsb : skipBudget q3.budget (.docStart ex) = some (freshBud ob) := skipBudget_stat hst.bud ex
    simp only [skipLoop, Pump.resetDocumentState, hsb]
    refine ⟨_, rfl, ?_, rfl⟩
    exact ⟨budStat_max1 hst.bud, rfl, rfl, rfl, rfl, hst.rip, rfl, rfl, rfl, rfl, rfl, hst.lim, hst.sade⟩

/-- a start state reached by the recovery is what the `DocumentStart` marker makes of itself: the marker can be
put back in front of it -/
theorem start_readd {L : AliasLimits} {ob : Option Limits} {ls : Loc} {q : Pump} (h : StartB L ob ls q) :
    BoundaryB L ob q ∧ startB ob q ls = q := by
  constructor
  · exact ⟨by rw [h.bud]; exact budStat_fresh ob h.max1, h.rip, h.inj, h.rs, h.anc, h.per, h.tot, h.lim, h.sade⟩
  · obtain ⟨h0, h1, h2, h3, h4, h5, h6, h7, h8, h9, h10, h11, h12⟩ := h
    cases q
    simp_all [startB, Pump.resetDocumentState]

/-! ### one document that the pump delivers completely -/

/-- from every start state the pump (with its enforcer, if any) delivers the events `evs` of the document and
stands in front of its end marker, able to pass it -/
structure DocServe (L : AliasLimits) (ob : Option Limits) (d : Doc) (evs : List Ev) : Prop where
  ok : DocOk L d.1 evs
  run : ∀ (q1 : Pump) (R : List RawItem), StartB L ob d.2.2.1 q1 →
    RunP (AtEndB L ob R) q1 (itemsOf d.1 ++ R) evs

/-- without an enforcer every good document is served -/
theorem docServe_none {L : AliasLimits} {d : Doc} {evs : List Ev} (h : DocOk L d.1 evs) : DocServe L none d evs := by
  refine ⟨h, fun q1 R hq1 => ?_⟩
  have hb : Boundary L q1 :=
    ⟨hq1.bud, hq1.rip, hq1.inj, hq1.rs, hq1.anc, hq1.per, hq1.tot, hq1.lim, hq1.sade⟩
  have hrun := Lemmas.C11T.doc_runP h hb R
  -- the end states of the two formulations agree
  have hconv : ∀ {p inp es}, RunP (Lemmas.C11T.AtEnd L R) p inp es → StatB L none p →
      RunP (AtEndB L none R) p inp es := by
    intro p inp es hr
    induction hr with
    | done hk =>
      intro hs
      obtain ⟨rfl, hg, hp⟩ := hk
      refine RunP.done ⟨rfl, hg.inj, hp, hs, ?_⟩
      intro E hE
      rw [hg.bud] at hE
      cases hE
    | @ev p inp e p' inp' es hn _ ih =>
      intro hs
      have hs' : StatB L none p' := by
        have := nextImpl_statB hs inp
        rw [hn] at this; exact this
      exact RunP.ev hn (ih hs')
  exact hconv hrun hq1.statB

/-- the frame of a served document -/
def docCtxB (L : AliasLimits) (ob : Option Limits) (R : List RawItem) (evs : List Ev) : Ctx :=
  ⟨evs, none, LiveInvB L ob R (AtEndB L ob R)⟩

theorem docCtxB_ok {L : AliasLimits} {ob : Option Limits} {t : LNode} {evs : List Ev} (h : DocOk L t evs)
    (R : List RawItem) : (docCtxB L ob R evs).Ok := by
  obtain ⟨n, rfl⟩ := h.tree
  refine ⟨(Lemmas.C05.eflatten_bal n).1, (Lemmas.C05.eflatten_bal n).2, ?_, ?_⟩
  · intro q h0 h1
    exact Lemmas.C05.eflatten_prefix_pos n q h0 h1
  · exact liveInvB_step (fun p inp hk => hk.1)

/-- the live cursor at the start of a served document: its first `peek` delivers the first event of the document
and leaves a cursor that serves the document (in the sense of the document's frame) -/
theorem doc_first_peekB {L : AliasLimits} {ob : Option Limits} {d : Doc} {evs : List Ev} (h : DocServe L ob d evs)
    {q1 : Pump} (hq1 : StartB L ob d.2.2.1 q1) (R : List RawItem) :
    ∃ e0 tl d1, evs = e0 :: tl ∧ Lemmas.C05.Ev.isOpen e0 = true ∧ (∀ v tg rt st a l, e0 = .scalar v tg rt st a l → tl = []) ∧
      Cur.peek (.live q1 (itemsOf d.1 ++ R)) = .ok (some e0) d1 ∧
      (docCtxB L ob R evs).Inv d1 evs := by
  have hrun := h.run q1 R hq1
  obtain ⟨n, hn⟩ := h.ok.tree
  obtain ⟨e0, tl, hcons, hopen, -⟩ := Lemmas.C05.eflatten_cons n
  rw [← hn] at hcons
  have hI : LiveInvB L ob R (AtEndB L ob R) (.live q1 (itemsOf d.1 ++ R)) evs :=
    ⟨_, _, rfl, hq1.statB, ⟨itemsOf d.1, rfl, itemsOf_neutral d.1⟩, .inl ⟨hq1.look, hrun⟩⟩
  rw [hcons] at hI
  obtain ⟨⟨d1, hp, hI1⟩, -⟩ := liveInvB_step (fun p inp hk => hk.1) _ _ _ hI
  refine ⟨e0, tl, d1, hcons, hopen, ?_, hp, by rw [hcons]; exact hI1⟩
  intro v tg rt st a l he
  subst he
  rw [hn] at hcons
  cases n <;> simp [eflatten] at hcons
  exact hcons.2

/-- a cursor that has served the whole document is a live cursor in front of the document-end marker; the loops
cannot tell it from the cursor just after that marker, which is at a document boundary -/
theorem doc_endB {L : AliasLimits} {ob : Option Limits} {le : Loc} {X : List RawItem} {d : Cur}
    (h : LiveInvB L ob (.ev .docEnd le :: X) (AtEndB L ob (.ev .docEnd le :: X)) d []) :
    ∃ p2 q2, d = .live p2 (.ev .docEnd le :: X) ∧ BoundaryB L ob q2 ∧ q2.look = none ∧ q2.producedAny = true ∧
      FinOk q2 ∧ Cur.peek d = Cur.peek (.live q2 X) := by
  obtain ⟨p2, inq, rfl, hst, hl, hk⟩ := liveInvB_nil h
  have hinq : inq = .ev .docEnd le :: X := hk.1
  subst hinq
  obtain ⟨hn, hb, hpa, hfin, hlook⟩ := step_docEndB hk le X
  exact ⟨p2, endB p2 le, rfl, hb, hlook.trans hl, hpa, hfin, peek_congr hl (hlook.trans hl) hn⟩

end SaphyrVerif.Lemmas.C11B
