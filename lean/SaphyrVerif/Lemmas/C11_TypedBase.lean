import SaphyrVerif.Lemmas.C05_Weak
import SaphyrVerif.Lemmas.CurSim
/-!
Typed multi-document theorems (C11), part 1: the *frame* relation.

A replay cursor over the events `buf` of ONE document (a tree flattening) is compared with an arbitrary
cursor `c'` (in the application: the live cursor in the middle of a multi-document stream) that serves the
events of `buf` — and then whatever follows: nothing is assumed about `c'` once `buf` is exhausted.
As long as the typed deserializer, run on the replay cursor, only touches its cursor at positions strictly
inside `buf`, it cannot tell the two cursors apart (up to locations in error payloads, exactly as in
`Lemmas/CurSim.lean`).  That it stays inside is the nesting-depth invariant of `Lemmas/C05_Weak*.lean`
(no call moves its cursor below the nesting depth it started at), used as a black box on the replay side.
-/
namespace SaphyrVerif.Lemmas.Frame
open SaphyrVerif SaphyrVerif.Scalars SaphyrVerif.Pump SaphyrVerif.De
open SaphyrVerif.Lemmas.C05 (bal Floor depthAt Above Stays Ev.delta)

/-- the frame: the events of one document, the reference location of the replay cursor over them, and
the invariant that describes the other cursor (`Inv d l` = "`d` serves `l`, then something") -/
structure Ctx where
  buf : List Ev
  ref : Option Loc
  Inv : Cur → List Ev → Prop

/-- `buf` is balanced, never dips below its start, is strictly deeper inside (= it is the flattening of one
node), and `Inv` is closed under `peek` / `next` while events of `buf` remain -/
structure Ctx.Ok (K : Ctx) : Prop where
  bal0 : bal K.buf = 0
  floor : Floor 0 K.buf
  inner : ∀ q, 0 < q → q < K.buf.length → 1 ≤ depthAt K.buf q
  step : ∀ d e l, K.Inv d (e :: l) →
    (∃ d1, d.peek = .ok (some e) d1 ∧ K.Inv d1 (e :: l)) ∧ (∃ d2, d.next = .ok (some e) d2 ∧ K.Inv d2 l)

/-- index of a replay cursor -/
def pos : Cur → Nat
  | .replay _ i _ => i
  | .live .. => 0

/-- nesting depth of the frame's buffer at the cursor -/
def dep (K : Ctx) (c : Cur) : Int := depthAt K.buf (pos c)

/-- `c` is the replay cursor over the frame's buffer at some index `≤ buf.length`, and `c'` serves what is
left of the buffer from there -/
def FSim (K : Ctx) (c c' : Cur) : Prop :=
  K.Ok ∧ c = .replay K.buf (pos c) K.ref ∧ pos c ≤ K.buf.length ∧ K.Inv c' (K.buf.drop (pos c))

variable {K : Ctx} {c c' d d' : Cur}

theorem FSim.ok (h : FSim K c c') : K.Ok := h.1
theorem FSim.eq (h : FSim K c c') : c = .replay K.buf (pos c) K.ref := h.2.1
theorem FSim.le (h : FSim K c c') : pos c ≤ K.buf.length := h.2.2.1
theorem FSim.inv (h : FSim K c c') : K.Inv c' (K.buf.drop (pos c)) := h.2.2.2

theorem FSim.mk' (hK : K.Ok) {i : Nat} (hi : i ≤ K.buf.length) (hI : K.Inv c' (K.buf.drop i)) :
    FSim K (.replay K.buf i K.ref) c' := ⟨hK, rfl, hi, hI⟩

theorem depthAt_of_length_le {buf : List Ev} {q : Nat} (h : buf.length ≤ q) : depthAt buf q = bal buf := by
  unfold depthAt
  rw [List.take_of_length_le h]

theorem FSim.dep_nonneg (h : FSim K c c') : 0 ≤ dep K c := h.ok.floor (pos c)

/-- deeper than the start means strictly inside -/
theorem FSim.inside (h : FSim K c c') (hd : 1 ≤ dep K c) : pos c < K.buf.length := by
  rcases Nat.lt_or_ge (pos c) K.buf.length with h1 | h1
  · exact h1
  · have : dep K c = 0 := by
      unfold dep
      rw [depthAt_of_length_le h1, h.ok.bal0]
    omega

/-- strictly inside and not at the very start means deeper than the start -/
theorem FSim.dep_pos (h : FSim K c c') (h0 : 0 < pos c) (h1 : pos c < K.buf.length) : 1 ≤ dep K c :=
  h.ok.inner _ h0 h1

theorem FSim.peek (h : FSim K c c') (hin : pos c < K.buf.length) :
    ∃ e d', K.buf[pos c]? = some e ∧ c.peek = .ok (some e) c ∧ c'.peek = .ok (some e) d' ∧ FSim K c d' := by
  obtain ⟨hK, heq, hle, hI⟩ := h
  have hd : K.buf.drop (pos c) = K.buf[pos c] :: K.buf.drop (pos c + 1) := List.drop_eq_getElem_cons hin
  rw [hd] at hI
  obtain ⟨⟨d1, hp, hI1⟩, -⟩ := hK.step _ _ _ hI
  refine ⟨K.buf[pos c], d1, List.getElem?_eq_getElem hin, ?_, hp, hK, heq, hle, by rw [hd]; exact hI1⟩
  conv => lhs; rw [heq]
  simp only [Cur.peek, List.getElem?_eq_getElem hin]
  rw [← heq]

theorem FSim.next (h : FSim K c c') (hin : pos c < K.buf.length) :
    ∃ e d d', K.buf[pos c]? = some e ∧ c.next = .ok (some e) d ∧ c'.next = .ok (some e) d' ∧ FSim K d d' ∧
      pos d = pos c + 1 ∧ dep K d = dep K c + Ev.delta e := by
  obtain ⟨hK, heq, hle, hI⟩ := h
  have hd : K.buf.drop (pos c) = K.buf[pos c] :: K.buf.drop (pos c + 1) := List.drop_eq_getElem_cons hin
  rw [hd] at hI
  obtain ⟨-, ⟨d2, hn, hI2⟩⟩ := hK.step _ _ _ hI
  have hg : K.buf[pos c]? = some K.buf[pos c] := List.getElem?_eq_getElem hin
  refine ⟨K.buf[pos c], .replay K.buf (pos c + 1) K.ref, d2, hg, ?_, hn, ⟨hK, rfl, (by show pos c + 1 ≤ K.buf.length; omega), hI2⟩,
    rfl, ?_⟩
  · conv => lhs; rw [heq]
    simp only [Cur.next, hg]
  · show depthAt K.buf (pos c + 1) = depthAt K.buf (pos c) + Ev.delta K.buf[pos c]
    exact Lemmas.C05.depthAt_succ' hg

/-- the depth facts of `Lemmas/C05_Weak*` transported to the frame: a call that `Stays` within `k` levels
of its start -/
theorem FSim.weak {k : Int} (h : FSim K c c') (hw : ∀ i, c = .replay K.buf i K.ref → Stays K.buf K.ref i k d) :
    pos c ≤ pos d ∧ dep K c - k ≤ dep K d := by
  obtain ⟨j, hd, hij, ha⟩ := hw (pos c) h.eq
  subst hd
  exact ⟨hij, ha.right hij⟩

/-- the same for the calls that leave the cursor where it is -/
theorem FSim.weak_eq (h : FSim K c c') (hw : ∀ i, c = .replay K.buf i K.ref → d = .replay K.buf i K.ref) :
    pos c ≤ pos d ∧ dep K c - 0 ≤ dep K d := by
  have := hw (pos c) h.eq
  subst this
  simp [dep, pos]

/-! ### results -/

/-- two results agree modulo locations: both succeed with related values, or both fail; in both cases the
returned cursors are in the frame relation -/
inductive RF (K : Ctx) {α β : Type} (rel : α → β → Prop) : R α → R β → Prop
  | ok {a : α} {b : β} {c c' : Cur} : rel a b → FSim K c c' → RF K rel (.ok a c) (.ok b c')
  | err {e e' : DErr} {c c' : Cur} : FSim K c c' → RF K rel (.err e c) (.err e' c')

theorem RF.fwd_ok {α β : Type} {rel : α → β → Prop} {x : R α} {x' : R β} {a : α} {c : Cur}
    (heq : x = .ok a c) (h : RF K rel x x') : ∃ a' c', x' = .ok a' c' ∧ rel a a' ∧ FSim K c c' := by
  cases h with
  | ok hr hs => cases heq; exact ⟨_, _, rfl, hr, hs⟩
  | err => cases heq

theorem RF.fwd_err {α β : Type} {rel : α → β → Prop} {x : R α} {x' : R β} {e : DErr} {c : Cur}
    (heq : x = .err e c) (h : RF K rel x x') : ∃ e' c', x' = .err e' c' ∧ FSim K c c' := by
  cases h with
  | ok hr hs => cases heq
  | err hs => cases heq; exact ⟨_, _, rfl, hs⟩

theorem RF.mono {α β : Type} {rel rel' : α → β → Prop} {x : R α} {x' : R β} (h : RF K rel x x')
    (hr : ∀ a b, rel a b → rel' a b) : RF K rel' x x' := by
  cases h with
  | ok h1 hs => exact RF.ok (hr _ _ h1) hs
  | err hs => exact RF.err hs

end SaphyrVerif.Lemmas.Frame
