import SaphyrVerif.Lemmas.C17Prepare
/-!
Helper lemmas for C17, part 9: the marker position computed by `crop_window_text` inside a multi-line
window (loop invariant), and the slices of the crate's own window renderer.
-/
namespace SaphyrVerif.Lemmas.C17
open SaphyrVerif SaphyrVerif.Snippet
open SaphyrVerif.Spec.Snippet (isControl sanitizeChar clean takeRows dropRows row visibleLine)

/-- rendered line and crop metadata of one iteration -/
def iterCrop (doCrop : Bool) (l r : Nat) (line : List Char) : List Char × LineCrop :=
  if doCrop then cropLinePure line l r else (line, ⟨0, 0⟩)

/-- the state after one iteration of the loop of `crop_window_text` on the line `pre` (followed by
`T`, which is empty or starts with the line break) -/
def iterState (erow : Nat) (doCrop : Bool) (l r ls le : Nat) (st : CwtState) (pre : List Char) (hadNl : Bool)
    (consumed : Nat) : CwtState :=
  let line := stripCR pre
  let rc := iterCrop doCrop l r line
  let lineStartNew := blen st.out
  let out := st.out ++ rc.1 ++ (if hadNl then ['\n'] else [])
  let st1 : CwtState :=
    if st.row = erow then
      let s0 := min (ls - st.oldPos) (blen line) - rc.2.startByte
      let e0 := min (le - st.oldPos) (blen line) - rc.2.startByte
      let mx := lineStartNew + blen rc.1
      let ns := min (lineStartNew + rc.2.prefixBytes + s0) mx
      let ne := min (lineStartNew + rc.2.prefixBytes + e0) mx
      { st with newStart := ns, newEnd := if ne < ns then ns else ne, rebased := true }
    else st
  { st1 with oldPos := st.oldPos + consumed, row := st.row + 1, out := out }

/-- one iteration, with `nextLine` and `crop_line_by_cols` resolved -/
theorem cwtLoop_iter (w : List Char) (erow : Nat) (doCrop : Bool) (l r ls le : Nat)
    (hw : w.length + 1 ≤ usizeMax) (hlr : l ≤ satAdd r 1)
    (fuel : Nat) (st : CwtState) (p pre T : List Char) (hwp : w = p ++ (pre ++ T)) (hpos : st.oldPos = blen p)
    (hne : pre ++ T ≠ []) (hnp : '\n' ∉ pre) (hT : T = [] ∨ ∃ post, T = '\n' :: post) :
    cwtLoop w erow doCrop l r ls le (fuel + 1) st =
      (if T = [] then .ok (iterState erow doCrop l r ls le st pre false (blen w - st.oldPos))
       else cwtLoop w erow doCrop l r ls le fuel (iterState erow doCrop l r ls le st pre true (blen pre + 1))) := by
  rw [cwtLoop]
  have hlt : st.oldPos < blen w := by
    rw [hwp, hpos, blen_append]
    have := blen_pos_of_ne_nil _ hne
    omega
  rw [if_pos hlt]
  have hlinelen : (stripCR pre).length + 1 ≤ usizeMax := by
    have h1 := stripCR_length_le pre
    have h2 : pre.length ≤ w.length := by rw [hwp]; simp only [List.length_append]; omega
    omega
  have hcrop : renderLine doCrop (stripCR pre) l r = Res.ok (iterCrop doCrop l r (stripCR pre)) := by
    unfold iterCrop renderLine
    cases doCrop with
    | false => rfl
    | true => simp only [if_true]; exact cropLine_eq _ _ _ hlinelen hlr
  rcases nextLine_spec p (pre ++ T) "crop_window_text" with ⟨hnone, hnl⟩ | ⟨pre', post', e, hnopre, hnl⟩
  · -- no line break in the rest: T = []
    have hT0 : T = [] := by
      rcases hT with h | ⟨post, h⟩
      · exact h
      · exfalso; apply hnone; rw [h]; simp
    subst hT0
    rw [List.append_nil] at hwp hnl hnone
    rw [hwp, hpos, hnl]
    simp only [res_bind_ok]
    rw [hcrop]
    simp only [res_bind_ok, if_true, Bool.false_eq_true, if_false, res_pure]
    rw [← hpos]
    rfl
  · -- a line break: T = '\n' :: post, and pre' = pre
    have hTne : T ≠ [] := by
      intro h0; subst h0
      rw [List.append_nil] at e
      apply hnp; rw [e]; simp
    obtain ⟨post, hTp⟩ : ∃ post, T = '\n' :: post := by
      rcases hT with h | h
      · exact absurd h hTne
      · exact h
    have hpre : pre' = pre ∧ post' = post := by
      rw [hTp] at e
      -- both sides split at the first line break
      have key : ∀ (a b c d : List Char), a ++ '\n' :: b = c ++ '\n' :: d → '\n' ∉ a → '\n' ∉ c → a = c ∧ b = d := by
        intro a
        induction a with
        | nil =>
          intro b c d h _ hc
          cases c with
          | nil => simp at h; exact ⟨rfl, h⟩
          | cons x xs =>
            simp at h
            exfalso; apply hc; rw [← h.1]; simp
        | cons y ys ih =>
          intro b c d h ha hc
          cases c with
          | nil =>
            simp at h
            exfalso; apply ha; rw [h.1]; simp
          | cons x xs =>
            simp only [List.cons_append, List.cons.injEq] at h
            obtain ⟨h1, h2⟩ := ih b xs d h.2 (fun hm => ha (List.mem_cons_of_mem _ hm))
              (fun hm => hc (List.mem_cons_of_mem _ hm))
            exact ⟨by rw [h.1, h1], h2⟩
      have := key pre post pre' post' e hnp hnopre
      exact ⟨this.1.symm, this.2.symm⟩
    rw [hpre.1] at hnl
    rw [hwp, hpos, hnl]
    simp only [res_bind_ok]
    rw [hcrop]
    simp only [res_bind_ok, if_true, res_pure]
    rw [if_neg hTne, ← hpos]
    rfl

theorem split_first_line (rest : List Char) :
    ∃ pre T, rest = pre ++ T ∧ '\n' ∉ pre ∧ (T = [] ∨ ∃ post, T = '\n' :: post) := by
  induction rest with
  | nil => exact ⟨[], [], rfl, by simp, .inl rfl⟩
  | cons c cs ih =>
    by_cases hc : c = '\n'
    · exact ⟨[], c :: cs, rfl, by simp, .inr ⟨cs, by rw [hc]⟩⟩
    · obtain ⟨pre, T, e, hn, hT⟩ := ih
      refine ⟨c :: pre, T, by rw [e]; rfl, ?_, hT⟩
      intro hm
      rcases List.mem_cons.mp hm with h | h
      · exact hc h.symm
      · exact hn h

theorem cwtLoop_done (w : List Char) (erow : Nat) (doCrop : Bool) (l r ls le : Nat) (fuel : Nat) (st : CwtState)
    (h : ¬ st.oldPos < blen w) : cwtLoop w erow doCrop l r ls le fuel st = .ok st := by
  cases fuel with
  | zero => rw [cwtLoop, if_neg h]
  | succ f => rw [cwtLoop, if_neg h]

theorem iterCrop_count_nl (doCrop : Bool) (l r : Nat) (line : List Char) (h : '\n' ∉ line) :
    ((iterCrop doCrop l r line).1).count '\n' = 0 := by
  unfold iterCrop
  cases doCrop with
  | false => exact count_nl_zero_of_not_mem _ h
  | true => simp only [if_true]; exact cropLinePure_count_nl _ _ _ h

/-- rows after the error row leave the rebased span alone and only append to the output -/
theorem cwtLoop_tail (w : List Char) (erow : Nat) (doCrop : Bool) (l r ls le : Nat)
    (hw : w.length + 1 ≤ usizeMax) (hlr : l ≤ satAdd r 1) :
    ∀ (fuel : Nat) (st : CwtState) (p rest : List Char), w = p ++ rest → st.oldPos = blen p → blen rest ≤ fuel →
      erow < st.row →
      ∃ st' more, cwtLoop w erow doCrop l r ls le fuel st = .ok st' ∧ st'.newStart = st.newStart ∧
        st'.newEnd = st.newEnd ∧ st'.rebased = st.rebased ∧ st'.out = st.out ++ more := by
  intro fuel
  induction fuel with
  | zero =>
    intro st p rest hwp hpos hfuel _
    have : rest = [] := blen_eq_zero rest (by omega)
    subst this
    rw [cwtLoop_done _ _ _ _ _ _ _ _ _ (by rw [hwp, hpos]; simp)]
    exact ⟨st, [], rfl, rfl, rfl, rfl, by simp⟩
  | succ fuel ih =>
    intro st p rest hwp hpos hfuel hrow
    by_cases hre : rest = []
    · subst hre
      rw [cwtLoop_done _ _ _ _ _ _ _ _ _ (by rw [hwp, hpos]; simp)]
      exact ⟨st, [], rfl, rfl, rfl, rfl, by simp⟩
    · obtain ⟨pre, T, e, hnp, hT⟩ := split_first_line rest
      rw [cwtLoop_iter w erow doCrop l r ls le hw hlr fuel st p pre T (by rw [hwp, e]) hpos (by rw [← e]; exact hre) hnp hT]
      have hne : st.row ≠ erow := by omega
      by_cases hT0 : T = []
      · rw [if_pos hT0]
        refine ⟨_, (iterCrop doCrop l r (stripCR pre)).1, rfl, ?_, ?_, ?_, ?_⟩
        · simp [iterState, hne]
        · simp [iterState, hne]
        · simp [iterState, hne]
        · simp [iterState]
      · rw [if_neg hT0]
        obtain ⟨post, hTp⟩ : ∃ post, T = '\n' :: post := by
          rcases hT with h | h
          · exact absurd h hT0
          · exact h
        obtain ⟨st', more, h1, h2, h3, h4, h5⟩ := ih (iterState erow doCrop l r ls le st pre true (blen pre + 1))
          (p ++ pre ++ ['\n']) post (by rw [hwp, e, hTp]; simp) (by
            simp only [iterState, blen_append, blen_cons, blen_nil, hpos]
            have : utf8LenChar '\n' = 1 := by decide
            omega) (by
            rw [e, hTp, blen_append, blen_cons] at hfuel
            have : utf8LenChar '\n' = 1 := by decide
            omega) (by simp [iterState]; omega)
        refine ⟨st', (iterCrop doCrop l r (stripCR pre)).1 ++ ['\n'] ++ more, h1, ?_, ?_, ?_, ?_⟩
        · rw [h2]; simp [iterState, hne]
        · rw [h3]; simp [iterState, hne]
        · rw [h4]; simp [iterState, hne]
        · rw [h5]; simp [iterState]

/-- the error-row iteration: where the rebased span start lands inside the rendered line -/
theorem err_row_crop (doCrop : Bool) (l r col rad : Nat) (V : List Char) (a : Nat)
    (hn : V.length + 1 ≤ usizeMax) (hc : col ≤ usizeMax) (h1 : 1 ≤ col) (h2 : col ≤ V.length + 1)
    (hcrop : doCrop = true → l = max (col - rad) 1 ∧ r = satAdd col rad) :
    ∃ lead j rr, (lead = [] ∨ lead = [ellipsis]) ∧
      (iterCrop doCrop l r V).1 = (lead ++ (V.take (col - 1)).drop j) ++ rr ∧
      min (a + (iterCrop doCrop l r V).2.prefixBytes +
            (min (blen (V.take (col - 1))) (blen V) - (iterCrop doCrop l r V).2.startByte))
          (a + blen (iterCrop doCrop l r V).1) = a + blen (lead ++ (V.take (col - 1)).drop j) ∧
      rr.head? = V[col - 1]? := by
  have hle := blen_take_le V (col - 1)
  have hmin : min (blen (V.take (col - 1))) (blen V) = blen (V.take (col - 1)) := Nat.min_eq_left hle
  rw [hmin]
  cases doCrop with
  | false =>
    refine ⟨[], 0, V.drop (col - 1), .inl rfl, ?_, ?_, ?_⟩
    · simp [iterCrop]
    · simp only [iterCrop, Bool.false_eq_true, if_false, List.nil_append, List.drop_zero]
      omega
    · rw [List.head?_drop]
  | true =>
    obtain ⟨hl, hr⟩ := hcrop rfl
    have := caret_line V col rad hn hc h1 h2
    simp only [] at this
    obtain ⟨lead, j, rr, h3, h4, h5, h6⟩ := this
    refine ⟨lead, j, rr, h3, ?_, ?_, h6⟩
    · simp only [iterCrop, if_true]; rw [hl, hr]; exact h4
    · simp only [iterCrop, if_true]
      rw [hl, hr, h5]
      omega

/-- (marker inside a window) the loop of `crop_window_text`, started `k` complete rows before the
error row, rebases the span start to a character boundary of the new text that lies in the rendered
error row, after `k` line breaks, right before the character of the reported column -/
theorem cwtLoop_caret (w : List Char) (erow : Nat) (doCrop : Bool) (l r ls le col rad : Nat)
    (hw : w.length + 1 ≤ usizeMax) (hlr : l ≤ satAdd r 1) (hc : col ≤ usizeMax)
    (hcrop : doCrop = true → l = max (col - rad) 1 ∧ r = satAdd col rad) :
    ∀ (k fuel : Nat) (st : CwtState) (p R body T : List Char),
      w = p ++ (R ++ (body ++ T)) → st.oldPos = blen p → blen (R ++ (body ++ T)) ≤ fuel → st.row + k = erow →
      R.count '\n' = k → (R = [] ∨ R.getLast? = some '\n') → '\n' ∉ body → (T = [] ∨ ∃ post, T = '\n' :: post) →
      body ++ T ≠ [] → 1 ≤ col → col ≤ (stripCR body).length + 1 →
      ls = blen p + blen R + blen ((stripCR body).take (col - 1)) →
      ∃ st' Q lead j rest', cwtLoop w erow doCrop l r ls le fuel st = .ok st' ∧ st'.rebased = true ∧
        st'.out = st.out ++ Q ++ (lead ++ ((stripCR body).take (col - 1)).drop j) ++ rest' ∧
        st'.newStart = blen st.out + blen Q + blen (lead ++ ((stripCR body).take (col - 1)).drop j) ∧
        Q.count '\n' = k ∧ (Q = [] ∨ Q.getLast? = some '\n') ∧ (lead = [] ∨ lead = [ellipsis]) ∧
        (rest'.head? = (stripCR body)[col - 1]? ∨
          ((stripCR body)[col - 1]? = none ∧ (rest' = [] ∨ rest'.head? = some '\n'))) := by
  intro k
  induction k with
  | zero =>
    intro fuel st p R body T hwp hpos hfuel hrow hcnt hR hnb hT hne h1 h2 hls
    -- no rows before: R = []
    have hR0 : R = [] := by
      rcases hR with h | h
      · exact h
      · exfalso
        have := List.count_pos_iff.mpr (List.mem_of_getLast? h)
        omega
    subst hR0
    simp only [List.nil_append, blen_nil, Nat.add_zero] at hwp hfuel hls
    have hfp : 0 < fuel := by
      have := blen_pos_of_ne_nil _ hne
      omega
    obtain ⟨f, hf⟩ : ∃ f, fuel = f + 1 := ⟨fuel - 1, by omega⟩
    subst hf
    rw [cwtLoop_iter w erow doCrop l r ls le hw hlr f st p body T hwp hpos hne hnb hT]
    have hVlen : (stripCR body).length + 1 ≤ usizeMax := by
      have h3 := stripCR_length_le body
      have h4 : body.length ≤ w.length := by rw [hwp]; simp only [List.length_append]; omega
      omega
    have hrow' : st.row = erow := by omega
    have hoff : ls - st.oldPos = blen ((stripCR body).take (col - 1)) := by rw [hls, hpos]; omega
    obtain ⟨lead, j, rr, hl1, hl2, hl3, hl4⟩ := err_row_crop doCrop l r col rad (stripCR body) (blen st.out)
      hVlen hc h1 h2 hcrop
    by_cases hT0 : T = []
    · rw [if_pos hT0]
      refine ⟨_, [], lead, j, rr, rfl, ?_, ?_, ?_, rfl, .inl rfl, hl1, ?_⟩
      · simp [iterState, hrow']
      · simp only [iterState, List.append_nil, Bool.false_eq_true, if_false]
        rw [hl2]; simp
      · simp only [iterState, hrow', if_true, hoff, blen_nil, Nat.add_zero]
        exact hl3
      · by_cases hrr : rr = []
        · right
          subst hrr
          exact ⟨by rw [← hl4]; rfl, .inl rfl⟩
        · left; exact hl4
    · rw [if_neg hT0]
      obtain ⟨post, hTp⟩ : ∃ post, T = '\n' :: post := by
        rcases hT with h | h
        · exact absurd h hT0
        · exact h
      obtain ⟨st', more, t1, t2, t3, t4, t5⟩ := cwtLoop_tail w erow doCrop l r ls le hw hlr f
        (iterState erow doCrop l r ls le st body true (blen body + 1)) (p ++ body ++ ['\n']) post
        (by rw [hwp, hTp]; simp) (by
          simp only [iterState, blen_append, blen_cons, blen_nil, hpos]
          have : utf8LenChar '\n' = 1 := by decide
          omega) (by
          rw [hTp, blen_append, blen_cons] at hfuel
          have : utf8LenChar '\n' = 1 := by decide
          omega) (by simp [iterState]; omega)
      refine ⟨st', [], lead, j, rr ++ ['\n'] ++ more, t1, ?_, ?_, ?_, rfl, .inl rfl, hl1, ?_⟩
      · rw [t4]; simp [iterState, hrow']
      · rw [t5]
        simp only [iterState, if_true, List.append_nil]
        rw [hl2]; simp
      · rw [t2]
        simp only [iterState, hrow', if_true, hoff, blen_nil, Nat.add_zero]
        exact hl3
      · by_cases hrr : rr = []
        · right
          subst hrr
          exact ⟨by rw [← hl4]; rfl, .inr (by simp)⟩
        · left
          rw [← hl4]
          cases rr with
          | nil => exact absurd rfl hrr
          | cons x xs => rfl
  | succ k ih =>
    intro fuel st p R body T hwp hpos hfuel hrow hcnt hR hnb hT hne h1 h2 hls
    -- the first row of R is complete
    have hRne : R ≠ [] := by intro h; rw [h] at hcnt; simp at hcnt
    have hRlast : R.getLast? = some '\n' := by
      rcases hR with h | h
      · exact absurd h hRne
      · exact h
    obtain ⟨pre, TR, eR, hnp, hTR⟩ := split_first_line R
    have hTRne : TR ≠ [] := by
      intro h0; subst h0
      rw [List.append_nil] at eR
      apply hnp; rw [← eR]; exact List.mem_of_getLast? hRlast
    obtain ⟨R', hTRp⟩ : ∃ R', TR = '\n' :: R' := by
      rcases hTR with h | h
      · exact absurd h hTRne
      · exact h
    have hR'cnt : R'.count '\n' = k := by
      rw [eR, hTRp, List.count_append, List.count_cons, count_nl_zero_of_not_mem pre hnp] at hcnt
      simp at hcnt; omega
    have hR'last : R' = [] ∨ R'.getLast? = some '\n' := by
      by_cases h0 : R' = []
      · exact .inl h0
      · right
        rw [eR, hTRp] at hRlast
        cases R' with
        | nil => exact absurd rfl h0
        | cons x xs =>
          rw [List.getLast?_append, List.getLast?_cons_cons] at hRlast
          cases hq : (x :: xs).getLast? with
          | none => simp at hq
          | some y => rw [hq] at hRlast; simpa using hRlast
    have hfp : 0 < fuel := by
      have : 0 < blen (R ++ (body ++ T)) := blen_pos_of_ne_nil _ (by simp [hRne])
      omega
    obtain ⟨f, hf⟩ : ∃ f, fuel = f + 1 := ⟨fuel - 1, by omega⟩
    subst hf
    have hwp' : w = p ++ (pre ++ ('\n' :: (R' ++ (body ++ T)))) := by
      rw [hwp, eR, hTRp]; simp
    rw [cwtLoop_iter w erow doCrop l r ls le hw hlr f st p pre ('\n' :: (R' ++ (body ++ T))) hwp' hpos
      (by simp) hnp (.inr ⟨_, rfl⟩)]
    rw [if_neg (by simp)]
    have hne' : st.row ≠ erow := by omega
    have h1nl : utf8LenChar '\n' = 1 := by decide
    obtain ⟨st', Q, lead, j, rest', q1, q2, q3, q4, q5, q6, q7, q8⟩ := ih f
      (iterState erow doCrop l r ls le st pre true (blen pre + 1)) (p ++ pre ++ ['\n']) R' body T
      (by rw [hwp']; simp) (by
        simp only [iterState, blen_append, blen_cons, blen_nil, hpos]; omega) (by
        rw [eR, hTRp] at hfuel
        simp only [blen_append, blen_cons] at hfuel ⊢
        omega) (by simp [iterState]; omega) hR'cnt hR'last hnb hT hne h1 h2 (by
        rw [hls, eR, hTRp]
        simp only [blen_append, blen_cons, blen_nil]; omega)
    have hout : (iterState erow doCrop l r ls le st pre true (blen pre + 1)).out =
        st.out ++ ((iterCrop doCrop l r (stripCR pre)).1 ++ ['\n']) := by
      simp [iterState]
    have hns : (iterState erow doCrop l r ls le st pre true (blen pre + 1)).newStart = st.newStart := by
      simp [iterState, hne']
    refine ⟨st', (iterCrop doCrop l r (stripCR pre)).1 ++ ['\n'] ++ Q, lead, j, rest', q1, q2, ?_, ?_, ?_, ?_, q7, q8⟩
    · rw [q3, hout]; simp
    · rw [q4, hout]; simp only [blen_append]; omega
    · rw [List.count_append, List.count_append, q5,
        iterCrop_count_nl doCrop l r _ (not_mem_stripCR pre hnp)]
      simp; omega
    · right
      rcases q6 with h | h
      · rw [h]; simp
      · rw [List.getLast?_append, h]; rfl

/-- complete rows none of which is the error row: the loop passes over them without rebasing -/
theorem cwtLoop_rows (w : List Char) (erow : Nat) (doCrop : Bool) (l r ls le : Nat)
    (hw : w.length + 1 ≤ usizeMax) (hlr : l ≤ satAdd r 1) :
    ∀ (k fuel : Nat) (st : CwtState) (p R : List Char),
      w = p ++ R → st.oldPos = blen p → blen R ≤ fuel → st.row + k = erow →
      R.count '\n' = k → (R = [] ∨ R.getLast? = some '\n') →
      ∃ st' Q, cwtLoop w erow doCrop l r ls le fuel st = .ok st' ∧ st'.rebased = st.rebased ∧
        st'.newStart = st.newStart ∧ st'.newEnd = st.newEnd ∧ st'.row = erow ∧
        st'.out = st.out ++ Q ∧ Q.count '\n' = k ∧ (Q = [] ∨ Q.getLast? = some '\n') := by
  intro k
  induction k with
  | zero =>
    intro fuel st p R hwp hpos _ hrow hcnt hR
    have hR0 : R = [] := by
      rcases hR with h | h
      · exact h
      · exfalso
        have := List.count_pos_iff.mpr (List.mem_of_getLast? h)
        omega
    subst hR0
    rw [cwtLoop_done _ _ _ _ _ _ _ _ _ (by rw [hwp, hpos]; simp)]
    exact ⟨st, [], rfl, rfl, rfl, rfl, by omega, by simp, rfl, .inl rfl⟩
  | succ k ih =>
    intro fuel st p R hwp hpos hfuel hrow hcnt hR
    have hRne : R ≠ [] := by intro h; rw [h] at hcnt; simp at hcnt
    have hRlast : R.getLast? = some '\n' := by
      rcases hR with h | h
      · exact absurd h hRne
      · exact h
    obtain ⟨pre, TR, eR, hnp, hTR⟩ := split_first_line R
    have hTRne : TR ≠ [] := by
      intro h0; subst h0
      rw [List.append_nil] at eR
      apply hnp; rw [← eR]; exact List.mem_of_getLast? hRlast
    obtain ⟨R', hTRp⟩ : ∃ R', TR = '\n' :: R' := by
      rcases hTR with h | h
      · exact absurd h hTRne
      · exact h
    have hR'cnt : R'.count '\n' = k := by
      rw [eR, hTRp, List.count_append, List.count_cons, count_nl_zero_of_not_mem pre hnp] at hcnt
      simp at hcnt; omega
    have hR'last : R' = [] ∨ R'.getLast? = some '\n' := by
      by_cases h0 : R' = []
      · exact .inl h0
      · right
        rw [eR, hTRp] at hRlast
        cases R' with
        | nil => exact absurd rfl h0
        | cons x xs =>
          rw [List.getLast?_append, List.getLast?_cons_cons] at hRlast
          cases hq : (x :: xs).getLast? with
          | none => simp at hq
          | some y => rw [hq] at hRlast; simpa using hRlast
    have hfp : 0 < fuel := by
      have : 0 < blen R := blen_pos_of_ne_nil _ hRne
      omega
    obtain ⟨f, hf⟩ : ∃ f, fuel = f + 1 := ⟨fuel - 1, by omega⟩
    subst hf
    have hwp' : w = p ++ (pre ++ ('\n' :: R')) := by rw [hwp, eR, hTRp]
    rw [cwtLoop_iter w erow doCrop l r ls le hw hlr f st p pre ('\n' :: R') hwp' hpos (by simp) hnp (.inr ⟨_, rfl⟩)]
    rw [if_neg (by simp)]
    have hne' : st.row ≠ erow := by omega
    have h1nl : utf8LenChar '\n' = 1 := by decide
    obtain ⟨st', Q, q1, q2, q3, q4, q5, q6, q7, q8⟩ := ih f
      (iterState erow doCrop l r ls le st pre true (blen pre + 1)) (p ++ pre ++ ['\n']) R'
      (by rw [hwp']; simp) (by
        simp only [iterState, blen_append, blen_cons, blen_nil, hpos]; omega) (by
        rw [eR, hTRp] at hfuel
        simp only [blen_append, blen_cons] at hfuel ⊢
        omega) (by simp [iterState]; omega) hR'cnt hR'last
    refine ⟨st', (iterCrop doCrop l r (stripCR pre)).1 ++ ['\n'] ++ Q, q1, ?_, ?_, ?_, q5, ?_, ?_, ?_⟩
    · rw [q2]; simp [iterState, hne']
    · rw [q3]; simp [iterState, hne']
    · rw [q4]; simp [iterState, hne']
    · rw [q6]; simp [iterState]
    · rw [List.count_append, List.count_append, q7,
        iterCrop_count_nl doCrop l r _ (not_mem_stripCR pre hnp)]
      simp; omega
    · right
      rcases q8 with h | h
      · rw [h]; simp
      · rw [List.getLast?_append, h]; rfl

/-! ### `crop_window_text` as a whole -/

theorem sanitize_append (a b : List Char) :
    Spec.Snippet.sanitize (a ++ b) = Spec.Snippet.sanitize a ++ Spec.Snippet.sanitize b := by
  simp [Spec.Snippet.sanitize]

theorem sanitize_of_clean (s : List Char) (h : clean s = true) : Spec.Snippet.sanitize s = s := by
  unfold Spec.Snippet.sanitize
  conv => rhs; rw [← List.map_id s]
  apply List.map_congr_left
  intro c hc
  unfold clean at h
  rw [List.all_eq_true] at h
  exact sanitizeChar_id c (by simpa using h c hc)

theorem clean_sublist (a w : List Char) (hw : clean w = true) (h : ∀ c ∈ a, c ∈ w) : clean a = true := by
  unfold clean at *
  rw [List.all_eq_true] at *
  intro c hc
  exact hw c (h c hc)

theorem sanitize_ellipsis : Spec.Snippet.sanitize [ellipsis] = [ellipsis] := by decide

theorem sanitize_lead (lead : List Char) (h : lead = [] ∨ lead = [ellipsis]) : Spec.Snippet.sanitize lead = lead := by
  rcases h with h | h
  · rw [h]; rfl
  · rw [h]; exact sanitize_ellipsis

theorem sanitize_head (s : List Char) : (Spec.Snippet.sanitize s).head? = s.head?.map sanitizeChar := by
  cases s <;> rfl

theorem sanitize_getLast (s : List Char) : (Spec.Snippet.sanitize s).getLast? = s.getLast?.map sanitizeChar := by
  unfold Spec.Snippet.sanitize; rw [List.getLast?_map]

/-- what the marker computation of `crop_window_text` yields when the error row is a row of the
window that the loop visits -/
structure CaretOk (V : List Char) (col k : Nat) (out : List Char) (ns : Nat) : Prop where
  ex : ∃ Q lead j rest', out = (Q ++ (lead ++ Spec.Snippet.sanitize ((V.take (col - 1)).drop j))) ++ rest' ∧
      ns = blen (Q ++ (lead ++ Spec.Snippet.sanitize ((V.take (col - 1)).drop j))) ∧
      Q.count '\n' = k ∧ (Q = [] ∨ Q.getLast? = some '\n') ∧ (lead = [] ∨ lead = [ellipsis]) ∧
      (rest'.head? = (V[col - 1]?).map sanitizeChar ∨
        (V[col - 1]? = none ∧ (rest' = [] ∨ rest'.head? = some '\n')))

theorem cropWindowText_caret (w : List Char) (wsr col rad ls le k : Nat) (R body T : List Char)
    (hw : w.length + 1 ≤ usizeMax) (hc : col ≤ usizeMax)
    (hwp : w = R ++ (body ++ T)) (hcnt : R.count '\n' = k) (hR : R = [] ∨ R.getLast? = some '\n')
    (hnb : '\n' ∉ body) (hT : T = [] ∨ ∃ post, T = '\n' :: post) (hne : body ++ T ≠ [])
    (h1 : 1 ≤ col) (h2 : col ≤ (stripCR body).length + 1)
    (hls : ls = blen R + blen ((stripCR body).take (col - 1))) :
    ∃ out ns ne, cropWindowText w wsr (wsr + k) col rad ls le = .ok (out, ns, ne) ∧
      CaretOk (stripCR body) col k out ns := by
  unfold cropWindowText
  by_cases hfast : rad = 0 ∧ ¬ (encode w).contains 0x0D = true ∧ isClean w = true
  · rw [if_pos hfast]
    have hclean : clean w = true := by rw [← isClean_eq]; exact hfast.2.2
    -- a clean text has no CR
    have hnocr : stripCR body = body := by
      unfold stripCR
      rw [if_neg]
      intro hl
      have hm : '\r' ∈ w := by rw [hwp]; simp [List.mem_of_getLast? hl]
      unfold clean at hclean
      rw [List.all_eq_true] at hclean
      have := hclean _ hm
      revert this; decide
    rw [hnocr] at h2 hls ⊢
    have hsub : ∀ x : List Char, (∀ c ∈ x, c ∈ body) → Spec.Snippet.sanitize x = x := by
      intro x hx
      apply sanitize_of_clean
      apply clean_sublist x w hclean
      intro c hc'
      rw [hwp]; simp [hx c hc']
    refine ⟨w, ls, le, rfl, ⟨R, [], 0, body.drop (col - 1) ++ T, ?_, ?_, hcnt, hR, .inl rfl, ?_⟩⟩
    · rw [hsub _ (fun c hc' => List.take_subset _ _ (List.drop_subset _ _ hc'))]
      simp only [List.nil_append, List.drop_zero]
      rw [hwp]
      conv => lhs; rw [← List.take_append_drop (col - 1) body]
      simp only [List.append_assoc]
    · rw [hsub _ (fun c hc' => List.take_subset _ _ (List.drop_subset _ _ hc'))]
      simp only [List.nil_append, List.drop_zero, blen_append]
      exact hls
    · by_cases hlt : col - 1 < body.length
      · left
        rw [List.head?_append, List.head?_drop, List.getElem?_eq_getElem hlt]
        simp only [Option.map_some, Option.some_or]
        congr 1
        have hm : body[col - 1] ∈ w := by rw [hwp]; simp
        unfold clean at hclean
        rw [List.all_eq_true] at hclean
        exact (sanitizeChar_id _ (by simpa using hclean _ hm)).symm
      · right
        refine ⟨List.getElem?_eq_none (by omega), ?_⟩
        rw [List.drop_eq_nil_of_le (by omega), List.nil_append]
        rcases hT with h | ⟨post, h⟩
        · exact .inl h
        · right; rw [h]; rfl
  · rw [if_neg hfast]
    have hdc : ((rad != 0) = true) → max (col - rad) 1 = max (col - rad) 1 ∧ satAdd col rad = satAdd col rad :=
      fun _ => ⟨rfl, rfl⟩
    obtain ⟨st', Q, lead, j, rest', q1, q2, q3, q4, q5, q6, q7, q8⟩ :=
      cwtLoop_caret w (wsr + k) (rad != 0) (max (col - rad) 1) (satAdd col rad) ls le col rad hw
        (caller_window_ok col rad hc) hc hdc k (blen w) ⟨0, wsr, [], ls, le, false⟩ [] R body T
        (by simpa using hwp) rfl (by rw [hwp]; exact Nat.le_refl _) rfl hcnt hR hnb hT hne h1 h2 (by simpa using hls)
    simp only [res_bind_ok]
    rw [q1]
    simp only [res_bind_ok, sanitize_eq, res_pure, q2]
    have hout : st'.out = (Q ++ (lead ++ ((stripCR body).take (col - 1)).drop j)) ++ rest' := by
      rw [q3]; simp
    have hns : st'.newStart = blen (Q ++ (lead ++ ((stripCR body).take (col - 1)).drop j)) := by
      rw [q4]; simp only [blen_append, blen_nil]; omega
    have hle' : st'.newStart ≤ blen st'.out := by
      rw [hns, hout]
      generalize Q ++ (lead ++ ((stripCR body).take (col - 1)).drop j) = X
      rw [blen_append]; omega
    refine ⟨_, _, _, rfl, ⟨Spec.Snippet.sanitize Q, lead, j, Spec.Snippet.sanitize rest', ?_, ?_, ?_, ?_, q7, ?_⟩⟩
    · rw [hout, sanitize_append, sanitize_append, sanitize_append, sanitize_lead lead q7]
    · simp only [not_true_eq_false, false_and, if_false]
      rw [Nat.min_eq_left hle', hns]
      simp only [blen_append, sanitize_blen]
    · rw [sanitize_count_nl, q5]
    · rcases q6 with h | h
      · left; rw [h]; rfl
      · right; exact sanitize_getLast_nl Q h
    · rcases q8 with h | ⟨h, h'⟩
      · left; rw [sanitize_head, h]
      · right
        refine ⟨h, ?_⟩
        rcases h' with h' | h'
        · left; rw [h']; rfl
        · right; rw [sanitize_head, h']; rfl

/-- the error row is the empty line after the window's final line break (the loop never visits it):
the span is put at the very end of the new text -/
theorem cropWindowText_caret_eof (w : List Char) (wsr col rad k : Nat)
    (hw : w.length + 1 ≤ usizeMax) (hc : col ≤ usizeMax)
    (hcnt : w.count '\n' = k) (hlast : w.getLast? = some '\n') :
    ∃ out, cropWindowText w wsr (wsr + k) col rad (blen w) (blen w) = .ok (out, blen out, blen out) ∧
      out.count '\n' = k ∧ out.getLast? = some '\n' := by
  unfold cropWindowText
  by_cases hfast : rad = 0 ∧ ¬ (encode w).contains 0x0D = true ∧ isClean w = true
  · rw [if_pos hfast]
    exact ⟨w, rfl, hcnt, hlast⟩
  · rw [if_neg hfast]
    obtain ⟨st', Q, q1, q2, q3, q4, q5, q6, q7, q8⟩ :=
      cwtLoop_rows w (wsr + k) (rad != 0) (max (col - rad) 1) (satAdd col rad) (blen w) (blen w) hw
        (caller_window_ok col rad hc) k (blen w) ⟨0, wsr, [], blen w, blen w, false⟩ [] w
        (by simp) rfl (Nat.le_refl _) rfl hcnt (.inr hlast)
    simp only [res_bind_ok]
    rw [q1]
    simp only [res_bind_ok, sanitize_eq, res_pure]
    have hreb : st'.rebased = false := q2
    have hcond : ¬ st'.rebased = true ∧ w.getLast? = some '\n' ∧ st'.row = wsr + k := ⟨by rw [hreb]; simp, hlast, q5⟩
    rw [if_pos hcond]
    simp only [Nat.min_self, Nat.lt_irrefl, if_false]
    have hQ : st'.out = Q := by rw [q6]; rfl
    refine ⟨Spec.Snippet.sanitize st'.out, by rw [sanitize_blen], ?_, ?_⟩
    · rw [sanitize_count_nl, hQ, q7]
    · rcases q8 with h | h
      · exfalso
        rw [h] at q7
        have : 1 ≤ w.count '\n' := List.count_pos_iff.mpr (List.mem_of_getLast? hlast)
        simp at q7; omega
      · rw [hQ]; exact sanitize_getLast_nl Q h

/-! ### linking `prepare` to the text and the location -/

/-- the successful path of `prepare`, as one equation -/
theorem prepareOn_eq (text : List Char) (loc : Snippet.Loc) (m : Mapping) (r : Nat)
    (hlen : text.length + 1 ≤ usizeMax) (rw_ : Nat) (hu : loc.isUnknown = false)
    (hrel : relativeRow m loc.line = some rw_) (hne : text ≠ []) (hr1 : 1 ≤ rw_)
    (hr2 : rw_ ≤ text.count '\n' + 1)
    (hcc : 1 ≤ loc.column ∧ loc.column - 1 ≤ (visibleLine text rw_).length) :
    ∃ endB ws we, 1 ≤ ws ∧ ws ≤ rw_ ∧ rw_ ≤ we ∧ we ≤ text.count '\n' + 1 ∧ we - ws ≤ 2 * ctxLines ∧
      (rw_ = 1 ∨ ws < rw_) ∧
      blen (takeRows (rw_ - 1) text) + blen ((visibleLine text rw_).take (loc.column - 1)) ≤ endB ∧
      prepareOn text loc m r =
        (cropWindowText (takeRows (we - (ws - 1)) (dropRows (ws - 1) text)) ws rw_ loc.column r
          (min (blen (takeRows (rw_ - 1) text) + blen ((visibleLine text rw_).take (loc.column - 1)) -
                blen (takeRows (ws - 1) text)) (blen (takeRows (we - (ws - 1)) (dropRows (ws - 1) text))))
          (min (endB - blen (takeRows (ws - 1) text)) (blen (takeRows (we - (ws - 1)) (dropRows (ws - 1) text))))).bind
          (fun x => .ok (some ⟨x.1, x.2.1, x.2.2, rw_, ws, we, text.count '\n' + 1, absoluteRow m ws⟩)) := by
  unfold prepareOn
  rw [if_neg (by rw [hu]; simp), hrel]
  simp only []
  have h1 : ¬ (lineStarts text).isEmpty = true := fun h => hne ((lineStarts_nil_iff _).mp h)
  rw [if_neg h1, lineStarts_length _ hne, if_neg (by omega),
    lineColToByte_spec text hne rw_ loc.column hr1 hr2]
  simp only [res_bind_ok]
  rw [colToByte_eq, if_pos hcc]
  simp only [Option.map_some]
  obtain ⟨B, hAB⟩ := lineColToByte_boundary text rw_ loc.column hr1
  have hstart : blen (takeRows (rw_ - 1) text) + blen ((visibleLine text rw_).take (loc.column - 1)) =
      blen (takeRows (rw_ - 1) text ++ (visibleLine text rw_).take (loc.column - 1)) := by rw [blen_append]
  have hend : ∃ endB, spanEnd text (blen (takeRows (rw_ - 1) text) + blen ((visibleLine text rw_).take (loc.column - 1))) =
      Res.ok endB ∧ blen (takeRows (rw_ - 1) text) + blen ((visibleLine text rw_).take (loc.column - 1)) ≤ endB := by
    rw [hstart]
    generalize takeRows (rw_ - 1) text ++ (visibleLine text rw_).take (loc.column - 1) = A at hAB
    unfold spanEnd
    simp only []
    by_cases hb : byteAt text (blen A) = some 0x0A ∨ byteAt text (blen A) = some 0x0D
    · rw [if_pos hb]; exact ⟨_, rfl, Nat.le_refl _⟩
    · rw [if_neg hb]
      have := nextCharBoundary_spec A B
      rw [← hAB] at this
      rw [this]
      simp only [res_bind_ok, res_pure]
      refine ⟨_, rfl, ?_⟩
      cases B with
      | nil => simp
      | cons c cs => simp
  obtain ⟨endB, hendeq, hendle⟩ := hend
  rw [hendeq]
  simp only [res_bind_ok]
  have hrel_le : rw_ ≤ usizeMax := by
    have h3 : text.count '\n' ≤ text.length := List.count_le_length
    omega
  obtain ⟨f1, f2, f3, f4, f5⟩ := windowRows_facts rw_ (text.count '\n' + 1) hr1 hr2 hrel_le
  have f6 : rw_ = 1 ∨ (windowRows rw_ (text.count '\n' + 1)).1 < rw_ := by
    rcases windowRows_before rw_ (text.count '\n' + 1) with h | h | h
    · exact .inl h
    · omega
    · exact .inr h
  generalize hws : (windowRows rw_ (text.count '\n' + 1)).1 = ws at f1 f2 f3 f4 f5 f6
  generalize hwe : (windowRows rw_ (text.count '\n' + 1)).2 = we at f1 f2 f3 f4 f5
  obtain ⟨hwb, hsl⟩ := window_slice text hne ws we f1 (by omega) f4 "fmt" "fmt:text[window_start..window_end]"
  rw [hwb]
  simp only [res_bind_ok]
  rw [hsl]
  simp only [res_bind_ok]
  refine ⟨endB, ws, we, f1, f2, f3, f4, f5, f6, hendle, ?_⟩
  cases cropWindowText (takeRows (we - (ws - 1)) (dropRows (ws - 1) text)) ws rw_ loc.column r _ _ with
  | ok x => rfl
  | panic s => rfl

theorem dropRows_of_no_nl (k : Nat) (s : List Char) (h : '\n' ∉ s) (hk : 1 ≤ k) : dropRows k s = [] := by
  induction s with
  | nil => simp
  | cons c cs ih =>
    obtain ⟨k', hk'⟩ : ∃ k', k = k' + 1 := ⟨k - 1, by omega⟩
    subst hk'
    rw [dropRows_succ_cons, if_neg (fun hc => h (by rw [hc]; simp))]
    exact ih (fun hm => h (List.mem_cons_of_mem _ hm))

/-- the window rows `ws..=we` split around row `rw_`: complete rows before it, the row, the rest -/
theorem window_rows_decomp (text : List Char) (ws we rw_ : Nat) (h1 : 1 ≤ ws) (h2 : ws ≤ rw_) (h3 : rw_ ≤ we)
    (h4 : rw_ ≤ text.count '\n' + 1) :
    ∃ R body T, takeRows (we - (ws - 1)) (dropRows (ws - 1) text) = R ++ (body ++ T) ∧
      R.count '\n' = rw_ - ws ∧ (R = [] ∨ R.getLast? = some '\n') ∧ '\n' ∉ body ∧
      (T = [] ∨ ∃ post, T = '\n' :: post) ∧ visibleLine text rw_ = stripCR body ∧
      takeRows (rw_ - 1) text = takeRows (ws - 1) text ++ R ∧
      (body ++ T = [] → dropRows (rw_ - 1) text = []) := by
  have hsplit := window_contains_row text ws we rw_ h1 h2 h3
  have hcd := count_dropRows (ws - 1) text
  refine ⟨takeRows (rw_ - ws) (dropRows (ws - 1) text), ?_⟩
  have hRcnt : (takeRows (rw_ - ws) (dropRows (ws - 1) text)).count '\n' = rw_ - ws :=
    count_takeRows_eq _ _ (by omega)
  have hRends := takeRows_ends (rw_ - ws) (dropRows (ws - 1) text) (by omega)
  have hpre : takeRows (rw_ - 1) text = takeRows (ws - 1) text ++ takeRows (rw_ - ws) (dropRows (ws - 1) text) := by
    have : rw_ - 1 = (ws - 1) + (rw_ - ws) := by omega
    rw [this, takeRows_add]
  rcases takeRows_one (dropRows (rw_ - 1) text) with ⟨hn, ht⟩ | ⟨body, post, hd, hn, ht, hdr⟩
  · -- last row of the text, without line break
    refine ⟨dropRows (rw_ - 1) text, [], ?_, hRcnt, hRends, hn, .inl rfl, ?_, hpre, ?_⟩
    · rw [hsplit, ht]
      have e : rw_ = (rw_ - 1) + 1 := by omega
      have : dropRows rw_ text = [] := by
        rw [e, dropRows_add]; exact dropRows_of_no_nl 1 _ hn (Nat.le_refl _)
      rw [this]; simp
    · unfold visibleLine Spec.Snippet.row
      rw [ht, stripNl_of_not_mem _ hn]; rfl
    · intro h; simpa using h
  · refine ⟨body, '\n' :: takeRows (we - rw_) post, ?_, hRcnt, hRends, hn, .inr ⟨_, rfl⟩, ?_, hpre, ?_⟩
    · rw [hsplit, ht]
      have e : rw_ = (rw_ - 1) + 1 := by omega
      have : dropRows rw_ text = post := by
        rw [e, dropRows_add]; exact hdr
      rw [this]; simp
    · unfold visibleLine Spec.Snippet.row
      rw [ht, stripNl_append_nl]; rfl
    · intro h; simp at h

/-- the span start computed by `prepare` is a character boundary of the window text, lies in the row
of the location (after `row − window_start_row` line breaks), and the character there is the sanitised
character in the reported column (end of line for `column = len + 1`) -/
theorem prepareOn_caret (text : List Char) (loc : Snippet.Loc) (m : Mapping) (r : Nat)
    (hlen : text.length + 1 ≤ usizeMax) (hcol : loc.column ≤ usizeMax) (p : Prepared)
    (h : prepareOn text loc m r = .ok (some p)) :
    ∃ pre rest, p.windowText = pre ++ rest ∧ blen pre = p.localStart ∧
      pre.count '\n' = p.row - p.windowStartRow ∧
      (rest.head? = ((visibleLine text p.row)[loc.column - 1]?).map sanitizeChar ∨
        ((visibleLine text p.row)[loc.column - 1]? = none ∧ (rest = [] ∨ rest.head? = some '\n'))) ∧
      (∃ Q lead j, pre = Q ++ (lead ++ Spec.Snippet.sanitize (((visibleLine text p.row).take (loc.column - 1)).drop j)) ∧
        (Q = [] ∨ Q.getLast? = some '\n') ∧ (lead = [] ∨ lead = [ellipsis])) := by
  obtain ⟨res, hs, hok⟩ := prepareOn_safe text loc m r hlen hcol
  rw [h] at hs
  have hres : res = some p := by cases hs; rfl
  have ok := hok p hres
  -- re-derive the guards
  have hu : loc.isUnknown = false := by
    cases hq : loc.isUnknown with
    | false => rfl
    | true =>
      exfalso
      unfold prepareOn at h
      rw [if_pos hq] at h
      cases h
  have hne : text ≠ [] := by
    intro h0
    unfold prepareOn at h
    rw [if_neg (by rw [hu]; simp), ok.row_rel] at h
    simp only [] at h
    rw [if_pos (by rw [h0]; rfl)] at h
    cases h
  have hr1 : 1 ≤ p.row := Nat.le_trans ok.ws_pos ok.ws_le
  have hr2 : p.row ≤ text.count '\n' + 1 := by
    have := ok.we_le; rw [ok.total] at this
    exact Nat.le_trans ok.row_le this
  obtain ⟨endB, ws, we, g1, g2, g3, g4, g5, g7, g6, heq⟩ := prepareOn_eq text loc m r hlen p.row hu ok.row_rel hne hr1 hr2
    ⟨ok.col_ok.1, by have := ok.col_ok.2; omega⟩
  rw [h] at heq
  obtain ⟨R, body, T, d1, d2, d3, d4, d5, d6, d7, d8⟩ := window_rows_decomp text ws we p.row g1 g2 g3 hr2
  generalize hw : takeRows (we - (ws - 1)) (dropRows (ws - 1) text) = w at heq d1
  have hwlen : w.length + 1 ≤ usizeMax := by
    rw [← hw]
    have a1 := takeRows_length_le (we - (ws - 1)) (dropRows (ws - 1) text)
    have a2 := dropRows_length_le (ws - 1) text
    omega
  have hVb : blen ((visibleLine text p.row).take (loc.column - 1)) ≤ blen body := by
    rw [d6]
    have a1 := blen_take_le (stripCR body) (loc.column - 1)
    have a2 : blen (stripCR body) ≤ blen body := by
      unfold stripCR
      split
      · rw [List.dropLast_eq_take]; exact blen_take_le _ _
      · exact Nat.le_refl _
    omega
  have hrow : ws + (p.row - ws) = p.row := by omega
  -- the start offset relative to the window
  have hls : min (blen (takeRows (p.row - 1) text) + blen ((visibleLine text p.row).take (loc.column - 1)) -
      blen (takeRows (ws - 1) text)) (blen w) = blen R + blen ((visibleLine text p.row).take (loc.column - 1)) := by
    rw [d7, blen_append, d1]
    simp only [blen_append]
    omega
  rw [hls] at heq
  by_cases hvis : body ++ T = []
  · -- the location is on the empty line after the window's final line break
    have hb0 : body = [] := (List.append_eq_nil_iff.mp hvis).1
    have hT0 : T = [] := (List.append_eq_nil_iff.mp hvis).2
    subst hb0; subst hT0
    have hV : visibleLine text p.row = [] := by rw [d6]; rfl
    rw [hV] at heq ⊢
    simp only [List.take_nil, blen_nil, Nat.add_zero, List.append_nil] at heq d1
    have hwR : w = R := d1
    have hRne : R ≠ [] := by
      intro h0
      -- no rows before the error row: then it is row 1 and the text is empty
      rw [h0] at d2 d7
      simp only [List.count_nil, List.append_nil] at d2 d7
      have hD := d8 rfl
      have hall : takeRows (p.row - 1) text = text := by
        have := takeRows_append_dropRows (p.row - 1) text
        rw [hD, List.append_nil] at this; exact this
      have hrow1 : p.row = 1 := by omega
      rw [hrow1] at hall
      simp at hall
      exact hne hall
    have hRlast : R.getLast? = some '\n' := by
      rcases d3 with h0 | h0
      · exact absurd h0 hRne
      · exact h0
    have hendB : min (endB - blen (takeRows (ws - 1) text)) (blen w) = blen w := by
      rw [d7, blen_append] at g6
      simp only [blen_nil, Nat.add_zero, hV, List.take_nil] at g6
      rw [hwR]; omega
    rw [hendB, ← hwR] at heq
    obtain ⟨out, hcw, hc1, hc2⟩ := cropWindowText_caret_eof w ws loc.column r (p.row - ws) hwlen hcol
      (by rw [hwR]; exact d2) (by rw [hwR]; exact hRlast)
    rw [hrow] at hcw
    rw [hcw] at heq
    simp only [Res.bind, Res.ok.injEq, Option.some.injEq] at heq
    have e1 : p.windowText = out := by have := congrArg Prepared.windowText heq; simpa using this
    have e2 : p.localStart = blen out := by have := congrArg Prepared.localStart heq; simpa using this
    have e3 : p.windowStartRow = ws := by have := congrArg Prepared.windowStartRow heq; simpa using this
    rw [e1, e2, e3]
    exact ⟨out, [], by simp, rfl, hc1, .inr ⟨by simp, .inl rfl⟩,
      ⟨out, [], 0, by simp [Spec.Snippet.sanitize], .inr hc2, .inl rfl⟩⟩
  · obtain ⟨out, ns, ne, hcw, hcar⟩ := cropWindowText_caret w ws loc.column r
      (blen R + blen ((visibleLine text p.row).take (loc.column - 1)))
      (min (endB - blen (takeRows (ws - 1) text)) (blen w)) (p.row - ws) R body T hwlen hcol d1 d2 d3 d4 d5 hvis
      ok.col_ok.1 (by rw [← d6]; exact ok.col_ok.2) (by rw [d6])
    rw [hrow] at hcw
    rw [hcw] at heq
    simp only [Res.bind, Res.ok.injEq, Option.some.injEq] at heq
    have e1 : p.windowText = out := by have := congrArg Prepared.windowText heq; simpa using this
    have e2 : p.localStart = ns := by have := congrArg Prepared.localStart heq; simpa using this
    have e3 : p.windowStartRow = ws := by have := congrArg Prepared.windowStartRow heq; simpa using this
    rw [e1, e2, e3]
    obtain ⟨Q, lead, j, rest', c1, c2, c3, c4, c5, c6⟩ := hcar.ex
    rw [← d6] at c1 c2 c6
    refine ⟨_, rest', c1, c2.symm, ?_, c6, ⟨Q, lead, j, rfl, c4, c5⟩⟩
    rw [List.count_append, List.count_append, c3]
    have hz1 : lead.count '\n' = 0 := by
      rcases c5 with h0 | h0
      · rw [h0]; rfl
      · rw [h0]; decide
    have hz2 : (Spec.Snippet.sanitize (((visibleLine text p.row).take (loc.column - 1)).drop j)).count '\n' = 0 := by
      rw [sanitize_count_nl]
      apply count_nl_zero_of_not_mem
      intro hm
      have := List.take_subset _ _ (List.drop_subset _ _ hm)
      rw [d6] at this
      exact not_mem_stripCR body d4 this
    omega

/-- `prepare` itself: the marker is under the character in the reported column of the line of the text
under the YAML rule (the visible line of the normalised text) -/
theorem prepare_caret (text : List Char) (loc : Snippet.Loc) (m : Mapping) (r : Nat)
    (hlen : text.length + 1 ≤ usizeMax) (hcol : loc.column ≤ usizeMax) (p : Prepared)
    (h : prepare text loc m r = .ok (some p)) :
    ∃ pre rest, p.windowText = pre ++ rest ∧ blen pre = p.localStart ∧
      pre.count '\n' = p.row - p.windowStartRow ∧
      (rest.head? = ((visibleLine (normBreaks text) p.row)[loc.column - 1]?).map sanitizeChar ∨
        ((visibleLine (normBreaks text) p.row)[loc.column - 1]? = none ∧ (rest = [] ∨ rest.head? = some '\n'))) ∧
      (∃ Q lead j, pre = Q ++ (lead ++ Spec.Snippet.sanitize (((visibleLine (normBreaks text) p.row).take (loc.column - 1)).drop j)) ∧
        (Q = [] ∨ Q.getLast? = some '\n') ∧ (lead = [] ∨ lead = [ellipsis])) := by
  rw [prepare_norm] at h
  exact prepareOn_caret (normBreaks text) loc m r (by rw [normBreaks_length]; exact hlen) hcol p h

end SaphyrVerif.Lemmas.C17
