import SaphyrVerif.Lemmas.C11_TypedA
import SaphyrVerif.Lemmas.C11_TypedB
import SaphyrVerif.Lemmas.C11_TypedC
import SaphyrVerif.Lemmas.C11_TypedD
import SaphyrVerif.Lemmas.C11_TypedE
/-!
Typed multi-document theorems (C11), part 6: the induction on the fuel — while the typed deserializer, run
on the replay cursor over the events of one document, stays strictly inside these events, it cannot tell
that cursor from any cursor that serves these events and then something else.
-/
namespace SaphyrVerif.Lemmas.Frame
open SaphyrVerif SaphyrVerif.Scalars SaphyrVerif.Pump SaphyrVerif.De

theorem frA (K : Ctx) : ∀ fuel, FrA K fuel
  | 0 => by
    constructor
    · intro c c' hs _; rw [De.capture, De.capture]; exact RF.err hs
    · intro fps evs c c' hs _; rw [De.captureSeq, De.captureSeq]; exact RF.err hs
    · intro fps evs c c' hs _; rw [De.captureMap, De.captureMap]; exact RF.err hs
    · intro b b' c c' hs _ _; rw [De.mergeSeqBatches, De.mergeSeqBatches]; exact RF.err hs
    · intro r r' c c' hs _; rw [De.pendingFromLive, De.pendingFromLive]; exact RF.err hs
    · intro r r' c c' hs _; rw [De.collectEntriesFromMap, De.collectEntriesFromMap]; exact RF.err hs
    · intro r r' f f' m m' c c' hs _ _ _; rw [De.collectLoop, De.collectLoop]; exact RF.err hs
    · intro c c' hs _; rw [De.skipOneNode, De.skipOneNode]; exact RF.err hs
    · intro d c c' hs _; rw [De.skipDepth, De.skipDepth]; exact RF.err hs
    · intro cfg ty ik km c c' hs _; rw [De.deser, De.deser]; exact RF.err hs
    · intro cfg acc c c' hs _; rw [De.bytesLoop, De.bytesLoop]; exact RF.err hs
    · intro cfg shape c c' hs _; rw [De.deserSeqLike, De.deserSeqLike]; exact RF.err hs
    · intro cfg t acc c c' hs _; rw [De.seqElems, De.seqElems]; exact RF.err hs
    · intro cfg ts acc c c' hs _; rw [De.tupleElems, De.tupleElems]; exact RF.err hs
    · intro cfg shape c c' hs _; rw [De.deserMapLike, De.deserMapLike]; exact RF.err hs
    · intro cfg kt vt acc c c' m m' hs _ _; rw [De.mapEntries, De.mapEntries]; exact RF.err hs
    · intro cfg fields deny acc c c' m m' hs _ _; rw [De.structEntries, De.structEntries]; exact RF.err hs
    · intro cfg ks c c' m m' hs _ _; rw [De.nextKey, De.nextKey]; exact RF.err hs
    · intro cfg vt c c' m m' hs _ _; rw [De.nextValue, De.nextValue]; exact RF.err hs
    · intro cfg name variants c c' hs _; rw [De.deserEnum, De.deserEnum]; exact RF.err hs
    · intro depth acc c c' hs _; rw [De.collectTaggedSeq, De.collectTaggedSeq]; exact RF.err hs
    · intro cfg variants vname vloc mapMode c c' hs _; rw [De.variantPayload, De.variantPayload]; exact RF.err hs
  | fuel + 1 =>
    have ih := frA K fuel
    { capture := capture_frStep ih
      captureSeq := captureSeq_frStep ih
      captureMap := captureMap_frStep ih
      mergeSeqBatches := mergeSeqBatches_frStep ih
      pendingFromLive := pendingFromLive_frStep ih
      collectEntriesFromMap := collectEntriesFromMap_frStep ih
      collectLoop := collectLoop_frStep ih
      skipOneNode := skipOneNode_frStep ih
      skipDepth := skipDepth_frStep ih
      deser := deser_frStep ih
      bytesLoop := bytesLoop_frStep ih
      deserSeqLike := deserSeqLike_frStep ih
      seqElems := seqElems_frStep ih
      tupleElems := tupleElems_frStep ih
      deserMapLike := deserMapLike_frStep ih
      mapEntries := mapEntries_frStep ih
      structEntries := structEntries_frStep ih
      nextKey := nextKey_frStep ih
      nextValue := nextValue_frStep ih
      deserEnum := deserEnum_frStep ih
      collectTaggedSeq := collectTaggedSeq_frStep ih
      variantPayload := variantPayload_frStep ih }

/-- (frame) the typed deserializer at the start of the frame: same value and related cursors, or both fail -/
theorem deser_frame {K : Ctx} (hK : K.Ok) (hne : 0 < K.buf.length) {c' : Cur} (hI : K.Inv c' K.buf)
    (fuel : Nat) (cfg : Cfg) (ty : Ty) (ik km : Bool) :
    RF K Eq (deser fuel cfg ty ik km (.replay K.buf 0 K.ref)) (deser fuel cfg ty ik km c') :=
  (frA K fuel).deser cfg ty ik km (FSim.mk' hK (Nat.zero_le _) (by simpa using hI)) hne

#print axioms frA

end SaphyrVerif.Lemmas.Frame
