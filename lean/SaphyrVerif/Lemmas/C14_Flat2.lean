import SaphyrVerif.Lemmas.C14_Flat
/-!
C14, records with one level of sharing: the field-by-field simulation between the serializer's pointer
table and the deserializer's store.
-/
namespace SaphyrVerif.Lemmas.C14
open SaphyrVerif.Anchors SaphyrVerif.Spec.Anchors

theorem cell_afterDefine_self (D : DeSt) (k : Kind) (id tid : Nat) (o : Out) (pv : RVal) :
    (afterDefine D k id tid o pv).cell D.nextPtr = some pv := by
  cases hk : k.isRec <;> simp [DeSt.cell, afterDefine, hk]

theorem cell_afterDefine_other (D : DeSt) (k : Kind) (id tid : Nat) (o : Out) (pv : RVal) (q : Ptr)
    (h : q ≠ D.nextPtr) : (afterDefine D k id tid o pv).cell q = D.cell q := by
  cases hk : k.isRec <;> simp [DeSt.cell, afterDefine, hk, lookup_tail _ _ _ _ h]

theorem inv_define (H : Heap) (kindOf : Ptr → Kind × Nat) (S : SerSt) (D : DeSt) (inv : Inv H kindOf S D)
    (p : Ptr) (k : Kind) (tid : Nat) (hk : kindOf p = (k, tid)) (payload : Val)
    (hl : H.lookup p = some payload) (hp : plainV payload = true) (ht : takesRoot payload = true)
    (hfresh : S.anchors.lookup p = none) :
    let S1 := SerSt.mk ((p, S.next) :: S.anchors) (S.next + 1) none []
    let D1 := afterDefine D k S.next tid (plainOut S.next payload) (plainOf payload)
    Inv H kindOf S1 D1 ∧ Ext S D S1 D1 ∧ S1.anchors.lookup p = some S.next ∧
      D1.store.lookup (k, S.next) = some (D.nextPtr, tid) := by
  intro S1 D1
  have hstore : D1.store = ((k, S.next), (D.nextPtr, tid)) :: D.store := rfl
  have hdefs : D1.defs = (S.next, plainOut S.next payload) :: D.defs := rfl
  have hanch : S1.anchors = (p, S.next) :: S.anchors := rfl
  have old_key_ne : ∀ key v, D.store.lookup key = some v → key ≠ (k, S.next) := by
    intro key v h e
    have := (inv.keys key v h).1
    rw [e] at this
    exact Nat.lt_irrefl _ this
  refine ⟨⟨rfl, rfl, tableOK_alloc _ _ p inv.tab inv.next1, tableInj_alloc _ _ p inv.tinj inv.tab,
    Nat.le_succ_of_le inv.next1, inv.stack, inv.opn, ?_, ?_, ?_⟩, ⟨?_, ?_, ?_, Nat.le_succ _⟩, ?_, ?_⟩
  · -- stored
    intro p' id' h'
    rw [hanch] at h'
    by_cases hpp : p' = p
    · subst hpp
      rw [lookup_head] at h'
      simp only [Option.some.injEq] at h'
      subst h'
      refine ⟨D.nextPtr, payload, hl, ht, hp, ?_, cell_afterDefine_self .., ?_⟩
      · rw [hk, hstore, lookup_head]
      · rw [hdefs, lookup_head]
    · rw [lookup_tail _ _ _ _ hpp] at h'
      obtain ⟨q0, payload0, a1, a2, a3, a4, a5, a6⟩ := inv.stored p' id' h'
      have hid : id' ≠ S.next := Nat.ne_of_lt (tableOK_lookup inv.tab h').2
      refine ⟨q0, payload0, a1, a2, a3, ?_, ?_, ?_⟩
      · rw [hstore, lookup_tail _ _ _ _ (old_key_ne _ _ a4)]
        exact a4
      · rw [cell_afterDefine_other _ _ _ _ _ _ _ (Nat.ne_of_lt (inv.keys _ _ a4).2)]
        exact a5
      · rw [hdefs, lookup_tail _ _ _ _ hid]
        exact a6
  · -- keys
    intro key v h
    rw [hstore] at h
    by_cases hkey : key = (k, S.next)
    · subst hkey
      rw [lookup_head] at h
      simp only [Option.some.injEq] at h
      subst h
      exact ⟨Nat.lt_succ_self _, Nat.lt_succ_self _⟩
    · rw [lookup_tail _ _ _ _ hkey] at h
      have := inv.keys key v h
      exact ⟨Nat.lt_succ_of_lt this.1, Nat.lt_succ_of_lt this.2⟩
  · -- qinj
    intro k1 k2 v1 v2 h1 h2 hv
    rw [hstore] at h1 h2
    by_cases e1 : k1 = (k, S.next)
    · by_cases e2 : k2 = (k, S.next)
      · rw [e1, e2]
      · subst e1
        rw [lookup_head] at h1
        rw [lookup_tail _ _ _ _ e2] at h2
        simp only [Option.some.injEq] at h1
        subst h1
        have := (inv.keys k2 v2 h2).2
        rw [← hv] at this
        exact absurd this (Nat.lt_irrefl _)
    · by_cases e2 : k2 = (k, S.next)
      · subst e2
        rw [lookup_head] at h2
        rw [lookup_tail _ _ _ _ e1] at h1
        simp only [Option.some.injEq] at h2
        subst h2
        have := (inv.keys k1 v1 h1).2
        rw [hv] at this
        exact absurd this (Nat.lt_irrefl _)
      · rw [lookup_tail _ _ _ _ e1] at h1
        rw [lookup_tail _ _ _ _ e2] at h2
        exact inv.qinj k1 k2 v1 v2 h1 h2 hv
  · -- Ext: table
    intro p0 id0 h0
    have : p0 ≠ p := by
      intro e
      rw [e, hfresh] at h0
      cases h0
    rw [hanch, lookup_tail _ _ _ _ this]
    exact h0
  · -- Ext: store
    intro key v h
    rw [hstore, lookup_tail _ _ _ _ (old_key_ne key v h)]
    exact h
  · -- Ext: cells
    intro q0 c hq hc
    rw [cell_afterDefine_other _ _ _ _ _ _ _ (Nat.ne_of_lt hq)]
    exact hc
  · rw [hanch, lookup_head]
  · rw [hstore, lookup_head]

/-- one field: serializer step, type of the field, deserializer step -/
theorem flat_step (H : Heap) (kindOf : Ptr → Kind × Nat) (fuel fuel' : Nat) (it : Val)
    (hit : FlatItem H kindOf it) (S : SerSt) (D : DeSt) (inv : Inv H kindOf S D)
    (o : Out) (S' : SerSt) (hser : serVal fuel H S it = .ok (o, S'))
    (ty : Ty) (hty : tyOf fuel' H it = some ty)
    (rv : RVal) (e : Out) (D' : DeSt) (hde : de ty o D = .ok (rv, e, D')) :
    Inv H kindOf S' D' ∧ Ext S D S' D' ∧ FieldRel H S' D' it rv := by
  cases it with
  | leaf lk =>
    have hp : plainV (.leaf lk) = true := rfl
    obtain ⟨e1, e2⟩ := ser_flat_plain fuel H _ hp S inv.pend o S' hser
    have := tyOf_plain H fuel' _ ty hp hty
    subst e1 e2 this
    unfold de at hde
    rw [de_plain onAliasLive true _ 0 D hp, recordDef_zero] at hde
    simp only [Except.ok.injEq, Prod.mk.injEq] at hde
    obtain ⟨rfl, _, rfl⟩ := hde
    exact ⟨inv, Ext.refl _ _, rfl⟩
  | node m items =>
    have hp : plainV (.node m items) = true := by
      simp only [plainV]
      exact hit
    obtain ⟨e1, e2⟩ := ser_flat_plain fuel H _ hp S inv.pend o S' hser
    have := tyOf_plain H fuel' _ ty hp hty
    subst e1 e2 this
    unfold de at hde
    rw [de_plain onAliasLive true _ 0 D hp, recordDef_zero] at hde
    simp only [Except.ok.injEq, Prod.mk.injEq] at hde
    obtain ⟨rfl, _, rfl⟩ := hde
    exact ⟨inv, Ext.refl _ _, rfl⟩
  | strong k tid p =>
    obtain ⟨hk, payload, hl, hp, ht⟩ := hit
    have hty' := tyOf_strong fuel' H k tid p payload hl hp ty hty
    subst hty'
    rcases ser_flat_strong fuel H k tid p payload hl hp ht S inv.pend inv.held o S' hser with
      ⟨id, h1, rfl, rfl⟩ | ⟨h1, rfl, rfl⟩
    · -- alias to a stored pointer
      obtain ⟨q, payload0, a1, a2, a3, a4, a5, a6⟩ := inv.stored p id h1
      rw [hl] at a1
      simp only [Option.some.injEq] at a1
      subst a1
      rw [hk] at a4
      have hid : id ≠ 0 := Nat.ne_of_gt (tableOK_lookup inv.tab h1).1
      rw [de_strong_alias k tid id hid payload hp ht D inv.opn a6 q a4] at hde
      simp only [Except.ok.injEq, Prod.mk.injEq] at hde
      obtain ⟨rfl, _, rfl⟩ := hde
      exact ⟨inv, Ext.refl _ _, id, q, h1, a4, rfl⟩
    · -- definition
      have hid : S.next ≠ 0 := Nat.ne_of_gt inv.next1
      have hfresh : D.store.lookup (k, S.next) = none := by
        cases hs : D.store.lookup (k, S.next) with
        | none => rfl
        | some v => exact absurd (inv.keys _ v hs).1 (Nat.lt_irrefl _)
      rw [de_strong_fresh k tid S.next hid payload hp ht D inv.stack hfresh] at hde
      simp only [Except.ok.injEq, Prod.mk.injEq] at hde
      obtain ⟨rfl, _, rfl⟩ := hde
      obtain ⟨b1, b2, b3, b4⟩ := inv_define H kindOf S D inv p k tid hk payload hl hp ht h1
      exact ⟨b1, b2, S.next, D.nextPtr, b3, b4, rfl⟩
  | weak k tid p =>
    obtain ⟨hk, hpl⟩ := hit
    have hty' := tyOf_weak fuel' H k tid p ty hty
    subst hty'
    rcases ser_flat_weak fuel H k tid p hpl S inv.pend inv.held o S' hser with
      ⟨hn, rfl, rfl⟩ | ⟨id, h1, rfl, rfl⟩ | ⟨payload, hl, h1, rfl, rfl⟩
    · rw [de_weak_dangling] at hde
      simp only [Except.ok.injEq, Prod.mk.injEq] at hde
      obtain ⟨rfl, _, rfl⟩ := hde
      exact ⟨inv, Ext.refl _ _, Or.inl ⟨hn, rfl⟩⟩
    · obtain ⟨q, payload0, a1, a2, a3, a4, a5, a6⟩ := inv.stored p id h1
      rw [hk] at a4
      have hid : id ≠ 0 := Nat.ne_of_gt (tableOK_lookup inv.tab h1).1
      rw [de_weak_alias k tid id hid payload0 a2 D inv.opn a6 q a4] at hde
      simp only [Except.ok.injEq, Prod.mk.injEq] at hde
      obtain ⟨rfl, _, rfl⟩ := hde
      exact ⟨inv, Ext.refl _ _, Or.inr ⟨by rw [a1]; simp, id, q, h1, a4, rfl⟩⟩
    · -- the definition lands on the weak field: reading it back fails
      obtain ⟨_, ht⟩ := hpl payload hl
      have hid : S.next ≠ 0 := Nat.ne_of_gt inv.next1
      have hfresh : D.store.lookup (k, S.next) = none := by
        cases hs : D.store.lookup (k, S.next) with
        | none => rfl
        | some v => exact absurd (inv.keys _ v hs).1 (Nat.lt_irrefl _)
      have hra := rootAnchor_plainOut S.next payload ht
      rcases weak_node_ok onAliasLive true k tid _ (plainOut_not_alias _ payload) D rv e D' hde with
        ⟨c0, _⟩ | ⟨_, i, q, c1, c2, _, _⟩
      · rw [hra] at c0; exact absurd c0 hid
      rw [hra, current_after_push _ _ _ hid] at c1
      simp only [Option.some.injEq] at c1
      subst c1
      rw [hfresh] at c2
      cases c2

theorem flat_list (H : Heap) (kindOf : Ptr → Kind × Nat) (fuel fuel' : Nat) :
    ∀ (items : List Val), (∀ it ∈ items, FlatItem H kindOf it) →
    ∀ (S : SerSt) (D : DeSt), Inv H kindOf S D →
    ∀ (outs : List Out) (S' : SerSt), traverse (fun st x => serVal fuel H st x) S items = .ok (outs, S') →
    ∀ (tys : List Ty), items.mapM (fun x => tyOf fuel' H x) = some tys →
    ∀ (vs : List RVal) (es : List Out) (D' : DeSt), deList onAliasLive true tys outs D = .ok (vs, es, D') →
    Inv H kindOf S' D' ∧ Ext S D S' D' ∧ FieldsRel H S' D' items vs := by
  intro items
  induction items with
  | nil =>
    intro _ S D inv outs S' hser tys hty vs es D' hde
    simp only [traverse, Except.ok.injEq, Prod.mk.injEq] at hser
    obtain ⟨rfl, rfl⟩ := hser
    simp only [List.mapM_nil, Option.pure_def, Option.some.injEq] at hty
    subst hty
    simp only [deList, Except.ok.injEq, Prod.mk.injEq] at hde
    obtain ⟨rfl, _, rfl⟩ := hde
    exact ⟨inv, Ext.refl _ _, trivial⟩
  | cons x xs ih =>
    intro hflat S D inv outs S' hser tys hty vs es D' hde
    simp only [traverse] at hser
    cases hx : serVal fuel H S x with
    | error e => rw [hx] at hser; cases hser
    | ok r =>
      obtain ⟨o1, S1⟩ := r
      rw [hx] at hser
      simp only at hser
      cases hxs : traverse (fun st x => serVal fuel H st x) S1 xs with
      | error e => rw [hxs] at hser; cases hser
      | ok r2 =>
        obtain ⟨os, S2⟩ := r2
        rw [hxs] at hser
        simp only [Except.ok.injEq, Prod.mk.injEq] at hser
        obtain ⟨rfl, rfl⟩ := hser
        simp only [List.mapM_cons] at hty
        cases htx : tyOf fuel' H x with
        | none => rw [htx] at hty; simp at hty
        | some t1 =>
          rw [htx] at hty
          cases htxs : xs.mapM (fun x => tyOf fuel' H x) with
          | none => rw [htxs] at hty; simp at hty
          | some ts =>
            rw [htxs] at hty
            simp at hty
            subst hty
            simp only [deList] at hde
            split at hde
            · cases hde
            · rename_i v1 e1 D1 hd1
              split at hde
              · cases hde
              · rename_i vs2 es2 D2 hd2
                simp only [Except.ok.injEq, Prod.mk.injEq] at hde
                obtain ⟨rfl, _, rfl⟩ := hde
                have st := flat_step H kindOf fuel fuel' x (hflat x (List.mem_cons_self ..)) S D inv o1 S1 hx
                  t1 htx v1 e1 D1 hd1
                have rest := ih (fun it h => hflat it (List.mem_cons_of_mem _ h)) S1 D1 st.1 os S2 hxs ts htxs
                  vs2 es2 D2 hd2
                exact ⟨rest.1, st.2.1.trans rest.2.1,
                  ⟨FieldRel.ext rest.2.1 x v1 st.2.2, rest.2.2⟩⟩

theorem inv_init (H : Heap) (kindOf : Ptr → Kind × Nat) : Inv H kindOf {} {} := by
  refine ⟨rfl, rfl, ?_, ?_, Nat.le_refl 1, rfl, rfl, ?_, ?_, ?_⟩
  · intro p id h; simp at h
  · intro p q id h; simp [List.lookup] at h
  · intro p id h; simp [List.lookup] at h
  · intro key v h; simp [List.lookup] at h
  · intro k1 k2 v1 v2 h; simp [List.lookup] at h

/-- round trip of a record with one level of sharing: if it succeeds, the rebuilt record is the
original one field by field, under the final pointer table and store -/
theorem roundtrip_flat (H : Heap) (kindOf : Ptr → Kind × Nat) (fuel : Nat) (m : Bool) (items : List Val)
    (hflat : ∀ it ∈ items, FlatItem H kindOf it) (rv : RVal) (s : DeSt)
    (h : roundtrip fuel H (.node m items) = .ok rv s) :
    ∃ vs S', rv = .node m vs ∧ Inv H kindOf S' s ∧ FieldsRel H S' s items vs := by
  cases fuel with
  | zero => simp [roundtrip, serialize, serVal] at h
  | succ fuel =>
    simp only [roundtrip, serialize, serVal] at h
    cases hl : traverse (fun st x => serVal fuel H st x) ({ ({} : SerSt) with pending := none }) items with
    | error e => rw [hl] at h; simp at h
    | ok r =>
      obtain ⟨outs, S'⟩ := r
      rw [hl] at h
      simp only [tyOf] at h
      cases hty : items.mapM (fun x => tyOf fuel H x) with
      | none => rw [hty] at h; simp at h
      | some tys =>
        rw [hty] at h
        simp only [Option.map_some, deserialize, de, deCore, Option.getD_none, bne_self_eq_false,
          Bool.and_false, Bool.false_eq_true, if_false] at h
        cases hd : deList onAliasLive true tys outs {} with
        | error e => rw [hd] at h; simp at h
        | ok r2 =>
          obtain ⟨vs, es, D'⟩ := r2
          rw [hd] at h
          simp only [RtRes.ok.injEq] at h
          obtain ⟨rfl, rfl⟩ := h
          have := flat_list H kindOf fuel fuel items hflat {} {} (inv_init H kindOf) outs S' hl tys hty vs es D' hd
          exact ⟨vs, S', rfl, this.1, this.2.2⟩

end SaphyrVerif.Lemmas.C14
