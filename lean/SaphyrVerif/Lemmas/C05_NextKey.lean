import SaphyrVerif.Lemmas.C05_Merge
import SaphyrVerif.Lemmas.C05_Deser
import SaphyrVerif.Lemmas.C05_Stream
/-!
Helper lemmas for C05, part 9: single steps of `MA::next_key_seed` on a replay cursor.
-/
namespace SaphyrVerif.Lemmas.C05
open SaphyrVerif SaphyrVerif.Scalars SaphyrVerif.Pump SaphyrVerif.De SaphyrVerif.Spec

/-! ### shapes of key fingerprints -/

@[simp] theorem fpOf_scalar (v : List Char) (tag : Nat) (rt : Option (List Char)) (st : Style) (a : Nat) (l : Loc) :
    fpOf (.scalar v tag rt st a l) = .scalar v tag := by rw [fpOf]
@[simp] theorem fpOf_seq (a tag : Nat) (rt : Option (List Char)) (l el : Loc) (items : List ENode) :
    fpOf (.seq a tag rt l el items) = .seq (fpOfL items) := by rw [fpOf]
@[simp] theorem fpOf_map (a : Nat) (l el : Loc) (es : List (ENode × ENode)) :
    fpOf (.map a l el es) = .map (fpOfE es) := by rw [fpOf]
@[simp] theorem fpOfE_nil : fpOfE [] = [] := by rw [fpOfE]
@[simp] theorem fpOfE_cons (k v : ENode) (es : List (ENode × ENode)) :
    fpOfE ((k, v) :: es) = (fpOf k, fpOf v) :: fpOfE es := by rw [fpOfE]

/-- the explicit-empty-key flag of a key fingerprint -/
def kemnOf (fp : FP) : Bool :=
  match fp with
  | .map [] => true
  | _ => false

/-- shapes of the fingerprint of an admissible key -/
inductive FPShape : FP → Prop where
  | scalar (v : List Char) (t : Nat) : FPShape (.scalar v t)
  | seq (l : List FP) : FPShape (.seq l)
  | mapNil : FPShape (.map [])
  | mapOneScalar (sv : List Char) (stag : Nat) (b : FP) (h : fpNullish sv stag = false) : FPShape (.map [(.scalar sv stag, b)])
  | mapOneSeq (l : List FP) (b : FP) : FPShape (.map [(.seq l, b)])
  | mapOneMap (l : List (FP × FP)) (b : FP) : FPShape (.map [(.map l, b)])
  | mapMany (e1 e2 : FP × FP) (es : List (FP × FP)) : FPShape (.map (e1 :: e2 :: es))

theorem fpShape_of_key {k : ENode} (h : keyShapeOK k = true) : FPShape (fpOf k) := by
  cases k with
  | scalar v tag rt st a l => simpa using FPShape.scalar v tag
  | seq a tag rt l el items => simpa using FPShape.seq _
  | map a l el es =>
    cases es with
    | nil => simpa using FPShape.mapNil
    | cons e es =>
      obtain ⟨k1, v1⟩ := e
      cases es with
      | cons e2 es2 =>
        obtain ⟨k2, v2⟩ := e2
        simpa using FPShape.mapMany _ _ _
      | nil =>
        cases k1 with
        | scalar sv stag rt st a' l' =>
          simp only [keyShapeOK, Bool.not_eq_true'] at h
          simpa using FPShape.mapOneScalar sv stag _ h
        | seq => simpa using FPShape.mapOneSeq _ _
        | map => simpa using FPShape.mapOneMap _ _

theorem isMergeKey_node (k : ENode) : isMergeKey ⟨fpOf k, eflatten k, k.loc⟩ = isMergeKeyNode k := by
  cases k with
  | scalar v tag rt st a l => simp [isMergeKey, isMergeKeyNode, eflatten]
  | seq a tag rt l el items =>
    simp only [isMergeKey, isMergeKeyNode, eflatten]
  | map a l el es =>
    simp only [isMergeKey, isMergeKeyNode, eflatten]

/-! ### end of the own entries -/

theorem nextKey_end_empty {buf : List Ev} {i : Nat} (ref : Option Loc) {el : Loc} {tl : List Ev} (fuel : Nat) (cfg : Cfg)
    (kseed : Ty ⊕ Unit) (m : MA) (h : buf.drop i = .mapEnd el :: tl) (hp : m.pending = []) (hf : m.flushingMerges = false)
    (hs : m.mergeStack = []) :
    nextKey (fuel + 1) cfg kseed (.replay buf i ref) m = .ok (.done, m) (.replay buf (i + 1) ref) := by
  rw [nextKey]
  simp only [hp, hf, peek_cons ref h, next_cons ref h, hs]
  simp

theorem nextKey_end_flush {buf : List Ev} {i : Nat} (ref : Option Loc) {el : Loc} {tl : List Ev} (fuel : Nat) (cfg : Cfg)
    (kseed : Ty ⊕ Unit) (m : MA) (h : buf.drop i = .mapEnd el :: tl) (hp : m.pending = []) (hf : m.flushingMerges = false)
    (hs : m.mergeStack ≠ []) :
    nextKey (fuel + 1) cfg kseed (.replay buf i ref) m =
      nextKey (fuel + 1) cfg kseed (.replay buf (i + 1) ref) { m with flushingMerges := true } := by
  rw [nextKey, nextKey]
  simp only [hp, hf, peek_cons ref h, next_cons ref h]
  have : m.mergeStack.isEmpty = false := by cases hm : m.mergeStack <;> simp_all
  simp [this]

/-! ### flushing -/

theorem enqueue_go_spec (stack : List (List PendingEntry)) :
    (stack.flatten = [] ∧ enqueueNextMergeBatch.go stack = (false, [], [])) ∨
    (∃ b rest, enqueueNextMergeBatch.go stack = (true, b, rest) ∧ b ≠ [] ∧ b ++ rest.flatten = stack.flatten) := by
  induction stack with
  | nil => left; simp [enqueueNextMergeBatch.go]
  | cons b rest ih =>
    cases b with
    | nil =>
      simp only [enqueueNextMergeBatch.go, List.isEmpty_nil, if_true, List.flatten_cons, List.nil_append]
      exact ih
    | cons p ps =>
      right
      exact ⟨p :: ps, rest, by simp [enqueueNextMergeBatch.go], by simp, by simp⟩

theorem nextKey_flush_empty {c : Cur} (fuel : Nat) (cfg : Cfg) (kseed : Ty ⊕ Unit) (m : MA)
    (hp : m.pending = []) (hf : m.flushingMerges = true) :
    (m.mergeStack.flatten = [] ∧ ∃ m', nextKey (fuel + 1) cfg kseed c m = .ok (.done, m') c) ∨
    (∃ m2, nextKey (fuel + 1) cfg kseed c m = nextKey fuel cfg kseed c m2 ∧ m2.pending ≠ [] ∧
      m2.pending ++ m2.mergeStack.flatten = m.mergeStack.flatten ∧ m2.flushingMerges = true ∧ m2.seen = m.seen) := by
  rw [nextKey]
  simp only [hp, hf, if_true, enqueueNextMergeBatch]
  rcases enqueue_go_spec m.mergeStack with ⟨h1, h2⟩ | ⟨b, rest, h2, h3, h4⟩
  · left
    refine ⟨h1, ?_⟩
    simp only [h2]
    exact ⟨_, rfl⟩
  · right
    simp only [h2, if_true]
    exact ⟨_, rfl, by simpa [hp] using h3, by simpa [hp] using h4, rfl, rfl⟩

theorem nextKey_flush_dup {c : Cur} (fuel : Nat) (cfg : Cfg) (kseed : Ty ⊕ Unit) (m : MA) (p : PendingEntry)
    (ps : List PendingEntry) (hp : m.pending = p :: ps) (hf : m.flushingMerges = true)
    (hd : m.seen.any (· == p.key.fp) = true) :
    nextKey (fuel + 1) cfg kseed c m = nextKey fuel cfg kseed c { m with pending := ps } := by
  rw [nextKey]
  simp only [hp, hf, if_true, MA.seenContains, hd]

theorem nextKey_flush_deliver {c : Cur} (fuel : Nat) (cfg : Cfg) (kseed : Ty ⊕ Unit) (m : MA) (p : PendingEntry)
    (ps : List PendingEntry) (hp : m.pending = p :: ps) (hf : m.flushingMerges = true)
    (hd : m.seen.any (· == p.key.fp) = false) (hshape : FPShape p.key.fp) :
    nextKey (fuel + 1) cfg kseed c m =
      match deserKey fuel cfg kseed p.key.events (kemnOf p.key.fp) with
      | .error e => .err e c
      | .ok kv => .ok (.key kv p.key.fp, { m with pending := ps, haveKey := true, pendingValue := some (p.value.events, p.ref), seen := (p.key.fp :: m.seen) }) c := by
  rw [nextKey]
  simp only [hp, hf, if_true, MA.seenContains, hd, Bool.false_eq_true, if_false]
  generalize p.key.fp = fp at hshape ⊢
  cases hshape <;> simp [kemnOf, *] <;> rfl

/-! ### reading an own entry -/

section live
variable {buf : List Ev} {i : Nat} (ref : Option Loc) {e : Ev} {tl : List Ev} (fuel : Nat) (cfg : Cfg) (kseed : Ty ⊕ Unit)
  (m : MA) (k : ENode) {i1 : Nat}

theorem nextKey_live_merge (h : buf.drop i = e :: tl) (hopen : Ev.isOpen e = true)
    (hp : m.pending = []) (hf : m.flushingMerges = false)
    (hcap : capture fuel (.replay buf i ref) = .ok ⟨fpOf k, eflatten k, k.loc⟩ (.replay buf i1 ref))
    (hm : isMergeKeyNode k = true) :
    nextKey (fuel + 1) cfg kseed (.replay buf i ref) m =
      match pendingFromLive fuel (.replay buf i1 ref) (Cur.replay buf i1 ref).refLoc with
      | .err er c => .err er c
      | .ok entries c =>
        nextKey fuel cfg kseed c (if entries.isEmpty then m else { m with mergeStack := entries :: m.mergeStack }) := by
  rw [nextKey]
  simp only [hp, hf, peek_cons ref h]
  cases e <;> simp [Ev.isOpen] at hopen <;> simp only [hcap, isMergeKey_node, hm, Cur.peek] <;> rfl

theorem nextKey_live_dup_error (h : buf.drop i = e :: tl) (hopen : Ev.isOpen e = true)
    (hp : m.pending = []) (hf : m.flushingMerges = false)
    (hcap : capture fuel (.replay buf i ref) = .ok ⟨fpOf k, eflatten k, k.loc⟩ (.replay buf i1 ref))
    (hm : isMergeKeyNode k = false) (hpol : cfg.dup = .error) (hd : m.seen.any (· == fpOf k) = true) :
    IsErr (nextKey (fuel + 1) cfg kseed (.replay buf i ref) m) := by
  rw [nextKey]
  simp only [hp, hf, peek_cons ref h]
  cases e <;> simp [Ev.isOpen] at hopen <;> simp [hcap, isMergeKey_node, hm, hpol, MA.seenContains, hd]

theorem nextKey_live_dup_first (h : buf.drop i = e :: tl) (hopen : Ev.isOpen e = true)
    (hp : m.pending = []) (hf : m.flushingMerges = false)
    (hcap : capture fuel (.replay buf i ref) = .ok ⟨fpOf k, eflatten k, k.loc⟩ (.replay buf i1 ref))
    (hm : isMergeKeyNode k = false) (hpol : cfg.dup = .firstWins) (hd : m.seen.any (· == fpOf k) = true) :
    nextKey (fuel + 1) cfg kseed (.replay buf i ref) m =
      match skipOneNode fuel (.replay buf i1 ref) with
      | .err er c => .err er c
      | .ok _ c => nextKey fuel cfg kseed c m := by
  rw [nextKey]
  simp only [hp, hf, peek_cons ref h]
  cases e <;> simp [Ev.isOpen] at hopen <;>
    simp only [hcap, isMergeKey_node, hm, hpol, MA.seenContains, hd] <;> simp <;> rfl

theorem nextKey_live_deliver (h : buf.drop i = e :: tl) (hopen : Ev.isOpen e = true)
    (hp : m.pending = []) (hf : m.flushingMerges = false)
    (hcap : capture fuel (.replay buf i ref) = .ok ⟨fpOf k, eflatten k, k.loc⟩ (.replay buf i1 ref))
    (hm : isMergeKeyNode k = false) (hdel : cfg.dup = .lastWins ∨ m.seen.any (· == fpOf k) = false)
    (hshape : FPShape (fpOf k)) :
    nextKey (fuel + 1) cfg kseed (.replay buf i ref) m =
      match deserKey fuel cfg kseed (eflatten k) (kemnOf (fpOf k)) with
      | .error er => .err er (.replay buf i1 ref)
      | .ok kv => .ok (.key kv (fpOf k), { m with haveKey := true, pendingValue := none, seen := (fpOf k :: m.seen) }) (.replay buf i1 ref) := by
  rw [nextKey]
  simp only [hp, hf, peek_cons ref h]
  have hmk : isMergeKey ⟨fpOf k, eflatten k, k.loc⟩ = false := by rw [isMergeKey_node]; exact hm
  generalize fpOf k = fp at hshape hcap hdel hmk ⊢
  cases e <;> simp [Ev.isOpen] at hopen <;> simp only [hcap, hmk]
  all_goals
    rcases hdel with hl | hd
    · simp only [hl]
      cases hshape with
      | mapOneScalar sv stag b hnull => simp [kemnOf, hnull]; rfl
      | _ => simp [kemnOf] <;> rfl
    · cases cfg.dup <;> simp only [MA.seenContains, hd] <;>
        (cases hshape with
          | mapOneScalar sv stag b hnull => simp [kemnOf, hnull]; rfl
          | _ => simp [kemnOf] <;> rfl)

end live

end SaphyrVerif.Lemmas.C05
