import SaphyrVerif.Lemmas.C11_TypedFam
/-!
Typed multi-document theorems (C11), part 5b: the frame step for the merge machinery.
-/
namespace SaphyrVerif.Lemmas.Frame
open SaphyrVerif SaphyrVerif.Scalars SaphyrVerif.Pump SaphyrVerif.De
open SaphyrVerif.Lemmas.C05 (Ev.delta)
open SaphyrVerif.Lemmas.CurSim (PL PLL MRel KM VM EV)

set_option linter.unusedSimpArgs false
set_option linter.unusedVariables false

variable {K : Ctx}

theorem mergeSeqBatches_frStep {fuel : Nat} (ih : FrA K fuel) :
    ∀ {b b' c c'}, FSim K c c' → 1 ≤ dep K c → PLL b b' →
      RF K PLL (De.mergeSeqBatches (fuel + 1) c b) (De.mergeSeqBatches (fuel + 1) c' b') := by
  intro b b' c c' hs hd hb
  have ihS := CurSim.simA fuel
  rw [De.mergeSeqBatches, De.mergeSeqBatches]
  fr_loop

theorem pendingFromLive_frStep {fuel : Nat} (ih : FrA K fuel) :
    ∀ r r' {c c'}, FSim K c c' → pos c < K.buf.length →
      RF K PL (De.pendingFromLive (fuel + 1) c r) (De.pendingFromLive (fuel + 1) c' r') := by
  intro r r' c c' hs hin
  have ihS := CurSim.simA fuel
  rw [De.pendingFromLive, De.pendingFromLive]
  fr_loop

theorem collectEntriesFromMap_frStep {fuel : Nat} (ih : FrA K fuel) :
    ∀ r r' {c c'}, FSim K c c' → pos c < K.buf.length →
      RF K PL (De.collectEntriesFromMap (fuel + 1) c r) (De.collectEntriesFromMap (fuel + 1) c' r') := by
  intro r r' c c' hs hin
  have ihS := CurSim.simA fuel
  rw [De.collectEntriesFromMap, De.collectEntriesFromMap]
  fr_loop

theorem collectLoop_frStep {fuel : Nat} (ih : FrA K fuel) :
    ∀ r r' {f f' m m' c c'}, FSim K c c' → 1 ≤ dep K c → PL f f' → PLL m m' →
      RF K PL (De.collectLoop (fuel + 1) c r f m) (De.collectLoop (fuel + 1) c' r' f' m') := by
  intro r r' f f' m m' c c' hs hd hf hm
  have ihS := CurSim.simA fuel
  rw [De.collectLoop, De.collectLoop]
  fr_loop

end SaphyrVerif.Lemmas.Frame
