import SaphyrVerif.Lemmas.C11_TypedFam
import SaphyrVerif.Lemmas.CurSimPayload
/-!
Typed multi-document theorems (C11), part 5e: the frame step for enums.
-/
namespace SaphyrVerif.Lemmas.Frame
open SaphyrVerif SaphyrVerif.Scalars SaphyrVerif.Pump SaphyrVerif.De
open SaphyrVerif.Lemmas.C05 (Ev.delta)
open SaphyrVerif.Lemmas.CurSim (PL PLL MRel KM VM EV)

set_option linter.unusedSimpArgs false
set_option linter.unusedVariables false

variable {K : Ctx}

macro "fr_loop_e" : tactic =>
  `(tactic| repeat' (first | fr_leaf | fr_step | sim_step | fr_simp | (split <;> try (first | fr_fwd | sim_fwd_payload)) | pfe_absurd | fr_tail))

theorem deserEnum_frStep {fuel : Nat} (ih : FrA K fuel) :
    ∀ cfg name variants {c c'}, FSim K c c' → pos c < K.buf.length →
      RF K Eq (De.deserEnum (fuel + 1) cfg name variants c) (De.deserEnum (fuel + 1) cfg name variants c') := by
  intro cfg name variants c c' hs hin
  have ihS := CurSim.simA fuel
  rw [De.deserEnum, De.deserEnum]
  fr_loop_e

theorem variantPayload_frStep {fuel : Nat} (ih : FrA K fuel) :
    ∀ cfg variants vname vloc mapMode {c c'}, FSim K c c' → (mapMode = true → 1 ≤ dep K c) →
      RF K Eq (De.variantPayload (fuel + 1) cfg variants vname vloc mapMode false c)
        (De.variantPayload (fuel + 1) cfg variants vname vloc mapMode false c') := by
  intro cfg variants vname vloc mapMode c c' hs hpre
  have ihS := CurSim.simA fuel
  rw [De.variantPayload, De.variantPayload]
  cases lookupField variants vname with
  | none => exact RF.err hs
  | some p =>
    obtain ⟨i, vt⟩ := p
    cases mapMode
    · cases vt <;>
        simp only [Bool.not_false, Bool.not_true, Bool.and_self, Bool.and_false, Bool.false_and, Bool.true_and,
          Bool.and_true, ↓reduceIte, Bool.false_eq_true] <;> fr_loop
    · have hd : 1 ≤ dep K c := hpre rfl
      cases vt <;>
        simp only [Bool.not_false, Bool.not_true, Bool.and_self, Bool.and_false, Bool.false_and, Bool.true_and,
          Bool.and_true, ↓reduceIte, Bool.false_eq_true] <;> fr_loop

end SaphyrVerif.Lemmas.Frame
