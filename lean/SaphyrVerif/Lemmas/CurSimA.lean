import SaphyrVerif.Lemmas.CurSimDe
/-!
Cursor simulation, part 2b: the cursor-only loops (`capture*`, `skip*`, `collectTaggedSeq`, `bytesLoop`,
`seqElems`, `tupleElems`).
-/
namespace SaphyrVerif.Lemmas.CurSim
open SaphyrVerif SaphyrVerif.Scalars SaphyrVerif.Pump SaphyrVerif.De

set_option linter.unusedSimpArgs false
set_option linter.unusedVariables false

theorem capture_simStep {fuel : Nat} (ih : SimA fuel) :
    ∀ {c c'}, Sim c c' → RV Eq (De.capture (fuel + 1) c) (De.capture (fuel + 1) c') := by
  intro c c' hs
  rw [De.capture, De.capture]
  sim_loop

theorem captureSeq_simStep {fuel : Nat} (ih : SimA fuel) :
    ∀ fps evs {c c'}, Sim c c' → RV Eq (De.captureSeq (fuel + 1) c fps evs) (De.captureSeq (fuel + 1) c' fps evs) := by
  intro fps evs c c' hs
  rw [De.captureSeq, De.captureSeq]
  sim_loop

theorem captureMap_simStep {fuel : Nat} (ih : SimA fuel) :
    ∀ fps evs {c c'}, Sim c c' → RV Eq (De.captureMap (fuel + 1) c fps evs) (De.captureMap (fuel + 1) c' fps evs) := by
  intro fps evs c c' hs
  rw [De.captureMap, De.captureMap]
  sim_loop

theorem skipOneNode_simStep {fuel : Nat} (ih : SimA fuel) :
    ∀ {c c'}, Sim c c' → RV Eq (De.skipOneNode (fuel + 1) c) (De.skipOneNode (fuel + 1) c') := by
  intro c c' hs
  rw [De.skipOneNode, De.skipOneNode]
  sim_loop

theorem skipDepth_simStep {fuel : Nat} (ih : SimA fuel) :
    ∀ depth {c c'}, Sim c c' → RV Eq (De.skipDepth (fuel + 1) c depth) (De.skipDepth (fuel + 1) c' depth) := by
  intro depth c c' hs
  rw [De.skipDepth, De.skipDepth]
  sim_loop

theorem collectTaggedSeq_simStep {fuel : Nat} (ih : SimA fuel) :
    ∀ depth acc {c c'}, Sim c c' →
      RV Eq (De.collectTaggedSeq (fuel + 1) c depth acc) (De.collectTaggedSeq (fuel + 1) c' depth acc) := by
  intro depth acc c c' hs
  rw [De.collectTaggedSeq, De.collectTaggedSeq]
  sim_loop

theorem bytesLoop_simStep {fuel : Nat} (ih : SimA fuel) :
    ∀ cfg acc {c c'}, Sim c c' → RV Eq (De.bytesLoop (fuel + 1) cfg c acc) (De.bytesLoop (fuel + 1) cfg c' acc) := by
  intro cfg acc c c' hs
  rw [De.bytesLoop, De.bytesLoop]
  sim_loop

theorem seqElems_simStep {fuel : Nat} (ih : SimA fuel) :
    ∀ cfg t acc {c c'}, Sim c c' → RV Eq (De.seqElems (fuel + 1) cfg t c acc) (De.seqElems (fuel + 1) cfg t c' acc) := by
  intro cfg t acc c c' hs
  rw [De.seqElems, De.seqElems]
  sim_loop

theorem tupleElems_simStep {fuel : Nat} (ih : SimA fuel) :
    ∀ cfg ts acc {c c'}, Sim c c' →
      RV Eq (De.tupleElems (fuel + 1) cfg ts c acc) (De.tupleElems (fuel + 1) cfg ts c' acc) := by
  intro cfg ts acc c c' hs
  cases ts <;> rw [De.tupleElems, De.tupleElems]
  all_goals sim_loop

end SaphyrVerif.Lemmas.CurSim
