import SaphyrVerif.Spec.EmitReader
/-! `PVal.beq` decides equality: a `DecidableEq PVal` instance, so that concrete reader results can be
checked by kernel evaluation (`decide +kernel`). -/
namespace SaphyrVerif.Emit

mutual
theorem PVal.beq_iff : ∀ (a b : PVal), PVal.beq a b = true ↔ a = b
  | .null, b => by cases b <;> simp [PVal.beq]
  | .bool x, b => by cases b <;> simp [PVal.beq]
  | .int x, b => by cases b <;> simp [PVal.beq]
  | .str x, b => by cases b <;> simp [PVal.beq]
  | .seq xs, b => by
    cases b <;> simp only [PVal.beq, Bool.false_eq_true, false_iff, reduceCtorEq, not_false_eq_true]
    rename_i ys
    rw [PVal.beqList_iff xs ys]
    simp
  | .map xs, b => by
    cases b <;> simp only [PVal.beq, Bool.false_eq_true, false_iff, reduceCtorEq, not_false_eq_true]
    rename_i ys
    rw [PVal.beqEntries_iff xs ys]
    simp
theorem PVal.beqList_iff : ∀ (a b : List PVal), PVal.beqList a b = true ↔ a = b
  | [], b => by cases b <;> simp [PVal.beqList]
  | x :: xs, b => by
    cases b with
    | nil => simp [PVal.beqList]
    | cons y ys => simp [PVal.beqList, PVal.beq_iff x y, PVal.beqList_iff xs ys]
theorem PVal.beqEntries_iff : ∀ (a b : List (PVal × PVal)), PVal.beqEntries a b = true ↔ a = b
  | [], b => by cases b <;> simp [PVal.beqEntries]
  | (k, v) :: xs, b => by
    cases b with
    | nil => simp [PVal.beqEntries]
    | cons y ys =>
      obtain ⟨k', v'⟩ := y
      simp [PVal.beqEntries, PVal.beq_iff k k', PVal.beq_iff v v', PVal.beqEntries_iff xs ys, and_assoc]
end

instance : DecidableEq PVal := fun a b => decidable_of_iff _ (PVal.beq_iff a b)

end SaphyrVerif.Emit
