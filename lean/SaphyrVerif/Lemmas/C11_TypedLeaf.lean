import SaphyrVerif.Lemmas.C11_TypedTac
/-!
Typed multi-document theorems (C11), part 3: the frame lemmas for the non-recursive leaves of the typed
deserializer.
-/
namespace SaphyrVerif.Lemmas.Frame
open SaphyrVerif SaphyrVerif.Scalars SaphyrVerif.Pump SaphyrVerif.De
open SaphyrVerif.Lemmas.C05 (Ev.delta)

set_option linter.unusedSimpArgs false
set_option linter.unusedVariables false

variable {K : Ctx} {c c' : Cur}

macro "fleaf_close" : tactic =>
  `(tactic| first
    | with_reducible exact RF.err (by assumption)
    | with_reducible exact RF.ok rfl (by assumption))

theorem takeStringScalar_fr (cfg : Cfg) (hs : FSim K c c') (hin : pos c < K.buf.length) :
    RF K Eq (takeStringScalar cfg c) (takeStringScalar cfg c') := by
  unfold takeStringScalar
  repeat' (first | fleaf_close | fr_step | simp only [*, ↓reduceIte, Bool.false_eq_true] | split)


open Lean Elab Tactic Meta in
elab "fleaf_fwd" : tactic => do
  let some (n, isOk, h) ← CurSim.newestCallEq | throwError "fleaf_fwd: no call"
  unless n == ``SaphyrVerif.De.takeStringScalar do throwError "fleaf_fwd: no rule"
  if isOk then evalTactic (← `(tactic| ffwdk_eq $h, (takeStringScalar_fr _ ‹FSim _ _ _› (by fr_inside ‹FSim _ _ _›))))
  else evalTactic (← `(tactic| ffwde $h, (takeStringScalar_fr _ ‹FSim _ _ _› (by fr_inside ‹FSim _ _ _›))))

macro "fleaf_loop" : tactic =>
  `(tactic| repeat' (first | fleaf_close | fr_step | simp only [*, ↓reduceIte, Bool.false_eq_true] | (split <;> try fleaf_fwd)))

theorem deserScalarTyped_fr (cfg : Cfg) (ty : Ty) (hs : FSim K c c') (hin : pos c < K.buf.length) :
    RF K Eq (deserScalarTyped cfg ty c) (deserScalarTyped cfg ty c') := by
  -- `deserialize_char` peeks and then takes the event from the SAME cursor
  obtain ⟨e2, d2, d2', hb2, hn, hn', hs2, hpos2, hdep2⟩ := hs.next hin
  obtain ⟨e1, d1', hb1, hp, hp', hs1⟩ := hs.peek hin
  have he : e1 = e2 := by rw [hb1] at hb2; exact Option.some.inj hb2
  subst he
  obtain ⟨e3, d3, d3', hb3, hn3, hn3', hs3, hpos3, hdep3⟩ := hs1.next hin
  have he : e1 = e3 := by rw [hb1] at hb3; exact Option.some.inj hb3
  subst he
  cases ty
  case char =>
    unfold deserScalarTyped
    simp only [hp, hp', hn, hn', hn3, hn3']
    rcases e1 with ⟨v, tag, rt, st, a, l⟩ | _ | _ | _ | _
    case scalar =>
      by_cases h1 : (tag != tagString) = true
      · by_cases h2 : (tag == tagNull || scalarIsNullish v st) = true
        · simp only [h1, h2, ↓reduceIte, Bool.false_eq_true]
          fleaf_loop
        · by_cases h3 : (cfg.noSchema && maybeNotString v st) = true
          · simp only [h1, h2, h3, ↓reduceIte, Bool.false_eq_true]
            fleaf_loop
          · simp only [h1, h2, h3, ↓reduceIte, Bool.false_eq_true]
            fleaf_loop
      · simp only [h1, ↓reduceIte, Bool.false_eq_true]
        fleaf_loop
    all_goals
      simp only []
      fleaf_loop
  all_goals
    unfold deserScalarTyped
    simp only [hn, hn']
    rcases e1 with _ | _ | _ | _ | _ <;> fleaf_loop

theorem deserString_fr (cfg : Cfg) (hs : FSim K c c') (hin : pos c < K.buf.length) :
    RF K Eq (deserString cfg c) (deserString cfg c') := by
  unfold deserString
  fleaf_loop

open Lean Elab Tactic Meta in
elab "fleaf_fwd2" : tactic => do
  let some (n, isOk, h) ← CurSim.newestCallEq | throwError "fleaf_fwd: no call"
  unless n == ``SaphyrVerif.De.deserString do throwError "fleaf_fwd: no rule"
  if isOk then evalTactic (← `(tactic| ffwdk_eq $h, (deserString_fr _ ‹FSim _ _ _› (by fr_inside ‹FSim _ _ _›))))
  else evalTactic (← `(tactic| ffwde $h, (deserString_fr _ ‹FSim _ _ _› (by fr_inside ‹FSim _ _ _›))))

theorem deserStr_fr (cfg : Cfg) (hs : FSim K c c') (hin : pos c < K.buf.length) :
    RF K Eq (deserStr cfg c) (deserStr cfg c') := by
  unfold deserStr
  repeat' (first | fleaf_close | fr_step | simp only [*, ↓reduceIte, Bool.false_eq_true] | (split <;> try fleaf_fwd2))

theorem deserAnyScalar_fr (cfg : Cfg) (v : List Char) (tag : Nat) (st : Style) (l : Loc) (hs : FSim K c c')
    (hin : pos c < K.buf.length) : RF K Eq (deserAnyScalar cfg c v tag st l) (deserAnyScalar cfg c' v tag st l) := by
  unfold deserAnyScalar
  fleaf_loop

theorem byteSeqVisit_fr (shape : Ty ⊕ List Ty) (data : List Nat) (hs : FSim K c c') :
    RF K Eq (byteSeqVisit shape data c) (byteSeqVisit shape data c') := by
  unfold byteSeqVisit
  fleaf_loop

theorem structFinish_fr (fields : List (String × Ty)) (got : List (String × Val)) (hs : FSim K c c') :
    RF K Eq (structFinish fields got c) (structFinish fields got c') := by
  unfold structFinish
  fleaf_loop

end SaphyrVerif.Lemmas.Frame
