import SaphyrVerif.Lemmas.C11_Typed2Doc
/-!
Typed multi-document theorems (C11), continued — part 3: the ROUNDS of the streaming iterator inside one
document.

When `T::deserialize` succeeds before the end of the document (a tuple target on a longer sequence, …) the
iterator yields the value and goes on INSIDE the document: the left-over events are read as if further documents
started there — a null-like scalar is skipped, a container end is an error item followed by the recovery
`skip_to_next_document`, anything else is handed to `T::deserialize` again — until the document ends or an error
item sends the iterator to the next document.  `docRounds` is this loop on the replay cursor over the events of
the ONE document (nothing else), with the number of rounds it takes; `iter_rounds` shows that the iterator on
the live cursor inside a stream (with or without a per-document enforcer that accepts the document) does
exactly that, by the frame lemma.
-/
namespace SaphyrVerif.Lemmas.C11B
open SaphyrVerif SaphyrVerif.Scalars SaphyrVerif.Pump SaphyrVerif.De SaphyrVerif.Spec SaphyrVerif.Budget SaphyrVerif.Entry
open SaphyrVerif.Lemmas.C11 (Doc docsItems)
open SaphyrVerif.Lemmas.C11T (RunP J DocOk peek_congr Item sameItem sameItems iterLoop_congr fsim_peek_none evIsNull)
open SaphyrVerif.Lemmas.Frame (Ctx FSim RF pos dep)

/-- what the rounds inside one document give: the items, whether the document was left through its end
(`true`) or through the recovery after an error item (`false`), and the number of rounds -/
abbrev Rounds := List Item × Bool × Nat

/-- one more round, which yielded `x` -/
def Rounds.push (x : List Item) (r : Rounds) : Rounds := (x ++ r.1, r.2.1, r.2.2 + 1)

/-- the rounds of the iterator inside ONE document, on a replay cursor over the events of that document
(`none`: more than `fuel` rounds) -/
def docRounds (cfg : Cfg) (ty : Ty) : Nat → Cur → Option Rounds
  | 0, c =>
    match c.peek with
    | .ok none _ => some ([], true, 0)
    | _ => none
  | fuel + 1, c =>
    match c.peek with
    | .err _ _ => none
    | .ok none _ => some ([], true, 0)
    | .ok (some (.seqEnd l)) _ => some ([.error ⟨"UnexpectedSequenceEnd", l, 0⟩], false, 1)
    | .ok (some (.mapEnd l)) _ => some ([.error ⟨"UnexpectedMappingEnd", l, 0⟩], false, 1)
    | .ok (some ev) c1 =>
      if evIsNull ev then
        match c1.next with
        | .ok _ c2 => (docRounds cfg ty fuel c2).map (Rounds.push [])
        | .err _ _ => none
      else
        match deser (fuelFor 100000) cfg ty false false c1 with
        | .err e _ => some ([.error e], false, 1)
        | .ok v c2 => (docRounds cfg ty fuel c2).map (Rounds.push [.ok v])

/-- more fuel does not change the rounds -/
theorem docRounds_mono (cfg : Cfg) (ty : Ty) : ∀ (fuel : Nat) (c : Cur) (r : Rounds),
    docRounds cfg ty fuel c = some r → ∀ k, docRounds cfg ty (fuel + k) c = some r := by
  intro fuel
  induction fuel with
  | zero =>
    intro c r h k
    simp only [docRounds] at h
    split at h
    · cases h
      cases k with
      | zero => simp [docRounds, *]
      | succ k => simp [docRounds, *]
    · cases h
  | succ n ih =>
    intro c r h k
    rw [show n + 1 + k = (n + k) + 1 by omega]
    simp only [docRounds] at h ⊢
    split at h
    · cases h
    · exact h
    · exact h
    · exact h
    · rename_i ev c1 hne1 hne2 hpk
      split at h
      · rename_i hnull
        simp only [hnull, if_true]
        split at h
        · rename_i x c2 hn
          cases hr : docRounds cfg ty n c2 with
          | none => rw [hr] at h; cases h
          | some r2 =>
            rw [hr] at h
            rw [ih c2 r2 hr k]
            exact h
        · cases h
      · rename_i hnull
        simp only [hnull]
        split at h
        · exact h
        · rename_i v c2 hd
          cases hr : docRounds cfg ty n c2 with
          | none => rw [hr] at h; cases h
          | some r2 =>
            rw [hr] at h
            rw [ih c2 r2 hr k]
            exact h

/-! ### one round of the iterator, by the event its `peek` sees -/

theorem iterLoop_seqEnd (cfg : Cfg) (ty : Ty) {p p1 : Pump} {inp inp1 : List RawItem} {l : Loc}
    (hpk : Cur.peek (.live p inp) = .ok (some (.seqEnd l)) (.live p1 inp1)) (m : Nat) (acc : List Item) :
    iterLoop cfg ty (m + 1) p inp acc =
      (let (found, p, inp) := Pump.skipToNextDocument p1 inp1
       if found then iterLoop cfg ty m p inp (acc ++ [.error ⟨"UnexpectedSequenceEnd", l, 0⟩])
       else acc ++ [.error ⟨"UnexpectedSequenceEnd", l, 0⟩]) := by
  simp only [iterLoop, hpk]

theorem iterLoop_mapEnd (cfg : Cfg) (ty : Ty) {p p1 : Pump} {inp inp1 : List RawItem} {l : Loc}
    (hpk : Cur.peek (.live p inp) = .ok (some (.mapEnd l)) (.live p1 inp1)) (m : Nat) (acc : List Item) :
    iterLoop cfg ty (m + 1) p inp acc =
      (let (found, p, inp) := Pump.skipToNextDocument p1 inp1
       if found then iterLoop cfg ty m p inp (acc ++ [.error ⟨"UnexpectedMappingEnd", l, 0⟩])
       else acc ++ [.error ⟨"UnexpectedMappingEnd", l, 0⟩]) := by
  simp only [iterLoop, hpk]

theorem iterLoop_open (cfg : Cfg) (ty : Ty) {p : Pump} {inp : List RawItem} {e : Ev} {d1 : Cur}
    (hpk : Cur.peek (.live p inp) = .ok (some e) d1) (hopen : Lemmas.C05.Ev.isOpen e = true) (m : Nat)
    (acc : List Item) :
    iterLoop cfg ty (m + 1) p inp acc =
      (if evIsNull e then
        match d1.next with
        | .ok _ (.live p inp) => iterLoop cfg ty m p inp acc
        | .err e _ => acc ++ [.error e]
        | _ => acc
      else
        match deser (fuelFor 100000) cfg ty false false d1 with
        | .ok v (.live p inp) => iterLoop cfg ty m p inp (acc ++ [.ok v])
        | .err e (.live p inp) =>
          let (found, p, inp) := Pump.skipToNextDocument p inp
          if found then iterLoop cfg ty m p inp (acc ++ [.error e]) else acc ++ [.error e]
        | _ => acc) := by
  simp only [iterLoop, hpk]
  cases e <;> first | rfl | simp [Lemmas.C05.Ev.isOpen] at hopen

/-! ### the rounds on the live cursor -/

/-- what `iter_rounds` says about the iterator that stands at the cursor `.live p inp` inside the document -/
def RoundsSpec (L : AliasLimits) (ob : Option Limits) (cfg : Cfg) (ty : Ty) (X : List RawItem)
    (p : Pump) (inp : List RawItem) (r : Rounds) : Prop :=
  ∃ its', sameItems its' r.1 ∧
    (r.2.1 = true → ∃ q2, BoundaryB L ob q2 ∧ q2.look = none ∧ q2.producedAny = true ∧ FinOk q2 ∧
      ∀ m acc, iterLoop cfg ty (m + r.2.2) p inp acc = iterLoop cfg ty m q2 X (acc ++ its')) ∧
    (r.2.1 = false →
      (∀ l1, X = [.ev .streamEnd l1] → ∀ m acc, iterLoop cfg ty (m + r.2.2) p inp acc = acc ++ its') ∧
      (∀ ex ls Y, X = .ev (.docStart ex) ls :: Y → ∃ q4, StartB L ob ls q4 ∧ q4.producedAny = false ∧
        ∀ m acc, iterLoop cfg ty (m + r.2.2) p inp acc = iterLoop cfg ty m q4 Y (acc ++ its')))

/-- the round that ends with an error item `e'` and the recovery -/
theorem rounds_skip {L : AliasLimits} {ob : Option Limits} {le : Loc} {X : List RawItem} {q3 : Pump}
    {inq3 : List RawItem} (hst : StatB L ob q3) (hJ : J (.ev .docEnd le :: X) inq3) (cfg : Cfg) (ty : Ty) (e' : DErr) :
    (∀ l1, X = [.ev .streamEnd l1] → ∀ m (acc : List Item),
      (let (found, p, inp) := Pump.skipToNextDocument q3 inq3
       if found then iterLoop cfg ty m p inp (acc ++ [.error e']) else acc ++ [.error e']) = acc ++ [.error e']) ∧
    (∀ ex ls Y, X = .ev (.docStart ex) ls :: Y → ∃ q4, StartB L ob ls q4 ∧ q4.producedAny = false ∧
      ∀ m (acc : List Item),
        (let (found, p, inp) := Pump.skipToNextDocument q3 inq3
         if found then iterLoop cfg ty m p inp (acc ++ [.error e']) else acc ++ [.error e']) =
          iterLoop cfg ty m q4 Y (acc ++ [.error e'])) := by
  obtain ⟨hfin, hnext⟩ := skip_from_docB hst hJ
  constructor
  · intro l1 hX m acc
    have hf := hfin l1 hX
    rcases hsk : skipToNextDocument q3 inq3 with ⟨found, p4, inp4⟩
    rw [hsk] at hf
    simp only at hf
    subst hf
    simp
  · intro ex ls Y hX
    obtain ⟨q4, hsk, hs4, hp4⟩ := hnext ex ls Y hX
    exact ⟨q4, hs4, hp4, fun m acc => by simp [hsk]⟩

theorem live_of_inv {L : AliasLimits} {ob : Option Limits} {R : List RawItem} {evs : List Ev} {c d : Cur}
    (hs : FSim (docCtxB L ob R evs) c d) : ∃ q inq, d = .live q inq ∧ StatB L ob q ∧ J R inq := by
  obtain ⟨q, inq, rfl, hst, hJ, -⟩ := hs.inv
  exact ⟨q, inq, rfl, hst, hJ⟩

/-- the round at an opening event (a null-like scalar is skipped, anything else goes to `T::deserialize`) -/
theorem iter_rounds_open {L : AliasLimits} {ob : Option Limits} {evs : List Ev}
    (le : Loc) (X : List RawItem) (cfg : Cfg) (ty : Ty) (n : Nat)
    (ih : ∀ (c : Cur) (p : Pump) (inp : List RawItem) (r : Rounds),
      FSim (docCtxB L ob (.ev .docEnd le :: X) evs) c (.live p inp) → docRounds cfg ty n c = some r →
      RoundsSpec L ob cfg ty X p inp r)
    {c : Cur} {p p1 : Pump} {inp inp1 : List RawItem} {e : Ev} {r : Rounds}
    (hin : pos c < evs.length)
    (hp' : Cur.peek (.live p inp) = .ok (some e) (.live p1 inp1))
    (hs1 : FSim (docCtxB L ob (.ev .docEnd le :: X) evs) c (.live p1 inp1))
    (hopen : Lemmas.C05.Ev.isOpen e = true)
    (hr : (if evIsNull e then
        match c.next with
        | .ok _ c2 => (docRounds cfg ty n c2).map (Rounds.push [])
        | .err _ _ => none
      else
        match deser (fuelFor 100000) cfg ty false false c with
        | .err e _ => some ([.error e], false, 1)
        | .ok v c2 => (docRounds cfg ty n c2).map (Rounds.push [.ok v])) = some r) :
    RoundsSpec L ob cfg ty X p inp r := by
  have hloop := iterLoop_open cfg ty hp' hopen
  by_cases hnull : evIsNull e = true
  · -- a null-like scalar: skipped
    simp only [hnull, if_true] at hr hloop
    obtain ⟨e2, c2, d2, hb2, hn2, hn2', hs2, -, -⟩ := hs1.next hin
    obtain ⟨p2, inp2, rfl, -, -⟩ := live_of_inv hs2
    rw [hn2] at hr
    simp only [] at hr
    cases hr2 : docRounds cfg ty n c2 with
    | none => rw [hr2] at hr; cases hr
    | some r2 =>
      rw [hr2] at hr
      simp only [Option.map_some, Option.some.injEq] at hr
      subst hr
      obtain ⟨its', hsame, hT, hF⟩ := ih c2 p2 inp2 r2 hs2 hr2
      have hstep : ∀ m acc, iterLoop cfg ty (m + (r2.2.2 + 1)) p inp acc = iterLoop cfg ty (m + r2.2.2) p2 inp2 acc := by
        intro m acc
        rw [show m + (r2.2.2 + 1) = (m + r2.2.2) + 1 from rfl, hloop, hn2']
      refine ⟨its', by simpa [Rounds.push] using hsame, ?_, ?_⟩
      · intro hT'
        obtain ⟨q2, hb2', hl2, hp2, hf2, heq⟩ := hT hT'
        exact ⟨q2, hb2', hl2, hp2, hf2, fun m acc => by rw [show (Rounds.push [] r2).2.2 = r2.2.2 + 1 from rfl, hstep]; exact heq m acc⟩
      · intro hF'
        obtain ⟨h1, h2⟩ := hF hF'
        refine ⟨fun l1 hX m acc => ?_, fun ex ls Y hX => ?_⟩
        · rw [show (Rounds.push [] r2).2.2 = r2.2.2 + 1 from rfl, hstep]; exact h1 l1 hX m acc
        · obtain ⟨q4, hs4, hp4, heq⟩ := h2 ex ls Y hX
          exact ⟨q4, hs4, hp4, fun m acc => by rw [show (Rounds.push [] r2).2.2 = r2.2.2 + 1 from rfl, hstep]; exact heq m acc⟩
  · -- `T::deserialize`
    have hnull' : evIsNull e = false := by simpa using hnull
    simp only [hnull', Bool.false_eq_true, if_false] at hr hloop
    have hrf := (Lemmas.Frame.frA (docCtxB L ob (.ev .docEnd le :: X) evs) (fuelFor 100000)).deser cfg ty false false hs1 hin
    cases hL : deser (fuelFor 100000) cfg ty false false c with
    | err e1 c1 =>
      rw [hL] at hr
      simp only [Option.some.injEq] at hr
      subst hr
      obtain ⟨e', d3, hR, hs3⟩ := hrf.fwd_err hL
      obtain ⟨q3, inq3, rfl, hst3, hJ3⟩ := live_of_inv hs3
      obtain ⟨h1, h2⟩ := rounds_skip hst3 hJ3 cfg ty e'
      refine ⟨[.error e'], .cons trivial .nil, (fun h => by cases h), fun _ => ⟨?_, ?_⟩⟩
      · intro l1 hX m acc
        rw [show m + ([Except.error e1], false, 1).2.2 = m + 1 from rfl, hloop, hR]
        exact h1 l1 hX m acc
      · intro ex ls Y hX
        obtain ⟨q4, hs4, hp4, heq⟩ := h2 ex ls Y hX
        refine ⟨q4, hs4, hp4, fun m acc => ?_⟩
        rw [show m + ([Except.error e1], false, 1).2.2 = m + 1 from rfl, hloop, hR]
        exact heq m acc
    | ok v c2 =>
      rw [hL] at hr
      simp only [] at hr
      obtain ⟨v', d3, hR, rfl, hs3⟩ := hrf.fwd_ok hL
      obtain ⟨p3, inp3, rfl, -, -⟩ := live_of_inv hs3
      cases hr2 : docRounds cfg ty n c2 with
      | none => rw [hr2] at hr; cases hr
      | some r2 =>
        rw [hr2] at hr
        simp only [Option.map_some, Option.some.injEq] at hr
        subst hr
        obtain ⟨its', hsame, hT, hF⟩ := ih c2 p3 inp3 r2 hs3 hr2
        have hstep : ∀ m acc, iterLoop cfg ty (m + (r2.2.2 + 1)) p inp acc =
            iterLoop cfg ty (m + r2.2.2) p3 inp3 (acc ++ [.ok v]) := by
          intro m acc
          rw [show m + (r2.2.2 + 1) = (m + r2.2.2) + 1 from rfl, hloop, hR]
        refine ⟨.ok v :: its', ?_, ?_, ?_⟩
        · simp only [Rounds.push, List.singleton_append]
          exact .cons rfl hsame
        · intro hT'
          obtain ⟨q2, hb2', hl2, hp2, hf2, heq⟩ := hT hT'
          refine ⟨q2, hb2', hl2, hp2, hf2, fun m acc => ?_⟩
          rw [show (Rounds.push [.ok v] r2).2.2 = r2.2.2 + 1 from rfl, hstep, heq]
          simp
        · intro hF'
          obtain ⟨h1, h2⟩ := hF hF'
          refine ⟨fun l1 hX m acc => ?_, fun ex ls Y hX => ?_⟩
          · rw [show (Rounds.push [.ok v] r2).2.2 = r2.2.2 + 1 from rfl, hstep, h1 l1 hX]
            simp
          · obtain ⟨q4, hs4, hp4, heq⟩ := h2 ex ls Y hX
            refine ⟨q4, hs4, hp4, fun m acc => ?_⟩
            rw [show (Rounds.push [.ok v] r2).2.2 = r2.2.2 + 1 from rfl, hstep, heq]
            simp

/-- (frame) the iterator inside a served document of a stream makes the rounds of `docRounds` -/
theorem iter_rounds {L : AliasLimits} {ob : Option Limits} {t : LNode} {evs : List Ev} (hd : DocOk L t evs)
    (le : Loc) (X : List RawItem) (cfg : Cfg) (ty : Ty) :
    ∀ (fuel : Nat) (c : Cur) (p : Pump) (inp : List RawItem) (r : Rounds),
      FSim (docCtxB L ob (.ev .docEnd le :: X) evs) c (.live p inp) → docRounds cfg ty fuel c = some r →
      RoundsSpec L ob cfg ty X p inp r := by
  have hK := docCtxB_ok (ob := ob) hd (.ev .docEnd le :: X)
  -- the cursor at the end of the document
  have hend : ∀ (c : Cur) (p : Pump) (inp : List RawItem),
      FSim (docCtxB L ob (.ev .docEnd le :: X) evs) c (.live p inp) → pos c = evs.length →
      RoundsSpec L ob cfg ty X p inp ([], true, 0) := by
    intro c p inp hs hpos
    have hI := hs.inv
    rw [hpos] at hI
    simp only [docCtxB, List.drop_length] at hI
    obtain ⟨p2, q2, hd2, hb2, hl2, hp2, hf2, hpk2⟩ := doc_endB hI
    refine ⟨[], .nil, fun _ => ⟨q2, hb2, hl2, hp2, hf2, fun m acc => ?_⟩, fun h => by cases h⟩
    simpa using iterLoop_congr cfg ty hpk2 m acc
  intro fuel
  induction fuel with
  | zero =>
    intro c p inp r hs hr
    simp only [docRounds] at hr
    split at hr
    · rename_i c2 hc2
      cases hr
      exact hend c p inp hs ((fsim_peek_none hs).mp ⟨c2, hc2⟩)
    · cases hr
  | succ n ih =>
    intro c p inp r hs hr
    by_cases hpos : pos c = evs.length
    · obtain ⟨c2, hc2⟩ := (fsim_peek_none hs).mpr hpos
      simp only [docRounds, hc2] at hr
      cases hr
      exact hend c p inp hs hpos
    · have hin : pos c < evs.length := by
        have := hs.le
        simp only [docCtxB] at this
        omega
      obtain ⟨e, d1, hb, hp, hp', hs1⟩ := hs.peek hin
      obtain ⟨p1, inp1, rfl, hst1, hJ1⟩ := live_of_inv hs1
      simp only [docRounds, hp] at hr
      cases e with
      | seqEnd l =>
        simp only [] at hr
        cases hr
        obtain ⟨h1, h2⟩ := rounds_skip hst1 hJ1 cfg ty ⟨"UnexpectedSequenceEnd", l, 0⟩
        refine ⟨[.error ⟨"UnexpectedSequenceEnd", l, 0⟩], .cons trivial .nil, (fun h => by cases h), fun _ => ⟨?_, ?_⟩⟩
        · intro l1 hX m acc
          rw [iterLoop_seqEnd cfg ty hp' m acc]
          exact h1 l1 hX m acc
        · intro ex ls Y hX
          obtain ⟨q4, hs4, hp4, heq⟩ := h2 ex ls Y hX
          exact ⟨q4, hs4, hp4, fun m acc => by rw [iterLoop_seqEnd cfg ty hp' m acc]; exact heq m acc⟩
      | mapEnd l =>
        simp only [] at hr
        cases hr
        obtain ⟨h1, h2⟩ := rounds_skip hst1 hJ1 cfg ty ⟨"UnexpectedMappingEnd", l, 0⟩
        refine ⟨[.error ⟨"UnexpectedMappingEnd", l, 0⟩], .cons trivial .nil, (fun h => by cases h), fun _ => ⟨?_, ?_⟩⟩
        · intro l1 hX m acc
          rw [iterLoop_mapEnd cfg ty hp' m acc]
          exact h1 l1 hX m acc
        · intro ex ls Y hX
          obtain ⟨q4, hs4, hp4, heq⟩ := h2 ex ls Y hX
          exact ⟨q4, hs4, hp4, fun m acc => by rw [iterLoop_mapEnd cfg ty hp' m acc]; exact heq m acc⟩
      | scalar v tg rt st a l =>
        exact iter_rounds_open le X cfg ty n ih hin hp' hs1 rfl hr
      | seqStart a tg rt l =>
        exact iter_rounds_open le X cfg ty n ih hin hp' hs1 rfl hr
      | mapStart a l =>
        exact iter_rounds_open le X cfg ty n ih hin hp' hs1 rfl hr

end SaphyrVerif.Lemmas.C11B
