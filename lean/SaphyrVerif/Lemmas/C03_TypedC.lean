import SaphyrVerif.Lemmas.C03_TypedB
import SaphyrVerif.Lemmas.C05_Main
/-!
Helper lemmas for C03 (typed level), part C — typed values: congruence of the list helpers of `interp`
along "same keys, explicit values", heredity of the side conditions, unfolding lemmas.
-/
namespace SaphyrVerif.Lemmas.C03T
open SaphyrVerif SaphyrVerif.Scalars SaphyrVerif.Pump SaphyrVerif.De SaphyrVerif.Spec
open SaphyrVerif.Lemmas.C04 (keys)

/-! ### item lists -/

/-- item lists: every item written out (as a value) -/
inductive LRel (dup : DupPolicy) : List ENode → List ENode → Prop
  | nil : LRel dup [] []
  | cons {n n' : ENode} {ns ns' : List ENode} :
    writeOut dup n = n' → LRel dup ns ns' → LRel dup (n :: ns) (n' :: ns')

theorem writeOutL_rel (dup : DupPolicy) : ∀ (items : List ENode), LRel dup items (writeOutL dup items) := by
  intro items
  induction items with
  | nil => rw [writeOutL_nil]; exact LRel.nil
  | cons n ns ih => rw [writeOutL_cons]; exact LRel.cons rfl ih

theorem VRel.length_eq {dup : DupPolicy} {es es' : List (ENode × ENode)} (h : VRel dup es es') : es.length = es'.length := by
  induction h with
  | nil => rfl
  | cons _ _ ih => simp [ih]

/-- writing out does not change the kind of a node (nor a scalar) -/
theorem writeOut_isNullish (dup : DupPolicy) (t : ENode) : isNullishNode t = isNullishNode (writeOut dup t) := by
  cases t with
  | scalar v tag rt st a l => rw [writeOut_scalar]
  | seq a tag rt l el items => rw [writeOut_seq]; rfl
  | map a l el entries => rw [writeOut_map]; split <;> rfl

/-! ### the side conditions are hereditary -/

theorem enumFree_option (t : Ty) : enumFree (.option t) = enumFree t := by rw [enumFree]
theorem enumFree_newtype (t : Ty) : enumFree (.newtype t) = enumFree t := by rw [enumFree]
theorem enumFree_seq (t : Ty) : enumFree (.seq t) = enumFree t := by rw [enumFree]
theorem enumFree_tuple (ts : List Ty) : enumFree (.tuple ts) = enumFreeL ts := by rw [enumFree]
theorem enumFree_map (k v : Ty) : enumFree (.map k v) = enumFree v := by rw [enumFree]
theorem enumFree_struct (fs : List (String × Ty)) (d : Bool) : enumFree (.struct fs d) = enumFreeF fs := by rw [enumFree]
theorem enumFree_enum (n : String) (vs : List (String × VTy)) : enumFree (.enum n vs) = false := by rw [enumFree]
theorem enumFree_any : enumFree .any = true := by simp [enumFree]

theorem enumFreeL_mem {ts : List Ty} (h : enumFreeL ts = true) {t : Ty} (ht : t ∈ ts) : enumFree t = true := by
  induction ts with
  | nil => cases ht
  | cons x xs ih =>
    rw [enumFreeL, Bool.and_eq_true] at h
    rcases List.mem_cons.1 ht with rfl | hm
    · exact h.1
    · exact ih h.2 hm

theorem enumFreeF_mem {fs : List (String × Ty)} (h : enumFreeF fs = true) {nt : String × Ty} (ht : nt ∈ fs) :
    enumFree nt.2 = true := by
  induction fs with
  | nil => cases ht
  | cons x xs ih =>
    obtain ⟨n, t⟩ := x
    rw [enumFreeF, Bool.and_eq_true] at h
    rcases List.mem_cons.1 ht with rfl | hm
    · exact h.1
    · exact ih h.2 hm

theorem enumStable_seq (dup : DupPolicy) (a tag : Nat) (rt : Option (List Char)) (l el : Loc) (items : List ENode) :
    enumStable dup (.seq a tag rt l el items) = enumStableL dup items := by rw [enumStable]
theorem enumStable_map (dup : DupPolicy) (a : Nat) (l el : Loc) (entries : List (ENode × ENode)) :
    enumStable dup (.map a l el entries) = (shapeStable dup entries && enumStableE dup entries) := by rw [enumStable]
theorem enumStableSrc_seq (dup : DupPolicy) (a tag : Nat) (rt : Option (List Char)) (l el : Loc) (items : List ENode) :
    enumStableSrc dup (.seq a tag rt l el items) = enumStableSrcL dup items := by rw [enumStableSrc]
theorem enumStableSrc_map (dup : DupPolicy) (a : Nat) (l el : Loc) (entries : List (ENode × ENode)) :
    enumStableSrc dup (.map a l el entries) = enumStableE dup entries := by rw [enumStableSrc]
theorem enumStableE_cons (dup : DupPolicy) (k v : ENode) (rest : List (ENode × ENode)) :
    enumStableE dup ((k, v) :: rest) =
      ((if isMergeKeyNode k then enumStableSrc dup v else enumStable dup v) && enumStableE dup rest) := by
  rw [enumStableE]

theorem enumStableL_mem {dup : DupPolicy} {items : List ENode} (h : enumStableL dup items = true) {n : ENode}
    (hn : n ∈ items) : enumStable dup n = true := by
  induction items with
  | nil => cases hn
  | cons x xs ih =>
    rw [enumStableL, Bool.and_eq_true] at h
    rcases List.mem_cons.1 hn with rfl | hm
    · exact h.1
    · exact ih h.2 hm

theorem enumStableE_mem {dup : DupPolicy} {es : List (ENode × ENode)} (h : enumStableE dup es = true) {e : ENode × ENode}
    (he : e ∈ es) : (if isMergeKeyNode e.1 then enumStableSrc dup e.2 else enumStable dup e.2) = true := by
  induction es with
  | nil => cases he
  | cons x xs ih =>
    obtain ⟨k, v⟩ := x
    rw [enumStableE_cons, Bool.and_eq_true] at h
    rcases List.mem_cons.1 he with rfl | hm
    · exact h.1
    · exact ih h.2 hm

mutual
theorem enumStableSrc_entries (dup : DupPolicy) : ∀ (n : ENode) (b : List (ENode × ENode)), enumStableSrc dup n = true →
    sourceEntries n = some b → ∀ e ∈ b, enumStable dup e.2 = true
  | .scalar v tag rt st a l, b, _, h => by
    simp only [C05.sourceEntries_scalar] at h
    split at h
    · cases h; simp
    · cases h
  | .seq a tag rt l el items, b, hs, h => by
    rw [enumStableSrc_seq] at hs
    simp only [C05.sourceEntries_seq] at h
    exact enumStableSrcL_entries dup items b hs h
  | .map a l el entries, b, hs, h => by
    rw [enumStableSrc_map] at hs
    simp only [C05.sourceEntries_map] at h
    exact enumStableE_entries dup entries b hs h
theorem enumStableSrcL_entries (dup : DupPolicy) : ∀ (items : List ENode) (b : List (ENode × ENode)),
    enumStableSrcL dup items = true → seqSourceEntries items = some b → ∀ e ∈ b, enumStable dup e.2 = true
  | [], b, _, h => by simp at h; subst h; simp
  | n :: ns, b, hs, h => by
    rw [enumStableSrcL, Bool.and_eq_true] at hs
    rw [C05.seqSourceEntries_cons] at h
    cases hb : sourceEntries n with
    | none => simp [hb] at h
    | some b0 =>
      cases hr : seqSourceEntries ns with
      | none => simp [hb, hr] at h
      | some r =>
        simp only [hb, hr, Option.some.injEq] at h
        subst h
        intro e he
        rcases List.mem_append.1 he with he | he
        · exact enumStableSrcL_entries dup ns r hs.2 hr e he
        · exact enumStableSrc_entries dup n b0 hs.1 hb e he
theorem enumStableE_entries (dup : DupPolicy) : ∀ (entries b : List (ENode × ENode)),
    enumStableE dup entries = true → mapSourceEntries entries = some b → ∀ e ∈ b, enumStable dup e.2 = true
  | [], b, _, h => by simp at h; subst h; simp
  | (k, v) :: rest, b, hs, h => by
    rw [enumStableE_cons, Bool.and_eq_true] at hs
    rw [C05.mapSourceEntries_cons] at h
    by_cases hk : isMergeKeyNode k = true
    · simp only [hk, if_true] at h hs
      cases hb : sourceEntries v with
      | none => simp [hb] at h
      | some b0 =>
        cases hr : mapSourceEntries rest with
        | none => simp [hb, hr] at h
        | some r =>
          simp only [hb, hr, Option.some.injEq] at h
          subst h
          intro e he
          rcases List.mem_append.1 he with he | he
          · exact enumStableE_entries dup rest r hs.2 hr e he
          · exact enumStableSrc_entries dup v b0 hs.1 hb e he
    · simp only [hk, Bool.false_eq_true, if_false] at h hs
      cases hr : mapSourceEntries rest with
      | none => simp [hr] at h
      | some r =>
        simp only [hr, Option.some.injEq] at h
        subst h
        intro e he
        rcases List.mem_cons.1 he with rfl | he
        · exact hs.1
        · exact enumStableE_entries dup rest r hs.2 hr e he
end

/-- the values of the effective entries of a stable mapping are stable -/
theorem enumStable_eff {dup dup' : DupPolicy} {entries es : List (ENode × ENode)} (hs : enumStableE dup entries = true)
    (h : effEntries dup' entries = some es) : ∀ e ∈ es, enumStable dup e.2 = true := by
  obtain ⟨ownKept, batches, h1, h2, rfl⟩ := (C03.effEntries_eq_some_iff dup' entries es).1 h
  have hsub := C04.applyPolicy_sublist dup' _ [] ownKept h1
  intro e he
  rcases List.mem_append.1 he with he | he
  · have hm := splitEntries_own_mem entries e (hsub.subset he)
    have hk := C03.splitEntries_own_no_merge entries e (hsub.subset he)
    have := enumStableE_mem hs hm
    simpa [hk] using this
  · have he' := (C04.dropSeen_sublist batches.flatten _).subset he
    obtain ⟨b, hb', heb⟩ := List.mem_flatten.1 he'
    obtain ⟨n, hn, hnb⟩ := C03.mapM_option_mem sourceEntries _ batches h2 b hb'
    obtain ⟨k, hk, hkm⟩ := splitEntries_merge_mem entries n (List.mem_reverse.1 hn)
    have := enumStableE_mem hs hk
    simp only [hkm, if_true] at this
    exact enumStableSrc_entries dup n b this hnb e heb

/-! ### congruence of the list helpers -/

theorem listFrom_congr {dup : DupPolicy} {f : NodeFn} {items items' : List ENode} (h : LRel dup items items')
    (hf : ∀ n n', n ∈ items → writeOut dup n = n' → f n = f n') : listFrom f items = listFrom f items' := by
  induction h with
  | nil => rfl
  | @cons n n' ns ns' hn _ ih =>
    simp only [listFrom]
    rw [hf n n' (List.mem_cons_self ..) hn, ih (fun m m' hm => hf m m' (List.mem_cons_of_mem _ hm))]

theorem tupleFrom_congr {dup : DupPolicy} {items items' : List ENode} (h : LRel dup items items') :
    ∀ (fs : List NodeFn), (∀ f ∈ fs, ∀ n n', n ∈ items → writeOut dup n = n' → f n = f n') →
      tupleFrom fs items = tupleFrom fs items' := by
  induction h with
  | nil => intro fs _; rfl
  | @cons n n' ns ns' hn _ ih =>
    intro fs hf
    cases fs with
    | nil => simp [tupleFrom]
    | cons f fs =>
      rw [C05.tupleFrom_cons, C05.tupleFrom_cons]
      rw [hf f (List.mem_cons_self ..) n n' (List.mem_cons_self ..) hn,
        ih fs (fun g hg m m' hm => hf g (List.mem_cons_of_mem _ hg) m m' (List.mem_cons_of_mem _ hm))]

theorem pairsFrom_congr {dup : DupPolicy} {kf vf : NodeFn} {es es' : List (ENode × ENode)} (h : VRel dup es es')
    (hf : ∀ e ∈ es, ∀ v', writeOut dup e.2 = v' → vf e.2 = vf v') : pairsFrom kf vf es = pairsFrom kf vf es' := by
  induction h with
  | nil => rfl
  | @cons k v v' es es' hv _ ih =>
    rw [C05.pairsFrom_cons, C05.pairsFrom_cons]
    rw [hf (k, v) (List.mem_cons_self ..) v' hv, ih (fun e he => hf e (List.mem_cons_of_mem _ he))]

theorem fieldEntriesFrom_congr {dup : DupPolicy} (cfg : Cfg) (fs : FieldFns) (deny : Bool) {es es' : List (ENode × ENode)}
    (h : VRel dup es es')
    (hf : ∀ f ∈ fs, ∀ e ∈ es, ∀ v', writeOut dup e.2 = v' → f.2.2 e.2 = f.2.2 v')
    (hany : ∀ e ∈ es, ∀ v', writeOut dup e.2 = v' → interpAny cfg (depthOf e.2) e.2 = interpAny cfg (depthOf v') v') :
    ∀ acc, fieldEntriesFrom cfg fs deny es acc = fieldEntriesFrom cfg fs deny es' acc := by
  induction h with
  | nil => intro acc; rfl
  | @cons k v v' es es' hv _ ih =>
    intro acc
    have ih' := ih (fun f hf' e he => hf f hf' e (List.mem_cons_of_mem _ he)) (fun e he => hany e (List.mem_cons_of_mem _ he))
    rw [C05.fieldEntriesFrom_cons, C05.fieldEntriesFrom_cons]
    cases identOf cfg k with
    | none => rfl
    | some name =>
      simp only []
      cases hfind : fs.find? (fun f => f.1.toList == name) with
      | none =>
        simp only []
        rw [hany (k, v) (List.mem_cons_self ..) v' hv, ih' acc]
      | some f =>
        obtain ⟨fname, isOpt, g⟩ := f
        simp only []
        have hmem := List.mem_of_find?_eq_some hfind
        have := hf _ hmem (k, v) (List.mem_cons_self ..) v' hv
        simp only at this
        rw [this]
        split
        · rfl
        · cases g v' with
          | none => rfl
          | some val => exact ih' _

/-! ### the function tables of a type -/

theorem interpFns_mem (cfg : Cfg) : ∀ (ts : List Ty), ∀ f ∈ interpFns cfg ts, ∃ t ∈ ts, f = interp cfg t := by
  intro ts
  induction ts with
  | nil => rw [C05.interpFns_nil]; simp
  | cons t ts ih =>
    rw [C05.interpFns_cons]
    intro f hf
    rcases List.mem_cons.1 hf with rfl | hf
    · exact ⟨t, List.mem_cons_self .., rfl⟩
    · obtain ⟨t', h1, h2⟩ := ih f hf
      exact ⟨t', List.mem_cons_of_mem _ h1, h2⟩

theorem fieldFns_mem (cfg : Cfg) : ∀ (fs : List (String × Ty)), ∀ f ∈ fieldFns cfg fs,
    ∃ nt ∈ fs, f = (nt.1, isOptionTy nt.2, interp cfg nt.2) := by
  intro fs
  induction fs with
  | nil => rw [C05.fieldFns_nil]; simp
  | cons x fs ih =>
    obtain ⟨n, t⟩ := x
    rw [C05.fieldFns_cons]
    intro f hf
    rcases List.mem_cons.1 hf with rfl | hf
    · exact ⟨(n, t), List.mem_cons_self .., rfl⟩
    · obtain ⟨nt, h1, h2⟩ := ih f hf
      exact ⟨nt, List.mem_cons_of_mem _ h1, h2⟩

theorem variantFns_mem (cfg : Cfg) : ∀ (vs : List (String × VTy)), ∀ q ∈ variantFns cfg vs,
    ∃ p ∈ vs, q = (p.1, C05.varFnOf cfg p.2) := by
  intro vs
  induction vs with
  | nil => rw [C05.variantFns_nil]; simp
  | cons x vs ih =>
    obtain ⟨n, vt⟩ := x
    rw [C05.variantFns_cons]
    intro q hq
    rcases List.mem_cons.1 hq with rfl | hq
    · exact ⟨(n, vt), List.mem_cons_self .., rfl⟩
    · obtain ⟨p, h1, h2⟩ := ih q hq
      exact ⟨p, List.mem_cons_of_mem _ h1, h2⟩

/-! ### unfolding `interp` -/

theorem interp_newtype (cfg : Cfg) (t : Ty) (n : ENode) : interp cfg (.newtype t) n = interp cfg t n := by rw [interp]

theorem interp_option_seq (cfg : Cfg) (t : Ty) (a tag : Nat) (rt : Option (List Char)) (l el : Loc) (items : List ENode) :
    interp cfg (.option t) (.seq a tag rt l el items) = (interp cfg t (.seq a tag rt l el items)).map .some := by
  rw [interp]

theorem interp_option_map (cfg : Cfg) (t : Ty) (a : Nat) (l el : Loc) (es : List (ENode × ENode)) :
    interp cfg (.option t) (.map a l el es) = (interp cfg t (.map a l el es)).map .some := by
  rw [interp]

theorem interp_struct (cfg : Cfg) (fs : List (String × Ty)) (deny : Bool) (n : ENode) :
    interp cfg (.struct fs deny) n = structNode cfg (fieldFns cfg fs) deny n := by rw [interp]

theorem interp_enum (cfg : Cfg) (name : String) (vs : List (String × VTy)) (n : ENode) :
    interp cfg (.enum name vs) n = enumFrom cfg name (variantFns cfg vs) n := by rw [interp]

/-- the item reader of a byte sequence -/
def byteItem (cfg : Cfg) (it : ENode) : Option Nat :=
  match it with
  | ENode.scalar v _ _ _ _ _ => parseIntUnsigned 8 cfg.legacyOctal v
  | _ => none

theorem interp_bytes_seq (cfg : Cfg) (a tag : Nat) (rt : Option (List Char)) (l el : Loc) (items : List ENode) :
    interp cfg .bytes (.seq a tag rt l el items) = (items.mapM (byteItem cfg)).map .bytes := by
  rw [interp]; rfl

theorem mapM_lrel {β : Type} {dup : DupPolicy} {g : ENode → Option β} {items items' : List ENode} (h : LRel dup items items')
    (hg : ∀ n n', n ∈ items → writeOut dup n = n' → g n = g n') : items.mapM g = items'.mapM g := by
  induction h with
  | nil => rfl
  | @cons n n' ns ns' hn _ ih =>
    simp only [List.mapM_cons]
    rw [hg n n' (List.mem_cons_self ..) hn, ih (fun m m' hm => hg m m' (List.mem_cons_of_mem _ hm))]

theorem byteItem_writeOut (dup : DupPolicy) (cfg : Cfg) (n : ENode) : byteItem cfg n = byteItem cfg (writeOut dup n) := by
  cases n with
  | scalar v tag rt st a l => rw [writeOut_scalar]
  | seq a tag rt l el items => rw [writeOut_seq]; rfl
  | map a l el entries => rw [writeOut_map]; split <;> rfl

/-! ### enums -/

theorem sizeOf_tuple_variant {name : String} {variants : List (String × VTy)} {nm : String} {ts : List Ty}
    (hm : (nm, VTy.tuple ts) ∈ variants) : sizeOf (Ty.tuple ts) < sizeOf (Ty.enum name variants) := by
  have := List.sizeOf_lt_of_mem hm
  simp at this ⊢
  omega

theorem sizeOf_struct_variant {name : String} {variants : List (String × VTy)} {nm : String} {fs : List (String × Ty)}
    (hm : (nm, VTy.struct fs) ∈ variants) : sizeOf (Ty.struct fs false) < sizeOf (Ty.enum name variants) := by
  have := List.sizeOf_lt_of_mem hm
  have hn : 0 < sizeOf name := by cases name; simp; omega
  simp at this ⊢
  omega

/-- agreement of one variant's payload interpreter on two payload nodes -/
def VarAgree (cfg : Cfg) (p p' : ENode) : VarFn → Prop
  | .unit => True
  | .newtype _ f => f p = f p'
  | .tuple fs acc => tupleNode fs acc p = tupleNode fs acc p'
  | .struct fs => structNode cfg fs false p = structNode cfg fs false p'

theorem variantFrom_congr (cfg : Cfg) (nm : List Char) (p p' : ENode) (tg : Bool)
    (hnull : isNullishNode p = isNullishNode p') :
    ∀ (vs : List (String × VarFn)), (∀ q ∈ vs, VarAgree cfg p p' q.2) →
      variantFrom cfg vs nm (some p) tg = variantFrom cfg vs nm (some p') tg := by
  intro vs
  induction vs with
  | nil => intro _; rw [C05.variantFrom_nil, C05.variantFrom_nil]
  | cons q vs ih =>
    intro h
    obtain ⟨n, vf⟩ := q
    by_cases hn : n.toList = nm
    · rw [C05.variantFrom_cons_eq _ _ _ _ _ _ _ hn, C05.variantFrom_cons_eq _ _ _ _ _ _ _ hn]
      have := h (n, vf) (List.mem_cons_self ..)
      cases vf with
      | unit => simp only [hnull]
      | newtype ab f => simp only [VarAgree] at this; simp only [this]
      | tuple fs acc => simp only [VarAgree] at this; simp only [this]
      | struct fs => simp only [VarAgree] at this; simp only [this]
    · rw [C05.variantFrom_cons_ne _ _ _ _ _ _ _ hn, C05.variantFrom_cons_ne _ _ _ _ _ _ _ hn]
      exact ih (fun q hq => h q (List.mem_cons_of_mem _ hq))

/-- the payload of the selected variant: two payload nodes on which all smaller types agree -/
theorem variant_payload_congr (cfg : Cfg) (name : String) (vs : List (String × VTy)) (nm : List Char) (p p' : ENode)
    (tg : Bool) (hnull : isNullishNode p = isNullishNode p')
    (ih : ∀ ty, sizeOf ty < sizeOf (Ty.enum name vs) → interp cfg ty p = interp cfg ty p') :
    variantFrom cfg (variantFns cfg vs) nm (some p) tg = variantFrom cfg (variantFns cfg vs) nm (some p') tg := by
  apply variantFrom_congr cfg nm p p' tg hnull
  intro q hq
  obtain ⟨⟨n, vt⟩, hp, rfl⟩ := variantFns_mem cfg vs q hq
  cases vt with
  | unit => simp only [C05.varFnOf, VarAgree]
  | newtype t =>
    simp only [C05.varFnOf, VarAgree]
    exact ih t (C05.sizeOf_newtype_variant hp)
  | tuple ts =>
    simp only [C05.varFnOf, VarAgree]
    rw [← C05.interp_tuple, ← C05.interp_tuple]
    exact ih _ (sizeOf_tuple_variant hp)
  | struct fs =>
    simp only [C05.varFnOf, VarAgree]
    rw [← interp_struct, ← interp_struct]
    exact ih _ (sizeOf_struct_variant hp)

theorem enumFrom_map_not_singleton (cfg : Cfg) (name : String) (vs : List (String × VarFn)) (a : Nat) (l el : Loc)
    (entries : List (ENode × ENode)) (h : entries.length ≠ 1) : enumFrom cfg name vs (.map a l el entries) = none := by
  cases entries with
  | nil => exact C05.enumFrom_map_nil ..
  | cons e more =>
    obtain ⟨k, p⟩ := e
    cases more with
    | nil => simp at h
    | cons e2 more =>
      cases k with
      | scalar => rw [C05.enumFrom_map_scalarKey]; simp
      | seq => exact C05.enumFrom_map_seqKey ..
      | map => exact C05.enumFrom_map_mapKey ..

theorem eff_singleton (dup : DupPolicy) (k v : ENode) (hk : isMergeKeyNode k = false) :
    effEntries dup [(k, v)] = some [(k, v)] := by
  apply eff_of_no_merge
  · simp [hk]
  · cases dup <;> simp [applyPolicy]

end SaphyrVerif.Lemmas.C03T
