import SaphyrVerif.Spec.Scalars
/-!
Helper lemmas for C06 (exact scalar interpretation, base64).
-/
namespace SaphyrVerif.Lemmas.C06
open SaphyrVerif SaphyrVerif.Scalars SaphyrVerif.Spec SaphyrVerif.Base64

/-! ## accumulator -/

theorem foldl_step_ge (radix : Nat) (hr : 1 ≤ radix) (ds : List Nat) (v : Nat) :
    v ≤ List.foldl (fun a d => a * radix + d) v ds := by
  induction ds generalizing v with
  | nil => simp
  | cons d ds ih =>
    simp only [List.foldl_cons]
    have h1 : v ≤ v * radix + d := by
      have : v * 1 ≤ v * radix := Nat.mul_le_mul_left v hr
      omega
    exact Nat.le_trans h1 (ih _)

/-- The result of the accumulator, expressed on the list of digit values. -/
def finish (radix max : Nat) (val : Nat) (saw : Bool) (ds : List Nat) : Option Nat :=
  if ds.isEmpty && !saw then none
  else if List.foldl (fun a d => a * radix + d) val ds ≤ max
    then some (List.foldl (fun a d => a * radix + d) val ds) else none

theorem accum_gen (radix max : Nat) (hr : 1 ≤ radix) (s : List Char) :
    ∀ (val : Nat) (saw : Bool), val ≤ max →
      accum radix max s val saw =
        ((s.filter (fun c => c != '_')).mapM (digitOf radix)).bind (finish radix max val saw) := by
  induction s with
  | nil =>
    intro val saw hv
    cases saw <;> simp [accum, finish, hv]
  | cons c cs ih =>
    intro val saw hv
    by_cases hc : c = '_'
    · subst hc
      simp [accum, ih val saw hv]
    · have hc' : (c != '_') = true := by simp [hc]
      have hc'' : (c == '_') = false := by simp [hc]
      rw [List.filter_cons_of_pos (p := fun c => c != ('_' : Char)) (a := c) (l := cs) hc']
      simp only [accum, hc'', Bool.false_eq_true, if_false, List.mapM_cons]
      cases hd : digitOf radix c with
      | none => simp
      | some d =>
        simp only [Option.pure_def, Option.bind_eq_bind, Option.bind_some]
        by_cases hv' : val * radix + d > max
        · simp only [hv', if_true]
          cases hm : List.mapM (digitOf radix) (cs.filter (fun c => c != '_')) with
          | none => simp
          | some ds =>
            have := foldl_step_ge radix hr ds (val * radix + d)
            have h2 : ¬ (List.foldl (fun a d => a * radix + d) (val * radix + d) ds ≤ max) := by omega
            simp [finish, h2]
        · simp only [hv', if_false]
          rw [ih _ true (by omega)]
          cases hm : List.mapM (digitOf radix) (cs.filter (fun c => c != '_')) with
          | none => simp
          | some ds =>
            simp only [finish, List.isEmpty_cons, Bool.false_and, Bool.not_true, Bool.and_false,
              Bool.false_eq_true, if_false, Option.bind_some, List.foldl_cons]
            rfl


theorem accum_exact (radix max : Nat) (hr : 1 ≤ radix) (s : List Char) :
    accum radix max s 0 false =
      (digitsValue? radix s).bind (fun v => if v ≤ max then some v else none) := by
  rw [accum_gen radix max hr s 0 false (Nat.zero_le _)]
  unfold digitsValue?
  simp only []
  generalize s.filter (fun c => c != '_') = cs
  cases cs with
  | nil => simp [finish]
  | cons c cs =>
    simp only [List.mapM_cons, List.isEmpty_cons, Bool.false_eq_true, if_false]
    cases hd : digitOf radix c with
    | none => simp
    | some d =>
      cases hm : List.mapM (digitOf radix) cs with
      | none => simp
      | some ds => simp [finish]

/-! ## integers -/

theorem radix_pos (legacy : Bool) (rest : List Char) : 1 ≤ (radixAndDigits legacy rest).1 := by
  unfold radixAndDigits
  split <;> (try split) <;> (try split) <;> simp

theorem pow_le_127 (w : Nat) (hw : w ≤ 128) :
    (2 : Int) ^ (w - 1) ≤ 170141183460469231731687303715884105728 := by
  have h : (2 : Nat) ^ (w - 1) ≤ 2 ^ 127 := Nat.pow_le_pow_right (by decide) (by omega)
  have h2 : (2 : Nat) ^ 127 = 170141183460469231731687303715884105728 := by decide
  rw [h2] at h
  have h3 : (((2 : Nat) ^ (w - 1) : Nat) : Int) = (2 : Int) ^ (w - 1) := Int.natCast_pow 2 (w - 1)
  rw [← h3]
  generalize (2 : Nat) ^ (w - 1) = q at h
  omega

theorem pow_le_128 (w : Nat) (hw : w ≤ 128) : (2 : Nat) ^ w ≤ 2 ^ 128 :=
  Nat.pow_le_pow_right (by decide) hw

/-- Body of `parseIntSigned` after the sign/radix split. -/
def signedCore (w : Nat) (neg : Bool) (radix : Nat) (digits : List Char) : Option Int :=
  if radix == 10 then
    match parseDecimalSignedI128 digits neg with
    | none => none
    | some v => if fitsSigned w v then some v else none
  else
    match parseDigitsU128 digits radix with
    | none => none
    | some mag =>
      let v128 : Option Int :=
        if neg then (if mag ≤ I128_MAX + 1 then some (- (Int.ofNat mag)) else none)
        else (if mag ≤ I128_MAX then some (Int.ofNat mag) else none)
      match v128 with
      | none => none
      | some v => if fitsSigned w v then some v else none

theorem fits_pos_bound (w : Nat) (hw : w ≤ 128) (m : Nat)
    (hb : ¬ m ≤ I128_MAX) : fitsSigned w (m : Int) = false := by
  have hp := pow_le_127 w hw
  unfold fitsSigned
  generalize (2 : Int) ^ (w - 1) = P at hp
  simp only [I128_MAX] at hb
  simp only [Bool.and_eq_false_iff, decide_eq_false_iff_not]
  omega

theorem fits_neg_bound (w : Nat) (hw : w ≤ 128) (m : Nat)
    (hb : ¬ m ≤ I128_MAX + 1) : fitsSigned w (- (m : Int)) = false := by
  have hp := pow_le_127 w hw
  unfold fitsSigned
  generalize (2 : Int) ^ (w - 1) = P at hp
  simp only [I128_MAX] at hb
  simp only [Bool.and_eq_false_iff, decide_eq_false_iff_not]
  omega

theorem i128_le_u128 : I128_MAX + 1 ≤ U128_MAX := by decide

theorem signedCore_exact (w : Nat) (hw : w ≤ 128) (neg : Bool) (radix : Nat) (hr : 1 ≤ radix)
    (digits : List Char) :
    signedCore w neg radix digits =
      ((digitsValue? radix digits).map (fun m => if neg then - (Int.ofNat m) else Int.ofNat m)).bind
        (fun v => if fitsSigned w v then some v else none) := by
  have hiu := i128_le_u128
  unfold signedCore
  by_cases h10 : radix = 10
  · subst h10
    simp only [beq_self_eq_true, if_true, parseDecimalSignedI128]
    cases neg
    · simp only [Bool.false_eq_true, if_false]
      rw [accum_exact 10 _ (by decide)]
      cases digitsValue? 10 digits with
      | none => simp
      | some m =>
        simp only [Option.bind_some, Option.map_some]
        by_cases hb : m ≤ I128_MAX
        · simp [hb]
        · have := fits_pos_bound w hw m hb
          simp [hb, this]
    · simp only [if_true]
      rw [accum_exact 10 _ (by decide)]
      cases digitsValue? 10 digits with
      | none => simp
      | some m =>
        simp only [Option.bind_some, Option.map_some]
        by_cases hb : m ≤ I128_MAX + 1
        · simp [hb]
        · have := fits_neg_bound w hw m hb
          simp [hb, this]
  · have h10' : (radix == 10) = false := by simp [h10]
    simp only [h10', Bool.false_eq_true, if_false, parseDigitsU128]
    rw [accum_exact radix _ hr]
    cases digitsValue? radix digits with
    | none => simp
    | some m =>
      simp only [Option.bind_some, Option.map_some]
      cases neg
      · simp only [Bool.false_eq_true, if_false]
        by_cases hb : m ≤ I128_MAX
        · have : m ≤ U128_MAX := by omega
          simp [hb, this]
        · have := fits_pos_bound w hw m hb
          by_cases hu : m ≤ U128_MAX <;> simp [hb, this, hu]
      · simp only [if_true]
        by_cases hb : m ≤ I128_MAX + 1
        · have : m ≤ U128_MAX := by omega
          simp [hb, this]
        · have := fits_neg_bound w hw m hb
          by_cases hu : m ≤ U128_MAX <;> simp [hb, this, hu]


/-- Body of `parseIntUnsigned` after the sign/radix split. -/
def unsignedCore (w : Nat) (radix : Nat) (digits : List Char) : Option Nat :=
  match (if radix == 10 then parseDecimalUnsignedU128 digits else parseDigitsU128 digits radix) with
  | none => none
  | some m => if fitsUnsigned w m then some m else none

theorem fits_u_bound (w : Nat) (hw : w ≤ 128) (m : Nat) (hb : ¬ m ≤ U128_MAX) :
    fitsUnsigned w m = false := by
  have hp := pow_le_128 w hw
  have h2 : (2 : Nat) ^ 128 = 340282366920938463463374607431768211456 := by decide
  unfold fitsUnsigned
  generalize (2 : Nat) ^ w = P at hp
  simp only [U128_MAX] at hb
  simp only [decide_eq_false_iff_not]
  omega

theorem unsignedCore_exact (w : Nat) (hw : w ≤ 128) (radix : Nat) (hr : 1 ≤ radix)
    (digits : List Char) :
    unsignedCore w radix digits =
      (digitsValue? radix digits).bind (fun v => if fitsUnsigned w v then some v else none) := by
  have hacc : (if radix == 10 then parseDecimalUnsignedU128 digits else parseDigitsU128 digits radix)
      = accum radix U128_MAX digits 0 false := by
    by_cases h10 : radix = 10
    · subst h10; simp [parseDecimalUnsignedU128]
    · simp [h10, parseDigitsU128]
  unfold unsignedCore
  rw [hacc, accum_exact radix _ hr]
  cases digitsValue? radix digits with
  | none => simp
  | some m =>
    simp only [Option.bind_some]
    by_cases hb : m ≤ U128_MAX
    · simp [hb]
    · simp [hb, fits_u_bound w hw m hb]

theorem dash_match (t : List Char) (A B : Option Nat) (f : Nat → Option Nat) (h : A = B.bind f) :
    (match t with | '-' :: _ => none | _ => A) =
      (match t with | '-' :: _ => (none : Option Nat) | _ => B).bind f := by
  split
  · simp
  · exact h


theorem bind_fit_some {α : Type} (o : Option α) (p : α → Bool) (v : α) :
    (o.bind (fun v => if p v then some v else none)) = some v ↔ o = some v ∧ p v = true := by
  cases o with
  | none => simp
  | some x =>
    simp only [Option.bind_some, Option.some.injEq]
    by_cases hp : p x = true
    · simp only [hp, if_true, Option.some.injEq]
      constructor
      · rintro rfl; exact ⟨rfl, hp⟩
      · rintro ⟨h, -⟩; exact h
    · simp only [hp, Bool.false_eq_true, if_false]
      constructor
      · intro h; cases h
      · rintro ⟨rfl, h⟩; exact absurd h hp

/-! ## booleans and null-likes -/

theorem table_lemma (x a b c d a' b' c' d' : List Char)
    (hdisj : ∀ y ∈ [a', b', c', d'], y ∉ [a, b, c, d]) :
    ((if (x == a || x == b || x == c || x == d) then some true
      else if (x == a' || x == b' || x == c' || x == d') then some false else none) = some true
        ↔ x ∈ [a, b, c, d]) ∧
    ((if (x == a || x == b || x == c || x == d) then some true
      else if (x == a' || x == b' || x == c' || x == d') then some false else none) = some false
        ↔ x ∈ [a', b', c', d']) := by
  have c1 : ((x == a || x == b || x == c || x == d) = true) ↔ x ∈ [a, b, c, d] := by
    simp [or_assoc]
  have c2 : ((x == a' || x == b' || x == c' || x == d') = true) ↔ x ∈ [a', b', c', d'] := by
    simp [or_assoc]
  by_cases h1 : x ∈ [a, b, c, d]
  · rw [if_pos (c1.mpr h1)]
    refine ⟨by simp [h1], ?_⟩
    constructor
    · intro h; cases h
    · intro h2; exact absurd h1 (hdisj x h2)
  · rw [if_neg (mt c1.mp h1)]
    by_cases h2 : x ∈ [a', b', c', d']
    · rw [if_pos (c2.mpr h2)]
      refine ⟨?_, by simp [h2]⟩
      constructor
      · intro h; cases h
      · intro h; exact absurd h h1
    · rw [if_neg (mt c2.mp h2)]
      refine ⟨?_, ?_⟩
      · constructor
        · intro h; cases h
        · intro h; exact absurd h h1
      · constructor
        · intro h; cases h
        · intro h; exact absurd h h2

theorem lower_consts :
    lowerAscii "true".toList = "true".toList ∧ lowerAscii "yes".toList = "yes".toList ∧
    lowerAscii "y".toList = "y".toList ∧ lowerAscii "on".toList = "on".toList ∧
    lowerAscii "false".toList = "false".toList ∧ lowerAscii "no".toList = "no".toList ∧
    lowerAscii "n".toList = "n".toList ∧ lowerAscii "off".toList = "off".toList ∧
    lowerAscii "null".toList = "null".toList := by decide

/-! ## base64 -/

theorem decodeVal_encVal : ∀ n, n < 64 → decodeVal (encVal n) = some n := by decide

theorem encVal_ne_pad : ∀ n, n < 64 → encVal n ≠ 61 := by decide

theorem decodeVal_inv (b v : Nat) (h : decodeVal b = some v) : v < 64 ∧ b = encVal v := by
  unfold decodeVal at h
  unfold encVal
  simp only [Bool.and_eq_true, decide_eq_true_eq, beq_iff_eq] at h ⊢
  split at h
  · cases h; constructor
    · omega
    · rw [if_pos (by omega)]; omega
  · split at h
    · cases h; constructor
      · omega
      · rw [if_neg (by omega), if_pos (by omega)]; omega
    · split at h
      · cases h; constructor
        · omega
        · rw [if_neg (by omega), if_neg (by omega), if_pos (by omega)]; omega
      · split at h
        · cases h; subst_vars; decide
        · split at h
          · cases h; subst_vars; decide
          · cases h

theorem decodeVal_pad : decodeVal 61 = none := by decide

/-- full chunk -/
theorem decodeChunk_enc3 (x y z : Nat) (hx : x < 256) (hy : y < 256) (hz : z < 256) (isLast : Bool) :
    decodeChunk (encVal (x / 4)) (encVal ((x % 4) * 16 + y / 16))
      (encVal ((y % 16) * 4 + z / 64)) (encVal (z % 64)) isLast = some [x, y, z] := by
  have h1 : x / 4 < 64 := by omega
  have h2 : (x % 4) * 16 + y / 16 < 64 := by omega
  have h3 : (y % 16) * 4 + z / 64 < 64 := by omega
  have h4 : z % 64 < 64 := by omega
  have n1 := encVal_ne_pad _ h1
  have n2 := encVal_ne_pad _ h2
  have n3 := encVal_ne_pad _ h3
  have n4 := encVal_ne_pad _ h4
  unfold decodeChunk
  simp only [padOf, decodeVal_encVal _ h1, decodeVal_encVal _ h2, decodeVal_encVal _ h3,
    decodeVal_encVal _ h4, beq_iff_eq, n1, n2, n3, n4, if_false]
  simp
  omega

theorem decodeChunk_enc2 (x y : Nat) (hx : x < 256) (hy : y < 256) :
    decodeChunk (encVal (x / 4)) (encVal ((x % 4) * 16 + y / 16))
      (encVal ((y % 16) * 4)) 61 true = some [x, y] := by
  have h1 : x / 4 < 64 := by omega
  have h2 : (x % 4) * 16 + y / 16 < 64 := by omega
  have h3 : (y % 16) * 4 < 64 := by omega
  have n1 := encVal_ne_pad _ h1
  have n2 := encVal_ne_pad _ h2
  have n3 := encVal_ne_pad _ h3
  unfold decodeChunk
  simp only [padOf, decodeVal_encVal _ h1, decodeVal_encVal _ h2, decodeVal_encVal _ h3,
    beq_iff_eq, n1, n2, n3, if_false]
  simp
  omega

theorem decodeChunk_enc1 (x : Nat) (hx : x < 256) :
    decodeChunk (encVal (x / 4)) (encVal ((x % 4) * 16)) 61 61 true = some [x] := by
  have h1 : x / 4 < 64 := by omega
  have h2 : (x % 4) * 16 < 64 := by omega
  have n1 := encVal_ne_pad _ h1
  have n2 := encVal_ne_pad _ h2
  unfold decodeChunk
  simp only [padOf, decodeVal_encVal _ h1, decodeVal_encVal _ h2,
    beq_iff_eq, n1, n2, if_false]
  simp
  omega

theorem decodeChunk_inv0 (a b c d : Nat) (isLast : Bool) (o : List Nat) (hd : d ≠ 61)
    (h : decodeChunk a b c d isLast = some o) :
    ∃ x y z, o = [x, y, z] ∧ x < 256 ∧ y < 256 ∧ z < 256 ∧
      a = encVal (x / 4) ∧ b = encVal ((x % 4) * 16 + y / 16) ∧
      c = encVal ((y % 16) * 4 + z / 64) ∧ d = encVal (z % 64) := by
  unfold decodeChunk at h
  have hp : padOf a b c d = 0 := by simp [padOf, hd]
  simp only [hp] at h
  cases hva : decodeVal a with
  | none => simp [hva] at h
  | some va =>
  cases hvb : decodeVal b with
  | none => simp [hva, hvb] at h
  | some vb =>
  by_cases hc : c = 61
  · simp [hva, hvb, hc] at h
  cases hvc : decodeVal c with
  | none => simp [hva, hvb, hc, hvc] at h
  | some vc =>
  cases hvd : decodeVal d with
  | none => simp [hva, hvb, hc, hvc, hd, hvd] at h
  | some vd =>
  simp [hva, hvb, hc, hvc, hd, hvd] at h
  obtain ⟨la, ea⟩ := decodeVal_inv _ _ hva
  obtain ⟨lb, eb⟩ := decodeVal_inv _ _ hvb
  obtain ⟨lc, ec⟩ := decodeVal_inv _ _ hvc
  obtain ⟨ld, ed⟩ := decodeVal_inv _ _ hvd
  refine ⟨_, _, _, h.symm, ?_, ?_, ?_, ?_, ?_, ?_, ?_⟩
  · omega
  · omega
  · omega
  · rw [ea]; congr 1; omega
  · rw [eb]; congr 1; omega
  · rw [ec]; congr 1; omega
  · rw [ed]; congr 1; omega

theorem decodeChunk_inv1 (a b c : Nat) (isLast : Bool) (o : List Nat) (hc : c ≠ 61)
    (h : decodeChunk a b c 61 isLast = some o) :
    isLast = true ∧ ∃ x y, o = [x, y] ∧ x < 256 ∧ y < 256 ∧
      a = encVal (x / 4) ∧ b = encVal ((x % 4) * 16 + y / 16) ∧
      c = encVal ((y % 16) * 4) := by
  unfold decodeChunk at h
  have hp : padOf a b c 61 = 1 := by simp [padOf, hc]
  simp only [hp] at h
  cases isLast with
  | false => simp at h
  | true =>
  refine ⟨rfl, ?_⟩
  cases hva : decodeVal a with
  | none => simp [hva] at h
  | some va =>
  cases hvb : decodeVal b with
  | none => simp [hva, hvb] at h
  | some vb =>
  cases hvc : decodeVal c with
  | none => simp [hva, hvb, hc, hvc] at h
  | some vc =>
  simp [hva, hvb, hc, hvc] at h
  obtain ⟨la, ea⟩ := decodeVal_inv _ _ hva
  obtain ⟨lb, eb⟩ := decodeVal_inv _ _ hvb
  obtain ⟨lc, ec⟩ := decodeVal_inv _ _ hvc
  obtain ⟨h4, h⟩ := h
  refine ⟨_, _, h.symm, ?_, ?_, ?_, ?_, ?_⟩
  · omega
  · omega
  · rw [ea]; congr 1; omega
  · rw [eb]; congr 1; omega
  · rw [ec]; congr 1; omega

theorem decodeChunk_inv2 (a b : Nat) (isLast : Bool) (o : List Nat) (hb : b ≠ 61)
    (h : decodeChunk a b 61 61 isLast = some o) :
    isLast = true ∧ ∃ x, o = [x] ∧ x < 256 ∧
      a = encVal (x / 4) ∧ b = encVal ((x % 4) * 16) := by
  unfold decodeChunk at h
  have hp : padOf a b 61 61 = 2 := by simp [padOf, hb]
  simp only [hp] at h
  cases isLast with
  | false => simp at h
  | true =>
  refine ⟨rfl, ?_⟩
  cases hva : decodeVal a with
  | none => simp [hva] at h
  | some va =>
  cases hvb : decodeVal b with
  | none => simp [hva, hvb] at h
  | some vb =>
  simp [hva, hvb] at h
  obtain ⟨la, ea⟩ := decodeVal_inv _ _ hva
  obtain ⟨lb, eb⟩ := decodeVal_inv _ _ hvb
  obtain ⟨h4, h⟩ := h
  refine ⟨_, h.symm, ?_, ?_, ?_⟩
  · omega
  · rw [ea]; congr 1; omega
  · rw [eb]; congr 1; omega

theorem decodeChunk_inv3 (a : Nat) (isLast : Bool) : decodeChunk a 61 61 61 isLast = none := by
  unfold decodeChunk
  simp only [decodeVal_pad]
  split
  · rfl
  · split <;> rfl

theorem decodeChunk_sound (a b c d : Nat) (isLast : Bool) (o : List Nat)
    (h : decodeChunk a b c d isLast = some o) :
    (∃ x y z, o = [x, y, z] ∧ [a, b, c, d] = b64encode [x, y, z]) ∨
    (isLast = true ∧ [a, b, c, d] = b64encode o) := by
  by_cases hd : d = 61
  · subst hd
    by_cases hc : c = 61
    · subst hc
      by_cases hb : b = 61
      · subst hb
        rw [decodeChunk_inv3] at h
        cases h
      · obtain ⟨hl, x, rfl, hx, rfl, rfl⟩ := decodeChunk_inv2 a b isLast o hb h
        exact Or.inr ⟨hl, by simp [b64encode]⟩
    · obtain ⟨hl, x, y, rfl, hx, hy, rfl, rfl, rfl⟩ := decodeChunk_inv1 a b c isLast o hc h
      exact Or.inr ⟨hl, by simp [b64encode]⟩
  · obtain ⟨x, y, z, rfl, hx, hy, hz, rfl, rfl, rfl, rfl⟩ := decodeChunk_inv0 a b c d isLast o hd h
    exact Or.inl ⟨x, y, z, rfl, by simp [b64encode]⟩


theorem decodeChunk_bytes (a b c d : Nat) (isLast : Bool) (o : List Nat)
    (h : decodeChunk a b c d isLast = some o) : ∀ x ∈ o, x < 256 := by
  by_cases hd : d = 61
  · subst hd
    by_cases hc : c = 61
    · subst hc
      by_cases hb : b = 61
      · subst hb
        rw [decodeChunk_inv3] at h
        cases h
      · obtain ⟨_, x, rfl, hx, _⟩ := decodeChunk_inv2 a b isLast o hb h
        simpa using hx
    · obtain ⟨_, x, y, rfl, hx, hy, _⟩ := decodeChunk_inv1 a b c isLast o hc h
      simp [hx, hy]
  · obtain ⟨x, y, z, rfl, hx, hy, hz, _⟩ := decodeChunk_inv0 a b c d isLast o hd h
    simp [hx, hy, hz]

theorem b64_decode_encode : ∀ (bs : List Nat), (∀ b ∈ bs, b < 256) →
    decodeChunks (b64encode bs) = some bs
  | [], _ => by simp [b64encode, decodeChunks]
  | [x], h => by
    have hx : x < 256 := h x (by simp)
    simp [b64encode, decodeChunks, decodeChunk_enc1 x hx]
  | [x, y], h => by
    have hx : x < 256 := h x (by simp)
    have hy : y < 256 := h y (by simp)
    simp [b64encode, decodeChunks, decodeChunk_enc2 x y hx hy]
  | x :: y :: z :: rest, h => by
    have hx : x < 256 := h x (by simp)
    have hy : y < 256 := h y (by simp)
    have hz : z < 256 := h z (by simp)
    have ih := b64_decode_encode rest (fun b hb => h b (by simp [hb]))
    simp [b64encode, decodeChunks, decodeChunk_enc3 x y z hx hy hz, ih]

theorem b64_strict : ∀ (s bs : List Nat), decodeChunks s = some bs → s = b64encode bs
  | [], bs, h => by
    simp [decodeChunks] at h
    subst h
    simp [b64encode]
  | [_], _, h => by simp [decodeChunks] at h
  | [_, _], _, h => by simp [decodeChunks] at h
  | [_, _, _], _, h => by simp [decodeChunks] at h
  | a :: b :: c :: d :: rest, bs, h => by
    unfold decodeChunks at h
    cases ho : decodeChunk a b c d rest.isEmpty with
    | none => simp [ho] at h
    | some o =>
      cases hr : decodeChunks rest with
      | none => simp [ho, hr] at h
      | some r =>
        simp [ho, hr] at h
        subst h
        have ih := b64_strict rest r hr
        rcases decodeChunk_sound a b c d _ o ho with ⟨x, y, z, rfl, he⟩ | ⟨hl, he⟩
        · simp only [b64encode, List.append_nil, List.cons.injEq, and_true] at he
          obtain ⟨rfl, rfl, rfl, rfl⟩ := he
          simp [b64encode, ih]
        · have hre : rest = [] := by simpa using hl
          subst hre
          simp [decodeChunks] at hr
          subst hr
          simpa using he

theorem b64_output_bytes : ∀ (s bs : List Nat), decodeChunks s = some bs → ∀ b ∈ bs, b < 256
  | [], bs, h => by
    simp [decodeChunks] at h
    subst h
    simp
  | [_], _, h => by simp [decodeChunks] at h
  | [_, _], _, h => by simp [decodeChunks] at h
  | [_, _, _], _, h => by simp [decodeChunks] at h
  | a :: b :: c :: d :: rest, bs, h => by
    unfold decodeChunks at h
    cases ho : decodeChunk a b c d rest.isEmpty with
    | none => simp [ho] at h
    | some o =>
      cases hr : decodeChunks rest with
      | none => simp [ho, hr] at h
      | some r =>
        simp [ho, hr] at h
        subst h
        intro x hx
        rcases List.mem_append.mp hx with hx | hx
        · exact decodeChunk_bytes a b c d _ o ho x hx
        · exact b64_output_bytes rest r hr x hx

end SaphyrVerif.Lemmas.C06
