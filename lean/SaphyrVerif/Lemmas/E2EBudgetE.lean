import SaphyrVerif.Lemmas.E2EBudgetDe
/-!
End-to-end composition with the budget enforcer, part 5e: enums (`deserEnum`, `variantPayload`).
-/
namespace SaphyrVerif.Lemmas.E2EBudget
open SaphyrVerif SaphyrVerif.Scalars SaphyrVerif.Pump SaphyrVerif.Budget SaphyrVerif.De

set_option linter.unusedSimpArgs false
set_option linter.unusedVariables false
set_option linter.unusedSectionVars false

variable {P : BP} (hcl : Closed P)
include hcl

theorem deserEnum_brStep {fuel : Nat} (ih : BA P fuel) :
    ∀ cfg name variants {c}, P.Inv c →
      BR P (De.deserEnum (fuel + 1) cfg name variants c) (De.deserEnum (fuel + 1) cfg name variants (strip c)) := by
  intro cfg name variants c hi
  rw [De.deserEnum, De.deserEnum]
  b_loop

theorem variantPayload_brStep {fuel : Nat} (ih : BA P fuel) :
    ∀ cfg variants vname vloc mapMode tagged {c}, P.Inv c →
      BR P (De.variantPayload (fuel + 1) cfg variants vname vloc mapMode tagged c)
        (De.variantPayload (fuel + 1) cfg variants vname vloc mapMode tagged (strip c)) := by
  intro cfg variants vname vloc mapMode tagged c hi
  rw [De.variantPayload, De.variantPayload]
  cases lookupField variants vname with
  | none => exact BR.err
  | some p =>
    obtain ⟨i, vt⟩ := p
    cases vt
    case unit => cases mapMode <;> cases tagged <;> simp only [] <;> b_loop
    case newtype => cases mapMode <;> cases tagged <;> simp only [] <;> b_loop
    case tuple => cases mapMode <;> cases tagged <;> simp only [] <;> b_loop
    case struct => cases mapMode <;> cases tagged <;> simp only [] <;> b_loop

end SaphyrVerif.Lemmas.E2EBudget
