import SaphyrVerif.Lemmas.C02_Doc
/-!
Helper lemmas for C11, part 2: the run of the pump over a stream of documents.  At every document
boundary the per-document state is the initial one (`Boundary`), so the node lemma of C02 applies to each
document from the empty anchor table.
-/
namespace SaphyrVerif.Lemmas.C11
open SaphyrVerif SaphyrVerif.Scalars SaphyrVerif.Pump SaphyrVerif.Spec SaphyrVerif.Budget
open SaphyrVerif.Lemmas.C02

abbrev Doc := LNode × Bool × Loc × Loc

/-- the parser items of a list of documents (same as `Props.C11.docsStream`) -/
def docsItems : List Doc → List RawItem
  | [] => []
  | (t, explicit, ls, le) :: ds => [.ev (.docStart explicit) ls] ++ itemsOf t ++ [.ev .docEnd le] ++ docsItems ds

/-- expansion of each document from the empty table (same as `Props.C11.expandDocs`) -/
def expandAll : List Doc → Except ExpErr (List Ev)
  | [] => .ok []
  | (t, _, _, _) :: ds =>
    match expand [] [] t with
    | .error e => .error e
    | .ok r =>
      match expandAll ds with
      | .error e => .error e
      | .ok rest => .ok (r.evs ++ rest)

/-- generous per-document alias limits (same as `Props.C11.Unlimited`) -/
def Generous (L : AliasLimits) (ds : List Doc) : Prop :=
  1 ≤ L.maxReplayStackDepth ∧
  ∀ d ∈ ds, (∀ r, expand [] [] d.1 = .ok r → r.replayed ≤ L.maxTotalReplayedEvents) ∧
            (∀ id, aliasCount id d.1 ≤ L.maxAliasExpansionsPerAnchor)

/-- the state of the pump at a document boundary: per-document state is the initial one -/
structure Boundary (L : AliasLimits) (q : Pump) : Prop where
  bud : q.budget = none
  rip : q.recursiveInProgress = []
  inj : q.inject = []
  rs : q.recStack = []
  anc : q.anchors = []
  per : q.perAnchor = []
  tot : q.totalReplayed = 0
  lim : q.limits = L
  sade : q.stopAtDocEnd = false

theorem Boundary.good {L : AliasLimits} {q : Pump} (h : Boundary L q) : Good q := by
  constructor
  · exact h.bud
  · exact h.rip
  · rw [h.inj]; intro fr hfr; cases hfr
  · rw [h.rs]; intro f hf; cases hf
  · rw [h.anc]; exact TabNe_nil

theorem Ends.after {p inp es1 p1 inp1 es2 p'} (h1 : Steps p inp es1 p1 inp1)
    (h2 : Ends p1 inp1 es2 p') : Ends p inp (es1 ++ es2) p' := by
  obtain ⟨q, inq, inq2, hs, hn⟩ := h2
  exact ⟨q, inq, inq2, h1.trans hs, hn⟩

/-- state after a document start marker -/
def atDocStart (q : Pump) (ls : Loc) : Pump := { q.resetDocumentState with lastLoc := ls }

/-- state after a document end marker -/
def atDocEnd (p : Pump) (le : Loc) : Pump := { (clr p).resetDocumentState with seenDocEnd := true, lastLoc := le }

theorem boundary_atDocStart {L : AliasLimits} {q : Pump} (h : Boundary L q) (ls : Loc) :
    Boundary L (atDocStart q ls) ∧ (atDocStart q ls).producedAny = q.producedAny := by
  refine ⟨⟨?_, ?_, ?_, ?_, ?_, ?_, ?_, ?_, ?_⟩, ?_⟩ <;>
    simp [atDocStart, Pump.resetDocumentState, h.bud, h.rip, h.lim, h.sade]

theorem step_docStart {L : AliasLimits} {q : Pump} (h : Boundary L q) (ex : Bool) (ls : Loc) (X : List RawItem) :
    nextImpl q (.ev (.docStart ex) ls :: X) = nextImpl (atDocStart q ls) X := by
  have hi := h.inj
  have hb := h.bud
  cases q
  simp only at hi hb
  subst hi hb
  simp [nextImpl, serveInject, parserLoop, Pump.resetDocumentState, atDocStart]

theorem step_streamStart {L : AliasLimits} {q : Pump} (h : Boundary L q) (l0 : Loc) (X : List RawItem) :
    nextImpl q (.ev .streamStart l0 :: X) = nextImpl { q with lastLoc := l0 } X ∧
      Boundary L { q with lastLoc := l0 } := by
  have hi := h.inj
  have hb := h.bud
  refine ⟨?_, ⟨h.bud, h.rip, h.inj, h.rs, h.anc, h.per, h.tot, h.lim, h.sade⟩⟩
  cases q
  simp only at hi hb
  subst hi hb
  simp [nextImpl, serveInject, parserLoop]

theorem boundary_atDocEnd {p : Pump} (hg : Good p) (hs : p.stopAtDocEnd = false) (le : Loc) :
    Boundary p.limits (atDocEnd p le) ∧ (atDocEnd p le).producedAny = p.producedAny := by
  refine ⟨⟨?_, ?_, ?_, ?_, ?_, ?_, ?_, ?_, ?_⟩, ?_⟩ <;>
    simp [atDocEnd, clr, Pump.resetDocumentState, hg.bud, hg.rip, hs]

theorem step_docEnd {p : Pump} (hg : Good p) (hs : p.stopAtDocEnd = false) (le : Loc) (X : List RawItem) :
    nextImpl p (.ev .docEnd le :: X) = nextImpl (atDocEnd p le) X := by
  rw [nextImpl_good hg, nextImpl_good (boundary_atDocEnd hg hs le).1.good]
  have hb : (clr p).budget = none := hg.bud
  have hs' : (clr p).stopAtDocEnd = false := hs
  simp only [parserLoop, hb]
  simp [Pump.resetDocumentState, hs, atDocEnd, clr, hg.bud]

theorem step_streamEnd {L : AliasLimits} {q : Pump} (h : Boundary L q) (hp : q.producedAny = true) (l1 : Loc) :
    ∃ p' inp2, nextImpl q [.ev .streamEnd l1] = (.eof, p', inp2) := by
  rw [nextImpl_good h.good]
  have hb : (clr q).budget = none := h.bud
  have hp' : (clr q).producedAny = true := hp
  simp only [parserLoop, hb, hp', Bool.not_true, Bool.false_eq_true, if_false]
  exact ⟨_, _, rfl⟩

theorem expand_evs_ne_nil {p : Pump} {t : LNode} {r : Exp} {p' : Pump} {rest : List RawItem}
    (hs : Steps p (itemsOf t ++ rest) r.evs p' rest) : r.evs ≠ [] := by
  intro he
  rw [he] at hs
  have hinv := Steps.nil_inv hs
  have hlen := congrArg List.length hinv.2
  cases t <;> simp [itemsOf] at hlen <;> omega

/-- the run over a list of documents followed by the stream end: either it ends normally after the
concatenation of the per-document expansions, or it stops with an error — and the latter is impossible
when every expansion exists, the limits are generous and no folded scalar is misplaced. -/
theorem docs_run (L : AliasLimits) (l1 : Loc) : ∀ (ds : List Doc) (q : Pump), Boundary L q →
    (ds = [] → q.producedAny = true) →
    (∃ evs p', expandAll ds = .ok evs ∧ Ends q (docsItems ds ++ [.ev .streamEnd l1]) evs p') ∨
    (∃ es err p', Stops q (docsItems ds ++ [.ev .streamEnd l1]) es err p' ∧
      ∀ evs, expandAll ds = .ok evs → Generous L ds → (∀ d ∈ ds, noFoldedIndent d.1 = true) → False) := by
  intro ds
  induction ds with
  | nil =>
    intro q hq hp
    left
    obtain ⟨p', inp2, hn⟩ := step_streamEnd hq (hp rfl) l1
    exact ⟨[], p', rfl, q, _, inp2, Steps.refl _ _, hn⟩
  | cons d ds ih =>
    intro q hq _
    obtain ⟨t, ex, ls, le⟩ := d
    have hinp : docsItems ((t, ex, ls, le) :: ds) ++ [.ev .streamEnd l1] =
        .ev (.docStart ex) ls :: (itemsOf t ++ (.ev .docEnd le :: (docsItems ds ++ [.ev .streamEnd l1]))) := by
      simp [docsItems]
    rw [hinp]
    have hstart := step_docStart hq ex ls (itemsOf t ++ (.ev .docEnd le :: (docsItems ds ++ [.ev .streamEnd l1])))
    obtain ⟨hq1, hprod1⟩ := boundary_atDocStart hq ls
    generalize atDocStart q ls = q1 at hstart hq1 hprod1
    have hnode := pump_node t q1 hq1.good (.ev .docEnd le :: (docsItems ds ++ [.ev .streamEnd l1]))
    rw [hq1.anc, hq1.rs] at hnode
    change Outcome _ _ _ _ _ (expand [] [] t) at hnode
    cases hexp : expand [] [] t with
    | error e =>
      rw [hexp] at hnode
      right
      have hst : ∃ es err p', Stops q1 (itemsOf t ++ (.ev .docEnd le :: (docsItems ds ++ [.ev .streamEnd l1]))) es err p' := by
        rcases hnode with ⟨es, p', hs⟩ | ⟨es, err, p', hs, _⟩ | ⟨_, es, l, p', hs⟩
        · exact ⟨es, _, p', hs⟩
        · exact ⟨es, err, p', hs⟩
        · exact ⟨es, _, p', hs⟩
      obtain ⟨es, err, p', hs⟩ := hst
      refine ⟨es, err, p', Stops.of_eq hstart hs, ?_⟩
      intro evs hev
      simp [expandAll, hexp] at hev
    | ok r =>
      rw [hexp] at hnode
      rcases hnode with ⟨p1, hs, hpost⟩ | ⟨es, err, p', hs, _, _, hx⟩ | ⟨hf, es, l, p', hs⟩
      · -- the document is delivered; document end, then the rest
        have hsade : p1.stopAtDocEnd = false := by rw [hpost.sade]; exact hq1.sade
        have hend := step_docEnd hpost.good hsade le (docsItems ds ++ [.ev .streamEnd l1])
        obtain ⟨hq2, hprod2⟩ := boundary_atDocEnd hpost.good hsade le
        rw [hpost.lim, hq1.lim] at hq2
        have hp2 : (atDocEnd p1 le).producedAny = true := by
          rw [hprod2]; exact hpost.prod (Or.inr (expand_evs_ne_nil hs))
        generalize atDocEnd p1 le = q2 at hend hq2 hp2
        rcases ih q2 hq2 (fun _ => hp2) with ⟨evs2, pf, he2, hends⟩ | ⟨es, err, pf, hstops, hno⟩
        · left
          refine ⟨r.evs ++ evs2, pf, ?_, Ends.of_eq hstart (Ends.after hs (Ends.of_eq hend hends))⟩
          simp [expandAll, hexp, he2]
        · right
          refine ⟨r.evs ++ es, err, pf, Stops.of_eq hstart (Stops.after hs (Stops.of_eq hend hstops)), ?_⟩
          intro evs hev hgen hnf
          cases he2 : expandAll ds with
          | error e => simp [expandAll, hexp, he2] at hev
          | ok evs2 =>
            exact hno evs2 he2 ⟨hgen.1, fun d hd => hgen.2 d (List.mem_cons_of_mem _ hd)⟩
              (fun d hd => hnf d (List.mem_cons_of_mem _ hd))
      · right
        refine ⟨es, err, p', Stops.of_eq hstart hs, ?_⟩
        intro evs _ hgen _
        obtain ⟨hg1, hg2⟩ := hgen
        obtain ⟨hw1, hw2⟩ := hg2 (t, ex, ls, le) (List.mem_cons_self ..)
        have hw1' := hw1 r hexp
        rcases hx with hx | hx | ⟨id, hx⟩
        · rw [hq1.lim] at hx; omega
        · rw [hq1.lim, hq1.tot] at hx; omega
        · rw [hq1.lim, hq1.per] at hx
          have := hw2 id
          simp only at this
          simp only [lookupCount, List.find?_nil] at hx
          omega
      · right
        refine ⟨es, _, p', Stops.of_eq hstart hs, ?_⟩
        intro evs _ _ hnf
        have := hnf (t, ex, ls, le) (List.mem_cons_self ..)
        simp only at this
        rw [this] at hf
        cases hf

/-- the whole stream, from the initial pump -/
theorem stream_run (L : AliasLimits) (l0 l1 : Loc) (ds : List Doc) (hne : ds ≠ []) :
    (∃ evs p', expandAll ds = .ok evs ∧
      Ends { limits := L } ([.ev .streamStart l0] ++ docsItems ds ++ [.ev .streamEnd l1]) evs p') ∨
    (∃ es err p', Stops { limits := L } ([.ev .streamStart l0] ++ docsItems ds ++ [.ev .streamEnd l1]) es err p' ∧
      ∀ evs, expandAll ds = .ok evs → Generous L ds → (∀ d ∈ ds, noFoldedIndent d.1 = true) → False) := by
  have hb : Boundary L { limits := L } := ⟨rfl, rfl, rfl, rfl, rfl, rfl, rfl, rfl, rfl⟩
  obtain ⟨hstep, hb'⟩ := step_streamStart hb l0 (docsItems ds ++ [.ev .streamEnd l1])
  have hinp : [RawItem.ev .streamStart l0] ++ docsItems ds ++ [.ev .streamEnd l1] =
      .ev .streamStart l0 :: (docsItems ds ++ [.ev .streamEnd l1]) := by simp
  rw [hinp]
  rcases docs_run L l1 ds _ hb' (fun h => absurd h hne) with ⟨evs, p', he, hends⟩ | ⟨es, err, p', hstops, hno⟩
  · exact Or.inl ⟨evs, p', he, Ends.of_eq hstep hends⟩
  · exact Or.inr ⟨es, err, p', Stops.of_eq hstep hstops, hno⟩

end SaphyrVerif.Lemmas.C11
