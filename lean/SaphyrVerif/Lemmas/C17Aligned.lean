import SaphyrVerif.Lemmas.C17Ring
import SaphyrVerif.Lemmas.C17Prepare
/-!
Helper lemmas for C17, part 11: the line-aligned reader snapshot (`RecentSnapshot::line_aligned_text`).
-/
namespace SaphyrVerif.Lemmas.C17
open SaphyrVerif SaphyrVerif.Snippet

/-- only the line break has the byte `0x0A` -/
theorem utf8Bytes_count_nl (c : Char) : (utf8Bytes c).count 0x0A = if c = '\n' then 1 else 0 := by
  rcases shape c with ⟨h, e⟩ | ⟨h1, h2, e⟩ | ⟨h1, h2, e⟩ | ⟨h1, e⟩
  · rw [e]
    by_cases hc : c = '\n'
    · rw [if_pos hc, hc]; decide
    · rw [if_neg hc]
      have : c.toNat ≠ 0x0A := fun h0 => hc (char_eq_of_toNat c 0x0A h0)
      apply List.count_eq_zero.mpr
      simp only [List.mem_singleton]
      exact fun h0 => this h0.symm
  · have hc : c ≠ '\n' := by intro h0; subst h0; exact absurd h1 (by decide)
    rw [e, if_neg hc]
    apply List.count_eq_zero.mpr
    simp only [List.mem_cons, List.not_mem_nil, or_false]; omega
  · have hc : c ≠ '\n' := by intro h0; subst h0; exact absurd h1 (by decide)
    rw [e, if_neg hc]
    apply List.count_eq_zero.mpr
    simp only [List.mem_cons, List.not_mem_nil, or_false]; omega
  · have hc : c ≠ '\n' := by intro h0; subst h0; exact absurd h1 (by decide)
    rw [e, if_neg hc]
    apply List.count_eq_zero.mpr
    simp only [List.mem_cons, List.not_mem_nil, or_false]; omega

theorem count_encode_nl (P : List Char) : (encode P).count 0x0A = P.count '\n' := by
  induction P with
  | nil => rfl
  | cons c cs ih => rw [encode, List.count_append, ih, utf8Bytes_count_nl, count_nl_cons]; omega

/-- the last byte of a character is `0x0A` exactly for the line break -/
theorem last_byte_nl (c : Char) : (utf8Bytes c).getLast? = some 0x0A ↔ c = '\n' := by
  rcases shape c with ⟨h, e⟩ | ⟨h1, h2, e⟩ | ⟨h1, h2, e⟩ | ⟨h1, e⟩
  · rw [e]
    simp only [List.getLast?_singleton, Option.some.injEq]
    constructor
    · intro h0; exact char_eq_of_toNat c 0x0A h0
    · intro h0; rw [h0]; decide
  · rw [e]
    simp only [List.getLast?_cons_cons, List.getLast?_singleton, Option.some.injEq]
    constructor
    · intro h0; omega
    · intro h0; subst h0; exact absurd h1 (by decide)
  · rw [e]
    simp only [List.getLast?_cons_cons, List.getLast?_singleton, Option.some.injEq]
    constructor
    · intro h0; omega
    · intro h0; subst h0; exact absurd h1 (by decide)
  · rw [e]
    simp only [List.getLast?_cons_cons, List.getLast?_singleton, Option.some.injEq]
    constructor
    · intro h0; omega
    · intro h0; subst h0; exact absurd h1 (by decide)

theorem utf8Bytes_ne_nil (c : Char) : utf8Bytes c ≠ [] := by
  intro h
  have := utf8Bytes_length c
  rw [h] at this
  have := utf8LenChar_pos c
  simp at *
  omega

theorem encode_getLast_nl (P : List Char) (h : (encode P).getLast? = some 0x0A) : P.getLast? = some '\n' := by
  rcases List.eq_nil_or_concat P with h0 | ⟨init, c, h0⟩
  · subst h0; cases h
  · subst h0
    rw [List.concat_eq_append, encode_append] at h
    have e1 : encode [c] = utf8Bytes c := by simp [encode]
    rw [e1, List.getLast?_append] at h
    cases hq : (utf8Bytes c).getLast? with
    | none =>
      exfalso
      exact utf8Bytes_ne_nil c (List.getLast?_eq_none_iff.mp hq)
    | some x =>
      rw [hq] at h
      simp only [Option.some_or, Option.some.injEq] at h
      rw [h] at hq
      rw [List.concat_eq_append, List.getLast?_append]
      simp [(last_byte_nl c).mp hq]

/-- byte windows of a valid stream, with the position of the complete characters inside the stream -/
theorem window_decomp_pos (cs : List Char) (a b : Nat) (hab : a ≤ b) (hb : b ≤ (encode cs).length) :
    ∃ ct mid ph P0 S0, ((encode cs).take b).drop a = ct ++ encode mid ++ ph ∧ (∀ x ∈ ct, isCont x = true) ∧
      IsPartialHead ph ∧ (mid ≠ [] → cs = P0 ++ mid ++ S0 ∧ (encode P0).length = a + ct.length) := by
  induction cs generalizing a b with
  | nil => exact ⟨[], [], [], [], [], by simp [encode], by simp, .inl rfl, fun h => absurd rfl h⟩
  | cons c cs ih =>
    have hl := utf8Bytes_length c
    by_cases hal : utf8LenChar c ≤ a
    · rw [encode] at hb ⊢
      rw [List.length_append, hl] at hb
      obtain ⟨ct, mid, ph, P0, S0, e, h1, h3, h4⟩ := ih (a - utf8LenChar c) (b - utf8LenChar c) (by omega) (by omega)
      refine ⟨ct, mid, ph, c :: P0, S0, ?_, h1, h3, ?_⟩
      · rw [List.take_append, hl, List.drop_append, List.length_take, hl, ← e]
        have e1 : (utf8Bytes c).take b = utf8Bytes c := List.take_of_length_le (by omega)
        rw [e1, List.drop_of_length_le (by omega), List.nil_append]
        congr 1
        omega
      · intro hm
        obtain ⟨q1, q2⟩ := h4 hm
        refine ⟨by rw [q1]; rfl, ?_⟩
        rw [encode, List.length_append, hl, q2]; omega
    · by_cases ha0 : a = 0
      · subst ha0
        obtain ⟨mid, ph, e, hp, hh⟩ := prefix_window (c :: cs) b hb
        obtain ⟨S0, hS⟩ := hp
        exact ⟨[], mid, ph, [], S0, by simpa using e, by simp, hh, fun _ => ⟨by simpa using hS.symm, by simp [encode]⟩⟩
      · obtain ⟨lead, conts, e, _, hconts, _, _, _⟩ := utf8Bytes_struct' c
        rw [encode] at hb ⊢
        rw [List.length_append, hl] at hb
        have hcont_drop : ∀ x ∈ (utf8Bytes c).drop a, isCont x = true := by
          intro x hx
          rw [e] at hx
          have : a = (a - 1) + 1 := by omega
          rw [this, List.drop_succ_cons] at hx
          exact hconts x (List.drop_subset _ _ hx)
        by_cases hbl : b ≤ utf8LenChar c
        · refine ⟨((utf8Bytes c).take b).drop a, [], [], [], [], ?_, ?_, .inl rfl, fun h => absurd rfl h⟩
          · rw [List.take_append, hl]
            have : b - utf8LenChar c = 0 := by omega
            rw [this]; simp [encode]
          · intro x hx
            rw [List.drop_take] at hx
            exact hcont_drop x (List.take_subset _ _ hx)
        · obtain ⟨mid, ph, e2, hp, hh⟩ := prefix_window cs (b - utf8LenChar c) (by omega)
          obtain ⟨S0, hS⟩ := hp
          refine ⟨(utf8Bytes c).drop a, mid, ph, [c], S0, ?_, hcont_drop, hh, fun _ => ⟨?_, ?_⟩⟩
          · rw [List.take_append, hl, List.drop_append, List.length_take, hl, e2]
            have e1 : (utf8Bytes c).take b = utf8Bytes c := List.take_of_length_le (by omega)
            have e3 : a - min b (utf8LenChar c) = 0 := by omega
            rw [e1, e3, List.drop_zero, List.append_assoc]
          · rw [← hS]; rfl
          · simp only [encode, List.append_nil, hl, List.length_drop]; omega

theorem dropWhile_ne_nl (s : List Char) (h : (s.dropWhile (· ≠ '\n')).drop 1 ≠ []) :
    ∃ x, s = x ++ '\n' :: (s.dropWhile (· ≠ '\n')).drop 1 ∧ '\n' ∉ x := by
  induction s with
  | nil => simp at h
  | cons c cs ih =>
    by_cases hc : c = '\n'
    · subst hc
      exact ⟨[], by simp, by simp⟩
    · have e : (c :: cs).dropWhile (· ≠ '\n') = cs.dropWhile (· ≠ '\n') := by
        rw [List.dropWhile_cons]; simp [hc]
      rw [e] at h ⊢
      obtain ⟨x, hx, hn⟩ := ih h
      refine ⟨c :: x, by rw [List.cons_append, ← hx], ?_⟩
      intro hm
      rcases List.mem_cons.mp hm with h0 | h0
      · exact hc h0.symm
      · exact hn h0

/-- (reader snippets) what `from_reader` attaches as snippet text — `get_recent()` followed by
`line_aligned_text()` — on a valid UTF-8 stream: never a panic, and a non-empty text is a contiguous
piece of the stream that begins at the beginning of a line, numbered with that line's number -/
theorem ringRunAligned_spec (cap ahead : Nat) (hcap : 1 ≤ cap) (cs : List Char) (consumed : Nat)
    (hlen : (encode cs).length + 2 ≤ usizeMax) :
    ∃ starts T L, ringRunAligned cap ahead (encode cs) consumed = .ok (starts, T, L) ∧
      (T ≠ [] → ∃ P S, cs = P ++ T ++ S ∧ (P = [] ∨ P.getLast? = some '\n') ∧ L = 1 + P.count '\n') := by
  unfold ringRunAligned
  simp only []
  generalize hn : min consumed (encode cs).length + ahead = n
  have hseen_len : ((encode cs).take n).length + 2 ≤ usizeMax := by rw [List.length_take]; omega
  obtain ⟨hbuf, hoff, hline⟩ := ringPush_spec cap hcap ((encode cs).take n) hseen_len
  have hstarts := ringPush_starts_spec cap hcap ((encode cs).take n) hseen_len
  unfold RingStarts at hstarts
  generalize hr : ringPush cap ⟨[], 0, 1, true⟩ 0 ((encode cs).take n) = r at hbuf hoff hline hstarts
  by_cases hemp : r.buf.isEmpty = true
  · rw [if_pos hemp]
    have hnil : (encode cs).take n = [] := by
      rw [hbuf] at hemp
      have h1 := List.isEmpty_iff.mp hemp
      have h2 := congrArg List.length h1
      rw [List.length_drop] at h2
      apply List.eq_nil_of_length_eq_zero
      simp only [List.length_nil] at h2
      omega
    have hst : r.startsLine = true := by rw [hstarts, hnil]; simp
    rw [hst]
    exact ⟨true, [], r.startLine, rfl, fun h => absurd rfl h⟩
  · rw [if_neg hemp]
    have hne : (encode cs).take n ≠ [] := by
      intro h; apply hemp; rw [hbuf, h]; simp
    -- the ring content as a window [a, b) of the stream
    generalize hb : ((encode cs).take n).length = b at hbuf hoff hline hstarts
    have hble : b ≤ (encode cs).length := by rw [← hb, List.length_take]; omega
    have htt : (encode cs).take b = (encode cs).take n := by
      rw [← hb, List.length_take]
      by_cases hnl : n ≤ (encode cs).length
      · rw [Nat.min_eq_left hnl]
      · rw [Nat.min_eq_right (by omega), List.take_of_length_le (Nat.le_refl _), List.take_of_length_le (by omega)]
    rw [← htt] at hbuf hline hstarts
    obtain ⟨ct, mid, ph, P0, S0, hwin, hct, hph, hpos⟩ := window_decomp_pos cs (b - cap) b (by omega) hble
    have hsl_le : r.startLine ≤ usizeMax := by
      rw [hline]
      have h1 : (((encode cs).take b).take (b - cap)).count 0x0A ≤ (((encode cs).take b).take (b - cap)).length :=
        List.count_le_length
      have h2 := List.length_take_le (b - cap) ((encode cs).take b)
      have h3 := List.length_take_le b (encode cs)
      omega
    rw [hbuf, hwin, ringTrim_spec ct mid ph r.startOffset r.startLine hct hph hsl_le]
    simp only [res_bind_ok, decode_encode]
    refine ⟨_, _, _, rfl, ?_⟩
    have hoff' : r.startOffset = b - cap := hoff hne
    have htake_a : ((encode cs).take b).take (b - cap) = (encode cs).take (b - cap) := by
      rw [List.take_take]; congr 1; omega
    by_cases hst : (r.startsLine && decide (r.startOffset + ct.length = r.startOffset)) = true
    · -- the snapshot starts at the beginning of a line
      rw [hst]
      simp only [lineAligned, if_true]
      intro hT
      simp only [Bool.and_eq_true, decide_eq_true_eq] at hst
      have hct0 : ct = [] := List.eq_nil_of_length_eq_zero (by omega)
      obtain ⟨hcs, hP0⟩ := hpos hT
      rw [hct0] at hP0
      simp only [List.length_nil, Nat.add_zero] at hP0
      have hS : encode cs = encode P0 ++ (encode mid ++ encode S0) := by
        rw [hcs, encode_append, encode_append, List.append_assoc]
      refine ⟨P0, S0, hcs, ?_, ?_⟩
      · -- P0 is empty or ends with a line break
        by_cases h0 : b - cap = 0
        · left
          have : (encode P0).length = 0 := by omega
          have h2 : encode P0 = [] := List.eq_nil_of_length_eq_zero this
          cases P0 with
          | nil => rfl
          | cons c cs' =>
            exfalso
            rw [encode] at h2
            exact utf8Bytes_ne_nil c (List.append_eq_nil_iff.mp h2).1
        · right
          have hs1 := hst.1
          rw [hstarts] at hs1
          simp only [decide_eq_true_eq] at hs1
          have hs2 : ((encode cs).take b)[b - cap - 1]? = some 0x0A := by
            rcases hs1 with hs1 | hs1
            · exfalso; omega
            · exact hs1
          apply encode_getLast_nl
          have hidx : ((encode cs).take b)[b - cap - 1]? = (encode P0)[(encode P0).length - 1]? := by
            rw [List.getElem?_take, hS, if_pos (by omega), hP0, List.getElem?_append_left (by omega)]
          rw [hidx] at hs2
          rw [List.getLast?_eq_getElem?]
          exact hs2
      · rw [hline, htake_a]
        have : (encode cs).take (b - cap) = encode P0 := by
          rw [hS, ← hP0, List.take_left' rfl]
        rw [this, count_encode_nl]
    · -- the beginning of the first retained line has been evicted: it is left out
      have hst' : (r.startsLine && decide (r.startOffset + ct.length = r.startOffset)) = false := by
        simpa using hst
      rw [hst']
      simp only [lineAligned, Bool.false_eq_true, if_false]
      intro hT
      obtain ⟨x, hx, hnx⟩ := dropWhile_ne_nl mid hT
      have hmid : mid ≠ [] := by intro h0; rw [h0] at hT; simp at hT
      obtain ⟨hcs, hP0⟩ := hpos hmid
      refine ⟨P0 ++ x ++ ['\n'], S0, ?_, .inr (by simp), ?_⟩
      · conv => lhs; rw [hcs, hx]
        simp
      · have hS : encode cs = encode P0 ++ (encode mid ++ encode S0) := by
          rw [hcs, encode_append, encode_append, List.append_assoc]
        have hcnt := window_line (encode cs) (b - cap) b (by omega) hble ct (encode mid ++ ph)
          (by rw [hwin, List.append_assoc]) hct
        have hP0cnt : ((encode cs).take (b - cap + ct.length)).count 0x0A = P0.count '\n' := by
          rw [hS, ← hP0, List.take_left' rfl, count_encode_nl]
        rw [hline, htake_a, ← hcnt, hP0cnt]
        have hwlen : ct.length ≤ b - (b - cap) := by
          have := congrArg List.length hwin
          rw [List.length_drop, List.length_take] at this
          simp only [List.length_append] at this
          omega
        rw [satAdd_eq _ _ (by
          have h1 : P0.count '\n' ≤ P0.length := List.count_le_length
          have h2 := length_le_blen P0
          have h3 : blen P0 = (encode P0).length := (encode_length P0).symm
          omega)]
        simp only [List.count_append, List.count_cons, List.count_nil, count_nl_zero_of_not_mem x hnx]
        simp
        omega

end SaphyrVerif.Lemmas.C17
