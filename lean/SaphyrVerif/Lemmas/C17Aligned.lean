import SaphyrVerif.Lemmas.C17Ring
import SaphyrVerif.Lemmas.C17Prepare
import SaphyrVerif.Lemmas.C17Breaks
/-!
Helper lemmas for C17, part 11: the line-aligned reader snapshot (`RecentSnapshot::line_aligned_text`).
-/
namespace SaphyrVerif.Lemmas.C17
open SaphyrVerif SaphyrVerif.Snippet
open SaphyrVerif.Spec.Snippet (endsLineAt linesEndedBefore yamlLines)

/-- only the line break has the byte `0x0A` -/
theorem utf8Bytes_count_nl (c : Char) : (utf8Bytes c).count 0x0A = if c = '\n' then 1 else 0 := by
  rcases shape c with ⟨h, e⟩ | ⟨h1, h2, e⟩ | ⟨h1, h2, e⟩ | ⟨h1, e⟩
  · rw [e]
    by_cases hc : c = '\n'
    · rw [if_pos hc, hc]; decide
    · rw [if_neg hc]
      have : c.toNat ≠ 0x0A := fun h0 => hc (char_eq_of_toNat c 0x0A h0)
      apply List.count_eq_zero.mpr
      simp only [List.mem_singleton]
      exact fun h0 => this h0.symm
  · have hc : c ≠ '\n' := by intro h0; subst h0; exact absurd h1 (by decide)
    rw [e, if_neg hc]
    apply List.count_eq_zero.mpr
    simp only [List.mem_cons, List.not_mem_nil, or_false]; omega
  · have hc : c ≠ '\n' := by intro h0; subst h0; exact absurd h1 (by decide)
    rw [e, if_neg hc]
    apply List.count_eq_zero.mpr
    simp only [List.mem_cons, List.not_mem_nil, or_false]; omega
  · have hc : c ≠ '\n' := by intro h0; subst h0; exact absurd h1 (by decide)
    rw [e, if_neg hc]
    apply List.count_eq_zero.mpr
    simp only [List.mem_cons, List.not_mem_nil, or_false]; omega

theorem count_encode_nl (P : List Char) : (encode P).count 0x0A = P.count '\n' := by
  induction P with
  | nil => rfl
  | cons c cs ih => rw [encode, List.count_append, ih, utf8Bytes_count_nl, count_nl_cons]; omega

/-- the last byte of a character is `0x0A` exactly for the line break -/
theorem last_byte_nl (c : Char) : (utf8Bytes c).getLast? = some 0x0A ↔ c = '\n' := by
  rcases shape c with ⟨h, e⟩ | ⟨h1, h2, e⟩ | ⟨h1, h2, e⟩ | ⟨h1, e⟩
  · rw [e]
    simp only [List.getLast?_singleton, Option.some.injEq]
    constructor
    · intro h0; exact char_eq_of_toNat c 0x0A h0
    · intro h0; rw [h0]; decide
  · rw [e]
    simp only [List.getLast?_cons_cons, List.getLast?_singleton, Option.some.injEq]
    constructor
    · intro h0; omega
    · intro h0; subst h0; exact absurd h1 (by decide)
  · rw [e]
    simp only [List.getLast?_cons_cons, List.getLast?_singleton, Option.some.injEq]
    constructor
    · intro h0; omega
    · intro h0; subst h0; exact absurd h1 (by decide)
  · rw [e]
    simp only [List.getLast?_cons_cons, List.getLast?_singleton, Option.some.injEq]
    constructor
    · intro h0; omega
    · intro h0; subst h0; exact absurd h1 (by decide)

theorem utf8Bytes_ne_nil (c : Char) : utf8Bytes c ≠ [] := by
  intro h
  have := utf8Bytes_length c
  rw [h] at this
  have := utf8LenChar_pos c
  simp at *
  omega

theorem encode_getLast_nl (P : List Char) (h : (encode P).getLast? = some 0x0A) : P.getLast? = some '\n' := by
  rcases List.eq_nil_or_concat P with h0 | ⟨init, c, h0⟩
  · subst h0; cases h
  · subst h0
    rw [List.concat_eq_append, encode_append] at h
    have e1 : encode [c] = utf8Bytes c := by simp [encode]
    rw [e1, List.getLast?_append] at h
    cases hq : (utf8Bytes c).getLast? with
    | none =>
      exfalso
      exact utf8Bytes_ne_nil c (List.getLast?_eq_none_iff.mp hq)
    | some x =>
      rw [hq] at h
      simp only [Option.some_or, Option.some.injEq] at h
      rw [h] at hq
      rw [List.concat_eq_append, List.getLast?_append]
      simp [(last_byte_nl c).mp hq]

/-- byte windows of a valid stream, with the position of the complete characters inside the stream -/
theorem window_decomp_pos (cs : List Char) (a b : Nat) (hab : a ≤ b) (hb : b ≤ (encode cs).length) :
    ∃ ct mid ph P0 S0, ((encode cs).take b).drop a = ct ++ encode mid ++ ph ∧ (∀ x ∈ ct, isCont x = true) ∧
      IsPartialHead ph ∧ (mid ≠ [] → cs = P0 ++ mid ++ S0 ∧ (encode P0).length = a + ct.length) := by
  induction cs generalizing a b with
  | nil => exact ⟨[], [], [], [], [], by simp [encode], by simp, .inl rfl, fun h => absurd rfl h⟩
  | cons c cs ih =>
    have hl := utf8Bytes_length c
    by_cases hal : utf8LenChar c ≤ a
    · rw [encode] at hb ⊢
      rw [List.length_append, hl] at hb
      obtain ⟨ct, mid, ph, P0, S0, e, h1, h3, h4⟩ := ih (a - utf8LenChar c) (b - utf8LenChar c) (by omega) (by omega)
      refine ⟨ct, mid, ph, c :: P0, S0, ?_, h1, h3, ?_⟩
      · rw [List.take_append, hl, List.drop_append, List.length_take, hl, ← e]
        have e1 : (utf8Bytes c).take b = utf8Bytes c := List.take_of_length_le (by omega)
        rw [e1, List.drop_of_length_le (by omega), List.nil_append]
        congr 1
        omega
      · intro hm
        obtain ⟨q1, q2⟩ := h4 hm
        refine ⟨by rw [q1]; rfl, ?_⟩
        rw [encode, List.length_append, hl, q2]; omega
    · by_cases ha0 : a = 0
      · subst ha0
        obtain ⟨mid, ph, e, hp, hh⟩ := prefix_window (c :: cs) b hb
        obtain ⟨S0, hS⟩ := hp
        exact ⟨[], mid, ph, [], S0, by simpa using e, by simp, hh, fun _ => ⟨by simpa using hS.symm, by simp [encode]⟩⟩
      · obtain ⟨lead, conts, e, _, hconts, _, _, _⟩ := utf8Bytes_struct' c
        rw [encode] at hb ⊢
        rw [List.length_append, hl] at hb
        have hcont_drop : ∀ x ∈ (utf8Bytes c).drop a, isCont x = true := by
          intro x hx
          rw [e] at hx
          have : a = (a - 1) + 1 := by omega
          rw [this, List.drop_succ_cons] at hx
          exact hconts x (List.drop_subset _ _ hx)
        by_cases hbl : b ≤ utf8LenChar c
        · refine ⟨((utf8Bytes c).take b).drop a, [], [], [], [], ?_, ?_, .inl rfl, fun h => absurd rfl h⟩
          · rw [List.take_append, hl]
            have : b - utf8LenChar c = 0 := by omega
            rw [this]; simp [encode]
          · intro x hx
            rw [List.drop_take] at hx
            exact hcont_drop x (List.take_subset _ _ hx)
        · obtain ⟨mid, ph, e2, hp, hh⟩ := prefix_window cs (b - utf8LenChar c) (by omega)
          obtain ⟨S0, hS⟩ := hp
          refine ⟨(utf8Bytes c).drop a, mid, ph, [c], S0, ?_, hcont_drop, hh, fun _ => ⟨?_, ?_⟩⟩
          · rw [List.take_append, hl, List.drop_append, List.length_take, hl, e2]
            have e1 : (utf8Bytes c).take b = utf8Bytes c := List.take_of_length_le (by omega)
            have e3 : a - min b (utf8LenChar c) = 0 := by omega
            rw [e1, e3, List.drop_zero, List.append_assoc]
          · rw [← hS]; rfl
          · simp only [encode, List.append_nil, hl, List.length_drop]; omega

/-! ### bytes and characters: which bytes end a line -/

/-- every byte of a non-ASCII character is `≥ 0x80` -/
theorem utf8Bytes_ge (c : Char) (h : 0x80 ≤ c.toNat) : ∀ x ∈ utf8Bytes c, 0x80 ≤ x := by
  intro x hx
  rcases shape c with ⟨h1, e⟩ | ⟨h1, h2, e⟩ | ⟨h1, h2, e⟩ | ⟨h1, e⟩
  · omega
  all_goals
    rw [e] at hx
    simp only [List.mem_cons, List.not_mem_nil, or_false] at hx
    omega

theorem utf8Bytes_ascii (c : Char) (h : c.toNat < 0x80) : utf8Bytes c = [c.toNat] := by
  rcases shape c with ⟨h1, e⟩ | ⟨h1, h2, e⟩ | ⟨h1, h2, e⟩ | ⟨h1, e⟩
  · exact e
  all_goals omega

theorem toNat_eq_nl (c : Char) : c.toNat = 0x0A ↔ c = '\n' :=
  ⟨fun h => char_eq_of_toNat c 0x0A h, fun h => by rw [h]; decide⟩

theorem toNat_eq_cr (c : Char) : c.toNat = 0x0D ↔ c = '\r' :=
  ⟨fun h => char_eq_of_toNat c 0x0D h, fun h => by rw [h]; decide⟩

/-- the first byte of an encoded text is a line feed exactly when its first character is -/
theorem encode_first_nl (X : List Char) : (encode X)[0]? = some 0x0A ↔ X.head? = some '\n' := by
  cases X with
  | nil => simp [encode]
  | cons c cs =>
    rw [encode]
    by_cases h : c.toNat < 0x80
    · rw [utf8Bytes_ascii c h]
      simp only [List.cons_append, List.nil_append, List.getElem?_cons_zero, Option.some.injEq, List.head?_cons]
      exact toNat_eq_nl c
    · have hne := utf8Bytes_ne_nil c
      have hge := utf8Bytes_ge c (by omega)
      cases hq : utf8Bytes c with
      | nil => exact absurd hq hne
      | cons b bs =>
        have hb : 0x80 ≤ b := hge b (by rw [hq]; simp)
        simp only [List.cons_append, List.getElem?_cons_zero, Option.some.injEq, List.head?_cons]
        constructor
        · intro h0; omega
        · intro h0; rw [← toNat_eq_nl] at h0; omega

/-- lines ended within the bytes of one character, given the bytes that follow -/
theorem linesEnded_char (c : Char) (s : List Nat) :
    linesEndedBefore (utf8Bytes c ++ s) (utf8Bytes c).length =
      if c = '\n' ∨ (c = '\r' ∧ s[0]? ≠ some 0x0A) then 1 else 0 := by
  by_cases h : c.toNat < 0x80
  · rw [utf8Bytes_ascii c h]
    have e1 : ([c.toNat] : List Nat).length = 0 + 1 := rfl
    rw [e1, linesEndedBefore_succ, linesEndedBefore_zero]
    unfold endsLineAt
    simp only [List.cons_append, List.nil_append, List.getElem?_cons_zero, Nat.zero_add,
      List.getElem?_cons_succ]
    by_cases h1 : c = '\n'
    · have := (toNat_eq_nl c).mpr h1
      simp [h1, this]
    · have n1 : c.toNat ≠ 0x0A := fun h0 => h1 ((toNat_eq_nl c).mp h0)
      by_cases h2 : c = '\r'
      · have := (toNat_eq_cr c).mpr h2
        by_cases h3 : s[0]? = some 0x0A
        · simp [h2, this, h3]
        · simp [h2, this, h3]
      · have n2 : c.toNat ≠ 0x0D := fun h0 => h2 ((toNat_eq_cr c).mp h0)
        simp [h1, h2, n1, n2]
  · have hge := utf8Bytes_ge c (by omega)
    have h1 : c ≠ '\n' := by intro h0; rw [h0] at h; exact h (by decide)
    have h2 : c ≠ '\r' := by intro h0; rw [h0] at h; exact h (by decide)
    rw [if_neg (by intro hc; rcases hc with hc | hc; exact h1 hc; exact h2 hc.1)]
    have := linesEndedBefore_add_of_not_break (utf8Bytes c ++ s) 0 (utf8Bytes c).length (by
      intro i _ hi
      rw [List.getElem?_append_left (by omega), List.getElem?_eq_getElem (by omega)]
      have hb := hge _ (List.getElem_mem (by omega : i < (utf8Bytes c).length))
      constructor
      · intro h0; simp only [Option.some.injEq] at h0; omega
      · intro h0; simp only [Option.some.injEq] at h0; omega)
    rw [Nat.zero_add] at this
    rw [this, linesEndedBefore_zero]

/-- whether byte `|B| + i` of `B ++ s` ends a line is whether byte `i` of `s` does -/
theorem endsLineAt_append_right (B s : List Nat) (i : Nat) :
    endsLineAt (B ++ s) (B.length + i) = endsLineAt s i := by
  unfold endsLineAt
  rw [List.getElem?_append_right (by omega), List.getElem?_append_right (by omega)]
  have e1 : B.length + i - B.length = i := by omega
  have e2 : B.length + i + 1 - B.length = i + 1 := by omega
  rw [e1, e2]

theorem linesEndedBefore_shift (B s : List Nat) (n : Nat) :
    linesEndedBefore (B ++ s) (B.length + n) = linesEndedBefore (B ++ s) B.length + linesEndedBefore s n := by
  induction n with
  | zero => simp
  | succ n ih =>
    rw [← Nat.add_assoc, linesEndedBefore_succ, linesEndedBefore_succ, ih, endsLineAt_append_right]
    omega

/-- (bytes to characters) the lines ended within the encoding of a prefix `P` of a text, counted on the
bytes, are the lines ended within `P` given the character that follows it -/
theorem linesEnded_encode (P R : List Char) :
    linesEndedBefore (encode (P ++ R)) (encode P).length = breaksCtx P R.head? := by
  induction P with
  | nil => simp [encode, breaksCtx]
  | cons c cs ih =>
    rw [List.cons_append, encode, encode, List.length_append, linesEndedBefore_shift, linesEnded_char, ih,
      breaksCtx_cons]
    have e : (encode (cs ++ R))[0]? ≠ some 0x0A ↔ (cs.head?.or R.head?) ≠ some '\n' := by
      have e0 := encode_first_nl (cs ++ R)
      rw [List.head?_append] at e0
      exact not_congr e0
    by_cases h1 : c = '\n'
    · simp [h1]
    · by_cases h2 : c = '\r'
      · by_cases h3 : (encode (cs ++ R))[0]? ≠ some 0x0A
        · rw [if_pos (.inr ⟨h2, h3⟩), if_pos (.inr ⟨h2, e.mp h3⟩)]
        · rw [if_neg (by intro hc; rcases hc with hc | hc; exact h1 hc; exact h3 hc.2),
            if_neg (by intro hc; rcases hc with hc | hc; exact h1 hc; exact h3 (e.mpr hc.2))]
      · rw [if_neg (by intro hc; rcases hc with hc | hc; exact h1 hc; exact h2 hc.1),
          if_neg (by intro hc; rcases hc with hc | hc; exact h1 hc; exact h2 hc.1)]

/-- continuation bytes end no line: dropping them at the left edge keeps the line number -/
theorem window_lines_ended (S : List Nat) (a b : Nat) (hab : a ≤ b) (hb : b ≤ S.length) (ct rest : List Nat)
    (hw : (S.take b).drop a = ct ++ rest) (hct : ∀ x ∈ ct, isCont x = true) :
    linesEndedBefore S (a + ct.length) = linesEndedBefore S a := by
  apply linesEndedBefore_add_of_not_break
  intro i h1 h2
  have hlen : ((S.take b).drop a).length = b - a := by
    rw [List.length_drop, List.length_take]; omega
  have hk : ct.length ≤ b - a := by
    rw [← hlen, hw, List.length_append]; omega
  have hget : S[i]? = ct[i - a]? := by
    have e1 : ((S.take b).drop a)[i - a]? = S[i]? := by
      rw [List.getElem?_drop, List.getElem?_take, if_pos (by omega)]
      congr 1; omega
    rw [← e1, hw, List.getElem?_append_left (by omega)]
  rw [hget, List.getElem?_eq_getElem (by omega)]
  have hc := hct _ (List.getElem_mem (by omega : i - a < ct.length))
  unfold isCont at hc
  simp only [beq_iff_eq] at hc
  constructor
  · intro h0; simp only [Option.some.injEq] at h0; omega
  · intro h0; simp only [Option.some.injEq] at h0; omega

theorem last_byte_cr' (c : Char) : (utf8Bytes c).getLast? = some 0x0D ↔ c = '\r' := by
  rw [List.getLast?_eq_getElem?, utf8Bytes_length]
  exact last_byte_cr c

theorem encode_getLast_cr (P : List Char) (h : (encode P).getLast? = some 0x0D) : P.getLast? = some '\r' := by
  rcases List.eq_nil_or_concat P with h0 | ⟨init, c, h0⟩
  · subst h0; cases h
  · subst h0
    rw [List.concat_eq_append, encode_append] at h
    have e1 : encode [c] = utf8Bytes c := by simp [encode]
    rw [e1, List.getLast?_append] at h
    cases hq : (utf8Bytes c).getLast? with
    | none =>
      exfalso
      exact utf8Bytes_ne_nil c (List.getLast?_eq_none_iff.mp hq)
    | some x =>
      rw [hq] at h
      simp only [Option.some_or, Option.some.injEq] at h
      rw [h] at hq
      rw [List.concat_eq_append, List.getLast?_append]
      simp [(last_byte_cr' c).mp hq]

/-! ### `line_aligned_text`: skipping the partial first line -/

/-- what `line_aligned_text` leaves out of a snapshot that starts inside a line: a piece without line
breaks and then the first line break (LF, CRLF, or a CR that is not followed by LF) -/
theorem lineAligned_false (text : List Char) (sl : Nat) :
    ∃ R, lineAligned false text sl = (R, satAdd sl 1) ∧
      (R ≠ [] → ∃ x brk, text = x ++ brk ++ R ∧ (∀ c ∈ x, c ≠ '\n' ∧ c ≠ '\r') ∧
        (brk = ['\n'] ∨ brk = ['\r', '\n'] ∨ (brk = ['\r'] ∧ R.head? ≠ some '\n'))) := by
  unfold lineAligned
  simp only [Bool.false_eq_true, if_false]
  refine ⟨_, rfl, ?_⟩
  -- the piece before the first CR / LF
  have hsplit : ∃ x, text = x ++ text.dropWhile (fun c => decide (c ≠ '\n' ∧ c ≠ '\r')) ∧
      (∀ c ∈ x, c ≠ '\n' ∧ c ≠ '\r') ∧
      (∀ d ds, text.dropWhile (fun c => decide (c ≠ '\n' ∧ c ≠ '\r')) = d :: ds → d = '\n' ∨ d = '\r') := by
    induction text with
    | nil => exact ⟨[], rfl, by simp, by simp⟩
    | cons c cs ih =>
      by_cases hc : c ≠ '\n' ∧ c ≠ '\r'
      · obtain ⟨x, h1, h2, h3⟩ := ih
        have e : (c :: cs).dropWhile (fun c => decide (c ≠ '\n' ∧ c ≠ '\r')) =
            cs.dropWhile (fun c => decide (c ≠ '\n' ∧ c ≠ '\r')) := by
          rw [List.dropWhile_cons]; simp [hc]
        rw [e]
        refine ⟨c :: x, by rw [List.cons_append, ← h1], ?_, h3⟩
        intro d hd
        rcases List.mem_cons.mp hd with h0 | h0
        · rw [h0]; exact hc
        · exact h2 d h0
      · have e : (c :: cs).dropWhile (fun c => decide (c ≠ '\n' ∧ c ≠ '\r')) = c :: cs := by
          rw [List.dropWhile_cons]; simp [hc]
        rw [e]
        refine ⟨[], rfl, by simp, ?_⟩
        intro d ds hd
        simp only [List.cons.injEq] at hd
        rw [← hd.1]
        by_cases h1 : c = '\n'
        · exact .inl h1
        · by_cases h2 : c = '\r'
          · exact .inr h2
          · exact absurd ⟨h1, h2⟩ hc
  obtain ⟨x, h1, h2, h3⟩ := hsplit
  generalize text.dropWhile (fun c => decide (c ≠ '\n' ∧ c ≠ '\r')) = d at h1 h3
  intro hR
  split at hR
  · rename_i t
    exact ⟨x, ['\r', '\n'], by rw [h1]; simp, h2, .inr (.inl rfl)⟩
  · rename_i c t hnot
    rcases h3 c t rfl with hc | hc
    · subst hc
      exact ⟨x, ['\n'], by rw [h1]; simp, h2, .inl rfl⟩
    · subst hc
      refine ⟨x, ['\r'], by rw [h1]; simp, h2, .inr (.inr ⟨rfl, ?_⟩)⟩
      intro hh
      cases t with
      | nil => simp at hh
      | cons e es =>
        simp only [List.head?_cons, Option.some.injEq] at hh
        subst hh
        exact hnot es rfl rfl
  · exact absurd rfl hR

/-- (reader snippets) what `from_reader` attaches as snippet text — `get_recent()` followed by
`line_aligned_text()` — on a valid UTF-8 stream: never a panic, and a non-empty text is a contiguous
piece of the stream that begins at the beginning of a line under the YAML rule (LF, CRLF, lone CR),
numbered with that line's number -/
theorem ringRunAligned_spec (cap ahead : Nat) (hcap : 1 ≤ cap) (cs : List Char) (consumed : Nat)
    (hlen : (encode cs).length + 2 ≤ usizeMax) :
    ∃ starts T L, ringRunAligned cap ahead (encode cs) consumed = .ok (starts, T, L) ∧
      (T ≠ [] → ∃ P S, cs = P ++ T ++ S ∧ EndsLine P T ∧ L = (yamlLines P).length) := by
  unfold ringRunAligned
  simp only []
  generalize hn : min consumed (encode cs).length + ahead = n
  have hseen_len : ((encode cs).take n).length + 2 ≤ usizeMax := by rw [List.length_take]; omega
  obtain ⟨hbuf, hoff, hline⟩ := ringPush_spec cap hcap ((encode cs).take n) hseen_len
  have hstarts := ringPush_starts_spec cap hcap ((encode cs).take n) hseen_len
  unfold RingStarts at hstarts
  generalize hr : ringPush cap ⟨[], 0, 1, true⟩ 0 ((encode cs).take n) = r at hbuf hoff hline hstarts
  by_cases hemp : r.buf.isEmpty = true
  · rw [if_pos hemp]
    have hnil : (encode cs).take n = [] := by
      rw [hbuf] at hemp
      have h1 := List.isEmpty_iff.mp hemp
      have h2 := congrArg List.length h1
      rw [List.length_drop] at h2
      apply List.eq_nil_of_length_eq_zero
      simp only [List.length_nil] at h2
      omega
    have hst : r.startsLine = true := by rw [hstarts, hnil]; simp
    rw [hst]
    exact ⟨true, [], r.startLine, rfl, fun h => absurd rfl h⟩
  · rw [if_neg hemp]
    have hne : (encode cs).take n ≠ [] := by
      intro h; apply hemp; rw [hbuf, h]; simp
    -- the ring content as a window [a, b) of the stream
    generalize hb : ((encode cs).take n).length = b at hbuf hoff hline hstarts
    have hbpos : 0 < b := by
      rw [← hb]; exact List.length_pos_iff.mpr hne
    have hble : b ≤ (encode cs).length := by rw [← hb, List.length_take]; omega
    have htt : (encode cs).take b = (encode cs).take n := by
      rw [← hb, List.length_take]
      by_cases hnl : n ≤ (encode cs).length
      · rw [Nat.min_eq_left hnl]
      · rw [Nat.min_eq_right (by omega), List.take_of_length_le (Nat.le_refl _), List.take_of_length_le (by omega)]
    rw [← htt] at hbuf hline hstarts
    -- the line number of the ring's first byte, on the whole stream
    have hline' : r.startLine = 1 + linesEndedBefore (encode cs) (b - cap) := by
      rw [hline, linesEndedBefore_take _ _ _ (by omega)]
    obtain ⟨ct, mid, ph, P0, S0, hwin, hct, hph, hpos⟩ := window_decomp_pos cs (b - cap) b (by omega) hble
    have hsl_le : r.startLine ≤ usizeMax := by
      rw [hline']
      have h1 := linesEndedBefore_le (encode cs) (b - cap)
      omega
    rw [hbuf, hwin, ringTrim_spec ct mid ph r.startOffset r.startLine hct hph hsl_le]
    simp only [res_bind_ok, decode_encode]
    have hoff' : r.startOffset = b - cap := hoff hne
    -- lines ended before the first complete character of the snapshot
    have hP0lines : mid ≠ [] → r.startLine = 1 + breaksCtx P0 mid.head? := by
      intro hmid
      obtain ⟨hcs, hP0⟩ := hpos hmid
      have hcnt := window_lines_ended (encode cs) (b - cap) b (by omega) hble ct (encode mid ++ ph)
        (by rw [hwin, List.append_assoc]) hct
      rw [hline', ← hcnt, ← hP0]
      have e : cs = P0 ++ (mid ++ S0) := by rw [hcs, List.append_assoc]
      conv => lhs; rw [e]
      rw [linesEnded_encode]
      cases mid with
      | nil => exact absurd rfl hmid
      | cons c' cs' => rfl
    by_cases hst : (r.startsLine && decide (r.startOffset + ct.length = r.startOffset)) = true
    · -- the snapshot starts at the beginning of a line
      rw [hst]
      simp only [lineAligned, if_true]
      refine ⟨_, _, _, rfl, ?_⟩
      intro hT
      simp only [Bool.and_eq_true, decide_eq_true_eq] at hst
      have hct0 : ct = [] := List.eq_nil_of_length_eq_zero (by omega)
      obtain ⟨hcs, hP0⟩ := hpos hT
      rw [hct0] at hP0
      simp only [List.length_nil, Nat.add_zero] at hP0
      have hS : encode cs = encode P0 ++ (encode mid ++ encode S0) := by
        rw [hcs, encode_append, encode_append, List.append_assoc]
      have hends : EndsLine P0 mid := by
        by_cases h0 : b - cap = 0
        · left
          have : (encode P0).length = 0 := by omega
          have h2 : encode P0 = [] := List.eq_nil_of_length_eq_zero this
          cases P0 with
          | nil => rfl
          | cons c cs' =>
            exfalso
            rw [encode] at h2
            exact utf8Bytes_ne_nil c (List.append_eq_nil_iff.mp h2).1
        · right
          have hs1 := hst.1
          rw [hstarts] at hs1
          simp only [decide_eq_true_eq] at hs1
          have hs2 : endsLineAt ((encode cs).take b) (b - cap - 1) = true := by
            rcases hs1 with hs1 | hs1
            · exfalso; omega
            · exact hs1
          have hidx : ((encode cs).take b)[b - cap - 1]? = (encode P0).getLast? := by
            rw [List.getElem?_take, if_pos (by omega), hS, List.getElem?_append_left (by omega),
              List.getLast?_eq_getElem?, hP0]
          have hidx2 : ((encode cs).take b)[b - cap - 1 + 1]? = (encode (mid ++ S0))[0]? := by
            have e1 : b - cap - 1 + 1 = (encode P0).length + 0 := by omega
            rw [List.getElem?_take, if_pos (by omega), hS, e1, List.getElem?_append_right (by omega),
              encode_append]
            simp
          unfold endsLineAt at hs2
          rw [hidx, hidx2] at hs2
          simp only [Bool.or_eq_true, beq_iff_eq, Bool.and_eq_true, bne_iff_ne, ne_eq] at hs2
          rcases hs2 with h1 | ⟨h1, h2⟩
          · exact .inl (encode_getLast_nl P0 h1)
          · refine .inr ⟨encode_getLast_cr P0 h1, ?_⟩
            intro hh
            apply h2
            apply (encode_first_nl (mid ++ S0)).mpr
            rw [List.head?_append, hh]; rfl
      refine ⟨P0, S0, hcs, hends, ?_⟩
      rw [hP0lines hT]
      have := breaksCtx_yamlLines P0 mid.head?
      rw [if_neg (by
        intro hc
        rcases hends with h0 | h0 | h0
        · rw [h0] at hc; simp at hc
        · rw [h0] at hc; exact absurd hc.1 (by decide)
        · exact h0.2 hc.2)] at this
      omega
    · -- the beginning of the first retained line has been evicted: it is left out
      have hst' : (r.startsLine && decide (r.startOffset + ct.length = r.startOffset)) = false := by
        simpa using hst
      rw [hst']
      obtain ⟨R, hR, hRspec⟩ := lineAligned_false mid r.startLine
      rw [hR]
      refine ⟨_, _, _, rfl, ?_⟩
      intro hT
      obtain ⟨x, brk, hx, hnx, hbrk⟩ := hRspec hT
      have hmid : mid ≠ [] := by
        intro h0; rw [h0] at hx
        have := congrArg List.length hx
        simp only [List.length_nil, List.length_append] at this
        have : R.length = 0 := by omega
        exact hT (List.eq_nil_of_length_eq_zero this)
      obtain ⟨hcs, hP0⟩ := hpos hmid
      have hbne : brk ≠ [] := by
        rcases hbrk with h0 | h0 | h0
        · rw [h0]; simp
        · rw [h0]; simp
        · rw [h0.1]; simp
      have hends : EndsLine (P0 ++ x ++ brk) R := by
        right
        rcases hbrk with h0 | h0 | h0
        · left; rw [h0]; simp
        · left; rw [h0]; simp [List.getLast?_append]
        · right; rw [h0.1]; exact ⟨by simp, h0.2⟩
      refine ⟨P0 ++ x ++ brk, S0, ?_, hends, ?_⟩
      · conv => lhs; rw [hcs, hx]
        simp
      · rw [hP0lines hmid]
        have hyl := breaksCtx_yamlLines (P0 ++ x ++ brk) R.head?
        rw [if_neg (by
          intro hc
          rcases hends with h0 | h0 | h0
          · have : brk = [] := by
              have := congrArg List.length h0
              simp only [List.length_append, List.length_nil] at this
              exact List.eq_nil_of_length_eq_zero (by omega)
            exact hbne this
          · rw [h0] at hc; exact absurd hc.1 (by decide)
          · exact h0.2 hc.2)] at hyl
        rw [← hyl, List.append_assoc, breaksCtx_append, breaksCtx_append, breaksCtx_no_break x _ hnx]
        have hhead : (x ++ brk).head?.or R.head? = mid.head? := by
          rw [hx]; simp only [List.head?_append]
        rw [hhead]
        have hone : breaksCtx brk R.head? = 1 := by
          rcases hbrk with h0 | h0 | h0
          · rw [h0]; simp [breaksCtx]
          · rw [h0]; simp [breaksCtx]
          · rw [h0.1]; simp [breaksCtx, h0.2]
        rw [hone]
        have hle := hsl_le
        rw [hP0lines hmid] at hle
        rw [satAdd_eq _ _ (by
          have h1 := linesEndedBefore_le (encode cs) (b - cap)
          rw [hline'] at hsl_le
          rw [← hP0lines hmid, hline']
          omega)]
        omega

end SaphyrVerif.Lemmas.C17
