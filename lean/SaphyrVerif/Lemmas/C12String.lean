import SaphyrVerif.Lemmas.C12QuotedDoc
import SaphyrVerif.Lemmas.C12FoldDoc
/-!
Helper lemmas for C12: every branch of the string writer, at document level, put together.
-/
set_option linter.unusedSimpArgs false

namespace SaphyrVerif.Lemmas.C12
open SaphyrVerif SaphyrVerif.SerScalar SaphyrVerif.Spec.Read SaphyrVerif.Scalars

/-- node level, plain, from the writer's own tests only -/
theorem readNode_plain_w (p : Spec.Read.Pos) (s : List Char) (y fl : Bool) (parent : Int)
    (h : isPlainValueSafe s y fl = true) (hfl : p.isFlow = true → fl = true)
    (hu : isUnsafePlainShape s = false) :
    readNode p (s ++ lineEnd p) (posCol0 p) parent = some (.plain, s) := by
  obtain ⟨_, hhead, _, _, hsafe, hdash⟩ := pvs_unfold h
  obtain ⟨hb, _, hdm⟩ := unsafe_shape_facts hu
  have hne : s ≠ [] := by intro e; subst e; simp [headRejects] at hhead
  exact readNode_plain p s y fl (posCol0 p) parent h hfl hb
    (fun hf => not_suffix_of_endsWithBlankDash (hdash (hfl hf)))
    (fun _ => docMarker_safe p fl s hsafe hne hdm)

/-- facts about the first character and U+0000 for a plain text -/
theorem plain_text_facts (s : List Char) (y fl : Bool) (h : isPlainValueSafe s y fl = true)
    (hu : isUnsafePlainShape s = false) :
    ∃ c r, s = c :: r ∧ isBlank c = false ∧ c ≠ '%' ∧ c ≠ Char.ofNat 0xFEFF ∧ s.any isNul = false := by
  obtain ⟨_, hhead, _, _, hsafe, _⟩ := pvs_unfold h
  cases hs : s with
  | nil => rw [hs] at hhead; simp [headRejects] at hhead
  | cons c r =>
    rw [hs] at hhead hu hsafe
    obtain ⟨hblank, hpct⟩ := head_facts hhead
    have hbom : c ≠ Char.ofNat 0xFEFF := by simpa using (unsafe_shape_facts hu).2.1
    refine ⟨c, r, rfl, hblank, hpct, hbom, ?_⟩
    apply Bool.eq_false_iff.mpr
    intro hc
    obtain ⟨x, hxm, hxn⟩ := List.any_eq_true.mp hc
    rw [(not_control_facts (hsafe x hxm).1).2.2] at hxn; cases hxn

theorem lineEnd_noNul (p : Spec.Read.Pos) : (lineEnd p).any isNul = false := by cases p <;> decide

/-- A one-line scalar text `T` in a value position: if the node reader reads `T` (followed by the
closing of the position) as `(st, s)`, the whole document round-trips. -/
theorem line_doc (o : Opts) (p : SerScalar.Pos) (hp : 1 ≤ o.indentStep) (hk : isKeyPos p = false)
    (v T : List Char) (st : Style) (d : Nat) (hd : p = .root → d = 0)
    (hser : serializeStr o (posCtx o p) v = .ok (spOf (posCtx o p) ++ writeIndent o (posCtx o p) d ++ T ++ nlOf (posCtx o p)))
    (c : Char) (r : List Char) (hT : T = c :: r)
    (hblank : isBlank c = false) (hpct : c ≠ '%') (hbom : c ≠ Char.ofNat 0xFEFF) (hnul : T.any isNul = false)
    (hnode : readNode (toRead p) (T ++ lineEnd (toRead p)) (posCol0 (toRead p)) (posParentO o (toRead p)) = some (st, v)) :
    ∃ t, emitDoc o p v = .ok t ∧ readDoc (toRead p) t = some (st, v) := by
  refine ⟨_, emit_of_line o p hk v T d hd hser, ?_⟩
  subst hT
  have hn : ((c :: r) ++ lineEnd (toRead p)).any isNul = false := by
    rw [List.any_append, hnul, lineEnd_noNul]; rfl
  exact (readDoc_open o (toRead p) hp c (r ++ lineEnd (toRead p)) hblank hpct hbom hn).trans hnode

/-! ### the style the writer chooses (a decision function over the writer's own tests) -/

/-- style of `KeyScalarSink::serialize_str` -/
def keyStyle (y : Bool) (v : List Char) : Style :=
  if isPlainSafe v && isPlainValueSafe v y true && !isUnsafePlainShape v then .plain else .double

/-- style of `write_plain_or_quoted_value` -/
def pqvStyle (o : Opts) (inFlow : Bool) (v : List Char) : Style :=
  if o.quoteAll then (if needsDoubleQuotes v then .double else .single)
  else if isPlainValueSafe v o.yaml12 inFlow && !isUnsafePlainShape v then .plain else .double

/-- the style in which the string `v` is written in position `p` under the options `o` -/
def writerStyle (o : Opts) (p : SerScalar.Pos) (v : List Char) : Style :=
  if isKeyPos p then keyStyle o.yaml12 v
  else
    match autoStyle o (posCtx o p).inFlow v with
    | none =>
      if v.length == 1 && (v == ['.'] || v == ['#'] || v == ['-']) then .single
      else pqvStyle o (posCtx o p).inFlow v
    | some st =>
      if blockFallback o (posCtx o p) v then pqvStyle o (posCtx o p).inFlow v
      else match st with
        | .literal => .literal
        | .folded => .folded

/-- the same for key positions (the key sink's text) -/
theorem key_doc (o : Opts) (p : SerScalar.Pos) (hp : 1 ≤ o.indentStep) (hk : isKeyPos p = true)
    (v : List Char) : ∃ t, emitDoc o p v = .ok t ∧ readDoc (toRead p) t = some (keyStyle o.yaml12 v, v) := by
  have hemit := emit_key o p hk v
  by_cases hplain : (isPlainSafe v && isPlainValueSafe v o.yaml12 true && !isUnsafePlainShape v) = true
  · simp only [Bool.and_eq_true, Bool.not_eq_true'] at hplain
    obtain ⟨c, r, hs, hblank, hpct, hbom, hnul⟩ := plain_text_facts v o.yaml12 true hplain.1.2 hplain.2
    have hks : keySinkStr v o.yaml12 = v := by
      unfold keySinkStr
      rw [if_pos (by simp [hplain.1.1, hplain.1.2, hplain.2])]
    have hst : keyStyle o.yaml12 v = .plain := by
      unfold keyStyle; rw [if_pos (by simp [hplain.1.1, hplain.1.2, hplain.2])]
    rw [hst]
    refine ⟨_, hemit, ?_⟩
    rw [hks]
    have hnode := readNode_plain_w (toRead p) v o.yaml12 true (posParentO o (toRead p)) hplain.1.2 (fun _ => rfl) hplain.2
    have hn : (v ++ lineEnd (toRead p)).any isNul = false := by
      rw [List.any_append, hnul, lineEnd_noNul]; rfl
    rw [hs] at hn hnode ⊢
    exact (readDoc_open o (toRead p) hp c (r ++ lineEnd (toRead p)) hblank hpct hbom hn).trans hnode
  · have hks : keySinkStr v o.yaml12 = keyQuoted v := by
      unfold keySinkStr keyQuoted
      rw [if_neg hplain]
    have hst : keyStyle o.yaml12 v = .double := by
      unfold keyStyle; rw [if_neg hplain]
    rw [hst]
    refine ⟨_, hemit, ?_⟩
    rw [hks]
    have hn : (keyQuoted v ++ lineEnd (toRead p)).any isNul = false := by
      rw [List.any_append, keyQuoted_noNul, lineEnd_noNul]; rfl
    have hnode := readNode_keydq (toRead p) v (posCol0 (toRead p)) (posParentO o (toRead p))
    unfold keyQuoted at hn hnode ⊢
    exact (readDoc_open o (toRead p) hp '"' ((v.flatMap keyEscape ++ ['"']) ++ lineEnd (toRead p))
      (by decide) (by decide) (by decide) hn).trans hnode

/-- `write_plain_or_quoted_value` at document level: whatever it chooses reads back -/
theorem pqv_doc (o : Opts) (p : SerScalar.Pos) (hp : 1 ≤ o.indentStep) (hk : isKeyPos p = false)
    (v : List Char) (d : Nat) (hd : p = .root → d = 0)
    (hflow : (posCtx o p).inFlow = (toRead p).isFlow)
    (hser : serializeStr o (posCtx o p) v = .ok (spOf (posCtx o p) ++ writeIndent o (posCtx o p) d ++
      writePlainOrQuotedValue v o.quoteAll o.yaml12 (posCtx o p).inFlow ++ nlOf (posCtx o p))) :
    ∃ t, emitDoc o p v = .ok t ∧ readDoc (toRead p) t = some (pqvStyle o (posCtx o p).inFlow v, v) := by
  unfold writePlainOrQuotedValue at hser
  unfold pqvStyle
  by_cases hq : o.quoteAll = true
  · rw [if_pos hq] at hser ⊢
    by_cases hn : needsDoubleQuotes v = true
    · rw [if_pos hn] at hser ⊢
      exact (line_doc o p hp hk v (writeQuoted v) .double d hd hser '"' _ rfl (by decide) (by decide) (by decide)
        (writeQuoted_noNul v) (readNode_dq _ v _ _))
    · rw [if_neg hn] at hser ⊢
      have hn' : needsDoubleQuotes v = false := by simpa using hn
      exact (line_doc o p hp hk v (writeSingleQuoted v) .single d hd hser '\'' _ rfl (by decide) (by decide) (by decide)
        (writeSingleQuoted_noNul v hn') (readNode_sq _ v _ _ hn'))
  · rw [if_neg hq] at hser ⊢
    by_cases hpl : (isPlainValueSafe v o.yaml12 (posCtx o p).inFlow && !isUnsafePlainShape v) = true
    · rw [if_pos hpl] at hser ⊢
      simp only [Bool.and_eq_true, Bool.not_eq_true'] at hpl
      obtain ⟨c, r, hs, hblank, hpct, hbom, hnul⟩ := plain_text_facts v o.yaml12 _ hpl.1 hpl.2
      exact (line_doc o p hp hk v v .plain d hd hser c r hs hblank hpct hbom hnul
        (readNode_plain_w (toRead p) v o.yaml12 _ _ hpl.1 (fun hf => by rw [hflow]; exact hf) hpl.2))
    · rw [if_neg hpl] at hser ⊢
      exact (line_doc o p hp hk v (writeQuoted v) .double d hd hser '"' _ rfl (by decide) (by decide) (by decide)
        (writeQuoted_noNul v) (readNode_dq _ v _ _))

theorem posCtx_flow (o : Opts) (p : SerScalar.Pos) (hk : isKeyPos p = false) :
    (posCtx o p).inFlow = (toRead p).isFlow := by
  cases p <;> first | rfl | (cases hk; done)

/-- EVERY string, in every modelled position, under every option vector: the document the
writer produces is read back as that string, in the style the writer chose. -/
theorem string_doc (o : Opts) (p : SerScalar.Pos) (hstep : 1 ≤ o.indentStep)
    (v : List Char) : ∃ t, emitDoc o p v = .ok t ∧ readDoc (toRead p) t = some (writerStyle o p v, v) := by
  unfold writerStyle
  by_cases hk : isKeyPos p = true
  · rw [if_pos hk]; exact key_doc o p hstep hk v
  rw [if_neg hk]
  have hk' : isKeyPos p = false := by simpa using hk
  have hflow := posCtx_flow o p hk'
  cases hauto : autoStyle o (posCtx o p).inFlow v with
  | none =>
    simp only
    have hser0 : serializeStr o (posCtx o p) v =
        .ok (spOf (posCtx o p) ++ writeIndent o (posCtx o p) (posCtx o p).depth ++ scalarTail o (posCtx o p) v) := by
      unfold serializeStr
      rw [hauto]; rfl
    have hd : p = .root → (posCtx o p).depth = 0 := by intro e; subst e; rfl
    unfold scalarTail at hser0
    by_cases hsp : (v.length == 1 && (v == ['.'] || v == ['#'] || v == ['-'])) = true
    · rw [if_pos hsp] at hser0 ⊢
      have hv : v = ['.'] ∨ v = ['#'] ∨ v = ['-'] := by
        simp only [Bool.and_eq_true, Bool.or_eq_true, beq_iff_eq] at hsp
        rcases hsp.2 with (h | h) | h
        · exact Or.inl h
        · exact Or.inr (Or.inl h)
        · exact Or.inr (Or.inr h)
      have hn' : needsDoubleQuotes v = false := by
        rcases hv with h | h | h <;> (subst h; decide)
      have hw : '\'' :: (v ++ ['\'']) = writeSingleQuoted v := by
        rcases hv with h | h | h <;> (subst h; decide)
      rw [hw] at hser0
      have hser : serializeStr o (posCtx o p) v = .ok (spOf (posCtx o p) ++ writeIndent o (posCtx o p) (posCtx o p).depth ++
          writeSingleQuoted v ++ nlOf (posCtx o p)) := by
        rw [hser0]; simp [nlOf, List.append_assoc]
      exact line_doc o p hstep hk' v (writeSingleQuoted v) .single _ hd hser '\'' _ rfl (by decide) (by decide) (by decide)
        (writeSingleQuoted_noNul v hn') (readNode_sq _ v _ _ hn')
    · rw [if_neg hsp] at hser0 ⊢
      have hser : serializeStr o (posCtx o p) v = .ok (spOf (posCtx o p) ++ writeIndent o (posCtx o p) (posCtx o p).depth ++
          writePlainOrQuotedValue v o.quoteAll o.yaml12 (posCtx o p).inFlow ++ nlOf (posCtx o p)) := by
        rw [hser0]; simp [nlOf, List.append_assoc]
      exact pqv_doc o p hstep hk' v _ hd hflow hser
  | some style =>
    simp only
    have hnf : (posCtx o p).inFlow = false := by
      cases hf : (posCtx o p).inFlow with
      | false => rfl
      | true => rw [hf] at hauto; simp [autoStyle] at hauto
    have hauto' := hauto
    rw [hnf] at hauto'
    by_cases hfb : blockFallback o (posCtx o p) v = true
    · rw [if_pos hfb]
      have hser : serializeStr o (posCtx o p) v = .ok (spOf (posCtx o p) ++ writeIndent o (posCtx o p) (blockBase (posCtx o p)) ++
          writePlainOrQuotedValue v o.quoteAll o.yaml12 (posCtx o p).inFlow ++ nlOf (posCtx o p)) := by
        unfold serializeStr
        rw [hauto]
        simp only [hfb, if_true, spOf, nlOf, hnf]
      exact pqv_doc o p hstep hk' v _ (by intro e; subst e; rfl) hflow hser
    · rw [if_neg hfb]
      have hfb' : blockFallback o (posCtx o p) v = false := by simpa using hfb
      have hbp : isBlockPos p = true := by
        rw [hflow] at hnf
        cases p <;> first | rfl | (cases hk'; done) | (cases hnf; done)
      cases style with
      | literal => exact literal_doc o p v hbp hstep hauto' hfb'
      | folded => exact folded_doc o p v hbp hstep hauto' hfb'

end SaphyrVerif.Lemmas.C12
