import SaphyrVerif.Lemmas.C11_Typed2LockDe
/-!
Lock-step simulation (twin of `Lemmas/E2EBudget*.lean`, see `Lemmas/C11_Typed2LockRel.lean`), part 5c: the deserializer proper (`deser`), sequences
(`deserSeqLike`), mappings (`deserMapLike`, `mapEntries`, `structEntries`).
-/
namespace SaphyrVerif.Lemmas.Lock
open SaphyrVerif SaphyrVerif.Scalars SaphyrVerif.Pump SaphyrVerif.De

set_option linter.unusedSimpArgs false
set_option linter.unusedVariables false
set_option linter.unusedSectionVars false

variable {P : LP} (hcl : Closed P)
include hcl

theorem deser_lkStep {fuel : Nat} (ih : LA P fuel) :
    ∀ cfg ty ik km {c}, P.Inv c →
      LR P (De.deser (fuel + 1) cfg ty ik km c) (De.deser (fuel + 1) cfg ty ik km (P.σ c)) := by
  intro cfg ty ik km c hi
  cases ty <;> rw [De.deser, De.deser]
  all_goals lk_loop

theorem deserMapLike_lkStep {fuel : Nat} (ih : LA P fuel) :
    ∀ cfg shape {c}, P.Inv c →
      LR P (De.deserMapLike (fuel + 1) cfg shape c) (De.deserMapLike (fuel + 1) cfg shape (P.σ c)) := by
  intro cfg shape c hi
  rw [De.deserMapLike, De.deserMapLike]
  lk_loop

theorem mapEntries_lkStep {fuel : Nat} (ih : LA P fuel) :
    ∀ cfg kt vt m acc {c}, P.Inv c →
      LR P (De.mapEntries (fuel + 1) cfg kt vt c m acc) (De.mapEntries (fuel + 1) cfg kt vt (P.σ c) m acc) := by
  intro cfg kt vt m acc c hi
  rw [De.mapEntries, De.mapEntries]
  lk_loop

theorem structEntries_lkStep {fuel : Nat} (ih : LA P fuel) :
    ∀ cfg fields deny m acc {c}, P.Inv c →
      LR P (De.structEntries (fuel + 1) cfg fields deny c m acc)
        (De.structEntries (fuel + 1) cfg fields deny (P.σ c) m acc) := by
  intro cfg fields deny m acc c hi
  rw [De.structEntries, De.structEntries]
  lk_loop

theorem deserSeqLike_lkStep {fuel : Nat} (ih : LA P fuel) :
    ∀ cfg shape {c}, P.Inv c →
      LR P (De.deserSeqLike (fuel + 1) cfg shape c) (De.deserSeqLike (fuel + 1) cfg shape (P.σ c)) := by
  intro cfg shape c hi
  rcases shape with t | ts
  case inr =>
    rw [De.deserSeqLike, De.deserSeqLike]
    rcases hcl.peek_cases hi with ⟨o, d, hp, hp', hi1⟩ | ⟨e, d, hp, hp', hi1⟩
    · rw [hp, hp']
      simp only []
      rcases o with _ | (⟨v, tag, rt, st, a, l⟩ | _ | _ | _ | _)
      case some.scalar =>
        by_cases h1 : (tag == tagNull || scalarIsNullish v st) = true
        · by_cases h3 : ts.isEmpty = true
          · simp only [h1, h3, ↓reduceIte, Bool.false_eq_true]
            lk_loop
          · simp only [h1, h3, ↓reduceIte, Bool.false_eq_true]
            lk_loop
        · by_cases h2 : (tag == tagBinary) = true
          · simp only [h1, h2, ↓reduceIte, Bool.false_eq_true]
            cases Base64.decode (utf8Bytes v) <;> simp only [] <;> lk_loop
          · simp only [h1, h2, ↓reduceIte, Bool.false_eq_true]
            lk_loop
      all_goals
        simp only []
        lk_loop
    · rw [hp, hp']
      lk_loop
  rw [De.deserSeqLike, De.deserSeqLike]
  rcases hcl.peek_cases hi with ⟨o, d, hp, hp', hi1⟩ | ⟨e, d, hp, hp', hi1⟩
  · rw [hp, hp']
    simp only []
    rcases o with _ | (⟨v, tag, rt, st, a, l⟩ | _ | _ | _ | _)
    case some.scalar =>
      by_cases h1 : (tag == tagNull || scalarIsNullish v st) = true
      · simp only [h1, ↓reduceIte, Bool.false_eq_true]
        lk_loop
      · by_cases h2 : (tag == tagBinary) = true
        · simp only [h1, h2, ↓reduceIte, Bool.false_eq_true]
          cases Base64.decode (utf8Bytes v) <;> simp only [] <;> lk_loop
        · simp only [h1, h2, ↓reduceIte, Bool.false_eq_true]
          lk_loop
    all_goals
      simp only []
      lk_loop
  · rw [hp, hp']
    lk_loop

end SaphyrVerif.Lemmas.Lock
