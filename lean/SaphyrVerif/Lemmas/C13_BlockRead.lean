import SaphyrVerif.Lemmas.C13_BlockLay
import SaphyrVerif.Lemmas.C13_BlockFold
/-!
C13 / C12 composition, block scalars, part 4: the READER side.  The reference reader (`readBlockScalar` of
`Spec/EmitReader.lean`) gets the string back from the header and the body lines of the layout (`litLeaf`,
`foldLeaf`) wherever the body stands deeper than the parent and — with an indentation indicator — the parent is
at column 0; the lines after the body (a sibling / an ancestor's sibling: not blank, indented less than the body)
are left alone.
-/
set_option linter.unusedSimpArgs false
set_option linter.unusedVariables false
namespace SaphyrVerif.Emit
open SaphyrVerif

/-- what may follow the body of a block scalar whose lines are indented `N`: nothing, or a line that is not
blank and indented less -/
def BodyEnd (N : Nat) (rest : List Line) : Prop :=
  rest = [] ∨ ∃ l ls, rest = l :: ls ∧ l.indent < N ∧ l.isBlank = false

theorem DedLt.bodyEnd {n N : Nat} {rest : List Line} (h : DedLt n rest) (hn : n ≤ N) : BodyEnd N rest := by
  rcases h with rfl | ⟨l, ls, rfl, hi, hs⟩
  · exact Or.inl rfl
  · refine Or.inr ⟨l, ls, rfl, by omega, ?_⟩
    simp only [Line.isSkippable, Bool.or_eq_false_iff] at hs
    simpa [Line.isBlank] using hs.1

theorem blockLines_end {N : Nat} {rest : List Line} (h : BodyEnd N rest) : blockLines N rest = ([], rest) := by
  rcases h with rfl | ⟨l, ls, rfl, hi, hb⟩
  · rfl
  · have : ¬ (l.indent ≥ N) := by omega
    simp [blockLines, hb, this]

/-- the reader takes the body lines of a literal block back to the content lines -/
theorem blockLines_bodyAt (N : Nat) {rest : List Line} (h : BodyEnd N rest) :
    ∀ (xs : List (List Char)), blockLines N (xs.map (bodyLineAt N) ++ rest) = (xs, rest)
  | [] => by simpa using blockLines_end h
  | x :: xs => by
    have ih := blockLines_bodyAt N h xs
    have ht := takeWhile_space_replicate x
    have hsplit : x.takeWhile (· == ' ') ++ x.dropWhile (· == ' ') = x := List.takeWhile_append_dropWhile
    simp only [List.map_cons, List.cons_append, bodyLineAt]
    rw [blockLines]
    by_cases hb : (x.dropWhile (· == ' ')).isEmpty = true
    · have hd : x.dropWhile (· == ' ') = [] := List.isEmpty_iff.mp hb
      have hx : x = List.replicate (x.takeWhile (· == ' ')).length ' ' := by
        conv => lhs; rw [← hsplit, hd, List.append_nil, ht]
      simp only [Line.isBlank, hb, if_true, ih]
      by_cases hk : (x.takeWhile (· == ' ')).length = 0
      · have : x = [] := by rw [hx, hk]; rfl
        simp [this]
      · have hgt : N + (x.takeWhile (· == ' ')).length > N := by omega
        simp only [hgt, if_true, Nat.add_sub_cancel_left]
        rw [← hx]
    · simp only [Line.isBlank, hb, Bool.false_eq_true, if_false]
      have hge : N + (x.takeWhile (· == ' ')).length ≥ N := by omega
      simp only [hge, if_true, Nat.add_sub_cancel_left, ih]
      rw [← ht, hsplit]

theorem bodyLineAt_nil (N : Nat) : bodyLineAt N [] = ⟨N, []⟩ := by simp [bodyLineAt]

theorem bodyLineAt_nonspace (N : Nat) {c : Char} (cs : List Char) (hc : c ≠ ' ') : bodyLineAt N (c :: cs) = ⟨N, c :: cs⟩ := by
  simp [bodyLineAt, List.takeWhile_cons, List.dropWhile_cons, hc]

/-- first non-empty content line without a leading blank ⇒ the first non-blank body line is at indentation `N`
and the blank lines before it are not indented deeper -/
theorem find_first_bodyAt (N : Nat) (rest : List Line) : ∀ (xs : List (List Char)) (l1 : List Char),
    xs.find? (fun l => !l.isEmpty) = some l1 → (l1.takeWhile (· == ' ')).length = 0 →
    (∃ l, (xs.map (bodyLineAt N) ++ rest).find? (fun l => !l.isBlank) = some l ∧ l.indent = N) ∧
    ((xs.map (bodyLineAt N) ++ rest).takeWhile (·.isBlank)).any (fun l => decide (l.indent > N)) = false
  | [], _, h, _ => by simp at h
  | x :: xs, l1, h, h0 => by
    cases x with
    | nil =>
      simp only [List.find?_cons, List.isEmpty_nil, Bool.not_true, Bool.false_eq_true, if_false] at h
      obtain ⟨⟨l, hl, hi⟩, hb⟩ := find_first_bodyAt N rest xs l1 h h0
      refine ⟨⟨l, ?_, hi⟩, ?_⟩
      · simp only [List.map_cons, List.cons_append, bodyLineAt_nil, List.find?_cons, Line.isBlank, List.isEmpty_nil, Bool.not_true,
          Bool.false_eq_true, if_false]
        exact hl
      · simp only [List.map_cons, List.cons_append, bodyLineAt_nil, List.takeWhile_cons, Line.isBlank, List.isEmpty_nil, if_true,
          List.any_cons, Bool.or_eq_false_iff]
        exact ⟨by simp, hb⟩
    | cons c cs =>
      simp only [List.find?_cons, List.isEmpty_cons, Bool.not_false, if_true, Option.some.injEq] at h
      subst h
      have hc : c ≠ ' ' := by
        intro e; subst e
        simp [List.takeWhile_cons] at h0
      refine ⟨⟨⟨N, c :: cs⟩, ?_, rfl⟩, ?_⟩
      · simp [List.map_cons, bodyLineAt_nonspace N cs hc, List.find?_cons, Line.isBlank]
      · simp [List.map_cons, bodyLineAt_nonspace N cs hc, List.takeWhile_cons, Line.isBlank]

/-! ### the header -/

/-- the indentation indicator the reader sees -/
def explicitOf (ni : Bool) (N : Nat) : Option Nat := if ni then some N else none

theorem blockHeader_blk (ni : Bool) (N t : Nat) (hN : ni = true → 1 ≤ N ∧ N ≤ 9) :
    blockHeader (indChars ni N ++ chompChars t) = some (explicitOf ni N, chompOf t) := by
  cases ni
  · simpa [indChars, explicitOf] using blockHeader_chomp t
  · obtain ⟨h1, h9⟩ := hN rfl
    simp only [indChars, explicitOf, if_true]
    have hN' : N = 1 ∨ N = 2 ∨ N = 3 ∨ N = 4 ∨ N = 5 ∨ N = 6 ∨ N = 7 ∨ N = 8 ∨ N = 9 := by omega
    match t with
    | 0 => rcases hN' with h | h | h | h | h | h | h | h | h <;> subst h <;> rfl
    | 1 => rcases hN' with h | h | h | h | h | h | h | h | h <;> subst h <;> rfl
    | t + 2 => rcases hN' with h | h | h | h | h | h | h | h | h <;> subst h <;> rfl

/-! ### the literal block -/

/-- the reader on the header and the body of a literal block: `n` = the least indentation of the node, `N` = the
column of the body; without an indentation indicator the body must be deeper than the parent (`n ≤ N`), with one
the parent must be at column 0 (`n ≤ 1`) -/
theorem readBlockScalar_litLeaf (N n : Nat) (s : List Char) (rest : List Line) (hcontent : trimEndNl s ≠ [])
    (hauto : needsInd s = false → n ≤ N) (hexpl : needsInd s = true → 1 ≤ N ∧ N ≤ 9 ∧ n ≤ 1)
    (hrest : BodyEnd N rest) :
    readBlockScalar false (indChars (needsInd s) N ++ chompChars (trailNl s)) n ((litLines s).map (bodyLineAt N) ++ rest) =
      some (s, rest) := by
  obtain ⟨hsplit, hlast⟩ := trimEndNl_split s
  obtain ⟨init, l, hinit, hl⟩ := splitNl_getLast_ne (trimEndNl s) hcontent hlast
  have hbl := blockLines_bodyAt N hrest (litLines s)
  have hstrip : stripTrailingEmpty (litLines s) = (splitNl (trimEndNl s), s.length - (trimEndNl s).length - 1) := by
    unfold litLines; rw [hinit]; exact stripTrailingEmpty_append init l hl _
  have hkept : (splitNl (trimEndNl s)).isEmpty = false := by rw [hinit]; simp
  have hhdr := blockHeader_blk (needsInd s) N (trailNl s) (fun h => ⟨(hexpl h).1, (hexpl h).2.1⟩)
  unfold readBlockScalar
  rw [hhdr]
  cases hni : needsInd s
  · -- no indicator: the indentation of the first non-blank line
    have hex : ∃ l1, (splitNl (trimEndNl s)).find? (fun l => !l.isEmpty) = some l1 := by
      have : ((splitNl (trimEndNl s)).find? (fun l => !l.isEmpty)).isSome = true := by
        rw [List.find?_isSome]
        refine ⟨l, by rw [hinit]; simp, ?_⟩
        cases l with
        | nil => exact absurd rfl hl
        | cons _ _ => rfl
      exact Option.isSome_iff_exists.mp this
    obtain ⟨l1, hl1⟩ := hex
    have h0 : (l1.takeWhile (· == ' ')).length = 0 := by
      have := hni
      simp only [needsInd, decide_eq_false_iff_not, Nat.not_lt, Nat.le_zero] at this
      simpa [firstLineLeadingSpaces, hl1] using this
    obtain ⟨⟨fl, hfl, hfi⟩, hlead⟩ := find_first_bodyAt N rest (litLines s) l1 (find?_append_left _ _ _ _ hl1) h0
    have hnN : n ≤ N := hauto hni
    simp only [explicitOf, Bool.false_eq_true, if_false, hfl, hfi, ge_iff_le, hnN, if_true, Option.isNone_none, Bool.true_and, hlead,
      hbl, hstrip, joinNl_splitNl, hkept]
    unfold trailNl
    generalize ht : s.length - (trimEndNl s).length = t at *
    match t with
    | 0 =>
      simp only [List.replicate_zero, List.append_nil] at hsplit
      simp [chompOf, ← hsplit]
    | 1 =>
      simp only [List.replicate_one] at hsplit
      simp [chompOf, ← hsplit]
    | t + 2 =>
      simp only [chompOf, Nat.add_sub_cancel]
      rw [show t + 2 - 1 + 1 = t + 2 by omega, ← hsplit]
  · -- explicit indicator, counted from a parent at column 0
    obtain ⟨h1, h9, hn1⟩ := hexpl hni
    have hind : n - 1 + N = N := by omega
    simp only [explicitOf, if_true, hind, Option.isNone_some, Bool.false_and, Bool.false_eq_true, if_false,
      hbl, hstrip, joinNl_splitNl, hkept]
    unfold trailNl
    generalize ht : s.length - (trimEndNl s).length = t at *
    match t with
    | 0 =>
      simp only [List.replicate_zero, List.append_nil] at hsplit
      simp [chompOf, ← hsplit]
    | 1 =>
      simp only [List.replicate_one] at hsplit
      simp [chompOf, ← hsplit]
    | t + 2 =>
      simp only [chompOf, Nat.add_sub_cancel]
      rw [show t + 2 - 1 + 1 = t + 2 by omega, ← hsplit]

/-! ### the block scalar as a node -/

/-- a node whose line starts with `|` / `>` is the block scalar with that header -/
theorem blockNode_bar (fuel n : Nat) (seqAt : Option Nat) (inl : Bool) (i : Nat) (folded : Bool) (hdr : List Char) (ls : List Line)
    (hi : n ≤ i) :
    blockNode (fuel + 1) n seqAt inl (⟨i, (if folded then '>' else '|') :: hdr⟩ :: ls) =
      (readBlockScalar folded hdr n ls).map fun (s, r) => (.str s, r) := by
  have hlt : ¬ (i < n) := by omega
  cases folded
  · have hns : (⟨i, '|' :: hdr⟩ : Line).isSkippable = false := notSkippable_of_head (by decide)
    simp only [Bool.false_eq_true, if_false]
    rw [blockNode, skipBlank_cons ls hns]
    simp [classify, hlt, skipTag]
  · have hns : (⟨i, '>' :: hdr⟩ : Line).isSkippable = false := notSkippable_of_head (by decide)
    simp only [if_true]
    rw [blockNode, skipBlank_cons ls hns]
    simp [classify, hlt, skipTag]

theorem indChars_lay (ni : Bool) (N : Nat) (hN : ni = true → 1 ≤ N ∧ N ≤ 9) : ∀ x ∈ indChars ni N, lineChar x = true := by
  intro x hx
  cases ni
  · simp [indChars] at hx
  · obtain ⟨h1, h9⟩ := hN rfl
    simp only [indChars, if_true, List.mem_singleton] at hx
    subst hx
    have hN' : N = 1 ∨ N = 2 ∨ N = 3 ∨ N = 4 ∨ N = 5 ∨ N = 6 ∨ N = 7 ∨ N = 8 ∨ N = 9 := by omega
    rcases hN' with h | h | h | h | h | h | h | h | h <;> subst h <;> decide

theorem chompChars_lay (t : Nat) : ∀ x ∈ chompChars t, lineChar x = true := by
  intro x hx
  rcases chompChars_mem t x hx with rfl | rfl <;> decide

/-- the header line of a block scalar can start a line and lies on one line -/
theorem blockHdr_line (ind : Char) (hi : ind = '|' ∨ ind = '>') (N : Nat) (s : List Char) (hN : needsInd s = true → 1 ≤ N ∧ N ≤ 9) :
    blockHdr ind N s ≠ [] ∧
    ((blockHdr ind N s).head? ≠ some ' ' ∧ (blockHdr ind N s).head? ≠ some '#' ∧ (blockHdr ind N s).head? ≠ some '%') ∧
    (∀ x ∈ blockHdr ind N s, lineChar x = true) ∧
    (isDocMarker ⟨0, blockHdr ind N s⟩ "---".toList = false ∧ isDocMarker ⟨0, blockHdr ind N s⟩ "...".toList = false) := by
  refine ⟨by simp [blockHdr], ?_, ?_, ?_⟩
  · rcases hi with rfl | rfl <;> simp [blockHdr]
  · intro x hx
    simp only [blockHdr, List.mem_cons, List.mem_append] at hx
    rcases hx with rfl | hx | hx
    · rcases hi with rfl | rfl <;> decide
    · exact indChars_lay _ _ hN x hx
    · exact chompChars_lay _ x hx
  · refine notMarker_head (c := ind) rfl (Or.inl ?_) ?_ 0
    · rcases hi with rfl | rfl <;> decide
    · rcases hi with rfl | rfl <;> decide

/-- the characters of the content lines are characters of the string -/
theorem litLines_mem (s : List Char) : ∀ l ∈ litLines s, ∀ x ∈ l, x ∈ s := by
  intro l hl x hx
  simp only [litLines, List.mem_append, List.mem_replicate] at hl
  rcases hl with hl | ⟨_, rfl⟩
  · have hmem : x ∈ trimEndNl s := mem_splitNl_mem _ l hl x hx
    rw [(trimEndNl_split s).1]; exact List.mem_append_left _ hmem
  · simp at hx

theorem dropWhile_head_ne (x : List Char) : (x.dropWhile (· == ' ')).head? ≠ some ' ' := by
  induction x with
  | nil => simp
  | cons c cs ih =>
    by_cases hc : c = ' '
    · subst hc; simpa [List.dropWhile_cons] using ih
    · simp [List.dropWhile_cons, hc]

/-- a character that is no control character other than TAB and no line feed can stand on a line -/
theorem lineChar_of_noCtl {s : List Char} (h : hasCtl s = false) {x : Char} (hx : x ∈ s) (hn : x ≠ '\n') : lineChar x = true := by
  have := List.any_eq_false.mp h x hx
  have h1 : x ≠ '\r' := by rintro rfl; exact absurd this (by decide)
  have h2 : x ≠ Char.ofNat 0 := by rintro rfl; exact absurd this (by decide)
  simp [lineChar, hn, h1, h2]

/-- (reader side of a literal block scalar) the layout `litLeaf N s` reads as the string `s` where a node of least
indentation `n` is expected -/
theorem litLeaf_ok (N n : Nat) (s : List Char) (hN : 1 ≤ N) (hcontent : trimEndNl s ≠ []) (hctl : hasCtl s = false)
    (hauto : needsInd s = false → n ≤ N) (hexpl : needsInd s = true → N ≤ 9 ∧ n ≤ 1) :
    LeafOK n (litLeaf N s) (.str s) := by
  have hnN : n ≤ N := by
    cases hni : needsInd s
    · exact hauto hni
    · have := (hexpl hni).2; omega
  obtain ⟨h1, h2, h3, h4⟩ := blockHdr_line '|' (Or.inl rfl) N s (fun h => ⟨hN, (hexpl h).1⟩)
  refine ⟨?_, h1, h2, h3, h4, ?_⟩
  · intro fuel seqAt inl i rest hi hd
    have := blockNode_bar fuel n seqAt inl i false (indChars (needsInd s) N ++ chompChars (trailNl s))
      ((litLines s).map (bodyLineAt N) ++ rest) hi
    simp only [Bool.false_eq_true, if_false] at this
    simp only [litLeaf, blockHdr, List.cons_append]
    rw [this, readBlockScalar_litLeaf N n s rest hcontent hauto (fun h => ⟨hN, (hexpl h).1, (hexpl h).2⟩) (hd.bodyEnd hnN)]
    rfl
  · intro l hl
    simp only [litLeaf, List.mem_map] at hl
    obtain ⟨x, hx, rfl⟩ := hl
    refine ⟨by simp only [bodyLineAt]; omega, dropWhile_head_ne x, ?_⟩
    intro y hy
    have hyx : y ∈ x := (List.dropWhile_sublist _).subset hy
    have hn : y ≠ '\n' := by
      simp only [litLines, List.mem_append, List.mem_replicate] at hx
      rcases hx with hx | ⟨_, rfl⟩
      · exact splitNl_no_nl _ x hx y hyx
      · simp at hyx
    exact lineChar_of_noCtl hctl (litLines_mem s x hx y hyx) hn

/-! ### the folded block -/

open SaphyrVerif.Lemmas.C12 (joinSp joinLines)

theorem splitNl_noNl : ∀ (s : List Char), (∀ c ∈ s, c ≠ '\n') → splitNl s = [s]
  | [], _ => rfl
  | c :: cs, h => by
    have ih := splitNl_noNl cs (fun x hx => h x (by simp [hx]))
    have hc : c ≠ '\n' := h c (by simp)
    rw [splitNl_cons, ih]
    simp [hc]

theorem splitNl_joinLines : ∀ (X : List (List Char)), (∀ l ∈ X, ∀ c ∈ l, c ≠ '\n') → splitNl (joinLines X) = X ++ [[]]
  | [], _ => rfl
  | x :: xs, h => by
    have ih := splitNl_joinLines xs (fun l hl => h l (by simp [hl]))
    have e : joinLines (x :: xs) = x ++ '\n' :: joinLines xs := by simp [joinLines]
    rw [e, splitNl_line _ _ (h x (by simp)), ih]
    simp

theorem mem_joinSp : ∀ (segs : List (List Char)) (e : List Char), e ∈ segs → ∀ x ∈ e, x ∈ joinSp segs
  | [], _, h, _, _ => absurd h (by simp)
  | [a], e, h, x, hx => by
    simp only [List.mem_singleton] at h
    subst h; simpa [joinSp] using hx
  | a :: b :: r, e, h, x, hx => by
    simp only [joinSp, List.mem_append, List.mem_cons]
    rcases List.mem_cons.mp h with rfl | h
    · exact Or.inl hx
    · exact Or.inr (Or.inr (mem_joinSp (b :: r) e h x hx))

/-- the lines of the text `write_folded_block` writes for segments: the segments at indentation `N` -/
theorem textLines_joinLines (N : Nat) (segs : List (List Char)) (hh : ∀ e ∈ segs, e.head? ≠ some ' ')
    (hn : ∀ e ∈ segs, ∀ c ∈ e, c ≠ '\n') :
    textLines (joinLines (segs.map (spaces N ++ ·))) = segs.map (fun e => (⟨N, e⟩ : Line)) := by
  have hX : ∀ l ∈ segs.map (spaces N ++ ·), ∀ c ∈ l, c ≠ '\n' := by
    intro l hl c hc
    simp only [List.mem_map] at hl
    obtain ⟨e, he, rfl⟩ := hl
    rcases List.mem_append.mp hc with h | h
    · simp only [spaces, List.mem_replicate] at h; rw [h.2]; decide
    · exact hn e he c h
  simp only [textLines, splitNl_joinLines _ hX, List.dropLast_concat, List.map_map]
  apply List.map_congr_left
  intro e he
  exact mkLine_spaces N e (hh e he)

theorem blockLines_segs (N : Nat) {rest : List Line} (h : BodyEnd N rest) :
    ∀ (segs : List (List Char)), (∀ e ∈ segs, e ≠ []) →
      blockLines N (segs.map (fun e => (⟨N, e⟩ : Line)) ++ rest) = (segs, rest)
  | [], _ => by simpa using blockLines_end h
  | e :: es, hne => by
    have ih := blockLines_segs N h es (fun x hx => hne x (by simp [hx]))
    have he : e.isEmpty = false := by
      cases e with
      | nil => exact absurd rfl (hne [] (by simp))
      | cons _ _ => rfl
    simp only [List.map_cons, List.cons_append]
    rw [blockLines]
    simp [Line.isBlank, he, ih]

theorem foldLinesAux_segs : ∀ (segs : List (List Char)) (prev : List Char), prev ≠ [] → isSpaced prev = false →
    (∀ e ∈ segs, e ≠ [] ∧ isSpaced e = false) → foldLinesAux prev 0 segs = segs.flatMap (' ' :: ·)
  | [], _, _, _, _ => rfl
  | e :: es, prev, hp, hs, h => by
    obtain ⟨hne, hse⟩ := h e (by simp)
    have he : e.isEmpty = false := by
      cases e with
      | nil => exact absurd rfl hne
      | cons _ _ => rfl
    have hpe : prev.isEmpty = false := by
      cases prev with
      | nil => exact absurd rfl hp
      | cons _ _ => rfl
    rw [foldLinesAux]
    simp only [he, Bool.false_eq_true, if_false, foldSep, hpe, hs, hse, Bool.or_self, beq_self_eq_true, if_true,
      List.flatMap_cons]
    rw [foldLinesAux_segs es e hne hse (fun x hx => h x (by simp [hx]))]
    simp

theorem joinSp_flat : ∀ (e : List Char) (es : List (List Char)), joinSp (e :: es) = e ++ es.flatMap (' ' :: ·)
  | e, [] => by simp [joinSp]
  | e, b :: r => by
    rw [joinSp, joinSp_flat b r]
    simp

/-- line folding of segments that are neither empty nor start with a blank / TAB: joined by single blanks -/
theorem foldLines_segs (segs : List (List Char)) (h : ∀ e ∈ segs, e ≠ [] ∧ isSpaced e = false) :
    foldLines segs = joinSp segs := by
  cases segs with
  | nil => rfl
  | cons e es =>
    obtain ⟨hne, hse⟩ := h e (by simp)
    rw [foldLines, foldLinesAux_segs es e hne hse (fun x hx => h x (by simp [hx])), joinSp_flat]

/-- the reader on the header `>-` and the body of a folded block (a single-line string without TAB that does not
start with a blank, wrapped by `write_folded_block`) -/
theorem readBlockScalar_foldLeaf (N n w : Nat) (s : List Char) (rest : List Line) (hne : s ≠ [])
    (hhead : s.head? ≠ some ' ') (hchars : ∀ c ∈ s, c ≠ '\n' ∧ c ≠ '\t') (hnN : n ≤ N) (hrest : BodyEnd N rest) :
    readBlockScalar true ['-'] n (textLines (foldedBlock s N 1 w) ++ rest) = some (s, rest) := by
  obtain ⟨segs, hfl, hjoin, hsne, hsegs⟩ := foldedLine_spec s (spaces N) w hne hhead
  have hmem : ∀ e ∈ segs, ∀ c ∈ e, c ∈ s := fun e he c hc => hjoin ▸ mem_joinSp segs e he c hc
  have hfb : foldedBlock s N 1 w = joinLines (segs.map (spaces N ++ ·)) := by
    simp only [foldedBlock, splitNl_noNl s (fun c hc => (hchars c hc).1), List.flatMap_cons, List.flatMap_nil, List.append_nil,
      Nat.one_mul, hfl]
  have hlines : textLines (foldedBlock s N 1 w) = segs.map (fun e => (⟨N, e⟩ : Line)) := by
    rw [hfb]
    exact textLines_joinLines N segs (fun e he => (hsegs e he).2) (fun e he c hc => (hchars c (hmem e he c hc)).1)
  have hsp : ∀ e ∈ segs, e ≠ [] ∧ isSpaced e = false := by
    intro e he
    obtain ⟨h1, h2⟩ := hsegs e he
    refine ⟨h1, ?_⟩
    cases e with
    | nil => exact absurd rfl h1
    | cons c cs =>
      have hc1 : c ≠ ' ' := fun e' => h2 (by simp [e'])
      have hc2 : c ≠ '\t' := (hchars c (hmem _ he c (by simp))).2
      simp [isSpaced, hc1, hc2]
  obtain ⟨e0, es, rfl⟩ : ∃ e0 es, segs = e0 :: es := by
    cases segs with
    | nil => exact absurd rfl hsne
    | cons a b => exact ⟨a, b, rfl⟩
  obtain ⟨init, l, hinit⟩ : ∃ init l, e0 :: es = init ++ [l] := by
    have := List.dropLast_concat_getLast (l := e0 :: es) (by simp)
    exact ⟨_, _, this.symm⟩
  have hl : l ≠ [] := (hsegs l (by rw [hinit]; simp)).1
  have hstrip : stripTrailingEmpty (e0 :: es) = (e0 :: es, 0) := by
    have := stripTrailingEmpty_append init l hl 0
    simpa [hinit] using this
  have he0 : e0.isEmpty = false := by
    cases e0 with
    | nil => exact absurd rfl (hsegs [] (by simp)).1
    | cons _ _ => rfl
  have hbl := blockLines_segs N hrest (e0 :: es) (fun e he => (hsegs e he).1)
  have hhdr : blockHeader ['-'] = some (none, Chomp.strip) := rfl
  unfold readBlockScalar
  rw [hhdr, hlines]
  simp only [List.map_cons, List.cons_append, List.find?_cons, Line.isBlank, he0, Bool.not_false, if_true, ge_iff_le, hnN,
    Option.isNone_none, Bool.true_and, List.takeWhile_cons, Bool.false_eq_true, if_false, List.any_nil]
  simp only [List.map_cons, List.cons_append] at hbl
  simp only [hbl, hstrip, if_true, foldLines_segs (e0 :: es) hsp, hjoin, List.append_nil]

/-- (reader side of a folded block scalar) the layout `foldLeaf N w s` reads as the string `s` -/
theorem foldLeaf_ok (N n w : Nat) (s : List Char) (hN : 1 ≤ N) (hne : s ≠ []) (hhead : s.head? ≠ some ' ')
    (hchars : ∀ c ∈ s, c ≠ '\n' ∧ c ≠ '\t' ∧ lineChar c = true) (hnN : n ≤ N) :
    LeafOK n (foldLeaf N w s) (.str s) := by
  have htrim : trimEndNl s = s := by
    have h1 := (trimEndNl_split s).1
    have hlast : s.getLast? ≠ some '\n' := by
      intro h
      have := List.mem_of_getLast? h
      exact (hchars _ this).1 rfl
    unfold trimEndNl
    cases hr : s.reverse with
    | nil => simp [List.reverse_eq_nil_iff.mp hr]
    | cons a as =>
      have ha : a ≠ '\n' := by
        intro e
        apply hlast
        have : s = (a :: as).reverse := by rw [← hr, List.reverse_reverse]
        rw [this, e]; simp
      have hb : (a == '\n') = false := by simpa using ha
      simp only [List.dropWhile_cons, hb, Bool.false_eq_true, if_false]
      rw [← hr, List.reverse_reverse]
  have hni : needsInd s = false := by
    obtain ⟨c, cs, rfl⟩ : ∃ c cs, s = c :: cs := by
      cases s with
      | nil => exact absurd rfl hne
      | cons c cs => exact ⟨c, cs, rfl⟩
    have hc : c ≠ ' ' := fun e => hhead (by simp [e])
    simp [needsInd, htrim, firstLineLeadingSpaces, splitNl_noNl _ (fun x hx => (hchars x hx).1), List.takeWhile_cons, hc]
  have htr : trailNl s = 0 := by simp [trailNl, htrim]
  have hhdr : blockHdr '>' N s = ['>', '-'] := by simp [blockHdr, hni, htr, indChars, chompChars]
  obtain ⟨h1, h2, h3, h4⟩ := blockHdr_line '>' (Or.inr rfl) N s (fun h => by rw [hni] at h; exact absurd h (by simp))
  refine ⟨?_, h1, h2, h3, h4, ?_⟩
  · intro fuel seqAt inl i rest hi hd
    have := blockNode_bar fuel n seqAt inl i true ['-'] (textLines (foldedBlock s N 1 w) ++ rest) hi
    simp only [if_true] at this
    simp only [foldLeaf, hhdr, List.cons_append]
    rw [this, readBlockScalar_foldLeaf N n w s rest hne hhead (fun c hc => ⟨(hchars c hc).1, (hchars c hc).2.1⟩) hnN (hd.bodyEnd hnN)]
    rfl
  · -- the body lines are the segments at indentation `N`
    obtain ⟨segs, hfl, hjoin, hsne, hsegs⟩ := foldedLine_spec s (spaces N) w hne hhead
    have hmem : ∀ e ∈ segs, ∀ c ∈ e, c ∈ s := fun e he c hc => hjoin ▸ mem_joinSp segs e he c hc
    have hfb : foldedBlock s N 1 w = joinLines (segs.map (spaces N ++ ·)) := by
      simp only [foldedBlock, splitNl_noNl s (fun c hc => (hchars c hc).1), List.flatMap_cons, List.flatMap_nil, List.append_nil,
        Nat.one_mul, hfl]
    have hlines : textLines (foldedBlock s N 1 w) = segs.map (fun e => (⟨N, e⟩ : Line)) := by
      rw [hfb]
      exact textLines_joinLines N segs (fun e he => (hsegs e he).2) (fun e he c hc => (hchars c (hmem e he c hc)).1)
    intro l hl
    simp only [foldLeaf, hlines, List.mem_map] at hl
    obtain ⟨e, he, rfl⟩ := hl
    exact ⟨hN, (hsegs e he).2, fun y hy => (hchars y (hmem e he y hy)).2.2⟩

end SaphyrVerif.Emit
