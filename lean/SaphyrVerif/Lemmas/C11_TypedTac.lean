import SaphyrVerif.Lemmas.C11_TypedBase
import SaphyrVerif.Lemmas.CurSimTac
import Lean.Elab.Tactic
/-!
Typed multi-document theorems (C11), part 2: proof automation for the frame relation (the analogue of
`Lemmas/CurSimTac.lean`): step both cursors of a `FSim` hypothesis — the replay side has to be strictly
inside the frame, which is discharged from the depth facts in the context —, transport the outcome of a
call from the replay side to the other side and record how far the call moved (pos / depth).
-/
namespace SaphyrVerif.Lemmas.Frame
open SaphyrVerif SaphyrVerif.Scalars SaphyrVerif.Pump SaphyrVerif.De
open SaphyrVerif.Lemmas.C05 (Ev.delta)

/-- numeric side goals about `pos` / `dep` -/
macro "fr_arith" : tactic =>
  `(tactic| first
    | assumption
    | omega
    | (simp only [Ev.delta] at *; omega))

/-- "the replay cursor is strictly inside the frame" -/
syntax "fr_inside " term : tactic
macro_rules
  | `(tactic| fr_inside $hs) =>
    `(tactic| first
      | assumption
      | exact FSim.inside $hs (by fr_arith)
      | omega)

open Lean Elab Tactic Meta in
/-- the event under the replay cursor is a function of the position: identify the event of the newest fact
`buf[i]? = some e` with the one of an older fact about the same position (closes the goal when they are
different constructors) -/
elab "fr_same" : tactic => withMainContext do
  let decls := (← getLCtx).decls.toList.reverse.filterMap id
  let isFact (ty : Expr) : Option Expr :=
    match ty.eq? with
    | some (_, lhs, rhs) => if rhs.isAppOfArity ``Option.some 2 && lhs.isAppOf ``getElem? then some lhs else none
    | none => none
  let mut newest : Option (LocalDecl × Expr) := none
  for ldecl in decls do
    if ldecl.isImplementationDetail then continue
    let ty ← instantiateMVars ldecl.type
    match isFact ty with
    | some lhs =>
      match newest with
      | none => newest := some (ldecl, lhs)
      | some (nd, nlhs) =>
        if lhs == nlhs then
          let hN ← Term.exprToSyntax nd.toExpr
          let hO ← Term.exprToSyntax ldecl.toExpr
          evalTactic (← `(tactic| (have hsame := Option.some.inj (($hO).symm.trans $hN); cases hsame)))
          return
    | none => pure ()
  throwError "fr_same: nothing to identify"

open Lean Elab Tactic Meta in
/-- advance the cursors of a `FSim` hypothesis whose `next` / `peek` occurs in the goal (on both sides) -/
elab "fr_step" : tactic => withMainContext do
  let tgt ← instantiateMVars (← getMainTarget)
  let env ← getEnv
  -- newest hypotheses first
  let decls := (← getLCtx).decls.toList.reverse.filterMap id
  for ldecl in decls do
    if ldecl.isImplementationDetail then continue
    let ty ← instantiateMVars ldecl.type
    if ty.isAppOfArity ``FSim 3 then
      let c := ty.getArg! 1
      let c' := ty.getArg! 2
      for (op, isNext) in [(``SaphyrVerif.De.Cur.next, true), (``SaphyrVerif.De.Cur.peek, false)] do
        let t := mkApp (mkConst op) c
        let t' := mkApp (mkConst op) c'
        if (tgt.find? (· == t)).isSome && (tgt.find? (· == t')).isSome then
          let inspected := (tgt.find? fun e =>
            match e.getAppFn with
            | .const n _ =>
              match Lean.Meta.getMatcherInfoCore? env n with
              | some info =>
                let args := e.getAppArgs
                let pos := info.getFirstDiscrPos
                pos < args.size && args[pos]! == t && info.altNumParams != #[2, 2]
              | none => false
            | _ => false).isSome
          let direct := (tgt.find? fun e =>
            match e.getAppFn with
            | .const n _ =>
              match Lean.Meta.getMatcherInfoCore? env n with
              | some info =>
                let args := e.getAppArgs
                let pos := info.getFirstDiscrPos
                pos < args.size && args[pos]! == t
              | none => false
            | _ => false).isSome
          let hstx ← Term.exprToSyntax ldecl.toExpr
          let split := inspected || !direct
          if isNext then
            evalTactic (← `(tactic| (
              have hnn := FSim.dep_nonneg $hstx
              have hx := FSim.next $hstx (by fr_inside $hstx)
              obtain ⟨ev, _, _, hbuf, h1, h2, _, hpos, hdep⟩ := hx
              rw [h1, h2]
              clear h1 h2)))
            if split then
              evalTactic (← `(tactic| (
                rcases ev with _ | _ | _ | _ | _ <;> simp only [Ev.delta, Int.add_zero] at hdep <;> try fr_same)))
            else
              evalTactic (← `(tactic| (try (fr_same; try simp only [Ev.delta, Int.add_zero] at *))))
          else
            evalTactic (← `(tactic| (
              have hx := FSim.peek $hstx (by fr_inside $hstx)
              obtain ⟨ev, _, hbuf, h1, h2, _⟩ := hx
              rw [h1, h2]
              clear h1 h2)))
            if split then
              evalTactic (← `(tactic| (rcases ev with _ | _ | _ | _ | _ <;> try fr_same)))
            else
              evalTactic (← `(tactic| (try fr_same)))
          return
  throwError "fr_step: no cursor operation to advance"

/-- transport a successful call on the replay side (`h : f … c = .ok a d`) to the other side; `prf` is the
frame fact for that call -/
macro "ffwdk_eq " h:term ", " prf:term : tactic =>
  `(tactic| (
    have hx := RF.fwd_ok $h $prf
    obtain ⟨_, _, h2, hr, _⟩ := hx
    subst hr
    rw [h2]
    clear h2))

macro "ffwdk_rel " h:term ", " prf:term : tactic =>
  `(tactic| (
    have hx := RF.fwd_ok $h $prf
    obtain ⟨_, _, h2, _, _⟩ := hx
    rw [h2]
    clear h2))

macro "ffwdk_pair " h:term ", " prf:term : tactic =>
  `(tactic| (
    have hx := RF.fwd_ok $h $prf
    obtain ⟨⟨_, _⟩, _, h2, ⟨hr, _⟩, _⟩ := hx
    dsimp only at hr
    subst hr
    rw [h2]
    clear h2))

/-- transport a failed call -/
macro "ffwde " h:term ", " prf:term : tactic =>
  `(tactic| (
    have hx := RF.fwd_err $h $prf
    obtain ⟨_, _, h2, _⟩ := hx
    rw [h2]
    clear h2))

/-- record how far a successful call on the replay side moved: `hs : FSim K c c'` is the relation the call
started from, `w` the `Stays` fact of `Lemmas/C05_Weak*` as a function of the equation -/
syntax "fr_moved " term ", " term ", " term ", " term : tactic
macro_rules
  | `(tactic| fr_moved $hs, $h, $k, $w) =>
    `(tactic| (
      have hmv := FSim.weak (k := $k) $hs (fun i hi => by
        have h' := $h
        rw [hi] at h'
        exact $w h')
      obtain ⟨hmvp, hmvd⟩ := hmv
      try simp only [Int.sub_zero] at hmvd))

end SaphyrVerif.Lemmas.Frame
