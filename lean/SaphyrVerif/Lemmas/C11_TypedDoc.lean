import SaphyrVerif.Lemmas.C11_TypedPump
import SaphyrVerif.Lemmas.C11_TypedMain
/-!
Typed multi-document theorems (C11), part 8: one document of a stream — the frame of a document whose
expansion exists within the alias limits, and the live cursor at its start.
-/
namespace SaphyrVerif.Lemmas.C11T
open SaphyrVerif SaphyrVerif.Scalars SaphyrVerif.Pump SaphyrVerif.De SaphyrVerif.Spec SaphyrVerif.Entry
open SaphyrVerif.Lemmas.C02 (Steps Good Post noFoldedIndent)
open SaphyrVerif.Lemmas.C11 (Boundary atDocStart atDocEnd)
open SaphyrVerif.Lemmas.Frame (Ctx FSim RF pos dep)

/-- the pump stands in front of the document-end marker of the current document (`R` = that marker and the
rest of the stream), with a clean state -/
def AtEnd (_L : AliasLimits) (R : List RawItem) (p : Pump) (inp : List RawItem) : Prop :=
  inp = R ∧ Good p ∧ p.producedAny = true

/-- a document that the pump delivers completely: its expansion (from the empty anchor table) exists, stays
within the alias limits, and no folded scalar is misplaced; `evs` are the delivered events -/
structure DocOk (L : AliasLimits) (t : LNode) (evs : List Ev) : Prop where
  nf : noFoldedIndent t = true
  depth : 1 ≤ L.maxReplayStackDepth
  exp : ∃ r, expand [] [] t = .ok r ∧ r.evs = evs ∧ r.replayed ≤ L.maxTotalReplayedEvents
  cnt : ∀ id, aliasCount id t ≤ L.maxAliasExpansionsPerAnchor

/-- the frame of a document -/
def docCtx (L : AliasLimits) (R : List RawItem) (evs : List Ev) : Ctx :=
  ⟨evs, none, LiveInvP L R (AtEnd L R)⟩

theorem DocOk.tree {L : AliasLimits} {t : LNode} {evs : List Ev} (h : DocOk L t evs) :
    ∃ n : ENode, evs = eflatten n := by
  obtain ⟨r, hr, rfl, -⟩ := h.exp
  obtain ⟨n, -, hn⟩ := Lemmas.CurSim.expand_treeOf t r hr
  exact ⟨n, hn⟩

theorem docCtx_ok {L : AliasLimits} {t : LNode} {evs : List Ev} (h : DocOk L t evs) (R : List RawItem) :
    (docCtx L R evs).Ok := by
  obtain ⟨n, rfl⟩ := h.tree
  refine ⟨(Lemmas.C05.eflatten_bal n).1, (Lemmas.C05.eflatten_bal n).2, ?_, ?_⟩
  · intro q h0 h1
    exact Lemmas.C05.eflatten_prefix_pos n q h0 h1
  · exact liveInvP_step (fun p inp hk => hk.1)

theorem DocOk.ne {L : AliasLimits} {t : LNode} {evs : List Ev} (h : DocOk L t evs) : 0 < evs.length := by
  obtain ⟨n, rfl⟩ := h.tree
  exact Lemmas.C05.eflatten_length_pos n

/-- the pump runs over a good document and ends in front of its document-end marker -/
theorem doc_runP {L : AliasLimits} {t : LNode} {evs : List Ev} (h : DocOk L t evs) {q1 : Pump} (hq1 : Boundary L q1)
    (R : List RawItem) : RunP (AtEnd L R) q1 (itemsOf t ++ R) evs := by
  obtain ⟨r, hexp, rfl, hrep⟩ := h.exp
  have hnode := Lemmas.C02.pump_node t q1 hq1.good R
  rw [hq1.anc, hq1.rs] at hnode
  change Lemmas.C02.Outcome _ _ _ _ _ (expand [] [] t) at hnode
  rw [hexp] at hnode
  rcases hnode with ⟨p1, hs, hpost⟩ | ⟨es, err, p', hs, _, _, hx⟩ | ⟨hf, es, l, p', hs⟩
  · refine RunP.of_steps hs ⟨rfl, hpost.good, ?_⟩
    exact hpost.prod (Or.inr (Lemmas.C11.expand_evs_ne_nil hs))
  · exfalso
    rcases hx with hx | hx | ⟨id, hx⟩
    · rw [hq1.lim] at hx; have := h.depth; omega
    · rw [hq1.lim, hq1.tot] at hx; omega
    · rw [hq1.lim, hq1.per] at hx
      have := h.cnt id
      simp only [lookupCount, List.find?_nil] at hx
      omega
  · rw [h.nf] at hf
    cases hf

/-! ### cursors with the same next event -/

theorem peek_congr {p p' : Pump} {inp inp' : List RawItem} (hl : p.look = none) (hl' : p'.look = none)
    (h : nextImpl p inp = nextImpl p' inp') : Cur.peek (.live p inp) = Cur.peek (.live p' inp') := by
  simp only [Cur.peek, Pump.peek, hl, hl', h]

theorem Static.of_boundary {L : AliasLimits} {q : Pump} (h : Boundary L q) : Static L q :=
  ⟨h.bud, h.rip, h.lim, h.sade⟩

/-- the live cursor at the start of a good document: its first `peek` delivers the first event of the
document and leaves a cursor that serves the document (in the sense of the document's frame) -/
theorem doc_first_peek {L : AliasLimits} {t : LNode} {evs : List Ev} (h : DocOk L t evs) {q : Pump}
    (hq : Boundary L q) (hl : q.look = none) (ex : Bool) (ls : Loc) (R : List RawItem) :
    ∃ e0 tl d1, evs = e0 :: tl ∧ Lemmas.C05.Ev.isOpen e0 = true ∧ (∀ v tg rt st a l, e0 = .scalar v tg rt st a l → tl = []) ∧
      Cur.peek (.live q (.ev (.docStart ex) ls :: (itemsOf t ++ R))) = .ok (some e0) d1 ∧
      (docCtx L R evs).Inv d1 evs := by
  obtain ⟨hq1, -⟩ := Lemmas.C11.boundary_atDocStart hq ls
  have hl1 : (atDocStart q ls).look = none := hl
  have hpk := peek_congr hl hl1 (Lemmas.C11.step_docStart hq ex ls (itemsOf t ++ R))
  have hrun := doc_runP h hq1 R
  obtain ⟨n, hn⟩ := h.tree
  obtain ⟨e0, tl, hcons, hopen, -⟩ := Lemmas.C05.eflatten_cons n
  rw [← hn] at hcons
  have hI : LiveInvP L R (AtEnd L R) (.live (atDocStart q ls) (itemsOf t ++ R)) evs :=
    ⟨_, _, rfl, Static.of_boundary hq1, ⟨itemsOf t, rfl, itemsOf_neutral t⟩, .inl ⟨hl1, hrun⟩⟩
  rw [hcons] at hI
  obtain ⟨⟨d1, hp, hI1⟩, -⟩ := liveInvP_step (fun p inp hk => hk.1) _ _ _ hI
  refine ⟨e0, tl, d1, hcons, hopen, ?_, hpk.trans hp, by rw [hcons]; exact hI1⟩
  intro v tg rt st a l he
  subst he
  rw [hn] at hcons
  cases n <;> simp [eflatten] at hcons
  exact hcons.2

end SaphyrVerif.Lemmas.C11T
