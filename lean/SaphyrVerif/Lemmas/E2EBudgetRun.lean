import SaphyrVerif.Lemmas.E2EBudgetRel
import SaphyrVerif.Lemmas.CurSimPump
import SaphyrVerif.Lemmas.C01
import SaphyrVerif.Lemmas.C08_Run
/-!
End-to-end composition with the budget enforcer, part 7: the second instance of the comparison — a pump WITH a
budget enforcer that delivers its events without any breach, then reports end of input for good, and whose
`finish()` has nothing to report (`BRun`).  Such a cursor and its stripped twin answer every `peek` / `next`
alike (no breach is possible), and `finish()` is silent when end of input is reached.
-/
namespace SaphyrVerif.Lemmas.E2EBudget
open SaphyrVerif SaphyrVerif.Scalars SaphyrVerif.Pump SaphyrVerif.Budget SaphyrVerif.De SaphyrVerif.Spec
open SaphyrVerif.Lemmas.CurSim (Quiet Run nextImpl_look nextImpl_event_lastLoc pump_eta_look)

set_option linter.unusedSimpArgs false

/-- `finish()` (the final alias/anchor ratio check of the enforcer) has nothing to report -/
def FinishOk (p : Pump) : Prop := (Pump.finish p).1 = none

/-- `BRun p inp es`: `next_impl` of the (budgeted) pump delivers exactly the events `es`, one per call, without
error — in particular without a budget breach —, then end of input, after which the pump is quiet and
`finish()` is silent -/
inductive BRun : Pump → List RawItem → List Ev → Prop
  | eof {p : Pump} {inp : List RawItem} {p' : Pump} {inp' : List RawItem} :
      nextImpl p inp = (.eof, p', inp') → Quiet p' inp' → FinishOk p' → BRun p inp []
  | ev {p : Pump} {inp : List RawItem} {e : Ev} {p' : Pump} {inp' : List RawItem} {es : List Ev} :
      nextImpl p inp = (.event e, p', inp') → BRun p' inp' es → BRun p inp (e :: es)

theorem nextImpl_strip_of_ok {p : Pump} {inp : List RawItem} {s : Step} {p' : Pump} {rest : List RawItem}
    (h : nextImpl p inp = (s, p', rest)) (hs : ¬ IsBreach s) : nextImpl (stripP p) inp = (s, stripP p', rest) := by
  rcases nextImpl_strip p inp h with h1 | ⟨hb, -⟩
  · exact h1
  · exact absurd hb hs

theorem not_breach_eof : ¬ IsBreach .eof := by rintro ⟨b, l, h⟩; cases h
theorem not_breach_event (e : Ev) : ¬ IsBreach (.event e) := by rintro ⟨b, l, h⟩; cases h

/-- the invariant of a budgeted live cursor that will never see a breach (the twin of `CurSim.LiveInv`); replay
cursors have no enforcer -/
def Inv2 : Cur → Prop
  | .replay .. => True
  | .live q inq => ∃ l,
    ((q.look = none ∧ BRun q inq l) ∨
     (∃ e l' q0, l = e :: l' ∧ q0.look = none ∧ q0.lastLoc = e.loc ∧ q = { q0 with look := some e } ∧ BRun q0 inq l'))

/-- "within the limits the budget is invisible": no breach -/
def P2 : BP := ⟨Inv2, False⟩

theorem finishCur_of_finishOk {p : Pump} (inp : List RawItem) (h : FinishOk p) : Entry.finishCur (.live p inp) = none := by
  simp only [Entry.finishCur, FinishOk] at h ⊢
  rw [h]; rfl

/-- both cursor operations on a cursor satisfying `Inv2`: they succeed, the stripped twin answers alike, the
invariant is kept, and `finish()` is silent once `peek` reports end of input -/
theorem inv2_step {c : Cur} (h : Inv2 c) :
    (∃ o d, c.peek = .ok o d ∧ (strip c).peek = .ok o (strip d) ∧ Inv2 d ∧ (o = none → Entry.finishCur d = none)) ∧
    (∃ o d, c.next = .ok o d ∧ (strip c).next = .ok o (strip d) ∧ Inv2 d) := by
  cases c with
  | replay b i r =>
    constructor
    · exact ⟨_, _, rfl, rfl, trivial, fun _ => rfl⟩
    · simp only [Cur.next, strip]
      split
      · exact ⟨_, _, rfl, rfl, trivial⟩
      · exact ⟨_, _, rfl, rfl, trivial⟩
  | live q inq =>
    obtain ⟨l, h⟩ := h
    rcases h with ⟨hl, hr⟩ | ⟨e, l', q0, rfl, hl0, hloc, rfl, hr⟩
    · have hls : (stripP q).look = none := hl
      cases hr with
      | @eof _ _ q' inq' hn hq hfin =>
        have hn' := nextImpl_strip_of_ok hn not_breach_eof
        have hA : Inv2 (.live q' inq') := ⟨[], .inl ⟨hq.1, BRun.eof hq.2 hq hfin⟩⟩
        constructor
        · exact ⟨none, .live q' inq', by simp [Cur.peek, Pump.peek, hl, hn],
            by simp [strip, Cur.peek, Pump.peek, hl, hls, hn'], hA, fun _ => finishCur_of_finishOk inq' hfin⟩
        · exact ⟨none, .live q' inq', by simp [Cur.next, Pump.next, hl, hn],
            by simp [strip, Cur.next, Pump.next, hl, hls, hn'], hA⟩
      | @ev _ _ e q' inq' es hn hr' =>
        have hn' := nextImpl_strip_of_ok hn (not_breach_event e)
        have hl' : q'.look = none := by
          have := nextImpl_look q inq
          rw [hn] at this
          rw [← hl]; exact this
        have hloc := nextImpl_event_lastLoc hn
        constructor
        · refine ⟨some e, .live { q' with look := some e, lastLoc := e.loc } inq',
            by simp [Cur.peek, Pump.peek, hl, hn], by simp [strip, Cur.peek, Pump.peek, hl, hls, hn'],
            ⟨e :: es, .inr ⟨e, es, q', rfl, hl', hloc, ?_, hr'⟩⟩, fun h => by cases h⟩
          cases q'
          simp_all
        · exact ⟨some e, .live q' inq', by simp [Cur.next, Pump.next, hl, hn],
            by simp [strip, Cur.next, Pump.next, hl, hls, hn'], ⟨es, .inl ⟨hl', hr'⟩⟩⟩
    · constructor
      · refine ⟨some e, .live { ({ q0 with look := some e } : Pump) with lastLoc := e.loc } inq,
          by simp [Cur.peek, Pump.peek], by simp [strip, Cur.peek, Pump.peek],
          ⟨e :: l', .inr ⟨e, l', q0, rfl, hl0, hloc, ?_, hr⟩⟩, fun h => by cases h⟩
        cases q0
        simp_all
      · refine ⟨some e, .live q0 inq, ?_, ?_, ⟨l', .inl ⟨hl0, hr⟩⟩⟩
        · simp only [Cur.next, Pump.next]
          rw [pump_eta_look hl0 hloc]
        · simp only [strip, Cur.next, Pump.next]
          have : ({ ({ q0 with look := some e } : Pump) with look := none, lastLoc := e.loc } : Pump) = q0 :=
            pump_eta_look hl0 hloc
          simp only [stripP] at this ⊢
          rw [← this]

theorem closed_P2 : Closed P2 := by
  intro c hc
  obtain ⟨⟨o, d, h1, h2, h3, -⟩, ⟨o', d', h1', h2', h3'⟩⟩ := inv2_step hc
  constructor
  · rw [h1, h2]; exact BR.ok (P := P2) h3
  · rw [h1', h2']; exact BR.ok (P := P2) h3'

/-! ### from "the pump alone accepts the stream under the budget" to `BRun` -/

/-- a quiet pump has exhausted its input, has no replay pending and has produced something -/
theorem quiet_inv {q : Pump} {inp : List RawItem} (h : Quiet q inp) :
    inp = [] ∧ q.inject = [] ∧ q.producedAny = true := by
  obtain ⟨-, hn⟩ := h
  obtain ⟨consumed, hc, hnil⟩ := C01.nextImpl_progress q inp
  rw [hn] at hc hnil
  have hc0 : consumed = [] := by
    have := congrArg List.length hc
    simp only [List.length_append] at this
    exact List.eq_nil_of_length_eq_zero (by omega)
  rcases hnil hc0 with ⟨s, p', hs⟩ | ⟨rfl, p', hs, hpl⟩
  · exfalso
    have hn' := hn
    unfold nextImpl at hn'
    rw [hs] at hn'
    simp only [Prod.mk.injEq] at hn'
    obtain ⟨rfl, -, -⟩ := hn'
    exact C08.serveInject_cases _ _ hs
  · have hp' : p' = { q with inject := [] } := C08.serveInject_cases _ _ hs
    rw [C01.parserLoop_nil] at hpl
    by_cases hpa : p'.producedAny = false
    · rw [if_pos hpa] at hpl; cases hpl
    · rw [if_neg hpa] at hpl
      simp only [Prod.mk.injEq, true_and, and_true] at hpl
      subst hpl
      exact ⟨rfl, by rw [hp'], by simpa using hpa⟩

/-- a budgeted pump is quiet as soon as its stripped twin is -/
theorem quiet_of_strip {p : Pump} {inp : List RawItem} (h : Quiet (stripP p) inp) : Quiet p inp := by
  obtain ⟨rfl, hinj, hpa⟩ := quiet_inv h
  have hinj' : p.inject = [] := hinj
  have hpa' : p.producedAny = true := hpa
  refine ⟨h.1, ?_⟩
  have : nextImpl p [] = (.eof, { p with inject := [] }, []) := by
    simp [nextImpl, hinj', serveInject, parserLoop, hpa']
  rw [this]
  cases p
  simp_all

/-- (pump level) if the stripped pump runs over `es` and draining the budgeted pump alone reports no error,
with a silent `finish()`, then the budgeted pump runs over `es` without a breach -/
theorem brun_of_pumpAll {q : Pump} {inp : List RawItem} {es : List Ev} (hr : Run q inp es) :
    ∀ (p : Pump), stripP p = q → ∀ (fuel : Nat) (acc evs : List Ev) (p' : Pump),
      pumpAll fuel p inp acc = some (evs, none, p') → FinishOk p' → BRun p inp es := by
  induction hr with
  | @eof q inp q' inp' hn hq =>
    intro p hp fuel acc evs p' hpa hfin
    subst hp
    cases fuel with
    | zero => simp [pumpAll] at hpa
    | succ fuel =>
      rcases hp1 : nextImpl p inp with ⟨s, p1, rest⟩
      rcases nextImpl_strip p inp hp1 with h1 | ⟨⟨b, l, rfl⟩, -⟩
      · rw [hn] at h1
        simp only [Prod.mk.injEq] at h1
        obtain ⟨rfl, rfl, rfl⟩ := h1
        simp only [pumpAll, hp1, Option.some.injEq, Prod.mk.injEq, true_and] at hpa
        obtain ⟨-, rfl⟩ := hpa
        exact BRun.eof hp1 (quiet_of_strip hq) hfin
      · simp [pumpAll, hp1] at hpa
  | @ev q inp e q' inp' es hn hr ih =>
    intro p hp fuel acc evs p' hpa hfin
    subst hp
    cases fuel with
    | zero => simp [pumpAll] at hpa
    | succ fuel =>
      rcases hp1 : nextImpl p inp with ⟨s, p1, rest⟩
      rcases nextImpl_strip p inp hp1 with h1 | ⟨⟨b, l, rfl⟩, -⟩
      · rw [hn] at h1
        simp only [Prod.mk.injEq] at h1
        obtain ⟨rfl, rfl, rfl⟩ := h1
        simp only [pumpAll, hp1] at hpa
        exact BRun.ev hp1 (ih p1 rfl fuel _ evs p' hpa hfin)
      · simp [pumpAll, hp1] at hpa

/-- conversely a breach-free run is a run of the stripped pump -/
theorem BRun.strip {p : Pump} {inp : List RawItem} {es : List Ev} (h : BRun p inp es) : Run (stripP p) inp es := by
  induction h with
  | eof hn hq hfin =>
    refine Run.eof (nextImpl_strip_of_ok hn not_breach_eof) ⟨hq.1, ?_⟩
    exact nextImpl_strip_of_ok hq.2 not_breach_eof
  | ev hn _ ih => exact Run.ev (nextImpl_strip_of_ok hn (not_breach_event _)) ih

end SaphyrVerif.Lemmas.E2EBudget
