import SaphyrVerif.Lemmas.C03_TypedD
/-!
Helper lemmas for C03 (typed level), part E — the strict form `explicitTree` (where it is defined it is the
written-out form `writeOut`, hence has the same typed meaning as the tree), the explicit tree is explicit (no
merge entry at any value position), and the one-node form of "merge form = explicit form".
-/
namespace SaphyrVerif.Lemmas.C03T
open SaphyrVerif SaphyrVerif.Scalars SaphyrVerif.Pump SaphyrVerif.De SaphyrVerif.Spec
open SaphyrVerif.Lemmas.C04 (keys)

/-! ### unfolding the strict explicit forms -/

theorem explicitE_nil (dup : DupPolicy) : explicitE dup [] = some [] := by rw [explicitE]

theorem explicitE_cons (dup : DupPolicy) (k v : ENode) (rest : List (ENode × ENode)) :
    explicitE dup ((k, v) :: rest) =
      match (if isMergeKeyNode k then explicitSrc dup v else explicitTree dup v), explicitE dup rest with
      | some v', some rest' => some ((k, v') :: rest')
      | _, _ => none := by rw [explicitE]; rfl

theorem explicitL_nil (dup : DupPolicy) : explicitL dup [] = some [] := by rw [explicitL]

theorem explicitL_cons (dup : DupPolicy) (n : ENode) (ns : List ENode) :
    explicitL dup (n :: ns) =
      match explicitTree dup n, explicitL dup ns with
      | some n', some ns' => some (n' :: ns')
      | _, _ => none := by rw [explicitL]; rfl

theorem explicitSrcL_nil (dup : DupPolicy) : explicitSrcL dup [] = some [] := by rw [explicitSrcL]

theorem explicitSrcL_cons (dup : DupPolicy) (n : ENode) (ns : List ENode) :
    explicitSrcL dup (n :: ns) =
      match explicitSrc dup n, explicitSrcL dup ns with
      | some n', some ns' => some (n' :: ns')
      | _, _ => none := by rw [explicitSrcL]; rfl

theorem explicitTree_scalar (dup : DupPolicy) (v : List Char) (tag : Nat) (rt : Option (List Char)) (st : Style)
    (a : Nat) (l : Loc) : explicitTree dup (.scalar v tag rt st a l) = some (.scalar v tag rt st a l) := by
  rw [explicitTree]

theorem explicitTree_seq (dup : DupPolicy) (a tag : Nat) (rt : Option (List Char)) (l el : Loc) (items : List ENode) :
    explicitTree dup (.seq a tag rt l el items) = (explicitL dup items).map (.seq a tag rt l el) := by
  rw [explicitTree]; cases explicitL dup items <;> rfl

theorem explicitTree_map (dup : DupPolicy) (a : Nat) (l el : Loc) (entries : List (ENode × ENode)) :
    explicitTree dup (.map a l el entries) =
      ((explicitE dup entries).bind (effEntries dup)).map (.map a l el) := by
  rw [explicitTree]
  cases explicitE dup entries with
  | none => rfl
  | some es1 => simp only [Option.bind_some]; cases effEntries dup es1 <;> rfl

theorem explicitSrc_scalar (dup : DupPolicy) (v : List Char) (tag : Nat) (rt : Option (List Char)) (st : Style)
    (a : Nat) (l : Loc) : explicitSrc dup (.scalar v tag rt st a l) = some (.scalar v tag rt st a l) := by
  rw [explicitSrc]

theorem explicitSrc_seq (dup : DupPolicy) (a tag : Nat) (rt : Option (List Char)) (l el : Loc) (items : List ENode) :
    explicitSrc dup (.seq a tag rt l el items) = (explicitSrcL dup items).map (.seq a tag rt l el) := by
  rw [explicitSrc]; cases explicitSrcL dup items <;> rfl

theorem explicitSrc_map (dup : DupPolicy) (a : Nat) (l el : Loc) (entries : List (ENode × ENode)) :
    explicitSrc dup (.map a l el entries) =
      ((explicitE dup entries).bind (effEntries .firstWins)).map (.map a l el) := by
  rw [explicitSrc]
  cases explicitE dup entries with
  | none => rfl
  | some es1 => simp only [Option.bind_some]; cases effEntries .firstWins es1 <;> rfl

/-! ### inversion of the explicit form of a node -/

theorem explicitTree_seq_inv {dup : DupPolicy} {a tag : Nat} {rt : Option (List Char)} {l el : Loc} {items : List ENode}
    {t' : ENode} (h : explicitTree dup (.seq a tag rt l el items) = some t') :
    ∃ items', explicitL dup items = some items' ∧ t' = .seq a tag rt l el items' := by
  rw [explicitTree_seq] at h
  cases hi : explicitL dup items with
  | none => simp [hi] at h
  | some items' =>
    simp only [hi, Option.map_some, Option.some.injEq] at h
    exact ⟨items', rfl, h.symm⟩

theorem explicitTree_map_inv {dup : DupPolicy} {a : Nat} {l el : Loc} {entries : List (ENode × ENode)}
    {t' : ENode} (h : explicitTree dup (.map a l el entries) = some t') :
    ∃ es1 es', explicitE dup entries = some es1 ∧ effEntries dup es1 = some es' ∧ t' = .map a l el es' := by
  rw [explicitTree_map] at h
  cases he : explicitE dup entries with
  | none => simp [he] at h
  | some es1 =>
    simp only [he, Option.bind_some] at h
    cases hf : effEntries dup es1 with
    | none => simp [hf] at h
    | some es' =>
      simp only [hf, Option.map_some, Option.some.injEq] at h
      exact ⟨es1, es', rfl, hf, h.symm⟩

/-! ### where the strict form is defined it is the written-out form -/

mutual
theorem writeOut_of_explicitTree (dup : DupPolicy) : ∀ (t t' : ENode), explicitTree dup t = some t' → writeOut dup t = t'
  | .scalar v tag rt st a l, t', h => by
    rw [explicitTree_scalar] at h; cases h; rw [writeOut_scalar]
  | .seq a tag rt l el items, t', h => by
    obtain ⟨items', hi, rfl⟩ := explicitTree_seq_inv h
    rw [writeOut_seq, writeOutL_of_explicitL dup items items' hi]
  | .map a l el entries, t', h => by
    obtain ⟨es1, es', he1, hf, rfl⟩ := explicitTree_map_inv h
    rw [writeOut_map, writeOutE_of_explicitE dup entries es1 he1, hf]
theorem writeOutSrc_of_explicitSrc (dup : DupPolicy) : ∀ (n n' : ENode), explicitSrc dup n = some n' → writeOutSrc dup n = n'
  | .scalar v tag rt st a l, n', h => by
    rw [explicitSrc_scalar] at h; cases h; rw [writeOutSrc_scalar]
  | .seq a tag rt l el items, n', h => by
    rw [explicitSrc_seq] at h
    cases hi : explicitSrcL dup items with
    | none => simp [hi] at h
    | some items' =>
      simp only [hi, Option.map_some, Option.some.injEq] at h
      subst h
      rw [writeOutSrc_seq, writeOutSrcL_of_explicitSrcL dup items items' hi]
  | .map a l el entries, n', h => by
    rw [explicitSrc_map] at h
    cases he : explicitE dup entries with
    | none => simp [he] at h
    | some es1 =>
      simp only [he, Option.bind_some] at h
      cases hf : effEntries .firstWins es1 with
      | none => simp [hf] at h
      | some es' =>
        simp only [hf, Option.map_some, Option.some.injEq] at h
        subst h
        rw [writeOutSrc_map, writeOutE_of_explicitE dup entries es1 he, hf]
theorem writeOutL_of_explicitL (dup : DupPolicy) : ∀ (items items' : List ENode), explicitL dup items = some items' →
    writeOutL dup items = items'
  | [], items', h => by rw [explicitL_nil] at h; cases h; rw [writeOutL_nil]
  | n :: ns, items', h => by
    rw [explicitL_cons] at h
    cases hn : explicitTree dup n with
    | none => simp [hn] at h
    | some n' =>
      cases hs : explicitL dup ns with
      | none => simp [hn, hs] at h
      | some ns' =>
        simp only [hn, hs, Option.some.injEq] at h
        subst h
        rw [writeOutL_cons, writeOut_of_explicitTree dup n n' hn, writeOutL_of_explicitL dup ns ns' hs]
theorem writeOutSrcL_of_explicitSrcL (dup : DupPolicy) : ∀ (items items' : List ENode),
    explicitSrcL dup items = some items' → writeOutSrcL dup items = items'
  | [], items', h => by rw [explicitSrcL_nil] at h; cases h; rw [writeOutSrcL_nil]
  | n :: ns, items', h => by
    rw [explicitSrcL_cons] at h
    cases hn : explicitSrc dup n with
    | none => simp [hn] at h
    | some n' =>
      cases hs : explicitSrcL dup ns with
      | none => simp [hn, hs] at h
      | some ns' =>
        simp only [hn, hs, Option.some.injEq] at h
        subst h
        rw [writeOutSrcL_cons, writeOutSrc_of_explicitSrc dup n n' hn, writeOutSrcL_of_explicitSrcL dup ns ns' hs]
theorem writeOutE_of_explicitE (dup : DupPolicy) : ∀ (entries es1 : List (ENode × ENode)), explicitE dup entries = some es1 →
    writeOutE dup entries = es1
  | [], es1, h => by rw [explicitE_nil] at h; cases h; rw [writeOutE_nil]
  | (k, v) :: rest, es1, h => by
    rw [explicitE_cons] at h
    cases hr : explicitE dup rest with
    | none => simp [hr] at h
    | some rest' =>
      have ihr := writeOutE_of_explicitE dup rest rest' hr
      by_cases hk : isMergeKeyNode k = true
      · simp only [hk, if_true, hr] at h
        cases hv : explicitSrc dup v with
        | none => simp [hv] at h
        | some v' =>
          simp only [hv, Option.some.injEq] at h
          subst h
          rw [writeOutE_cons, ihr]
          simp only [hk, if_true, writeOutSrc_of_explicitSrc dup v v' hv]
      · simp only [hk, Bool.false_eq_true, if_false, hr] at h
        cases hv : explicitTree dup v with
        | none => simp [hv] at h
        | some v' =>
          simp only [hv, Option.some.injEq] at h
          subst h
          rw [writeOutE_cons, ihr]
          simp only [hk, Bool.false_eq_true, if_false, writeOut_of_explicitTree dup v v' hv]
end

/-- a tree and its explicit form (where it exists) have the same typed meaning -/
theorem explicit_interp (cfg : Cfg) (ty : Ty) (t t' : ENode) (hx : explicitTree cfg.dup t = some t')
    (hH : enumFree ty = true ∨ enumStable cfg.dup t = true) : interp cfg ty t = interp cfg ty t' := by
  rw [← writeOut_of_explicitTree cfg.dup t t' hx]
  exact writeOut_interp cfg ty t hH

/-! ### the explicit tree has no merge entries -/

theorem mergeFreeE_of_forall : ∀ (es : List (ENode × ENode)),
    (∀ e ∈ es, isMergeKeyNode e.1 = false ∧ mergeFree e.2 = true) → mergeFreeE es = true := by
  intro es
  induction es with
  | nil => intro _; rw [mergeFreeE]
  | cons x xs ih =>
    intro h
    obtain ⟨k, v⟩ := x
    have h1 := h (k, v) (List.mem_cons_self ..)
    rw [mergeFreeE, ih (fun e he => h e (List.mem_cons_of_mem _ he))]
    simp [h1.1, h1.2]

theorem mergeFreeE_mem {es : List (ENode × ENode)} (h : mergeFreeE es = true) {e : ENode × ENode} (he : e ∈ es) :
    isMergeKeyNode e.1 = false ∧ mergeFree e.2 = true := by
  induction es with
  | nil => cases he
  | cons x xs ih =>
    obtain ⟨k, v⟩ := x
    rw [mergeFreeE] at h
    simp only [Bool.and_eq_true, Bool.not_eq_true'] at h
    rcases List.mem_cons.1 he with rfl | hm
    · exact ⟨h.1.1, h.1.2⟩
    · exact ih h.2 hm

/-- an effective entry is an own entry or an entry delivered by the merge values -/
theorem eff_mem (p : DupPolicy) {l es : List (ENode × ENode)} (h : effEntries p l = some es) :
    ∀ e ∈ es, e ∈ (splitEntries l).1 ∨ ∃ bf, seqSourceEntries (splitEntries l).2 = some bf ∧ e ∈ bf := by
  rw [effEntries_alt] at h
  cases ho : applyPolicy p (splitEntries l).1 [] with
  | none => simp [ho] at h
  | some ownKept =>
    cases hs : seqSourceEntries (splitEntries l).2 with
    | none => simp [ho, hs] at h
    | some bf =>
      simp only [ho, hs, Option.some.injEq] at h
      subst h
      intro e he
      rcases List.mem_append.1 he with he | he
      · exact Or.inl ((C04.applyPolicy_sublist p _ [] ownKept ho).subset he)
      · exact Or.inr ⟨bf, rfl, (C04.dropSeen_sublist bf _).subset he⟩

theorem eff_mergeFree (p : DupPolicy) {es1 es' : List (ENode × ENode)} (hf : effEntries p es1 = some es')
    (h1 : ∀ e ∈ (splitEntries es1).1, mergeFree e.2 = true)
    (h2 : ∀ b, seqSourceEntries (splitEntries es1).2 = some b → ∀ e ∈ b, mergeFree e.2 = true) :
    mergeFreeE es' = true := by
  apply mergeFreeE_of_forall
  intro e he
  refine ⟨eff_no_merge p es1 es' hf e he, ?_⟩
  rcases eff_mem p hf e he with hm | ⟨bf, hbf, hm⟩
  · exact h1 e hm
  · exact h2 bf hbf e hm

mutual
theorem explicitTree_mergeFree (dup : DupPolicy) : ∀ (t t' : ENode), explicitTree dup t = some t' → mergeFree t' = true
  | .scalar v tag rt st a l, t', h => by
    rw [explicitTree_scalar] at h; cases h; rw [mergeFree]
  | .seq a tag rt l el items, t', h => by
    obtain ⟨items', hi, rfl⟩ := explicitTree_seq_inv h
    rw [mergeFree]
    exact explicitL_mergeFree dup items items' hi
  | .map a l el entries, t', h => by
    obtain ⟨es1, es', he1, hf, rfl⟩ := explicitTree_map_inv h
    rw [mergeFree]
    obtain ⟨h1, h2⟩ := explicitE_mergeFree dup entries es1 he1
    exact eff_mergeFree dup hf h1 h2
theorem explicitSrc_mergeFree (dup : DupPolicy) : ∀ (n n' : ENode), explicitSrc dup n = some n' →
    ∀ b, sourceEntries n' = some b → ∀ e ∈ b, mergeFree e.2 = true
  | .scalar v tag rt st a l, n', h, b, hb => by
    rw [explicitSrc_scalar] at h; cases h
    simp only [C05.sourceEntries_scalar] at hb
    split at hb
    · cases hb; simp
    · cases hb
  | .seq a tag rt l el items, n', h, b, hb => by
    rw [explicitSrc_seq] at h
    cases hi : explicitSrcL dup items with
    | none => simp [hi] at h
    | some items' =>
      simp only [hi, Option.map_some, Option.some.injEq] at h
      subst h
      simp only [C05.sourceEntries_seq] at hb
      exact explicitSrcL_mergeFree dup items items' hi b hb
  | .map a l el entries, n', h, b, hb => by
    rw [explicitSrc_map] at h
    cases he : explicitE dup entries with
    | none => simp [he] at h
    | some es1 =>
      simp only [he, Option.bind_some] at h
      cases hf : effEntries .firstWins es1 with
      | none => simp [hf] at h
      | some es' =>
        simp only [hf, Option.map_some, Option.some.injEq] at h
        subst h
        obtain ⟨h1, h2⟩ := explicitE_mergeFree dup entries es1 he
        have hmf := eff_mergeFree .firstWins hf h1 h2
        simp only [C05.sourceEntries_map] at hb
        rw [mapSource_of_no_merge es' (eff_no_merge _ es1 es' hf)] at hb
        cases hb
        exact fun e he' => (mergeFreeE_mem hmf he').2
theorem explicitL_mergeFree (dup : DupPolicy) : ∀ (items items' : List ENode), explicitL dup items = some items' →
    mergeFreeL items' = true
  | [], items', h => by rw [explicitL_nil] at h; cases h; rw [mergeFreeL]
  | n :: ns, items', h => by
    rw [explicitL_cons] at h
    cases hn : explicitTree dup n with
    | none => simp [hn] at h
    | some n' =>
      cases hs : explicitL dup ns with
      | none => simp [hn, hs] at h
      | some ns' =>
        simp only [hn, hs, Option.some.injEq] at h
        subst h
        rw [mergeFreeL, explicitTree_mergeFree dup n n' hn, explicitL_mergeFree dup ns ns' hs]
        rfl
theorem explicitSrcL_mergeFree (dup : DupPolicy) : ∀ (items items' : List ENode), explicitSrcL dup items = some items' →
    ∀ b, seqSourceEntries items' = some b → ∀ e ∈ b, mergeFree e.2 = true
  | [], items', h, b, hb => by
    rw [explicitSrcL_nil] at h; cases h
    simp at hb; subst hb; simp
  | n :: ns, items', h, b, hb => by
    rw [explicitSrcL_cons] at h
    cases hn : explicitSrc dup n with
    | none => simp [hn] at h
    | some n' =>
      cases hs : explicitSrcL dup ns with
      | none => simp [hn, hs] at h
      | some ns' =>
        simp only [hn, hs, Option.some.injEq] at h
        subst h
        rw [C05.seqSourceEntries_cons] at hb
        cases hb0 : sourceEntries n' with
        | none => simp [hb0] at hb
        | some b0 =>
          cases hr : seqSourceEntries ns' with
          | none => simp [hb0, hr] at hb
          | some r =>
            simp only [hb0, hr, Option.some.injEq] at hb
            subst hb
            intro e he
            rcases List.mem_append.1 he with he | he
            · exact explicitSrcL_mergeFree dup ns ns' hs r hr e he
            · exact explicitSrc_mergeFree dup n n' hn b0 hb0 e he
theorem explicitE_mergeFree (dup : DupPolicy) : ∀ (entries es1 : List (ENode × ENode)), explicitE dup entries = some es1 →
    (∀ e ∈ (splitEntries es1).1, mergeFree e.2 = true) ∧
      (∀ b, seqSourceEntries (splitEntries es1).2 = some b → ∀ e ∈ b, mergeFree e.2 = true)
  | [], es1, h => by
    rw [explicitE_nil] at h; cases h
    simp [splitEntries]
  | (k, v) :: rest, es1, h => by
    rw [explicitE_cons] at h
    cases hr : explicitE dup rest with
    | none => simp [hr] at h
    | some rest' =>
      obtain ⟨ih1, ih2⟩ := explicitE_mergeFree dup rest rest' hr
      by_cases hk : isMergeKeyNode k = true
      · simp only [hk, if_true, hr] at h
        cases hv : explicitSrc dup v with
        | none => simp [hv] at h
        | some v' =>
          simp only [hv, Option.some.injEq] at h
          subst h
          rw [C03.splitEntries_cons]
          simp only [hk, if_true]
          refine ⟨ih1, ?_⟩
          intro b hb
          rw [C05.seqSourceEntries_cons] at hb
          cases hb0 : sourceEntries v' with
          | none => simp [hb0] at hb
          | some b0 =>
            cases hr' : seqSourceEntries (splitEntries rest').2 with
            | none => simp [hb0, hr'] at hb
            | some r =>
              simp only [hb0, hr', Option.some.injEq] at hb
              subst hb
              intro e he
              rcases List.mem_append.1 he with he | he
              · exact ih2 r hr' e he
              · exact explicitSrc_mergeFree dup v v' hv b0 hb0 e he
      · simp only [hk, Bool.false_eq_true, if_false, hr] at h
        cases hv : explicitTree dup v with
        | none => simp [hv] at h
        | some v' =>
          simp only [hv, Option.some.injEq] at h
          subst h
          rw [C03.splitEntries_cons]
          simp only [hk, Bool.false_eq_true, if_false]
          refine ⟨?_, ih2⟩
          intro e he
          rcases List.mem_cons.1 he with rfl | he
          · exact explicitTree_mergeFree dup v v' hv
          · exact ih1 e he
end

/-! ### one node: the mapping and the ordinary mapping of its effective entries -/

theorem enumHead_option (t : Ty) : enumHead (.option t) = enumHead t := by rw [enumHead]
theorem enumHead_newtype (t : Ty) : enumHead (.newtype t) = enumHead t := by rw [enumHead]
theorem enumHead_enum (n : String) (vs : List (String × VTy)) : enumHead (.enum n vs) = true := by rw [enumHead]

/-- the mapping with merge entries and the ordinary mapping of its effective entries have the same typed
meaning (one node, sub-nodes unchanged) -/
theorem node_agree (cfg : Cfg) (a : Nat) (l el : Loc) (entries es : List (ENode × ENode))
    (hes : effEntries cfg.dup entries = some es) :
    ∀ s (ty : Ty), sizeOf ty ≤ s → (enumHead ty = false ∨ shapeStable cfg.dup entries = true) →
      interp cfg ty (.map a l el entries) = interp cfg ty (.map a l el es) := by
  have hidem : effEntries cfg.dup es = some es := eff_idem _ entries es hes
  intro s
  induction s with
  | zero => intro ty hs; cases ty <;> simp at hs
  | succ s ihs =>
    intro ty hs hH
    cases ty with
    | bool => rw [interp]
    | int sg w => rw [interp]
    | float w => rw [interp]
    | char => rw [interp]
    | string => rw [interp]
    | unit => rw [interp]
    | bytes => rw [interp]
    | newtype ty' =>
      rw [interp_newtype, interp_newtype]
      exact ihs ty' (by simp at hs; omega) (hH.imp (by rw [enumHead_newtype]; exact id) id)
    | option ty' =>
      rw [interp_option_map, interp_option_map]
      congr 1
      exact ihs ty' (by simp at hs; omega) (hH.imp (by rw [enumHead_option]; exact id) id)
    | seq te => rw [C05.interp_seq_map, C05.interp_seq_map]
    | tuple ts =>
      rw [C05.interp_tuple, C05.interp_tuple]
      simp only [tupleNode]
    | map kt vt => rw [C05.interp_map_map, C05.interp_map_map, hes, hidem]
    | struct fields deny => rw [interp_struct, interp_struct, C05.structNode_map, C05.structNode_map, hes, hidem]
    | any => rw [interp_any_map, interp_any_map, hes, hidem]
    | enum name variants =>
      have hst : shapeStable cfg.dup entries = true := by
        rcases hH with h | h
        · rw [enumHead_enum] at h; cases h
        · exact h
      by_cases hlen : entries.length = 1
      · obtain ⟨⟨k, p⟩, rfl⟩ := List.length_eq_one_iff.1 hlen
        have hk : isMergeKeyNode k = false := by simpa [shapeStable] using hst
        rw [eff_singleton _ k p hk] at hes
        cases hes
        rfl
      · have hne : es.length ≠ 1 := by
          unfold shapeStable at hst
          split at hst
          · simp at hlen
          · simpa [hes] using hst
        rw [interp_enum, interp_enum, enumFrom_map_not_singleton _ _ _ _ _ _ _ hlen,
          enumFrom_map_not_singleton _ _ _ _ _ _ _ hne]

/-- a mapping without effective entries (invalid merge value, repeated own key under `Error`) is an error
at every position that is not an enum position -/
theorem node_none (cfg : Cfg) (a : Nat) (l el : Loc) (entries : List (ENode × ENode))
    (hes : effEntries cfg.dup entries = none) :
    ∀ s (ty : Ty), sizeOf ty ≤ s → enumHead ty = false → interp cfg ty (.map a l el entries) = none := by
  intro s
  induction s with
  | zero => intro ty hs; cases ty <;> simp at hs
  | succ s ihs =>
    intro ty hs hH
    cases ty with
    | bool => rw [interp]
    | int sg w => rw [interp]
    | float w => rw [interp]
    | char => rw [interp]
    | string => rw [interp]
    | unit => rw [interp]
    | bytes => rw [interp]
    | newtype ty' =>
      rw [interp_newtype]
      exact ihs ty' (by simp at hs; omega) (by rw [enumHead_newtype] at hH; exact hH)
    | option ty' =>
      rw [interp_option_map, ihs ty' (by simp at hs; omega) (by rw [enumHead_option] at hH; exact hH)]
      rfl
    | seq te => rw [C05.interp_seq_map]
    | tuple ts =>
      rw [C05.interp_tuple]
      simp only [tupleNode]
    | map kt vt => rw [C05.interp_map_map, hes]; rfl
    | struct fields deny => rw [interp_struct, C05.structNode_map, hes]; rfl
    | any => rw [interp_any_map, hes]
    | enum name variants => rw [enumHead_enum] at hH; cases hH

end SaphyrVerif.Lemmas.C03T
