import SaphyrVerif.Lemmas.C18
/-! Helper lemmas for C18: the path recorder over an abstract traversal. -/
namespace SaphyrVerif.PathMap

variable {α : Type}

@[simp] theorem enter_current (r : Recorder α) (s : Seg) (loc : α) :
    (r.enter s loc).current = r.current ++ [s] := rfl
@[simp] theorem enter_map (r : Recorder α) (s : Seg) (loc : α) :
    (r.enter s loc).map = insert r.map (r.current ++ [s]) loc := rfl

/-! ### the current path is restored -/

theorem recordItems_current :
    ∀ (items : List (α × Visit α)) (idx : Nat) (r : Recorder α), (recordItems items idx r).2.current = r.current
  | [], _, r => by simp [recordItems]
  | (loc, v) :: rest, idx, r => by
    rw [recordItems]
    simp only
    split
    · rw [recordItems_current rest (idx + 1) _]
    · rfl

theorem recordEntries_current :
    ∀ (es : List (Option (List Char) × α × Visit α)) (r : Recorder α), (recordEntries es r).2.current = r.current
  | [], r => by simp [recordEntries]
  | (none, _, v) :: rest, r => by
    rw [recordEntries]
    split
    · exact recordEntries_current rest r
    · rfl
  | (some seg, loc, v) :: rest, r => by
    rw [recordEntries]
    simp only
    split
    · rw [recordEntries_current rest _]
    · rfl

theorem record_current : ∀ (v : Visit α) (r : Recorder α), (record v r).2.current = r.current
  | .leaf ok, r => by simp [record]
  | .seq items, r => by rw [record]; exact recordItems_current items 0 r
  | .map c es, r => by rw [record]; exact recordEntries_current es _

/-! ### the success flag does not depend on the recorder -/

mutual
theorem record_fst : ∀ (v : Visit α) (r : Recorder α), (record v r).1 = v.succeeds
  | .leaf ok, r => by simp [record, Visit.succeeds]
  | .seq items, r => by rw [record, Visit.succeeds]; exact recordItems_fst items 0 r
  | .map c es, r => by rw [record, Visit.succeeds]; exact recordEntries_fst es _
theorem recordItems_fst :
    ∀ (items : List (α × Visit α)) (idx : Nat) (r : Recorder α),
      (recordItems items idx r).1 = Visit.succeeds.succeedsItems items
  | [], _, r => by simp [recordItems, Visit.succeeds.succeedsItems]
  | (loc, v) :: rest, idx, r => by
    rw [recordItems, Visit.succeeds.succeedsItems]
    simp only [record_fst v]
    split
    · rename_i h; rw [recordItems_fst rest (idx + 1) _, h]; simp
    · rename_i h; simp [h]
theorem recordEntries_fst :
    ∀ (es : List (Option (List Char) × α × Visit α)) (r : Recorder α),
      (recordEntries es r).1 = Visit.succeeds.succeedsEntries es
  | [], r => by simp [recordEntries, Visit.succeeds.succeedsEntries]
  | (none, _, v) :: rest, r => by
    rw [recordEntries, Visit.succeeds.succeedsEntries]
    split
    · rename_i h; rw [recordEntries_fst rest r, h]; simp
    · rename_i h; simp [h]
  | (some seg, loc, v) :: rest, r => by
    rw [recordEntries, Visit.succeeds.succeedsEntries]
    simp only [record_fst v]
    split
    · rename_i h; rw [recordEntries_fst rest _, h]; simp
    · rename_i h; simp [h]
end

/-! ### every recorded key is the tree path of the position being deserialized -/

/-- what the recorder added: an entry is old, or sits at `current ++ q` for a position `q` of `ps` -/
def AddedFrom (ps : List (Path × α)) (r : Recorder α) (m : Map α) : Prop :=
  ∀ e ∈ m, e ∈ r.map ∨ ∃ q, e.1 = r.current ++ q ∧ (q, e.2) ∈ ps

mutual
theorem record_added : ∀ (v : Visit α) (r : Recorder α), AddedFrom (positions v) r (record v r).2.map
  | .leaf ok, r => by
    intro e he
    simp only [record] at he
    exact Or.inl he
  | .seq items, r => by
    rw [record, positions]
    exact recordItems_added items 0 r
  | .map c es, r => by
    rw [record, positions]
    intro e he
    rcases recordEntries_added es _ e he with h | ⟨q, h1, h2⟩
    · rcases mem_insert h with h | h
      · exact Or.inl h
      · exact Or.inr ⟨[], by simp [h], by simp [h]⟩
    · exact Or.inr ⟨q, h1, List.mem_cons_of_mem _ h2⟩
theorem recordItems_added :
    ∀ (items : List (α × Visit α)) (idx : Nat) (r : Recorder α),
      AddedFrom (positionsItems items idx) r (recordItems items idx r).2.map
  | [], _, r => by
    intro e he
    simp only [recordItems] at he
    exact Or.inl he
  | (loc, v) :: rest, idx, r => by
    intro e he
    rw [recordItems] at he
    simp only at he
    rw [positionsItems]
    -- entries present after the element itself was deserialized
    have step : ∀ e', e' ∈ (record v (r.enter (idxSeg idx) loc)).2.map →
        e' ∈ r.map ∨ ∃ q, e'.1 = r.current ++ q ∧
          (q, e'.2) ∈ ([idxSeg idx], loc) :: ((positions v).map (fun e => (idxSeg idx :: e.1, e.2)) ++
            positionsItems rest (idx + 1)) := by
      intro e' he'
      rcases record_added v _ e' he' with h | ⟨q, h1, h2⟩
      · rcases mem_insert h with h | h
        · exact Or.inl h
        · exact Or.inr ⟨[idxSeg idx], by simp [h], by simp [h]⟩
      · refine Or.inr ⟨idxSeg idx :: q, by simp [h1], ?_⟩
        apply List.mem_cons_of_mem
        apply List.mem_append_left
        exact List.mem_map.mpr ⟨(q, e'.2), h2, rfl⟩
    split at he
    · rcases recordItems_added rest (idx + 1) _ e he with h | ⟨q, h1, h2⟩
      · exact step e h
      · exact Or.inr ⟨q, h1, List.mem_cons_of_mem _ (List.mem_append_right _ h2)⟩
    · exact step e he
theorem recordEntries_added :
    ∀ (es : List (Option (List Char) × α × Visit α)) (r : Recorder α),
      AddedFrom (positionsEntries es) r (recordEntries es r).2.map
  | [], r => by
    intro e he
    simp only [recordEntries] at he
    exact Or.inl he
  | (none, _, v) :: rest, r => by
    intro e he
    rw [recordEntries] at he
    rw [positionsEntries]
    split at he
    · exact recordEntries_added rest r e he
    · exact Or.inl he
  | (some seg, loc, v) :: rest, r => by
    intro e he
    rw [recordEntries] at he
    simp only at he
    rw [positionsEntries]
    have step : ∀ e', e' ∈ (record v (r.enter (keySeg seg) loc)).2.map →
        e' ∈ r.map ∨ ∃ q, e'.1 = r.current ++ q ∧
          (q, e'.2) ∈ ([keySeg seg], loc) :: ((positions v).map (fun e => (keySeg seg :: e.1, e.2)) ++
            positionsEntries rest) := by
      intro e' he'
      rcases record_added v _ e' he' with h | ⟨q, h1, h2⟩
      · rcases mem_insert h with h | h
        · exact Or.inl h
        · exact Or.inr ⟨[keySeg seg], by simp [h], by simp [h]⟩
      · refine Or.inr ⟨keySeg seg :: q, by simp [h1], ?_⟩
        apply List.mem_cons_of_mem
        apply List.mem_append_left
        exact List.mem_map.mpr ⟨(q, e'.2), h2, rfl⟩
    split at he
    · rcases recordEntries_added rest _ e he with h | ⟨q, h1, h2⟩
      · exact step e h
      · exact Or.inr ⟨q, h1, List.mem_cons_of_mem _ (List.mem_append_right _ h2)⟩
    · exact step e he
end

/-! ### the recorder never forgets a key, and keeps the `HashMap` invariant -/

mutual
theorem record_keys_mono : ∀ (v : Visit α) (r : Recorder α) (p : Path),
    p ∈ r.map.map (·.1) → p ∈ (record v r).2.map.map (·.1)
  | .leaf ok, r, p => by intro h; simpa [record] using h
  | .seq items, r, p => by rw [record]; exact recordItems_keys_mono items 0 r p
  | .map c es, r, p => by
    rw [record]
    intro h
    exact recordEntries_keys_mono es _ p (mem_keys_insert h)
theorem recordItems_keys_mono : ∀ (items : List (α × Visit α)) (idx : Nat) (r : Recorder α) (p : Path),
    p ∈ r.map.map (·.1) → p ∈ (recordItems items idx r).2.map.map (·.1)
  | [], _, r, p => by intro h; simpa [recordItems] using h
  | (loc, v) :: rest, idx, r, p => by
    intro h
    rw [recordItems]
    simp only
    have h1 := record_keys_mono v (r.enter (idxSeg idx) loc) p (mem_keys_insert h)
    split
    · exact recordItems_keys_mono rest (idx + 1) _ p h1
    · exact h1
theorem recordEntries_keys_mono : ∀ (es : List (Option (List Char) × α × Visit α)) (r : Recorder α) (p : Path),
    p ∈ r.map.map (·.1) → p ∈ (recordEntries es r).2.map.map (·.1)
  | [], r, p => by intro h; simpa [recordEntries] using h
  | (none, _, v) :: rest, r, p => by
    intro h
    rw [recordEntries]
    split
    · exact recordEntries_keys_mono rest r p h
    · exact h
  | (some seg, loc, v) :: rest, r, p => by
    intro h
    rw [recordEntries]
    simp only
    have h1 := record_keys_mono v (r.enter (keySeg seg) loc) p (mem_keys_insert h)
    split
    · exact recordEntries_keys_mono rest _ p h1
    · exact h1
end

mutual
theorem record_keysNodup : ∀ (v : Visit α) (r : Recorder α), KeysNodup r.map → KeysNodup (record v r).2.map
  | .leaf ok, r => by intro h; simpa [record] using h
  | .seq items, r => by rw [record]; exact recordItems_keysNodup items 0 r
  | .map c es, r => by
    rw [record]
    intro h
    exact recordEntries_keysNodup es _ (insert_keysNodup h _ _)
theorem recordItems_keysNodup : ∀ (items : List (α × Visit α)) (idx : Nat) (r : Recorder α),
    KeysNodup r.map → KeysNodup (recordItems items idx r).2.map
  | [], _, r => by intro h; simpa [recordItems] using h
  | (loc, v) :: rest, idx, r => by
    intro h
    rw [recordItems]
    simp only
    have h1 := record_keysNodup v (r.enter (idxSeg idx) loc) (insert_keysNodup h _ _)
    split
    · exact recordItems_keysNodup rest (idx + 1) _ h1
    · exact h1
theorem recordEntries_keysNodup : ∀ (es : List (Option (List Char) × α × Visit α)) (r : Recorder α),
    KeysNodup r.map → KeysNodup (recordEntries es r).2.map
  | [], r => by intro h; simpa [recordEntries] using h
  | (none, _, v) :: rest, r => by
    intro h
    rw [recordEntries]
    split
    · exact recordEntries_keysNodup rest r h
    · exact h
  | (some seg, loc, v) :: rest, r => by
    intro h
    rw [recordEntries]
    simp only
    have h1 := record_keysNodup v (r.enter (keySeg seg) loc) (insert_keysNodup h _ _)
    split
    · exact recordEntries_keysNodup rest _ h1
    · exact h1
end

/-! ### on success every visible position has its key in the map -/

mutual
theorem record_complete : ∀ (v : Visit α) (r : Recorder α), (record v r).1 = true →
    ∀ q ∈ (positions v).map (·.1), r.current ++ q ∈ (record v r).2.map.map (·.1)
  | .leaf ok, r => by intro _ q hq; simp [positions] at hq
  | .seq items, r => by rw [record, positions]; exact recordItems_complete items 0 r
  | .map c es, r => by
    rw [record, positions]
    intro hok q hq
    simp only [List.map_cons, List.mem_cons] at hq
    rcases hq with rfl | hq
    · simp only [List.append_nil]
      exact recordEntries_keys_mono es _ _ (self_mem_keys_insert _ _ _)
    · exact recordEntries_complete es _ hok q hq
theorem recordItems_complete : ∀ (items : List (α × Visit α)) (idx : Nat) (r : Recorder α),
    (recordItems items idx r).1 = true →
    ∀ q ∈ (positionsItems items idx).map (·.1), r.current ++ q ∈ (recordItems items idx r).2.map.map (·.1)
  | [], _, r => by intro _ q hq; simp [positionsItems] at hq
  | (loc, v) :: rest, idx, r => by
    intro hok q hq
    rw [recordItems] at hok ⊢
    simp only at hok ⊢
    rw [positionsItems] at hq
    split at hok
    · rename_i hv
      rw [if_pos hv]
      simp only [List.map_cons, List.map_append, List.map_map, List.mem_cons, List.mem_append, List.mem_map,
        Function.comp] at hq
      rcases hq with rfl | ⟨e, he, rfl⟩ | hq
      · apply recordItems_keys_mono
        apply record_keys_mono
        exact self_mem_keys_insert _ _ _
      · apply recordItems_keys_mono
        have := record_complete v (r.enter (idxSeg idx) loc) hv e.1 (List.mem_map.mpr ⟨e, he, rfl⟩)
        simpa using this
      · have := recordItems_complete rest (idx + 1) _ hok q (by simpa using hq)
        simpa using this
    · simp at hok
theorem recordEntries_complete : ∀ (es : List (Option (List Char) × α × Visit α)) (r : Recorder α),
    (recordEntries es r).1 = true →
    ∀ q ∈ (positionsEntries es).map (·.1), r.current ++ q ∈ (recordEntries es r).2.map.map (·.1)
  | [], r => by intro _ q hq; simp [positionsEntries] at hq
  | (none, _, v) :: rest, r => by
    intro hok q hq
    rw [recordEntries] at hok ⊢
    rw [positionsEntries] at hq
    split at hok
    · rename_i hv
      rw [if_pos hv]
      exact recordEntries_complete rest r hok q hq
    · simp at hok
  | (some seg, loc, v) :: rest, r => by
    intro hok q hq
    rw [recordEntries] at hok ⊢
    simp only at hok ⊢
    rw [positionsEntries] at hq
    split at hok
    · rename_i hv
      rw [if_pos hv]
      simp only [List.map_cons, List.map_append, List.map_map, List.mem_cons, List.mem_append, List.mem_map,
        Function.comp] at hq
      rcases hq with rfl | ⟨e, he, rfl⟩ | hq
      · apply recordEntries_keys_mono
        apply record_keys_mono
        exact self_mem_keys_insert _ _ _
      · apply recordEntries_keys_mono
        have := record_complete v (r.enter (keySeg seg) loc) hv e.1 (List.mem_map.mpr ⟨e, he, rfl⟩)
        simpa using this
      · have := recordEntries_complete rest _ hok q (by simpa using hq)
        simpa using this
    · simp at hok
end

end SaphyrVerif.PathMap
