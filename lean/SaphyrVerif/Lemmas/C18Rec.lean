import SaphyrVerif.Lemmas.C18
/-! Helper lemmas for C18: the path recorder over an abstract traversal. -/
namespace SaphyrVerif.PathMap

variable {α : Type}

@[simp] theorem enter_current (r : Recorder α) (s : Seg) (loc : α) :
    (r.enter s loc).current = r.current ++ [s] := rfl
@[simp] theorem enter_map (r : Recorder α) (s : Seg) (loc : α) :
    (r.enter s loc).map = insert r.map (r.current ++ [s]) loc := rfl

/-! ### `remove` -/

theorem mem_remove {m : Map α} {p : Path} {e : Path × α} : e ∈ remove m p ↔ e ∈ m ∧ e.1 ≠ p := by
  unfold remove
  simp [List.mem_filter]

theorem mem_keys_remove {m : Map α} {p q : Path} :
    q ∈ (remove m p).map (·.1) ↔ q ∈ m.map (·.1) ∧ q ≠ p := by
  simp only [List.mem_map]
  constructor
  · rintro ⟨e, he, rfl⟩
    obtain ⟨h1, h2⟩ := mem_remove.mp he
    exact ⟨⟨e, h1, rfl⟩, h2⟩
  · rintro ⟨⟨e, he, rfl⟩, h2⟩
    exact ⟨e, mem_remove.mpr ⟨he, h2⟩, rfl⟩

theorem remove_keysNodup {m : Map α} (hm : KeysNodup m) (p : Path) : KeysNodup (remove m p) := by
  unfold KeysNodup remove at *
  exact List.Nodup.sublist (List.Sublist.map _ List.filter_sublist) hm

/-! ### the current path is restored -/

theorem recordItems_current :
    ∀ (items : List (α × Visit α)) (idx : Nat) (r : Recorder α), (recordItems items idx r).2.current = r.current
  | [], _, r => by simp [recordItems]
  | (loc, v) :: rest, idx, r => by
    rw [recordItems]
    simp only
    split
    · rw [recordItems_current rest (idx + 1) _]
    · rfl

theorem recordEntries_current :
    ∀ (es : List (Option (List Char) × α × Visit α)) (r : Recorder α), (recordEntries es r).2.current = r.current
  | [], r => by simp [recordEntries]
  | (none, _, v) :: rest, r => by
    rw [recordEntries]
    split
    · exact recordEntries_current rest r
    · rfl
  | (some seg, loc, v) :: rest, r => by
    rw [recordEntries]
    simp only
    split
    · rw [recordEntries_current rest _]
    · rfl

theorem record_current : ∀ (v : Visit α) (r : Recorder α), (record v r).2.current = r.current
  | .leaf ok, r => by simp [record]
  | .seq items, r => by rw [record]; exact recordItems_current items 0 r
  | .map c es, r => by rw [record]; exact recordEntries_current es _
  | .ignored w, r => by simp [record]

/-! ### the success flag does not depend on the recorder -/

mutual
theorem record_fst : ∀ (v : Visit α) (r : Recorder α), (record v r).1 = v.succeeds
  | .leaf ok, r => by simp [record, Visit.succeeds]
  | .seq items, r => by rw [record, Visit.succeeds]; exact recordItems_fst items 0 r
  | .map c es, r => by rw [record, Visit.succeeds]; exact recordEntries_fst es _
  | .ignored w, r => by simp [record, Visit.succeeds]
theorem recordItems_fst :
    ∀ (items : List (α × Visit α)) (idx : Nat) (r : Recorder α),
      (recordItems items idx r).1 = Visit.succeeds.succeedsItems items
  | [], _, r => by simp [recordItems, Visit.succeeds.succeedsItems]
  | (loc, v) :: rest, idx, r => by
    rw [recordItems, Visit.succeeds.succeedsItems]
    simp only [record_fst v]
    split
    · rename_i h; rw [recordItems_fst rest (idx + 1) _, h]; simp
    · rename_i h; simp [h]
theorem recordEntries_fst :
    ∀ (es : List (Option (List Char) × α × Visit α)) (r : Recorder α),
      (recordEntries es r).1 = Visit.succeeds.succeedsEntries es
  | [], r => by simp [recordEntries, Visit.succeeds.succeedsEntries]
  | (none, _, v) :: rest, r => by
    rw [recordEntries, Visit.succeeds.succeedsEntries]
    split
    · rename_i h; rw [recordEntries_fst rest r, h]; simp
    · rename_i h; simp [h]
  | (some seg, loc, v) :: rest, r => by
    rw [recordEntries, Visit.succeeds.succeedsEntries]
    simp only [record_fst v]
    split
    · rename_i h; rw [recordEntries_fst rest _, h]; simp
    · rename_i h; simp [h]
end

/-! ### ignored values -/

theorem positions_of_ignored {v : Visit α} (h : v.isIgnored = true) : positions v = [] := by
  cases v <;> simp [Visit.isIgnored] at h
  simp [positions]

/-- an ignored value leaves no entry under its own path -/
theorem ignored_removes {v : Visit α} (h : v.isIgnored = true) (r : Recorder α) :
    ∀ e ∈ (record v r).2.map, e.1 ≠ r.current := by
  cases v <;> simp [Visit.isIgnored] at h
  intro e he
  simp only [record] at he
  exact (mem_remove.mp he).2

theorem nil_not_mem_ignoredItems : ∀ (items : List (α × Visit α)) (i : Nat), [] ∉ ignoredItems items i
  | [], _ => by simp [ignoredItems]
  | (_, v) :: rest, i => by
    rw [ignoredItems]
    simp only [List.mem_append, List.mem_map, not_or, not_exists, not_and]
    exact ⟨fun q _ h => by simp at h, nil_not_mem_ignoredItems rest (i + 1)⟩

theorem nil_not_mem_ignoredEntries : ∀ (es : List (Option (List Char) × α × Visit α)), [] ∉ ignoredEntries es
  | [] => by simp [ignoredEntries]
  | (none, _, _) :: rest => by rw [ignoredEntries]; exact nil_not_mem_ignoredEntries rest
  | (some k, _, v) :: rest => by
    rw [ignoredEntries]
    simp only [List.mem_append, List.mem_map, not_or, not_exists, not_and]
    exact ⟨fun q _ h => by simp at h, nil_not_mem_ignoredEntries rest⟩

theorem nil_not_mem_ignoredAt {v : Visit α} (h : v.isIgnored = false) : [] ∉ ignoredAt v := by
  cases v with
  | leaf ok => simp [ignoredAt]
  | seq items => rw [ignoredAt]; exact nil_not_mem_ignoredItems items 0
  | map c es => rw [ignoredAt]; exact nil_not_mem_ignoredEntries es
  | ignored w => simp [Visit.isIgnored] at h

/-! ### every recorded key is the tree path of a consumed position -/

/-- what the recorder added: an entry is old, or sits at `current ++ q` for a position `q` of `ps` -/
def AddedFrom (ps : List (Path × α)) (r : Recorder α) (m : Map α) : Prop :=
  ∀ e ∈ m, e ∈ r.map ∨ ∃ q, e.1 = r.current ++ q ∧ (q, e.2) ∈ ps

/-- one element / one mapping value: entries present after the value itself was deserialized -/
theorem step_added (v : Visit α) (r : Recorder α) (s : Seg) (loc : α) (tail : List (Path × α))
    (hrec : AddedFrom (positions v) (r.enter s loc) (record v (r.enter s loc)).2.map) :
    ∀ e', e' ∈ (record v (r.enter s loc)).2.map →
      e' ∈ r.map ∨ ∃ q, e'.1 = r.current ++ q ∧
        (q, e'.2) ∈ (if v.isIgnored then [] else
          ([s], loc) :: (positions v).map (fun e => (s :: e.1, e.2))) ++ tail := by
  intro e' he'
  by_cases hv : v.isIgnored = true
  · have hne := ignored_removes hv (r.enter s loc) e' he'
    rcases hrec e' he' with h | ⟨q, _, h2⟩
    · rcases mem_insert h with h | h
      · exact Or.inl h
      · exact absurd (by simp [h]) hne
    · rw [positions_of_ignored hv] at h2
      simp at h2
  · have hv' : v.isIgnored = false := by simpa using hv
    simp only [hv', Bool.false_eq_true, if_false]
    rcases hrec e' he' with h | ⟨q, h1, h2⟩
    · rcases mem_insert h with h | h
      · exact Or.inl h
      · exact Or.inr ⟨[s], by simp [h], by simp [h]⟩
    · refine Or.inr ⟨s :: q, by simp [h1], ?_⟩
      apply List.mem_append_left
      apply List.mem_cons_of_mem
      exact List.mem_map.mpr ⟨(q, e'.2), h2, rfl⟩

mutual
theorem record_added : ∀ (v : Visit α) (r : Recorder α), AddedFrom (positions v) r (record v r).2.map
  | .leaf ok, r => by
    intro e he
    simp only [record] at he
    exact Or.inl he
  | .seq items, r => by
    rw [record, positions]
    exact recordItems_added items 0 r
  | .map c es, r => by
    rw [record, positions]
    intro e he
    rcases recordEntries_added es _ e he with h | ⟨q, h1, h2⟩
    · rcases mem_insert h with h | h
      · exact Or.inl h
      · exact Or.inr ⟨[], by simp [h], by simp [h]⟩
    · exact Or.inr ⟨q, h1, List.mem_cons_of_mem _ h2⟩
  | .ignored w, r => by
    intro e he
    simp only [record] at he
    exact Or.inl (mem_remove.mp he).1
theorem recordItems_added :
    ∀ (items : List (α × Visit α)) (idx : Nat) (r : Recorder α),
      AddedFrom (positionsItems items idx) r (recordItems items idx r).2.map
  | [], _, r => by
    intro e he
    simp only [recordItems] at he
    exact Or.inl he
  | (loc, v) :: rest, idx, r => by
    intro e he
    rw [recordItems] at he
    simp only at he
    rw [positionsItems]
    have step := step_added v r (idxSeg idx) loc (positionsItems rest (idx + 1)) (record_added v _)
    split at he
    · rcases recordItems_added rest (idx + 1) _ e he with h | ⟨q, h1, h2⟩
      · exact step e h
      · exact Or.inr ⟨q, h1, List.mem_append_right _ h2⟩
    · exact step e he
theorem recordEntries_added :
    ∀ (es : List (Option (List Char) × α × Visit α)) (r : Recorder α),
      AddedFrom (positionsEntries es) r (recordEntries es r).2.map
  | [], r => by
    intro e he
    simp only [recordEntries] at he
    exact Or.inl he
  | (none, _, v) :: rest, r => by
    intro e he
    rw [recordEntries] at he
    rw [positionsEntries]
    split at he
    · exact recordEntries_added rest r e he
    · exact Or.inl he
  | (some seg, loc, v) :: rest, r => by
    intro e he
    rw [recordEntries] at he
    simp only at he
    rw [positionsEntries]
    have step := step_added v r (keySeg seg) loc (positionsEntries rest) (record_added v _)
    split at he
    · rcases recordEntries_added rest _ e he with h | ⟨q, h1, h2⟩
      · exact step e h
      · exact Or.inr ⟨q, h1, List.mem_append_right _ h2⟩
    · exact step e he
end

/-! ### the recorder keeps the `HashMap` invariant -/

mutual
theorem record_keysNodup : ∀ (v : Visit α) (r : Recorder α), KeysNodup r.map → KeysNodup (record v r).2.map
  | .leaf ok, r => by intro h; simpa [record] using h
  | .seq items, r => by rw [record]; exact recordItems_keysNodup items 0 r
  | .map c es, r => by
    rw [record]
    intro h
    exact recordEntries_keysNodup es _ (insert_keysNodup h _ _)
  | .ignored w, r => by
    intro h
    simp only [record]
    exact remove_keysNodup h _
theorem recordItems_keysNodup : ∀ (items : List (α × Visit α)) (idx : Nat) (r : Recorder α),
    KeysNodup r.map → KeysNodup (recordItems items idx r).2.map
  | [], _, r => by intro h; simpa [recordItems] using h
  | (loc, v) :: rest, idx, r => by
    intro h
    rw [recordItems]
    simp only
    have h1 := record_keysNodup v (r.enter (idxSeg idx) loc) (insert_keysNodup h _ _)
    split
    · exact recordItems_keysNodup rest (idx + 1) _ h1
    · exact h1
theorem recordEntries_keysNodup : ∀ (es : List (Option (List Char) × α × Visit α)) (r : Recorder α),
    KeysNodup r.map → KeysNodup (recordEntries es r).2.map
  | [], r => by intro h; simpa [recordEntries] using h
  | (none, _, v) :: rest, r => by
    intro h
    rw [recordEntries]
    split
    · exact recordEntries_keysNodup rest r h
    · exact h
  | (some seg, loc, v) :: rest, r => by
    intro h
    rw [recordEntries]
    simp only
    have h1 := record_keysNodup v (r.enter (keySeg seg) loc) (insert_keysNodup h _ _)
    split
    · exact recordEntries_keysNodup rest _ h1
    · exact h1
end

/-! ### a key survives unless it is the path of an ignored value -/

mutual
theorem record_keeps : ∀ (v : Visit α) (r : Recorder α) (p : Path),
    p ∈ r.map.map (·.1) → (∀ q ∈ ignoredAt v, p ≠ r.current ++ q) → p ∈ (record v r).2.map.map (·.1)
  | .leaf ok, r, p => by intro h _; simpa [record] using h
  | .seq items, r, p => by rw [record, ignoredAt]; exact recordItems_keeps items 0 r p
  | .map c es, r, p => by
    rw [record, ignoredAt]
    intro h hq
    exact recordEntries_keeps es _ p (mem_keys_insert h) hq
  | .ignored w, r, p => by
    intro h hq
    simp only [record]
    exact mem_keys_remove.mpr ⟨h, by simpa [ignoredAt] using hq⟩
theorem recordItems_keeps : ∀ (items : List (α × Visit α)) (idx : Nat) (r : Recorder α) (p : Path),
    p ∈ r.map.map (·.1) → (∀ q ∈ ignoredItems items idx, p ≠ r.current ++ q) →
      p ∈ (recordItems items idx r).2.map.map (·.1)
  | [], _, r, p => by intro h _; simpa [recordItems] using h
  | (loc, v) :: rest, idx, r, p => by
    intro h hq
    rw [ignoredItems] at hq
    rw [recordItems]
    simp only
    have h1 := record_keeps v (r.enter (idxSeg idx) loc) p (mem_keys_insert h) (by
      intro q hq'
      have := hq (idxSeg idx :: q) (List.mem_append_left _ (List.mem_map.mpr ⟨q, hq', rfl⟩))
      simpa using this)
    split
    · exact recordItems_keeps rest (idx + 1) _ p h1 (fun q hq' => hq q (List.mem_append_right _ hq'))
    · exact h1
theorem recordEntries_keeps : ∀ (es : List (Option (List Char) × α × Visit α)) (r : Recorder α) (p : Path),
    p ∈ r.map.map (·.1) → (∀ q ∈ ignoredEntries es, p ≠ r.current ++ q) →
      p ∈ (recordEntries es r).2.map.map (·.1)
  | [], r, p => by intro h _; simpa [recordEntries] using h
  | (none, _, v) :: rest, r, p => by
    intro h hq
    rw [ignoredEntries] at hq
    rw [recordEntries]
    split
    · exact recordEntries_keeps rest r p h hq
    · exact h
  | (some seg, loc, v) :: rest, r, p => by
    intro h hq
    rw [ignoredEntries] at hq
    rw [recordEntries]
    simp only
    have h1 := record_keeps v (r.enter (keySeg seg) loc) p (mem_keys_insert h) (by
      intro q hq'
      have := hq (keySeg seg :: q) (List.mem_append_left _ (List.mem_map.mpr ⟨q, hq', rfl⟩))
      simpa using this)
    split
    · exact recordEntries_keeps rest _ p h1 (fun q hq' => hq q (List.mem_append_right _ hq'))
    · exact h1
end

/-! ### on success every consumed position has its key in the map -/

/-- one element / mapping value: the positions it contributes are present after its deserialization,
    provided none of them is the path of an ignored value below it -/
theorem step_complete (v : Visit α) (r : Recorder α) (s : Seg) (loc : α)
    (hrec : ∀ q ∈ (positions v).map (·.1), (r.enter s loc).current ++ q ∈ (record v (r.enter s loc)).2.map.map (·.1))
    (hkeep : ∀ p, p ∈ (r.enter s loc).map.map (·.1) → (∀ q ∈ ignoredAt v, p ≠ (r.enter s loc).current ++ q) →
      p ∈ (record v (r.enter s loc)).2.map.map (·.1))
    (hv : v.isIgnored = false) :
    ∀ q ∈ (([s], loc) :: (positions v).map (fun e => (s :: e.1, e.2))).map (·.1),
      r.current ++ q ∈ (record v (r.enter s loc)).2.map.map (·.1) := by
  intro q hq
  simp only [List.map_cons, List.map_map, List.mem_cons, List.mem_map, Function.comp] at hq
  rcases hq with rfl | ⟨e, he, rfl⟩
  · apply hkeep
    · exact self_mem_keys_insert _ _ _
    · intro q hq heq
      have : q = [] := by simpa using heq
      exact nil_not_mem_ignoredAt hv (this ▸ hq)
  · have := hrec e.1 (List.mem_map.mpr ⟨e, he, rfl⟩)
    simpa using this

mutual
theorem record_complete : ∀ (v : Visit α) (r : Recorder α), (record v r).1 = true →
    (∀ q ∈ (positions v).map (·.1), q ∉ ignoredAt v) →
    ∀ q ∈ (positions v).map (·.1), r.current ++ q ∈ (record v r).2.map.map (·.1)
  | .leaf ok, r => by intro _ _ q hq; simp [positions] at hq
  | .seq items, r => by rw [record, positions, ignoredAt]; exact recordItems_complete items 0 r
  | .map c es, r => by
    rw [record, positions, ignoredAt]
    intro hok hdis q hq
    simp only [List.map_cons, List.mem_cons] at hq
    rcases hq with rfl | hq
    · simp only [List.append_nil]
      apply recordEntries_keeps es _ _ (self_mem_keys_insert _ _ _)
      intro q hq heq
      have : q = [] := by simpa using heq
      exact nil_not_mem_ignoredEntries es (this ▸ hq)
    · exact recordEntries_complete es _ hok (fun q hq => hdis q (by simp [hq])) q hq
  | .ignored w, r => by intro _ _ q hq; simp [positions] at hq
theorem recordItems_complete : ∀ (items : List (α × Visit α)) (idx : Nat) (r : Recorder α),
    (recordItems items idx r).1 = true →
    (∀ q ∈ (positionsItems items idx).map (·.1), q ∉ ignoredItems items idx) →
    ∀ q ∈ (positionsItems items idx).map (·.1), r.current ++ q ∈ (recordItems items idx r).2.map.map (·.1)
  | [], _, r => by intro _ _ q hq; simp [positionsItems] at hq
  | (loc, v) :: rest, idx, r => by
    intro hok hdis q hq
    rw [recordItems] at hok ⊢
    simp only at hok ⊢
    rw [positionsItems] at hq hdis
    rw [ignoredItems] at hdis
    split at hok
    · rename_i hvok
      rw [if_pos hvok]
      rw [List.map_append, List.mem_append] at hq
      -- disjointness for the tail
      have hdis_rest : ∀ q ∈ (positionsItems rest (idx + 1)).map (·.1), q ∉ ignoredItems rest (idx + 1) :=
        fun q hq hi => hdis q (by rw [List.map_append]; exact List.mem_append_right _ hq) (List.mem_append_right _ hi)
      rcases hq with hq | hq
      · by_cases hv : v.isIgnored = true
        · simp [hv] at hq
        · have hv' : v.isIgnored = false := by simpa using hv
          simp only [hv', Bool.false_eq_true, if_false] at hq hdis
          have hhead : ∀ q ∈ (([idxSeg idx], loc) :: (positions v).map (fun e => (idxSeg idx :: e.1, e.2))).map (·.1),
              q ∉ (ignoredAt v).map (fun q => idxSeg idx :: q) ∧ q ∉ ignoredItems rest (idx + 1) := by
            intro q hq
            have := hdis q (by rw [List.map_append]; exact List.mem_append_left _ hq)
            simpa [List.mem_append, not_or] using this
          have hdis_v : ∀ q ∈ (positions v).map (·.1), q ∉ ignoredAt v := by
            intro q hq hi
            obtain ⟨e, he, rfl⟩ := List.mem_map.mp hq
            have := (hhead (idxSeg idx :: e.1) (by
              simp only [List.map_cons, List.map_map, List.mem_cons, List.mem_map, Function.comp]
              exact Or.inr ⟨e, he, rfl⟩)).1
            exact this (List.mem_map.mpr ⟨e.1, hi, rfl⟩)
          have hpres := step_complete v r (idxSeg idx) loc
            (record_complete v (r.enter (idxSeg idx) loc) hvok hdis_v)
            (fun p hp hq => record_keeps v (r.enter (idxSeg idx) loc) p hp hq) hv' q hq
          apply recordItems_keeps rest (idx + 1) ⟨r.current, (record v (r.enter (idxSeg idx) loc)).2.map⟩ _ hpres
          intro q' hq' heq
          have : q = q' := by simpa using heq
          exact (hhead q hq).2 (this ▸ hq')
      · have := recordItems_complete rest (idx + 1) _ hok hdis_rest q hq
        simpa using this
    · simp at hok
theorem recordEntries_complete : ∀ (es : List (Option (List Char) × α × Visit α)) (r : Recorder α),
    (recordEntries es r).1 = true →
    (∀ q ∈ (positionsEntries es).map (·.1), q ∉ ignoredEntries es) →
    ∀ q ∈ (positionsEntries es).map (·.1), r.current ++ q ∈ (recordEntries es r).2.map.map (·.1)
  | [], r => by intro _ _ q hq; simp [positionsEntries] at hq
  | (none, _, v) :: rest, r => by
    intro hok hdis q hq
    rw [recordEntries] at hok ⊢
    rw [positionsEntries] at hq hdis
    rw [ignoredEntries] at hdis
    split at hok
    · rename_i hv
      rw [if_pos hv]
      exact recordEntries_complete rest r hok hdis q hq
    · simp at hok
  | (some seg, loc, v) :: rest, r => by
    intro hok hdis q hq
    rw [recordEntries] at hok ⊢
    simp only at hok ⊢
    rw [positionsEntries] at hq hdis
    rw [ignoredEntries] at hdis
    split at hok
    · rename_i hvok
      rw [if_pos hvok]
      rw [List.map_append, List.mem_append] at hq
      have hdis_rest : ∀ q ∈ (positionsEntries rest).map (·.1), q ∉ ignoredEntries rest :=
        fun q hq hi => hdis q (by rw [List.map_append]; exact List.mem_append_right _ hq) (List.mem_append_right _ hi)
      rcases hq with hq | hq
      · by_cases hv : v.isIgnored = true
        · simp [hv] at hq
        · have hv' : v.isIgnored = false := by simpa using hv
          simp only [hv', Bool.false_eq_true, if_false] at hq hdis
          have hhead : ∀ q ∈ (([keySeg seg], loc) :: (positions v).map (fun e => (keySeg seg :: e.1, e.2))).map (·.1),
              q ∉ (ignoredAt v).map (fun q => keySeg seg :: q) ∧ q ∉ ignoredEntries rest := by
            intro q hq
            have := hdis q (by rw [List.map_append]; exact List.mem_append_left _ hq)
            simpa [List.mem_append, not_or] using this
          have hdis_v : ∀ q ∈ (positions v).map (·.1), q ∉ ignoredAt v := by
            intro q hq hi
            obtain ⟨e, he, rfl⟩ := List.mem_map.mp hq
            have := (hhead (keySeg seg :: e.1) (by
              simp only [List.map_cons, List.map_map, List.mem_cons, List.mem_map, Function.comp]
              exact Or.inr ⟨e, he, rfl⟩)).1
            exact this (List.mem_map.mpr ⟨e.1, hi, rfl⟩)
          have hpres := step_complete v r (keySeg seg) loc
            (record_complete v (r.enter (keySeg seg) loc) hvok hdis_v)
            (fun p hp hq => record_keeps v (r.enter (keySeg seg) loc) p hp hq) hv' q hq
          apply recordEntries_keeps rest ⟨r.current, (record v (r.enter (keySeg seg) loc)).2.map⟩ _ hpres
          intro q' hq' heq
          have : q = q' := by simpa using heq
          exact (hhead q hq).2 (this ▸ hq')
      · have := recordEntries_complete rest _ hok hdis_rest q hq
        simpa using this
    · simp at hok
end

end SaphyrVerif.PathMap
