import SaphyrVerif.Lemmas.C05_Weak2
/-!
Weak cursor invariant, part 3: `bytesLoop` and the key side of the map access (`nextKey`).
-/
namespace SaphyrVerif.Lemmas.C05
open SaphyrVerif SaphyrVerif.Scalars SaphyrVerif.Pump SaphyrVerif.De SaphyrVerif.Spec
set_option linter.unusedSimpArgs false
variable {cfg : Cfg} {buf : List Ev} {ref : Option Loc}

theorem bytesLoop_weak' (fuel : Nat) : ∀ {i : Nat} {acc : List Nat} {v : Val} {c' : Cur},
    bytesLoop fuel cfg (.replay buf i ref) acc = .ok v c' → Stays buf ref i 1 c' := by
  induction fuel with
  | zero => intro i acc v c' h; rw [bytesLoop] at h; contradiction
  | succ fuel ih =>
    intro i acc v c' h
    rw [bytesLoop] at h
    weak_ev
    all_goals try weak_leaf
    all_goals
      split at h
      · contradiction
      · rename_i hq
        exact (deserScalarTyped_weak hq).trans (fun j hj => by subst hj; exact ih h) (by omega)
      · contradiction

/-! ### `nextKey` -/

theorem enqueue_flushing (m : MA) : (enqueueNextMergeBatch m).2.flushingMerges = m.flushingMerges := by
  unfold enqueueNextMergeBatch
  rfl

/-- outcome of `nextKey` started at index `i` with `flushingMerges = fl` -/
def NKPost (buf : List Ev) (ref : Option Loc) (i : Nat) (fl : Bool) (step : KeyStep) (m' : MA) (c' : Cur) : Prop :=
  ∃ j, c' = .replay buf j ref ∧ i ≤ j ∧
    (fl = true → j = i ∧ (step = .done ∨ (m'.flushingMerges = true ∧ m'.pendingValue.isSome = true))) ∧
    (fl = false →
      (m'.flushingMerges = false ∧ Above buf i j (depthAt buf i)) ∨
      (Above buf i j (depthAt buf i - 1) ∧
        (step = .done ∨ (m'.flushingMerges = true ∧ m'.pendingValue.isSome = true))))

theorem NKPost.deliver_pending {i : Nat} {fl : Bool} {step : KeyStep} {m' : MA}
    (h1 : m'.flushingMerges = fl) (h2 : m'.pendingValue.isSome = true) :
    NKPost buf ref i fl step m' (.replay buf i ref) := by
  refine ⟨i, rfl, Nat.le_refl _, fun h => ⟨rfl, .inr ⟨h1.trans h, h2⟩⟩, fun h => .inl ⟨h1.trans h, ?_⟩⟩
  exact Above.refl (Int.le_refl _)

theorem NKPost.done_flushing {i : Nat} {m' : MA} :
    NKPost buf ref i true .done m' (.replay buf i ref) :=
  ⟨i, rfl, Nat.le_refl _, fun _ => ⟨rfl, .inl rfl⟩, fun h => (by cases h)⟩

theorem NKPost.live {i : Nat} {step : KeyStep} {m' : MA} (h1 : m'.flushingMerges = false) :
    NKPost buf ref i false step m' (.replay buf i ref) :=
  ⟨i, rfl, Nat.le_refl _, fun h => (by cases h), fun _ => .inl ⟨h1, Above.refl (Int.le_refl _)⟩⟩

theorem NKPost.after {i : Nat} {step : KeyStep} {m' : MA} {c₁ c' : Cur}
    (h1 : Stays buf ref i 0 c₁) (h2 : ∀ j, c₁ = .replay buf j ref → NKPost buf ref j false step m' c') :
    NKPost buf ref i false step m' c' := by
  obtain ⟨j, hc, hij, ha⟩ := h1
  obtain ⟨j', hc', hjj', -, hB⟩ := h2 j hc
  have hr := ha.right hij
  refine ⟨j', hc', by omega, fun h => (by cases h), fun _ => ?_⟩
  rcases hB rfl with ⟨hf, hab⟩ | ⟨hab, hs⟩
  · exact .inl ⟨hf, (ha.mono (by omega)).trans (hab.mono (by omega))⟩
  · exact .inr ⟨(ha.mono (by omega)).trans (hab.mono (by omega)), hs⟩

theorem NKPost.mapEnd_done {i : Nat} {l : Loc} {m' : MA} (hb : buf[i]? = some (.mapEnd l)) :
    NKPost buf ref i false .done m' (.replay buf (i + 1) ref) := by
  refine ⟨i + 1, rfl, by omega, fun h => (by cases h), fun _ => .inr ⟨?_, .inl rfl⟩⟩
  exact Above.step' hb (by omega) (by simp only [Ev.delta]; omega)

theorem NKPost.mapEnd_flush {i : Nat} {l : Loc} {step : KeyStep} {m' : MA} {c' : Cur}
    (hb : buf[i]? = some (.mapEnd l)) (h : NKPost buf ref (i + 1) true step m' c') :
    NKPost buf ref i false step m' c' := by
  obtain ⟨j, hc, hij, hA, -⟩ := h
  obtain ⟨rfl, hs⟩ := hA rfl
  refine ⟨i + 1, hc, by omega, fun h => (by cases h), fun _ => .inr ⟨?_, hs⟩⟩
  exact Above.step' hb (by omega) (by simp only [Ev.delta]; omega)

theorem nextKey_post (fuel : Nat) : ∀ {kseed : Ty ⊕ Unit} {i : Nat} {m m' : MA} {step : KeyStep} {c' : Cur},
    nextKey fuel cfg kseed (.replay buf i ref) m = .ok (step, m') c' →
    NKPost buf ref i m.flushingMerges step m' c' := by
  induction fuel with
  | zero => intro kseed i m m' step c' h; rw [nextKey] at h; contradiction
  | succ fuel ih =>
    intro kseed i m m' step c' h
    rw [nextKey] at h
    split at h
    · -- an entry is pending: the cursor is not touched
      dsimp only at h
      repeat' (first
        | contradiction
        | (have := ih h; exact this)
        | (cases h; exact NKPost.deliver_pending rfl rfl)
        | split at h)
    · split at h
      · -- flushing the merge stack
        rename_i hfl
        rw [hfl]
        have he := enqueue_flushing m
        split at h
        rename_i found m2 hq
        rw [hq] at he
        split at h
        · have := ih h
          rw [he, hfl] at this
          exact this
        · cases h; exact NKPost.done_flushing
      · rename_i hfl
        have hfl : m.flushingMerges = false := by simpa using hfl
        rw [hfl]
        weak_ev
        · contradiction
        case some.mapEnd =>
          split at h
          · cases h; exact NKPost.mapEnd_done hb
          · have he := enqueue_flushing { m with flushingMerges := true }
            split at h
            · have := ih h
              rw [he] at this
              exact NKPost.mapEnd_flush hb this
            · cases h; exact NKPost.mapEnd_done hb
        all_goals
          split at h
          · contradiction
          rename_i keyNode c₁ hq
          refine NKPost.after (capture_weak hq) (fun j hj => ?_)
          subst hj
          simp only [peek_replay] at h
          split at h
          · -- merge key
            split at h
            · contradiction
            rename_i entries c₂ hq2
            refine NKPost.after (pendingFromLive_weak hq2) (fun j hj => ?_)
            subst hj
            have := ih h
            have he : (if entries.isEmpty = true then m else { m with mergeStack := entries :: m.mergeStack }).flushingMerges = false := by
              split <;> exact hfl
            rw [he] at this
            exact this
          · repeat' (first
              | contradiction
              | (cases h; exact NKPost.live hfl)
              | split at h)
            all_goals
              rename_i hq2
              first
              | refine NKPost.after (skipOneNode_weak hq2) (fun j hj => ?_)
              | refine NKPost.after (capture_weak hq2) (fun j hj => ?_)
            all_goals
              subst hj
              have := ih h
              simp only [hfl] at this
              exact this

end SaphyrVerif.Lemmas.C05
