import SaphyrVerif.Spec.Robotics
import SaphyrVerif.Lemmas.C19Total
/-!
Soundness of the evaluator model against the AST grammar of `Spec/Robotics.lean`: whenever a parser
function succeeds, the bytes it consumed are the rendering of a syntax tree of the corresponding
grammar level whose reference evaluation is the returned `(value, used_unit, saw_plain)`.
-/
set_option linter.unusedSimpArgs false
namespace SaphyrVerif.Lemmas.C19
open SaphyrVerif SaphyrVerif.F64 SaphyrVerif.Robotics SaphyrVerif.Spec.Robotics

theorem skipWsL_spec (pre rest : List Nat) :
    ∃ ws, rest = ws ++ (skipWsL pre rest).2 ∧ IsWs ws := by
  induction rest generalizing pre with
  | nil => exact ⟨[], rfl, by intro c hc; cases hc⟩
  | cons c r ih =>
    unfold skipWsL
    split
    · rename_i hc
      obtain ⟨ws, h1, h2⟩ := ih (c :: pre)
      refine ⟨c :: ws, by rw [List.cons_append, ← h1], ?_⟩
      intro x hx
      cases hx with
      | head => exact hc
      | tail _ h => exact h2 x h
    · exact ⟨[], rfl, by intro c hc; cases hc⟩

theorem skipWs_spec (st : St) : ∃ ws, st.rest = ws ++ st.skipWs.rest ∧ IsWs ws := skipWsL_spec _ _

theorem IsWs.append {a b : List Nat} (ha : IsWs a) (hb : IsWs b) : IsWs (a ++ b) := by
  intro c hc
  rcases List.mem_append.mp hc with h | h
  · exact ha c h
  · exact hb c h

theorem signLoop_spec (pre rest : List Nat) (s : Fl) :
    ∃ signs : List Bool, rest = signs.map (fun b => if b then 45 else 43) ++ (signLoop pre rest s).2.1 ∧
      (signLoop pre rest s).2.2 = signs.foldl (fun s b => if b then neg s else s) s := by
  induction rest generalizing pre s with
  | nil => exact ⟨[], rfl, rfl⟩
  | cons c r ih =>
    unfold signLoop
    split
    · rename_i hc
      obtain ⟨signs, h1, h2⟩ := ih (c :: pre) s
      refine ⟨false :: signs, ?_, by simpa using h2⟩
      have : c = 43 := by simpa using hc
      subst this
      simp only [List.map_cons, Bool.false_eq_true, ↓reduceIte, List.cons_append]
      rw [← h1]
    · split
      · rename_i hc
        obtain ⟨signs, h1, h2⟩ := ih (c :: pre) (neg s)
        refine ⟨true :: signs, ?_, by simpa using h2⟩
        have : c = 45 := by simpa using hc
        subst this
        simp only [List.map_cons, ↓reduceIte, List.cons_append]
        rw [← h1]
      · exact ⟨[], rfl, rfl⟩

theorem identLoop_spec (pre rest acc : List Nat) :
    ∃ tok, rest = tok ++ (identLoop pre rest acc).2.1 ∧ (identLoop pre rest acc).2.2 = tok.reverse ++ acc := by
  induction rest generalizing pre acc with
  | nil => exact ⟨[], rfl, rfl⟩
  | cons c r ih =>
    unfold identLoop
    split
    · obtain ⟨tok, h1, h2⟩ := ih (c :: pre) (c :: acc)
      refine ⟨c :: tok, by rw [List.cons_append, ← h1], ?_⟩
      rw [h2]; simp
    · exact ⟨[], rfl, rfl⟩

/-! ## soundness predicates -/

/-- facts every successful step preserves -/
def Keeps (st st' : St) : Prop := st'.depth = st.depth ∧ st'.sexTime = st.sexTime

def SoundP (tag : Nat) (ws : List Nat) (st : St) (r : Res (Eval × St)) : Prop :=
  ∀ ev st', r = .ok (ev, st') → Keeps st st' ∧
    ∃ p : Primary, ws ++ st.rest = p.render ++ st'.rest ∧ p.eval = ev ∧ p.lexOk tag st.sexTime st'.rest ∧
      p.nest + st.depth ≤ MAX_EXPR_DEPTH

def SoundU (tag : Nat) (st : St) (r : Res (Eval × St)) : Prop :=
  ∀ ev st', r = .ok (ev, st') → Keeps st st' ∧
    ∃ u : Unary, st.rest = u.render ++ st'.rest ∧ u.eval = ev ∧ u.lexOk tag st.sexTime st'.rest ∧
      u.nest + st.depth ≤ MAX_EXPR_DEPTH

/-- `term` / `expr` also swallow the white space in front of the byte that stops their loop: `wsT`. -/
def SoundT (tag : Nat) (st : St) (r : Res (Eval × St)) : Prop :=
  ∀ ev st', r = .ok (ev, st') → Keeps st st' ∧
    ∃ (t : Term) (wsT : List Nat), IsWs wsT ∧ st.rest = t.render ++ (wsT ++ st'.rest) ∧ t.eval = ev ∧
      t.lexOk tag st.sexTime (wsT ++ st'.rest) ∧ t.nest + st.depth ≤ MAX_EXPR_DEPTH

def SoundE (tag : Nat) (st : St) (r : Res (Eval × St)) : Prop :=
  ∀ ev st', r = .ok (ev, st') → Keeps st st' ∧
    ∃ (e : Expr) (wsT : List Nat), IsWs wsT ∧ st.rest = e.render ++ (wsT ++ st'.rest) ∧ e.eval = ev ∧
      e.lexOk tag st.sexTime (wsT ++ st'.rest) ∧ e.nest + st.depth ≤ MAX_EXPR_DEPTH

/-- the recursive call is sound one level deeper -/
def ESound (tag : Nat) (E : St → Res (Eval × St)) (D : Nat) : Prop :=
  D < MAX_EXPR_DEPTH → ∀ st1 : St, st1.depth = D + 1 → SoundE tag st1 (E st1)

theorem bind_ok {α β} {r : Res α} {g : α → Res β} {b : β} (h : r.bind g = .ok b) :
    ∃ a, r = .ok a ∧ g a = .ok b := by
  cases r with
  | ok a => exact ⟨a, rfl, h⟩
  | err e d => cases h
  | panic s => cases h
  | fuel => cases h

theorem enter_ok {st st1 : St} (h : St.enter st = .ok st1) :
    st1 = { st with depth := st.depth + 1 } ∧ st.depth < MAX_EXPR_DEPTH := by
  unfold St.enter at h
  split at h
  · cases h
  · split at h
    · cases h
    · rename_i h1 _
      cases h
      exact ⟨rfl, by omega⟩

theorem exitAfter_ok {r : Res (Eval × St)} {ev : Eval} {st' : St} (h : exitAfter r = .ok (ev, st')) :
    ∃ st2, r = .ok (ev, st2) ∧ st2.depth ≠ 0 ∧ st' = { st2 with depth := st2.depth - 1 } := by
  cases r with
  | ok a =>
    obtain ⟨ev2, st2⟩ := a
    simp only [exitAfter, St.exit] at h
    split at h
    · cases h
    · rename_i hd
      simp only [Res.bind] at h
      cases h
      exact ⟨st2, rfl, by simpa using hd, rfl⟩
  | err e d => simp only [exitAfter] at h; split at h <;> cases h
  | panic s => cases h
  | fuel => cases h

theorem parseNumberOrSpecial_sound (tag : Nat) (ws : List Nat) (hws : IsWs ws) (st : St)
    (hd : st.depth ≤ MAX_EXPR_DEPTH)
    (hc : ∃ c r, st.rest = c :: r ∧ (isDigit c = true ∨ c = 46)) :
    SoundP tag ws st (parseNumberOrSpecial tag st) := by
  intro ev st' h
  have hg := parseNumberOrSpecial_good (ap := true) tag st hc
  rw [h] at hg
  obtain ⟨⟨tok, htok⟩, hdep, hsex⟩ := hg
  refine ⟨⟨hdep, hsex⟩, Primary.atom ws tok ev, ?_, rfl, ?_, ?_⟩
  · simp [Primary.render, htok]
  · refine ⟨hws, ?_, st.pre, st.depth, st'.pre, ?_⟩
    · rw [← htok]; exact hc
    · rw [← htok]
      have e1 : (⟨st.pre, st.rest, st.depth, st.sexTime⟩ : St) = st := rfl
      have e2 : (⟨st'.pre, st'.rest, st.depth, st.sexTime⟩ : St) = st' := by
        cases st'; simp_all
      rw [e1, e2]; exact h
  · simpa [Primary.nest] using hd

theorem parseIdentOrSpecial_sound (tag : Nat) (E : St → Res (Eval × St)) (ws : List Nat) (hws : IsWs ws) (st : St)
    (hd : st.depth ≤ MAX_EXPR_DEPTH) (hE : ESound tag E st.depth) :
    SoundP tag ws st (parseIdentOrSpecial E st) := by
  intro ev st' h
  unfold parseIdentOrSpecial at h
  simp only [] at h
  obtain ⟨tok, htok, hacc⟩ := identLoop_spec st.pre st.rest []
  rw [hacc] at h
  simp only [List.append_nil, List.reverse_reverse] at h
  split at h
  · cases h
  have constCase : ∀ (c : Const), tok.map lowerByte = c.name →
      ev = (c.value, false, true) →
      st' = { st with pre := (identLoop st.pre st.rest []).1, rest := (identLoop st.pre st.rest []).2.1 } →
      Keeps st st' ∧ ∃ p : Primary, ws ++ st.rest = p.render ++ st'.rest ∧ p.eval = ev ∧
        p.lexOk tag st.sexTime st'.rest ∧ p.nest + st.depth ≤ MAX_EXPR_DEPTH := by
    intro c hname hev hst
    subst hev hst
    refine ⟨⟨rfl, rfl⟩, Primary.const ws tok c, ?_, rfl, ⟨hws, hname⟩, by simpa [Primary.nest] using hd⟩
    simp only [Primary.render, List.append_assoc]
    rw [← htok]
  split at h
  · rename_i hid
    cases h
    have hid' : tok.map lowerByte = [112, 105] := by simpa using hid
    exact constCase .pi hid' rfl rfl
  split at h
  · rename_i hid
    cases h
    have hid' : tok.map lowerByte = [116, 97, 117] := by simpa using hid
    exact constCase .tau hid' rfl rfl
  split at h
  · rename_i hid
    cases h
    have hid' : tok.map lowerByte = [105, 110, 102] := by simpa using hid
    exact constCase .inf hid' rfl rfl
  split at h
  · rename_i hid
    cases h
    have hid' : tok.map lowerByte = [110, 97, 110] := by simpa using hid
    exact constCase .nan hid' rfl rfl
  split at h
  · rename_i hfn
    -- deg( / rad(
    generalize hst1 : ({ st with pre := (identLoop st.pre st.rest []).1, rest := (identLoop st.pre st.rest []).2.1 } : St) = st1 at h
    have h1r : st1.rest = (identLoop st.pre st.rest []).2.1 := by rw [← hst1]
    have h1d : st1.depth = st.depth := by rw [← hst1]
    have h1t : st1.sexTime = st.sexTime := by rw [← hst1]
    obtain ⟨ws1, hws1, hws1'⟩ := skipWs_spec st1
    split at h
    · rename_i r heq
      obtain ⟨st4, hent, h⟩ := bind_ok h
      obtain ⟨he4, hlt⟩ := enter_ok hent
      obtain ⟨⟨⟨v, u1, u2⟩, st5⟩, hex, h⟩ := bind_ok h
      obtain ⟨st5', hE5, hne, hst5⟩ := exitAfter_ok hex
      have h4d : st4.depth = st.depth + 1 := by rw [he4]; simp [St.adv, h1d]
      obtain ⟨⟨k1, k2⟩, e, wsT, hwsT, her, hev, hlex, hnest⟩ := hE (by simpa [St.adv, h1d] using hlt) st4 h4d _ _ hE5
      have h4r : st4.rest = r := by rw [he4]; rfl
      have h4t : st4.sexTime = false := by rw [he4]
      simp only [] at h
      generalize hst6 : ({ st5 with sexTime := (st1.skipWs.adv 40 r).sexTime } : St).skipWs = st6 at h
      obtain ⟨ws', hws', hws''⟩ := skipWs_spec ({ st5 with sexTime := (st1.skipWs.adv 40 r).sexTime } : St)
      rw [hst6] at hws'
      simp only [] at hws'
      have h5r : st5.rest = st5'.rest := by rw [hst5]
      have h6d : st6.depth = st.depth := by
        rw [← hst6, skipWs_depth, hst5]; simp only []; omega
      have h6t : st6.sexTime = st.sexTime := by rw [← hst6]; simp [St.adv, h1t]
      split at h
      · rename_i r' heq'
        have hfin : st'.rest = r' ∧ st'.depth = st.depth ∧ st'.sexTime = st.sexTime ∧
            ev = (if (tok.map lowerByte == [100, 101, 103]) = true then mul F v DEG2RAD else v, true, false) := by
          split at h <;> (cases h; simp [St.adv, *])
        obtain ⟨hr', hd', ht', hev'⟩ := hfin
        refine ⟨⟨hd', ht'⟩, Primary.fn ws (tok.map lowerByte == [100, 101, 103]) tok ws1 e (wsT ++ ws'), ?_, ?_, ?_, ?_⟩
        · simp only [Primary.render, List.append_assoc]
          rw [htok, ← h1r, hws1, heq, ← h4r, her, ← h5r, hws', heq', hr']
          simp
        · rw [hev']
          simp only [Primary.eval, hev]
        · refine ⟨hws, hws1', IsWs.append hwsT hws'', ?_, ?_⟩
          · have : (tok.map lowerByte == [100, 101, 103] || tok.map lowerByte == [114, 97, 100]) = true := hfn
            by_cases hdg : (tok.map lowerByte == [100, 101, 103]) = true
            · simp [hdg]; simpa using hdg
            · simp only [hdg, Bool.false_or] at this
              simp [hdg]; simpa using this
          · rw [h4t] at hlex
            rw [← h5r, hws', heq', ← hr'] at hlex
            simpa using hlex
        · simp only [Primary.nest]
          omega
      · cases h
      · cases h
    · cases h
    · cases h
  · cases h


theorem primary_sound (tag : Nat) (E : St → Res (Eval × St)) (st0 : St)
    (hd : st0.depth ≤ MAX_EXPR_DEPTH) (hE : ESound tag E st0.depth) :
    SoundP tag [] st0 (primary tag E st0) := by
  intro ev st' h
  unfold primary at h
  simp only [] at h
  obtain ⟨ws, hws, hws'⟩ := skipWs_spec st0
  generalize hst : st0.skipWs = st at h hws
  have hsd : st.depth = st0.depth := by rw [← hst]; rfl
  have hss : st.sexTime = st0.sexTime := by rw [← hst]; rfl
  simp only [List.nil_append]
  split at h
  · cases h
  · rename_i c r heq
    split at h
    · -- '('
      rename_i hc
      have hc' : c = 40 := by simpa using hc
      subst hc'
      obtain ⟨st1, hent, h⟩ := bind_ok h
      obtain ⟨he1, hlt⟩ := enter_ok hent
      obtain ⟨⟨ev2, st2⟩, hex, h⟩ := bind_ok h
      obtain ⟨st2', hE2, hne, hst2⟩ := exitAfter_ok hex
      have hlt' : st0.depth < MAX_EXPR_DEPTH := by simpa [St.adv, hsd] using hlt
      have h1d : st1.depth = st0.depth + 1 := by rw [he1]; simp [St.adv, hsd]
      obtain ⟨⟨k1, k2⟩, e, wsT, hwsT, her, hev, hlex, hnest⟩ := hE hlt' st1 h1d _ _ hE2
      have h1r : st1.rest = r := by rw [he1]; rfl
      have h1t : st1.sexTime = st0.sexTime := by rw [he1]; simp [St.adv, hss]
      simp only [] at h
      obtain ⟨ws2, hws2, hws2'⟩ := skipWs_spec st2
      have h2r : st2.rest = st2'.rest := by rw [hst2]
      have h2d : st2.depth = st0.depth := by
        have : st2.depth = st2'.depth - 1 := by rw [hst2]
        omega
      have h2t : st2.sexTime = st0.sexTime := by
        have : st2.sexTime = st2'.sexTime := by rw [hst2]
        rw [this, k2, h1t]
      split at h
      · rename_i r' heq'
        cases h
        simp only [St.adv]
        refine ⟨⟨by simpa using h2d, by simpa using h2t⟩, Primary.paren ws e (wsT ++ ws2), ?_, hev, ?_, ?_⟩
        · simp only [Primary.render, List.append_assoc]
          rw [hws, heq, ← h1r, her, ← h2r, hws2, heq']
          simp
        · refine ⟨hws', IsWs.append hwsT hws2', ?_⟩
          rw [h1t] at hlex
          rw [← h2r, hws2, heq'] at hlex
          simpa using hlex
        · simp only [Primary.nest]; omega
      · cases h
      · cases h
    · split at h
      · rename_i hc
        have := parseNumberOrSpecial_sound tag ws hws' st (by omega)
          ⟨c, r, heq, by simpa [Bool.or_eq_true] using hc⟩ ev st' h
        unfold Keeps at this ⊢
        rw [hsd, hss] at this
        rw [hws]
        exact this
      · split at h
        · have := parseIdentOrSpecial_sound tag E ws hws' st (by omega) (by rw [hsd]; exact hE) ev st' h
          unfold Keeps at this ⊢
          rw [hsd, hss] at this
          rw [hws]
          exact this
        · cases h

theorem unary_sound (tag : Nat) (E : St → Res (Eval × St)) (st0 : St)
    (hd : st0.depth ≤ MAX_EXPR_DEPTH) (hE : ESound tag E st0.depth) :
    SoundU tag st0 (unary tag E st0) := by
  intro ev st' h
  unfold unary at h
  simp only [] at h
  obtain ⟨ws, hws, hws'⟩ := skipWs_spec st0
  obtain ⟨signs, hsg, hsv⟩ := signLoop_spec st0.skipWs.pre st0.skipWs.rest ONE
  generalize hsl : signLoop st0.skipWs.pre st0.skipWs.rest ONE = sl at h hsg hsv
  generalize hst : (St.mk sl.1 sl.2.1 st0.skipWs.depth st0.skipWs.sexTime) = st at h
  have hsd : st.depth = st0.depth := by rw [← hst]; rfl
  have hss : st.sexTime = st0.sexTime := by rw [← hst]; rfl
  have hsr : st.rest = sl.2.1 := by rw [← hst]
  obtain ⟨⟨⟨v, uu, sp⟩, st1⟩, hp, h⟩ := bind_ok h
  cases h
  obtain ⟨⟨k1, k2⟩, p, hpr, hpe, hpl, hpn⟩ := primary_sound tag E st (by omega) (by rw [hsd]; exact hE) _ _ hp
  simp only [List.nil_append] at hpr
  have k1' : st1.depth = st0.depth := by omega
  refine ⟨⟨k1', by rw [k2, hss]⟩, Unary.mk ws signs p, ?_, ?_, ?_, ?_⟩
  · simp only [Unary.render, List.append_assoc]
    rw [hws, hsg, ← hsr, hpr]
  · simp only [Unary.eval, hpe, signValue, hsv]
  · rw [hss] at hpl
    exact ⟨hws', hpl⟩
  · simp only [Unary.nest]; omega

theorem termLoop_sound (tag : Nat) (E : St → Res (Eval × St)) (k : Nat) (l : Term) (st0 : St) (orig : List Nat) (D : Nat) (tm : Bool)
    (hd : st0.depth = D) (hD : D ≤ MAX_EXPR_DEPTH) (htm : st0.sexTime = tm) (hE : ESound tag E D)
    (hl : orig = l.render ++ st0.rest) (hlex : l.lexOk tag tm st0.rest) (hn : l.nest + D ≤ MAX_EXPR_DEPTH)
    (ev : Eval) (st' : St) (h : termLoop tag E k l.eval st0 = .ok (ev, st')) :
    (st'.depth = D ∧ st'.sexTime = tm) ∧ ∃ (t : Term) (wsT : List Nat), IsWs wsT ∧ orig = t.render ++ (wsT ++ st'.rest) ∧
      t.eval = ev ∧ t.lexOk tag tm (wsT ++ st'.rest) ∧ t.nest + D ≤ MAX_EXPR_DEPTH := by
  induction k generalizing l st0 with
  | zero =>
    unfold termLoop at h
    cases h
  | succ k ih =>
    generalize hle : l.eval = le at h
    obtain ⟨v, uu, sp⟩ := le
    unfold termLoop at h
    simp only [] at h
    obtain ⟨ws, hws, hws'⟩ := skipWs_spec st0
    generalize hst : st0.skipWs = st at h hws
    have hsd : st.depth = D := by rw [← hst]; exact hd
    have hss : st.sexTime = tm := by rw [← hst]; exact htm
    have stop : st' = st → ev = (v, uu, sp) →
        (st'.depth = D ∧ st'.sexTime = tm) ∧ ∃ (t : Term) (wsT : List Nat), IsWs wsT ∧ orig = t.render ++ (wsT ++ st'.rest) ∧
          t.eval = ev ∧ t.lexOk tag tm (wsT ++ st'.rest) ∧ t.nest + D ≤ MAX_EXPR_DEPTH := by
      intro hst' hev
      subst hst' hev
      refine ⟨⟨hsd, hss⟩, l, ws, hws', ?_, hle, ?_, hn⟩
      · rw [hl, hws]
      · rw [← hws]; exact hlex
    have step : ∀ (c : Nat) (r : List Nat) (isMul : Bool), st.rest = c :: r → c = (if isMul then 42 else 47) →
        ((unary tag E (st.adv c r)).bind fun x =>
          termLoop tag E k ((if isMul then F64.mul F v x.1.1 else F64.div F v x.1.1), uu || x.1.2.1, sp || x.1.2.2) x.2) = .ok (ev, st') →
        (st'.depth = D ∧ st'.sexTime = tm) ∧ ∃ (t : Term) (wsT : List Nat), IsWs wsT ∧ orig = t.render ++ (wsT ++ st'.rest) ∧
          t.eval = ev ∧ t.lexOk tag tm (wsT ++ st'.rest) ∧ t.nest + D ≤ MAX_EXPR_DEPTH := by
      intro c r isMul heq hc h
      obtain ⟨⟨⟨rhs, u2, s2⟩, st1⟩, hu, h⟩ := bind_ok h
      obtain ⟨⟨k1, k2⟩, u, hur, hue, hul, hun⟩ := unary_sound tag E (st.adv c r) (by simp [St.adv]; omega)
        (by simpa [St.adv, hsd] using hE) _ _ hu
      simp only [St.adv] at k1 k2 hur hul hun
      simp only [] at h
      have hle' : (if isMul then Term.mul l ws u else Term.div l ws u).eval =
          ((if isMul then F64.mul F v rhs else F64.div F v rhs), uu || u2, sp || s2) := by
        cases isMul <;> simp [Term.eval, orFlags, hle, hue]
      rw [← hle'] at h
      refine ih (if isMul then Term.mul l ws u else Term.div l ws u) st1 (by omega) (by rw [k2, hss]) ?_ ?_ ?_ h
      · rw [hl, hws, heq, hur, hc]
        cases isMul <;> simp [Term.render]
      · rw [hss] at hul
        rw [hws, heq, hur, hc] at hlex
        cases isMul
        · exact ⟨by simpa using hlex, hws', hul⟩
        · exact ⟨by simpa using hlex, hws', hul⟩
      · cases isMul <;> (simp only [Bool.false_eq_true, ↓reduceIte, Term.nest]; omega)
    split at h
    · cases h; exact stop rfl rfl
    · rename_i c r heq
      split at h
      · rename_i hc
        exact step c r true heq (by simpa using hc) h
      · split at h
        · rename_i hc
          exact step c r false heq (by simpa using hc) h
        · cases h; exact stop rfl rfl

theorem term_sound (tag : Nat) (lf : Nat) (E : St → Res (Eval × St)) (st0 : St)
    (hd : st0.depth ≤ MAX_EXPR_DEPTH) (hE : ESound tag E st0.depth) :
    SoundT tag st0 (term tag lf E st0) := by
  intro ev st' h
  unfold term at h
  obtain ⟨⟨ev1, st1⟩, hu, h⟩ := bind_ok h
  obtain ⟨⟨k1, k2⟩, u, hur, hue, hul, hun⟩ := unary_sound tag E st0 hd hE _ _ hu
  simp only [] at h
  rw [← hue] at h
  have := termLoop_sound tag E lf (Term.un u) st1 st0.rest st0.depth st0.sexTime k1 hd k2 hE
    (by simpa [Term.render] using hur) hul (by simpa [Term.nest] using hun) ev st' (by simpa [Term.eval] using h)
  exact this

theorem exprLoop_sound (tag : Nat) (lf : Nat) (E : St → Res (Eval × St)) (k : Nat) (l : Expr) (wsL : List Nat) (st0 : St)
    (orig : List Nat) (D : Nat) (tm : Bool)
    (hd : st0.depth = D) (hD : D ≤ MAX_EXPR_DEPTH) (htm : st0.sexTime = tm) (hE : ESound tag E D)
    (hwsL : IsWs wsL) (hl : orig = l.render ++ (wsL ++ st0.rest)) (hlex : l.lexOk tag tm (wsL ++ st0.rest))
    (hn : l.nest + D ≤ MAX_EXPR_DEPTH)
    (ev : Eval) (st' : St) (h : exprLoop tag lf E k l.eval st0 = .ok (ev, st')) :
    (st'.depth = D ∧ st'.sexTime = tm) ∧ ∃ (e : Expr) (wsT : List Nat), IsWs wsT ∧ orig = e.render ++ (wsT ++ st'.rest) ∧
      e.eval = ev ∧ e.lexOk tag tm (wsT ++ st'.rest) ∧ e.nest + D ≤ MAX_EXPR_DEPTH := by
  induction k generalizing l wsL st0 with
  | zero =>
    unfold exprLoop at h
    cases h
  | succ k ih =>
    generalize hle : l.eval = le at h
    obtain ⟨v, uu, sp⟩ := le
    unfold exprLoop at h
    simp only [] at h
    obtain ⟨ws, hws, hws'⟩ := skipWs_spec st0
    generalize hst : st0.skipWs = st at h hws
    have hsd : st.depth = D := by rw [← hst]; exact hd
    have hss : st.sexTime = tm := by rw [← hst]; exact htm
    have stop : st' = st → ev = (v, uu, sp) →
        (st'.depth = D ∧ st'.sexTime = tm) ∧ ∃ (e : Expr) (wsT : List Nat), IsWs wsT ∧ orig = e.render ++ (wsT ++ st'.rest) ∧
          e.eval = ev ∧ e.lexOk tag tm (wsT ++ st'.rest) ∧ e.nest + D ≤ MAX_EXPR_DEPTH := by
      intro hst' hev
      subst hst' hev
      refine ⟨⟨hsd, hss⟩, l, wsL ++ ws, IsWs.append hwsL hws', ?_, hle, ?_, hn⟩
      · rw [hl, hws]; simp
      · rw [hws] at hlex; simpa using hlex
    have step : ∀ (c : Nat) (r : List Nat) (isAdd : Bool), st.rest = c :: r → c = (if isAdd then 43 else 45) →
        ((term tag lf E (st.adv c r)).bind fun x =>
          exprLoop tag lf E k ((if isAdd then F64.add F v x.1.1 else F64.sub F v x.1.1), uu || x.1.2.1, sp || x.1.2.2) x.2) = .ok (ev, st') →
        (st'.depth = D ∧ st'.sexTime = tm) ∧ ∃ (e : Expr) (wsT : List Nat), IsWs wsT ∧ orig = e.render ++ (wsT ++ st'.rest) ∧
          e.eval = ev ∧ e.lexOk tag tm (wsT ++ st'.rest) ∧ e.nest + D ≤ MAX_EXPR_DEPTH := by
      intro c r isAdd heq hc h
      obtain ⟨⟨⟨rhs, u2, s2⟩, st1⟩, hu, h⟩ := bind_ok h
      obtain ⟨⟨k1, k2⟩, t, wsT, hwsT, htr, hte, htl, htn⟩ := term_sound tag lf E (st.adv c r) (by simp [St.adv]; omega)
        (by simpa [St.adv, hsd] using hE) _ _ hu
      simp only [St.adv] at k1 k2 htr htl htn
      simp only [] at h
      have hle' : (if isAdd then Expr.add l (wsL ++ ws) t else Expr.sub l (wsL ++ ws) t).eval =
          ((if isAdd then F64.add F v rhs else F64.sub F v rhs), uu || u2, sp || s2) := by
        cases isAdd <;> simp [Expr.eval, orFlags, hle, hte]
      rw [← hle'] at h
      refine ih (if isAdd then Expr.add l (wsL ++ ws) t else Expr.sub l (wsL ++ ws) t) wsT st1 (by omega) (by rw [k2, hss])
        hwsT ?_ ?_ ?_ h
      · rw [hl, hws, heq, htr, hc]
        cases isAdd <;> simp [Expr.render]
      · rw [hss] at htl
        rw [hws, heq, htr, hc] at hlex
        cases isAdd
        · exact ⟨by simpa using hlex, IsWs.append hwsL hws', htl⟩
        · exact ⟨by simpa using hlex, IsWs.append hwsL hws', htl⟩
      · cases isAdd <;> (simp only [Bool.false_eq_true, ↓reduceIte, Expr.nest]; omega)
    split at h
    · cases h; exact stop rfl rfl
    · rename_i c r heq
      split at h
      · rename_i hc
        exact step c r true heq (by simpa using hc) h
      · split at h
        · rename_i hc
          exact step c r false heq (by simpa using hc) h
        · cases h; exact stop rfl rfl

theorem expr_sound (tag lf : Nat) (n : Nat) (st : St) (hd : st.depth ≤ MAX_EXPR_DEPTH) :
    SoundE tag st (expr tag lf n st) := by
  induction n generalizing st with
  | zero => intro ev st' h; cases h
  | succ n ih =>
    intro ev st' h
    unfold expr at h
    have hE : ESound tag (expr tag lf n) st.depth := by
      intro hlt st1 hd1
      exact ih st1 (by omega)
    obtain ⟨⟨ev1, st1⟩, ht, h⟩ := bind_ok h
    obtain ⟨⟨k1, k2⟩, t, wsT, hwsT, htr, hte, htl, htn⟩ := term_sound tag lf (expr tag lf n) st hd hE _ _ ht
    simp only [] at h
    rw [← hte] at h
    have := exprLoop_sound tag lf (expr tag lf n) lf (Expr.term t) wsT st1 st.rest st.depth st.sexTime k1 hd k2 hE hwsT
      (by simpa [Expr.render] using htr) (by simpa [Expr.lexOk] using htl) (by simpa [Expr.nest] using htn) ev st'
      (by simpa [Expr.eval] using h)
    exact this


theorem neg_neg (x : Fl) : neg (neg x) = x := by
  cases x <;> simp [neg]

theorem signFold (signs : List Bool) (s : Fl) :
    signs.foldl (fun s b => if b then neg s else s) s =
      if (signs.count true) % 2 = 1 then neg s else s := by
  induction signs generalizing s with
  | nil => simp
  | cons b r ih =>
    simp only [List.foldl_cons]
    rw [ih]
    cases b
    · simp
    · simp only [↓reduceIte, List.count_cons_self, neg_neg]
      by_cases h : List.count true r % 2 = 1
      · have : ¬ (List.count true r + 1) % 2 = 1 := by omega
        simp [h, this]
      · have : (List.count true r + 1) % 2 = 1 := by omega
        simp [h, this]

/-- The scalar `s` is the rendering of tree `e` between white space, lexically well-formed in time mode,
nested no deeper than the guard allows. -/
def Parses (tag : Nat) (s : List Nat) (e : Expr) : Prop :=
  ∃ wsL wsR : List Nat, s = wsL ++ (e.render ++ wsR) ∧ IsWs wsL ∧ IsWs wsR ∧ e.lexOk tag true wsR ∧
    e.nest ≤ MAX_EXPR_DEPTH

theorem evalExpr_sound (tag : Nat) (s : List Nat) (v : Fl) (h : evalExpr tag s = .ok v) :
    ∃ e : Expr, Parses tag s e ∧ topValue tag e.eval = some v := by
  unfold evalExpr at h
  simp only [] at h
  obtain ⟨wsL, hwsL, hwsL'⟩ := skipWs_spec { pre := [], rest := s, depth := 0, sexTime := true }
  generalize hst0 : (St.skipWs { pre := [], rest := s, depth := 0, sexTime := true }) = st0 at h hwsL
  have h0d : st0.depth = 0 := by rw [← hst0]; rfl
  have h0t : st0.sexTime = true := by rw [← hst0]; rfl
  obtain ⟨⟨⟨v1, used, plain⟩, st1⟩, hex, h⟩ := bind_ok h
  obtain ⟨⟨k1, k2⟩, e, wsT, hwsT, her, hev, hlex, hnest⟩ :=
    expr_sound tag (s.length + 1) (MAX_EXPR_DEPTH + 1) st0 (by omega) _ _ hex
  simp only [] at h
  obtain ⟨ws2, hws2, hws2'⟩ := skipWs_spec st1
  split at h
  · cases h
  · rename_i hemp
    have hemp' : st1.skipWs.rest = [] := by simpa using hemp
    rw [hemp', List.append_nil] at hws2
    refine ⟨e, ⟨wsL, wsT ++ ws2, ?_, hwsL', IsWs.append hwsT hws2', ?_, by omega⟩, ?_⟩
    · simp only [] at hwsL
      rw [hwsL, her, hws2]
    · rw [h0t, hws2] at hlex; exact hlex
    · rw [hev]
      unfold topValue
      simp only []
      split at h
      · rename_i hu
        cases h
        simp [hu]
      · rename_i hu
        split at h
        · cases h
        · rename_i hm
          cases h
          simp [hu, hm]

end SaphyrVerif.Lemmas.C19
