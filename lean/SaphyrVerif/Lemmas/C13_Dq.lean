import SaphyrVerif.Lemmas.C13_Quoted
import SaphyrVerif.Model.EmitQuote
/-!
C13 / C12 composition, part 1: the double-quoted writers of the crate (`write_quoted`, the quoted arm of
`KeyScalarSink::serialize_str`; transcribed in `Model/EmitQuote.lean`) are inverted by the reference
reader's `readDq`, character by character, for EVERY string; what they write lies on one line.
-/
set_option linter.unusedSimpArgs false
set_option linter.unusedVariables false
namespace SaphyrVerif.Emit
open SaphyrVerif

/-- prefix a decoded character -/
def pre (c : Char) (p : List Char × List Char) : List Char × List Char := (c :: p.1, p.2)

theorem map_pre (c : Char) (x : Option (List Char × List Char)) :
    (x.map fun (t, r) => (c :: t, r)) = x.map (pre c) := by
  cases x <;> rfl

theorem readDq_raw {c : Char} (h1 : c ≠ '"') (h2 : c ≠ '\\') (rest : List Char) :
    readDq (c :: rest) = (readDq rest).map (pre c) := by
  rw [readDq]
  · exact map_pre c _
  · intro h; exact h1 h
  · intro e r h; exact fun _ => h2 h

theorem char_of_toNat {c : Char} {n : Nat} (h : c.toNat = n) : c = Char.ofNat n := by
  rw [← h, Char.ofNat_toNat]

/-- the one-character escapes the writers use -/
theorem readDq_esc (rest : List Char) :
    readDq ('\\' :: '\\' :: rest) = (readDq rest).map (pre '\\') ∧
    readDq ('\\' :: '"' :: rest) = (readDq rest).map (pre '"') ∧
    readDq ('\\' :: '0' :: rest) = (readDq rest).map (pre (Char.ofNat 0)) ∧
    readDq ('\\' :: 'a' :: rest) = (readDq rest).map (pre (Char.ofNat 7)) ∧
    readDq ('\\' :: 'b' :: rest) = (readDq rest).map (pre (Char.ofNat 8)) ∧
    readDq ('\\' :: 't' :: rest) = (readDq rest).map (pre '\t') ∧
    readDq ('\\' :: 'n' :: rest) = (readDq rest).map (pre '\n') ∧
    readDq ('\\' :: 'v' :: rest) = (readDq rest).map (pre (Char.ofNat 11)) ∧
    readDq ('\\' :: 'f' :: rest) = (readDq rest).map (pre (Char.ofNat 12)) ∧
    readDq ('\\' :: 'r' :: rest) = (readDq rest).map (pre '\r') ∧
    readDq ('\\' :: 'e' :: rest) = (readDq rest).map (pre (Char.ofNat 0x1b)) ∧
    readDq ('\\' :: 'N' :: rest) = (readDq rest).map (pre (Char.ofNat 0x85)) ∧
    readDq ('\\' :: 'L' :: rest) = (readDq rest).map (pre (Char.ofNat 0x2028)) ∧
    readDq ('\\' :: 'P' :: rest) = (readDq rest).map (pre (Char.ofNat 0x2029)) := by
  refine ⟨?_, ?_, ?_, ?_, ?_, ?_, ?_, ?_, ?_, ?_, ?_, ?_, ?_, ?_⟩ <;> (rw [readDq]; exact map_pre _ _)

theorem hexDigitVal_hexUpper : ∀ d, d < 16 → hexDigitVal (hexUpper d) = some d := by decide

theorem hexValue_two (a b : Char) (x y : Nat) (ha : hexDigitVal a = some x) (hb : hexDigitVal b = some y) :
    hexValue [a, b] = some (x * 16 + y) := by
  simp [hexValue, ha, hb]

theorem hexValue_four (a b c d : Char) (w x y z : Nat) (ha : hexDigitVal a = some w) (hb : hexDigitVal b = some x)
    (hc : hexDigitVal c = some y) (hd : hexDigitVal d = some z) :
    hexValue [a, b, c, d] = some (((w * 16 + x) * 16 + y) * 16 + z) := by
  simp [hexValue, ha, hb, hc, hd]

theorem readDq_x (a b : Char) (n : Nat) (rest : List Char) (h : hexValue [a, b] = some n) :
    readDq ('\\' :: 'x' :: a :: b :: rest) = (readDq rest).map (pre (Char.ofNat n)) := by
  rw [readDq]
  simp only [List.take, h, List.length_cons, List.length_nil, List.drop]
  exact map_pre _ _

theorem readDq_u (a b c d : Char) (n : Nat) (rest : List Char) (h : hexValue [a, b, c, d] = some n) :
    readDq ('\\' :: 'u' :: a :: b :: c :: d :: rest) = (readDq rest).map (pre (Char.ofNat n)) := by
  rw [readDq]
  simp only [List.take, h, List.length_cons, List.length_nil, List.drop]
  exact map_pre _ _

/-- what one written character must satisfy: it decodes to the character, and its text holds no line
break / NUL -/
structure EscOK (esc : List Char) (c : Char) : Prop where
  read : ∀ rest, readDq (esc ++ rest) = (readDq rest).map (pre c)
  chars : ∀ x ∈ esc, lineChar x = true

theorem escOK_simple {e c : Char} (h : ∀ rest, readDq ('\\' :: e :: rest) = (readDq rest).map (pre c))
    (he : lineChar e = true) : EscOK ['\\', e] c :=
  ⟨fun rest => h rest, fun x hx => by
    simp only [List.mem_cons, List.not_mem_nil, or_false] at hx
    rcases hx with rfl | rfl
    · decide
    · exact he⟩

theorem lineChar_hexUpper : ∀ d, d < 16 → lineChar (hexUpper d) = true := by decide

theorem escOK_raw {c : Char} (h1 : c ≠ '"') (h2 : c ≠ '\\') (h3 : lineChar c = true) : EscOK [c] c :=
  ⟨fun rest => readDq_raw h1 h2 rest, fun x hx => by simp at hx; subst hx; exact h3⟩

/-- one character of `write_quoted` -/
theorem quotedChar_ok (c : Char) : EscOK (quotedChar c) c := by
  unfold quotedChar
  simp only
  by_cases h0 : (c == '\\') = true
  · rw [if_pos h0]; have := eq_of_beq h0; subst this; exact escOK_simple (fun r => (readDq_esc r).1) (by decide)
  rw [if_neg h0]
  by_cases h1 : (c == '"') = true
  · rw [if_pos h1]; have := eq_of_beq h1; subst this; exact escOK_simple (fun r => (readDq_esc r).2.1) (by decide)
  rw [if_neg h1]
  by_cases h2 : (c.toNat == 0) = true
  · rw [if_pos h2]; have := char_of_toNat (eq_of_beq h2); subst this
    exact escOK_simple (fun r => (readDq_esc r).2.2.1) (by decide)
  rw [if_neg h2]
  by_cases h3 : (c.toNat == 7) = true
  · rw [if_pos h3]; have := char_of_toNat (eq_of_beq h3); subst this
    exact escOK_simple (fun r => (readDq_esc r).2.2.2.1) (by decide)
  rw [if_neg h3]
  by_cases h4 : (c.toNat == 8) = true
  · rw [if_pos h4]; have := char_of_toNat (eq_of_beq h4); subst this
    exact escOK_simple (fun r => (readDq_esc r).2.2.2.2.1) (by decide)
  rw [if_neg h4]
  by_cases h5 : (c.toNat == 9) = true
  · rw [if_pos h5]; have := char_of_toNat (eq_of_beq h5); subst this
    exact escOK_simple (fun r => (readDq_esc r).2.2.2.2.2.1) (by decide)
  rw [if_neg h5]
  by_cases h6 : (c.toNat == 10) = true
  · rw [if_pos h6]; have := char_of_toNat (eq_of_beq h6); subst this
    exact escOK_simple (fun r => (readDq_esc r).2.2.2.2.2.2.1) (by decide)
  rw [if_neg h6]
  by_cases h7 : (c.toNat == 11) = true
  · rw [if_pos h7]; have := char_of_toNat (eq_of_beq h7); subst this
    exact escOK_simple (fun r => (readDq_esc r).2.2.2.2.2.2.2.1) (by decide)
  rw [if_neg h7]
  by_cases h8 : (c.toNat == 12) = true
  · rw [if_pos h8]; have := char_of_toNat (eq_of_beq h8); subst this
    exact escOK_simple (fun r => (readDq_esc r).2.2.2.2.2.2.2.2.1) (by decide)
  rw [if_neg h8]
  by_cases h9 : (c.toNat == 13) = true
  · rw [if_pos h9]; have := char_of_toNat (eq_of_beq h9); subst this
    exact escOK_simple (fun r => (readDq_esc r).2.2.2.2.2.2.2.2.2.1) (by decide)
  rw [if_neg h9]
  by_cases h10 : (c.toNat == 0x1b) = true
  · rw [if_pos h10]; have := char_of_toNat (eq_of_beq h10); subst this
    exact escOK_simple (fun r => (readDq_esc r).2.2.2.2.2.2.2.2.2.2.1) (by decide)
  rw [if_neg h10]
  by_cases h11 : (c.toNat == 0xFEFF) = true
  · rw [if_pos h11]; have := char_of_toNat (eq_of_beq h11); subst this
    refine ⟨fun rest => ?_, by decide⟩
    exact readDq_u 'F' 'E' 'F' 'F' 0xFEFF rest (by decide)
  rw [if_neg h11]
  by_cases h12 : (c.toNat == 0x85) = true
  · rw [if_pos h12]; have := char_of_toNat (eq_of_beq h12); subst this
    exact escOK_simple (fun r => (readDq_esc r).2.2.2.2.2.2.2.2.2.2.2.1) (by decide)
  rw [if_neg h12]
  by_cases h13 : (c.toNat == 0x2028) = true
  · rw [if_pos h13]; have := char_of_toNat (eq_of_beq h13); subst this
    exact escOK_simple (fun r => (readDq_esc r).2.2.2.2.2.2.2.2.2.2.2.2.1) (by decide)
  rw [if_neg h13]
  by_cases h14 : (c.toNat == 0x2029) = true
  · rw [if_pos h14]; have := char_of_toNat (eq_of_beq h14); subst this
    exact escOK_simple (fun r => (readDq_esc r).2.2.2.2.2.2.2.2.2.2.2.2.2) (by decide)
  rw [if_neg h14]
  by_cases h15 : (decide (c.toNat ≤ 0xFF) && (isControl c || (decide (0x7F ≤ c.toNat) && decide (c.toNat ≤ 0x9F)))) = true
  · rw [if_pos h15]
    simp only [Bool.and_eq_true, decide_eq_true_eq] at h15
    have hle : c.toNat ≤ 0xFF := h15.1
    have hd1 : c.toNat / 16 % 16 < 16 := by omega
    have hd2 : c.toNat % 16 < 16 := by omega
    have hv : c.toNat / 16 % 16 * 16 + c.toNat % 16 = c.toNat := by omega
    refine ⟨fun rest => ?_, ?_⟩
    · have := readDq_x (hexUpper (c.toNat / 16 % 16)) (hexUpper (c.toNat % 16)) c.toNat rest
        (by rw [hexValue_two _ _ _ _ (hexDigitVal_hexUpper _ hd1) (hexDigitVal_hexUpper _ hd2), hv])
      rw [Char.ofNat_toNat] at this
      simpa [hex2] using this
    · intro x hx
      simp only [hex2, List.mem_cons, List.not_mem_nil, or_false] at hx
      rcases hx with rfl | rfl | rfl | rfl
      · decide
      · decide
      · exact lineChar_hexUpper _ hd1
      · exact lineChar_hexUpper _ hd2
  rw [if_neg h15]
  by_cases h16 : (decide (c.toNat ≤ 0xFFFF) && (isControl c || (decide (0x7F ≤ c.toNat) && decide (c.toNat ≤ 0x9F)))) = true
  · exfalso
    simp only [Bool.and_eq_true, decide_eq_true_eq, isControl, Bool.or_eq_true] at h16 h15
    omega
  rw [if_neg h16]
  have hn0 : c.toNat ≠ 0 := by simpa using h2
  have hn10 : c.toNat ≠ 10 := by simpa using h6
  have hn13 : c.toNat ≠ 13 := by simpa using h9
  refine escOK_raw (by intro e; subst e; simp at h1) (by intro e; subst e; simp at h0) ?_
  have e1 : c ≠ '\n' := by rintro rfl; exact hn10 rfl
  have e2 : c ≠ '\r' := by rintro rfl; exact hn13 rfl
  have e3 : c ≠ Char.ofNat 0 := by rintro rfl; exact hn0 rfl
  simp [lineChar, e1, e2, e3]

/-- one character of the key sink's escaper -/
theorem keyQuotedChar_ok (c : Char) : EscOK (keyQuotedChar c) c := by
  unfold keyQuotedChar
  by_cases h0 : (c == '\\') = true
  · rw [if_pos h0]; have := eq_of_beq h0; subst this; exact escOK_simple (fun r => (readDq_esc r).1) (by decide)
  rw [if_neg h0]
  by_cases h1 : (c == '"') = true
  · rw [if_pos h1]; have := eq_of_beq h1; subst this; exact escOK_simple (fun r => (readDq_esc r).2.1) (by decide)
  rw [if_neg h1]
  by_cases h2 : (c == '\n') = true
  · rw [if_pos h2]; have := eq_of_beq h2; subst this
    exact escOK_simple (fun r => (readDq_esc r).2.2.2.2.2.2.1) (by decide)
  rw [if_neg h2]
  by_cases h3 : (c == '\r') = true
  · rw [if_pos h3]; have := eq_of_beq h3; subst this
    exact escOK_simple (fun r => (readDq_esc r).2.2.2.2.2.2.2.2.2.1) (by decide)
  rw [if_neg h3]
  by_cases h4 : (c == '\t') = true
  · rw [if_pos h4]; have := eq_of_beq h4; subst this
    exact escOK_simple (fun r => (readDq_esc r).2.2.2.2.2.1) (by decide)
  rw [if_neg h4]
  by_cases h5 : isControl c = true
  · rw [if_pos h5]
    have hle : c.toNat ≤ 0x9F := by
      simp only [isControl, Bool.or_eq_true, Bool.and_eq_true, decide_eq_true_eq] at h5
      omega
    have hv : ((c.toNat / 4096 % 16 * 16 + c.toNat / 256 % 16) * 16 + c.toNat / 16 % 16) * 16 + c.toNat % 16 = c.toNat := by omega
    refine ⟨fun rest => ?_, ?_⟩
    · have := readDq_u (hexUpper (c.toNat / 4096 % 16)) (hexUpper (c.toNat / 256 % 16)) (hexUpper (c.toNat / 16 % 16))
        (hexUpper (c.toNat % 16)) c.toNat rest
        (by rw [hexValue_four _ _ _ _ _ _ _ _ (hexDigitVal_hexUpper _ (by omega)) (hexDigitVal_hexUpper _ (by omega))
              (hexDigitVal_hexUpper _ (by omega)) (hexDigitVal_hexUpper _ (by omega)), hv])
      rw [Char.ofNat_toNat] at this
      simpa [hex4] using this
    · intro x hx
      simp only [hex4, List.mem_cons, List.not_mem_nil, or_false] at hx
      rcases hx with rfl | rfl | rfl | rfl | rfl | rfl
      · decide
      · decide
      · exact lineChar_hexUpper _ (by omega)
      · exact lineChar_hexUpper _ (by omega)
      · exact lineChar_hexUpper _ (by omega)
      · exact lineChar_hexUpper _ (by omega)
  rw [if_neg h5]
  refine escOK_raw (by intro e; subst e; simp at h1) (by intro e; subst e; simp at h0) ?_
  have e1 : c ≠ '\n' := by intro e; subst e; simp at h2
  have e2 : c ≠ '\r' := by intro e; subst e; simp at h3
  have e3 : c ≠ Char.ofNat 0 := by rintro rfl; exact h5 (by decide)
  simp [lineChar, e1, e2, e3]

/-- a whole double-quoted body written character by character -/
theorem dq_body {esc : Char → List Char} (hesc : ∀ c, EscOK (esc c) c) (s : List Char) :
    QuotedBody '"' readDq (s.flatMap esc ++ ['"']) s := by
  refine ⟨?_, ?_⟩
  · intro rest _
    induction s with
    | nil =>
      simp only [List.flatMap_nil, List.nil_append, List.cons_append]
      rw [readDq]
    | cons c cs ih =>
      simp only [List.flatMap_cons, List.append_assoc] at ih ⊢
      rw [(hesc c).read, ih]; rfl
  · intro x hx
    simp only [List.mem_append, List.mem_flatMap, List.mem_cons, List.not_mem_nil, or_false] at hx
    rcases hx with ⟨c, _, hx⟩ | rfl
    · exact (hesc c).chars x hx
    · decide

/-- `write_quoted(s)` is a scalar token / a key token for `s`, for every string -/
theorem writeQuoted_scalarTok (s : List Char) : ScalarTok (writeQuotedImpl s) (.str s) :=
  quoted_scalarTok_dq (dq_body quotedChar_ok s)
theorem writeQuoted_keyTok (s : List Char) : KeyTok (writeQuotedImpl s) s :=
  quoted_keyTok_dq (dq_body quotedChar_ok s)
/-- the quoted arm of the key sink -/
theorem keyQuoted_keyTok (s : List Char) : KeyTok (keyQuotedImpl s) s :=
  quoted_keyTok_dq (dq_body keyQuotedChar_ok s)

end SaphyrVerif.Emit
