import SaphyrVerif.Lemmas.E2EBudgetTrace
/-!
End-to-end composition with the budget enforcer, part 14: the observations of the run over a single-document
stream — the two opening markers, the observations of the node (described by `osteps_facts`), the two closing
markers — and the breach-free budgeted run they give when the enforcer accepts them.
-/
namespace SaphyrVerif.Lemmas.E2EBudget
open SaphyrVerif SaphyrVerif.Scalars SaphyrVerif.Pump SaphyrVerif.Budget SaphyrVerif.De SaphyrVerif.Spec
open SaphyrVerif.Lemmas.CurSim (Quiet Run)
open SaphyrVerif.Lemmas.C02 (Steps Good noFoldedIndent afterDocStart)
open SaphyrVerif.Lemmas.C07 (defAfter)

set_option linter.unusedSimpArgs false
set_option linter.unusedVariables false

mutual
theorem itemsOf_nodeOrAlias (t : LNode) : ∀ it ∈ itemsOf t, nodeOrAlias it = true := by
  match t with
  | .scalar v st a tag loc => intro it hit; simp [itemsOf] at hit; subst hit; rfl
  | .alias id loc => intro it hit; simp [itemsOf] at hit; subst hit; rfl
  | .seq a tag loc eloc items =>
    intro it hit
    simp only [itemsOf, List.mem_cons, List.mem_append, List.mem_singleton, List.not_mem_nil, or_false] at hit
    rcases hit with rfl | hit | rfl
    · rfl
    · exact itemsOfL_nodeOrAlias items it hit
    · rfl
  | .map a tag loc eloc entries =>
    intro it hit
    simp only [itemsOf, List.mem_cons, List.mem_append, List.mem_singleton, List.not_mem_nil, or_false] at hit
    rcases hit with rfl | hit | rfl
    · rfl
    · exact itemsOfE_nodeOrAlias entries it hit
    · rfl
theorem itemsOfL_nodeOrAlias (ts : List LNode) : ∀ it ∈ itemsOfL ts, nodeOrAlias it = true := by
  match ts with
  | [] => intro it hit; cases hit
  | t :: ts =>
    intro it hit
    simp only [itemsOfL, List.mem_append] at hit
    rcases hit with hit | hit
    · exact itemsOf_nodeOrAlias t it hit
    · exact itemsOfL_nodeOrAlias ts it hit
theorem itemsOfE_nodeOrAlias (es : List (LNode × LNode)) : ∀ it ∈ itemsOfE es, nodeOrAlias it = true := by
  match es with
  | [] => intro it hit; cases hit
  | (k, v) :: es =>
    intro it hit
    simp only [itemsOfE, List.mem_append] at hit
    rcases hit with (hit | hit) | hit
    · exact itemsOf_nodeOrAlias k it hit
    · exact itemsOf_nodeOrAlias v it hit
    · exact itemsOfE_nodeOrAlias es it hit
end

/-- the first call consumes the two opening markers on top of what the call after them consumes -/
theorem obsCall_doc_start (L : AliasLimits) (l0 l1 : Loc) (X : List RawItem) :
    obsCall { limits := L } (.ev .streamStart l0 :: .ev (.docStart false) l1 :: X) =
      [.raw .streamStart, .raw (.docStart false)] ++ obsCall (afterDocStart L l1) X := by
  simp [obsCall, obsServe, serveInject, obsLoop, obsItem, Pump.resetDocumentState, afterDocStart]

/-- the closing call is shown the two closing markers -/
theorem obsCall_doc_end {p : Pump} (hg : Good p) (hs : p.stopAtDocEnd = false) (l2 l3 : Loc) :
    obsCall p [.ev .docEnd l2, .ev .streamEnd l3] = [.raw .docEnd, .raw .streamEnd] := by
  have h1 := C02.serveInject_exhausted p p.inject hg.inj
  have h2 := obsServe_none p p.inject h1
  simp [obsCall, h1, h2, obsLoop, obsItem, Pump.resetDocumentState, C02.clr, hs]

/-- a sequence of steps only depends on the result of its first call; so do its observations, up to what the
first call is shown on top -/
theorem OSteps.of_eq {q inp q0 inp0 es O q' rest} {pre : List Obs} (h : nextImpl q inp = nextImpl q0 inp0)
    (ho : obsCall q inp = pre ++ obsCall q0 inp0) (hs : OSteps q0 inp0 es O q' rest) (hne : es ≠ []) :
    OSteps q inp es (pre ++ O) q' rest := by
  cases hs with
  | refl => exact absurd rfl hne
  | cons hn hr =>
    have := OSteps.cons (h.trans hn) hr
    rw [ho, List.append_assoc] at this
    exact this

/-- the observations of the run over a single-document stream whose expansion exists and stays within the alias
limits, and the breach-free budgeted run they give when the enforcer accepts them -/
theorem doc_obs (L : AliasLimits) (t : LNode) (l0 l1 l2 l3 : Loc) (r : Exp)
    (hnf : noFoldedIndent t = true) (hexp : expand [] [] t = .ok r)
    (hL1 : 1 ≤ L.maxReplayStackDepth) (hL2 : r.replayed ≤ L.maxTotalReplayedEvents)
    (hL3 : ∀ id, aliasCount id t ≤ L.maxAliasExpansionsPerAnchor) :
    ∃ (O : List Obs) (pf : Pump),
      (∀ b bf : Enf,
        feedObs b ([.raw .streamStart, .raw (.docStart false)] ++ O ++ [.raw .docEnd, .raw .streamEnd]) = .ok bf →
        BRunTo (withBud { limits := L } b) (docStream t l0 l1 l2 l3) r.evs (withBud pf bf)) ∧
      nAl O = nAliasItems (itemsOf t) ∧ noOcc O = true ∧
      (∀ bs, defAfter bs (rawsOf O) = defAfter bs (itemRaws (itemsOf t))) ∧
      (rawsOf O).map erase = r.evs.map replayRaw := by
  have hg := C02.good_afterDocStart L l1
  have h := C02.pump_node t (afterDocStart L l1) hg [.ev .docEnd l2, .ev .streamEnd l3]
  change C02.Outcome _ _ _ _ _ (expand [] [] t) at h
  rw [hexp] at h
  simp only [C02.Outcome] at h
  rcases h with ⟨p1, hs, hpost⟩ | hb
  · obtain ⟨O, hO⟩ := osteps_of_steps hs
    have hplain : Plain0 (afterDocStart L l1) := ⟨rfl, rfl, rfl⟩
    obtain ⟨C, hC, a1, a2, a3, a4, a5⟩ := osteps_facts hO hplain (by simp)
    have hCeq : C = itemsOf t := (List.append_cancel_right hC).symm
    subst hCeq
    have hne : r.evs ≠ [] := by
      intro he
      rw [he] at hs
      have hinv := C02.Steps.nil_inv hs
      have hlen := congrArg List.length hinv.2
      cases t <;> simp [itemsOf] at hlen
    have hpa : p1.producedAny = true := hpost.prod (Or.inr hne)
    have hsd : p1.stopAtDocEnd = false := by rw [hpost.sade]; rfl
    have hn : nextImpl p1 [.ev .docEnd l2, .ev .streamEnd l3] =
        (.eof, { (C02.clr p1).resetDocumentState with seenDocEnd := true, lastLoc := l3 }, []) := by
      rw [C02.nextImpl_good hpost.good]
      simp [parserLoop, hpost.good.bud, Pump.resetDocumentState, C02.clr, hsd, hpa]
    have hquiet : Quiet { (C02.clr p1).resetDocumentState with seenDocEnd := true, lastLoc := l3 } [] := by
      refine ⟨?_, ?_⟩
      · have hl1 : p1.look = none := by rw [CurSim.Steps.look hs]; rfl
        simpa [Pump.resetDocumentState, C02.clr] using hl1
      · simp [nextImpl, serveInject, parserLoop, Pump.resetDocumentState, C02.clr, hpa]
    refine ⟨O, { (C02.clr p1).resetDocumentState with seenDocEnd := true, lastLoc := l3 }, fun b bf hf => ?_, a1, a2, a3,
      a4 (itemsOf_nodeOrAlias t)⟩
    -- the budgeted run
    have hfirst : OSteps { limits := L } (docStream t l0 l1 l2 l3) r.evs
        ([.raw .streamStart, .raw (.docStart false)] ++ O) p1 [.ev .docEnd l2, .ev .streamEnd l3] := by
      refine OSteps.of_eq ?_ ?_ hO hne
      · unfold docStream; exact C02.doc_start L l0 l1 _
      · unfold docStream; exact obsCall_doc_start L l0 l1 _
    rw [feedObs_append] at hf
    cases hmid : feedObs b ([.raw .streamStart, .raw (.docStart false)] ++ O) with
    | error br => rw [hmid] at hf; cases hf
    | ok bmid =>
      rw [hmid] at hf
      simp only at hf
      obtain ⟨hbs, hp1⟩ := bsteps_of_osteps hfirst b bmid rfl hmid
      refine hbs.brunTo ?_
      have ho := nextImpl_obs p1 _ hp1 bmid hn
      rw [obsCall_doc_end hpost.good hsd, hf] at ho
      refine BRunTo.eof ho ?_
      apply quiet_of_strip
      rw [withBud_budget_none (by simp [Pump.resetDocumentState, C02.clr, hp1])]
      exact hquiet
  · exfalso
    rcases hb with ⟨es, err, p', -, -, -, hx⟩ | ⟨hf, -⟩
    · rcases hx with hx | hx | ⟨id, hx⟩
      · simp only [afterDocStart] at hx; omega
      · simp only [afterDocStart] at hx; omega
      · have := hL3 id
        simp only [afterDocStart, lookupCount, List.find?_nil] at hx
        omega
    · rw [hnf] at hf; cases hf

end SaphyrVerif.Lemmas.E2EBudget
