import SaphyrVerif.Model.SerScalar
import SaphyrVerif.Spec.ScalarRead
/-!
Helper lemmas for C12, literal block scalars: the lines `serialize_str` writes for the automatic literal
style are read back by `readBlock` as the original string (under the guards stated in Props/C12).
-/
set_option linter.unusedSimpArgs false

namespace SaphyrVerif.Lemmas.C12
open SaphyrVerif SaphyrVerif.SerScalar SaphyrVerif.Spec.Read

/-- what the literal reader computes on the *content* lines (indentation already removed) -/
def litJoin : List (List Char) → Bool → Nat → List Char → List Char × Nat × Bool
  | [], first, pend, acc => (acc, pend, first)
  | x :: xs, first, pend, acc =>
    if x.isEmpty then litJoin xs first (pend + 1) acc
    else litJoin xs false 0 (acc ++ (if first then nls pend else '\n' :: nls pend) ++ x)

theorem allSpaces_spaces (n : Nat) : allSpaces (spaces n) = true := by
  simp [allSpaces, spaces]

theorem leadingSpaces_spaces_append (n : Nat) (x : List Char) : n ≤ leadingSpaces (spaces n ++ x) := by
  induction n with
  | zero => exact Nat.zero_le _
  | succ n ih =>
    have : spaces (n + 1) ++ x = ' ' :: (spaces n ++ x) := by simp [spaces, List.replicate_succ]
    rw [this]
    simp only [leadingSpaces, List.takeWhile, beq_self_eq_true, List.length_cons] at ih ⊢
    omega

theorem drop_spaces_append (n : Nat) (x : List Char) : (spaces n ++ x).drop n = x := by
  have : (spaces n).length = n := by simp [spaces]
  rw [List.drop_append_of_le_length (by omega)]
  simp [this]

theorem isEmptyAt_spaces_append (n : Nat) (x : List Char) :
    isEmptyAt n (spaces n ++ x) = x.isEmpty := by
  cases x with
  | nil => simp [isEmptyAt, allSpaces, spaces]
  | cons c r =>
    simp only [isEmptyAt, List.isEmpty_cons, Bool.and_eq_false_iff, decide_eq_false_iff_not]
    right
    simp [spaces]

theorem blockBody_lit (N : Nat) (hN : 1 ≤ N) (xs : List (List Char)) :
    ∀ (first pb : Bool) (pend : Nat) (acc : List Char),
      blockBody true N (xs.map (spaces N ++ ·)) first pb pend acc =
        ((litJoin xs first pend acc).1, (litJoin xs first pend acc).2.1, [], (litJoin xs first pend acc).2.2) := by
  induction xs with
  | nil => intro first pb pend acc; simp [blockBody, litJoin]
  | cons x xs ih =>
    intro first pb pend acc
    simp only [List.map_cons]
    rw [blockBody, isEmptyAt_spaces_append, litJoin]
    cases hx : x.isEmpty with
    | true => simp only [if_true]; exact ih first pb (pend + 1) acc
    | false =>
      have h1 : ¬ leadingSpaces (spaces N ++ x) < N := by have := leadingSpaces_spaces_append N x; omega
      have h2 : (N == 0) = false := by cases N with | zero => omega | succ n => rfl
      simp only [Bool.false_eq_true, if_false, h1, h2, Bool.false_and, drop_spaces_append, Bool.not_true]
      exact ih false _ 0 _

/-- `"\n".intercalate`-style join, written out -/
def joinNl : List (List Char) → List Char
  | [] => []
  | [x] => x
  | x :: y :: r => x ++ '\n' :: joinNl (y :: r)

theorem nls_succ (n : Nat) : nls (n + 1) = nls n ++ ['\n'] := by
  simp [nls, List.replicate_succ']

theorem nls_succ' (n : Nat) : nls (n + 1) = '\n' :: nls n := by
  simp [nls, List.replicate_succ]

/-- on lines whose last one is not empty, the literal reader reproduces the join -/
theorem litJoin_join (xs : List (List Char)) (hne : xs ≠ []) (hlast : ∀ l, xs.getLast? = some l → l ≠ []) :
    ∀ (first : Bool) (pend : Nat) (acc : List Char),
      litJoin xs first pend acc = (acc ++ (if first then [] else ['\n']) ++ nls pend ++ joinNl xs, 0, false) := by
  induction xs with
  | nil => exact absurd rfl hne
  | cons x xs ih =>
    intro first pend acc
    rw [litJoin]
    cases xs with
    | nil =>
      have hx : x ≠ [] := hlast x (by simp)
      have hxe : x.isEmpty = false := by cases x with | nil => exact absurd rfl hx | cons a b => rfl
      simp only [hxe, Bool.false_eq_true, if_false, litJoin, joinNl]
      cases first <;> simp
    | cons y r =>
      have ih' := ih (by simp) (by intro l hl; exact hlast l (by simpa [List.getLast?_cons_cons] using hl))
      cases hx : x.isEmpty with
      | true =>
        have : x = [] := by simpa using hx
        subst this
        simp only [if_true]
        rw [ih' first (pend + 1) acc]
        simp [joinNl, nls_succ]
      | false =>
        simp only [Bool.false_eq_true, if_false]
        rw [ih' false 0 _]
        cases first <;> simp [joinNl, nls]

/-! ### `split('\n')` and its inverse -/

theorem splitNl_go_spec (s cur : List Char) :
    joinNl (splitNl.go s cur) = cur.reverse ++ s ∧ splitNl.go s cur ≠ [] := by
  induction s generalizing cur with
  | nil => simp [splitNl.go, joinNl]
  | cons c s ih =>
    rw [splitNl.go]
    by_cases h : (c == '\n') = true
    · rw [if_pos h]
      have := eq_of_beq h; subst this
      obtain ⟨h1, h2⟩ := ih []
      refine ⟨?_, by simp⟩
      cases hg : splitNl.go s [] with
      | nil => exact absurd hg h2
      | cons y r =>
        rw [hg] at h1
        simp only [joinNl, h1, List.reverse_nil, List.nil_append]
    · rw [if_neg h]
      obtain ⟨h1, h2⟩ := ih (c :: cur)
      exact ⟨by simpa using h1, h2⟩

theorem joinNl_splitNl (s : List Char) : joinNl (splitNl s) = s := by
  simpa [splitNl] using (splitNl_go_spec s []).1

theorem splitNl_ne_nil (s : List Char) : splitNl s ≠ [] := (splitNl_go_spec s []).2

theorem splitNl_go_no_nl (s cur : List Char) (hc : ∀ c ∈ cur, c ≠ '\n') :
    ∀ l ∈ splitNl.go s cur, ∀ c ∈ l, c ≠ '\n' := by
  induction s generalizing cur with
  | nil => intro l hl; simp only [splitNl.go, List.mem_singleton] at hl; subst hl; intro c hcm; exact hc c (by simpa using hcm)
  | cons a s ih =>
    rw [splitNl.go]
    by_cases h : (a == '\n') = true
    · rw [if_pos h]
      intro l hl
      simp only [List.mem_cons] at hl
      rcases hl with e | hl
      · subst e; intro c hcm; exact hc c (by simpa using hcm)
      · exact ih [] (by simp) l hl
    · rw [if_neg h]
      apply ih
      intro c hcm
      simp only [List.mem_cons] at hcm
      rcases hcm with e | hcm
      · subst e; simpa using h
      · exact hc c hcm

/-- the last line of a text that does not end in a line break is not empty -/
theorem splitNl_go_last (s cur : List Char) (h : (cur.reverse ++ s).getLast? ≠ some '\n') (hne : cur.reverse ++ s ≠ []) :
    ∀ l, (splitNl.go s cur).getLast? = some l → l ≠ [] := by
  induction s generalizing cur with
  | nil =>
    intro l hl
    simp only [splitNl.go, List.getLast?_singleton, Option.some.injEq] at hl
    subst hl
    simpa using hne
  | cons a s ih =>
    rw [splitNl.go]
    by_cases ha : (a == '\n') = true
    · rw [if_pos ha]
      have := eq_of_beq ha; subst this
      have hs : s ≠ [] := by
        intro e; subst e
        apply h
        simp
      intro l hl
      have hg := (splitNl_go_spec s []).2
      cases hgo : splitNl.go s [] with
      | nil => exact absurd hgo hg
      | cons y r =>
        rw [hgo, List.getLast?_cons_cons] at hl
        rw [← hgo] at hl
        apply ih [] _ _ l hl
        · intro e
          apply h
          have : (cur.reverse ++ '\n' :: s).getLast? = s.getLast? := by
            cases s with
            | nil => exact absurd rfl hs
            | cons b t =>
              rw [List.getLast?_append, List.getLast?_cons_cons]
              cases hq : (b :: t).getLast? with
              | none => simp at hq
              | some x => simp
          rw [this]; simpa using e
        · simpa using hs
    · rw [if_neg ha]
      apply ih (a :: cur)
      · simpa using h
      · simp


/-! ### the emitted literal block and `readBlock` -/

/-- the body lines `serialize_str` writes for the literal style (`N` = body indentation in spaces) -/
def litLines (N : Nat) (v : List Char) : List (List Char) :=
  let content := trimEndNl v
  let t := v.length - content.length
  if content.isEmpty then (if t ≥ 1 then [spaces N] else [])
  else (splitNl content).map (spaces N ++ ·) ++ List.replicate (t - 1) (spaces N)

/-- header text after `|`: optional indentation digit, chomping indicator -/
def litHeader (digit : Option Nat) (t : Nat) : List Char :=
  (match digit with | some d => [Char.ofNat (48 + d)] | none => []) ++ chompInd t

def chompOf (t : Nat) : Chomp := match t with | 0 => .strip | 1 => .clip | _ => .keep

theorem parseHeader_lit : ∀ d, d ∈ [1, 2, 3, 4, 5, 6, 7, 8, 9] → ∀ t, t ∈ [0, 1, 2] →
    parseHeader (litHeader (some d) t) = some (chompOf t, d) ∧ parseHeader (litHeader none t) = some (chompOf t, 0) := by
  decide

theorem chompInd_cap (t : Nat) : chompInd t = chompInd (min t 2) ∧ chompOf t = chompOf (min t 2) := by
  match t with
  | 0 => exact ⟨rfl, rfl⟩
  | 1 => exact ⟨rfl, rfl⟩
  | n + 2 => have : min (n + 2) 2 = 2 := by omega
             rw [this]; exact ⟨rfl, rfl⟩

theorem mem_range19 (d : Nat) (h1 : 1 ≤ d) (h2 : d ≤ 9) : d ∈ [1, 2, 3, 4, 5, 6, 7, 8, 9] := by
  simp only [List.mem_cons, List.mem_nil_iff, or_false]; omega

theorem mem_range02 (t : Nat) (h : t ≤ 2) : t ∈ [0, 1, 2] := by
  simp only [List.mem_cons, List.mem_nil_iff, or_false]; omega

theorem parseHeader_lit' (digit : Option Nat) (hd : ∀ d, digit = some d → 1 ≤ d ∧ d ≤ 9) (t : Nat) :
    parseHeader (litHeader digit t) = some (chompOf t, digit.getD 0) := by
  have hc := chompInd_cap t
  unfold litHeader
  rw [hc.1, hc.2]
  cases digit with
  | none => exact (parseHeader_lit 1 (by decide) (min t 2) (mem_range02 _ (by omega))).2
  | some d => obtain ⟨h1, h2⟩ := hd d rfl; exact (parseHeader_lit d (mem_range19 d h1 h2) (min t 2) (mem_range02 _ (by omega))).1

/-- trailing empty lines only add to the pending count -/
theorem litJoin_append_empties (xs : List (List Char)) (k : Nat) :
    ∀ (first : Bool) (pend : Nat) (acc : List Char),
      litJoin (xs ++ List.replicate k []) first pend acc =
        ((litJoin xs first pend acc).1, (litJoin xs first pend acc).2.1 + k, (litJoin xs first pend acc).2.2) := by
  induction xs with
  | nil =>
    intro first pend acc
    induction k generalizing pend with
    | zero => rfl
    | succ k ihk =>
      have := ihk (pend + 1)
      simp only [List.nil_append, litJoin] at this ⊢
      rw [List.replicate_succ, litJoin]
      simp only [List.isEmpty_nil, if_true]
      rw [this]
      congr 2; omega
  | cons x xs ih =>
    intro first pend acc
    simp only [List.cons_append, litJoin]
    split <;> exact ih _ _ _

/-- first non-empty line of the content has no leading space ⇔ no indentation indicator -/
def firstNonEmptyNoSpace : List (List Char) → Bool
  | [] => true
  | l :: ls => if l.isEmpty then firstNonEmptyNoSpace ls else l.head? != some ' '

theorem fls_go_zero (ls : List (List Char)) :
    firstLineLeadingSpaces.go ls = 0 ↔ firstNonEmptyNoSpace ls = true := by
  induction ls with
  | nil => simp [firstLineLeadingSpaces.go, firstNonEmptyNoSpace]
  | cons l ls ih =>
    rw [firstLineLeadingSpaces.go, firstNonEmptyNoSpace]
    cases hl : l.isEmpty with
    | true => simpa using ih
    | false =>
      simp only [Bool.not_false, if_true, Bool.false_eq_true, if_false]
      cases l with
      | nil => simp at hl
      | cons c r =>
        by_cases hc : c = ' '
        · subst hc; simp [List.takeWhile]
        · have : (c == ' ') = false := by simpa using hc
          simp [List.takeWhile, this, hc]

theorem leadingSpaces_spaces_cons (n : Nat) (c : Char) (r : List Char) (hc : c ≠ ' ') :
    leadingSpaces (spaces n ++ c :: r) = n := by
  induction n with
  | zero =>
    have : (c == ' ') = false := by simpa using hc
    simp [spaces, leadingSpaces, List.takeWhile, this]
  | succ n ih =>
    have : spaces (n + 1) ++ c :: r = ' ' :: (spaces n ++ c :: r) := by simp [spaces, List.replicate_succ]
    rw [this]
    simp only [leadingSpaces, List.takeWhile, beq_self_eq_true, List.length_cons] at ih ⊢
    omega

theorem allSpaces_spaces_cons (n : Nat) (c : Char) (r : List Char) (hc : c ≠ ' ') :
    allSpaces (spaces n ++ c :: r) = false := by
  have : (c == ' ') = false := by simpa using hc
  simp [allSpaces, this]

/-- automatic indentation detection on the emitted lines when no indicator was needed -/
theorem detectIndent_auto (N : Nat) (xs : List (List Char)) (rest : List (List Char))
    (hne : ∃ l ∈ xs, l ≠ []) (hns : firstNonEmptyNoSpace xs = true) :
    ∀ m, m ≤ N → detectIndent (xs.map (spaces N ++ ·) ++ rest) m = N := by
  induction xs with
  | nil => obtain ⟨l, hl, _⟩ := hne; cases hl
  | cons x xs ih =>
    intro m hm
    simp only [List.map_cons, List.cons_append, detectIndent]
    cases x with
    | nil =>
      simp only [List.append_nil, allSpaces_spaces, if_true]
      have hlen : (spaces N).length = N := by simp [spaces]
      rw [hlen]
      apply ih
      · obtain ⟨l, hl, hln⟩ := hne
        simp only [List.mem_cons] at hl
        rcases hl with e | hl
        · exact absurd e hln
        · exact ⟨l, hl, hln⟩
      · simpa [firstNonEmptyNoSpace] using hns
      · omega
    | cons c r =>
      have hc : c ≠ ' ' := by simpa [firstNonEmptyNoSpace] using hns
      rw [allSpaces_spaces_cons N c r hc, leadingSpaces_spaces_cons N c r hc]
      simp only [Bool.false_eq_true, if_false]
      omega


theorem takeWhile_eq_replicate (l : List Char) : l.takeWhile (· == '\n') = List.replicate (l.takeWhile (· == '\n')).length '\n' := by
  induction l with
  | nil => rfl
  | cons a l ih =>
    by_cases h : (a == '\n') = true
    · have := eq_of_beq h; subst this
      simp only [List.takeWhile, beq_self_eq_true, List.length_cons, List.replicate_succ]
      rw [← ih]
    · have : (a == '\n') = false := by simpa using h
      simp [List.takeWhile, this]

theorem dropWhile_head_not {p : Char → Bool} : ∀ (l : List Char) (a : Char) (r : List Char),
    l.dropWhile p = a :: r → p a = false := by
  intro l
  induction l with
  | nil => intro a r h; cases h
  | cons x l ih =>
    intro a r h
    rw [List.dropWhile] at h
    cases hp : p x with
    | true => rw [hp] at h; exact ih a r h
    | false => rw [hp] at h; injection h with h1 _; subst h1; exact hp

/-- `trim_end_matches('\n')`: the string is its trimmed part followed by line breaks only, and the
trimmed part does not end in a line break -/
theorem trimEndNl_spec (v : List Char) :
    v = trimEndNl v ++ nls (v.length - (trimEndNl v).length) ∧ (trimEndNl v).getLast? ≠ some '\n' := by
  unfold trimEndNl
  have hsplit := List.takeWhile_append_dropWhile (p := (· == '\n')) (l := v.reverse)
  have hrep := takeWhile_eq_replicate v.reverse
  generalize htw : v.reverse.takeWhile (· == '\n') = tw at *
  generalize hdw : v.reverse.dropWhile (· == '\n') = dw at *
  constructor
  · have hv : v = dw.reverse ++ tw.reverse := by
      calc v = v.reverse.reverse := by simp
        _ = (tw ++ dw).reverse := by rw [hsplit]
        _ = dw.reverse ++ tw.reverse := by simp
    have hlen : v.length = tw.length + dw.length := by
      have := congrArg List.length hsplit
      rw [List.length_append, List.length_reverse] at this
      omega
    have : tw.reverse = nls (v.length - dw.reverse.length) := by
      rw [hrep]
      simp only [List.reverse_replicate, List.length_reverse, nls]
      congr 1
      omega
    rw [← this]
    exact hv
  · rw [List.getLast?_reverse]
    intro h
    cases dw with
    | nil => simp at h
    | cons a r =>
      simp only [List.head?_cons, Option.some.injEq] at h
      subst h
      have := dropWhile_head_not v.reverse _ _ hdw
      simp at this

/-- The literal block `serialize_str` writes — header `hdr`, body lines `litLines N v` — is read back as
`v`, when the content is not empty (`v` is not made of line breaks only), the body indentation `N` is
deeper than the parent, and an indentation indicator (needed iff the first non-empty line starts with a
space) is read as `N`: that is, `N ≤ 9` and the parent is at column 0 or the root. -/
theorem literal_read (N : Nat) (parent : Int) (v : List Char) (hN : 1 ≤ N)
    (hcontent : trimEndNl v ≠ [])
    (hauto : firstLineLeadingSpaces (trimEndNl v) = 0 → parent + 1 ≤ (N : Int))
    (hexpl : firstLineLeadingSpaces (trimEndNl v) > 0 → N ≤ 9 ∧ parent ≤ 0) :
    readBlock true parent
      (litHeader (if firstLineLeadingSpaces (trimEndNl v) > 0 then some N else none) (v.length - (trimEndNl v).length))
      (litLines N v) = some (v, []) := by
  obtain ⟨hv, hlast⟩ := trimEndNl_spec v
  generalize hc : trimEndNl v = content at *
  generalize ht : v.length - content.length = t at *
  have hce : content.isEmpty = false := by cases content with | nil => exact absurd rfl hcontent | cons a b => rfl
  have hlines : litLines N v = (splitNl content ++ List.replicate (t - 1) []).map (spaces N ++ ·) := by
    simp only [litLines, hc, ht, hce, Bool.false_eq_true, if_false, List.map_append, List.map_replicate, List.append_nil]
  -- the content lines: last one non-empty
  have hxs_last : ∀ l, (splitNl content).getLast? = some l → l ≠ [] := by
    have := splitNl_go_last content [] (by simpa using hlast) (by simpa using hcontent)
    simpa [splitNl] using this
  have hjoin := litJoin_join (splitNl content) (splitNl_ne_nil content) hxs_last true 0 []
  have hj2 := litJoin_append_empties (splitNl content) (t - 1) true 0 []
  rw [hjoin] at hj2
  simp only [List.nil_append, if_true, nls, List.replicate_zero, joinNl_splitNl, Nat.zero_add] at hj2
  have hbody := blockBody_lit N hN (splitNl content ++ List.replicate (t - 1) []) true false 0 []
  rw [hj2] at hbody
  -- header
  have hph := parseHeader_lit' (if firstLineLeadingSpaces content > 0 then some N else none)
    (by intro d hd
        by_cases hf : firstLineLeadingSpaces content > 0
        · rw [if_pos hf] at hd; injection hd with e; subst e; exact ⟨hN, (hexpl hf).1⟩
        · rw [if_neg hf] at hd; cases hd) t
  -- indentation
  have hind : blockIndent parent ((if firstLineLeadingSpaces content > 0 then some N else none : Option Nat).getD 0) (litLines N v) = N := by
    by_cases hf : firstLineLeadingSpaces content > 0
    · rw [if_pos hf]
      simp only [Option.getD_some, blockIndent]
      have hp := (hexpl hf).2
      rw [if_pos (by omega)]
      by_cases hpz : parent ≥ 0
      · rw [if_pos hpz]
        have : parent = 0 := by omega
        subst this; simp
      · rw [if_neg hpz]
    · rw [if_neg hf]
      have hz : firstLineLeadingSpaces content = 0 := by omega
      simp only [Option.getD_none, blockIndent, Nat.lt_irrefl, if_false]
      have hns : firstNonEmptyNoSpace (splitNl content) = true := by
        have := (fls_go_zero (splitNl content)).mp (by simpa [firstLineLeadingSpaces] using hz)
        exact this
      have hex : ∃ l ∈ splitNl content, l ≠ [] := by
        cases hgl : (splitNl content).getLast? with
        | none => simp at hgl; exact absurd hgl (splitNl_ne_nil content)
        | some l => exact ⟨l, List.mem_of_getLast? hgl, hxs_last l hgl⟩
      rw [hlines, List.map_append]
      rw [detectIndent_auto N (splitNl content) _ hex hns 0 (by omega)]
      have := hauto hz
      omega
  -- first line does not start with a tab
  have htab : firstLineTab (litLines N v) = false := by
    rw [hlines]
    cases hsp : splitNl content with
    | nil => exact absurd hsp (splitNl_ne_nil content)
    | cons x xs =>
      simp only [List.cons_append, List.map_cons]
      cases N with
      | zero => omega
      | succ n => simp [spaces, List.replicate_succ, headSat, firstLineTab]
  unfold readBlock
  rw [hph]
  simp only [htab, Bool.false_eq_true, if_false, hind]
  rw [hlines, hbody]
  simp only [Bool.false_eq_true, if_false, Option.some.injEq, Prod.mk.injEq, and_true]
  -- chomping
  rw [hv]
  match t with
  | 0 => simp [chompOf, chompTail, nls]
  | 1 => simp [chompOf, chompTail, nls]
  | n + 2 =>
    simp only [chompOf, chompTail, nls, List.append_assoc, Nat.add_sub_cancel, show n + 2 - 1 = n + 1 by omega]
    simp [List.replicate_succ]


/-! ### from lines to text and back -/

def joinLines (ls : List (List Char)) : List Char := ls.flatMap (· ++ ['\n'])

theorem normBreaks_no_cr : ∀ (t : List Char), (∀ c ∈ t, c ≠ '\r') → normBreaks t false = t := by
  intro t
  induction t with
  | nil => intro _; rfl
  | cons a t ih =>
    intro h
    have ha : (a == '\r') = false := by simpa using h a (by simp)
    rw [normBreaks]
    simp only [ha, Bool.false_eq_true, if_false]
    by_cases hn : (a == '\n') = true
    · simp only [hn, if_true, Bool.false_eq_true, if_false]
      rw [ih (fun c hc => h c (by simp [hc]))]
      have := eq_of_beq hn; subst this; rfl
    · have hn' : (a == '\n') = false := by simpa using hn
      simp only [hn', Bool.false_eq_true, if_false]
      rw [ih (fun c hc => h c (by simp [hc]))]

theorem splitNlTerminated_line (l : List Char) (hl : ∀ c ∈ l, c ≠ '\n') (rest cur : List Char) :
    splitNlTerminated (l ++ '\n' :: rest) cur = (splitNlTerminated rest []).map ((cur.reverse ++ l) :: ·) := by
  induction l generalizing cur with
  | nil => simp [splitNlTerminated]
  | cons a l ih =>
    have ha : (a == '\n') = false := by simpa using hl a (by simp)
    simp only [List.cons_append, splitNlTerminated, ha, Bool.false_eq_true, if_false]
    rw [ih (fun c hc => hl c (by simp [hc]))]
    simp

theorem splitNlTerminated_join (ls : List (List Char)) (h : ∀ l ∈ ls, ∀ c ∈ l, c ≠ '\n') :
    splitNlTerminated (joinLines ls) [] = some ls := by
  induction ls with
  | nil => rfl
  | cons l ls ih =>
    have := splitNlTerminated_line l (h l (by simp)) (joinLines ls) []
    simp only [joinLines, List.flatMap_cons, List.append_assoc, List.singleton_append] at this ⊢
    rw [this]
    have ih' := ih (fun l' hl' => h l' (by simp [hl']))
    simp only [joinLines] at ih'
    rw [ih']
    simp

/-- text → lines: every line was terminated by `\n`; no other break characters inside -/
theorem splitLines_join (ls : List (List Char)) (h : ∀ l ∈ ls, ∀ c ∈ l, c ≠ '\n' ∧ c ≠ '\r') :
    splitLines (joinLines ls) [] = some ls := by
  unfold splitLines
  rw [normBreaks_no_cr]
  · exact splitNlTerminated_join ls (fun l hl c hc => (h l hl c hc).1)
  · intro c hc
    simp only [joinLines, List.mem_flatMap, List.mem_append, List.mem_singleton] at hc
    obtain ⟨l, hl, hc⟩ := hc
    rcases hc with hc | hc
    · exact (h l hl c hc).2
    · subst hc; decide

end SaphyrVerif.Lemmas.C12
