import SaphyrVerif.Model.Pump
import SaphyrVerif.Model.De
import SaphyrVerif.Lemmas.C02_Doc
import SaphyrVerif.Lemmas.C02_Misc
import SaphyrVerif.Lemmas.Cursor
import SaphyrVerif.Lemmas.C06
/-!
Helper lemmas for C01 (totality / progress of the pump, the recovery path, capture, radix slicing).

The other lemma files about `Pump`, `De` and `Scalars` are imported on purpose: the equation / splitter /
induction lemmas Lean generates on demand for `parserLoop`, `serveInject`, `capture`, `radixAndDigits` are then
taken from there instead of being generated a second time here (two modules generating the same auxiliary
declaration cannot be imported together).  `Lemmas.C04*` / `Lemmas.C03*` cannot be imported next to
`Props.C07` (which `Props.C01` needs): `Spec.Interp` and `Spec.BudgetSpec` both declare
`SaphyrVerif.Spec.isMergeKeyNode`.
-/
namespace SaphyrVerif.Lemmas.C01
open SaphyrVerif SaphyrVerif.Scalars SaphyrVerif.Pump SaphyrVerif.Budget

/-! ### the inject loop -/

/-- falling through the inject loop only clears the (exhausted) replay stack -/
theorem serveInject_none (p : Pump) (fs : List InjectFrame) (p' : Pump)
    (h : serveInject p fs = (none, p')) : p' = { p with inject := [] } := by
  fun_induction serveInject p fs <;> simp_all +zetaDelta

/-- `produced_any` is never cleared by the inject loop, and is set whenever it delivers an event -/
theorem serveInject_producedAny (p : Pump) (fs : List InjectFrame) :
    (p.producedAny = true → (serveInject p fs).2.producedAny = true) ∧
    (∀ e, (serveInject p fs).1 = some (.event e) → (serveInject p fs).2.producedAny = true) := by
  fun_induction serveInject p fs <;> simp_all +zetaDelta

/-! ### the parser loop -/

/-- the parser loop consumes a prefix; on a non-empty input the prefix is non-empty -/
theorem parserLoop_progress (p : Pump) (inp : List RawItem) :
    ∃ consumed, inp = consumed ++ (parserLoop p inp).2.2 ∧ (consumed = [] → inp = []) := by
  fun_induction parserLoop p inp
  all_goals first
    | exact ⟨[], rfl, fun _ => rfl⟩
    | exact ⟨[_], rfl, fun h => nomatch h⟩
    | exact ⟨[_, _], rfl, fun h => nomatch h⟩
    | (rename_i ih; obtain ⟨c, h1, -⟩ := ih; exact ⟨_ :: c, congrArg (_ :: ·) h1, fun h => nomatch h⟩)

/-- at the end of the parser stream: the one synthesized null event if nothing was produced yet, else
end of stream -/
theorem parserLoop_nil (p : Pump) :
    parserLoop p [] =
      if p.producedAny = false then
        (.event (.scalar [] 4 none .plain 0 p.lastLoc), { p with producedAny := true, synthesizedNull := true }, [])
      else (.eof, p, []) := by
  cases h : p.producedAny <;> simp [parserLoop, h]

/-- `produced_any` is never cleared by the parser loop, and is set whenever it delivers an event -/
theorem parserLoop_producedAny (p : Pump) (inp : List RawItem) :
    (p.producedAny = true → (parserLoop p inp).2.1.producedAny = true) ∧
    (∀ e, (parserLoop p inp).1 = .event e → (parserLoop p inp).2.1.producedAny = true) := by
  fun_induction parserLoop p inp
  all_goals try (simp_all +zetaDelta [Pump.resetDocumentState]; done)
  · rename_i pp _ _ hs _ _
    have h := serveInject_producedAny pp pp.inject
    rw [hs] at h
    simp_all +zetaDelta
  · rename_i pp _ hs _ _ ih
    have h := serveInject_none pp pp.inject _ hs
    subst h
    simp_all +zetaDelta

/-! ### `next_impl` -/

/-- `next_impl` returns a suffix of its input; the input is untouched only when a replay frame served the
call or when the input was already empty -/
theorem nextImpl_progress (p : Pump) (inp : List RawItem) :
    ∃ consumed, inp = consumed ++ (nextImpl p inp).2.2 ∧
      (consumed = [] → (∃ s p', serveInject p p.inject = (some s, p')) ∨
        (inp = [] ∧ ∃ p', serveInject p p.inject = (none, p') ∧ nextImpl p inp = parserLoop p' [])) := by
  unfold nextImpl
  split
  · rename_i s p' hs
    exact ⟨[], rfl, fun _ => .inl ⟨s, p', hs⟩⟩
  · rename_i p' hs
    obtain ⟨c, h1, h2⟩ := parserLoop_progress p' inp
    refine ⟨c, h1, fun hc => .inr ?_⟩
    have := h2 hc
    subst this
    exact ⟨rfl, p', hs, rfl⟩

/-- a step served by the inject loop needs a replay frame -/
theorem serveInject_some_inject (p : Pump) (s : Step) (p' : Pump)
    (h : serveInject p p.inject = (some s, p')) : ∃ fr rest, p.inject = fr :: rest := by
  cases hi : p.inject with
  | nil => rw [hi] at h; simp [serveInject] at h
  | cons fr rest => exact ⟨fr, rest, rfl⟩

/-- `produced_any` is never cleared by `next_impl`, and is set whenever it delivers an event -/
theorem nextImpl_producedAny (p : Pump) (inp : List RawItem) :
    (p.producedAny = true → (nextImpl p inp).2.1.producedAny = true) ∧
    (∀ e, (nextImpl p inp).1 = .event e → (nextImpl p inp).2.1.producedAny = true) := by
  unfold nextImpl
  split
  · rename_i s p' hs
    have h := serveInject_producedAny p p.inject
    rw [hs] at h
    simpa using h
  · rename_i p' hs
    have h := serveInject_none p p.inject p' hs
    subst h
    exact parserLoop_producedAny { p with inject := [] } inp

/-! ### the recovery path -/

theorem skipLoop_progress (p : Pump) (inp : List RawItem) :
    ∃ consumed, inp = consumed ++ (skipLoop p inp).2.2 ∧ (consumed = [] → inp = []) := by
  fun_induction skipLoop p inp
  all_goals first
    | exact ⟨[], rfl, fun _ => rfl⟩
    | exact ⟨[_], rfl, fun h => nomatch h⟩
    | (rename_i hb; rw [hb]; exact ⟨[_], rfl, fun h => nomatch h⟩)
    | (rename_i ih; obtain ⟨c, h1, -⟩ := ih; exact ⟨_ :: c, congrArg (_ :: ·) h1, fun h => nomatch h⟩)

/-! ### `capture_node`, scalar branch -/

theorem capture_scalar (fuel : Nat) (c c' : De.Cur) (k : De.KeyNode) (v : List Char) (tag : Nat)
    (h : De.capture fuel c = .ok k c') (hfp : k.fp = .scalar v tag) :
    ∃ rt st a l, k.events = [.scalar v tag rt st a l] := by
  cases fuel with
  | zero => simp [De.capture] at h
  | succ fuel =>
    rw [De.capture] at h
    split at h
    · cases h
    · cases h
    · rename_i ev c1 _
      cases ev with
      | scalar v' tag' rt st a l =>
        simp only [De.R.ok.injEq] at h
        obtain ⟨rfl, -⟩ := h
        simp only [De.FP.scalar.injEq] at hfp
        obtain ⟨rfl, rfl⟩ := hfp
        exact ⟨rt, st, a, l, rfl⟩
      | seqStart a t rt l =>
        simp only at h
        split at h
        · cases h
        · simp only [De.R.ok.injEq] at h
          obtain ⟨rfl, -⟩ := h
          cases hfp
      | mapStart a l =>
        simp only at h
        split at h
        · cases h
        · simp only [De.R.ok.injEq] at h
          obtain ⟨rfl, -⟩ := h
          cases hfp
      | seqEnd l => cases h
      | mapEnd l => cases h

/-! ### `radix_and_digits` -/

theorem radix_eight (rest : List Char) (r : Nat) (ds : List Char)
    (h : radixAndDigits true rest = (r, ds)) (h8 : r = 8) :
    (∃ t, rest = '0' :: 'o' :: t) ∨ (∃ t, rest = '0' :: 'O' :: t) ∨ (∃ t, rest = '0' :: '0' :: t) := by
  subst h8
  unfold radixAndDigits at h
  split at h <;> simp_all

end SaphyrVerif.Lemmas.C01
