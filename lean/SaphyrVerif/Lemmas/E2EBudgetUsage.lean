import SaphyrVerif.Lemmas.E2EBudgetDoc
import SaphyrVerif.Lemmas.E2EBudgetSim
import SaphyrVerif.Lemmas.CurSimTree
import SaphyrVerif.Props.C07
/-!
End-to-end composition with the budget enforcer, part 16: acceptance by the independent counts.  The enforcer of
the pump over a single-document stream is shown (anchors and tags aside, alias calls aside) the stream of the
alias-free, anchor-free expansion `toNode n` of the document; `Props/C07` says when `Budget.run` accepts that stream
(`accepts_iff`) and what it reports (`report_eq_usage`); `feedObs_sim` carries both over to the pump's enforcer.
-/
namespace SaphyrVerif.Lemmas.E2EBudget
open SaphyrVerif SaphyrVerif.Scalars SaphyrVerif.Pump SaphyrVerif.Budget SaphyrVerif.De SaphyrVerif.Spec
open SaphyrVerif.Lemmas.C07 (Within defAfter nAnchors_eq)
open SaphyrVerif.Lemmas.C02 (noFoldedIndent)

set_option linter.unusedSimpArgs false
set_option linter.unusedVariables false

mutual
/-- the tree of the expansion as a document tree: every alias already replaced by its copy, without anchor marks
and tags (what the enforcer is shown of a replayed event; for the raw events anchors are counted separately and
tags only matter for the merge-key count, which can only grow by dropping them) -/
def toNode : ENode → Node
  | .scalar v _ _ st _ _ => .scalar v st 0 none
  | .seq _ _ _ _ _ items => .seq 0 none (toNodeL items)
  | .map _ _ _ entries => .map 0 none (toNodeE entries)
def toNodeL : List ENode → List Node
  | [] => []
  | n :: ns => toNode n :: toNodeL ns
def toNodeE : List (ENode × ENode) → List (Node × Node)
  | [] => []
  | (k, v) :: es => (toNode k, toNode v) :: toNodeE es
end

mutual
theorem flatten_toNode (n : ENode) : flatten (toNode n) = (eflatten n).map replayRaw := by
  match n with
  | .scalar v tag rt st a l => rfl
  | .seq a tag rt l el items =>
    simp only [toNode, flatten, eflatten, List.map_cons, List.map_append, List.map_nil, flattenL_toNode items]
    rfl
  | .map a l el entries =>
    simp only [toNode, flatten, eflatten, List.map_cons, List.map_append, List.map_nil, flattenE_toNode entries]
    rfl
theorem flattenL_toNode (ns : List ENode) : flattenL (toNodeL ns) = (eflattenL ns).map replayRaw := by
  match ns with
  | [] => rfl
  | n :: ns => simp only [toNodeL, flattenL, eflattenL, List.map_append, flatten_toNode n, flattenL_toNode ns]
theorem flattenE_toNode (es : List (ENode × ENode)) : flattenE (toNodeE es) = (eflattenE es).map replayRaw := by
  match es with
  | [] => rfl
  | (k, v) :: es =>
    simp only [toNodeE, flattenE, eflattenE, List.map_append, flatten_toNode k, flatten_toNode v, flattenE_toNode es]
end

/-- the usage of a document with anchors and aliases over raw + replayed events: the usage (`Spec.usage`, the
independent counts of `Spec/BudgetSpec.lean`) of the stream of its alias-free expansion — every delivered node,
raw or replayed, counts for events, nodes, depth, scalar bytes and merge keys —, plus one event and one alias per
alias item, with the anchors of the raw items -/
def usageWithReplay (t : LNode) (n : ENode) : Report :=
  let u := usage [toNode n]
  { u with events := u.events + nAliasItems (itemsOf t), aliases := nAliasItems (itemsOf t),
           anchors := nAnchors (itemRaws (itemsOf t)) }

theorem isAliasEv_replayRaw (e : Ev) : isAliasEv (replayRaw e) = false := by cases e <;> rfl

theorem nAliases_map_replayRaw (es : List Ev) : nAliases (es.map replayRaw) = 0 := by
  induction es with
  | nil => rfl
  | cons e es ih =>
    simp only [List.map_cons, C07.nAliases_cons, isAliasEv_replayRaw, C07.b2n, ih]
    rfl

theorem nAnchors_map_replayRaw (es : List Ev) : nAnchors (es.map replayRaw) = 0 := by
  have h : ∀ bs, defAfter bs (es.map replayRaw) = bs := by
    induction es with
    | nil => intro bs; rfl
    | cons e es ih =>
      intro bs
      simp only [List.map_cons, defAfter, anchorOf_replayRaw, C07.defIns_zero, ih]
  rw [nAnchors_eq, h]
  rfl

/-- the observations of a single-document run, anchors and tags erased, are the stream of the expansion -/
theorem xOf_doc (n : ENode) (O : List Obs) (hx : (rawsOf O).map erase = (eflatten n).map replayRaw) :
    (rawsOf ([.raw .streamStart, .raw (.docStart false)] ++ O ++ [.raw .docEnd, .raw .streamEnd])).map erase =
      flattenStream [toNode n] := by
  simp only [rawsOf_append, rawsOf, List.map_append, List.map_cons, List.map_nil, hx, erase, flattenStream,
    flattenDocs, flattenDoc, flatten_toNode, List.append_nil, List.cons_append, List.nil_append, List.append_assoc]

theorem usage_toNode_aliases (n : ENode) : (usage [toNode n]).aliases = 0 := by
  simp only [usage, flattenStream, flattenDocs, flattenDoc, flatten_toNode, List.append_nil]
  simp only [C07.nAliases_cons, nAliases, List.filter_append, List.length_append]
  have := nAliases_map_replayRaw (eflatten n)
  simp only [nAliases] at this
  simp [this, isAliasEv, C07.b2n]

theorem usage_toNode_anchors (n : ENode) : (usage [toNode n]).anchors = 0 := by
  simp only [usage, flattenStream, flattenDocs, flattenDoc, flatten_toNode, List.append_nil]
  rw [nAnchors_eq]
  have h : ∀ bs, defAfter bs ((eflatten n).map replayRaw) = bs := by
    generalize eflatten n = es
    induction es with
    | nil => intro bs; rfl
    | cons e es ih =>
      intro bs
      simp only [List.map_cons, defAfter, anchorOf_replayRaw, C07.defIns_zero, ih]
  simp [defAfter, C07.defAfter_append, h, anchorOf]

/-- every element of the stream of an expansion is a non-alias event -/
theorem stream_toNode_no_alias (n : ENode) : ∀ y ∈ flattenStream [toNode n], isAliasEv y = false := by
  intro y hy
  simp only [flattenStream, flattenDocs, flattenDoc, flatten_toNode, List.append_nil, List.mem_cons, List.mem_append,
    List.mem_map, List.mem_singleton, List.not_mem_nil, or_false] at hy
  rcases hy with h1 | (h1 | ⟨e, -, he⟩ | h1) | h1
  · rw [h1]; rfl
  · rw [h1]; rfl
  · rw [← he]; exact isAliasEv_replayRaw e
  · rw [h1]; rfl
  · rw [h1]; rfl

theorem no_alias_of_erased {xs : List Raw} {n : ENode} (h : xs.map erase = flattenStream [toNode n]) :
    ∀ r ∈ xs, isAliasEv r = false := by
  intro r hr
  have hmem : erase r ∈ flattenStream [toNode n] := by rw [← h]; exact List.mem_map_of_mem hr
  rw [← (erase_kinds r).2.2.2.2.1]
  exact stream_toNode_no_alias n _ hmem

theorem simRel_new (lim : Limits) (K : Nat) : SimRel lim K (Enf.new lim false) (Enf.new (limX lim K) false) 0 := by
  constructor <;> first | rfl | exact C07.within_new _ _ | exact Nat.le_refl _

/-- (enforcer level) the usage over raw + replayed events within the limits ⇒ the enforcer accepts everything the
pump shows it over the single-document stream, and its final ratio check passes -/
theorem enforcer_accepts_of_usage (t : LNode) (n : ENode) (O : List Obs)
    (hnal : nAl O = nAliasItems (itemsOf t)) (hno : noOcc O = true)
    (hanch : ∀ bs, defAfter bs (rawsOf O) = defAfter bs (itemRaws (itemsOf t)))
    (hx : (rawsOf O).map erase = (eflatten n).map replayRaw)
    (lim : Limits) (hlen : (flattenStream [toNode n]).length < 2 ^ 64)
    (hw : within lim (usageWithReplay t n) = true) (hr : ratioOk lim (usageWithReplay t n) = true)
    (hlimA : lim.maxAliases ≤ USIZE_MAX) :
    ∃ bf, feedObs (Enf.new lim false)
        ([.raw .streamStart, .raw (.docStart false)] ++ O ++ [.raw .docEnd, .raw .streamEnd]) = .ok bf ∧
      bf.finalize.2 = none := by
  have hX := xOf_doc n O hx
  have hua := usage_toNode_aliases n
  have hun := usage_toNode_anchors n
  rw [C07.within_iff] at hw
  simp only [usageWithReplay] at hw hr
  obtain ⟨w1, w2, w3, w4, w5, w6, w7, w8⟩ := hw
  -- the stripped stream is accepted under the reduced event limit
  have hwX : within (limX lim (nAliasItems (itemsOf t))) (usage [toNode n]) = true := by
    rw [C07.within_iff]
    simp only [limX, hua, hun]
    exact ⟨by omega, Nat.zero_le _, Nat.zero_le _, w4, w5, w6, w7, w8⟩
  obtain ⟨eX', hrun⟩ := (Props.C07.accepts_iff _ [toNode n] hlen).2 hwX
  -- the pump's enforcer follows
  have hnoAll : noOcc ([Obs.raw .streamStart, .raw (.docStart false)] ++ O ++ [.raw .docEnd, .raw .streamEnd]) = true := by
    simp [noOcc_append, noOcc, hno]
  have hnalAll : nAl ([Obs.raw .streamStart, .raw (.docStart false)] ++ O ++ [.raw .docEnd, .raw .streamEnd]) =
      nAliasItems (itemsOf t) := by
    simp [nAl_append, nAl, hnal]
  have hdefAll : defAfter [] (rawsOf ([Obs.raw .streamStart, .raw (.docStart false)] ++ O ++
      [.raw .docEnd, .raw .streamEnd])) = defAfter [] (itemRaws (itemsOf t)) := by
    simp [rawsOf_append, rawsOf, C07.defAfter_append, defAfter, anchorOf, hanch]
  obtain ⟨e', hf, hrel, hdef⟩ := feedObs_sim lim (nAliasItems (itemsOf t)) (by omega) w2 _ (Enf.new lim false)
    (Enf.new (limX lim (nAliasItems (itemsOf t))) false) eX' 0 0 hnoAll (no_alias_of_erased hX)
    (simRel_new lim _) (by rw [hnalAll]; omega)
    (by
      show (defAfter [] _).length ≤ _
      rw [hdefAll, ← nAnchors_eq]; exact w3)
    (by rw [hX]; exact hrun)
  refine ⟨e', hf, ?_⟩
  -- the ratio check
  have hdef' : e'.defined = defAfter [] (itemRaws (itemsOf t)) := by
    rw [hdef]; exact hdefAll
  have hal : e'.report.aliases = nAliasItems (itemsOf t) := by
    have := hrel.aliases
    rw [hnalAll] at this
    omega
  have hfst : e'.finalize.1.aliases = nAliasItems (itemsOf t) ∧
      e'.finalize.1.anchors = nAnchors (itemRaws (itemsOf t)) := by
    rw [C07.finalize_fst]
    exact ⟨hal, by simp only [hdef', nAnchors_eq]⟩
  rw [C07.finalize_snd _ hrel.pd_e, hrel.lim_e, hfst.1, hfst.2]
  have ha : nAliasItems (itemsOf t) ≤ USIZE_MAX := by omega
  simp only [ratioOk] at hr
  simp at hr ⊢
  intro h1 h2
  have := C07.gt_satMul (a := nAliasItems (itemsOf t)) lim.multiplier (nAnchors (itemRaws (itemsOf t))) ha
  rcases hr with (h3 | h3) | ⟨h3, h4⟩
  · rw [h1] at h3; cases h3
  · omega
  · exact ⟨h3, by omega⟩

/-- (pump level) the usage over raw + replayed events within the limits ⇒ the budgeted pump runs over the
single-document stream without a breach and its `finish()` is silent -/
theorem doc_brun_of_usage (L : AliasLimits) (t : LNode) (l0 l1 l2 l3 : Loc) (r : Exp) (n : ENode)
    (hnf : noFoldedIndent t = true) (hexp : expand [] [] t = .ok r)
    (hL1 : 1 ≤ L.maxReplayStackDepth) (hL2 : r.replayed ≤ L.maxTotalReplayedEvents)
    (hL3 : ∀ id, aliasCount id t ≤ L.maxAliasExpansionsPerAnchor)
    (hn : r.evs = eflatten n)
    (lim : Limits) (hlen : (flattenStream [toNode n]).length < 2 ^ 64)
    (hw : within lim (usageWithReplay t n) = true) (hr : ratioOk lim (usageWithReplay t n) = true)
    (hlimA : lim.maxAliases ≤ USIZE_MAX) :
    BRun (withBud { limits := L } (Enf.new lim false)) (docStream t l0 l1 l2 l3) r.evs := by
  obtain ⟨O, pf, hrun, a1, a2, a3, a4⟩ := doc_obs L t l0 l1 l2 l3 r hnf hexp hL1 hL2 hL3
  rw [hn] at a4
  obtain ⟨bf, hf, hfin⟩ := enforcer_accepts_of_usage t n O a1 a2 a3 a4 lim hlen hw hr hlimA
  refine (hrun (Enf.new lim false) bf hf).toBRun ?_
  show (Pump.finish (withBud pf bf)).1 = none
  rw [finish_withBud, hfin]
  rfl

end SaphyrVerif.Lemmas.E2EBudget
