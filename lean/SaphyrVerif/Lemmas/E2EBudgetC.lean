import SaphyrVerif.Lemmas.E2EBudgetDe
/-!
End-to-end composition with the budget enforcer, part 5c: the deserializer proper (`deser`), sequences
(`deserSeqLike`), mappings (`deserMapLike`, `mapEntries`, `structEntries`).
-/
namespace SaphyrVerif.Lemmas.E2EBudget
open SaphyrVerif SaphyrVerif.Scalars SaphyrVerif.Pump SaphyrVerif.Budget SaphyrVerif.De

set_option linter.unusedSimpArgs false
set_option linter.unusedVariables false
set_option linter.unusedSectionVars false

variable {P : BP} (hcl : Closed P)
include hcl

theorem deser_brStep {fuel : Nat} (ih : BA P fuel) :
    ∀ cfg ty ik km {c}, P.Inv c →
      BR P (De.deser (fuel + 1) cfg ty ik km c) (De.deser (fuel + 1) cfg ty ik km (strip c)) := by
  intro cfg ty ik km c hi
  cases ty <;> rw [De.deser, De.deser]
  all_goals b_loop

theorem deserMapLike_brStep {fuel : Nat} (ih : BA P fuel) :
    ∀ cfg shape {c}, P.Inv c →
      BR P (De.deserMapLike (fuel + 1) cfg shape c) (De.deserMapLike (fuel + 1) cfg shape (strip c)) := by
  intro cfg shape c hi
  rw [De.deserMapLike, De.deserMapLike]
  b_loop

theorem mapEntries_brStep {fuel : Nat} (ih : BA P fuel) :
    ∀ cfg kt vt m acc {c}, P.Inv c →
      BR P (De.mapEntries (fuel + 1) cfg kt vt c m acc) (De.mapEntries (fuel + 1) cfg kt vt (strip c) m acc) := by
  intro cfg kt vt m acc c hi
  rw [De.mapEntries, De.mapEntries]
  b_loop

theorem structEntries_brStep {fuel : Nat} (ih : BA P fuel) :
    ∀ cfg fields deny m acc {c}, P.Inv c →
      BR P (De.structEntries (fuel + 1) cfg fields deny c m acc)
        (De.structEntries (fuel + 1) cfg fields deny (strip c) m acc) := by
  intro cfg fields deny m acc c hi
  rw [De.structEntries, De.structEntries]
  b_loop

theorem deserSeqLike_brStep {fuel : Nat} (ih : BA P fuel) :
    ∀ cfg shape {c}, P.Inv c →
      BR P (De.deserSeqLike (fuel + 1) cfg shape c) (De.deserSeqLike (fuel + 1) cfg shape (strip c)) := by
  intro cfg shape c hi
  rcases shape with t | ts
  case inr =>
    rw [De.deserSeqLike, De.deserSeqLike]
    rcases hcl.peek_cases hi with ⟨o, d, hp, hp', hi1⟩ | ⟨e, d, hp, hp'⟩ | ⟨e, d, hp, hab, hb, hns⟩
    · rw [hp, hp']
      simp only []
      rcases o with _ | (⟨v, tag, rt, st, a, l⟩ | _ | _ | _ | _)
      case some.scalar =>
        by_cases h1 : (tag == tagNull || scalarIsNullish v st) = true
        · by_cases h3 : ts.isEmpty = true
          · simp only [h1, h3, ↓reduceIte, Bool.false_eq_true]
            b_loop
          · simp only [h1, h3, ↓reduceIte, Bool.false_eq_true]
            b_loop
        · by_cases h2 : (tag == tagBinary) = true
          · simp only [h1, h2, ↓reduceIte, Bool.false_eq_true]
            cases Base64.decode (utf8Bytes v) <;> simp only [] <;> b_loop
          · simp only [h1, h2, ↓reduceIte, Bool.false_eq_true]
            b_loop
      all_goals
        simp only []
        b_loop
    · rw [hp, hp']
      b_loop
    · rw [hp]
      b_loop
  rw [De.deserSeqLike, De.deserSeqLike]
  rcases hcl.peek_cases hi with ⟨o, d, hp, hp', hi1⟩ | ⟨e, d, hp, hp'⟩ | ⟨e, d, hp, hab, hb, hns⟩
  · rw [hp, hp']
    simp only []
    rcases o with _ | (⟨v, tag, rt, st, a, l⟩ | _ | _ | _ | _)
    case some.scalar =>
      by_cases h1 : (tag == tagNull || scalarIsNullish v st) = true
      · simp only [h1, ↓reduceIte, Bool.false_eq_true]
        b_loop
      · by_cases h2 : (tag == tagBinary) = true
        · simp only [h1, h2, ↓reduceIte, Bool.false_eq_true]
          cases Base64.decode (utf8Bytes v) <;> simp only [] <;> b_loop
        · simp only [h1, h2, ↓reduceIte, Bool.false_eq_true]
          b_loop
    all_goals
      simp only []
      b_loop
  · rw [hp, hp']
    b_loop
  · rw [hp]
    b_loop

end SaphyrVerif.Lemmas.E2EBudget
