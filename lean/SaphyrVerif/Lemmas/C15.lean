import SaphyrVerif.Model.Tls
/-!
Helper lemmas for C15 (`Props/C15.lean`): what `tight` and `covered` programs do to the fallback cell.
-/
namespace SaphyrVerif.Tls

/-- the value the cell will hold once the innermost map access is dropped -/
def restoreVal (s : Slot) (f : Option Loc) : Option Loc :=
  match s with
  | some prev => prev
  | none => f

@[simp] theorem restoreVal_none (f : Option Loc) : restoreVal none f = f := rfl
@[simp] theorem restoreVal_some (p f : Option Loc) : restoreVal (some p) f = p := rfl

/-- a computation keeps the fallback discipline: the restore value is unchanged, and without keys at its
own level (`ko = false`) the slot is unchanged as well (so the cell itself is unchanged) -/
def Keeps (ko : Bool) (f : Slot → St → Out × Slot × St) : Prop :=
  ∀ s st, restoreVal (f s st).2.1 (f s st).2.2.fallback = restoreVal s st.fallback ∧
    (ko = false → (f s st).2.1 = s)

theorem Keeps.body {f} (h : Keeps false f) (st : St) : (f none st).2.2.fallback = st.fallback := by
  have h1 := (h none st).1
  have h2 := (h none st).2 rfl
  rw [h2] at h1
  simpa using h1

theorem Keeps.comp {ko f} (h : Keeps ko f) (g : St → St) (hg : ∀ st, (g st).fallback = st.fallback) :
    Keeps ko (fun s st => f s (g st)) := by
  intro s st
  have := h s (g st)
  simpa [hg] using this

theorem andThen_keeps {ko : Bool} {r : Out × Slot × St} {post : St → St} {s : Slot}
    {k : Slot → St → Out × Slot × St} {fb : Option Loc}
    (hk : Keeps ko k) (hp : (post r.2.2).fallback = fb) :
    restoreVal (andThen r post s k).2.1 (andThen r post s k).2.2.fallback = restoreVal s fb ∧
      (ko = false → (andThen r post s k).2.1 = s) := by
  unfold andThen
  cases h : r.1 with
  | ok => simpa [hp] using hk s (post r.2.2)
  | err l => simp [hp]
  | panic => simp [hp]

theorem scopeThen_keeps {ko : Bool} {r : Out × Slot × St} {st : St} {cont : Bool} {s : Slot}
    {k : Slot → St → Out × Slot × St} (hk : Keeps ko k) :
    restoreVal (scopeThen r st cont s k).2.1 (scopeThen r st cont s k).2.2.fallback = restoreVal s st.fallback ∧
      (ko = false → (scopeThen r st cont s k).2.1 = s) := by
  unfold scopeThen
  cases r.1 with
  | ok => simpa using hk s { r.2.2 with anchors := st.anchors, fallback := st.fallback }
  | err l =>
    cases cont with
    | false => simp
    | true => simpa using hk s { r.2.2 with anchors := st.anchors, fallback := st.fallback, ptrs := st.ptrs }
  | panic => simp

theorem exec_keeps (p : Prog) : ∀ ko, tight ko p = true → Keeps ko (exec p) := by
  induction p with
  | done => intro ko _ s st; simp [exec]
  | probe k ih =>
    intro ko h s st
    simp only [tight] at h
    simpa [exec] using ih ko h s _
  | scope cont body k _ ihk =>
    intro ko h s st
    simp only [tight] at h
    simp only [exec]
    exact scopeThen_keeps (ihk ko h)
  | ctx kind anchor body k ihb ihk =>
    intro ko h s st
    simp only [tight, Bool.and_eq_true] at h
    cases anchor with
    | none =>
      simp only [exec]
      exact andThen_keeps (ihk ko h.2) (by simpa using (ihb false h.1).body st)
    | some id =>
      simp only [exec]
      exact andThen_keeps (ihk ko h.2)
        (by simpa using (ihb false h.1).body { st with anchors := st.anchors.push (kind, id) })
  | strong kind body k ihb ihk =>
    intro ko h s st
    simp only [tight, Bool.and_eq_true] at h
    have hb := ihb false h.1
    have hk := ihk ko h.2
    simp only [exec]
    split
    · exact andThen_keeps (hk.comp _ (fun _ => rfl)) (by simpa using hb.body st)
    · split
      · exact andThen_keeps (hk.comp _ (fun _ => rfl)) (by simpa using hb.body st)
      · split
        · simp
        · split
          · exact andThen_keeps (hk.comp _ (fun _ => rfl)) (by simpa using hb.body _)
          · exact andThen_keeps (hk.comp _ (fun _ => rfl)) (by simpa using hb.body st)
  | weak kind body k ihb ihk =>
    intro ko h s st
    simp only [tight, Bool.and_eq_true] at h
    have hb := ihb false h.1
    have hk := ihk ko h.2
    simp only [exec]
    split
    · simp
    · refine andThen_keeps (k := fun s st1 => _) ?_ (by simpa using hb.body st)
      intro s' st'
      simp only []
      split
      · simpa using hk s' _
      · simp
  | guard loc body k _ ihk =>
    intro ko h s st
    simp only [tight] at h
    simp only [exec]
    exact andThen_keeps (ihk ko h) rfl
  | ma leak body k ihb ihk =>
    intro ko h s st
    simp [tight] at h
  | key loc k ih =>
    intro ko h s st
    simp only [tight, Bool.and_eq_true] at h
    obtain ⟨hko, hk⟩ := h
    subst hko
    cases s with
    | none =>
      have := ih true hk (some st.fallback) { st with fallback := some loc }
      simpa [exec] using this
    | some prev =>
      have := ih true hk (some prev) { st with fallback := some loc }
      simpa [exec] using this
  | serr => intro ko _ s st; simp [exec]
  | err loc => intro ko _ s st; simp [exec]
  | panic => intro ko _ s st; simp [exec]
  | nest body k ihb ihk =>
    intro ko h s st
    simp only [tight, Bool.and_eq_true] at h
    have hb := (ihb false h.1).body { anchors := st.anchors, fallback := st.fallback }
    simp only [exec]
    have := ihk ko h.2 s
      { st with anchors := (exec body none { anchors := st.anchors, fallback := st.fallback }).2.2.anchors,
                fallback := (exec body none { anchors := st.anchors, fallback := st.fallback }).2.2.fallback,
                trace := st.trace ++ [.nestBegin] ++ (exec body none { anchors := st.anchors, fallback := st.fallback }).2.2.trace ++
                  [.nestEnd (exec body none { anchors := st.anchors, fallback := st.fallback }).1
                    (exec body none { anchors := st.anchors, fallback := st.fallback }).2.2.ptrs] }
    simpa [hb] using this
  | recAlias id loc k ih =>
    intro ko h s st
    simp only [tight] at h
    simp only [exec]
    split
    · exact ih ko h s st
    · simp

/-! ## Entry points: every document inside `with_document_scope` (save / restore of both thread-locals) -/

/-- replace the thread-local part of a state -/
def St.withTls (st : St) (a : Anchors) (f : Option Loc) : St := { st with anchors := a, fallback := f }

/-- A top-level call neither reads nor (in the end) changes the thread-locals it is entered with: run from
ANY entry value `(a, f)` it does what it does from `st`, and hands `(a, f)` back. -/
theorem exec_entry_tls (p : Prog) : isEntry p = true → ∀ (s : Slot) (st : St) (a : Anchors) (f : Option Loc),
    exec p s (st.withTls a f) = ((exec p s st).1, (exec p s st).2.1, (exec p s st).2.2.withTls a f) := by
  induction p with
  | done => intro _ s st a f; simp [exec, St.withTls]
  | err loc => intro _ s st a f; simp [exec, St.withTls]
  | scope cont body k _ ihk =>
    intro h s st a f
    simp only [isEntry] at h
    simp only [exec]
    show scopeThen (exec body none { st with anchors := .empty, fallback := none }) (st.withTls a f) cont s (exec k) = _
    unfold scopeThen
    cases (exec body none { st with anchors := .empty, fallback := none }).1 with
    | ok =>
      exact ihk h s { (exec body none { st with anchors := .empty, fallback := none }).2.2 with
        anchors := st.anchors, fallback := st.fallback } a f
    | err l =>
      cases cont with
      | false => rfl
      | true =>
        exact ihk h s { (exec body none { st with anchors := .empty, fallback := none }).2.2 with
          anchors := st.anchors, fallback := st.fallback, ptrs := st.ptrs } a f
    | panic => rfl
  | probe | ctx | strong | weak | guard | ma | key | serr | panic | nest | recAlias => intro h; simp [isEntry] at h

/-- … and from `st` itself it ends with the thread-locals of `st` -/
theorem exec_entry_final (p : Prog) : isEntry p = true → ∀ (s : Slot) (st : St),
    (exec p s st).2.2.anchors = st.anchors ∧ (exec p s st).2.2.fallback = st.fallback := by
  induction p with
  | done => intro _ s st; simp [exec]
  | err loc => intro _ s st; simp [exec]
  | scope cont body k _ ihk =>
    intro h s st
    simp only [isEntry] at h
    simp only [exec]
    unfold scopeThen
    cases (exec body none { st with anchors := .empty, fallback := none }).1 with
    | ok => simpa using ihk h s { (exec body none { st with anchors := .empty, fallback := none }).2.2 with
        anchors := st.anchors, fallback := st.fallback }
    | err l =>
      cases cont with
      | false => simp
      | true => simpa using ihk h s { (exec body none { st with anchors := .empty, fallback := none }).2.2 with
          anchors := st.anchors, fallback := st.fallback, ptrs := st.ptrs }
    | panic => simp
  | probe | ctx | strong | weak | guard | ma | key | serr | panic | nest | recAlias => intro h; simp [isEntry] at h

theorem runCall_restores (p : Prog) (he : isEntry p = true) (t : Tls) : (runCall p t).2 = t := by
  have h := exec_entry_final p he none { anchors := t.anchors, fallback := t.fallback }
  cases t
  simp only [runCall, Tls.mk.injEq]
  exact h

theorem runCall_result_indep (p : Prog) (he : isEntry p = true) (t : Tls) :
    (runCall p t).1 = (runCall p Tls.init).1 := by
  have h := exec_entry_tls p he none ({} : St) t.anchors t.fallback
  simp only [runCall, Tls.init]
  rw [show ({ anchors := t.anchors, fallback := t.fallback } : St) = St.withTls {} t.anchors t.fallback from rfl, h]
  rfl

/-! ## The trace is write-only -/

def St.pre (pre : List Item) (st : St) : St := { st with trace := pre ++ st.trace }

def addPre (pre : List Item) (r : Out × Slot × St) : Out × Slot × St := (r.1, r.2.1, r.2.2.pre pre)

/-- a computation only appends to the trace -/
def TP (k : Slot → St → Out × Slot × St) : Prop := ∀ pre s st, k s (st.pre pre) = addPre pre (k s st)

theorem andThen_tp {pre : List Item} {r : Out × Slot × St} {post post' : St → St} {s : Slot}
    {k : Slot → St → Out × Slot × St} (hp : post' (r.2.2.pre pre) = (post r.2.2).pre pre) (hk : TP k) :
    andThen (addPre pre r) post' s k = addPre pre (andThen r post s k) := by
  unfold andThen
  simp only [addPre, hp]
  cases r.1 with
  | ok => exact hk pre s _
  | err l => rfl
  | panic => rfl

theorem scopeThen_tp {pre : List Item} {r : Out × Slot × St} {st : St} {cont : Bool} {s : Slot}
    {k : Slot → St → Out × Slot × St} (hk : TP k) :
    scopeThen (addPre pre r) (st.pre pre) cont s k = addPre pre (scopeThen r st cont s k) := by
  obtain ⟨o, sl, rs⟩ := r
  cases o with
  | ok => exact hk pre s { rs with anchors := st.anchors, fallback := st.fallback }
  | err l =>
    cases cont with
    | false => rfl
    | true => exact hk pre s { rs with anchors := st.anchors, fallback := st.fallback, ptrs := st.ptrs }
  | panic => rfl

theorem TP.comp {k} (h : TP k) (g : St → St) (hg : ∀ pre st, g (st.pre pre) = (g st).pre pre) :
    TP (fun s st => k s (g st)) := by
  intro pre s st
  show k s (g (st.pre pre)) = addPre pre (k s (g st))
  rw [hg]
  exact h pre s (g st)

theorem exec_tp (p : Prog) : TP (exec p) := by
  induction p with
  | done => intro pre s st; rfl
  | probe k ih =>
    intro pre s st
    have := ih pre s { st with trace := st.trace ++ [.obs st.anchors st.fallback] }
    simpa [exec, St.pre, List.append_assoc] using this
  | scope cont body k ihb ihk =>
    intro pre s st
    have hb := ihb pre none { st with anchors := .empty, fallback := none }
    simp only [exec]
    change scopeThen (exec body none (St.pre pre { st with anchors := .empty, fallback := none })) (st.pre pre) cont s (exec k) = _
    rw [hb]
    exact scopeThen_tp ihk
  | ctx kind anchor body k ihb ihk =>
    intro pre s st
    cases anchor with
    | none =>
      simp only [exec]
      rw [ihb pre none st]
      exact andThen_tp rfl ihk
    | some id =>
      simp only [exec]
      have := ihb pre none { st with anchors := st.anchors.push (kind, id) }
      change andThen (exec body none (St.pre pre { st with anchors := st.anchors.push (kind, id) })) _ s (exec k) = _
      rw [this]
      exact andThen_tp rfl ihk
  | strong kind body k ihb ihk =>
    intro pre s st
    simp only [exec]
    rw [show (St.pre pre st).anchors = st.anchors from rfl]
    cases st.anchors.current kind with
    | none =>
      dsimp only
      rw [ihb pre none st]
      refine andThen_tp rfl (ihk.comp _ ?_)
      intro _ _; rfl
    | some id =>
      dsimp only
      cases st.anchors.get (kind, id) with
      | some p =>
        dsimp only
        rw [ihb pre none st]
        refine andThen_tp rfl (ihk.comp _ ?_)
        intro _ _; rfl
      | none =>
        dsimp only
        cases st.anchors.reentrant (kind, id) with
        | true => rfl
        | false =>
          simp only [Bool.false_eq_true, if_false]
          cases kind.isRec with
          | true =>
            simp only [if_true]
            have := ihb pre none { st with next := st.next + 1, anchors := st.anchors.put (kind, id) st.next }
            change andThen (exec body none (St.pre pre { st with next := st.next + 1, anchors := st.anchors.put (kind, id) st.next })) _ s _ = _
            rw [this]
            refine andThen_tp rfl (ihk.comp _ ?_)
            intro _ _; rfl
          | false =>
            simp only [Bool.false_eq_true, if_false]
            rw [ihb pre none st]
            refine andThen_tp rfl (ihk.comp _ ?_)
            intro _ _; rfl
  | weak kind body k ihb ihk =>
    intro pre s st
    simp only [exec]
    rw [show (St.pre pre st).anchors = st.anchors from rfl]
    cases st.anchors.current kind with
    | none => rfl
    | some id =>
      dsimp only
      rw [ihb pre none st]
      refine andThen_tp rfl ?_
      intro pre' s' st'
      dsimp only
      rw [show (St.pre pre' st').anchors = st'.anchors from rfl]
      cases st'.anchors.get (kind, id) with
      | some p => exact ihk pre' s' { st' with ptrs := st'.ptrs ++ [p] }
      | none => rfl
  | guard loc body k ihb ihk =>
    intro pre s st
    simp only [exec]
    have := ihb pre none { st with fallback := some loc }
    change andThen (exec body none (St.pre pre { st with fallback := some loc })) _ s (exec k) = _
    rw [this]
    exact andThen_tp rfl ihk
  | ma leak body k ihb ihk =>
    intro pre s st
    simp only [exec]
    rw [ihb pre none st]
    refine andThen_tp ?_ ihk
    simp only [addPre, dropMa]
  | key loc k ih =>
    intro pre s st
    cases s with
    | none => simpa [exec, St.pre] using ih pre (some st.fallback) { st with fallback := some loc }
    | some p => simpa [exec, St.pre] using ih pre (some p) { st with fallback := some loc }
  | serr => intro pre s st; rfl
  | err loc => intro pre s st; rfl
  | panic => intro pre s st; rfl
  | nest body k _ ihk =>
    intro pre s st
    simp only [exec]
    have := ihk pre s
      { st with anchors := (exec body none { anchors := st.anchors, fallback := st.fallback }).2.2.anchors,
                fallback := (exec body none { anchors := st.anchors, fallback := st.fallback }).2.2.fallback,
                trace := st.trace ++ [.nestBegin] ++ (exec body none { anchors := st.anchors, fallback := st.fallback }).2.2.trace ++
                  [.nestEnd (exec body none { anchors := st.anchors, fallback := st.fallback }).1
                    (exec body none { anchors := st.anchors, fallback := st.fallback }).2.2.ptrs] }
    simpa [St.pre, List.append_assoc] using this
  | recAlias id loc k ih =>
    intro pre s st
    simp only [exec]
    rw [show (St.pre pre st).anchors = st.anchors from rfl]
    cases st.anchors.recInProgress id with
    | true => simpa using ih pre s st
    | false => rfl

/-- outcome, slot and everything but the trace do not depend on the trace a computation starts with -/
theorem exec_trace_irrelevant (p : Prog) (s : Slot) (st : St) (tr : List Item) :
    (exec p s { st with trace := tr }).1 = (exec p s { st with trace := [] }).1 ∧
    (exec p s { st with trace := tr }).2.2.ptrs = (exec p s { st with trace := [] }).2.2.ptrs ∧
    (exec p s { st with trace := tr }).2.2.anchors = (exec p s { st with trace := [] }).2.2.anchors ∧
    (exec p s { st with trace := tr }).2.2.fallback = (exec p s { st with trace := [] }).2.2.fallback := by
  have := exec_tp p tr s { st with trace := [] }
  simp only [St.pre, List.append_nil] at this
  rw [this]
  exact ⟨rfl, rfl, rfl, rfl⟩

end SaphyrVerif.Tls
