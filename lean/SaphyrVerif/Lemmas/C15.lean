import SaphyrVerif.Model.Tls
/-!
Helper lemmas for C15 (`Props/C15.lean`): what `tight` and `covered` programs do to the fallback cell.
-/
namespace SaphyrVerif.Tls

/-- the value the cell will hold once the innermost map access is dropped -/
def restoreVal (s : Slot) (f : Option Loc) : Option Loc :=
  match s with
  | some prev => prev
  | none => f

@[simp] theorem restoreVal_none (f : Option Loc) : restoreVal none f = f := rfl
@[simp] theorem restoreVal_some (p f : Option Loc) : restoreVal (some p) f = p := rfl

/-- a computation keeps the fallback discipline: the restore value is unchanged, and without keys at its
own level (`ko = false`) the slot is unchanged as well (so the cell itself is unchanged) -/
def Keeps (ko : Bool) (f : Slot → St → Out × Slot × St) : Prop :=
  ∀ s st, restoreVal (f s st).2.1 (f s st).2.2.fallback = restoreVal s st.fallback ∧
    (ko = false → (f s st).2.1 = s)

theorem Keeps.body {f} (h : Keeps false f) (st : St) : (f none st).2.2.fallback = st.fallback := by
  have h1 := (h none st).1
  have h2 := (h none st).2 rfl
  rw [h2] at h1
  simpa using h1

theorem Keeps.comp {ko f} (h : Keeps ko f) (g : St → St) (hg : ∀ st, (g st).fallback = st.fallback) :
    Keeps ko (fun s st => f s (g st)) := by
  intro s st
  have := h s (g st)
  simpa [hg] using this

theorem andThen_keeps {ko : Bool} {r : Out × Slot × St} {post : St → St} {s : Slot}
    {k : Slot → St → Out × Slot × St} {fb : Option Loc}
    (hk : Keeps ko k) (hp : (post r.2.2).fallback = fb) :
    restoreVal (andThen r post s k).2.1 (andThen r post s k).2.2.fallback = restoreVal s fb ∧
      (ko = false → (andThen r post s k).2.1 = s) := by
  unfold andThen
  cases h : r.1 with
  | ok => simpa [hp] using hk s (post r.2.2)
  | err l => simp [hp]
  | panic => simp [hp]

theorem exec_keeps (p : Prog) : ∀ ko, tight ko p = true → Keeps ko (exec p) := by
  induction p with
  | done => intro ko _ s st; simp [exec]
  | probe k ih =>
    intro ko h s st
    simp only [tight] at h
    simpa [exec] using ih ko h s _
  | scope cont body k ihb ihk =>
    intro ko h s st
    simp only [tight, Bool.and_eq_true] at h
    have hb := (ihb false h.1).body { st with anchors := .empty }
    have hk := ihk ko h.2
    simp only [exec]
    cases hr : (exec body none { st with anchors := .empty }).1 with
    | ok =>
      have := hk s { (exec body none { st with anchors := .empty }).2.2 with anchors := .empty }
      simpa [hb] using this
    | err l =>
      cases cont with
      | false => simp [hb]
      | true =>
        have := hk s { (exec body none { st with anchors := .empty }).2.2 with anchors := .empty, ptrs := st.ptrs }
        simpa [hb] using this
    | panic => simp [hb]
  | ctx kind anchor body k ihb ihk =>
    intro ko h s st
    simp only [tight, Bool.and_eq_true] at h
    cases anchor with
    | none =>
      simp only [exec]
      exact andThen_keeps (ihk ko h.2) (by simpa using (ihb false h.1).body st)
    | some id =>
      simp only [exec]
      exact andThen_keeps (ihk ko h.2)
        (by simpa using (ihb false h.1).body { st with anchors := st.anchors.push (kind, id) })
  | strong kind body k ihb ihk =>
    intro ko h s st
    simp only [tight, Bool.and_eq_true] at h
    have hb := ihb false h.1
    have hk := ihk ko h.2
    simp only [exec]
    split
    · exact andThen_keeps (hk.comp _ (fun _ => rfl)) (by simpa using hb.body st)
    · split
      · exact andThen_keeps (hk.comp _ (fun _ => rfl)) (by simpa using hb.body st)
      · split
        · simp
        · split
          · exact andThen_keeps (hk.comp _ (fun _ => rfl)) (by simpa using hb.body _)
          · exact andThen_keeps (hk.comp _ (fun _ => rfl)) (by simpa using hb.body st)
  | weak kind body k ihb ihk =>
    intro ko h s st
    simp only [tight, Bool.and_eq_true] at h
    have hb := ihb false h.1
    have hk := ihk ko h.2
    simp only [exec]
    split
    · simp
    · refine andThen_keeps (k := fun s st1 => _) ?_ (by simpa using hb.body st)
      intro s' st'
      simp only []
      split
      · simpa using hk s' _
      · simp
  | guard loc body k _ ihk =>
    intro ko h s st
    simp only [tight] at h
    simp only [exec]
    exact andThen_keeps (ihk ko h) rfl
  | ma leak body k ihb ihk =>
    intro ko h s st
    simp only [tight, Bool.and_eq_true, Bool.not_eq_true'] at h
    obtain ⟨⟨hl, hb⟩, hk⟩ := h
    subst hl
    simp only [exec]
    refine andThen_keeps (ihk ko hk) ?_
    have := (ihb true hb none st).1
    simp only [restoreVal_none] at this
    rw [← this]
    simp only [dropMa]
    cases (exec body none st).2.1 <;> simp
  | key loc k ih =>
    intro ko h s st
    simp only [tight, Bool.and_eq_true] at h
    obtain ⟨hko, hk⟩ := h
    subst hko
    cases s with
    | none =>
      have := ih true hk (some st.fallback) { st with fallback := some loc }
      simpa [exec] using this
    | some prev =>
      have := ih true hk (some prev) { st with fallback := some loc }
      simpa [exec] using this
  | serr => intro ko _ s st; simp [exec]
  | err loc => intro ko _ s st; simp [exec]
  | panic => intro ko _ s st; simp [exec]
  | nest body k ihb ihk =>
    intro ko h s st
    simp only [tight, Bool.and_eq_true] at h
    have hb := (ihb false h.1).body { anchors := st.anchors, fallback := st.fallback }
    simp only [exec]
    have := ihk ko h.2 s
      { st with anchors := (exec body none { anchors := st.anchors, fallback := st.fallback }).2.2.anchors,
                fallback := (exec body none { anchors := st.anchors, fallback := st.fallback }).2.2.fallback,
                trace := st.trace ++ [.nestBegin] ++ (exec body none { anchors := st.anchors, fallback := st.fallback }).2.2.trace ++
                  [.nestEnd (exec body none { anchors := st.anchors, fallback := st.fallback }).1
                    (exec body none { anchors := st.anchors, fallback := st.fallback }).2.2.ptrs] }
    simpa [hb] using this
  | recAlias id loc k ih =>
    intro ko h s st
    simp only [tight] at h
    simp only [exec]
    split
    · exact ih ko h s st
    · simp

/-! ## Independence of the entry value of the fallback cell (`covered` programs) -/

/-- forget the slot and the cell -/
def erase (r : Out × Slot × St) : Out × St := (r.1, { r.2.2 with fallback := none })

theorem erase_eq_iff (a b : Out × Slot × St) :
    erase a = erase b ↔ a.1 = b.1 ∧ b.2.2 = { a.2.2 with fallback := b.2.2.fallback } := by
  obtain ⟨ao, as, ast⟩ := a
  obtain ⟨bo, bs, bst⟩ := b
  cases ast; cases bst
  simp only [erase, Prod.mk.injEq, St.mk.injEq]
  constructor
  · rintro ⟨h1, h2, -, h3, h4, h5⟩; exact ⟨h1, h2.symm, trivial, h3.symm, h4.symm, h5.symm⟩
  · rintro ⟨h1, h2, -, h3, h4, h5⟩; exact ⟨h1, h2.symm, trivial, h3.symm, h4.symm, h5.symm⟩

theorem dropMa_false_eq (s : Slot) (st : St) :
    dropMa false s st = { st with fallback := restoreVal s st.fallback } := by
  cases s <;> simp [dropMa]

/-- the two runs (entry cell `st.fallback` resp. `f₂`, any slots) agree on everything but slot and cell -/
def Cov (c : Bool) (k : Slot → St → Out × Slot × St) : Prop :=
  ∀ s₁ s₂ st f₂, (c = true → f₂ = st.fallback) → erase (k s₁ st) = erase (k s₂ { st with fallback := f₂ })

theorem Cov.comp {c k} (h : Cov c k) (g : St → St)
    (hg : ∀ st f, g { st with fallback := f } = { g st with fallback := f })
    (hf : ∀ st, (g st).fallback = st.fallback) : Cov c (fun s st => k s (g st)) := by
  intro s₁ s₂ st f₂ hc
  show erase (k s₁ (g st)) = erase (k s₂ (g { st with fallback := f₂ }))
  have e := h s₁ s₂ (g st) f₂ (by rw [hf]; exact hc)
  rw [← hg st f₂] at e
  exact e

theorem andThen_cov {c : Bool} {r₁ r₂ : Out × Slot × St} {post₁ post₂ : St → St} {s₁ s₂ : Slot}
    {k : Slot → St → Out × Slot × St} {fb₂ : Option Loc}
    (ho : r₂.1 = r₁.1) (hst : post₂ r₂.2.2 = { post₁ r₁.2.2 with fallback := fb₂ })
    (hfb : c = true → fb₂ = (post₁ r₁.2.2).fallback) (hk : Cov c k) :
    erase (andThen r₁ post₁ s₁ k) = erase (andThen r₂ post₂ s₂ k) := by
  unfold andThen
  rw [ho, hst]
  cases r₁.1 with
  | ok => exact hk _ _ _ _ hfb
  | err l => simp [erase]
  | panic => simp [erase]

/-- a body (run with a fresh slot) of a tight program: outcome and everything but the cell agree, and each
run restores its own entry value of the cell -/
theorem body_cov {body : Prog} {c : Bool} (ht : tight false body = true) (ih : Cov c (exec body))
    (st : St) (f₂ : Option Loc) (hc : c = true → f₂ = st.fallback) :
    (exec body none { st with fallback := f₂ }).1 = (exec body none st).1 ∧
    (exec body none { st with fallback := f₂ }).2.2 = { (exec body none st).2.2 with fallback := f₂ } ∧
    (exec body none st).2.2.fallback = st.fallback := by
  have e := (erase_eq_iff _ _).1 (ih none none st f₂ hc)
  have k1 := (exec_keeps body false ht).body st
  have k2 := (exec_keeps body false ht).body { st with fallback := f₂ }
  refine ⟨e.1.symm, ?_, k1⟩
  rw [e.2, k2]

theorem exec_covered (p : Prog) : ∀ ko c, tight ko p = true → covered c p = true → Cov c (exec p) := by
  induction p with
  | done => intro ko c _ _ s₁ s₂ st f₂ _; simp [exec, erase]
  | probe k ih =>
    intro ko c ht hc s₁ s₂ st f₂ hf
    simp only [tight] at ht
    simp only [covered, Bool.and_eq_true] at hc
    have hf' := hf hc.1
    subst hf'
    simpa [exec] using ih ko c ht hc.2 s₁ s₂ _ _ (fun _ => rfl)
  | scope cont body k ihb ihk =>
    intro ko c ht hc s₁ s₂ st f₂ hf
    simp only [tight, Bool.and_eq_true] at ht
    simp only [covered, Bool.and_eq_true] at hc
    obtain ⟨h1, h2, h3⟩ := body_cov ht.1 (ihb false c ht.1 hc.1) { st with anchors := .empty } f₂ hf
    have hk := ihk ko c ht.2 hc.2
    simp only [exec]
    have e : ({ st with fallback := f₂ } : St) = { st with fallback := f₂ } := rfl
    change erase _ = erase (match (exec body none { ({ st with anchors := .empty } : St) with fallback := f₂ }).1 with
      | .ok => _ | .err l => _ | .panic => _)
    rw [h1]
    cases hr : (exec body none { st with anchors := .empty }).1 with
    | ok =>
      simp only
      have := hk s₁ s₂ { (exec body none { st with anchors := .empty }).2.2 with anchors := .empty } f₂
        (by simpa [h3] using hf)
      simpa [h2] using this
    | err l =>
      cases cont with
      | false => simp [erase, h2]
      | true =>
        simp only [if_true]
        have := hk s₁ s₂ { (exec body none { st with anchors := .empty }).2.2 with anchors := .empty, ptrs := st.ptrs } f₂
          (by simpa [h3] using hf)
        simpa [h2] using this
    | panic => simp [erase, h2]
  | ctx kind anchor body k ihb ihk =>
    intro ko c ht hc s₁ s₂ st f₂ hf
    simp only [tight, Bool.and_eq_true] at ht
    simp only [covered, Bool.and_eq_true] at hc
    have hk := ihk ko c ht.2 hc.2
    cases anchor with
    | none =>
      obtain ⟨h1, h2, h3⟩ := body_cov ht.1 (ihb false c ht.1 hc.1) st f₂ hf
      simp only [exec]
      exact andThen_cov h1 (by simpa using h2) (by simpa [h3] using hf) hk
    | some id =>
      obtain ⟨h1, h2, h3⟩ := body_cov ht.1 (ihb false c ht.1 hc.1) { st with anchors := st.anchors.push (kind, id) } f₂ hf
      simp only [exec]
      exact andThen_cov (fb₂ := f₂) h1 (by rw [h2]) (by simpa [h3] using hf) hk
  | strong kind body k ihb ihk =>
    intro ko c ht hc s₁ s₂ st f₂ hf
    simp only [tight, Bool.and_eq_true] at ht
    simp only [covered, Bool.and_eq_true] at hc
    have hk := ihk ko c ht.2 hc.2
    have hbody := fun st' hf' => body_cov ht.1 (ihb false c ht.1 hc.1) st' f₂ hf'
    simp only [exec]
    split
    · obtain ⟨h1, h2, h3⟩ := hbody st hf
      exact andThen_cov (fb₂ := f₂) h1 (by rw [h2]) (by simpa [h3] using hf) (hk.comp _ (fun _ _ => rfl) (fun _ => rfl))
    · split
      · obtain ⟨h1, h2, h3⟩ := hbody st hf
        exact andThen_cov (fb₂ := f₂) h1 (by rw [h2]) (by simpa [h3] using hf) (hk.comp _ (fun _ _ => rfl) (fun _ => rfl))
      · split
        · simp [erase]
        · split
          · obtain ⟨h1, h2, h3⟩ := hbody { st with next := st.next + 1, anchors := st.anchors.put (kind, _) st.next } hf
            exact andThen_cov (fb₂ := f₂) h1 (by rw [h2]) (by simpa [h3] using hf) (hk.comp _ (fun _ _ => rfl) (fun _ => rfl))
          · obtain ⟨h1, h2, h3⟩ := hbody st hf
            exact andThen_cov (fb₂ := f₂) h1 (by rw [h2]) (by simpa [h3] using hf) (hk.comp _ (fun _ _ => rfl) (fun _ => rfl))
  | weak kind body k ihb ihk =>
    intro ko c ht hc s₁ s₂ st f₂ hf
    simp only [tight, Bool.and_eq_true] at ht
    simp only [covered, Bool.and_eq_true] at hc
    have hk := ihk ko c ht.2 hc.2
    simp only [exec]
    split
    · simp [erase]
    · obtain ⟨h1, h2, h3⟩ := body_cov ht.1 (ihb false c ht.1 hc.1) st f₂ hf
      refine andThen_cov (fb₂ := f₂) h1 (by rw [h2]) (by simpa [h3] using hf) ?_
      intro t₁ t₂ st' f' hf'
      simp only []
      split
      · exact hk t₁ t₂ _ f' hf'
      · simp [erase]
  | guard loc body k _ ihk =>
    intro ko c ht hc s₁ s₂ st f₂ hf
    simp only [tight] at ht
    simp only [covered] at hc
    simp only [exec]
    exact andThen_cov (fb₂ := f₂) rfl rfl (by simpa using hf) (ihk ko c ht hc)
  | ma leak body k ihb ihk =>
    intro ko c ht hc s₁ s₂ st f₂ hf
    simp only [tight, Bool.and_eq_true, Bool.not_eq_true'] at ht
    simp only [covered, Bool.and_eq_true] at hc
    obtain ⟨⟨hl, htb⟩, htk⟩ := ht
    subst hl
    have e := (erase_eq_iff _ _).1 (ihb true c htb hc.1 none none st f₂ hf)
    have k1 := (exec_keeps body true htb none st).1
    have k2 := (exec_keeps body true htb none { st with fallback := f₂ }).1
    simp only [restoreVal_none] at k1 k2
    simp only [exec]
    have d1 : (dropMa false (exec body none st).2.1 (exec body none st).2.2) =
        { (exec body none st).2.2 with fallback := st.fallback } := by
      rw [dropMa_false_eq, k1]
    have d2 : (dropMa false (exec body none { st with fallback := f₂ }).2.1 (exec body none { st with fallback := f₂ }).2.2) =
        { (exec body none { st with fallback := f₂ }).2.2 with fallback := f₂ } := by
      rw [dropMa_false_eq, k2]
    refine andThen_cov (fb₂ := f₂) e.1.symm ?_ (by rw [d1]; simpa using hf) (ihk ko c htk hc.2)
    rw [d1, d2, e.2]
  | key loc k ih =>
    intro ko c ht hc s₁ s₂ st f₂ _
    simp only [tight, Bool.and_eq_true] at ht
    simp only [covered] at hc
    have hk := ih ko true ht.2 hc
    have key : ∀ t₁ t₂, erase (exec k t₁ { st with fallback := some loc }) = erase (exec k t₂ { st with fallback := some loc }) := by
      intro t₁ t₂
      simpa using hk t₁ t₂ { st with fallback := some loc } (some loc) (fun _ => rfl)
    cases s₁ <;> cases s₂ <;> simp only [exec] <;> exact key _ _
  | serr =>
    intro ko c _ hc s₁ s₂ st f₂ hf
    simp only [covered] at hc
    have := hf hc
    subst this
    simp [exec, erase]
  | err loc => intro ko c _ _ s₁ s₂ st f₂ _; simp [exec, erase]
  | panic => intro ko c _ _ s₁ s₂ st f₂ _; simp [exec, erase]
  | nest body k ihb ihk =>
    intro ko c ht hc s₁ s₂ st f₂ hf
    simp only [tight, Bool.and_eq_true] at ht
    simp only [covered, Bool.and_eq_true] at hc
    obtain ⟨h1, h2, h3⟩ := body_cov ht.1 (ihb false c ht.1 hc.1) { anchors := st.anchors, fallback := st.fallback } f₂ hf
    have hk := ihk ko c ht.2 hc.2
    simp only [exec]
    change erase _ = erase (exec k s₂
      { st with anchors := (exec body none { ({ anchors := st.anchors, fallback := st.fallback } : St) with fallback := f₂ }).2.2.anchors,
                fallback := (exec body none { ({ anchors := st.anchors, fallback := st.fallback } : St) with fallback := f₂ }).2.2.fallback,
                trace := st.trace ++ [.nestBegin] ++ (exec body none { ({ anchors := st.anchors, fallback := st.fallback } : St) with fallback := f₂ }).2.2.trace ++
                  [.nestEnd (exec body none { ({ anchors := st.anchors, fallback := st.fallback } : St) with fallback := f₂ }).1
                    (exec body none { ({ anchors := st.anchors, fallback := st.fallback } : St) with fallback := f₂ }).2.2.ptrs] })
    rw [h1, h2]
    have := hk s₁ s₂
      { st with anchors := (exec body none { anchors := st.anchors, fallback := st.fallback }).2.2.anchors,
                fallback := (exec body none { anchors := st.anchors, fallback := st.fallback }).2.2.fallback,
                trace := st.trace ++ [.nestBegin] ++ (exec body none { anchors := st.anchors, fallback := st.fallback }).2.2.trace ++
                  [.nestEnd (exec body none { anchors := st.anchors, fallback := st.fallback }).1
                    (exec body none { anchors := st.anchors, fallback := st.fallback }).2.2.ptrs] } f₂
      (by simpa [h3] using hf)
    simpa using this
  | recAlias id loc k ih =>
    intro ko c ht hc s₁ s₂ st f₂ hf
    simp only [tight] at ht
    simp only [covered] at hc
    simp only [exec]
    split
    · exact ih ko c ht hc s₁ s₂ st f₂ hf
    · simp [erase]

/-! ## Entry points: every document inside `with_document_scope` -/

/-- a call that begins with a document scope does not see the anchor state it is entered with -/
theorem exec_scope_entry_anchors (cont : Bool) (b k : Prog) (s : Slot) (st : St) (a : Anchors) :
    exec (.scope cont b k) s { st with anchors := a } = exec (.scope cont b k) s st := by
  simp only [exec]

theorem entry_final_anchors (p : Prog) : isEntry p = true → ∀ s st, st.anchors = .empty →
    (exec p s st).2.2.anchors = .empty := by
  induction p with
  | done => intro _ s st h; simpa [exec] using h
  | err loc => intro _ s st h; simpa [exec] using h
  | scope cont body k _ ihk =>
    intro h s st _
    simp only [isEntry] at h
    simp only [exec]
    cases (exec body none { st with anchors := .empty }).1 with
    | ok => exact ihk h _ _ rfl
    | err l =>
      cases cont with
      | false => simp
      | true => exact ihk h _ _ rfl
    | panic => simp
  | probe | ctx | strong | weak | guard | ma | key | serr | panic | nest | recAlias => intro h; simp [isEntry] at h

theorem runCall_clean (p : Prog) (he : isEntry p = true) (ht : tight false p = true) (t : Tls)
    (ha : t.anchors = .empty) : (runCall p t).2 = t := by
  have h1 := entry_final_anchors p he none { anchors := t.anchors, fallback := t.fallback } ha
  have h2 := (exec_keeps p false ht).body { anchors := t.anchors, fallback := t.fallback }
  cases t
  simp only [runCall, Tls.mk.injEq]
  exact ⟨h1.trans ha.symm, h2⟩

end SaphyrVerif.Tls
