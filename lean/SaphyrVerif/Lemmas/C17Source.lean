import SaphyrVerif.Lemmas.C17Rows
import SaphyrVerif.Lemmas.C17Breaks
/-!
Helper lemmas for C17, part 6: `crop_window_text` and `crop_source_window` as a whole.
-/
namespace SaphyrVerif.Lemmas.C17
open SaphyrVerif SaphyrVerif.Snippet
open SaphyrVerif.Spec.Snippet (isControl sanitizeChar clean takeRows dropRows)

/-! ### sanitising keeps line structure -/

theorem sanitizeChar_nl (c : Char) : sanitizeChar c = '\n' ↔ c = '\n' := by
  constructor
  · intro h
    by_cases hc : isControl c = false
    · rw [sanitizeChar_id c hc] at h; exact h
    · unfold sanitizeChar at h
      simp only [] at h
      split at h
      · exact absurd h (by decide)
      · split at h
        · exact absurd h (by decide)
        · exact h
  · intro h; rw [h]; decide

theorem sanitize_count_nl (s : List Char) : (Spec.Snippet.sanitize s).count '\n' = s.count '\n' := by
  unfold Spec.Snippet.sanitize
  induction s with
  | nil => rfl
  | cons c cs ih =>
    rw [List.map_cons, count_nl_cons, count_nl_cons, ih]
    by_cases hc : c = '\n'
    · rw [if_pos hc, if_pos ((sanitizeChar_nl c).mpr hc)]
    · rw [if_neg hc, if_neg (fun h => hc ((sanitizeChar_nl c).mp h))]

theorem sanitize_getLast_nl (s : List Char) (h : s.getLast? = some '\n') :
    (Spec.Snippet.sanitize s).getLast? = some '\n' := by
  unfold Spec.Snippet.sanitize
  rw [List.getLast?_map, h]
  rfl

theorem sanitize_blen (s : List Char) : blen (Spec.Snippet.sanitize s) = blen s := by
  unfold Spec.Snippet.sanitize
  induction s with
  | nil => rfl
  | cons c cs ih => rw [List.map_cons, blen_cons, blen_cons, ih, sanitizeChar_len]

theorem sanitize_spec_clean (s : List Char) : clean (Spec.Snippet.sanitize s) = true := by
  unfold clean Spec.Snippet.sanitize
  rw [List.all_map, List.all_eq_true]
  intro c _
  simp [sanitizeChar_clean c]

/-! ### `crop_window_text` -/

/-- (safety) `crop_window_text` never panics; its text is terminal-clean; the returned span is ordered
and inside the text (on the fast path: whenever the given span was). -/
theorem cropWindowText_safe (w : List Char) (wsr erow ecol r ls le : Nat)
    (hw : w.length + 1 ≤ usizeMax) (hc : ecol ≤ usizeMax) :
    ∃ out ns ne, cropWindowText w wsr erow ecol r ls le = .ok (out, ns, ne) ∧ clean out = true ∧
      ((ls ≤ le ∧ le ≤ blen w) → (ns ≤ ne ∧ ne ≤ blen out)) := by
  unfold cropWindowText
  by_cases hfast : r = 0 ∧ ¬ (encode w).contains 0x0D = true ∧ isClean w = true
  · rw [if_pos hfast]
    refine ⟨w, ls, le, rfl, ?_, fun h => h⟩
    rw [← isClean_eq]; exact hfast.2.2
  · rw [if_neg hfast]
    obtain ⟨st', hst⟩ := cwtLoop_safe w erow (r != 0) (max (ecol - r) 1) (satAdd ecol r) ls le hw
      (caller_window_ok ecol r hc) (blen w) ⟨0, wsr, [], ls, le, false⟩ [] w rfl rfl (Nat.le_refl _)
    simp only [res_bind_ok]
    rw [hst]
    simp only [res_bind_ok, sanitize_eq, res_pure]
    refine ⟨_, _, _, rfl, sanitize_spec_clean _, ?_⟩
    intro _
    rw [sanitize_blen]
    split <;> (simp only []; split <;> omega)

/-! ### the storage-crop loop of `crop_source_window` -/

theorem cropLinePure_struct (line : List Char) (left right : Nat) :
    ∃ le mid re, (cropLinePure line left right).1 = le ++ mid ++ re ∧ mid <:+: line ∧
      (le = [] ∨ le = [ellipsis]) ∧ (re = [] ∨ re = [ellipsis]) := by
  unfold cropLinePure
  simp only []
  split
  · exact ⟨[], [], [], rfl, List.nil_infix, .inl rfl, .inl rfl⟩
  · split
    · exact ⟨[], line, [], by simp, List.infix_refl _, .inl rfl, .inl rfl⟩
    · split
      · exact ⟨[], line, [], by simp, List.infix_refl _, .inl rfl, .inl rfl⟩
      · refine ⟨_, _, _, rfl, take_drop_infix _ _ _, ?_, ?_⟩
        · split <;> simp
        · split <;> simp

theorem ellipsis_ne_nl : ellipsis ≠ '\n' := by decide

theorem count_nl_zero_of_not_mem (l : List Char) (h : '\n' ∉ l) : l.count '\n' = 0 :=
  List.count_eq_zero.mpr h

theorem cropLinePure_count_nl (line : List Char) (left right : Nat) (h : '\n' ∉ line) :
    ((cropLinePure line left right).1).count '\n' = 0 := by
  obtain ⟨le, mid, re, e, hin, hl, hr⟩ := cropLinePure_struct line left right
  rw [e]
  apply count_nl_zero_of_not_mem
  intro hm
  rcases List.mem_append.mp hm with h1 | h1
  · rcases List.mem_append.mp h1 with h2 | h2
    · rcases hl with hl | hl
      · rw [hl] at h2; cases h2
      · rw [hl] at h2; simp at h2; exact ellipsis_ne_nl h2.symm
    · exact h (hin.subset h2)
  · rcases hr with hr | hr
    · rw [hr] at h1; cases h1
    · rw [hr] at h1; simp at h1; exact ellipsis_ne_nl h1.symm

theorem not_mem_stripCR (l : List Char) (h : '\n' ∉ l) : '\n' ∉ stripCR l := by
  unfold stripCR
  split
  · intro hm; exact h (List.dropLast_subset l hm)
  · exact h

theorem colToByte_getD_len' (line : List Char) (c : Nat) (h1 : 1 ≤ c) :
    (colToByte line c).getD (blen line) = blen (line.take (c - 1)) := by
  rw [colToByte_eq]
  by_cases h : c - 1 ≤ line.length
  · rw [if_pos ⟨h1, h⟩]; rfl
  · rw [if_neg (by omega)]
    rw [List.take_of_length_le (by omega)]; rfl

/-- (safety + line structure) the storage-crop loop never panics, keeps the number of line breaks and
a final line break -/
theorem cswLoop_spec (w : List Char) (errorRow leftCol rightCol : Nat)
    (hw : w.length + 1 ≤ usizeMax) (hwb : blen w ≤ usizeMax) (hlr : leftCol ≤ satAdd rightCol 1) :
    ∀ (fuel : Nat) (oldPos row : Nat) (out p rest : List Char), w = p ++ rest → oldPos = blen p → blen rest ≤ fuel →
      ∃ out', cswLoop w errorRow leftCol rightCol fuel oldPos row out = .ok out' ∧
        out'.count '\n' = out.count '\n' + rest.count '\n' ∧ (rest = [] → out' = out) ∧
        (rest ≠ [] → rest.getLast? = some '\n' → out'.getLast? = some '\n') := by
  intro fuel
  induction fuel with
  | zero =>
    intro oldPos row out p rest hwp hpos hfuel
    have : rest = [] := blen_eq_zero rest (by omega)
    subst this
    unfold cswLoop
    rw [hwp, hpos]
    simp
  | succ fuel ih =>
    intro oldPos row out p rest hwp hpos hfuel
    unfold cswLoop
    by_cases hlt : oldPos < blen w
    · rw [if_pos hlt]
      have hrest : rest ≠ [] := by
        intro h; rw [h, List.append_nil] at hwp; rw [hwp, hpos] at hlt; omega
      have hline_len : ∀ l : List Char, l.length ≤ w.length → (stripCR l).length + 1 ≤ usizeMax := by
        intro l hl
        have := stripCR_length_le l
        omega
      -- the piece appended for one line: no line break inside
      have herr : ∀ (line : List Char), '\n' ∉ line →
          slice line 0 ((colToByte line (satAdd rightCol 1)).getD (blen line)) "crop_source_window:line[..end_byte]" =
            .ok (line.take (satAdd rightCol 1 - 1)) ∧
          ∀ fl : List Char, (fl = [] ∨ fl = [ellipsis]) → (line.take (satAdd rightCol 1 - 1) ++ fl).count '\n' = 0 := by
        intro line hnl'
        constructor
        · rw [colToByte_getD_len' _ _ (satAdd_one_pos rightCol)]
          have hs := slice_take line 0 (satAdd rightCol 1 - 1) "crop_source_window:line[..end_byte]" (Nat.zero_le _)
          simp only [List.take_zero, blen_nil, List.drop_zero] at hs
          exact hs
        · intro fl hfl
          apply count_nl_zero_of_not_mem
          intro hm
          rcases List.mem_append.mp hm with h1 | h1
          · exact hnl' (List.take_subset _ _ h1)
          · rcases hfl with hfl | hfl
            · rw [hfl] at h1; cases h1
            · rw [hfl] at h1; simp at h1; exact ellipsis_ne_nl h1.symm
      rcases nextLine_spec p rest "crop_source_window" with ⟨hnone, hnl⟩ | ⟨pre, post, e, hnopre, hnl⟩
      · rw [hwp, hpos, hnl]
        simp only [res_bind_ok]
        have hl : rest.length ≤ w.length := by rw [hwp, List.length_append]; omega
        have hnl' := not_mem_stripCR rest hnone
        -- the next iteration stops: old_pos = len
        have hstop : ∀ piece : List Char, piece.count '\n' = 0 →
            ∃ out', cswLoop (p ++ rest) errorRow leftCol rightCol fuel (satAdd (blen p) (blen (p ++ rest) - blen p))
                (satAdd row 1) (out ++ piece) = .ok out' ∧
              out'.count '\n' = out.count '\n' + rest.count '\n' ∧ (rest = [] → out' = out) ∧
              (rest ≠ [] → rest.getLast? = some '\n' → out'.getLast? = some '\n') := by
          intro piece hcnt
          have hle := blen_append p rest
          obtain ⟨out', h1, h2, _, _⟩ := ih (satAdd (blen p) (blen (p ++ rest) - blen p)) (satAdd row 1) (out ++ piece) (p ++ rest) []
            (by rw [hwp]; simp) (by rw [satAdd_eq _ _ (by rw [hwp] at hwb; omega)]; omega) (by simp)
          rw [hwp] at h1
          refine ⟨out', h1, ?_, fun h => absurd h hrest, ?_⟩
          · rw [h2, List.count_append, hcnt, count_nl_zero_of_not_mem rest hnone]; simp
          · intro _ hlast
            exact absurd (List.mem_of_getLast? hlast) hnone
        by_cases hrow : row = errorRow
        · rw [if_pos hrow]
          obtain ⟨hs, hc⟩ := herr (stripCR rest) hnl'
          rw [hs]
          simp only [res_bind_ok, res_pure, Bool.false_eq_true, if_false, List.append_nil, List.append_assoc]
          have := hstop (List.take (satAdd rightCol 1 - 1) (stripCR rest) ++
            if decide (blen (List.take (satAdd rightCol 1 - 1) (stripCR rest)) < blen (stripCR rest)) = true then [ellipsis] else [])
            (hc _ (by split <;> simp))
          rw [colToByte_getD_len' _ _ (satAdd_one_pos rightCol)]
          exact this
        · rw [if_neg hrow]
          rw [cropLine_eq _ _ _ (hline_len rest hl) hlr]
          simp only [res_bind_ok, res_pure, Bool.false_eq_true, if_false, List.append_nil]
          exact hstop _ (cropLinePure_count_nl _ _ _ hnl')
      · rw [hwp, hpos, hnl]
        simp only [res_bind_ok]
        have hl : pre.length ≤ w.length := by
          rw [hwp, e, List.length_append, List.length_append]; omega
        have hnl' := not_mem_stripCR pre hnopre
        have hb : blen p + (blen pre + 1) ≤ usizeMax := by
          rw [hwp, e, blen_append, blen_append, blen_cons] at hwb
          have : utf8LenChar '\n' = 1 := by decide
          omega
        have hstep : ∀ piece : List Char, piece.count '\n' = 0 →
            ∃ out', cswLoop (p ++ rest) errorRow leftCol rightCol fuel (satAdd (blen p) (blen pre + 1))
                (satAdd row 1) (out ++ piece ++ ['\n']) = .ok out' ∧
              out'.count '\n' = out.count '\n' + rest.count '\n' ∧ (rest = [] → out' = out) ∧
              (rest ≠ [] → rest.getLast? = some '\n' → out'.getLast? = some '\n') := by
          intro piece hcnt
          obtain ⟨out', h1, h2, h3, h4⟩ := ih (satAdd (blen p) (blen pre + 1)) (satAdd row 1) (out ++ piece ++ ['\n']) (p ++ pre ++ ['\n']) post
            (by rw [hwp, e]; simp) (by rw [satAdd_eq _ _ hb, blen_append, blen_append]; rfl) (by
              rw [e, blen_append, blen_cons] at hfuel
              have : utf8LenChar '\n' = 1 := by decide
              omega)
          rw [hwp] at h1
          refine ⟨out', h1, ?_, fun h => absurd h hrest, ?_⟩
          · rw [h2, e]
            simp only [List.count_append, List.count_cons, List.count_nil, hcnt,
              count_nl_zero_of_not_mem pre hnopre]
            simp; omega
          · intro _ hlast
            by_cases hpost : post = []
            · rw [h3 hpost]; simp
            · apply h4 hpost
              rw [e] at hlast
              cases post with
              | nil => exact absurd rfl hpost
              | cons x xs =>
                rw [List.getLast?_append, List.getLast?_cons_cons] at hlast
                cases hq : (x :: xs).getLast? with
                | none => simp at hq
                | some y => rw [hq] at hlast; simpa using hlast
        by_cases hrow : row = errorRow
        · rw [if_pos hrow]
          obtain ⟨hs, hc⟩ := herr (stripCR pre) hnl'
          rw [hs]
          simp only [res_bind_ok, res_pure, if_true, List.append_assoc]
          have := hstep (List.take (satAdd rightCol 1 - 1) (stripCR pre) ++
            if decide (blen (List.take (satAdd rightCol 1 - 1) (stripCR pre)) < blen (stripCR pre)) = true then [ellipsis] else [])
            (hc _ (by split <;> simp))
          rw [colToByte_getD_len' _ _ (satAdd_one_pos rightCol)]
          simp only [List.append_assoc] at this
          exact this
        · rw [if_neg hrow]
          rw [cropLine_eq _ _ _ (hline_len pre hl) hlr]
          simp only [res_bind_ok, res_pure, if_true]
          exact hstep _ (cropLinePure_count_nl _ _ _ hnl')
    · rw [if_neg hlt]
      have : rest = [] := by
        apply blen_eq_zero
        rw [hwp, hpos, blen_append] at hlt
        omega
      subst this
      exact ⟨out, rfl, by simp, fun _ => rfl, fun h => absurd rfl h⟩

/-! ### `crop_source_window` -/

theorem stripBom_cons (c : Char) (cs : List Char) :
    stripBom (c :: cs) = if c.toNat = 0xFEFF then cs else c :: cs := rfl

theorem stripBom_length_le (t : List Char) : (stripBom t).length ≤ t.length := by
  cases t with
  | nil => simp [stripBom]
  | cons c cs =>
    rw [stripBom_cons]
    by_cases h : c.toNat = 0xFEFF
    · rw [if_pos h]; simp
    · rw [if_neg h]; simp

theorem stripBom_blen_le (t : List Char) : blen (stripBom t) ≤ blen t := by
  cases t with
  | nil => simp [stripBom]
  | cons c cs =>
    rw [stripBom_cons]
    by_cases h : c.toNat = 0xFEFF
    · rw [if_pos h, blen_cons]; omega
    · rw [if_neg h]; omega

theorem takeRows_length_le (k : Nat) (s : List Char) : (takeRows k s).length ≤ s.length := by
  have := congrArg List.length (takeRows_append_dropRows k s)
  rw [List.length_append] at this; omega

theorem dropRows_length_le (k : Nat) (s : List Char) : (dropRows k s).length ≤ s.length := by
  have := congrArg List.length (takeRows_append_dropRows k s)
  rw [List.length_append] at this; omega

theorem takeRows_blen_le (k : Nat) (s : List Char) : blen (takeRows k s) ≤ blen s := by
  have := congrArg blen (takeRows_append_dropRows k s)
  rw [blen_append] at this; omega

theorem dropRows_blen_le (k : Nat) (s : List Char) : blen (dropRows k s) ≤ blen s := by
  have := congrArg blen (takeRows_append_dropRows k s)
  rw [blen_append] at this; omega

theorem normBreaks_stripBom_length_le (t : List Char) : (normBreaks (stripBom t)).length ≤ t.length := by
  rw [normBreaks_length]; exact stripBom_length_le t

theorem normBreaks_stripBom_blen_le (t : List Char) : blen (normBreaks (stripBom t)) ≤ blen t := by
  rw [normBreaks_blen]; exact stripBom_blen_le t

/-- what `crop_source_window` returns: nothing, or the rows `ws..=we` (of the BOM-stripped text with its
line breaks normalised) around the (relative) error row `rel` — verbatim, or (storage crop of very long lines) with every row cropped horizontally and
sanitised, the number of rows kept. Never a panic. -/
theorem cropSourceWindow_spec (text0 : List Char) (loc : Snippet.Loc) (m : Mapping) (r : Nat)
    (hlen : text0.length + 1 ≤ usizeMax) (hb : blen text0 ≤ usizeMax) (hcol : loc.column ≤ usizeMax) :
    ∃ out sl, cropSourceWindow text0 loc m r = .ok (out, sl) ∧
      (out = [] ∨
       ∃ rel ws we, relativeRow m loc.line = some rel ∧ 1 ≤ ws ∧ ws ≤ rel ∧ rel ≤ we ∧
          we ≤ (normBreaks (stripBom text0)).count '\n' + 1 ∧ we - ws ≤ 2 * ctxLines ∧ sl = absoluteRow m ws ∧
          we = min (satAdd rel ctxLines) ((normBreaks (stripBom text0)).count '\n' + 1) ∧
          (out = takeRows (we - (ws - 1)) (dropRows (ws - 1) (normBreaks (stripBom text0))) ∨
           (out.count '\n' = (takeRows (we - (ws - 1)) (dropRows (ws - 1) (normBreaks (stripBom text0)))).count '\n' ∧
            ((takeRows (we - (ws - 1)) (dropRows (ws - 1) (normBreaks (stripBom text0)))).getLast? = some '\n' →
                out.getLast? = some '\n') ∧
            clean out = true))) := by
  unfold cropSourceWindow
  by_cases h0 : text0.isEmpty = true ∨ loc.isUnknown = true
  · rw [if_pos h0]; exact ⟨[], 1, rfl, .inl rfl⟩
  · rw [if_neg h0]
    simp only []
    cases hrel : relativeRow m loc.line with
    | none => exact ⟨[], _, rfl, .inl rfl⟩
    | some rel =>
      simp only []
      by_cases h1 : (lineStarts (normBreaks (stripBom text0))).isEmpty = true
      · rw [if_pos h1]; exact ⟨[], 1, rfl, .inl rfl⟩
      · rw [if_neg h1]
        have hne : normBreaks (stripBom text0) ≠ [] := fun h => h1 ((lineStarts_nil_iff _).mpr h)
        rw [lineStarts_length _ hne]
        by_cases h2 : rel = 0 ∨ rel > (normBreaks (stripBom text0)).count '\n' + 1
        · rw [if_pos h2]; exact ⟨[], _, rfl, .inl rfl⟩
        · rw [if_neg h2]
          have hrel_le : rel ≤ usizeMax := by
            have := length_le_blen (normBreaks (stripBom text0))
            have h3 : (normBreaks (stripBom text0)).count '\n' ≤ (normBreaks (stripBom text0)).length := List.count_le_length
            have := normBreaks_stripBom_length_le text0
            omega
          obtain ⟨f1, f2, f3, f4, f5⟩ := windowRows_facts rel ((normBreaks (stripBom text0)).count '\n' + 1) (by omega) (by omega) hrel_le
          have f6 : (windowRows rel ((normBreaks (stripBom text0)).count '\n' + 1)).2 =
              min (satAdd rel ctxLines) ((normBreaks (stripBom text0)).count '\n' + 1) := rfl
          generalize hws : (windowRows rel ((normBreaks (stripBom text0)).count '\n' + 1)).1 = ws at f1 f2 f3 f4 f5
          generalize hwe : (windowRows rel ((normBreaks (stripBom text0)).count '\n' + 1)).2 = we at f1 f2 f3 f4 f5 f6
          have hpair : windowRows rel ((normBreaks (stripBom text0)).count '\n' + 1) = (ws, we) := by
            rw [← hws, ← hwe]
          obtain ⟨hwb, hsl⟩ := window_slice (normBreaks (stripBom text0)) hne ws we f1 (by omega) f4 "crop_source_window"
            "crop_source_window:text[window_start..window_end]"
          rw [hwb]
          simp only [res_bind_ok]
          rw [hsl]
          simp only [res_bind_ok]
          generalize hw : takeRows (we - (ws - 1)) (dropRows (ws - 1) (normBreaks (stripBom text0))) = w
          have hwlen : w.length ≤ text0.length := by
            rw [← hw]
            have a1 := takeRows_length_le (we - (ws - 1)) (dropRows (ws - 1) (normBreaks (stripBom text0)))
            have a2 := dropRows_length_le (ws - 1) (normBreaks (stripBom text0))
            have a3 := normBreaks_stripBom_length_le text0
            omega
          have hwblen : blen w ≤ blen text0 := by
            rw [← hw]
            have a1 := takeRows_blen_le (we - (ws - 1)) (dropRows (ws - 1) (normBreaks (stripBom text0)))
            have a2 := dropRows_blen_le (ws - 1) (normBreaks (stripBom text0))
            have a3 := normBreaks_stripBom_blen_le text0
            omega
          have hcommon : ∀ out : List Char, (out = w ∨ (out.count '\n' = w.count '\n' ∧
                (w.getLast? = some '\n' → out.getLast? = some '\n') ∧ clean out = true)) →
              (out = [] ∨ ∃ rel' ws' we', some rel = some rel' ∧ 1 ≤ ws' ∧ ws' ≤ rel' ∧ rel' ≤ we' ∧
                we' ≤ (normBreaks (stripBom text0)).count '\n' + 1 ∧ we' - ws' ≤ 2 * ctxLines ∧ absoluteRow m ws = absoluteRow m ws' ∧
                we' = min (satAdd rel' ctxLines) ((normBreaks (stripBom text0)).count '\n' + 1) ∧
                (out = takeRows (we' - (ws' - 1)) (dropRows (ws' - 1) (normBreaks (stripBom text0))) ∨
                 (out.count '\n' = (takeRows (we' - (ws' - 1)) (dropRows (ws' - 1) (normBreaks (stripBom text0)))).count '\n' ∧
                  ((takeRows (we' - (ws' - 1)) (dropRows (ws' - 1) (normBreaks (stripBom text0)))).getLast? = some '\n' →
                      out.getLast? = some '\n') ∧ clean out = true))) := by
            intro out ho
            right
            exact ⟨rel, ws, we, rfl, f1, f2, f3, f4, f5, rfl, f6, by rw [hw]; exact ho⟩
          by_cases hr0 : r = 0
          · rw [if_pos hr0]
            exact ⟨w, _, rfl, hcommon w (.inl rfl)⟩
          · rw [if_neg hr0]
            split
            · exact ⟨w, _, rfl, hcommon w (.inl rfl)⟩
            · obtain ⟨out', hloop, hcnt, _, hlast⟩ := cswLoop_spec w rel (max (loc.column - r) 1) (satAdd loc.column r)
                (by omega) (by omega) (caller_window_ok loc.column r hcol) (blen w) 0 ws [] [] w rfl rfl (Nat.le_refl _)
              rw [hloop]
              simp only [res_bind_ok, sanitize_eq, res_pure]
              refine ⟨_, _, rfl, hcommon _ (.inr ⟨?_, ?_, sanitize_spec_clean _⟩)⟩
              · rw [sanitize_count_nl, hcnt]; simp
              · intro hl
                apply sanitize_getLast_nl
                apply hlast _ hl
                intro hnil; rw [hnil] at hl; cases hl

theorem stripBom_count_nl (t : List Char) : (stripBom t).count '\n' = t.count '\n' := by
  cases t with
  | nil => rfl
  | cons c cs =>
    rw [stripBom_cons]
    by_cases h : c.toNat = 0xFEFF
    · rw [if_pos h, count_nl_cons, if_neg (by intro hc; rw [hc] at h; revert h; decide)]; rfl
    · rw [if_neg h]

theorem normBreaks_stripBom_count_nl (t : List Char) :
    (normBreaks (stripBom t)).count '\n' = (normBreaks t).count '\n' := by
  rw [normBreaks_stripBom, stripBom_count_nl]

/-- `line_count_including_trailing_empty_line` of a non-empty text is its number of line breaks
(LF, CRLF, lone CR: the line feeds of the normalised text) + 1 -/
theorem lineCount_eq (t : List Char) (h : t ≠ []) : lineCount t = (normBreaks t).count '\n' + 1 := by
  unfold lineCount
  simp only []
  have hn : normBreaks t ≠ [] := fun h0 => h ((normBreaks_eq_nil t).mp h0)
  generalize normBreaks t = u at hn
  have he : u.isEmpty = false := by cases u <;> simp_all
  rw [he]
  simp only [Bool.false_eq_true, if_false]
  by_cases hl : u.getLast? = some '\n'
  · rw [if_pos hl, if_pos hl]
    have : 1 ≤ u.count '\n' := List.count_pos_iff.mpr (List.mem_of_getLast? hl)
    omega
  · rw [if_neg hl, if_neg hl]; omega

end SaphyrVerif.Lemmas.C17
