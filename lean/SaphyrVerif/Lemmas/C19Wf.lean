import SaphyrVerif.Lemmas.C19Ast
import SaphyrVerif.Lemmas.C19Float
import SaphyrVerif.Lemmas.C19Literal
/-!
C19: every value the evaluator computes is a well-formed binary64 value; hence a chain of unary signs in
an accepted expression is IEEE negation applied once per '-'.
-/
set_option linter.unusedSimpArgs false
namespace SaphyrVerif.Lemmas.C19
open SaphyrVerif SaphyrVerif.F64 SaphyrVerif.Robotics SaphyrVerif.Spec.Robotics

theorem fromStr_wf64 (s : List Nat) (v : Fl) (h : fromStr F s = some v) : WF F v := by
  cases s with
  | nil => simp [fromStr] at h
  | cons c r =>
    simp only [fromStr] at h
    generalize (if (c == 45 || c == 43) = true then r else c :: r) = body at h
    by_cases he : body.isEmpty = true
    · simp [he] at h
    · simp only [he, Bool.false_eq_true, ↓reduceIte] at h
      cases hp : parseDecimal body with
      | some t =>
        obtain ⟨m, nd, x⟩ := t
        rw [hp] at h
        simp only [Option.some.injEq] at h
        rw [← h]
        exact C19L.decRound_wf64 _ _ _ _
      | none =>
        rw [hp] at h
        simp only [] at h
        split at h
        · cases h; trivial
        · split at h
          · cases h; trivial
          · cases h

theorem hlift_ok {α} {d : Nat} {r : HRes α} {a : α} (h : HRes.lift d r = .ok a) : r = .ok a := by
  cases r <;> simp_all [HRes.lift]

theorem trySexagesimal_wf (tag : Nat) (st : St) (v : Fl) (u p : Bool) (st' : St)
    (h : trySexagesimal tag st = .ok (some ((v, u, p), st'))) : WF F v := by
  unfold trySexagesimal at h
  simp only [] at h
  split at h
  · cases h
  split at h
  · cases h
  obtain ⟨⟨pre1, rest1, degWhole, d1⟩, _, h⟩ := bind_ok h
  simp only [] at h
  split at h
  · obtain ⟨⟨pre2, rest2, minsU, d2⟩, _, h⟩ := bind_ok h
    simp only [] at h
    split at h
    · cases h
    · obtain ⟨⟨preE, restE, secs, total⟩, _, h⟩ := bind_ok h
      simp only [] at h
      split at h
      · cases h
      · split at h
        · split at h <;> (cases h; first | exact C19F.mul_wf C19F.ok64 _ _ | exact C19F.add_wf C19F.ok64 _ _)
        · split at h <;> (cases h; exact C19F.add_wf C19F.ok64 _ _)
  · cases h

theorem parseNumberOrSpecial_wf (tag : Nat) (st : St) (v : Fl) (u p : Bool) (st' : St)
    (h : parseNumberOrSpecial tag st = .ok ((v, u, p), st')) : WF F v := by
  unfold parseNumberOrSpecial at h
  split at h
  · obtain ⟨⟨p1, r1⟩, _, h⟩ := bind_ok h
    cases h; trivial
  · split at h
    · obtain ⟨⟨p1, r1⟩, _, h⟩ := bind_ok h
      cases h; trivial
    · obtain ⟨sx, hsx, h⟩ := bind_ok h
      split at h
      · rename_i res
        cases h
        exact trySexagesimal_wf tag st v u p st' hsx
      · obtain ⟨n1, _, h⟩ := bind_ok h
        obtain ⟨n2, _, h⟩ := bind_ok h
        obtain ⟨n3, _, h⟩ := bind_ok h
        simp only [] at h
        split at h
        · split at h
          · cases h
          · split at h
            · rename_i v' hf
              cases h
              exact fromStr_wf64 _ _ hf
            · cases h
        · split at h
          · rename_i v' hf
            cases h
            exact fromStr_wf64 _ _ hf
          · cases h

theorem pi_wf : WF F PI := by
  unfold PI
  exact ⟨by decide, by decide, by decide, Or.inl (by decide)⟩

theorem const_wf (c : Const) : WF F c.value := by
  cases c
  · exact pi_wf
  · show WF binary64 (mul binary64 TWO PI)
    exact C19F.mul_wf C19F.ok64 _ _
  · trivial
  · trivial

mutual
  theorem Expr.eval_wf (tag : Nat) (tm : Bool) : ∀ (e : Expr) (k : List Nat), e.lexOk tag tm k → WF F e.eval.1
    | .term t, k, h => Term.eval_wf tag tm t k h
    | .add _ _ _, _, _ => C19F.add_wf C19F.ok64 _ _
    | .sub _ _ _, _, _ => C19F.sub_wf C19F.ok64 _ _
  theorem Term.eval_wf (tag : Nat) (tm : Bool) : ∀ (t : Term) (k : List Nat), t.lexOk tag tm k → WF F t.eval.1
    | .un u, k, h => Unary.eval_wf tag tm u k h
    | .mul _ _ _, _, _ => C19F.mul_wf C19F.ok64 _ _
    | .div _ _ _, _, _ => C19F.div_wf C19F.ok64 _ _
  theorem Unary.eval_wf (tag : Nat) (tm : Bool) : ∀ (u : Unary) (k : List Nat), u.lexOk tag tm k → WF F u.eval.1
    | .mk _ _ _, _, _ => C19F.mul_wf C19F.ok64 _ _
  theorem Primary.eval_wf (tag : Nat) (tm : Bool) : ∀ (p : Primary) (k : List Nat), p.lexOk tag tm k → WF F p.eval.1
    | .atom _ tok (v, u, pl), k, h => by
      obtain ⟨_, _, pre, depth, pre', hp⟩ := h
      exact parseNumberOrSpecial_wf tag _ v u pl _ hp
    | .const _ _ c, _, _ => const_wf c
    | .paren _ e _, k, h => Expr.eval_wf tag tm e _ h.2.2
    | .fn _ isDeg _ _ e _, k, h => by
      cases isDeg
      · exact Expr.eval_wf tag false e _ h.2.2.2.2
      · exact C19F.mul_wf C19F.ok64 _ _
end

/-- In a lexically well-formed tree a chain of unary signs negates the primary once per '-'. -/
theorem unary_value (tag : Nat) (tm : Bool) (ws : List Nat) (signs : List Bool) (p : Primary) (k : List Nat)
    (h : (Unary.mk ws signs p).lexOk tag tm k) :
    (Unary.mk ws signs p).eval.1 = if (signs.count true) % 2 = 1 then neg p.eval.1 else p.eval.1 := by
  have hwf := Primary.eval_wf tag tm p k h.2
  simp only [Unary.eval, signValue, signFold]
  split
  · exact C19F.mul_neg_one _ hwf
  · exact C19F.mul_one _ hwf

end SaphyrVerif.Lemmas.C19
